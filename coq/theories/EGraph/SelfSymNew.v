(* EGraph/SelfSymNew.v — SOURCE COHERENCE (`srcok` of SelfSymDefs.v) of the entry created by `eg_add` when the lookup
   misses: the new class i gets the syntactic node synf and the entry wshape synf = (sh, bij) with source i itself. *)
From SE Require Import Slots.SlotMapFacts Group.GroupSound Lang.LangFacts Lang.ShapeFacts Lang.RenameFacts
  Slots.SlotFacts Base.TextFacts EGraph.Model EGraph.ModelFacts EGraph.ModelMachine EGraph.PendingFacts EGraph.UnionFindFacts
  EGraph.InvariantFacts EGraph.UnionInvariantFacts EGraph.AddCoversFacts EGraph.MonotoneFacts EGraph.HashconsShape
  EGraph.Mod4Facts EGraph.HashconsAbs EGraph.Model9 EGraph.HashconsFacts EGraph.NodeCong EGraph.KidEqFacts EGraph.ShapeCong
  EGraph.CongruenceFacts EGraph.SoundFacts EGraph.SoundSyn EGraph.SoundNode.
From SE Require Import EGraph.SoundUnion EGraph.SoundAddNew EGraph.SoundAddExpr EGraph.KidsCov EGraph.SelfSymDefs.
Require Import ZArith Lia ZifyBool ZifyN ZifyNat.

Local Notation inv := inverse_nocheck.
Local Notation ectr := Model.ctr.

(* ================================================================== *)
(* 1. composition of two renamings (the first one capture free) *)

Lemma ssn_flag_comp : forall (g1 : bool -> slot -> slot) bd s,
  (existsb (N.eqb s) bd = false -> forall b, In b bd -> g1 true s <> g1 false b) ->
  existsb (N.eqb (g1 (negb (existsb (N.eqb s) bd)) s)) (map (g1 false) bd) = existsb (N.eqb s) bd.
Proof.
  intros g1 bd s H. destruct (existsb (N.eqb s) bd) eqn:E; cbn [negb].
  - apply existsb_exists in E. destruct E as (x & Hx & Ex). apply N.eqb_eq in Ex. subst x.
    apply existsb_exists. exists (g1 false s). split; [apply in_map; exact Hx|apply N.eqb_refl].
  - destruct (existsb (N.eqb (g1 true s)) (map (g1 false) bd)) eqn:E2; [|reflexivity].
    apply existsb_exists in E2. destruct E2 as (y & Hy & Ey). apply N.eqb_eq in Ey.
    apply in_map_iff in Hy. destruct Hy as (b & Eb & Hb). exfalso. apply (H eq_refl b Hb). congruence.
Qed.

Lemma ssn_ren_f_comp : forall (g1 g2 : bool -> slot -> slot) B a bd,
  incl bd B -> incl (binders_f a) B ->
  (forall s, In (s, true) (occ_flags_f bd a) -> forall b, In b B -> g1 true s <> g1 false b) ->
  ren_f g2 (map (g1 false) bd) (ren_f g1 bd a) = ren_f (fun f x => g2 f (g1 f x)) bd a.
Proof.
  intros g1 g2 B. induction a as [s|x|s b IH|p]; intros bd Hbd Hbi H; cbn [ren_f].
  - rewrite ssn_flag_comp; [reflexivity|]. intros E b Hb. apply H; [|apply Hbd; exact Hb].
    cbn [occ_flags_f]. left. rewrite E. reflexivity.
  - cbn [aid am]. f_equal. f_equal. unfold ren_vals. rewrite map_map. apply map_ext_in. intros [k v] Hin. cbn [fst snd].
    rewrite ssn_flag_comp; [reflexivity|]. intros E b Hb. apply H; [|apply Hbd; exact Hb].
    cbn [occ_flags_f]. apply in_map_iff. exists v. split; [rewrite E; reflexivity|].
    unfold values_vec. apply in_map_iff. exists (k, v). split; [reflexivity|exact Hin].
  - f_equal. change (g1 false s :: map (g1 false) bd) with (map (g1 false) (s :: bd)). apply IH.
    + intros y [<-|Hy]; [apply Hbi; left; reflexivity|apply Hbd; exact Hy].
    + intros y Hy. apply Hbi. right. exact Hy.
    + intros s' Hs'. apply H. cbn [occ_flags_f]. right. exact Hs'.
  - reflexivity.
Qed.

Lemma ssn_ren_comp : forall (g1 g2 : bool -> slot -> slot) n,
  (forall x b, In x (pub_occ n) -> In b (binders n) -> g1 true x <> g1 false b) ->
  RenameFacts.ren g2 (RenameFacts.ren g1 n) = RenameFacts.ren (fun f x => g2 f (g1 f x)) n.
Proof.
  intros g1 g2 n H. unfold RenameFacts.ren. cbn [nvar nargs]. f_equal. rewrite map_map. apply map_ext_in. intros a Ha.
  apply (ssn_ren_f_comp g1 g2 (binders n) a []).
  - intros y [].
  - intros y Hy. unfold binders. apply in_flat_map. exists a. split; assumption.
  - intros s Hs b Hb. apply H; [|exact Hb]. apply occ_flags_true_pub. unfold occ_flags. apply in_flat_map. exists a. split; assumption.
Qed.

(* ================================================================== *)
(* 2. small facts *)

Lemma ssn_covers_alloc : forall s s' cn a, classes s' = classes s ++ [cn] -> covers s a -> covers s' a.
Proof.
  intros s s' cn a C (c & Hc & R). exists c. split; [apply (get_class_ext_old s s' cn C); exact Hc|exact R].
Qed.

Lemma ssn_covers_sem : forall s s' a, sem_eq s s' -> covers s a -> covers s' a.
Proof.
  intros s s' a E (c & Hc & I & S). destruct (get_class_sem_ok s s' _ c E Hc) as (c' & Hc' & Cs).
  apply csem_inv in Cs. destruct Cs as (Es & _). exists c'. split; [exact Hc'|]. split; [exact I|]. rewrite Es. exact S.
Qed.

Lemma ssn_NoDup_map : forall (f : slot -> slot) l, NoDup l -> inj_on f l -> NoDup (map f l).
Proof.
  intros f. induction l as [|x t IH]; intros ND I; cbn [map]; [constructor|].
  inversion ND as [|x0 t0 Nx Nt]; subst. constructor.
  - intros Hin. apply in_map_iff in Hin. destruct Hin as (y & Ey & Hy).
    assert (y = x) by (apply I; [right; exact Hy|left; reflexivity|exact Ey]). subst y. contradiction.
  - apply IH; [exact Nt|]. intros a b Ha Hb. apply I; right; assumption.
Qed.

(* ================================================================== *)
(* 3. the theorem *)

Theorem src_new : forall n t s en1 c1 en2 en3 s3 f2o c2 synf s3a sh bij s4,
  inv3 s -> m4 s -> pending s = [] -> hc_ok s -> Model.ctr s mod 4 = 1 -> node_pre s n -> shape s n = Ok t ->
  lookup_internal s t = Ok None ->
  refresh_private (fst t) (Model.ctr s) = (Ok en1, c1) -> apply_slotmap false (snd t) en1 = Ok en2 ->
  synify_enode en2 (set_ctr s c1) = Ok (en3, s3) ->
  bijection_from_fresh_to (slots en3) (Model.ctr s3) = (f2o, c2) ->
  apply_slotmap_fresh false (inverse_nocheck f2o) en3 c2 = (synf, c2) ->
  alloc_eclass (values (inverse_nocheck f2o)) synf (set_ctr (set_ctr s3 c2) c2) = Ok (N.of_nat (lc s3), s3a) ->
  wshape synf = Ok (sh, bij) ->
  raw_add_to_class (N.of_nat (lc s3)) (sh, bij) (N.of_nat (lc s3)) s3a = Ok (tt, s4) -> inv3 s4 ->
  srcok s4 (N.of_nat (lc s3)) sh bij (N.of_nat (lc s3)).
Proof.
  intros n [sh_t bij_t] s en1 c1 en2 en3 s3 f2o c2 synf s3a sh bij s4 I3 M4 Pe HC Cm NP Hshape Hlk RP H2 H3 BF ASF AL Hsh RA I4.
  cbn [fst snd] in RP, H2.
  destruct NP as (Cvn & Bn & NDn).
  unfold shape in Hshape. destruct (pre_shape s n) as [p|] eqn:P; cbn [bind] in Hshape; [|discriminate].
  assert (Pp : incl (pub_occ p) (pub_occ n)).
  { unfold pre_shape in P.
    destruct (find_enode s n) as [n1|] eqn:F1; cbn [bind] in P; [|discriminate].
    destruct (variants s n1) as [vs|] eqn:V; cbn [bind] in P; [|discriminate].
    apply min_variant_in in P. destruct P as [P|[k P]]; [|discriminate].
    destruct (find_enode_sub s n n1 F1) as (_ & P1). destruct (variants_sub s n1 vs p V P) as (_ & P2).
    intros x Hx. apply P1, P2, Hx. }
  pose proof (pre_shape_covers s n p I3 Cvn P) as Cv.
  assert (Bp : forall x, In x (pub_occ p) -> x mod 4 <> 1 \/ x < ectr s).
  { intros x Hx. destruct (Bn x (Pp x Hx)); [right|left]; assumption. }
  (* the counter *)
  pose proof (refresh_private_step sh_t (ectr s)) as St1. rewrite RP in St1. cbn [snd] in St1.
  pose proof (ctr_step_le _ _ St1) as Le1.
  pose proof (core_synify_enode ctr_rel ctr_core en2 _ _ _ H3) as St3. unfold ctr_rel in St3. cbn [Model.ctr set_ctr] in St3.
  assert (Cm3 : ectr s3 mod 4 = 1) by (rewrite (ctr_step_mod _ _ St3), (ctr_step_mod _ _ St1); exact Cm).
  pose proof (ctr_step_le _ _ St3) as Le3.
  (* p and en2 *)
  destruct (pre_node_equiv p sh_t bij_t (ectr s) en1 c1 en2 Hshape RP H2 Cm Bp) as [Q1 Bi2].
  pose proof (kc_covers_child_inj s _ _ Cv (kc_child_inj_node _ _ _ Q1)) as Cv2.
  destruct (refresh_private_spec _ _ _ _ RP) as (_ & Bi1 & _).
  pose proof (synify_enode_binders _ _ _ _ H3) as Bi3.
  assert (Hb : Forall (fun b => b < ectr s3) (binders en3)).
  { rewrite Bi3, Bi2. revert Bi1. apply Forall_impl. intros b ((_ & Hb) & _). lia. }
  assert (All2 : forall v, In v (all_occ en2) -> v mod 4 <> 1 \/ v < c1).
  { intros v Hall.
    apply (Permutation.Permutation_in _ (occ_partition en2)) in Hall. apply in_app_or in Hall. destruct Hall as [Hp|Hp].
    - rewrite (equiv_pub _ _ _ (proj2 (proj2 Q1))), map_id in Hp. destruct (Bp _ Hp); [left; assumption|right; lia].
    - apply prv_binders in Hp. rewrite Bi2 in Hp. pose proof (proj1 (Forall_forall _ _) Bi1 v Hp) as T. cbv beta in T. right. lia. }
  assert (Vv2 : Forall (fun x2 => kc_vbv (ectr (set_ctr s c1)) (am x2)) (app_occ en2)).
  { apply Forall_forall. intros x2 Hx2 v Hv. cbn [Model.ctr set_ctr]. apply All2. exact (vals_all_occ en2 x2 v Hx2 Hv). }
  assert (Vb2 : Forall (fun x2 => injective (am x2) /\ vbound (ectr (set_ctr s c1)) (am x2)) (app_occ en2)).
  { apply Forall_forall. intros x2 Hx2. destruct (proj1 (Forall_forall _ _) Cv2 x2 Hx2) as (c & _ & Ix2 & _).
    split; [exact Ix2|]. apply kc_vbv_vbound. exact (proj1 (Forall_forall _ _) Vv2 x2 Hx2). }
  assert (Cm1 : ectr (set_ctr s c1) mod 4 = 1) by (cbn [Model.ctr set_ctr]; rewrite (ctr_step_mod _ _ St1); exact Cm).
  assert (Cv3 : Forall (covers s) (app_occ en3)).
  { pose proof H3 as H3c. unfold synify_enode in H3c. apply mbind_inv in H3c. destruct H3c as (l & s1 & H3c & H3'). inversion H3'; subst en3 s1; clear H3'.
    rewrite app_occ_set_apps by (eapply mapM_length; eauto).
    exact (kc_covers_child_ext s _ _ Cv2 (mapM_synify_rel _ _ _ _ H3c Cm1 Vb2)). }
  destruct (fresh_rename_equiv en3 (ectr s3) f2o c2 synf Hb BF ASF) as [Q3 _].
  pose proof (kc_covers_child_inj s _ _ Cv3 (kc_child_inj_node _ _ _ Q3)) as Cvf.
(* the classes: s, s2 (the counter moved), s3a (one class more), s4 (the entry) *)
  pose proof (cls_synify_enode _ _ _ _ H3) as [C13 _]. cbn [classes set_ctr] in C13.
  pose proof (alloc_eclass_exact _ _ _ _ _ AL) as (_ & _ & C & _).
  set (s2 := set_ctr (set_ctr s3 c2) c2) in *.
  assert (C2 : classes s2 = classes s) by (unfold s2; cbn [classes set_ctr]; exact C13).
  set (cn := {| c_nodes := []; c_slots := values (inv f2o); c_usages := [];
                c_group := Grp (identity (values (inv f2o))) None; c_syn := synf |}) in *.
  destruct (s_raw_add _ _ _ _ _ _ RA) as [Q _].
  assert (Cvf4 : Forall (covers s4) (app_occ synf)).
  { revert Cvf. apply Forall_impl. intros x Cx. apply (ssn_covers_sem s3a s4 x Q). apply (ssn_covers_alloc s2 s3a cn x C).
    exact (covers_classes s s2 x C2 Cx). }
  pose proof (get_class_ext_new s2 s3a cn C) as Hcn. change (lc s2) with (lc s3) in Hcn.
  destruct (get_class_sem_ok s3a s4 _ cn Q Hcn) as (c4 & Hc4 & Cs). apply csem_inv in Cs. destruct Cs as (Es4 & _ & Ey4).
  cbn [c_slots c_syn cn] in Es4, Ey4.
  pose proof (fresh_rename_spec en3 (ectr s3) f2o c2 Hb BF) as R. cbv zeta in R. rewrite ASF in R. cbn [fst snd] in R.
  destruct R as (_ & _ & Bif & Sl & _ & Pb & _).
  (* the weak shape of synf is a renaming of synf *)
  assert (NDf : NoDup (binders synf)).
  { rewrite Bif, Bi3, Bi2. destruct (refresh_private_ren _ _ _ _ RP) as (gr & Er & _ & Ir & _). rewrite Er, ren_binders.
    apply ssn_NoDup_map; [exact (ws_binders_nodup _ _ _ Hshape)|exact Ir]. }
  destruct (wshape_fwd synf sh bij Hsh NDf) as (g0 & Esh & (G1 & G2 & G3)).
  destruct (shape_bij _ _ _ Hsh) as (B1 & B2 & B3).
  pose proof (apply_slotmap_ok bij sh (fun x Hx => proj2 (B2 x) Hx)) as AP.
  set (gc := fun (f : bool) (x : slot) => asm_g bij f (g0 f x)).
  assert (EN1 : RenameFacts.ren (asm_g bij) sh = RenameFacts.ren gc synf).
  { rewrite Esh. exact (ssn_ren_comp g0 (asm_g bij) synf G2). }
  assert (Ps : pub_occ sh = map (g0 true) (pub_occ synf)) by (rewrite Esh; exact (ren_pub_occ g0 synf G1 G2)).
  assert (Idf : forall x, In x (pub_occ synf) -> gc true x = x).
  { intros x Hx. rewrite Ps, map_map in B3. pose proof (ext_in_map B3 x Hx) as T. cbv beta in T.
    unfold gc, asm_g. rewrite T. reflexivity. }
  assert (RO : ren_ok gc synf).
  { split; [|split].
    - intros x y Hx Hy E. unfold gc, asm_g in E. exact (G1 x y Hx Hy E).
    - intros x b Hx Hbn E. rewrite (Idf x Hx) in E. unfold gc, asm_g in E.
      assert (Hin : In (g0 false b) (binders sh)) by (rewrite Esh, ren_binders; apply in_map; exact Hbn).
      apply binders_all_occ in Hin. apply (shape_all_occ_mod4 _ _ _ Hsh) in Hin.
      destruct (Pb x Hx) as (_ & Mx). rewrite <- E in Hin. lia.
    - intros x y Hx Hy E. rewrite (Idf x Hx), (Idf y Hy) in E. exact E. }
  pose proof RO as (RO1 & RO2 & RO3).
  (* the children of the entry cover *)
  assert (CvN : Forall (covers s4) (app_occ (RenameFacts.ren gc synf))).
  { destruct (ren_equiv gc synf RO1 RO2 RO3) as (Sk & rho & Ir & Pr).
    exact (kc_covers_child_inj s4 _ _ Cvf4 (kc_child_inj_node rho synf _ (conj Sk (conj Ir Pr)))). }
  destruct I4 as [[E4 _] _]. pose proof E4 as [U4 S4 _].
  exists c4, (RenameFacts.ren gc synf). split; [exact Hc4|]. split; [rewrite <- EN1; exact AP|].
  exists c4, gc, (app_occ (RenameFacts.ren gc synf)). rewrite Ey4.
  split; [exact Hc4|]. split; [exact RO|]. split; [symmetry; apply set_apps_self|]. split.
  - clear -CvN U4 S4. induction CvN as [|x l Cx F IH]; constructor; [|exact IH].
    split; [exact Cx|]. split; [exact Cx|]. exact (eg_eq_refl_inv s4 x U4 S4 Cx).
  - assert (Em : rho_map gc (slots synf) = identity (c_slots c4)).
    { rewrite Es4, <- Sl. unfold rho_map, identity. f_equal. apply map_ext_in. intros x Hx. rewrite Idf; [reflexivity|].
      apply slots_spec. exact Hx. }
    rewrite Em. pose proof (covers_identity s4 _ c4 Hc4) as Ci.
    split; [exact Ci|]. split; [exact Ci|]. exact (eg_eq_refl_inv s4 _ U4 S4 Ci).
Qed.

Print Assumptions src_new.
