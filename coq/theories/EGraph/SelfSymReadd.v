(* EGraph/SelfSymReadd.v — SOURCE COHERENCE of the entry re-added by handle_pending (`src_readd`):
   the e-node sh'[bij ** m] stored in the leader class is coherent with its source. *)
From SE Require Import Slots.SlotMapFacts Group.GroupSound Lang.LangFacts Lang.ShapeFacts Lang.RenameFacts
  Slots.SlotFacts Base.TextFacts EGraph.Model EGraph.ModelFacts EGraph.ModelMachine EGraph.PendingFacts EGraph.UnionFindFacts
  EGraph.InvariantFacts EGraph.UnionInvariantFacts EGraph.AddCoversFacts EGraph.MonotoneFacts EGraph.HashconsShape
  EGraph.Mod4Facts EGraph.HashconsAbs EGraph.Model9 EGraph.HashconsFacts EGraph.NodeCong EGraph.KidEqFacts EGraph.ShapeCong
  EGraph.CongruenceFacts EGraph.SelfSymDefs.
From SE Require EGraph.SoundAddNew EGraph.SoundUnion.
Require Import ZArith Lia ZifyBool ZifyN ZifyNat List.
Import ListNotations.
Local Notation "a ** b" := (compose_partial a b) (at level 40, left associativity).
Local Notation inv := inverse_nocheck.
Local Notation ectr := Model.ctr.
Local Open Scope N_scope.

(* ================================================================== *)
(* 1. composition of renamings *)

Definition comp2 (h g : bool -> slot -> slot) : bool -> slot -> slot := fun b x => h b (g b x).

Lemma rr_existsb_in : forall (s : slot) l, existsb (N.eqb s) l = true <-> In s l.
Proof.
  intros s l. split.
  - intros H. apply existsb_exists in H. destruct H as [y [Hy He]]. apply N.eqb_eq in He. subst y. exact Hy.
  - intros H. apply existsb_exists. exists s. split; [exact H|apply N.eqb_refl].
Qed.

Lemma rr_key : forall (g : bool -> slot -> slot) bound s,
  (negb (existsb (N.eqb s) bound) = true -> forall b, In b bound -> g true s <> g false b) ->
  existsb (N.eqb (g (negb (existsb (N.eqb s) bound)) s)) (map (g false) bound) = existsb (N.eqb s) bound.
Proof.
  intros g bound s H. destruct (existsb (N.eqb s) bound) eqn:E; cbn [negb] in *.
  - apply rr_existsb_in. apply in_map. apply rr_existsb_in. exact E.
  - destruct (existsb (N.eqb (g true s)) (map (g false) bound)) eqn:E2; [|reflexivity].
    exfalso. apply rr_existsb_in in E2. apply in_map_iff in E2. destruct E2 as [b [Hb1 Hb2]].
    apply (H eq_refl b Hb2). symmetry. exact Hb1.
Qed.

Lemma ren_f_ren_f : forall h g a bound,
  (forall x, In (x, true) (occ_flags_f bound a) -> forall b, In b (bound ++ binders_f a) -> g true x <> g false b) ->
  ren_f h (map (g false) bound) (ren_f g bound a) = ren_f (comp2 h g) bound a.
Proof.
  intros h g. induction a as [s|x|s b IH|p]; intros bound H; cbn [ren_f occ_flags_f binders_f aid am] in *.
  - rewrite rr_key.
    + reflexivity.
    + intros Hu b Hb. apply H; [left; rewrite Hu; reflexivity|apply in_or_app; left; exact Hb].
  - f_equal. f_equal. unfold ren_vals. rewrite map_map. apply map_ext_in.
    intros [k v] Hkv. cbn [fst snd]. rewrite rr_key.
    + reflexivity.
    + intros Hu b Hb. apply H; [|apply in_or_app; left; exact Hb].
      apply in_map_iff. exists v. split; [rewrite Hu; reflexivity|].
      unfold values_vec. apply in_map_iff. exists (k, v). split; [reflexivity|exact Hkv].
  - f_equal. change (g false s :: map (g false) bound) with (map (g false) (s :: bound)).
    apply IH. intros x Hx b0 Hb0. apply H; [right; exact Hx|].
    apply in_or_app. cbn [In app] in Hb0. destruct Hb0 as [Hb0|Hb0].
    + right. left. exact Hb0.
    + apply in_app_or in Hb0. destruct Hb0 as [Hb0|Hb0]; [left; exact Hb0|right; right; exact Hb0].
  - reflexivity.
Qed.

Lemma ren_ren : forall h g n,
  (forall x b, In x (pub_occ n) -> In b (binders n) -> g true x <> g false b) ->
  RenameFacts.ren h (RenameFacts.ren g n) = RenameFacts.ren (comp2 h g) n.
Proof.
  intros h g n H. unfold RenameFacts.ren. cbn [nvar nargs]. f_equal.
  rewrite map_map. apply map_ext_in. intros a Ha.
  change (@nil slot) with (map (g false) (@nil slot)) at 1.
  apply ren_f_ren_f. intros x Hx b Hb. cbn [app] in Hb. apply H.
  - apply occ_flags_true_pub. unfold occ_flags. apply in_flat_map. exists a. split; assumption.
  - unfold binders. apply in_flat_map. exists a. split; assumption.
Qed.

Lemma ren_ok_comp : forall h g n, ren_ok g n -> ren_ok h (RenameFacts.ren g n) -> ren_ok (comp2 h g) n.
Proof.
  intros h g n (G1 & G2 & G3) (H1 & H2 & H3).
  rewrite ren_binders in H1, H2. rewrite (ren_pub_occ g n G1 G2) in H2, H3.
  unfold ren_ok, comp2. split; [|split].
  - intros x y Hx Hy E. apply G1; [assumption|assumption|].
    apply H1; [apply in_map; assumption|apply in_map; assumption|exact E].
  - intros x b Hx Hb. apply H2; apply in_map; assumption.
  - intros x y Hx Hy E. apply G3; [assumption|assumption|].
    apply H3; [apply in_map; assumption|apply in_map; assumption|exact E].
Qed.


(* ================================================================== *)
(* 2. the pre-shape of the node in flight is coherent *)

Lemma fp_Forall2_trans : forall {A} (P : A -> A -> Prop) l1 l2 l3,
  (forall x y z, P x y -> P y z -> P x z) -> Forall2 P l1 l2 -> Forall2 P l2 l3 -> Forall2 P l1 l3.
Proof.
  intros A P l1 l2 l3 T F. revert l3. induction F as [|x y l1 l2 Hxy F IH]; intros l3 G.
  - inversion G; subst. constructor.
  - inversion G as [|y' z l2' l3' Hyz G']; subst. constructor; [exact (T _ _ _ Hxy Hyz)|apply IH; exact G'].
Qed.

Lemma fp_zip_gvar_wf : forall apps (l : list perm) b, In b (zip_with gvar apps l) -> wf (am b).
Proof.
  induction apps as [|a apps IH]; intros l b Hb; cbn [zip_with] in Hb.
  - destruct Hb.
  - destruct l as [|pp l]; [destruct Hb|]. destruct Hb as [E|Hb].
    + subst b. unfold gvar. cbn [am]. apply compose_partial_wf.
    + exact (IH l b Hb).
Qed.

Lemma flight_pre : forall s a N1 src p, eg_inv s -> srcok_inv s a N1 src ->
  find_enode s N1 = Ok N1 -> pre_shape s N1 = Ok p ->
  srcok_inv s a p src /\ binders p = binders N1 /\ incl (pub_occ p) (pub_occ N1) /\
  (forall b, In b (app_occ p) -> wf (am b)).
Proof.
  intros s a N1 src p Hs S Fe Hp.
  pose proof S as (csrc & g & l & Hc & Rk & EN & F & K).
  pose proof (Forall2_length' _ _ _ F) as Len.
  assert (AO : app_occ N1 = l) by (rewrite EN; apply app_occ_set_apps; exact Len).
  unfold pre_shape in Hp. rewrite Fe in Hp. cbn [bind] in Hp.
  destruct (variants s N1) as [vs|] eqn:Ev; cbn [bind] in Hp; [|discriminate].
  assert (Hin : In p vs).
  { destruct (min_variant_in vs None p Hp) as [Hin|[k Hk]]; [exact Hin|discriminate]. }
  destruct (variants_sub s N1 vs p Ev Hin) as [Hb Hpub].
  assert (Cov : Forall (covers s) (app_occ N1)).
  { rewrite AO. clear - F. induction F as [|x y l0 l Hxy F IH]; constructor; [exact (proj1 (proj2 Hxy))|exact IH]. }
  pose proof (found_kids s N1 N1 Hs Cov Fe) as FK.
  assert (CK : forall a0, In a0 (app_occ N1) -> ckid s a0).
  { intros a0 Ha0. destruct (FK a0 Ha0) as [C L]. split; [exact L|exact C]. }
  destruct (variants_inv s N1 vs CK Ev) as (cls & Ecls & [[Triv Evs]|[NTriv (groups & Eg & Fg & Evs)]]).
  - subst vs. destruct Hin as [E|[]]. subst p.
    split; [exact S|]. split; [reflexivity|]. split; [apply incl_refl|].
    intros b Hb'. destruct (FK b Hb') as [_ (e & c & _ & _ & _ & _ & _ & W & _)]. exact W.
  - subst vs. apply in_map_iff in Hin. destruct Hin as (perms & Ep & Hperms).
    set (l2 := zip_with gvar (app_occ N1) perms) in *.
    assert (F2 : Forall2 (kid_eq s) (app_occ N1) l2).
    { unfold l2. apply (zip_cart_gvar (kid_eq s) (app_occ N1) groups); [|exact Hperms].
      clear - Fg Hs. induction Fg as [|x G la lg Hx Fg IH]; constructor; [|exact IH].
      intros pp Hpp. destruct Hx as [[L C] (c & Gc & Ga)].
      exact (gvar_eg_eq s x c G pp Hs C L Gc Ga Hpp). }
    pose proof (Forall2_length' _ _ _ F2) as Len2.
    assert (App : app_occ p = l2).
    { rewrite <- Ep. apply app_occ_set_apps. exact Len2. }
    split.
    + exists csrc, g, l2. split; [exact Hc|]. split; [exact Rk|]. split.
      * rewrite <- Ep. rewrite EN. apply set_apps_twice. rewrite AO in Len2. lia.
      * split; [|exact K]. rewrite AO in F2.
        exact (fp_Forall2_trans (kid_eq s) _ l l2 (fun x y z H1 H2 => kid_eq_trans s x y z Hs H1 H2) F F2).
    + split; [exact Hb|]. split; [exact Hpub|].
      intros b Hb'. rewrite App in Hb'. exact (fp_zip_gvar_wf _ _ _ Hb').
Qed.


(* ================================================================== *)
(* 2b. renaming the two sides of a kid_eq under a bound list *)

Lemma kr_assoc_last_map_in : forall (f : slot -> slot) (l : list slot) (k : slot),
  In k l -> assoc_last (map (fun x => (x, f x)) l) k = Some (f k).
Proof.
  intros f l k. induction l as [|x t IH]; intros Hin.
  - destruct Hin.
  - cbn [map assoc_last].
    destruct (assoc_last (map (fun x0 => (x0, f x0)) t) k) as [v|] eqn:E.
    + apply assoc_last_in in E. apply in_map_iff in E. destruct E as (z & Ez & _).
      inversion Ez. subst. reflexivity.
    + destruct Hin as [Hx|Ht].
      * subst x. rewrite N.eqb_refl. reflexivity.
      * specialize (IH Ht). discriminate IH.
Qed.

Lemma kr_assoc_last_map_some : forall (f : slot -> slot) (l : list slot) (k v : slot),
  assoc_last (map (fun x => (x, f x)) l) k = Some v -> In k l /\ v = f k.
Proof.
  intros f l k v E. apply assoc_last_in in E. apply in_map_iff in E.
  destruct E as (z & Ez & Hz). inversion Ez. subst. split; [assumption|reflexivity].
Qed.

Definition kr_sg (f : slot -> slot) (l : list slot) : slotmap :=
  from_iter (map (fun x => (x, f x)) l).

Lemma kr_sg_wf : forall f l, wf (kr_sg f l).
Proof. intros f l. apply from_iter_wf. Qed.

Lemma kr_sg_in : forall f l k, In k l -> get (kr_sg f l) k = Some (f k).
Proof. intros f l k H. unfold kr_sg. rewrite get_from_iter. apply kr_assoc_last_map_in. assumption. Qed.

Lemma kr_sg_some : forall f l k v, get (kr_sg f l) k = Some v -> In k l /\ v = f k.
Proof. intros f l k v H. unfold kr_sg in H. rewrite get_from_iter in H. apply kr_assoc_last_map_some in H. assumption. Qed.

Lemma kr_sg_injective : forall f l,
  (forall x y, In x l -> In y l -> f x = f y -> x = y) -> injective (kr_sg f l).
Proof.
  intros f l Hinj k1 k2 v H1 H2. apply kr_sg_some in H1, H2.
  destruct H1 as (I1 & E1). destruct H2 as (I2 & E2). apply Hinj; [assumption|assumption|congruence].
Qed.

Lemma kr_get_values : forall (m : slotmap) k v, get m k = Some v -> In v (values_vec m).
Proof.
  intros m k v H. apply get_in in H. unfold values_vec.
  change v with (snd (k, v)). apply in_map. assumption.
Qed.

Lemma kr_ren_vals_wf : forall g bd m, wf m -> wf (ren_vals g bd m).
Proof. intros g bd m W. rewrite ren_vals_map_vals. apply map_vals_wf. assumption. Qed.

Lemma covers_rv : forall s (G : bool -> slot -> slot) bd a,
  covers s a ->
  (forall x y, In x (values_vec (am a)) -> In y (values_vec (am a)) ->
     G (negb (existsb (N.eqb x) bd)) x = G (negb (existsb (N.eqb y) bd)) y -> x = y) ->
  covers s (rv G bd a).
Proof.
  intros s G bd a (c & Hc & Hinj & Hsub) HG. exists c. unfold rv. cbn [aid am].
  split; [assumption|]. split.
  - intros k1 k2 v H1 H2. rewrite SoundUnion.get_ren_vals in H1, H2.
    destruct (get (am a) k1) as [y1|] eqn:E1; [|discriminate].
    destruct (get (am a) k2) as [y2|] eqn:E2; [|discriminate].
    cbn [option_map] in H1, H2.
    assert (Hy : y1 = y2).
    { apply HG; [eapply kr_get_values; eauto|eapply kr_get_values; eauto|congruence]. }
    subst y2. eapply Hinj; eauto.
  - intros k Hk. rewrite SoundUnion.get_ren_vals. specialize (Hsub k Hk).
    destruct (get (am a) k) as [y|]; [cbn [option_map]; discriminate|congruence].
Qed.

Lemma kid_eq_rv : forall s (G : bool -> slot -> slot) bd a b, eg_inv s -> kid_eq s a b -> wf (am b) ->
  (forall x y, In x (values_vec (am a) ++ values_vec (am b)) -> In y (values_vec (am a) ++ values_vec (am b)) ->
     G (negb (existsb (N.eqb x) bd)) x = G (negb (existsb (N.eqb y) bd)) y -> x = y) ->
  kid_eq s (rv G bd a) (rv G bd b).
Proof.
  intros s G bd a b Hinv (Ca & Cb & E) Wb HG.
  set (G' := fun x => G (negb (existsb (N.eqb x) bd)) x) in *.
  set (L := values_vec (am a) ++ values_vec (am b)) in *.
  assert (Cra : covers s (rv G bd a)).
  { apply covers_rv; [assumption|]. intros x y Hx Hy. apply HG; unfold L; apply in_or_app; left; assumption. }
  assert (Crb : covers s (rv G bd b)).
  { apply covers_rv; [assumption|]. intros x y Hx Hy. apply HG; unfold L; apply in_or_app; right; assumption. }
  split; [assumption|]. split; [assumption|].
  pose proof (ei_uf _ Hinv) as Huf.
  (* the canonical form of a *)
  destruct (find_applied_id s a) as [a1|] eqn:Fa; [|unfold eg_eq in E; rewrite Fa in E; discriminate].
  pose proof (kid_eq_find _ _ _ Hinv Ca Fa) as (_ & Ca1 & Eaa1).
  assert (Ea1b : eg_eq s a1 b = Ok true).
  { eapply eg_eq_trans_true with (b := a); try assumption.
    apply eg_eq_sym_true; assumption. }
  pose proof (find_idempotent _ _ _ Huf Fa) as Fa1.
  unfold find_applied_id in Fa.
  destruct (unionfind_get s (aid a)) as [p|] eqn:Hp; cbn [bind] in Fa; [|discriminate].
  inversion Fa as [Ha1]. clear Fa.
  pose proof (unionfind_get_wf _ _ _ Huf Hp) as Wp.
  set (sg := kr_sg G' L).
  assert (Wa1 : wf (am a1)) by (subst a1; cbn [am]; apply compose_partial_wf).
  assert (Isg : injective sg).
  { apply kr_sg_injective. intros x y Hx Hy Hxy. apply HG; assumption. }
  assert (Va1 : forall k y, get (am a1) k = Some y -> In y L).
  { intros k y Hk. apply kr_get_values in Hk. subst a1. cbn [am] in Hk.
    apply compose_values_sub' in Hk. unfold L. apply in_or_app. left. assumption. }
  assert (R : eg_eq s {| aid := aid a1; am := am a1 ** sg |} {| aid := aid b; am := am b ** sg |} = Ok true).
  { apply eg_eq_rename; try assumption.
    intros k y Hk. unfold sg. rewrite (kr_sg_in G' L y (Va1 _ _ Hk)). discriminate. }
  assert (Eb : am b ** sg = ren_vals G bd (am b)).
  { apply ext_eq; [apply compose_partial_wf|apply kr_ren_vals_wf; assumption|].
    intros k. rewrite get_compose_partial by assumption. rewrite SoundUnion.get_ren_vals.
    destruct (get (am b) k) as [y|] eqn:Ek; [|reflexivity].
    cbn [option_map]. unfold sg. rewrite kr_sg_in; [reflexivity|].
    unfold L. apply in_or_app. right. eapply kr_get_values; eauto. }
  rewrite Eb in R. fold (rv G bd b) in R.
  rewrite <- R. apply eg_eq_find_congr; [|reflexivity].
  (* find of the renamed a *)
  assert (F2 : find_applied_id s {| aid := aid a1; am := am a1 ** sg |} =
               Ok {| aid := aid a1; am := am a1 ** sg |}).
  { apply (find_compose s (aid a1) (am a1) sg a1 Huf Wa1).
    destruct a1 as [i1 m1]. cbn [aid am]. assumption. }
  rewrite F2. unfold find_applied_id, rv. cbn [aid am]. rewrite Hp. cbn [bind].
  f_equal. subst a1. cbn [aid am]. f_equal.
  apply ext_eq; [apply compose_partial_wf|apply compose_partial_wf|].
  intros k. rewrite get_compose_partial by assumption.
  rewrite (get_compose_partial (am p ** am a) sg k) by apply compose_partial_wf.
  rewrite (get_compose_partial (am p) (am a) k) by assumption.
  destruct (get (am p) k) as [y|] eqn:Ey; [|reflexivity].
  rewrite SoundUnion.get_ren_vals.
  destruct (get (am a) y) as [z|] eqn:Ez; [|reflexivity].
  cbn [option_map]. unfold sg. rewrite kr_sg_in; [reflexivity|].
  unfold L. apply in_or_app. left. eapply kr_get_values; eauto.
Qed.


(* ================================================================== *)
(* 3. auxiliary facts *)

Lemma get_fmap : forall (f : slot -> slot) l k,
  get (from_iter (map (fun x => (x, f x)) l)) k = if existsb (N.eqb k) l then Some (f k) else None.
Proof.
  intros f l k. rewrite get_from_iter. induction l as [|x t IH]; cbn [map assoc_last existsb]; [reflexivity|].
  rewrite IH. destruct (existsb (N.eqb k) t); cbn [orb].
  - rewrite Bool.orb_true_r. reflexivity.
  - rewrite Bool.orb_false_r. destruct (k =? x) eqn:E; [apply N.eqb_eq in E; subst; reflexivity|reflexivity].
Qed.

Lemma existsb_eqb_in : forall (k : slot) l, existsb (N.eqb k) l = true <-> In k l.
Proof.
  intros k l. rewrite existsb_exists. split.
  - intros (x & Hx & E). apply N.eqb_eq in E. subst. exact Hx.
  - intros H. exists k. split; [exact H|apply N.eqb_refl].
Qed.

Lemma get_fmap_in : forall (f : slot -> slot) l k, In k l -> get (from_iter (map (fun x => (x, f x)) l)) k = Some (f k).
Proof. intros f l k H. rewrite get_fmap. rewrite (proj2 (existsb_eqb_in k l) H). reflexivity. Qed.

Lemma get_fmap_some : forall (f : slot -> slot) l k v, get (from_iter (map (fun x => (x, f x)) l)) k = Some v -> v = f k.
Proof. intros f l k v H. rewrite get_fmap in H. destruct (existsb (N.eqb k) l); [inversion H; reflexivity|discriminate]. Qed.

Lemma get_rho_map : forall g sl k, get (rho_map g sl) k = if existsb (N.eqb k) sl then Some (g true k) else None.
Proof. intros g sl k. unfold rho_map. apply (get_fmap (g true)). Qed.

(* the renaming of the public slots: m where defined, an injective junk value (3 mod 4) elsewhere *)
Definition Gm (m : slotmap) (y : slot) : slot := match get m y with Some z => z | None => 4 * y + 3 end.
Definition GG (m : slotmap) (gs : bool -> slot -> slot) : bool -> slot -> slot :=
  fun b x => if b then Gm m x else gs false x.

Lemma Gm_inj : forall m x y, injective m -> (forall k v, get m k = Some v -> v mod 4 = 1) -> Gm m x = Gm m y -> x = y.
Proof.
  intros m x y I V E. unfold Gm in E.
  destruct (get m x) as [u|] eqn:Gx; destruct (get m y) as [v|] eqn:Gy.
  - subst v. exact (I _ _ _ Gx Gy).
  - apply V in Gx. subst u. rewrite N.add_mod, N.mul_comm, N.mod_mul in Gx by lia. vm_compute in Gx. discriminate.
  - apply V in Gy. subst v. rewrite N.add_mod, N.mul_comm, N.mod_mul in Gy by lia. vm_compute in Gy. discriminate.
  - lia.
Qed.

Lemma Gm_mod : forall m x, (forall k v, get m k = Some v -> v mod 4 = 1) -> Gm m x mod 4 = 1 \/ Gm m x mod 4 = 3.
Proof.
  intros m x V. unfold Gm. destruct (get m x) as [u|] eqn:Gx; [left; eapply V; eauto|right].
  rewrite N.add_mod, N.mul_comm, N.mod_mul by lia. reflexivity.
Qed.

Lemma abound_f_sub : forall a bd0 bd, In bd (abound_f bd0 a) -> incl bd (bd0 ++ binders_f a).
Proof.
  induction a as [x|x|x b IH|q]; intros bd0 bd H; cbn [abound_f binders_f] in *; try contradiction.
  - destruct H as [<-|[]]. rewrite app_nil_r. apply incl_refl.
  - apply IH in H. intros y Hy. apply H in Hy. apply in_app_or in Hy. apply in_or_app.
    destruct Hy as [[<-|Hy]|Hy]; [right; left; reflexivity|left; exact Hy|right; right; exact Hy].
Qed.

Lemma abounds_sub : forall n bd, In bd (abounds n) -> incl bd (binders n).
Proof.
  intros n bd H. unfold abounds in H. apply in_flat_map in H. destruct H as (a & Ha & H).
  apply abound_f_sub in H. cbn [app] in H. intros y Hy. unfold binders. apply in_flat_map. exists a. split; [exact Ha|apply H; exact Hy].
Qed.

Lemma Forall2_zip3 : forall {A B} (P Q : B -> B -> Prop) (f : A -> B -> B) la lb,
  Forall2 P la lb -> forall bds, (forall bd a b, In bd bds -> In b lb -> P a b -> Q (f bd a) (f bd b)) ->
  Forall2 Q (zip_with f bds la) (zip_with f bds lb).
Proof.
  intros A B P Q f la lb F. induction F as [|a b la lb Hab F IH]; intros bds H.
  - destruct bds; constructor.
  - destruct bds as [|bd t]; cbn [zip_with]; [constructor|]. constructor.
    + apply H; [left; reflexivity|left; reflexivity|exact Hab].
    + apply IH. intros bd' a' b' Hbd Hb Pab. apply H; [right; exact Hbd|right; exact Hb|exact Pab].
Qed.

Lemma covers_rename : forall s a sg, covers s a -> wf (am a) -> injective sg ->
  (forall k y, get (am a) k = Some y -> get sg y <> None) -> covers s {| aid := aid a; am := am a ** sg |}.
Proof.
  intros s a sg (c & Hc & Ia & Sk) W Isg D. exists c. cbn [aid am]. split; [exact Hc|]. split.
  - intros k1 k2 v H1 H2. rewrite get_compose_partial in H1, H2 by exact W.
    destruct (get (am a) k1) as [y1|] eqn:G1; [|discriminate]. destruct (get (am a) k2) as [y2|] eqn:G2; [|discriminate].
    pose proof (Isg _ _ _ H1 H2) as E. subst y2. exact (Ia _ _ _ G1 G2).
  - intros k Hk. rewrite get_compose_partial by exact W. specialize (Sk k Hk).
    destruct (get (am a) k) as [y|] eqn:G; [|congruence]. eapply D; eauto.
Qed.

(* ================================================================== *)
(* 4. the core: renaming a coherent node through its weak shape *)

Lemma readd_core : forall s p a a' src sh' bij m,
  eg_inv s -> srcok_inv s a p src -> NoDup (binders p) -> (forall b, In b (app_occ p) -> wf (am b)) ->
  wshape p = Ok (sh', bij) ->
  wf m -> injective m -> (forall x, In x (pub_occ p) -> get m x <> None) ->
  (forall k v, get m k = Some v -> v mod 4 = 1) ->
  wf (am a) -> wf (am a') -> aid a' = aid a -> (forall k, get (am a') k = option_map (Gm m) (get (am a) k)) ->
  exists N1', apply_slotmap false (bij ** m) sh' = Ok N1' /\ srcok_inv s a' N1' src.
Proof.
  intros s p a a' src sh' bij m Hs (csrc & g & l & Hc & Rk & EN & F & K) ND Wk W Wm Im Tm Vm Wa Wa' Ea Ga.
  set (syn := c_syn csrc) in *. set (R := RenameFacts.ren g syn) in *.
  destruct (wshape_fwd p sh' bij W ND) as (gs & Esh & Rs).
  destruct (shape_bij _ _ _ W) as (B1 & B2 & B3).
  destruct (shape_bij_props _ _ _ W) as (Wb & _ & _).
  pose proof Rs as (Rs1 & Rs2 & Rs3). pose proof Rk as (Rk1 & Rk2 & Rk3).
  assert (Psh : pub_occ sh' = map (gs true) (pub_occ p)) by (rewrite Esh; apply ren_pub_occ; assumption).
  assert (Gb : forall x, In x (pub_occ p) -> get bij (gs true x) = Some x).
  { rewrite Psh, map_map in B3. intros x Hx. exact (proj1 map_ext_in_iff B3 x Hx). }
  assert (Gbm : forall x, In x (pub_occ p) -> get (bij ** m) (gs true x) = get m x).
  { intros x Hx. rewrite get_compose_partial by exact Wb. rewrite (Gb x Hx). reflexivity. }
  set (G := GG m gs).
  assert (Bp : binders p = binders R) by (rewrite EN; apply binders_set_apps').
  assert (Len : List.length l = List.length (app_occ R)) by (exact (Forall2_length' _ _ _ F)).
  assert (Al : app_occ p = l) by (rewrite EN; apply app_occ_set_apps; exact Len).
  assert (Bmod : forall b, In b (binders p) -> gs false b mod 4 = 0).
  { intros b Hb. apply (shape_all_occ_mod4 _ _ _ W). apply binders_all_occ. rewrite Esh, ren_binders. apply in_map. exact Hb. }
  assert (RG : ren_ok G R).
  { unfold ren_ok. rewrite <- Bp. split; [|split].
    - intros x y Hx Hy E. exact (Rs1 x y Hx Hy E).
    - intros x b _ Hb E. unfold G, GG in E. pose proof (Bmod b Hb) as M0.
      destruct (Gm_mod m x Vm) as [M|M]; rewrite E in M; rewrite M0 in M; discriminate.
    - intros x y _ _ E. exact (Gm_inj m x y Im Vm E). }
  assert (EN1 : RenameFacts.ren (asm_g (bij ** m)) sh' = RenameFacts.ren G p).
  { rewrite Esh, ren_ren by exact Rs2. apply ren_ext. intros x b Hxb. unfold comp2, G, GG. destruct b.
    - apply occ_flags_true_pub in Hxb. unfold asm_g. rewrite (Gbm x Hxb). unfold Gm.
      pose proof (Tm x Hxb) as T. destruct (get m x); [reflexivity|congruence].
    - reflexivity. }
  assert (EN2 : RenameFacts.ren G p = set_apps (RenameFacts.ren (comp2 G g) syn) (zip_with (rv G) (abounds R) l)).
  { rewrite EN. rewrite <- set_apps_ren. f_equal. unfold R. apply ren_ren. exact Rk2. }
  exists (RenameFacts.ren (asm_g (bij ** m)) sh'). split.
  { apply SoundUnion.apply_slotmap_ok. intros k Hk. rewrite Psh in Hk. apply in_map_iff in Hk. destruct Hk as (x & <- & Hx).
    rewrite Gbm by exact Hx. apply Tm; exact Hx. }
  exists csrc, (comp2 G g), (zip_with (rv G) (abounds R) l). fold syn.
  split; [exact Hc|]. split; [apply ren_ok_comp; assumption|]. split; [rewrite EN1; exact EN2|]. split.
  - rewrite <- (ren_ren G g syn Rk2). fold R. rewrite app_occ_ren.
    apply (Forall2_zip3 (kid_eq s) (kid_eq s) (rv G) _ _ F). intros bd x y Hbd Hy Pxy.
    apply kid_eq_rv; [exact Hs|exact Pxy|apply Wk; rewrite Al; exact Hy|]. intros u v _ _ E.
    pose proof (abounds_sub R bd Hbd) as Sb. rewrite <- Bp in Sb.
    unfold G, GG in E. destruct (existsb (N.eqb u) bd) eqn:Eu; destruct (existsb (N.eqb v) bd) eqn:Ev; cbn [negb] in E.
    + apply existsb_eqb_in in Eu, Ev. apply Rs1; [apply Sb; exact Eu|apply Sb; exact Ev|exact E].
    + apply existsb_eqb_in in Eu. exfalso. pose proof (Bmod u (Sb u Eu)) as M0.
      destruct (Gm_mod m v Vm) as [M|M]; rewrite <- E in M; rewrite M0 in M; discriminate.
    + apply existsb_eqb_in in Ev. exfalso. pose proof (Bmod v (Sb v Ev)) as M0.
      destruct (Gm_mod m u Vm) as [M|M]; rewrite E in M; rewrite M0 in M; discriminate.
    + exact (Gm_inj m u v Im Vm E).
  - destruct K as (Ca & Cb & E).
    set (sl := slots syn) in *.
    set (sg := from_iter (map (fun y => (y, Gm m y)) (values_vec (rho_map g sl) ++ values_vec (am a)))).
    assert (Isg : injective sg).
    { intros k1 k2 v H1 H2. apply get_fmap_some in H1, H2. apply (Gm_inj m k1 k2 Im Vm). congruence. }
    assert (D1 : forall k y, get (rho_map g sl) k = Some y -> get sg y = Some (Gm m y)).
    { intros k y H. apply get_fmap_in. apply in_or_app. left. eapply kr_get_values; eauto. }
    assert (D2 : forall k y, get (am a) k = Some y -> get sg y = Some (Gm m y)).
    { intros k y H. apply get_fmap_in. apply in_or_app. right. eapply kr_get_values; eauto. }
    assert (Wr : wf (rho_map g sl)) by apply from_iter_wf.
    assert (X1 : rho_map g sl ** sg = rho_map (comp2 G g) sl).
    { apply ext_eq; [apply compose_partial_wf|apply from_iter_wf|]. intros k. rewrite get_compose_partial by exact Wr.
      rewrite !get_rho_map. destruct (existsb (N.eqb k) sl) eqn:Ek; [|reflexivity].
      apply (D1 k). rewrite get_rho_map, Ek. reflexivity. }
    assert (X2 : am a ** sg = am a').
    { apply ext_eq; [apply compose_partial_wf|exact Wa'|]. intros k. rewrite get_compose_partial by exact Wa. rewrite Ga.
      destruct (get (am a) k) as [y|] eqn:Gk; cbn [option_map]; [apply (D2 k y Gk)|reflexivity]. }
    assert (C1 : covers s {| aid := src; am := rho_map g sl ** sg |}).
    { apply (covers_rename s {| aid := src; am := rho_map g sl |} sg Ca Wr Isg). cbn [am]. intros k y H. rewrite (D1 k y H). discriminate. }
    assert (C2 : covers s {| aid := aid a; am := am a ** sg |}).
    { apply (covers_rename s a sg Cb Wa Isg). intros k y H. rewrite (D2 k y H). discriminate. }
    assert (E' : eg_eq s {| aid := src; am := rho_map g sl ** sg |} {| aid := aid a; am := am a ** sg |} = Ok true).
    { apply (eg_eq_rename s {| aid := src; am := rho_map g sl |} a sg Hs Ca Cb Wr Wa Isg); [|exact E].
      cbn [am]. intros k y H. rewrite (D1 k y H). discriminate. }
    rewrite X1, X2 in *. destruct a' as [ia ma]. cbn [aid am] in *. subst ia.
    split; [exact C1|]. split; [exact C2|exact E'].
Qed.

(* ================================================================== *)
(* 5. the entry re-added by handle_pending *)

Theorem src_readd : forall s enode i1 src sh' bij m sC x sD,
  inv3 s -> m4 s -> tab_ok s -> srcok_inv s i1 enode src -> lcanon s i1 ->
  sset_subset (values (am i1)) (slots enode) = true -> NoDup (binders enode) ->
  (exists n0, find_enode s n0 = Ok enode) ->
  shape s enode = Ok (sh', bij) -> fill_fresh (values bij) (inv (am i1)) s = Ok (m, sC) ->
  raw_add_to_class (aid i1) (sh', bij ** m) src sC = Ok (x, sD) -> inv3 sD ->
  srcok sD (aid i1) sh' (bij ** m) src.
Proof.
  intros s enode i1 src sh' bij m sC x sD I3 M4 T Fl [Ld1 (cB & HcB & G1 & W1 & B1 & K1)] Sub ND (n0 & Fn) Ht Hm HD ID.
  pose proof I3 as [Hs2 _]. pose proof Hs2 as [Hs _].
  destruct (find_enode_idem s n0 enode (ei_uf s Hs) Fn) as [Fx _].
  unfold shape in Ht. destruct (pre_shape s enode) as [p|] eqn:Pp; cbn [bind] in Ht; [|discriminate].
  destruct (flight_pre s i1 enode src p Hs Fl Fx Pp) as (Flp & Bp & _ & Wk).
  destruct (shape_bij_props _ _ _ Ht) as (Wb & _ & _). destruct (shape_bij _ _ _ Ht) as (Sb1 & _ & _).
  pose proof (proj1 (is_bijection_injective _ W1) B1) as Inj1.
  destruct (fill_fresh_spec _ _ _ _ _ (inverse_wf (am i1)) Hm) as (Wm & _ & Keep & _).
  assert (Bnd : forall k v, get (inv (am i1)) k = Some v -> v < ectr s).
  { intros k v G. apply (get_inverse _ _ _ W1 B1) in G.
    assert (Hv : In v (c_slots cB)) by (rewrite <- K1; apply keys_spec; congruence).
    destruct (ei_cls s Hs _ _ HcB) as (_ & _ & Isyn). apply Isyn, slots_spec, pub_occ_all_occ in Hv.
    exact (proj2 Hs2 _ _ _ HcB Hv). }
  destruct (fill_fresh_inj _ _ _ _ _ (inverse_wf (am i1)) (inv_injective _ W1 Inj1) Bnd Hm) as [Injm _].
  destruct (SoundAddNew.fill_fresh_total _ _ _ _ _ Hm) as [_ Tot].
  assert (Vm : forall k v, get m k = Some v -> v mod 4 = 1).
  { assert (Vi : V1 (inv (am i1))).
    { apply V1_inverse. intros k v Hkv. apply (in_get _ _ _ W1) in Hkv.
      assert (Hk : In k (c_slots cB)) by (rewrite <- K1; apply keys_spec; congruence).
      destruct M4 as (_ & _ & C4). destruct (C4 cB (get_class_in _ _ _ HcB)) as (_ & S & _). exact (S k Hk). }
    destruct (h_fill_fresh _ _ Vi _ _ _ Hm M4) as [_ Vmm]. intros k v G. exact (Vmm k v (get_in _ _ _ G)). }
  assert (Tm : forall y, In y (pub_occ p) -> get m y <> None).
  { intros y Hy. apply Tot. apply (values_spec _ _ Wb). apply Sb1. exact Hy. }
  (* the stored node, coherent in s *)
  assert (S0 : srcok s (aid i1) sh' (bij ** m) src).
  { destruct (readd_core s p i1 {| aid := aid i1; am := identity (c_slots cB) |} src sh' bij m Hs Flp) as (N1' & A & S1');
      try assumption.
    - rewrite Bp. exact ND.
    - apply from_iter_wf.
    - reflexivity.
    - intros k. cbn [am]. rewrite get_identity. destruct (sset_mem k (c_slots cB)) eqn:Ek.
      + apply sset_mem_in in Ek. rewrite <- K1 in Ek. apply keys_spec in Ek.
        destruct (get (am i1) k) as [y|] eqn:Gk; [|congruence]. cbn [option_map]. f_equal.
        assert (Gi : get (inv (am i1)) y = Some k) by (apply (get_inverse _ _ _ W1 B1); exact Gk).
        unfold Gm. rewrite Keep by congruence. rewrite Gi. reflexivity.
      + destruct (get (am i1) k) as [y|] eqn:Gk; [|reflexivity]. exfalso.
        assert (Hk : In k (c_slots cB)) by (rewrite <- K1; apply keys_spec; congruence).
        apply sset_mem_in in Hk. congruence.
    - exists cB, N1'. split; [exact HcB|]. split; [exact A|exact S1']. }
  (* transfer to sD *)
  pose proof (s_fill_fresh _ _ _ _ _ Hm) as R1. destruct (semR_step4 _ _ R1 Hs2) as [HsC X1].
  pose proof (s_raw_add _ _ _ _ _ _ HD) as R2. destruct (semR_step4 _ _ R2 HsC) as [HsD X2].
  apply (srcok_kmono sC sD _ _ _ _ (proj1 HsD) (mext_kmono _ _ X2)).
  apply (srcok_kmono s sC _ _ _ _ (proj1 HsC) (mext_kmono _ _ X1)). exact S0.
Qed.

Print Assumptions src_readd.
