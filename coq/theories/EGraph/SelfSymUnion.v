(* EGraph/SelfSymUnion.v — SOURCE COHERENCE (`srcx` of EGraph/SelfSymDefs.v) through the union core.

   Architecture.  The intermediate states of `shrink_slots` do not keep all equalities of the start state (the
   generators that are dropped are only re-asserted by the following unions), so `srcx` itself is not an invariant of
   every intermediate state.  Instead we fix a LATER state sF and carry
       srcP E sF s := every entry stored in s is excepted or is source coherent IN sF   (`srcok sF i sh cb src`
   does not mention the storage of sF).  Steps that only drop / keep entries keep srcP trivially; `move_to` keeps srcP by
   the algebra of a moved entry (`srcok_moved`); the recursion is an induction on the fuel. *)
From SE Require Import Slots.SlotMapFacts Group.GroupSound Lang.LangFacts Lang.ShapeFacts Lang.RenameFacts
  Slots.SlotFacts Base.TextFacts EGraph.Model EGraph.ModelFacts EGraph.ModelMachine EGraph.PendingFacts EGraph.UnionFindFacts
  EGraph.InvariantFacts EGraph.UnionInvariantFacts EGraph.AddCoversFacts EGraph.MonotoneFacts EGraph.HashconsShape
  EGraph.Mod4Facts EGraph.HashconsAbs EGraph.Model9 EGraph.HashconsFacts EGraph.NodeCong EGraph.KidEqFacts EGraph.ShapeCong
  EGraph.CongruenceFacts EGraph.SelfSymDefs.
Require Import ZArith Lia ZifyBool ZifyN ZifyNat.

Local Notation "a ** b" := (compose_partial a b) (at level 40, left associativity).
Local Notation inv := inverse_nocheck.
Local Notation ectr := Model.ctr.

(* ================================================================== *)
(* 1. the carried relation *)

Definition srcP (E : node -> Prop) (sF s : egraph) : Prop :=
  forall i sh cb src, stored s i sh (cb, src) -> E sh \/ srcok sF i sh cb src.

Definition srcINV (s : egraph) : Prop := inv3 s /\ m4 s /\ tab_ok s.

Lemma P_init : forall E s sF, eg_inv sF -> mext s sF -> srcx E s -> srcP E sF s.
Proof.
  intros E s sF HF M S i sh cb src St. destruct (S i sh cb src St) as [A|A]; [left; exact A|right].
  eapply srcok_kmono; [exact HF|apply mext_kmono; exact M|exact A].
Qed.

Lemma P_final : forall E s, srcP E s s -> srcx E s.
Proof. intros E s H. exact H. Qed.

Lemma P_sub : forall E sF s s', (forall i y p, stored s' i y p -> stored s i y p) -> srcP E sF s -> srcP E sF s'.
Proof. intros E sF s s' Sub H i sh cb src St. apply H. apply Sub. exact St. Qed.

Lemma get_class_In : forall s i c, get_class s i = Ok c -> In c (classes s).
Proof.
  intros s i c H. unfold get_class in H. destruct (nth_opt (classes s) (N.to_nat i)) as [c0|] eqn:E; [|discriminate].
  inversion H; subst c0. eapply nth_opt_In; eauto.
Qed.

(* ================================================================== *)
(* 2. the structural invariants along the union core *)

Lemma lcanon_K1 : forall s a, m4 s -> lcanon s a -> K1 (am a).
Proof.
  intros s a (_ & _ & C4) [_ (c & Hc & _ & W & _ & K)] k v Hin.
  destruct (C4 c (get_class_In _ _ _ Hc)) as (_ & S & _). apply S. rewrite <- K. apply keys_spec.
  rewrite (in_get (am a) k v W Hin). discriminate.
Qed.

Lemma INV_ui : forall fu l r s b s', srcINV s -> covers s l -> covers s r -> union_internal fu l r s = Ok (b, s') ->
  srcINV s' /\ eg_inv s' /\ mext s s'.
Proof.
  intros fu l r s b s' (I3 & M4 & T) Cl Cr H.
  destruct (inv3_union_internal fu l r s b s' I3 Cl Cr H) as [I3' _].
  destruct (inv4_union_internal fu l r s b s' (proj1 (proj1 I3)) Cl Cr H) as (Hs' & X & _).
  destruct (h_union_internal fu l r s b s' H M4) as [M4' _].
  pose proof (hce_union_internal fu TT l r s b s' H (tab_hce_TT _ T)) as [T' _].
  split; [split; [exact I3'|split; [exact M4'|exact T']]|split; [exact Hs'|exact X]].
Qed.

Lemma INV_shrink : forall fu from cap s x s', srcINV s -> lcanon s from ->
  shrink_slots (union_internal fu) from cap s = Ok (x, s') -> srcINV s' /\ eg_inv s' /\ mext s s'.
Proof.
  intros fu from cap s x s' (I3 & M4 & T) L H.
  destruct (inv3_shrink_slots fu (inv3_union_internal fu) from cap s x s' I3 L H) as [I3' _].
  destruct (inv4_shrink_slots fu (inv4_union_internal fu) from cap s x s' (proj1 (proj1 I3)) L H) as (Hs' & X).
  destruct (h_shrink_slots (union_internal fu) (h_union_internal fu) from cap (lcanon_K1 _ _ M4 L) s x s' H M4) as [M4' _].
  pose proof (hce_shrink_slots (union_internal fu) (hce_union_internal fu) TT from cap s x s' H (tab_hce_TT _ T)) as [T' _].
  split; [split; [exact I3'|split; [exact M4'|exact T']]|split; [exact Hs'|exact X]].
Qed.

Lemma INV_move_to : forall from to s x s', srcINV s -> lcanon s from -> lcanon s to ->
  aid to <> aid from -> values (am from) = values (am to) -> move_to from to s = Ok (x, s') ->
  srcINV s' /\ eg_inv s' /\ mext s s'.
Proof.
  intros from to s x s' (I3 & M4 & T) Lf Lt Hn V H.
  destruct (inv3_move_to from to s x s' I3 Lf Lt Hn V H) as [I3' E'].
  destruct (eqmono_move_to from to s x s' (proj1 (proj1 I3)) Lf Lt Hn V H (proj1 (proj1 I3')) E') as [Q _].
  destruct (h_move_to from to (lcanon_K1 _ _ M4 Lf) (lcanon_K1 _ _ M4 Lt) s x s' H M4) as [M4' _].
  pose proof (hce_move_to TT from to s x s' H (tab_hce_TT _ T)) as [T' _].
  split; [split; [exact I3'|split; [exact M4'|exact T']]|split; [exact (proj1 (proj1 I3'))|split; [exact E'|exact Q]]].
Qed.

(* ================================================================== *)
(* 3. steps that keep the stored entries *)

Lemma stored_mod_at : forall i s s' j y p, mod_at i s s' -> stored s' j y p -> stored s j y p.
Proof. intros i s s' j y p ((_ & Hn & _) & _ & _) S. unfold stored in S. rewrite Hn in S. exact S. Qed.

Lemma stored_unionfind_set : forall i q s x s' j y p, unionfind_set i q s = Ok (x, s') -> stored s' j y p -> stored s j y p.
Proof. intros i q s x s' j y p H. eapply stored_mod_at. eapply unionfind_set_mod_at; eauto. Qed.

Lemma stored_upd_class : forall i f s x s' j y p, (forall c, c_nodes (f c) = c_nodes c) ->
  upd_class i f s = Ok (x, s') -> stored s' j y p -> stored s j y p.
Proof.
  intros i f s x s' j y p Hf H S. destruct (upd_class_views _ _ _ _ _ H) as (c & Hc & Hc' & Ho & _).
  unfold stored, cnodes in *. destruct (N.eq_dec j i) as [->|Hj].
  - rewrite Hc' in S. rewrite Hc, <- Hf. exact S.
  - rewrite (Ho j Hj) in S. exact S.
Qed.

Lemma stored_touched_class : forall i s x s' j y p, touched_class i true s = Ok (x, s') -> stored s' j y p -> stored s j y p.
Proof.
  intros i s x s' j y p H S. unfold touched_class in H. apply bind_reads_inv in H. destruct H as (c & _ & H).
  destruct (touch_list_spec _ _ _ _ H) as (p' & -> & _). exact S.
Qed.

(* ================================================================== *)
(* 4. what move_to does to the stored entries *)

(* ------------------------------------------------------------------ *)
(* association lists: membership of a duplicate-free list is a lookup *)

Lemma ms_in_get_none : forall {V} (l : list (node * V)) k v, In (k, v) l -> na_get l k = None -> False.
Proof.
  induction l as [|[k0 v0] t IH]; intros k v Hin Hg; [contradiction|]. cbn [na_get] in Hg.
  destruct (node_eqb k k0) eqn:E; [discriminate|]. destruct Hin as [Hin|Hin].
  - inversion Hin; subst. rewrite node_eqb_refl in E. discriminate.
  - eapply IH; eassumption.
Qed.

Lemma ms_nodup_in_get : forall {V} (l : list (node * V)) k v, na_nodup l -> In (k, v) l -> na_get l k = Some v.
Proof.
  induction l as [|[k0 v0] t IH]; intros k v Hnd Hin; [contradiction|]. cbn [na_get]. destruct Hnd as [Hn Hnd].
  destruct Hin as [Hin|Hin].
  - inversion Hin; subst. rewrite node_eqb_refl. reflexivity.
  - destruct (node_eqb k k0) eqn:E; [|apply IH; assumption].
    apply node_eqb_iff in E. subst k0. exfalso. exact (ms_in_get_none _ _ _ Hin Hn).
Qed.

(* ------------------------------------------------------------------ *)
(* steps that keep the counter *)

Definition cpres {A} (m : M A) : Prop := forall s x s', m s = Ok (x, s') -> ectr s' = ectr s.

Lemma cp_bind : forall A C (m : M A) (k : A -> M C), cpres m -> (forall a, cpres (k a)) -> cpres (mbind m k).
Proof.
  intros A C m k Hm Hk s x s' H. apply mbind_inv in H. destruct H as (a & s1 & H1 & H2).
  rewrite (Hk a _ _ _ H2). exact (Hm _ _ _ H1).
Qed.
Lemma cp_ret : forall A (a : A), cpres (ret a).
Proof. intros A a s x s' H. inversion H; subst. reflexivity. Qed.
Lemma cp_fail : forall A e, cpres (@fail A e).
Proof. intros A e s x s' H. discriminate. Qed.
Lemma cp_reads : forall A (f : egraph -> res A), cpres (reads f).
Proof. intros A f s x s' H. unfold reads in H. destruct (f s); inversion H; subst. reflexivity. Qed.
Lemma cp_modify : forall f, (forall s, ectr (f s) = ectr s) -> cpres (modify f).
Proof. intros f Hf s x s' H. inversion H; subst. apply Hf. Qed.
Lemma cp_upd_class : forall i f, cpres (upd_class i f).
Proof. intros i f s x s' H. apply upd_class_inv in H. destruct H as (c & _ & ->). reflexivity. Qed.
Lemma cp_iterM : forall A (f : A -> M unit) l, (forall a, cpres (f a)) -> cpres (iterM f l).
Proof.
  intros A f l Hf. induction l as [|a t IH]; cbn [iterM]; [apply cp_ret|].
  apply cp_bind; [apply Hf|intros _; exact IH].
Qed.

Lemma cp_raw_remove : forall id sh, cpres (raw_remove_from_class id sh).
Proof.
  intros id sh. unfold raw_remove_from_class. cbv zeta.
  apply cp_bind; [apply cp_reads|intros c].
  apply cp_bind; [apply cp_upd_class|intros _].
  apply cp_bind; [apply cp_modify; intros s; reflexivity|intros _].
  apply cp_bind; [apply cp_iterM; intros a; apply cp_upd_class|intros _].
  destruct (na_get (c_nodes c) sh); [apply cp_ret|apply cp_fail].
Qed.

Lemma cp_raw_add : forall id sh bij src, cpres (raw_add_to_class id (sh, bij) src).
Proof.
  intros id sh bij src. unfold raw_add_to_class. cbv beta iota.
  apply cp_bind; [apply cp_upd_class|intros _].
  apply cp_bind; [apply cp_modify; intros s; reflexivity|intros _].
  apply cp_iterM; intros a; apply cp_upd_class.
Qed.

(* ------------------------------------------------------------------ *)
(* the storage relation *)

Definition MS (s0 : egraph) (idf idt : N) (mi : slotmap) (s : egraph) : Prop :=
  forall i sh p, stored s i sh p ->
    stored s0 i sh p \/
    (i = idt /\ exists bij src c, stored s0 idf sh (bij, src) /\ ectr s0 <= c /\ c mod 4 = 1 /\
        p = (fst (compose_fresh bij mi c), src)).

Lemma ms_sub : forall s0 idf idt mi s s', (forall i y p, stored s' i y p -> stored s i y p) ->
  MS s0 idf idt mi s -> MS s0 idf idt mi s'.
Proof. intros s0 idf idt mi s s' Sub Hm i sh p S. apply Hm, Sub, S. Qed.

Lemma ms_same_tabs : forall s0 idf idt mi s s', same_tabs s s' -> MS s0 idf idt mi s -> MS s0 idf idt mi s'.
Proof.
  intros s0 idf idt mi s s' (_ & Hn & _). apply ms_sub. intros i y p S. unfold stored in *. rewrite Hn in S. exact S.
Qed.

Lemma ms_touched_class : forall s0 idf idt mi i s x s', touched_class i true s = Ok (x, s') ->
  MS s0 idf idt mi s -> MS s0 idf idt mi s'.
Proof.
  intros s0 idf idt mi i s x s' H. unfold touched_class in H.
  apply bind_reads_inv in H. destruct H as (c & Hc & H).
  destruct (touch_list_spec _ _ _ _ H) as (p' & -> & _ & _).
  apply ms_sub. intros j y p S. exact S.
Qed.

Lemma ms_move_loop : forall s0 idf idt mi l s x s',
  iterM (fun e : node * (slotmap * N) =>
           let '(sh, (bij, src_id)) := e in
           dom _ <- raw_remove_from_class idf sh;
           dom new_bij <- with_ctr (compose_fresh bij mi);
           dom _ <- raw_add_to_class idt (sh, new_bij) src_id;
           pending_insert sh true) l s = Ok (x, s') ->
  tab_ok s0 -> (forall e, In e l -> In e (cnodes s0 idf)) ->
  hce TT s -> ectr s0 <= ectr s -> ok1 (ectr s) -> MS s0 idf idt mi s ->
  MS s0 idf idt mi s'.
Proof.
  intros s0 idf idt mi. induction l as [|[sh [bij src]] t IH]; intros s x s' H T0 Hl Hs Hle Hok Hm; cbn [iterM] in H.
  - inversion H; subst. exact Hm.
  - apply mbind_inv in H. destruct H as (u & s4 & H1 & H).
    assert (H1' : hce TT s4).
    { apply (hce_move_loop TT idf idt mi [(sh, (bij, src))] s tt s4); [|exact Hs].
      cbn [iterM]. unfold mbind at 1. rewrite H1. destruct u. reflexivity. }
    assert (Hin : stored s0 idf sh (bij, src)).
    { unfold stored. apply ms_nodup_in_get; [apply (tb_cn s0 T0)|apply Hl; left; reflexivity]. }
    apply mbind_inv in H1. destruct H1 as (p & s1 & Hr & H1).
    apply mbind_inv in H1. destruct H1 as (nb & s2 & Hc & H1).
    apply mbind_inv in H1. destruct H1 as (u3 & s3 & Ha & H1).
    pose proof (cp_raw_remove _ _ _ _ _ Hr) as C1.
    pose proof (compose_fresh_step bij mi (ectr s1)) as St.
    unfold with_ctr in Hc. destruct (compose_fresh bij mi (ectr s1)) as [a c'] eqn:Ecf.
    inversion Hc; subst nb s2; clear Hc. cbn [snd] in St.
    pose proof (cp_raw_add _ _ _ _ _ _ _ Ha) as C3. cbn [Model.ctr set_ctr] in C3.
    inversion H1; subst u s4; clear H1.
    rewrite C1 in St.
    pose proof (ctr_step_le _ _ St) as Le'. pose proof (ok1_step _ _ Hok St) as Ok'.
    eapply IH; [exact H|exact T0|intros e He; apply Hl; right; exact He|exact H1'| | |].
    + cbn [Model.ctr set_pending]. rewrite C3. lia.
    + cbn [Model.ctr set_pending]. rewrite C3. exact Ok'.
    + destruct (raw_add_views _ _ _ _ _ _ _ Ha) as (_ & _ & _ & Nid & No & _ & _).
      destruct (raw_remove_views _ _ _ _ _ Hr) as (_ & _ & _ & _ & Rid & Ro & _).
      assert (Sub : forall j y q, stored s1 j y q -> stored s j y q).
      { intros j y q S. unfold stored in *. destruct (N.eq_dec j idf) as [->|Hj].
        - rewrite Rid in S. destruct (node_dec y sh) as [->|Ny].
          + rewrite na_get_remove_same in S by (apply (tb_cn s (proj1 Hs))). discriminate.
          + rewrite na_get_remove_other in S by exact Ny. exact S.
        - rewrite (Ro j Hj) in S. exact S. }
      intros i y q S. change (stored s3 i y q) in S. unfold stored in S.
      destruct (N.eq_dec i idt) as [->|Hi].
      * rewrite Nid in S. destruct (node_dec y sh) as [->|Ny].
        -- rewrite na_get_set_same in S. inversion S; subst q; clear S. right. split; [reflexivity|].
           exists bij, src, (ectr s1). rewrite Ecf. cbn [fst]. rewrite C1.
           split; [exact Hin|]. split; [exact Hle|]. split; [exact Hok|reflexivity].
        -- rewrite na_get_set_other in S by exact Ny. change (stored s1 idt y q) in S. apply Hm, Sub, S.
      * rewrite (No i Hi) in S. change (stored s1 i y q) in S. apply Hm, Sub, S.
Qed.

Lemma move_to_stored : forall from to s x s', move_to from to s = Ok (x, s') -> tab_ok s -> m4 s ->
  forall i sh p, stored s' i sh p ->
    stored s i sh p \/
    (i = aid to /\ exists bij src c, stored s (aid from) sh (bij, src) /\ ectr s <= c /\ c mod 4 = 1 /\
        p = (fst (compose_fresh bij (inv (am to ** inv (am from))) c), src)).
Proof.
  intros from to s x s' H T M4.
  change (MS s (aid from) (aid to) (inv (am to ** inv (am from))) s').
  set (mi := inv (am to ** inv (am from))).
  assert (F : MS s (aid from) (aid to) mi s) by (intros i sh p S; left; exact S).
  pose proof (tab_hce_TT _ T) as Hs.
  unfold move_to in H. cbv zeta in H.
  apply mbind_inv in H. destruct H as (u1 & s1 & H1 & H).
  pose proof (hce_TT _ _ (hce_unionfind_set _ _ _ _ _ _ H1 Hs)) as I1.
  pose proof (unionfind_set_mod_at _ _ _ _ _ H1) as (ST1 & _ & _).
  pose proof (ms_same_tabs _ _ _ _ _ _ ST1 F) as F1.
  destruct (unionfind_set_spec _ _ _ _ _ H1) as (_ & C1 & _).
  apply bind_reads_inv in H. destruct H as (cf & Hcf & H).
  apply mbind_inv in H. destruct H as (u2 & s2 & H2 & H).
  pose proof (hce_move_loop _ _ _ _ _ _ _ _ H2 I1) as I2.
  assert (F2 : MS s (aid from) (aid to) mi s2).
  { eapply ms_move_loop; [exact H2|exact T| |exact I1| | |exact F1].
    - intros e He. destruct ST1 as (_ & Hn & _). rewrite <- Hn. unfold cnodes. rewrite Hcf. exact He.
    - rewrite C1. lia.
    - rewrite C1. exact (proj1 M4). }
  apply bind_reads_inv in H. destruct H as (cf2 & Hcf2 & H).
  apply bind_reads_inv in H. destruct H as (ct & Hct & H).
  apply mbind_inv in H. destruct H as ([g' fl] & s3 & H3 & H). apply lift_inv in H3. destruct H3 as [H3 ->].
  apply mbind_inv in H. destruct H as (u4 & s4 & H4 & H). cbn [fst snd] in *.
  apply mbind_inv in H. destruct H as (u5 & s5 & H5 & H).
  assert (F4 : MS s (aid from) (aid to) mi s4).
  { eapply ms_same_tabs; [|exact F2].
    refine (proj1 (upd_class_mod_at _ _ _ _ _ _ H4)). intros c0. split; reflexivity. }
  assert (F5 : MS s (aid from) (aid to) mi s5).
  { destruct fl.
    - eapply ms_touched_class; [exact H5|exact F4].
    - inversion H5; subst u5 s5. exact F4. }
  eapply ms_touched_class; [exact H|exact F5].
Qed.


(* ================================================================== *)
(* 5. srcok_inv is closed under injective renamings of the public slots *)

(* ================================================================== *)
(* 0. composition of two renamings (copied from SelfSymNew.v) *)

Lemma sr_flag_comp : forall (g1 : bool -> slot -> slot) bd s,
  (existsb (N.eqb s) bd = false -> forall b, In b bd -> g1 true s <> g1 false b) ->
  existsb (N.eqb (g1 (negb (existsb (N.eqb s) bd)) s)) (map (g1 false) bd) = existsb (N.eqb s) bd.
Proof.
  intros g1 bd s H. destruct (existsb (N.eqb s) bd) eqn:E; cbn [negb].
  - apply existsb_exists in E. destruct E as (x & Hx & Ex). apply N.eqb_eq in Ex. subst x.
    apply existsb_exists. exists (g1 false s). split; [apply in_map; exact Hx|apply N.eqb_refl].
  - destruct (existsb (N.eqb (g1 true s)) (map (g1 false) bd)) eqn:E2; [|reflexivity].
    apply existsb_exists in E2. destruct E2 as (y & Hy & Ey). apply N.eqb_eq in Ey.
    apply in_map_iff in Hy. destruct Hy as (b & Eb & Hb). exfalso. apply (H eq_refl b Hb). congruence.
Qed.

Lemma sr_ren_f_comp : forall (g1 g2 : bool -> slot -> slot) B a bd,
  incl bd B -> incl (binders_f a) B ->
  (forall s, In (s, true) (occ_flags_f bd a) -> forall b, In b B -> g1 true s <> g1 false b) ->
  ren_f g2 (map (g1 false) bd) (ren_f g1 bd a) = ren_f (fun f x => g2 f (g1 f x)) bd a.
Proof.
  intros g1 g2 B. induction a as [s|x|s b IH|p]; intros bd Hbd Hbi H; cbn [ren_f].
  - rewrite sr_flag_comp; [reflexivity|]. intros E b Hb. apply H; [|apply Hbd; exact Hb].
    cbn [occ_flags_f]. left. rewrite E. reflexivity.
  - cbn [aid am]. f_equal. f_equal. unfold ren_vals. rewrite map_map. apply map_ext_in. intros [k v] Hin. cbn [fst snd].
    rewrite sr_flag_comp; [reflexivity|]. intros E b Hb. apply H; [|apply Hbd; exact Hb].
    cbn [occ_flags_f]. apply in_map_iff. exists v. split; [rewrite E; reflexivity|].
    unfold values_vec. apply in_map_iff. exists (k, v). split; [reflexivity|exact Hin].
  - f_equal. change (g1 false s :: map (g1 false) bd) with (map (g1 false) (s :: bd)). apply IH.
    + intros y [<-|Hy]; [apply Hbi; left; reflexivity|apply Hbd; exact Hy].
    + intros y Hy. apply Hbi. right. exact Hy.
    + intros s' Hs'. apply H. cbn [occ_flags_f]. right. exact Hs'.
  - reflexivity.
Qed.

Lemma sr_ren_comp : forall (g1 g2 : bool -> slot -> slot) n,
  (forall x b, In x (pub_occ n) -> In b (binders n) -> g1 true x <> g1 false b) ->
  RenameFacts.ren g2 (RenameFacts.ren g1 n) = RenameFacts.ren (fun f x => g2 f (g1 f x)) n.
Proof.
  intros g1 g2 n H. unfold RenameFacts.ren. cbn [nvar nargs]. f_equal. rewrite map_map. apply map_ext_in. intros a Ha.
  apply (sr_ren_f_comp g1 g2 (binders n) a []).
  - intros y [].
  - intros y Hy. unfold binders. apply in_flat_map. exists a. split; assumption.
  - intros s Hs b Hb. apply H; [|exact Hb]. apply occ_flags_true_pub. unfold occ_flags. apply in_flat_map. exists a. split; assumption.
Qed.

(* ================================================================== *)
(* 1. find / covers / kid_eq only depend on the lookups of the map of the invocation *)

Lemma sr_get_ren_vals : forall g bound (m : slotmap) y,
  get (ren_vals g bound m) y = option_map (fun v => g (negb (existsb (N.eqb v) bound)) v) (get m y).
Proof.
  intros g bound. induction m as [|[k v] t IH]; intros y; [reflexivity|].
  unfold ren_vals in *. cbn [map get fst snd]. destruct (y =? k); [reflexivity|apply IH].
Qed.

Lemma find_get_ext : forall s i m m', (forall k, get m k = get m' k) ->
  find_applied_id s {| aid := i; am := m |} = find_applied_id s {| aid := i; am := m' |}.
Proof.
  intros s i m m' H. unfold find_applied_id. cbn [aid am].
  destruct (unionfind_get s i) as [p|e]; cbn [bind]; [|reflexivity].
  f_equal. f_equal. unfold compose_partial. f_equal. apply flat_map_ext. intros q. rewrite H. reflexivity.
Qed.

Lemma covers_get_map : forall s i m m' (h : slot -> slot), (forall v w, h v = h w -> v = w) ->
  (forall k, get m' k = option_map h (get m k)) ->
  covers s {| aid := i; am := m |} -> covers s {| aid := i; am := m' |}.
Proof.
  intros s i m m' h Hh H (c & Hc & I & S). cbn [aid am] in *. exists c. cbn [aid am]. split; [exact Hc|]. split.
  - intros k1 k2 v G1 G2. rewrite H in G1, G2.
    destruct (get m k1) as [v1|] eqn:E1; [|discriminate]. destruct (get m k2) as [v2|] eqn:E2; [|discriminate].
    cbn [option_map] in G1, G2. assert (v1 = v2) by (apply Hh; congruence). subst v2. exact (I _ _ _ E1 E2).
  - intros k Hk. rewrite H. specialize (S k Hk). destruct (get m k); [discriminate|congruence].
Qed.

Lemma covers_get_ext : forall s i m m', (forall k, get m k = get m' k) ->
  covers s {| aid := i; am := m |} -> covers s {| aid := i; am := m' |}.
Proof.
  intros s i m m' H. apply (covers_get_map s i m m' (fun v => v)); [auto|].
  intros k. rewrite <- H. destruct (get m k); reflexivity.
Qed.

Lemma kid_eq_get_ext : forall s i m m' j n n', (forall k, get m k = get m' k) -> (forall k, get n k = get n' k) ->
  kid_eq s {| aid := i; am := m |} {| aid := j; am := n |} -> kid_eq s {| aid := i; am := m' |} {| aid := j; am := n' |}.
Proof.
  intros s i m m' j n n' H1 H2 (C1 & C2 & E). split; [eapply covers_get_ext; eauto|]. split; [eapply covers_get_ext; eauto|].
  rewrite <- E. apply eg_eq_find_congr; apply find_get_ext; intros k; symmetry; auto.
Qed.

(* a wf normal form of an association list *)
Definition nm (m : slotmap) : slotmap := from_iter (rev m).

Lemma assoc_last_snoc : forall l x y k, assoc_last (l ++ [(x, y)]) k = if k =? x then Some y else assoc_last l k.
Proof.
  induction l as [|[a b] t IH]; intros x y k; cbn [app assoc_last].
  - destruct (k =? x); reflexivity.
  - rewrite IH. destruct (k =? x); [reflexivity|]. reflexivity.
Qed.

Lemma get_nm : forall m k, get (nm m) k = get m k.
Proof.
  intros m k. unfold nm. rewrite get_from_iter. induction m as [|[x y] t IH]; cbn [rev get]; [reflexivity|].
  rewrite assoc_last_snoc, IH. reflexivity.
Qed.

Lemma nm_wf : forall m, wf (nm m).
Proof. intros m. apply from_iter_wf. Qed.

Lemma assoc_last_diag : forall (f : slot -> slot) l k,
  assoc_last (map (fun v => (v, f v)) l) k = if existsb (N.eqb k) l then Some (f k) else None.
Proof.
  intros f. induction l as [|x t IH]; intros k; cbn [map assoc_last existsb]; [reflexivity|].
  rewrite IH. destruct (existsb (N.eqb k) t); [rewrite orb_true_r; reflexivity|]. rewrite orb_false_r.
  destruct (k =? x) eqn:E; [apply N.eqb_eq in E; subst; reflexivity|reflexivity].
Qed.

(* ================================================================== *)
(* 2. the key lemma: kid_eq is closed under the renaming of the values *)

Section KidRv.
  Variable s : egraph.
  Variable mu : bool -> slot -> slot.
  Hypothesis Hs : eg_inv s.
  Hypothesis Mf : forall x, mu false x = x.
  Hypothesis Mi : forall x y, mu true x = mu true y -> x = y.
  Hypothesis M1 : forall x, (mu true x) mod 4 = 1.

  Definition hh (bd : list slot) (v : slot) : slot := mu (negb (existsb (N.eqb v) bd)) v.

  Lemma hh_inj : forall bd, (forall b, In b bd -> b mod 4 = 0) -> forall v w, hh bd v = hh bd w -> v = w.
  Proof.
    intros bd Hbd v w. unfold hh.
    destruct (existsb (N.eqb v) bd) eqn:Ev; destruct (existsb (N.eqb w) bd) eqn:Ew; cbn [negb]; intros E.
    - rewrite !Mf in E. exact E.
    - exfalso. apply existsb_exists in Ev. destruct Ev as (b & Hb & Eb). apply N.eqb_eq in Eb. subst b.
      rewrite Mf in E. pose proof (Hbd _ Hb) as Z. pose proof (M1 w) as O. rewrite <- E in O. lia.
    - exfalso. apply existsb_exists in Ew. destruct Ew as (b & Hb & Eb). apply N.eqb_eq in Eb. subst b.
      rewrite Mf in E. pose proof (Hbd _ Hb) as Z. pose proof (M1 v) as O. rewrite E in O. lia.
    - apply Mi. exact E.
  Qed.

  Lemma covers_rv : forall bd x, (forall b, In b bd -> b mod 4 = 0) -> covers s x -> covers s (rv mu bd x).
  Proof.
    intros bd [i m] Hbd C. unfold rv. cbn [aid am]. apply (covers_get_map s i m _ (hh bd) (hh_inj bd Hbd)); [|exact C].
    intros k. apply sr_get_ren_vals.
  Qed.

  Lemma kid_eq_rv : forall bd x y, (forall b, In b bd -> b mod 4 = 0) -> kid_eq s x y -> kid_eq s (rv mu bd x) (rv mu bd y).
  Proof.
    intros bd [i m] [j n] Hbd (Cx & Cy & E). split; [apply covers_rv; assumption|]. split; [apply covers_rv; assumption|].
    unfold rv. cbn [aid am].
    set (sg := from_iter (map (fun v => (v, hh bd v)) (values_vec m ++ values_vec n))).
    assert (Gs : forall v, get sg v = if existsb (N.eqb v) (values_vec m ++ values_vec n) then Some (hh bd v) else None).
    { intros v. unfold sg. rewrite get_from_iter. apply assoc_last_diag. }
    assert (Is : injective sg).
    { intros k1 k2 v G1 G2. rewrite Gs in G1, G2.
      destruct (existsb (N.eqb k1) (values_vec m ++ values_vec n)); [|discriminate].
      destruct (existsb (N.eqb k2) (values_vec m ++ values_vec n)); [|discriminate].
      apply (hh_inj bd Hbd). congruence. }
    assert (Dv : forall m0 k v, incl (values_vec m0) (values_vec m ++ values_vec n) -> get m0 k = Some v -> get sg v = Some (hh bd v)).
    { intros m0 k v Inc G. rewrite Gs.
      assert (X : existsb (N.eqb v) (values_vec m ++ values_vec n) = true).
      { apply existsb_exists. exists v. split; [|apply N.eqb_refl]. apply Inc. unfold values_vec.
        apply in_map_iff. exists (k, v). split; [reflexivity|apply get_in; exact G]. }
      rewrite X. reflexivity. }
    assert (Gc : forall m0 k, incl (values_vec m0) (values_vec m ++ values_vec n) ->
                 get (nm m0 ** sg) k = get (ren_vals mu bd m0) k).
    { intros m0 k Inc. rewrite get_compose_partial by apply nm_wf. rewrite get_nm, sr_get_ren_vals.
      destruct (get m0 k) as [v|] eqn:G; cbn [option_map]; [|reflexivity]. exact (Dv m0 k v Inc G). }
    assert (Cx' : covers s {| aid := i; am := nm m |}) by (eapply covers_get_ext; [|exact Cx]; intros k; symmetry; apply get_nm).
    assert (Cy' : covers s {| aid := j; am := nm n |}) by (eapply covers_get_ext; [|exact Cy]; intros k; symmetry; apply get_nm).
    assert (E' : eg_eq s {| aid := i; am := nm m |} {| aid := j; am := nm n |} = Ok true).
    { rewrite <- E. apply eg_eq_find_congr; apply find_get_ext; intros k; apply get_nm. }
    pose proof (eg_eq_rename s _ _ sg Hs Cx' Cy' (nm_wf m) (nm_wf n) Is) as RN. cbn [aid am] in RN.
    rewrite <- RN; [| |exact E'].
    - apply eg_eq_find_congr; apply find_get_ext; intros k; symmetry; apply Gc.
      + apply incl_appl, incl_refl.
      + apply incl_appr, incl_refl.
    - intros k v G. rewrite get_nm in G. rewrite (Dv m k v); [discriminate| |exact G]. apply incl_appl, incl_refl.
  Qed.

  Lemma Forall2_kid_eq_zip : forall xs ys, Forall2 (kid_eq s) xs ys ->
    forall bds, (forall bd b, In bd bds -> In b bd -> b mod 4 = 0) ->
    Forall2 (kid_eq s) (zip_with (rv mu) bds xs) (zip_with (rv mu) bds ys).
  Proof.
    intros xs ys F. induction F as [|x y xs ys K F IH]; intros bds Hb.
    - rewrite !zip_with_nil_r. constructor.
    - destruct bds as [|bd bds]; cbn [zip_with]; [constructor|]. constructor.
      + apply kid_eq_rv; [|exact K]. intros b Hin. apply (Hb bd b); [left; reflexivity|exact Hin].
      + apply IH. intros bd' b H1 H2. apply (Hb bd' b); [right; exact H1|exact H2].
  Qed.
End KidRv.

(* ================================================================== *)
(* 3. the bound lists of the applied ids consist of binders *)

Lemma abound_f_binders : forall a bd bd' b, In bd' (abound_f bd a) -> In b bd' -> In b bd \/ In b (binders_f a).
Proof.
  induction a as [s|x|s a IH|p]; intros bd bd' b H Hb; cbn [abound_f binders_f] in *; try (destruct H; fail).
  - destruct H as [<-|[]]. left. exact Hb.
  - destruct (IH _ _ _ H Hb) as [[<-|X]|X]; [right; left; reflexivity|left; exact X|right; right; exact X].
Qed.

Lemma abounds_binders : forall n bd b, In bd (abounds n) -> In b bd -> In b (binders n).
Proof.
  intros n bd b H Hb. unfold abounds in H. apply in_flat_map in H. destruct H as (a & Ha & H).
  destruct (abound_f_binders a [] bd b H Hb) as [[]|X]. unfold binders. apply in_flat_map. exists a. split; assumption.
Qed.

(* ================================================================== *)
(* 4. the main lemma *)

Lemma get_rho_map : forall g sl k, get (rho_map g sl) k = if existsb (N.eqb k) sl then Some (g true k) else None.
Proof. intros g sl k. unfold rho_map. rewrite get_from_iter. apply (assoc_last_diag (g true)). Qed.

Lemma srcok_inv_ren : forall s a N1 src (mu : bool -> slot -> slot),
  eg_inv s -> srcok_inv s a N1 src ->
  (forall x, mu false x = x) -> (forall x y, mu true x = mu true y -> x = y) -> (forall x, (mu true x) mod 4 = 1) ->
  (forall b, In b (binders N1) -> b mod 4 = 0) ->
  srcok_inv s (rv mu [] a) (RenameFacts.ren mu N1) src.
Proof.
  intros s a N1 src mu Hs (csrc & g & l & Hc & Rk & EN & F & K) Mf Mi M1 HB.
  set (syn := c_syn csrc) in *.
  set (g' := fun (f : bool) (x : slot) => mu f (g f x)).
  set (M := RenameFacts.ren g syn) in *.
  assert (BM : forall b, In b (binders M) -> b mod 4 = 0).
  { intros b Hb. apply HB. rewrite EN, binders_set_apps'. exact Hb. }
  assert (EC : RenameFacts.ren mu M = RenameFacts.ren g' syn).
  { unfold M, g'. apply sr_ren_comp. exact (proj1 (proj2 Rk)). }
  exists csrc, g', (zip_with (rv mu) (abounds M) l). fold syn.
  split; [exact Hc|]. split; [|split; [|split]].
  - destruct Rk as (R1 & R2 & R3). split; [|split].
    + intros x y Hx Hy E. unfold g' in E. rewrite !Mf in E. exact (R1 x y Hx Hy E).
    + intros x b Hx Hb E. unfold g' in E. rewrite (Mf (g false b)) in E.
      assert (Z : g false b mod 4 = 0).
      { apply BM. unfold M. rewrite ren_binders. apply in_map. exact Hb. }
      pose proof (M1 (g true x)) as O. rewrite E in O. lia.
    + intros x y Hx Hy E. unfold g' in E. apply Mi in E. exact (R3 x y Hx Hy E).
  - rewrite <- EC, EN. symmetry. apply set_apps_ren.
  - rewrite <- EC, app_occ_ren. apply Forall2_kid_eq_zip; try assumption.
    intros bd b H1 H2. apply BM. exact (abounds_binders M bd b H1 H2).
  - destruct a as [j n].
    pose proof (kid_eq_rv s mu Hs Mf Mi M1 [] _ _ (fun b (H : In b []) => match H with end) K) as K'.
    unfold rv in K' |- *. cbn [aid am] in K' |- *.
    eapply kid_eq_get_ext; [| |exact K']; intros k; [|reflexivity].
    rewrite sr_get_ren_vals, !get_rho_map. destruct (existsb (N.eqb k) (slots syn)); reflexivity.
Qed.


(* ================================================================== *)
(* 7. shrink_slots: the table updates before the recursive unions move nothing *)

Definition ui0 : appid -> appid -> M bool := fun _ _ => ret true.

Definition sloop (ui : appid -> appid -> M bool) (id : N) (cap : sset) : list perm -> M unit :=
  iterM (fun pp =>
           dom sl <- reads (fun s => class_slots s id);
           let l := {| aid := id; am := identity sl |} in
           dom ps <- Model.lift (mapr (fun x => do y <- index pp x; Ok (x, y)) cap);
           let r := {| aid := id; am := from_iter ps |} in
           dom _ <- ui l r;
           ret tt).

Lemma dummy_loop : forall id cap ui moved s x s' s3 c3, sloop ui id cap moved s = Ok (x, s') ->
  get_class s3 id = Ok c3 -> sloop ui0 id cap moved s3 = Ok (tt, s3).
Proof.
  intros id cap ui. induction moved as [|pp t IH]; intros s x s' s3 c3 H Hc3; unfold sloop in *; cbn [iterM] in *.
  - reflexivity.
  - apply mbind_inv in H. destruct H as (u & s1 & H1 & H).
    apply bind_reads_inv in H1. destruct H1 as (sl & Hsl & H1). cbv zeta in H1.
    apply mbind_inv in H1. destruct H1 as (ps & s0 & Hps & H1). apply lift_inv in Hps. destruct Hps as [Hps ->].
    unfold mbind at 1. unfold mbind at 1. unfold reads, class_slots. rewrite Hc3. cbn [bind].
    unfold mbind at 1. unfold Model.lift. rewrite Hps. unfold mbind at 1. unfold ui0, ret.
    exact (IH _ _ _ _ _ H Hc3).
Qed.

Definition shrink_pre (from : appid) (cap : sset) : M (sset * list perm) :=
    let m_inv := inverse_nocheck (am from) in
    dom origcap <- Model.lift (mapr (index m_inv) cap);
    let origcap := sset_of_list origcap in
    dom _ <- record_redundancy_witness (aid from) origcap;
    let id := aid from in
    let cap := origcap in
    dom c <- reads (fun s => get_class s id);
    let all_generators := ggenerators (c_group c) in
    dom flags <- Model.lift (mapr (fun pp => allr (fun x => do y <- index pp x; Ok (sset_mem y cap)) cap) all_generators);
    let tagged := combine all_generators flags in
    let generators := map fst (filter snd tagged) in
    let moved := map fst (filter (fun p => negb (snd p)) tagged) in
    let restricted := map (fun pp => filter (fun kv => sset_mem (fst kv) cap) pp) generators in
    dom g <- Model.lift (group_new false (identity cap) restricted);
    dom _ <- upd_class id (fun c => with_group (with_slots c cap) g);
    dom _ <- touched_class id true;
    ret (cap, moved).

Lemma shrink_split : forall ui from cap s,
  shrink_slots ui from cap s = (dom r <- shrink_pre from cap; sloop ui (aid from) (fst r) (snd r)) s.
Proof.
  intros ui from cap s. unfold shrink_slots, shrink_pre, sloop. cbv zeta. unfold mbind.
  destruct (Model.lift (mapr (index (inverse_nocheck (am from))) cap) s) as [[ocl s0]|]; [|reflexivity].
  destruct (record_redundancy_witness (aid from) (sset_of_list ocl) s0) as [[u1 s1]|]; [|reflexivity].
  destruct (reads (fun s2 => get_class s2 (aid from)) s1) as [[c s2]|]; [|reflexivity].
  match goal with |- match ?m with _ => _ end = _ => destruct m as [[flags s3]|]; [|reflexivity] end.
  match goal with |- match ?m with _ => _ end = _ => destruct m as [[g s4]|]; [|reflexivity] end.
  match goal with |- match ?m with _ => _ end = _ => destruct m as [[u5 s5]|]; [|reflexivity] end.
  match goal with |- match ?m with _ => _ end = _ => destruct m as [[u6 s6]|]; [|reflexivity] end.
  reflexivity.
Qed.

(* ================================================================== *)
(* 5b. a moved entry stays source coherent *)

(* ================================================================== *)
(* 0. composition of two renamings (copied from EGraph/SelfSymNew.v) *)

Lemma ssn_flag_comp : forall (g1 : bool -> slot -> slot) bd s,
  (existsb (N.eqb s) bd = false -> forall b, In b bd -> g1 true s <> g1 false b) ->
  existsb (N.eqb (g1 (negb (existsb (N.eqb s) bd)) s)) (map (g1 false) bd) = existsb (N.eqb s) bd.
Proof.
  intros g1 bd s H. destruct (existsb (N.eqb s) bd) eqn:E; cbn [negb].
  - apply existsb_exists in E. destruct E as (x & Hx & Ex). apply N.eqb_eq in Ex. subst x.
    apply existsb_exists. exists (g1 false s). split; [apply in_map; exact Hx|apply N.eqb_refl].
  - destruct (existsb (N.eqb (g1 true s)) (map (g1 false) bd)) eqn:E2; [|reflexivity].
    apply existsb_exists in E2. destruct E2 as (y & Hy & Ey). apply N.eqb_eq in Ey.
    apply in_map_iff in Hy. destruct Hy as (b & Eb & Hb). exfalso. apply (H eq_refl b Hb). congruence.
Qed.

Lemma ssn_ren_f_comp : forall (g1 g2 : bool -> slot -> slot) B a bd,
  incl bd B -> incl (binders_f a) B ->
  (forall s, In (s, true) (occ_flags_f bd a) -> forall b, In b B -> g1 true s <> g1 false b) ->
  ren_f g2 (map (g1 false) bd) (ren_f g1 bd a) = ren_f (fun f x => g2 f (g1 f x)) bd a.
Proof.
  intros g1 g2 B. induction a as [s|x|s b IH|p]; intros bd Hbd Hbi H; cbn [ren_f].
  - rewrite ssn_flag_comp; [reflexivity|]. intros E b Hb. apply H; [|apply Hbd; exact Hb].
    cbn [occ_flags_f]. left. rewrite E. reflexivity.
  - cbn [aid am]. f_equal. f_equal. unfold ren_vals. rewrite map_map. apply map_ext_in. intros [k v] Hin. cbn [fst snd].
    rewrite ssn_flag_comp; [reflexivity|]. intros E b Hb. apply H; [|apply Hbd; exact Hb].
    cbn [occ_flags_f]. apply in_map_iff. exists v. split; [rewrite E; reflexivity|].
    unfold values_vec. apply in_map_iff. exists (k, v). split; [reflexivity|exact Hin].
  - f_equal. change (g1 false s :: map (g1 false) bd) with (map (g1 false) (s :: bd)). apply IH.
    + intros y [<-|Hy]; [apply Hbi; left; reflexivity|apply Hbd; exact Hy].
    + intros y Hy. apply Hbi. right. exact Hy.
    + intros s' Hs'. apply H. cbn [occ_flags_f]. right. exact Hs'.
  - reflexivity.
Qed.

Lemma ssn_ren_comp : forall (g1 g2 : bool -> slot -> slot) n,
  (forall x b, In x (pub_occ n) -> In b (binders n) -> g1 true x <> g1 false b) ->
  RenameFacts.ren g2 (RenameFacts.ren g1 n) = RenameFacts.ren (fun f x => g2 f (g1 f x)) n.
Proof.
  intros g1 g2 n H. unfold RenameFacts.ren. cbn [nvar nargs]. f_equal. rewrite map_map. apply map_ext_in. intros a Ha.
  apply (ssn_ren_f_comp g1 g2 (binders n) a []).
  - intros y [].
  - intros y Hy. unfold binders. apply in_flat_map. exists a. split; assumption.
  - intros s Hs b Hb. apply H; [|exact Hb]. apply occ_flags_true_pub. unfold occ_flags. apply in_flat_map. exists a. split; assumption.
Qed.

(* ================================================================== *)
(* 1. small facts *)

Lemma sm_get_ren_vals : forall g bound (m : slotmap) y,
  get (ren_vals g bound m) y = option_map (fun v => g (negb (existsb (N.eqb v) bound)) v) (get m y).
Proof.
  intros g bound. induction m as [|[k v] t IH]; intros y; [reflexivity|].
  unfold ren_vals in *. cbn [map get fst snd]. destruct (y =? k); [reflexivity|apply IH].
Qed.

Lemma sm_apply_slotmap_ok : forall m n0, (forall x, In x (pub_occ n0) -> get m x <> None) ->
  apply_slotmap false m n0 = Ok (RenameFacts.ren (asm_g m) n0).
Proof.
  intros m n0 H. unfold apply_slotmap, apply_slotmap_partial. cbn [andb]. unfold trav_res.
  rewrite (trav_fwd _ (asm_g m) None); [reflexivity|].
  intros s b Hin. destruct b; [|reflexivity]. apply occ_flags_true_pub in Hin. apply H in Hin.
  unfold index, asm_g. destruct (get m s) as [y|]; [reflexivity|congruence].
Qed.

Definition vbound (m : slotmap) : N := fold_right (fun p acc => N.max (snd p) acc) 0 m + 1.

Lemma vbound_in : forall (m : slotmap) k v, In (k, v) m -> v < vbound m.
Proof.
  unfold vbound. induction m as [|[k0 v0] t IH]; intros k v Hin; [contradiction|]. cbn [fold_right snd].
  destruct Hin as [Hin|Hin].
  - inversion Hin; subst. lia.
  - pose proof (IH _ _ Hin). lia.
Qed.

Lemma vbound_lt : forall m k v, get m k = Some v -> v < vbound m.
Proof. intros m k v G. apply (vbound_in m k v). apply get_in. exact G. Qed.

(* ================================================================== *)
(* 2. the global renaming: a value bij k goes to nb k, everything else far away *)

Definition mvmu (bij nb : slotmap) : bool -> slot -> slot :=
  fun f v => if f then match get (inv bij ** nb) v with Some z => z | None => 4 * (v + vbound nb) + 1 end else v.

Lemma mvmu_get : forall bij nb v z, wf bij -> is_bijection bij = true ->
  (get (inv bij ** nb) v = Some z <-> exists k, get bij k = Some v /\ get nb k = Some z).
Proof.
  intros bij nb v z W B. rewrite get_compose_partial by apply inverse_wf. split.
  - destruct (get (inv bij) v) as [k|] eqn:E; [|discriminate]. intros G. exists k. split; [|exact G].
    apply (get_inverse bij v k W B). exact E.
  - intros (k & G1 & G2). apply (get_inverse bij v k W B) in G1. rewrite G1. exact G2.
Qed.

Lemma mvmu_val : forall bij nb k v z, wf bij -> is_bijection bij = true ->
  get bij k = Some v -> get nb k = Some z -> mvmu bij nb true v = z.
Proof.
  intros bij nb k v z W B G1 G2. unfold mvmu.
  rewrite (proj2 (mvmu_get bij nb v z W B)); [reflexivity|]. exists k. split; assumption.
Qed.

Lemma mvmu_inj : forall bij nb, wf bij -> is_bijection bij = true -> injective nb ->
  forall x y, mvmu bij nb true x = mvmu bij nb true y -> x = y.
Proof.
  intros bij nb W B Inb x y E. unfold mvmu in E.
  destruct (get (inv bij ** nb) x) as [zx|] eqn:Ex; destruct (get (inv bij ** nb) y) as [zy|] eqn:Ey.
  - subst zy. apply (mvmu_get bij nb x zx W B) in Ex. apply (mvmu_get bij nb y zx W B) in Ey.
    destruct Ex as (k1 & A1 & A2). destruct Ey as (k2 & A3 & A4).
    pose proof (Inb _ _ _ A2 A4). subst k2. congruence.
  - apply (mvmu_get bij nb x zx W B) in Ex. destruct Ex as (k1 & A1 & A2). pose proof (vbound_lt _ _ _ A2). lia.
  - apply (mvmu_get bij nb y zy W B) in Ey. destruct Ey as (k1 & A1 & A2). pose proof (vbound_lt _ _ _ A2). lia.
  - lia.
Qed.

Lemma mvmu_mod : forall bij nb, (forall k v, get nb k = Some v -> v mod 4 = 1) ->
  forall x, (mvmu bij nb true x) mod 4 = 1.
Proof.
  intros bij nb V x. unfold mvmu. destruct (get (inv bij ** nb) x) as [z|] eqn:E.
  - rewrite get_compose_partial in E by apply inverse_wf. destruct (get (inv bij) x) as [k|]; [|discriminate].
    exact (V _ _ E).
  - rewrite N.add_comm, N.mul_comm, N.mod_add by lia. reflexivity.
Qed.

(* ================================================================== *)
(* 3. the semantic part: from[mu] = to[id] in every later state *)

Lemma moved_K : forall sF s s' from to x (mu : bool -> slot -> slot) cf ct cF cF',
  eg_inv s -> lcanon s from -> lcanon s to -> aid to <> aid from -> values (am from) = values (am to) ->
  move_to from to s = Ok (x, s') -> eg_inv s' -> mext s s' -> eg_inv sF -> mext s' sF ->
  get_class s (aid from) = Ok cf -> get_class s (aid to) = Ok ct ->
  get_class sF (aid from) = Ok cF -> get_class sF (aid to) = Ok cF' ->
  (forall a b, mu true a = mu true b -> a = b) ->
  (forall k v, get (am to ** inv (am from)) k = Some v -> mu true v = k) ->
  kid_eq sF (rv mu [] {| aid := aid from; am := identity (c_slots cF) |}) {| aid := aid to; am := identity (c_slots cF') |}.
Proof.
  intros sF s s' from to x mu cf ct cF cF' Hs Lf Lt Hn V H Hs' M HsF MF Hcf Hct HcF HcF' Imu Emu.
  pose proof (proj2 Lf) as Cf. pose proof (proj2 Lt) as Ct.
  pose proof Cf as (cf' & Hcf' & Gf & Wf & Bf & Kf). rewrite Hcf in Hcf'. inversion Hcf'; subst cf'. clear Hcf'.
  pose proof Ct as (ct' & Hct' & Gt & Wt & Bt & Kt). rewrite Hct in Hct'. inversion Hct'; subst ct'. clear Hct'.
  destruct (eqmono_move_to from to s x s' Hs Lf Lt Hn V H Hs' (proj1 M)) as [_ Q].
  assert (K0 : kid_eq s' from to).
  { split; [exact (covers_ext _ _ _ (proj1 M) (canon_covers _ _ Cf))|].
    split; [exact (covers_ext _ _ _ (proj1 M) (canon_covers _ _ Ct))|exact Q]. }
  destruct (kid_eq_mono s' sF from to (proj1 MF) (proj2 MF) K0) as (CFf & CFt & QF).
  (* slots only shrink *)
  assert (IncF : incl (c_slots cF) (c_slots cf)).
  { destruct (proj2 (proj2 (proj1 M)) _ _ Hcf) as (c1 & Hc1 & I1 & _).
    destruct (proj2 (proj2 (proj1 MF)) _ _ Hc1) as (c2 & Hc2 & I2 & _).
    rewrite HcF in Hc2. inversion Hc2; subst c2. eapply incl_tran; eauto. }
  assert (IncT : incl (c_slots cF') (c_slots ct)).
  { destruct (proj2 (proj2 (proj1 M)) _ _ Hct) as (c1 & Hc1 & I1 & _).
    destruct (proj2 (proj2 (proj1 MF)) _ _ Hc1) as (c2 & Hc2 & I2 & _).
    rewrite HcF' in Hc2. inversion Hc2; subst c2. eapply incl_tran; eauto. }
  set (muS := ren_vals mu [] (identity (c_slots cf))).
  set (sg := inv (am from) ** muS).
  assert (GmuS : forall k, get muS k = if sset_mem k (c_slots cf) then Some (mu true k) else None).
  { intros k. unfold muS. rewrite sm_get_ren_vals, get_identity. destruct (sset_mem k (c_slots cf)); reflexivity. }
  pose proof (proj1 (is_bijection_injective _ Wf) Bf) as If.
  assert (ImuS : injective muS).
  { intros k1 k2 v G1 G2. rewrite GmuS in G1, G2.
    destruct (sset_mem k1 (c_slots cf)); [|discriminate]. destruct (sset_mem k2 (c_slots cf)); [|discriminate].
    apply Imu. congruence. }
  assert (Isg : injective sg).
  { unfold sg. apply compose_injective; [apply inverse_wf|apply inv_injective; assumption|exact ImuS]. }
  assert (Gsg : forall k y, get (am from) k = Some y -> get sg y = Some (mu true k)).
  { intros k y G. unfold sg. rewrite get_compose_partial by apply inverse_wf.
    rewrite (proj2 (get_inverse (am from) y k Wf Bf) G). rewrite GmuS.
    assert (Hk : In k (c_slots cf)) by (rewrite <- Kf; apply keys_spec; congruence).
    rewrite (proj2 (sset_mem_in _ _) Hk). reflexivity. }
  pose proof (eg_eq_rename sF from to sg HsF CFf CFt Wf Wt Isg) as R.
  assert (R' : eg_eq sF {| aid := aid from; am := am from ** sg |} {| aid := aid to; am := am to ** sg |} = Ok true).
  { apply R; [|exact QF]. intros k y G. rewrite (Gsg _ _ G). discriminate. }
  clear R.
  split; [|split].
  - exists cF. cbn [rv aid am]. split; [exact HcF|]. split.
    + intros k1 k2 v G1 G2. rewrite sm_get_ren_vals, get_identity in G1, G2.
      destruct (sset_mem k1 (c_slots cF)); [|discriminate]. destruct (sset_mem k2 (c_slots cF)); [|discriminate].
      cbn [option_map existsb negb] in G1, G2. apply Imu. congruence.
    + intros k Hk. rewrite sm_get_ren_vals, get_identity. rewrite (proj2 (sset_mem_in _ _) Hk). discriminate.
  - apply covers_identity. exact HcF'.
  - rewrite <- R'. apply eg_eq_find_congr.
    + unfold rv. cbn [aid am]. apply (MonotoneFacts.find_agree sF (aid from) cF _ _ HsF HcF).
      intros k Hk. rewrite sm_get_ren_vals, get_identity. rewrite (proj2 (sset_mem_in _ _) Hk).
      cbn [option_map existsb negb].
      rewrite get_compose_partial by exact Wf.
      assert (Hk' : In k (keys (am from))) by (rewrite Kf; apply IncF; exact Hk).
      apply keys_spec in Hk'. destruct (get (am from) k) as [y|] eqn:G; [|congruence].
      rewrite (Gsg _ _ G). reflexivity.
    + apply (MonotoneFacts.find_agree sF (aid to) cF' _ _ HsF HcF').
      intros k Hk. rewrite get_identity. rewrite (proj2 (sset_mem_in _ _) Hk).
      rewrite get_compose_partial by exact Wt.
      assert (Hk' : In k (keys (am to))) by (rewrite Kt; apply IncT; exact Hk).
      apply keys_spec in Hk'. destruct (get (am to) k) as [y|] eqn:G; [|congruence].
      assert (Hy : In y (values (am from))) by (rewrite V; apply values_spec; [exact Wt|eauto]).
      apply values_spec in Hy; [|exact Wf]. destruct Hy as (v & Gv).
      rewrite (Gsg _ _ Gv). f_equal. symmetry. apply Emu.
      apply (quot_get (am to) (am from) Wt Wf Bf). exists y. split; assumption.
Qed.

(* ================================================================== *)
(* 4. the moved entry is source coherent *)

Section Moved.
  Hypothesis REN : forall s a N1 src (mu : bool -> slot -> slot),
    eg_inv s -> srcok_inv s a N1 src ->
    (forall x, mu false x = x) -> (forall x y, mu true x = mu true y -> x = y) -> (forall x, (mu true x) mod 4 = 1) ->
    (forall b, In b (binders N1) -> b mod 4 = 0) ->
    srcok_inv s (rv mu [] a) (RenameFacts.ren mu N1) src.

  Theorem srcok_moved : forall sF s s' from to x sh bij src c nb,
    inv3 s -> m4 s -> lcanon s from -> lcanon s to -> aid to <> aid from -> values (am from) = values (am to) ->
    move_to from to s = Ok (x, s') -> inv3 s' -> m4 s' -> mext s s' -> eg_inv sF -> mext s' sF ->
    is_ws sh -> stored s (aid from) sh (bij, src) -> stored s' (aid to) sh (nb, src) ->
    ectr s <= c -> c mod 4 = 1 -> nb = fst (compose_fresh bij (inv (am to ** inv (am from))) c) ->
    srcok sF (aid from) sh bij src ->
    srcok sF (aid to) sh nb src.
  Proof.
    intros sF s s' from to x sh bij src c nb I3 M4 Lf Lt Hn V H I3' M4' M HsF MF WS St St' Lc Mc Enb
      (cF & N0 & HcF & A0 & SI).
    pose proof (proj1 (proj1 I3)) as Hs. pose proof (proj1 (proj1 I3')) as Hs'.
    pose proof (proj2 Lf) as Cf. pose proof (proj2 Lt) as Ct.
    pose proof Cf as (cf & Hcf & Gf & Wf & Bf & Kf). pose proof Ct as (ct & Hct & Gt & Wt & Bt & Kt).
    set (m := am to ** inv (am from)) in *.
    destruct (move_map_ok s from to cf ct Hcf Hct Cf Ct V) as (Wm & Im & Sm & Vm). fold m in Wm, Im, Sm, Vm.
    pose proof (proj2 (is_bijection_injective m Wm) Im) as Bm.
    (* the entry in s *)
    destruct (stored_get _ _ _ _ St) as (cf0 & Hcf0 & G0). rewrite Hcf in Hcf0. inversion Hcf0; subst cf0. clear Hcf0.
    pose proof (na_get_in _ _ _ G0) as In0.
    destruct (proj2 I3 _ _ _ Hcf In0) as (Wb & Ib & Kb & Sb). cbn [fst snd] in Wb, Ib, Kb, Sb.
    pose proof (proj2 (is_bijection_injective bij Wb) Ib) as Bb.
    destruct (m4_class _ _ _ M4 Hcf) as (Vb & _). specialize (Vb _ _ _ In0).
    (* the entry in s' *)
    destruct (stored_get _ _ _ _ St') as (ct1 & Hct1 & G1).
    pose proof (na_get_in _ _ _ G1) as In1.
    destruct (proj2 I3' _ _ _ Hct1 In1) as (Wn & Inb & Kn & Sn). cbn [fst snd] in Wn, Inb, Kn, Sn.
    destruct (m4_class _ _ _ M4' Hct1) as (Vn & _). specialize (Vn _ _ _ In1).
    (* the class of `to` in sF *)
    destruct (proj2 (proj2 (proj1 MF)) _ _ Hct1) as (cF' & HcF' & _ & _).
    (* the renaming *)
    set (mu := mvmu bij nb).
    assert (Imu : forall a b, mu true a = mu true b -> a = b) by (apply mvmu_inj; assumption).
    assert (Mmu : forall a, (mu true a) mod 4 = 1).
    { apply mvmu_mod. intros k v G. apply (Vn k v). apply get_in. exact G. }
    assert (Fmu : forall a, mu false a = a) by (intros a; reflexivity).
    (* compose_fresh *)
    assert (CF : forall k, match get bij k with
                           | None => get nb k = None
                           | Some y => match get (inv m) y with
                                       | Some z => get nb k = Some z
                                       | None => exists z, get nb k = Some z
                                       end
                           end).
    { intros k. destruct (compose_fresh_spec bij (inv m) c k Wb) as (_ & _ & S). rewrite <- Enb in S.
      destruct (get bij k) as [y|]; [|exact S]. destruct (get (inv m) y) as [z|]; [exact S|].
      destruct S as (z & Gz & _). exists z. exact Gz. }
    assert (Emu : forall k v, get m k = Some v -> mu true v = k).
    { intros k v G. pose proof (Vm _ _ G) as Hv. destruct (Sb _ Hv) as (k0 & G0').
      pose proof (CF k0) as S. rewrite G0' in S. rewrite (proj2 (get_inverse m v k Wm Bm) G) in S.
      exact (mvmu_val bij nb k0 v k Wb Bb G0' S). }
    (* the e-node of the moved entry *)
    pose proof (apply_slotmap_ren _ _ _ A0) as EN0.
    pose proof (apply_slotmap_total _ _ _ A0) as T0.
    assert (T1 : forall y, In y (pub_occ sh) -> get nb y <> None).
    { intros y Hy. pose proof (T0 _ Hy) as Gy. pose proof (CF y) as S.
      destruct (get bij y) as [v|]; [|congruence]. destruct (get (inv m) v) as [z|]; [congruence|].
      destruct S as (z & ->). discriminate. }
    pose proof (sm_apply_slotmap_ok nb sh T1) as A1.
    destruct WS as (n0 & b0 & WS).
    assert (B0 : forall b, In b (binders sh) -> b mod 4 = 0).
    { intros b Hb. apply (shape_all_occ_mod4 _ _ _ WS). apply binders_all_occ. exact Hb. }
    assert (EN1 : RenameFacts.ren mu N0 = RenameFacts.ren (asm_g nb) sh).
    { rewrite EN0. rewrite ssn_ren_comp.
      - apply ren_ext. intros y f Hy. destruct f; [|reflexivity].
        apply occ_flags_true_pub in Hy. pose proof (T0 _ Hy) as Gy. pose proof (T1 _ Hy) as Gy'.
        unfold asm_g. destruct (get bij y) as [v|] eqn:Gv; [|congruence]. destruct (get nb y) as [z|] eqn:Gz; [|congruence].
        exact (mvmu_val bij nb y v z Wb Bb Gv Gz).
      - intros y b Hy Hb. pose proof (T0 _ Hy) as Gy. unfold asm_g. destruct (get bij y) as [v|] eqn:Gv; [|congruence].
        pose proof (Vb y v (get_in _ _ _ Gv)) as Q1. unfold ok1 in Q1. pose proof (B0 _ Hb) as Q0. intros E. rewrite E in Q1. lia. }
    (* renaming the coherence of the old entry *)
    assert (BN0 : forall b, In b (binders N0) -> b mod 4 = 0).
    { intros b Hb. rewrite EN0, ren_binders in Hb. apply in_map_iff in Hb. destruct Hb as (b' & <- & Hb'). apply B0. exact Hb'. }
    pose proof (REN sF _ N0 src mu HsF SI Fmu Imu Mmu BN0) as SR. rewrite EN1 in SR.
    pose proof (moved_K sF s s' from to x mu cf ct cF cF' Hs Lf Lt Hn V H Hs' M HsF MF Hcf Hct HcF HcF' Imu Emu) as K.
    exists cF', (RenameFacts.ren (asm_g nb) sh). split; [exact HcF'|]. split; [exact A1|].
    destruct SR as (csrc & g & l & Hcs & Rk & EN & F & K1). exists csrc, g, l.
    split; [exact Hcs|]. split; [exact Rk|]. split; [exact EN|]. split; [exact F|].
    exact (kid_eq_trans sF _ _ _ HsF K1 K).
  Qed.
End Moved.


Definition srcok_moved_c := srcok_moved srcok_inv_ren.

(* ================================================================== *)
(* 6. the union core *)

Definition ui_specP (ui : appid -> appid -> M bool) : Prop :=
  forall E sF l r s b s', srcINV s -> covers s l -> covers s r -> ui l r s = Ok (b, s') ->
    eg_inv sF -> mext s' sF -> srcP E sF s -> srcP E sF s'.

Lemma P_move_to : forall E sF from to s x s', srcINV s -> lcanon s from -> lcanon s to ->
  aid to <> aid from -> values (am from) = values (am to) -> move_to from to s = Ok (x, s') ->
  eg_inv sF -> mext s' sF -> srcP E sF s -> srcP E sF s'.
Proof.
  intros E sF from to s x s' I Lf Lt Hn V H HF MF Ps i sh cb src St.
  destruct (INV_move_to from to s x s' I Lf Lt Hn V H) as ((I3' & M4' & T') & Hs' & X).
  destruct I as (I3 & M4 & T).
  destruct (move_to_stored from to s x s' H T M4 i sh (cb, src) St) as [S0|(-> & bij & src0 & c & S0 & Lc & Mc & Ep)].
  - exact (Ps i sh cb src S0).
  - inversion Ep; subst cb src0; clear Ep.
    destruct (Ps _ _ _ _ S0) as [A|A]; [left; exact A|right].
    eapply (srcok_moved_c sF s s' from to x sh bij src c); try eassumption; try reflexivity.
    exact (tb_ws s T _ _ _ S0).
Qed.

Section Fuel.
  Variable fu : nat.
  Hypothesis IH : ui_specP (union_internal fu).

  Lemma P_shrink_loop : forall E sF id cap moved, swf cap -> (forall pp, In pp moved -> injective pp) ->
    forall s x s', srcINV s -> (exists c, get_class s id = Ok c /\ incl (c_slots c) cap) ->
    sloop (union_internal fu) id cap moved s = Ok (x, s') -> eg_inv sF -> mext s' sF -> srcP E sF s -> srcP E sF s'.
  Proof.
    intros E sF id cap moved Wcap. pose proof (swf_NoDup _ Wcap) as Nd.
    induction moved as [|pp t IHl]; intros Hinj s x s' I Hcl H HF MF Ps; unfold sloop in *; cbn [iterM] in H.
    - inversion H; subst. exact Ps.
    - apply mbind_inv in H. destruct H as (u & s1 & H1 & H).
      apply bind_reads_inv in H1. destruct H1 as (sl & Hsl & H1). cbv zeta in H1.
      apply mbind_inv in H1. destruct H1 as (ps & s0 & Hps & H1). apply lift_inv in Hps. destruct Hps as [Hps ->].
      apply mbind_inv in H1. destruct H1 as (b & s2 & H1 & H2). inversion H2; subst u s2; clear H2.
      destruct Hcl as (c & Hc & Ic). unfold class_slots in Hsl. rewrite Hc in Hsl. cbn [bind] in Hsl.
      inversion Hsl; subst sl; clear Hsl.
      pose proof (get_from_pairs pp cap ps Nd Hps) as G.
      assert (C2 : covers s {| aid := id; am := from_iter ps |}).
      { exists c. cbn [aid am]. split; [assumption|]. split.
        - intros k1 k2 v A1 A2. apply G in A1, A2. destruct A1 as [_ A1], A2 as [_ A2].
          eapply (Hinj pp); [left; reflexivity| |]; eassumption.
        - intros k Hk. apply Ic in Hk. destruct (mapr_pairs pp cap ps Hps) as [A B].
          rewrite <- A in Hk. apply in_map_iff in Hk. destruct Hk as ([k' v] & Ek & Hin). cbn [fst] in Ek. subst k'.
          assert (E0 : get (from_iter ps) k = Some v) by (apply G; apply B; assumption). congruence. }
      pose proof (covers_identity s id c Hc) as C1.
      destruct (INV_ui fu _ _ _ _ _ I C1 C2 H1) as (I1 & Hs1 & X1).
      destruct (proj2 (proj2 (proj1 X1)) _ _ Hc) as (c1 & Hc1 & I1' & _).
      assert (Hcl1 : exists c, get_class s1 id = Ok c /\ incl (c_slots c) cap).
      { exists c1. split; [exact Hc1|]. eapply incl_tran; eauto. }
      destruct (shrink_moved4 fu (inv4_union_internal fu) id cap t Wcap (fun q Hq => Hinj q (or_intror Hq)) s1 x s' Hs1 Hcl1 H)
        as (_ & X2 & _).
      eapply (IHl (fun q Hq => Hinj q (or_intror Hq)) s1 x s' I1 Hcl1 H HF MF).
      eapply IH; [exact I|exact C1|exact C2|exact H1|exact HF|eapply mext_trans; eauto|exact Ps].
  Qed.

  Lemma P_shrink : forall E sF from cap s x s', srcINV s -> lcanon s from ->
    shrink_slots (union_internal fu) from cap s = Ok (x, s') -> eg_inv sF -> mext s' sF -> srcP E sF s -> srcP E sF s'.
  Proof.
    intros E sF from cap s x s' I L H HF MF Ps.
    pose proof L as [Ld (c & Hc & Gc & Wf & Bf & Kf)].
    rewrite shrink_split in H. apply mbind_inv in H. destruct H as ([oc moved] & s3 & Hpre & H). cbn [fst snd] in H.
    pose proof Hpre as Hpre0.
    unfold shrink_pre in Hpre. cbv zeta in Hpre.
    apply mbind_inv in Hpre. destruct Hpre as (ocl & s0 & Hoc & Hpre). apply lift_inv in Hoc. destruct Hoc as [Hoc ->].
    destruct (sset_of_list_spec ocl) as [Woc Ioc].
    apply mbind_inv in Hpre. destruct Hpre as (u1 & s1 & H1 & Hpre).
    unfold record_redundancy_witness in H1. apply bind_reads_inv in H1. destruct H1 as (ss & Hss & H1).
    pose proof (unionfind_set_classes _ _ _ _ _ H1) as Cl1.
    apply bind_reads_inv in Hpre. destruct Hpre as (c1 & Hc1 & Hpre).
    assert (c1 = c). { unfold get_class in Hc1, Hc. rewrite Cl1 in Hc1. congruence. } subst c1.
    apply mbind_inv in Hpre. destruct Hpre as (flags & s0 & Hfl & Hpre). apply lift_inv in Hfl. destruct Hfl as [Hfl ->].
    apply mbind_inv in Hpre. destruct Hpre as (g & s0 & Hg & Hpre). apply lift_inv in Hg. destruct Hg as [Hg ->].
    apply mbind_inv in Hpre. destruct Hpre as (u2 & s2 & H2 & Hpre).
    apply mbind_inv in Hpre. destruct Hpre as (u3 & s3' & H3 & Hpre). inversion Hpre; subst oc moved s3'; clear Hpre.
    set (oc := sset_of_list ocl) in *.
    (* the class of `from` before the loop *)
    destruct (upd_class_views _ _ _ _ _ H2) as (c2 & Hc2 & Hc2' & _).
    rewrite Hc1 in Hc2. inversion Hc2; subst c2; clear Hc2.
    assert (Hc3 : get_class s3 (aid from) = Ok (with_group (with_slots c oc) g)).
    { pose proof H3 as H3'. unfold touched_class in H3'. apply bind_reads_inv in H3'. destruct H3' as (c0 & _ & H3').
      destruct (touch_list_spec _ _ _ _ H3') as (p' & -> & _). exact Hc2'. }
    (* the stored entries are those of s *)
    assert (Sub : forall j y p, stored s3 j y p -> stored s j y p).
    { intros j y p S. eapply stored_unionfind_set; [exact H1|].
      eapply stored_upd_class; [|exact H2|]; [intros c0; reflexivity|].
      eapply stored_touched_class; [exact H3|exact S]. }
    (* the structural invariants before the loop: run the prefix with a union that does nothing *)
    assert (D : shrink_slots ui0 from cap s = Ok (tt, s3)).
    { rewrite shrink_split. unfold mbind. rewrite Hpre0. cbn [fst snd]. eapply dummy_loop; [exact H|exact Hc3]. }
    destruct I as (I3 & M4 & T). pose proof I3 as [[Hs Hbl] HN].
    assert (U0 : ui_spec ui0).
    { intros l0 r0 s4 b4 s4' Hs4 _ _ E4. inversion E4; subst. split; [exact Hs4|apply ext_refl]. }
    destruct (inv_shrink_slots ui0 U0 from cap s tt s3 Hs L D) as [Hs3 E3].
    assert (M43 : m4 s3).
    { refine (proj1 (h_shrink_slots ui0 _ from cap (lcanon_K1 _ _ M4 L) s tt s3 D M4)).
      intros l0 r0. apply h_ret. exact Logic.I. }
    assert (T3 : tab_ok s3).
    { refine (proj1 (hce_shrink_slots ui0 _ TT from cap s tt s3 D (tab_hce_TT _ T))).
      intros E0 l0 r0 s4 b4 s4' E4 H4. inversion E4; subst. exact H4. }
    assert (N3 : nodes_ok s3).
    { intros i c3 e Hc3i Hin. destruct e as [sh p].
      pose proof (ms_nodup_in_get _ _ _ (tb_cn s3 T3 i) ltac:(unfold cnodes; rewrite Hc3i; exact Hin)) as G3.
      assert (S3 : stored s3 i sh p) by exact G3.
      pose proof (Sub _ _ _ S3) as S0. destruct (stored_get _ _ _ _ S0) as (c0 & Hc0 & G0).
      destruct (proj2 (proj2 E3) _ _ Hc0) as (c3' & Hc3' & Inc & _). rewrite Hc3i in Hc3'. inversion Hc3'; subst c3'.
      destruct (HN i c0 (sh, p) Hc0 (na_get_in _ _ _ G0)) as (A1 & A2 & A3 & A4).
      split; [exact A1|]. split; [exact A2|]. split; [exact A3|]. intros x0 Hx0. apply A4. apply Inc. exact Hx0. }
    assert (I33 : inv3 s3) by (eapply inv3_intro; [exact (conj Hs Hbl)|exact Hs3|exact E3|exact N3]).
    (* the generators that are re-asserted are injective *)
    pose proof (grp_ok_generators c Gc) as Gens.
    assert (MI : forall pp, In pp (map fst (filter (fun p => negb (snd p)) (combine (ggenerators (c_group c)) flags))) -> injective pp).
    { intros pp Hpp.
      apply in_map_iff in Hpp. destruct Hpp as ([pp' b0] & Epp & Hin). cbn [fst] in Epp. subst pp'.
      apply filter_In in Hin. destruct Hin as [Hin _].
      destruct (mapr_combine _ _ _ Hfl _ _ Hin) as [Hall _].
      exact (proj1 (proj2 (proj2 (proj2 (proj1 (Forall_forall _ _) Gens pp Hall))))). }
    eapply (P_shrink_loop E sF (aid from) oc _ Woc MI s3 x s'); [exact (conj I33 (conj M43 T3))| |exact H|exact HF|exact MF|].
    - eexists. split; [exact Hc3|]. cbn [c_slots with_group with_slots]. apply incl_refl.
    - eapply P_sub; [exact Sub|exact Ps].
  Qed.

  Lemma P_union_leaders : forall E sF l r s b s', srcINV s -> lcanon s l -> lcanon s r ->
    union_leaders (union_internal fu) l r s = Ok (b, s') -> eg_inv sF -> mext s' sF -> srcP E sF s -> srcP E sF s'.
  Proof.
    intros E sF l r s b s' I Ll Lr H HF MF Ps. unfold union_leaders in H.
    pose proof (canon_covers _ _ (proj2 Ll)) as Cl. pose proof (canon_covers _ _ (proj2 Lr)) as Cr.
    apply bind_reads_inv in H. destruct H as (e & _ & H). destruct e; [inversion H; subst; exact Ps|].
    cbv zeta in H.
    destruct (negb (sset_eqb (values (am l)) _)) eqn:E1.
    { apply mbind_inv in H. destruct H as (u1 & s1 & H1 & H).
      apply mbind_inv in H. destruct H as (u2 & s2 & H2 & H). inversion H; subst b s2; clear H.
      destruct (INV_shrink fu _ _ _ _ _ I Ll H1) as (I1 & Hs1 & X1).
      pose proof (covers_ext _ _ _ (proj1 X1) Cl) as Cl1. pose proof (covers_ext _ _ _ (proj1 X1) Cr) as Cr1.
      destruct (INV_ui fu _ _ _ _ _ I1 Cl1 Cr1 H2) as (_ & _ & X2).
      eapply IH; [exact I1|exact Cl1|exact Cr1|exact H2|exact HF|exact MF|].
      eapply P_shrink; [exact I|exact Ll|exact H1|exact HF|eapply mext_trans; eauto|exact Ps]. }
    destruct (negb (sset_eqb (values (am r)) _)) eqn:E2.
    { apply mbind_inv in H. destruct H as (u1 & s1 & H1 & H).
      apply mbind_inv in H. destruct H as (u2 & s2 & H2 & H). inversion H; subst b s2; clear H.
      destruct (INV_shrink fu _ _ _ _ _ I Lr H1) as (I1 & Hs1 & X1).
      pose proof (covers_ext _ _ _ (proj1 X1) Cl) as Cl1. pose proof (covers_ext _ _ _ (proj1 X1) Cr) as Cr1.
      destruct (INV_ui fu _ _ _ _ _ I1 Cl1 Cr1 H2) as (_ & _ & X2).
      eapply IH; [exact I1|exact Cl1|exact Cr1|exact H2|exact HF|exact MF|].
      eapply P_shrink; [exact I|exact Lr|exact H1|exact HF|eapply mext_trans; eauto|exact Ps]. }
    apply negb_false_iff in E1, E2. apply sset_eqb_eq in E1, E2.
    assert (V : values (am l) = values (am r)) by congruence.
    destruct (aid l =? aid r) eqn:E3.
    - apply bind_reads_inv in H. destruct H as (c & Hc & H).
      apply mbind_inv in H. destruct H as (bb & s9 & H0 & H). apply lift_inv in H0. destruct H0 as [_ ->].
      destruct bb; [inversion H; subst; exact Ps|].
      apply mbind_inv in H. destruct H as (g & s9 & H0 & H). apply lift_inv in H0. destruct H0 as [_ ->].
      apply mbind_inv in H. destruct H as (u2 & s2 & H2 & H).
      apply mbind_inv in H. destruct H as (u3 & s3 & H3 & H). inversion H; subst b s3; clear H.
      eapply P_sub; [|exact Ps]. intros j y p S.
      eapply stored_upd_class; [|exact H2|]; [intros c0; reflexivity|].
      eapply stored_touched_class; [exact H3|exact S].
    - apply N.eqb_neq in E3.
      apply bind_reads_inv in H. destruct H as (cl & _ & H).
      apply bind_reads_inv in H. destruct H as (cr & _ & H).
      apply mbind_inv in H. destruct H as (u1 & s1 & H1 & H). inversion H; subst b s1; clear H.
      match type of H1 with (if ?c then _ else _) _ = _ => destruct c end.
      + eapply (P_move_to E sF l r); eauto.
      + eapply (P_move_to E sF r l); eauto.
  Qed.

  Lemma P_union_internal_body : ui_specP (union_internal_body (union_internal fu)).
  Proof.
    intros E sF l r s b s' I Cl Cr H HF MF Ps. unfold union_internal_body in H.
    apply bind_reads_inv in H. destruct H as (l1 & Hl & H).
    apply bind_reads_inv in H. destruct H as (r1 & Hr & H).
    pose proof (proj1 (proj1 (proj1 I))) as Hs.
    eapply P_union_leaders; [exact I| | |exact H|exact HF|exact MF|exact Ps].
    - exact (covers_lcanon s l l1 Hs Cl Hl).
    - exact (covers_lcanon s r r1 Hs Cr Hr).
  Qed.
End Fuel.

Theorem P_union_internal : forall fuel, ui_specP (union_internal fuel).
Proof.
  induction fuel as [|f IHf]; intros E sF l r s b s' I Cl Cr H HF MF Ps; [discriminate H|].
  rewrite union_internal_S in H. exact (P_union_internal_body f IHf E sF l r s b s' I Cl Cr H HF MF Ps).
Qed.

(* ================================================================== *)
(* 8. the theorems *)

Theorem src_uint : forall E l r s b s', inv3 s -> m4 s -> tab_ok s -> covers s l -> covers s r ->
  uint l r s = Ok (b, s') -> srcx E s -> srcx E s'.
Proof.
  intros E l r s b s' I3 M4 T Cl Cr H S. unfold uint in H.
  pose proof (conj I3 (conj M4 T)) as I.
  destruct (INV_ui ui_fuel l r s b s' I Cl Cr H) as (_ & Hs' & X).
  apply P_final.
  exact (P_union_internal ui_fuel E s' l r s b s' I Cl Cr H Hs' (mext_refl s') (P_init E s s' Hs' X S)).
Qed.

Theorem src_shrink_slots : forall E from cap s x s', inv3 s -> m4 s -> tab_ok s -> lcanon s from ->
  shrink_slots uint from cap s = Ok (x, s') -> srcx E s -> srcx E s'.
Proof.
  intros E from cap s x s' I3 M4 T L H S. unfold uint in H.
  pose proof (conj I3 (conj M4 T)) as I.
  destruct (INV_shrink ui_fuel from cap s x s' I L H) as (_ & Hs' & X).
  apply P_final.
  exact (P_shrink ui_fuel (P_union_internal ui_fuel) E s' from cap s x s' I L H Hs' (mext_refl s') (P_init E s s' Hs' X S)).
Qed.

(* the general form: coherence relative to any later state *)
Corollary src_uint_later : forall E sF l r s b s', inv3 s -> m4 s -> tab_ok s -> covers s l -> covers s r ->
  uint l r s = Ok (b, s') -> eg_inv sF -> mext s' sF -> srcP E sF s -> srcP E sF s'.
Proof. intros E sF l r s b s' I3 M4 T. exact (P_union_internal ui_fuel E sF l r s b s' (conj I3 (conj M4 T))). Qed.

Print Assumptions src_uint.
Print Assumptions src_shrink_slots.
Print Assumptions src_uint_later.
