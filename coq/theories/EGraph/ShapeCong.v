(* EGraph/ShapeCong.v — C01: `shape` does not distinguish nodes whose children are eg-equal.

   `shape_kid_eq`: replacing the children of a node (in occurrence order) by covered invocations
   that `eg_eq` identifies keeps the node part of `shape`.
   Route: the found children A_k, B_k differ by an element of the class group (A_k = gvar B_k pp_k,
   pp_k enumerated by gall_perms), so the two variant lists have the same members (closure of the
   enumeration under composition, `orbit_step`); the first minima have the same key; two variants
   of one node have the same skeleton, and a node is determined by skeleton and occurrences. *)
From SE Require Import Slots.SlotMapFacts Group.GroupSound Lang.LangFacts Lang.ShapeFacts Lang.RenameFacts
  Base.TextFacts EGraph.Model EGraph.ModelFacts EGraph.ModelMachine EGraph.UnionFindFacts EGraph.InvariantFacts
  EGraph.UnionInvariantFacts EGraph.AddCoversFacts EGraph.MonotoneFacts EGraph.HashconsShape EGraph.NodeCong.
Require Import ZArith Lia ZifyBool ZifyN ZifyNat.

Local Notation "a ** b" := (compose_partial a b) (at level 40, left associativity).
Local Notation inv := inverse_nocheck.

(* ================================================================== *)
(* 1. membership accepted by gcontains is enumerated by gall_perms *)

Lemma gcontains_in_gall : forall c p G, grp_ok c -> perm_on (c_slots c) p ->
  gcontains false (c_group c) p = Ok true -> gall_perms false (c_group c) = Ok G -> In p G.
Proof.
  intros c p G (gens & HG & Hnew) Hp Hc Hl.
  pose proof (identity_is_id (c_slots c)) as Hid.
  destruct (gall_perms_exact (c_slots c) (identity (c_slots c)) gens Hid HG) as (g & l & Hg & Hl' & _ & Hin & _).
  rewrite Hnew in Hg. inversion Hg; subst g. rewrite Hl in Hl'. inversion Hl'; subst l.
  apply Hin. eapply gcontains_sound; eauto.
Qed.

(* ================================================================== *)
(* 2. children in canonical form that differ by an enumerated element of the class group *)

(* a canonical child: fixed by find, and its map is a bijection defined exactly on the class slots *)
Definition ckid (s : egraph) (a : appid) : Prop := lkid s a /\ canon_ok s a.

Definition krel (s : egraph) (A B : appid) : Prop :=
  ckid s A /\ ckid s B /\
  exists c pp, get_class s (aid A) = Ok c /\
    (forall G, gall_perms false (c_group c) = Ok G -> In pp G) /\ B = gvar A pp.

Lemma krel_aid : forall s A B, krel s A B -> aid B = aid A.
Proof. intros s A B (_ & _ & c & pp & _ & _ & ->). reflexivity. Qed.

Lemma kid_eq_krel : forall s a b A B, eg_inv s -> covers s a -> covers s b -> eg_eq s a b = Ok true ->
  find_applied_id s a = Ok A -> find_applied_id s b = Ok B -> krel s B A.
Proof.
  intros s a b A B Hs Ca Cb E FA FB.
  destruct (eg_eq_true_inv _ _ _ E) as (a' & b' & c & Fa & Fb & Ei & V & Hc & G).
  rewrite FA in Fa. inversion Fa; subst a'; clear Fa. rewrite FB in Fb. inversion Fb; subst b'; clear Fb.
  pose proof (find_canon s a A (ei_uf _ Hs) (ei_slots _ Hs) Ca FA) as KA.
  pose proof (find_canon s b B (ei_uf _ Hs) (ei_slots _ Hs) Cb FB) as KB.
  pose proof (found_lkid s a A Hs FA) as LA. pose proof (found_lkid s b B Hs FB) as LB.
  split; [split; assumption|]. split; [split; assumption|].
  destruct KA as (cA & HcA & GA & WA & BA & KeA). destruct KB as (cB & HcB & GB & WB & BB & KeB).
  rewrite Hc in HcA. inversion HcA; subst cA; clear HcA.
  rewrite <- Ei, Hc in HcB. inversion HcB; subst cB; clear HcB.
  exists c, (am A ** inv (am B)). split; [rewrite <- Ei; exact Hc|]. split.
  - intros G0 HG0. eapply gcontains_in_gall; eauto.
    apply (quot_perm_on (c_slots c) (am A) (am B)); assumption.
  - destruct A as [iA mA], B as [iB mB]. cbn [aid am] in *. unfold gvar. cbn [aid am]. subst iB. f_equal.
    symmetry. apply quot_cancel; try assumption.
    intros k y Gk. rewrite <- V. apply values_spec; eauto.
Qed.

(* in a class with a trivial group the relation is equality *)
Lemma krel_trivial : forall s A B c, krel s A B -> get_class s (aid A) = Ok c ->
  gis_trivial (c_group c) = true -> B = A.
Proof.
  intros s A B c ((LA & _) & _ & c' & pp & Hc' & Hin & ->) Hc T.
  rewrite Hc in Hc'. inversion Hc'; subst c'; clear Hc'.
  assert (Hg : grp_ok c).
  { destruct LA as (e & c' & _ & _ & Hc' & Hg & _). rewrite Hc in Hc'. inversion Hc'; subst. exact Hg. }
  destruct (c_group c) as [i [x|]] eqn:Eg; [cbn [gis_trivial] in T; discriminate|].
  assert (HG : gall_perms false (c_group c) = Ok [i]) by (rewrite Eg; reflexivity).
  destruct (grp_facts c [i] Hg HG) as (_ & _ & (tl & Hhd)).
  rewrite <- Eg in Hin. specialize (Hin [i] HG). destruct Hin as [<-|[]].
  inversion Hhd; subst. eapply gvar_id; eauto.
Qed.

(* ================================================================== *)
(* 3. the skeleton only sees the ids and the key lists of the children *)

Definition sk_eq (x y : appid) : Prop :=
  aid x = aid y /\ map (fun p : slot * slot => (fst p, 0)) (am x) = map (fun p : slot * slot => (fst p, 0)) (am y).

Lemma skel_set_apps_f : forall a r0 l, Forall2 sk_eq (app_occ_f a ++ r0) l ->
  skel_f (fst (set_apps_f a l)) = skel_f a /\ Forall2 sk_eq r0 (snd (set_apps_f a l)).
Proof.
  induction a as [x|x|x b IH|p]; intros r0 l H; cbn [set_apps_f app_occ_f app fst snd skel_f] in *; auto.
  - inversion H as [|x0 y l0 t (Ha & Hm) Ht]; subst. cbn [fst snd skel_f]. rewrite Ha, Hm. auto.
  - destruct (IH r0 l H) as (A & B). destruct (set_apps_f b l) as [b' l']. cbn [fst snd skel_f] in *.
    rewrite A. auto.
Qed.

Lemma skel_set_apps_args : forall args l, Forall2 sk_eq (flat_map app_occ_f args) l ->
  map skel_f (set_apps_args args l) = map skel_f args.
Proof.
  induction args as [|a t IH]; intros l H; cbn [set_apps_args flat_map map] in *; [reflexivity|].
  destruct (skel_set_apps_f a _ l H) as (A & B). destruct (set_apps_f a l) as [a' l']. cbn [fst snd map] in *.
  rewrite A, (IH l' B). reflexivity.
Qed.

Lemma skel_set_apps : forall n l, Forall2 sk_eq (app_occ n) l -> skel (set_apps n l) = skel n.
Proof.
  intros n l H. unfold skel, set_apps. cbn [nvar nargs]. f_equal. apply skel_set_apps_args. exact H.
Qed.

Lemma map_vals_wf : forall h m, wf m -> wf (map_vals h m).
Proof.
  intros h. induction m as [|[k v] t IH]; intros W; cbn [map_vals map wf fst snd] in *; [exact I|].
  destruct W as (L & W). split; [|apply IH; exact W].
  destruct t as [|[k' v'] t']; cbn [map lb fst snd] in *; auto.
Qed.

Lemma same_keys_sk : forall m1 m2, wf m1 -> wf m2 -> keys m1 = keys m2 ->
  map (fun p : slot * slot => (fst p, 0)) m1 = map (fun p : slot * slot => (fst p, 0)) m2.
Proof.
  intros m1 m2 W1 W2 K. change (map_vals (fun _ => 0) m1 = map_vals (fun _ => 0) m2).
  apply ext_eq; try (apply map_vals_wf; assumption). intros k. rewrite !get_map_vals.
  pose proof (keys_spec m1 k) as S1. pose proof (keys_spec m2 k) as S2. rewrite K in S1.
  destruct (get m1 k) as [v1|], (get m2 k) as [v2|]; cbn [option_map]; try reflexivity; exfalso.
  - assert (X : @None slot <> None) by (apply S2, S1; discriminate). apply X; reflexivity.
  - assert (X : @None slot <> None) by (apply S1, S2; discriminate). apply X; reflexivity.
Qed.

Lemma ckid_gvar : forall s a c pp, ckid s a -> get_class s (aid a) = Ok c -> perm_on (c_slots c) pp ->
  ckid s (gvar a pp) /\ sk_eq a (gvar a pp).
Proof.
  intros s a c pp (La & (c' & Hc' & Hg & W & B & K)) Hc Hpp.
  rewrite Hc in Hc'. inversion Hc'; subst c'; clear Hc'.
  destruct (perm_compose_bij (c_slots c) pp (am a) Hpp W B K) as (W2 & B2 & K2 & _).
  split; [split|split].
  - eapply lkid_gvar; eauto.
  - exists c. unfold gvar. cbn [aid am]. auto.
  - reflexivity.
  - unfold gvar. cbn [am]. apply same_keys_sk; try assumption. congruence.
Qed.

(* ================================================================== *)
(* 4. the variants of a node with canonical children *)

Definition kid_cg (s : egraph) (a : appid) (G : list perm) : Prop :=
  ckid s a /\ exists c, get_class s (aid a) = Ok c /\ gall_perms false (c_group c) = Ok G.

Lemma kid_cg_grp : forall s a G, kid_cg s a G -> kid_grp s a G.
Proof. intros s a G ((La & _) & c & Hc & HG). eapply kid_grp_intro; eauto. Qed.

Lemma variants_inv : forall s N vs, (forall a, In a (app_occ N) -> ckid s a) -> variants s N = Ok vs ->
  exists cls, mapr (fun a => get_class s (aid a)) (app_occ N) = Ok cls /\
    ((forallb (fun c => gis_trivial (c_group c)) cls = true /\ vs = [N]) \/
     (forallb (fun c => gis_trivial (c_group c)) cls = false /\
      exists groups, mapr (fun c => gall_perms false (c_group c)) cls = Ok groups /\
        Forall2 (kid_cg s) (app_occ N) groups /\
        vs = map (fun l => set_apps N (zip_with gvar (app_occ N) l)) (cartesian groups))).
Proof.
  intros s N vs Ck V. unfold variants in V.
  destruct (mapr (fun a => get_class s (aid a)) (app_occ N)) as [cls|] eqn:Ec; cbn [bind] in V; [|discriminate].
  exists cls. split; [reflexivity|].
  destruct (forallb (fun c => gis_trivial (c_group c)) cls) eqn:Tr.
  - left. inversion V. auto.
  - right. split; [reflexivity|].
    destruct (mapr (fun c => gall_perms false (c_group c)) cls) as [groups|] eqn:Eg; cbn [bind] in V; [|discriminate].
    exists groups. split; [reflexivity|]. split; [|inversion V; reflexivity].
    exact (mapr_mapr_F2 (ckid s) _ _ _ _ _ Ck Ec Eg).
Qed.

Lemma orbit_sk : forall s apps groups l, Forall2 (kid_cg s) apps groups -> Forall2 (@In perm) l groups ->
  Forall2 sk_eq apps (zip_with gvar apps l) /\ Forall (ckid s) (zip_with gvar apps l).
Proof.
  intros s apps groups l H. revert l.
  induction H as [|a G apps' groups' (Ca & c & Hc & HG) _ IH]; intros l Hl.
  - inversion Hl; subst. split; constructor.
  - inversion Hl as [|p0 ? t0 ? Hp0 Ht0]; subst. destruct (IH t0 Ht0) as (A & B). cbn [zip_with].
    assert (Hg : grp_ok c).
    { destruct Ca as (_ & c' & Hc' & Hg & _). rewrite Hc in Hc'. inversion Hc'; subst. exact Hg. }
    destruct (grp_facts c G Hg HG) as (Hpo & _ & _).
    destruct (ckid_gvar s a c p0 Ca Hc (Hpo p0 Hp0)) as (C1 & C2).
    split; constructor; assumption.
Qed.

Lemma variants_skel : forall s N vs v, (forall a, In a (app_occ N) -> ckid s a) -> variants s N = Ok vs ->
  In v vs -> skel v = skel N.
Proof.
  intros s N vs v Ck V Hv. destruct (variants_inv s N vs Ck V) as (cls & Ec & [(Tr & ->)|(Tr & groups & Eg & KC & ->)]).
  - destruct Hv as [<-|[]]. reflexivity.
  - apply in_map_iff in Hv. destruct Hv as (l & <- & Hl). apply cart_in in Hl.
    apply skel_set_apps. exact (proj1 (orbit_sk s _ _ l KC Hl)).
Qed.

(* two variants with the same key have the same weak-shape node *)
Lemma variants_key_inj : forall s N vs v1 v2 sh1 b1 sh2 b2, (forall a, In a (app_occ N) -> ckid s a) ->
  variants s N = Ok vs -> In v1 vs -> In v2 vs -> wshape v1 = Ok (sh1, b1) -> wshape v2 = Ok (sh2, b2) ->
  all_occ sh1 = all_occ sh2 -> sh1 = sh2.
Proof.
  intros s N vs v1 v2 sh1 b1 sh2 b2 Ck V H1 H2 W1 W2 E.
  apply skel_occ_inj; [|exact E].
  rewrite (ws_skel _ _ _ W1), (ws_skel _ _ _ W2).
  rewrite (variants_skel s N vs v1 Ck V H1), (variants_skel s N vs v2 Ck V H2). reflexivity.
Qed.

(* ================================================================== *)
(* 5. related children: the variants of the second node are variants of the first *)

Lemma krel_facts : forall s LA LB, Forall2 (krel s) LA LB ->
  (forall a, In a LA -> ckid s a) /\ (forall b, In b LB -> ckid s b) /\ map aid LB = map aid LA.
Proof.
  intros s LA LB H. induction H as [|a b LA' LB' Hab _ (I1 & I2 & I3)].
  - split; [intros a []|]. split; [intros a []|reflexivity].
  - pose proof (krel_aid _ _ _ Hab) as Ea. destruct Hab as (Ca & Cb & _). cbn [map]. split; [|split].
    + intros x [<-|Hx]; auto.
    + intros x [<-|Hx]; auto.
    + rewrite Ea, I3. reflexivity.
Qed.

Lemma krel_trivial_all : forall s LA LB cls, Forall2 (krel s) LA LB ->
  mapr (fun a => get_class s (aid a)) LA = Ok cls ->
  forallb (fun c => gis_trivial (c_group c)) cls = true -> LB = LA.
Proof.
  intros s LA LB cls H. revert cls. induction H as [|a b LA' LB' Hab _ IH]; intros cls Ec Tr; [reflexivity|].
  cbn [mapr] in Ec. destruct (get_class s (aid a)) as [c|] eqn:Hc; cbn [bind] in Ec; [|discriminate].
  destruct (mapr (fun a => get_class s (aid a)) LA') as [cls'|] eqn:Ec'; cbn [bind] in Ec; [|discriminate].
  inversion Ec; subst cls; clear Ec. cbn [forallb] in Tr. apply andb_prop in Tr. destruct Tr as (T1 & T2).
  rewrite (krel_trivial s a b c Hab Hc T1), (IH cls' eq_refl T2). reflexivity.
Qed.

Lemma krel_perms : forall s LA LB groups, Forall2 (krel s) LA LB -> Forall2 (kid_cg s) LA groups ->
  exists P, Forall2 (@In perm) P groups /\ LB = zip_with gvar LA P.
Proof.
  intros s LA LB groups H. revert groups.
  induction H as [|a b LA' LB' Hab _ IH]; intros groups HG.
  - inversion HG; subst. exists []. split; [constructor|reflexivity].
  - inversion HG as [|? G ? groups' (_ & c & Hc & HGc) HG']; subst.
    destruct (IH groups' HG') as (P & HP & ->).
    destruct Hab as (_ & _ & c' & pp & Hc' & Hin & ->).
    rewrite Hc in Hc'. inversion Hc'; subst c'; clear Hc'.
    exists (pp :: P). split; [constructor; [apply Hin; exact HGc|exact HP]|reflexivity].
Qed.

Lemma variants_sub1 : forall s N LB vs, Forall2 (krel s) (app_occ N) LB -> variants s N = Ok vs ->
  exists vs', variants s (set_apps N LB) = Ok vs' /\ (forall v, In v vs' -> In v vs).
Proof.
  intros s N LB vs HR V.
  destruct (krel_facts s _ _ HR) as (CkA & CkB & Eaid).
  pose proof (Forall2_length' _ _ _ HR) as Len.
  pose proof (app_occ_set_apps N LB Len) as Op.
  destruct (variants_inv s N vs CkA V) as (cls & Ec & [(Tr & ->)|(Tr & groups & Eg & KC & ->)]).
  - rewrite (krel_trivial_all s _ _ cls HR Ec Tr), set_apps_self. exists [N]. split; [exact V|auto].
  - unfold variants. rewrite Op.
    rewrite (mapr_map aid (get_class s) LB), Eaid, <- (mapr_map aid (get_class s) (app_occ N)), Ec. cbn [bind].
    rewrite Tr, Eg. cbn [bind]. eexists. split; [reflexivity|]. fold gvar.
    intros v Hv. apply in_map_iff in Hv. destruct Hv as (l & <- & Hl). apply cart_in in Hl.
    destruct (krel_perms s _ _ groups HR KC) as (P & HP & ELB).
    assert (KG : Forall2 (kid_grp s) (app_occ N) groups).
    { revert KC. apply Forall2_imp. intros a G. apply kid_cg_grp. }
    destruct (orbit_step s (app_occ N) groups P l KG HP Hl) as (l' & Hl' & E).
    apply in_map_iff. exists l'. split; [|apply cart_in; exact Hl'].
    change (set_apps N (zip_with gvar (app_occ N) l') = set_apps (set_apps N LB) (zip_with gvar LB l)).
    rewrite ELB at 2. rewrite E. symmetry. apply set_apps_twice.
    destruct (orbit_lkid s (app_occ N) groups l' KG Hl') as (_ & Al').
    rewrite <- (map_length aid (zip_with gvar (app_occ N) l')), Al', map_length. lia.
Qed.

(* ================================================================== *)
(* 6. the first minima of two lists with the same members have the same key *)

Lemma min_same_key : forall vs vs' p, min_variant vs None = Ok p ->
  (forall v, In v vs -> In v vs') -> (forall v, In v vs' -> In v vs) ->
  exists p', min_variant vs' None = Ok p' /\ In p vs /\ In p' vs /\ kof p = kof p'.
Proof.
  intros vs vs' p H S1 S2.
  destruct vs as [|v0 tl]; [cbn [min_variant] in H; discriminate|].
  destruct vs' as [|v0' tl']; [destruct (S1 v0 (or_introl eq_refl))|].
  rewrite min_variant_step in H. rewrite min_variant_step.
  destruct (min_variant_ok tl' (v0', kof v0')) as (p' & Hp'). exists p'. split; [exact Hp'|].
  assert (Ip : In p (v0 :: tl)).
  { destruct (min_variant_in _ _ _ H) as [Hin|(k & Hk)]; [right; exact Hin|inversion Hk; left; reflexivity]. }
  assert (Ip' : In p' (v0' :: tl')).
  { destruct (min_variant_in _ _ _ Hp') as [Hin|(k & Hk)]; [right; exact Hin|inversion Hk; left; reflexivity]. }
  destruct (min_spec _ _ _ H) as (A0 & At). destruct (min_spec _ _ _ Hp') as (B0 & Bt).
  assert (Aall : forall v, In v (v0 :: tl) -> cmp_slots (kof v) (kof p) <> Lt) by (intros v [<-|Hv]; auto).
  assert (Ball : forall v, In v (v0' :: tl') -> cmp_slots (kof v) (kof p') <> Lt) by (intros v [<-|Hv]; auto).
  split; [exact Ip|]. split; [apply S2; exact Ip'|].
  pose proof (Aall p' (S2 p' Ip')) as C1. pose proof (Ball p (S1 p Ip)) as C2.
  rewrite (cmp_slots_antisym (kof p) (kof p')) in C1.
  destruct (cmp_slots (kof p) (kof p')) eqn:C; cbn [CompOpp] in C1; try congruence.
  apply cmp_slots_eq. exact C.
Qed.

(* ================================================================== *)
(* 7. the found children of eg-equal children are related both ways *)

Lemma kids_found : forall s L l, eg_inv s -> Forall2 (kid_eq s) L l ->
  forall LA, mapr (find_applied_id s) L = Ok LA ->
  exists LB, mapr (find_applied_id s) l = Ok LB /\ Forall2 (krel s) LA LB /\ Forall2 (krel s) LB LA.
Proof.
  intros s L l Hs H. induction H as [|a b L' l' (Ca & Cb & E) _ IH]; intros LA EA; cbn [mapr] in *.
  - inversion EA; subst. exists []. split; [reflexivity|split; constructor].
  - destruct (find_applied_id s a) as [A|] eqn:FA; cbn [bind] in EA; [|discriminate].
    destruct (mapr (find_applied_id s) L') as [LA'|] eqn:EA'; cbn [bind] in EA; [|discriminate].
    inversion EA; subst LA; clear EA.
    destruct (IH LA' eq_refl) as (LB' & EB' & R1 & R2).
    destruct (eg_eq_true_inv _ _ _ E) as (a' & B & c & Fa & FB & _).
    rewrite FB, EB'. cbn [bind]. exists (B :: LB'). split; [reflexivity|].
    pose proof (eg_eq_sym_true s a b Hs Ca Cb E) as E'.
    split; constructor; try assumption.
    + exact (kid_eq_krel s b a B A Hs Cb Ca E' FB FA).
    + exact (kid_eq_krel s a b A B Hs Ca Cb E FA FB).
Qed.

(* ================================================================== *)
(* 8. the theorem *)

Theorem shape_kid_eq : spec_shape_kid_eq.
Proof.
  intros s n l t Hs HK S. unfold shape in S.
  destruct (pre_shape s n) as [p|] eqn:P; cbn [bind] in S; [|discriminate].
  unfold pre_shape in P.
  destruct (find_enode s n) as [N|] eqn:F; cbn [bind] in P; [|discriminate].
  destruct (variants s N) as [vs|] eqn:V; cbn [bind] in P; [|discriminate].
  unfold find_enode in F.
  destruct (mapr (find_applied_id s) (app_occ n)) as [LA|] eqn:EA; cbn [bind] in F; [|discriminate].
  inversion F; subst N; clear F.
  destruct (kids_found s _ _ Hs HK LA EA) as (LB & EB & R1 & R2).
  pose proof (Forall2_length' _ _ _ HK) as Ll.
  pose proof (mapr_length _ _ _ EA) as LLA. pose proof (mapr_length _ _ _ EB) as LLB.
  pose proof (app_occ_set_apps n l Ll) as Ol.
  pose proof (app_occ_set_apps n LA LLA) as OA.
  assert (OB : app_occ (set_apps n LB) = LB) by (apply app_occ_set_apps; lia).
  assert (FB : find_enode s (set_apps n l) = Ok (set_apps n LB)).
  { unfold find_enode. rewrite Ol, EB. cbn [bind]. rewrite set_apps_twice by lia. reflexivity. }
  assert (NB : set_apps (set_apps n LA) LB = set_apps n LB) by (apply set_apps_twice; lia).
  assert (NA : set_apps (set_apps n LB) LA = set_apps n LA) by (apply set_apps_twice; lia).
  rewrite <- OA in R1. destruct (variants_sub1 s _ LB vs R1 V) as (vs' & V' & S2). rewrite NB in V'.
  rewrite <- OB in R2. destruct (variants_sub1 s _ LA vs' R2 V') as (vs'' & V'' & S1). rewrite NA, V in V''.
  inversion V''; subst vs''; clear V''.
  destruct (min_same_key vs vs' p P S1 S2) as (p' & P' & Ip & Ip' & K).
  destruct (weak_shape_total false p') as (sh' & b' & W'). fold (wshape p') in W'.
  destruct t as [sh b]. cbn [fst].
  assert (Esh : sh = sh').
  { apply (variants_key_inj s (set_apps n LA) vs p p' sh b sh' b'); try assumption.
    - exact (proj1 (krel_facts s _ _ R1)).
    - unfold kof in K. rewrite S, W' in K. exact K. }
  exists b'. unfold shape, pre_shape. rewrite FB. cbn [bind]. rewrite V'. cbn [bind]. rewrite P'. cbn [bind].
  rewrite W', Esh. reflexivity.
Qed.

Print Assumptions shape_kid_eq.
