(* EGraph/SoundAddExpr.v — C01, stage 2: insertion (`add_expr`) keeps the soundness invariant and the
   returned handle denotes the inserted term.  The bridge between `canon` (Sem/Term.v) and `NodeT`
   (SoundFacts.v); `Sound_eg_add`; `Sound_add_expr`.  See the summary at the end of the file. *)
From SE Require Import Slots.SlotMapFacts Group.GroupSound Lang.LangFacts Lang.ShapeFacts Lang.RenameFacts
  EGraph.Model EGraph.ModelFacts EGraph.ModelMachine EGraph.UnionFindFacts EGraph.InvariantFacts
  EGraph.UnionInvariantFacts EGraph.AddCoversFacts EGraph.MonotoneFacts EGraph.SoundFacts EGraph.SoundSyn
  EGraph.SoundNode.
From SE Require Import Sem.Deriv Sem.DerivFacts Sem.AlgebraFacts Sem.EgMachine Explain.CheckerFacts.
Require Import ZArith Lia ZifyBool ZifyN ZifyNat.
Ltac Zify.zify_post_hook ::= Z.div_mod_to_equations.

Local Notation "a ** b" := (compose_partial a b) (at level 40, left associativity).
Local Notation inv := inverse_nocheck.
Local Notation ectr := Model.ctr.

(* ====================================================================== *)
(* 1. canon, restated with top-level fixpoints                             *)
(* ====================================================================== *)

Section CanonDef.
  Variable cn : nat -> list (slot * N) -> rterm -> cterm.
  Fixpoint canon_arg (d : nat) (env : list (slot * N)) (a : farg) (ch : list rterm) : carg * list rterm :=
    match a with
    | ASlot s => (CSlot (env_get env s), ch)
    | AApp _ => match ch with
                | c :: ch' => (CChild (cn d env c), ch')
                | [] => (CChild (CT 0 []), [])
                end
    | ABind s b => let '(b', ch') := canon_arg (S d) ((s, B d) :: env) b ch in (CBind b', ch')
    | APay p => (CPay p, ch)
    end.
  Section CanonArgs.
    Variables (d : nat) (env : list (slot * N)).
    Fixpoint canon_args (l : list farg) (ch : list rterm) : list carg :=
      match l with
      | [] => []
      | a :: l' => let '(a', ch') := canon_arg d env a ch in a' :: canon_args l' ch'
      end.
  End CanonArgs.
End CanonDef.

Lemma canon_S : forall f d env n ch,
  canon (S f) d env (RT n ch) = CT (nvar n) (canon_args (canon f) d env (nargs n) ch).
Proof. reflexivity. Qed.

Definition usern (x : N) : Prop := x mod 4 = 0 \/ x mod 4 = 2.
Lemma usern_notB : forall x, usern x -> is_B x = false.
Proof. intros x H. unfold usern, is_B in *. lia. Qed.

Lemma rt_ok_iff : forall n ch, rt_ok (RT n ch) <-> (forall x, In x (all_occ n) -> usern x) /\ Forall rt_ok ch.
Proof.
  intros n ch. cbn [rt_ok]. unfold usern. split; intros [A C]; (split; [exact A|]).
  - induction ch as [|c r IH]; constructor; [apply C|apply IH; apply C].
  - induction C as [|c r Hc C IH]; [exact I|split; assumption].
Qed.

Lemma rsize_child : forall n ch c, In c ch -> (rsize c < rsize (RT n ch))%nat.
Proof.
  intros n ch c H. cbn [rsize]. induction ch as [|x r IH]; [destruct H|]. cbn [fold_right].
  destruct H as [->|H]; [lia|]. specialize (IH H). lia.
Qed.

(* the children that are left over do not depend on cn, d, env *)
Lemma canon_arg_snd : forall cn1 cn2 a d1 d2 env1 env2 ch,
  snd (canon_arg cn1 d1 env1 a ch) = snd (canon_arg cn2 d2 env2 a ch).
Proof.
  intros cn1 cn2. induction a as [x|x|x b IH|p]; intros d1 d2 env1 env2 ch; cbn [canon_arg]; try reflexivity.
  - destruct ch; reflexivity.
  - specialize (IH (S d1) (S d2) ((x, B d1) :: env1) ((x, B d2) :: env2) ch).
    destruct (canon_arg cn1 _ _ b ch), (canon_arg cn2 _ _ b ch). exact IH.
Qed.

Lemma canon_arg_snd_in : forall cn a d env ch c, In c (snd (canon_arg cn d env a ch)) -> In c ch.
Proof.
  intros cn. induction a as [x|x|x b IH|p]; intros d env ch c H; cbn [canon_arg] in H; try exact H.
  - destruct ch; cbn [snd] in H; [destruct H|right; exact H].
  - specialize (IH (S d) ((x, B d) :: env) ch c). destruct (canon_arg cn _ _ b ch). apply IH. exact H.
Qed.

Lemma canon_arg_ext : forall cn1 cn2 a d env ch, (forall c d' env', In c ch -> cn1 d' env' c = cn2 d' env' c) ->
  canon_arg cn1 d env a ch = canon_arg cn2 d env a ch.
Proof.
  intros cn1 cn2. induction a as [x|x|x b IH|p]; intros d env ch H; cbn [canon_arg]; try reflexivity.
  - destruct ch as [|c r]; [reflexivity|]. rewrite H; [reflexivity|left; reflexivity].
  - rewrite (IH _ _ _ H). reflexivity.
Qed.

Lemma canon_args_ext : forall cn1 cn2 d env l ch, (forall c d' env', In c ch -> cn1 d' env' c = cn2 d' env' c) ->
  canon_args cn1 d env l ch = canon_args cn2 d env l ch.
Proof.
  intros cn1 cn2 d env. induction l as [|a l IH]; intros ch H; cbn [canon_args]; [reflexivity|].
  rewrite (canon_arg_ext cn1 cn2 a d env ch H).
  destruct (canon_arg cn2 d env a ch) as [a' ch'] eqn:Ea. f_equal. apply IH.
  intros c d' env' Hc. apply H. apply (canon_arg_snd_in cn2 a d env ch). rewrite Ea. exact Hc.
Qed.

Lemma canon_fuel : forall f f' d env t, (rsize t < f)%nat -> (rsize t < f')%nat ->
  canon f d env t = canon f' d env t.
Proof.
  induction f as [|f IH]; intros f' d env t H1 H2; [lia|]. destruct f' as [|f']; [lia|].
  destruct t as [n ch]. rewrite !canon_S. f_equal. apply canon_args_ext.
  intros c d' env' Hc. pose proof (rsize_child n ch c Hc). apply IH; lia.
Qed.

(* canon under a renaming of the environment *)
Lemma canon_arg_cren : forall cn r, forall a d1 d2 env1 env2 ch,
  (forall x, In x (all_occ_f a) -> usern x) ->
  (forall c j1 j2 e1 e2, In c ch -> shifts j2 j1 r -> (forall x, usern x -> env_get e1 x = r (env_get e2 x)) ->
     cn j1 e1 c = cren r (cn j2 e2 c)) ->
  shifts d2 d1 r -> (forall x, usern x -> env_get env1 x = r (env_get env2 x)) ->
  fst (canon_arg cn d1 env1 a ch) = cren_arg r (fst (canon_arg cn d2 env2 a ch)).
Proof.
  intros cn r. induction a as [x|x|x b IH|p]; intros d1 d2 env1 env2 ch U Hc Sh He; cbn [canon_arg].
  - cbn [fst cren_arg]. rewrite He; [reflexivity|]. apply U. left. reflexivity.
  - destruct ch as [|c rest]; cbn [fst cren_arg]; [reflexivity|]. f_equal.
    apply Hc; [left; reflexivity|exact Sh|exact He].
  - specialize (IH (S d1) (S d2) ((x, B d1) :: env1) ((x, B d2) :: env2) ch).
    destruct (canon_arg cn (S d1) _ b ch) as [b1 c1]. destruct (canon_arg cn (S d2) _ b ch) as [b2 c2].
    cbn [fst cren_arg] in *. f_equal. apply IH.
    + intros y Hy. apply U. right. exact Hy.
    + exact Hc.
    + apply shifts_S. exact Sh.
    + intros y Hy. cbn [env_get]. destruct (y =? x); [|apply He; exact Hy]. symmetry. apply shifts_0. exact Sh.
  - reflexivity.
Qed.

Lemma canon_args_cren : forall cn r d1 d2 env1 env2, shifts d2 d1 r ->
  (forall x, usern x -> env_get env1 x = r (env_get env2 x)) ->
  forall l ch, (forall a x, In a l -> In x (all_occ_f a) -> usern x) ->
  (forall c j1 j2 e1 e2, In c ch -> shifts j2 j1 r -> (forall x, usern x -> env_get e1 x = r (env_get e2 x)) ->
     cn j1 e1 c = cren r (cn j2 e2 c)) ->
  canon_args cn d1 env1 l ch = map (cren_arg r) (canon_args cn d2 env2 l ch).
Proof.
  intros cn r d1 d2 env1 env2 Sh He. induction l as [|a l IH]; intros ch U Hc; cbn [canon_args map]; [reflexivity|].
  pose proof (canon_arg_cren cn r a d1 d2 env1 env2 ch (fun x Hx => U a x (or_introl eq_refl) Hx) Hc Sh He) as A.
  pose proof (canon_arg_snd cn cn a d1 d2 env1 env2 ch) as S.
  pose proof (canon_arg_snd_in cn a d2 env2 ch) as I.
  destruct (canon_arg cn d1 env1 a ch) as [a1 c1]. destruct (canon_arg cn d2 env2 a ch) as [a2 c2].
  cbn [fst snd] in *. subst c1. cbn [map]. f_equal; [exact A|]. apply IH.
  - intros a' x Ha'. apply U. right. exact Ha'.
  - intros c j1 j2 e1 e2 Hin. apply Hc. apply I. exact Hin.
Qed.

Theorem canon_cren : forall f r c d1 d2 env1 env2, rt_ok c -> shifts d2 d1 r ->
  (forall x, usern x -> env_get env1 x = r (env_get env2 x)) ->
  canon f d1 env1 c = cren r (canon f d2 env2 c).
Proof.
  induction f as [|f IH]; intros r c d1 d2 env1 env2 OK Sh He; [reflexivity|].
  destruct c as [n ch]. apply rt_ok_iff in OK. destruct OK as [U C]. rewrite !canon_S, cren_CT. f_equal.
  apply canon_args_cren; [exact Sh|exact He| |].
  - intros a x Ha Hx. apply U. unfold all_occ. apply in_flat_map. exists a. split; assumption.
  - intros c j1 j2 e1 e2 Hin Sh' He'. apply IH; [|exact Sh'|exact He'].
    apply (proj1 (Forall_forall _ _) C). exact Hin.
Qed.

(* canon at depth d with environment env, through canon0 *)
Corollary canon_canon0 : forall f d env c, rt_ok c -> (rsize c < f)%nat ->
  canon f d env c = cren (lift d (env_get env)) (canon0 c).
Proof.
  intros f d env c OK Hf. unfold canon0. rewrite (canon_fuel f (S (rsize c)) d env c Hf (Nat.lt_succ_diag_r _)).
  apply canon_cren; [exact OK|apply shifts_lift|].
  intros x Hx. cbn [env_get]. unfold lift. rewrite (usern_notB x Hx). reflexivity.
Qed.

(* ====================================================================== *)
(* 2. environments                                                          *)
(* ====================================================================== *)

(* the environment of d enclosing binders: the binder of level j is named B j *)
Inductive env_wf : nat -> list (slot * N) -> Prop :=
| ew_nil : env_wf 0 []
| ew_cons : forall d env x, env_wf d env -> env_wf (S d) ((x, B d) :: env).

Lemma env_get_range : forall d env, env_wf d env ->
  forall y, env_get env y = y \/ exists j, (j < d)%nat /\ env_get env y = B j.
Proof.
  intros d env H. induction H as [|d env x H IH]; intros y; cbn [env_get]; [left; reflexivity|].
  destruct (y =? x); [right; exists d; split; [lia|reflexivity]|].
  destruct (IH y) as [A|(j & Hj & A)]; [left; exact A|right; exists j; split; [lia|exact A]].
Qed.

Lemma env_get_inj : forall d env, env_wf d env ->
  forall x y, is_B x = false -> is_B y = false -> env_get env x = env_get env y -> x = y.
Proof.
  intros d env H. induction H as [|d env x0 H IH]; intros x y Hx Hy Eq; cbn [env_get] in Eq; [exact Eq|].
  destruct (x =? x0) eqn:Ex; destruct (y =? x0) eqn:Ey.
  - apply N.eqb_eq in Ex, Ey. congruence.
  - exfalso. destruct (env_get_range d env H y) as [A|(j & Hj & A)]; rewrite A in Eq.
    + subst y. rewrite is_B_B in Hy. discriminate.
    + unfold B in Eq. lia.
  - exfalso. destruct (env_get_range d env H x) as [A|(j & Hj & A)]; rewrite A in Eq.
    + subst x. rewrite is_B_B in Hx. discriminate.
    + unfold B in Eq. lia.
  - apply IH; assumption.
Qed.

Lemma lift_env_fr : forall d env v, env_wf d env -> is_B v = false -> fr d (lift d (env_get env) v).
Proof.
  intros d env v H Hv. unfold lift. rewrite Hv. apply range_fr.
  destruct (env_get_range d env H v) as [A|A]; [left; rewrite A; exact Hv|right; exact A].
Qed.

(* ====================================================================== *)
(* 3. the bridge between canon and NodeT                                   *)
(* ====================================================================== *)

(* no value of the map of a is the reserved name of a binder level *)
Definition vnb (a : appid) : Prop := forall v, In v (values_vec (am a)) -> is_B v = false.

Lemma vnb_get : forall a x v, vnb a -> get (am a) x = Some v -> is_B v = false.
Proof.
  intros a x v H G. apply H. apply get_in in G. unfold values_vec. apply in_map_iff. exists (x, v). split; [reflexivity|exact G].
Qed.

Lemma set_apps_f_snd_in : forall a l y, In y (snd (set_apps_f a l)) -> In y l.
Proof.
  induction a as [x|x|x b IH|p]; intros l y H; cbn [set_apps_f] in H; try exact H.
  - destruct l; cbn [snd] in H; [destruct H|right; exact H].
  - specialize (IH l y). destruct (set_apps_f b l). apply IH. exact H.
Qed.

Lemma set_apps_f_pub : forall a l x, In x (pub_occ_f (fst (set_apps_f a l))) ->
  In x (all_occ_f a) \/ exists y, In y l /\ In x (values_vec (am y)).
Proof.
  induction a as [z|z|z b IH|p]; intros l x H; cbn [set_apps_f] in H.
  - left. exact H.
  - destruct l as [|y t]; cbn [fst pub_occ_f] in H; [left; exact H|]. right. exists y. split; [left; reflexivity|exact H].
  - specialize (IH l x). destruct (set_apps_f b l) as [b' l']. cbn [fst pub_occ_f] in *.
    apply filter_In in H. destruct H as [H _]. destruct (IH H) as [A|A]; [left; right; exact A|right; exact A].
  - destruct H.
Qed.

Lemma set_apps_args_pub : forall args l x, In x (flat_map pub_occ_f (set_apps_args args l)) ->
  In x (flat_map all_occ_f args) \/ exists y, In y l /\ In x (values_vec (am y)).
Proof.
  induction args as [|a args IH]; intros l x H; cbn [set_apps_args flat_map] in *; [destruct H|].
  pose proof (set_apps_f_pub a l x) as A. pose proof (set_apps_f_snd_in a l) as S.
  destruct (set_apps_f a l) as [a' l']. cbn [fst snd flat_map] in *. apply in_app_or in H. destruct H as [H|H].
  - destruct (A H) as [T|T]; [left; apply in_or_app; left; exact T|right; exact T].
  - destruct (IH l' x H) as [T|(y & Hy & T)]; [left; apply in_or_app; right; exact T|].
    right. exists y. split; [apply S; exact Hy|exact T].
Qed.

Lemma Forall2_conj3 : forall {A C} (R : A -> C -> Prop) (P : A -> Prop) (Q : C -> Prop) l l',
  Forall2 R l l' -> Forall P l -> Forall Q l' -> Forall2 (fun a c => R a c /\ P a /\ Q c) l l'.
Proof.
  intros A C R P Q l l' F. induction F as [|a c l l' Hac F IH]; intros HP HQ; [constructor|].
  inversion HP; subst. inversion HQ; subst. constructor; [tauto|apply IH; assumption].
Qed.

Lemma F2_length : forall {A C} (R : A -> C -> Prop) l l', Forall2 R l l' -> List.length l = List.length l'.
Proof. intros A C R l l' F. induction F as [|a c l l' _ _ IH]; [reflexivity|]. cbn [List.length]. rewrite IH. reflexivity. Qed.

Section Bridge.
  Variables (E : equations) (s : egraph).
  Hypothesis W : syn_wf s.

  (* what is known about the handle a of the child c *)
  Definition child_ok (f : nat) (a : appid) (c : rterm) : Prop :=
    handle_ok E s a (canon0 c) /\ (covers s a /\ vnb a) /\ (rt_ok c /\ (rsize c < f)%nat).

  Lemma bridge_child : forall f a c d env rho, child_ok f a c -> env_wf d env ->
    (forall y, rho y = env_get env y) ->
    exists t, NodeArg s d rho (AApp a) (CChild t) /\ Deriv E d (canon f d env c) t.
  Proof.
    intros f a c d env rho (HO & (Cv & _) & OK & Hf) EW Hr.
    destruct (completion_exists E s a _ HO Cv) as (tau0 & Ct & Xt).
    destruct HO as [NB HD]. pose proof (HD tau0 Ct) as D0. destruct Ct as [[I0 N0] _].
    set (r := lift d (env_get env)).
    exists (syn_at s d (fun y => r (tau0 y)) (aid a)). split.
    - apply NA_app.
      + split.
        * intros x y Hx Hy H. apply I0; try assumption. unfold r, lift in H. rewrite (N0 _ Hx), (N0 _ Hy) in H.
          apply (env_get_inj d env EW); auto.
        * intros x Hx. unfold r. apply lift_env_fr; auto.
      + intros y v G. rewrite (Xt _ _ G). unfold r, lift. rewrite (NB _ _ G). symmetry. apply Hr.
    - rewrite (canon_canon0 f d env c OK Hf). fold r.
      replace (syn_at s d (fun y => r (tau0 y)) (aid a)) with (cren r (clsT s tau0 (aid a))).
      2:{ unfold clsT, syn_at. apply (syn_t_cren s W); [apply shifts_lift|]. intros; reflexivity. }
      apply Deriv_inst; [exact D0| | |].
      + intros x _ Hx. destruct (env_get_range d env EW x) as [A|A]; [left; rewrite A; exact Hx|right; exact A].
      + intros x y _ _ Hx Hy. apply (env_get_inj d env EW); assumption.
      + intros x y _ _ Hx Hy. apply (env_get_inj d env EW); assumption.
  Qed.

  Lemma bridge_arg : forall f a d env rho l ch, Forall2 (child_ok f) l ch ->
    (List.length (app_occ_f a) <= List.length l)%nat -> env_wf d env -> (forall y, rho y = env_get env y) ->
    exists t, NodeArg s d rho (fst (set_apps_f a l)) t /\
              DerivArg E d (fst (canon_arg (canon f) d env a ch)) t /\
              Forall2 (child_ok f) (snd (set_apps_f a l)) (snd (canon_arg (canon f) d env a ch)) /\
              List.length (snd (set_apps_f a l)) = (List.length l - List.length (app_occ_f a))%nat.
  Proof.
    intros f. induction a as [x|x|x b IH|p]; intros d env rho l ch F Hl EW Hr;
      cbn [set_apps_f canon_arg app_occ_f List.length] in *.
    - exists (CSlot (rho x)). cbn [fst snd]. split; [constructor|]. split; [rewrite Hr; constructor|]. split; [exact F|lia].
    - destruct F as [|y c l' ch' Hyc F]; [cbn [List.length] in Hl; lia|]. cbn [fst snd].
      destruct (bridge_child f y c d env rho Hyc EW Hr) as (t & NA & D). exists (CChild t).
      split; [exact NA|]. split; [constructor; exact D|]. split; [exact F|cbn [List.length]; lia].
    - destruct (IH (S d) ((x, B d) :: env) (upd rho x (B d)) l ch F Hl (ew_cons _ _ _ EW)) as (t & NA & D & F' & L').
      { intros y. unfold upd. cbn [env_get]. destruct (y =? x); [reflexivity|apply Hr]. }
      destruct (set_apps_f b l) as [b' l']. destruct (canon_arg (canon f) (S d) ((x, B d) :: env) b ch) as [cb ch'].
      cbn [fst snd] in *. exists (CBind t). split; [constructor; exact NA|]. split; [constructor; exact D|]. split; assumption.
    - exists (CPay p). cbn [fst snd]. split; [constructor|]. split; [constructor|]. split; [exact F|lia].
  Qed.

  Lemma bridge_args : forall f rho, (forall y, rho y = y) -> forall args l ch, Forall2 (child_ok f) l ch ->
    (List.length (flat_map app_occ_f args) <= List.length l)%nat ->
    exists ts, Forall2 (NodeArg s 0 rho) (set_apps_args args l) ts /\
               DerivArgs E 0 (canon_args (canon f) 0 [] args ch) ts.
  Proof.
    intros f rho Hr. induction args as [|a args IH]; intros l ch F Hl; cbn [set_apps_args canon_args].
    - exists []. split; constructor.
    - cbn [flat_map] in Hl. rewrite app_length in Hl.
      destruct (bridge_arg f a 0 [] rho l ch F) as (t & NA & D & F' & L'); [lia|constructor|exact Hr|].
      destruct (set_apps_f a l) as [a' l']. destruct (canon_arg (canon f) 0 [] a ch) as [ca ch']. cbn [fst snd] in *.
      destruct (IH l' ch' F') as (ts & Fs & Ds); [lia|]. exists (t :: ts). split; constructor; assumption.
  Qed.

  (* (1) the node with the children handles in place denotes the class of a  ==>  a is a handle of
     the term *)
  Theorem bridge : forall a n ch l, inv3 s -> Sound E s -> covers s a -> vnb a ->
    rt_ok (RT n ch) -> List.length l = List.length (app_occ n) ->
    Forall2 (fun a c => handle_ok E s a (canon0 c)) l ch -> Forall (covers s) l -> Forall vnb l ->
    nsound E s a (set_apps n l) -> handle_ok E s a (canon0 (RT n ch)).
  Proof.
    intros a n ch l I3 S Cv NB OK Hl F2 Cl Vl NS. split; [intros x v G; eapply vnb_get; eauto|]. intros sg [Rs Cs].
    apply rt_ok_iff in OK. destruct OK as [U C].
    set (f := rsize (RT n ch)).
    assert (F : Forall2 (child_ok f) l ch).
    { unfold child_ok. apply Forall2_conj3; [exact F2| |].
      - apply Forall_forall. intros y Hy. split; [exact (proj1 (Forall_forall _ _) Cl y Hy)|exact (proj1 (Forall_forall _ _) Vl y Hy)].
      - apply Forall_forall. intros c Hc. split; [exact (proj1 (Forall_forall _ _) C c Hc)|apply rsize_child; exact Hc]. }
    destruct (bridge_args f (fun y => y) (fun y => eq_refl) (nargs n) l ch F) as (ts & Fs & Ds).
    { unfold app_occ in Hl. lia. }
    set (tN := CT (nvar n) ts).
    assert (NT : NodeT s (fun y => y) (set_apps n l) tN).
    { exists ts. split; [exact Fs|reflexivity]. }
    assert (D1 : Deriv E 0 (canon0 (RT n ch)) tN).
    { unfold canon0. fold f. rewrite canon_S. apply D_cong. exact Ds. }
    assert (NBn : forall y, In y (slots (set_apps n l)) -> is_B y = false).
    { intros y Hy. apply slots_spec in Hy. unfold pub_occ, set_apps in Hy. cbn [nargs] in Hy.
      apply set_apps_args_pub in Hy. destruct Hy as [Hy|(z & Hz & Hy)].
      - apply usern_notB. apply U. exact Hy.
      - exact (proj1 (Forall_forall _ _) Vl z Hz y Hy). }
    (* a completion that avoids the slots of the node *)
    destruct Cv as (c & Hc & Ia & Ka).
    set (L := values_vec (am a) ++ slots (set_apps n l)).
    assert (RL : rokL L (fun v => v)).
    { split; [intros x y _ _ H; exact H|]. intros x Hx. apply in_app_or in Hx. destruct Hx as [Hx|Hx]; [apply NB; exact Hx|apply NBn; exact Hx]. }
    assert (VL : forall k v, get (am a) k = Some v -> In v L).
    { intros k v G. apply in_or_app. left. apply get_in in G. unfold values_vec. apply in_map_iff. exists (k, v). split; [reflexivity|exact G]. }
    set (sg' := ext_ren (fun v => v) (am a) (bound_of (fun v => v) L)).
    assert (R' : rokL (SS s (aid a)) sg') by (apply (ext_ren_rok L); assumption).
    assert (D2 : Deriv E 0 (clsT s sg' (aid a)) tN).
    { apply (NS sg' (fun y => y) tN R').
      - split; [intros x y _ _ H; exact H|exact NBn].
      - intros x v G. unfold sg', ext_ren. rewrite G. reflexivity.
      - intros x y Hx Hy H. unfold sg', ext_ren in H. destruct (get (am a) x) as [v|] eqn:G; [subst v; reflexivity|].
        exfalso. pose proof (bound_of_spec (fun v => v) L y) as T. cbv beta in T.
        assert (In y L) by (apply in_or_app; right; exact Hy). apply T in H0. lia.
      - exact NT. }
    apply D_trans with tN; [exact D1|]. apply D_trans with (clsT s sg' (aid a)); [apply D_sym; exact D2|].
    assert (CK : cls_ok s) by (apply ei_cls; apply I3).
    apply (Sound_redundant E s (aid a) c S CK Hc sg' sg R' Rs).
    cbn [aid am cidapp]. intros x y v Hx Hy. apply identity_get in Hx, Hy. destruct Hx as [-> Hv]. destruct Hy as [-> _].
    specialize (Ka v Hv). destruct (get (am a) v) as [w|] eqn:G; [|congruence].
    unfold sg', ext_ren. rewrite G. symmetry. apply Cs. exact G.
  Qed.
End Bridge.

Lemma set_apps_f_all : forall a l x, In x (all_occ_f (fst (set_apps_f a l))) ->
  In x (all_occ_f a) \/ exists y, In y l /\ In x (values_vec (am y)).
Proof.
  induction a as [z|z|z b IH|p]; intros l x H; cbn [set_apps_f] in H.
  - left. exact H.
  - destruct l as [|y t]; cbn [fst all_occ_f] in H; [left; exact H|]. right. exists y. split; [left; reflexivity|exact H].
  - specialize (IH l x). destruct (set_apps_f b l) as [b' l']. cbn [fst all_occ_f] in *.
    destruct H as [H|H]; [left; left; exact H|]. destruct (IH H) as [A|A]; [left; right; exact A|right; exact A].
  - destruct H.
Qed.

Lemma set_apps_args_all : forall args l x, In x (flat_map all_occ_f (set_apps_args args l)) ->
  In x (flat_map all_occ_f args) \/ exists y, In y l /\ In x (values_vec (am y)).
Proof.
  induction args as [|a args IH]; intros l x H; cbn [set_apps_args flat_map] in *; [destruct H|].
  pose proof (set_apps_f_all a l x) as A. pose proof (set_apps_f_snd_in a l) as S.
  destruct (set_apps_f a l) as [a' l']. cbn [fst snd flat_map] in *. apply in_app_or in H. destruct H as [H|H].
  - destruct (A H) as [T|T]; [left; apply in_or_app; left; exact T|right; exact T].
  - destruct (IH l' x H) as [T|(y & Hy & T)]; [left; apply in_or_app; right; exact T|].
    right. exists y. split; [apply S; exact Hy|exact T].
Qed.

Lemma set_apps_all_notB : forall n l, (forall x, In x (all_occ n) -> usern x) -> Forall vnb l ->
  forall y, In y (all_occ (set_apps n l)) -> is_B y = false.
Proof.
  intros n l U Vl y Hy. unfold all_occ, set_apps in Hy. cbn [nargs] in Hy.
  apply set_apps_args_all in Hy. destruct Hy as [Hy|(z & Hz & Hy)].
  - apply usern_notB. apply U. exact Hy.
  - exact (proj1 (Forall_forall _ _) Vl z Hz y Hy).
Qed.

(* ====================================================================== *)
(* 4. eg_add and add_expr                                                   *)
(* ====================================================================== *)

(* every node of the term has exactly one child per applied-id position *)
Fixpoint rt_wf (t : rterm) : Prop :=
  match t with
  | RT n ch => List.length ch = List.length (app_occ n) /\
               (fix go (l : list rterm) : Prop := match l with [] => True | c :: r => rt_wf c /\ go r end) ch
  end.

Lemma rt_wf_iff : forall n ch, rt_wf (RT n ch) <-> List.length ch = List.length (app_occ n) /\ Forall rt_wf ch.
Proof.
  intros n ch. cbn [rt_wf]. split; intros [A C]; (split; [exact A|]); clear A.
  - induction ch as [|c r IH]; constructor; [apply C|apply IH; apply C].
  - induction C as [|c r Hc C IH]; [exact I|split; assumption].
Qed.

Definition add_children : list rterm -> M (list appid) :=
  fix go (l : list rterm) : M (list appid) :=
    match l with
    | [] => ret []
    | c :: r => dom a <- add_expr c; dom r' <- go r; ret (a :: r')
    end.

Lemma add_expr_unfold : forall n ch,
  add_expr (RT n ch) = (dom l <- add_children ch;
                        if Nat.ltb (List.length (app_occ n)) (List.length l) then fail OutOfBounds
                        else eg_add (set_apps n l)).
Proof. reflexivity. Qed.

(* the children of a pre-shape are covered *)
Lemma zip_cart : forall (Q : appid -> appid -> Prop) apps (groups : list (list perm)),
  Forall2 (fun a g => forall pp, In pp g -> Q a {| aid := aid a; am := pp ** am a |}) apps groups ->
  forall l, In l (cartesian groups) ->
  Forall2 Q apps (zip_with (fun a pp => {| aid := aid a; am := pp ** am a |}) apps l).
Proof.
  intros Q apps groups H. induction H as [|a g t gs Hag _ IH]; intros l Hl; cbn [cartesian] in Hl.
  - destruct Hl as [<-|[]]. constructor.
  - apply in_flat_map in Hl. destruct Hl as (rest & Hr & Hl). apply in_map_iff in Hl. destruct Hl as (x & <- & Hx).
    cbn [zip_with]. constructor; [apply Hag; assumption|apply IH; assumption].
Qed.

Lemma Forall2_Forall_r : forall {A C} (Q : C -> Prop) (l : list A) (l' : list C),
  Forall2 (fun _ c => Q c) l l' -> Forall Q l'.
Proof. intros A C Q l l' F. induction F; constructor; assumption. Qed.

Lemma variants_covers : forall s n vs, Forall (canon_ok s) (app_occ n) -> variants s n = Ok vs ->
  forall v, In v vs -> Forall (covers s) (app_occ v).
Proof.
  intros s n vs Hf H v Hv. unfold variants in H.
  destruct (mapr (fun a => get_class s (aid a)) (app_occ n)) as [cls|] eqn:Ec; cbn [bind] in H; [|discriminate].
  destruct (forallb _ cls).
  - inversion H; subst vs. destruct Hv as [<-|[]]. revert Hf. apply Forall_impl. intros a. apply canon_covers.
  - destruct (mapr _ cls) as [groups|] eqn:Eg; cbn [bind] in H; [|discriminate]. inversion H; subst vs; clear H.
    apply in_map_iff in Hv. destruct Hv as (l & <- & Hl).
    pose proof (mapr_mapr_F2 (canon_ok s) _ _ _ _ _ (proj1 (Forall_forall _ _) Hf) Ec Eg) as F2.
    assert (Z : Forall2 (fun _ x => covers s x) (app_occ n)
                  (zip_with (fun a pp => {| aid := aid a; am := pp ** am a |}) (app_occ n) l)).
    { apply (zip_cart (fun _ x => covers s x) (app_occ n) groups); [|exact Hl].
      revert F2. apply Forall2_imp. intros a g ((c' & Hc' & (gens & HG & Hgn) & Wa & Ba & Ka) & c & Hc & Hg) pp Hpp.
      rewrite Hc in Hc'. inversion Hc'; subst c'; clear Hc'.
      assert (P : perm_on (c_slots c) pp).
      { unfold group_new in Hgn.
        apply (generated_po (c_slots c) (identity (c_slots c)) (identity_is_id _) (pdedup gens) (pdedup_po _ _ HG)).
        eapply (gnew_gall_sound (c_slots c) (identity (c_slots c)) (identity_is_id _)); [apply pdedup_po; exact HG|exact Hgn|exact Hg|exact Hpp]. }
      exists c. cbn [aid am]. split; [exact Hc|]. pose proof P as (Wp & _ & _ & Ip & _). split.
      - apply compose_injective; [exact Wp|exact Ip|]. apply is_bijection_injective; assumption.
      - intros k Hk. destruct (po_get _ pp k P Hk) as (w & Gw & Hw). rewrite get_compose_partial by exact Wp. rewrite Gw.
        apply keys_spec. rewrite Ka. exact Hw. }
    rewrite app_occ_set_apps; [exact (Forall2_Forall_r _ _ _ Z)|]. exact (Forall2_length' _ _ _ Z).
Qed.

Theorem pre_shape_covers : forall s n p, inv3 s -> Forall (covers s) (app_occ n) ->
  pre_shape s n = Ok p -> Forall (covers s) (app_occ p).
Proof.
  intros s n p [[I _] _] Cv P. pose proof I as [Hok Hs _]. unfold pre_shape in P.
  destruct (find_enode s n) as [n1|] eqn:F; cbn [bind] in P; [|discriminate].
  destruct (variants s n1) as [vs|] eqn:Ev; cbn [bind] in P; [|discriminate].
  apply min_variant_in in P. destruct P as [P|[k P]]; [|discriminate].
  apply (variants_covers s n1 vs); [|exact Ev|exact P].
  unfold find_enode in F. destruct (mapr (find_applied_id s) (app_occ n)) as [l|] eqn:El; cbn [bind] in F; [|discriminate].
  inversion F; subst n1; clear F.
  rewrite app_occ_set_apps by (eapply mapr_length; eauto).
  apply Forall_forall. intros a' Ha'. destruct (mapr_in _ _ _ El a' Ha') as (a & Ha & Fa).
  destruct (covers_find_ok s a Hok Hs (proj1 (Forall_forall _ _) Cv a Ha)) as (a2 & Fa2 & CO).
  rewrite Fa in Fa2. inversion Fa2; subst a2. exact CO.
Qed.

(* the children of a pre-shape have well-formed maps (they are compositions) *)
Lemma set_apps_f_app_in : forall a l x, In x (app_occ_f (fst (set_apps_f a l))) -> In x l \/ In x (app_occ_f a).
Proof.
  induction a as [z|z|z b IH|p]; intros l x H; cbn [set_apps_f] in H.
  - destruct H.
  - destruct l as [|y t]; cbn [fst app_occ_f] in H; [right; exact H|]. destruct H as [<-|[]]. left. left. reflexivity.
  - specialize (IH l x). destruct (set_apps_f b l) as [b' l']. cbn [fst app_occ_f] in *. exact (IH H).
  - destruct H.
Qed.

Lemma set_apps_args_app_in : forall args l x, In x (flat_map app_occ_f (set_apps_args args l)) ->
  In x l \/ In x (flat_map app_occ_f args).
Proof.
  induction args as [|a args IH]; intros l x H; cbn [set_apps_args flat_map] in *; [destruct H|].
  pose proof (set_apps_f_app_in a l x) as A. pose proof (set_apps_f_snd_in a l) as S.
  destruct (set_apps_f a l) as [a' l']. cbn [fst snd flat_map] in *. apply in_app_or in H. destruct H as [H|H].
  - destruct (A H) as [T|T]; [left; exact T|right; apply in_or_app; left; exact T].
  - destruct (IH l' x H) as [T|T]; [left; apply S; exact T|right; apply in_or_app; right; exact T].
Qed.

Lemma app_occ_set_apps_in : forall n l x, In x (app_occ (set_apps n l)) -> In x l \/ In x (app_occ n).
Proof. intros n l x H. unfold app_occ, set_apps in *. cbn [nargs] in H. exact (set_apps_args_app_in _ _ _ H). Qed.

Lemma zip_with_in : forall {A C D} (f : A -> C -> D) l l' x, In x (zip_with f l l') -> exists a c, x = f a c.
Proof.
  intros A C D f. induction l as [|a t IH]; intros l' x H; cbn [zip_with] in H; [destruct H|].
  destruct l' as [|c t']; [destruct H|]. destruct H as [<-|H]; [eauto|eapply IH; eauto].
Qed.

Theorem pre_shape_kids_wf : forall s n p, pre_shape s n = Ok p -> Forall (fun x => wf (am x)) (app_occ p).
Proof.
  intros s n p P. unfold pre_shape in P.
  destruct (find_enode s n) as [n1|] eqn:F; cbn [bind] in P; [|discriminate].
  destruct (variants s n1) as [vs|] eqn:Ev; cbn [bind] in P; [|discriminate].
  apply min_variant_in in P. destruct P as [P|[k P]]; [|discriminate].
  assert (W1 : Forall (fun x => wf (am x)) (app_occ n1)).
  { unfold find_enode in F. destruct (mapr (find_applied_id s) (app_occ n)) as [l|] eqn:El; cbn [bind] in F; [|discriminate].
    inversion F; subst n1; clear F. rewrite app_occ_set_apps by (eapply mapr_length; eauto).
    apply Forall_forall. intros a' Ha'. destruct (mapr_in _ _ _ El a' Ha') as (a & Ha & Fa).
    unfold find_applied_id in Fa. destruct (unionfind_get s (aid a)) as [q|]; cbn [bind] in Fa; [|discriminate].
    inversion Fa; subst a'. cbn [am]. apply compose_partial_wf. }
  unfold variants in Ev.
  destruct (mapr (fun a => get_class s (aid a)) (app_occ n1)) as [cls|] eqn:Ec; cbn [bind] in Ev; [|discriminate].
  destruct (forallb _ cls).
  - inversion Ev; subst vs. destruct P as [<-|[]]. exact W1.
  - destruct (mapr _ cls) as [groups|] eqn:Eg; cbn [bind] in Ev; [|discriminate]. inversion Ev; subst vs; clear Ev.
    apply in_map_iff in P. destruct P as (l & <- & Hl). apply Forall_forall. intros x Hx.
    apply app_occ_set_apps_in in Hx. destruct Hx as [Hx|Hx]; [|exact (proj1 (Forall_forall _ _) W1 x Hx)].
    apply zip_with_in in Hx. destruct Hx as (a & pp & ->). cbn [am]. apply compose_partial_wf.
Qed.

(* the handle-value invariant: a value of the map of a handle that is a fresh slot (1 mod 4) was
   drawn from the counter *)
Definition hvb (c : N) (a : appid) : Prop := forall v, In v (values_vec (am a)) -> v mod 4 <> 1 \/ v < c.

Lemma hvb_mono : forall c c' a, c <= c' -> hvb c a -> hvb c' a.
Proof. intros c c' a L H v Hv. destruct (H v Hv) as [T|T]; [left; exact T|right; lia]. Qed.

Lemma set_apps_all_bound : forall n l c, (forall x, In x (all_occ n) -> usern x) -> Forall (hvb c) l ->
  forall y, In y (all_occ (set_apps n l)) -> y mod 4 <> 1 \/ y < c.
Proof.
  intros n l c U Vl y Hy. unfold all_occ, set_apps in Hy. cbn [nargs] in Hy.
  apply set_apps_args_all in Hy. destruct Hy as [Hy|(z & Hz & Hy)].
  - left. destruct (U y Hy) as [T|T]; rewrite T; discriminate.
  - exact (proj1 (Forall_forall _ _) Vl z Hz y Hy).
Qed.

Section AddExpr.
  (* an additional structural run invariant needed by the facts below (SoundRebuild.v: stored_ok of
     SoundNode.v, kids_exist, mod4_ok) *)
  Variable RI : egraph -> Prop.
  (* (proved in SoundRebuild.v) the insertion of a weak shape keeps the invariant; the shape's
     pre-image denotes the returned invocation.  The pre-image has covered children with well-formed
     maps, and its public slots of the fresh kind (1 mod 4) are below the counter *)
  Hypothesis HB_add_internal : forall E t p s a s', inv3 s -> syn_wf s -> Sound E s -> RI s -> ectr s mod 4 = 1 -> wshape p = Ok t ->
    Forall (covers s) (app_occ p) -> Forall (fun x => wf (am x)) (app_occ p) ->
    (forall x, In x (pub_occ p) -> x mod 4 <> 1 \/ x < ectr s) ->
    add_internal t s = Ok (a, s') ->
    Sound E s' /\ syn_wf s' /\ nsound E s' a p /\ RI s'.
  (* the values of the returned map are public slots of the node or fresh slots, drawn from the
     counter (the fresh counter is 1 mod 4 in every reachable state: ModelFacts.add_expr_ctr_grows) *)
  Hypothesis HB_add_internal_vals : forall t p s a s', inv3 s -> ectr s mod 4 = 1 -> wshape p = Ok t ->
    add_internal t s = Ok (a, s') -> forall v, In v (values_vec (am a)) -> In v (pub_occ p) \/ (v mod 4 = 1 /\ v < ectr s').

  Lemma eg_add_vals : forall n s a s', inv3 s -> ectr s mod 4 = 1 -> eg_add n s = Ok (a, s') ->
    forall v, In v (values_vec (am a)) -> In v (all_occ n) \/ (v mod 4 = 1 /\ v < ectr s').
  Proof.
    intros n s a s' I Cm H v Hv. unfold eg_add in H. apply bind_reads_inv in H. destruct H as (t & Ht & H).
    unfold shape in Ht. destruct (pre_shape s n) as [p|] eqn:P; cbn [bind] in Ht; [|discriminate].
    destruct (HB_add_internal_vals t p s a s' I Cm Ht H v Hv) as [T|T]; [left|right; exact T].
    apply (pre_shape_all_occ s n p P). apply pub_occ_all_occ. exact T.
  Qed.

  (* (2) *)
  Theorem Sound_eg_add : forall E n s a s', inv3 s -> syn_wf s -> Sound E s -> RI s -> ectr s mod 4 = 1 -> Forall (covers s) (app_occ n) ->
    (forall x, In x (all_occ n) -> x mod 4 <> 1 \/ x < ectr s) ->
    eg_add n s = Ok (a, s') -> Sound E s' /\ syn_wf s' /\ nsound E s' a n /\ RI s'.
  Proof.
    intros E n s a s' I W S HR Cm0 Cv Bn H0. pose proof H0 as H.
    unfold eg_add in H. apply bind_reads_inv in H. destruct H as (t & Ht & H).
    unfold shape in Ht. destruct (pre_shape s n) as [p|] eqn:P; cbn [bind] in Ht; [|discriminate].
    assert (Bp : forall x, In x (pub_occ p) -> x mod 4 <> 1 \/ x < ectr s).
    { intros x Hx. apply Bn. apply (pre_shape_all_occ s n p P). apply pub_occ_all_occ. exact Hx. }
    destruct (HB_add_internal E t p s a s' I W S HR Cm0 Ht (pre_shape_covers s n p I Cv P) (pre_shape_kids_wf s n p P) Bp H) as (S' & W' & NS & HR').
    destruct (eg_add_covers n s a s' I H0) as (I' & X & _).
    split; [exact S'|]. split; [exact W'|]. split; [|exact HR']. exact (pre_shape_back E s s' a n p (proj1 (proj1 I)) S X W' Cv P NS).
  Qed.

  Definition kids_res (E : equations) (s1 : egraph) (l : list appid) (ch : list rterm) : Prop :=
    RI s1 /\ syn_wf s1 /\ Sound E s1 /\ Forall (covers s1) l /\ Forall vnb l /\ Forall (hvb (ectr s1)) l /\
    Forall2 (fun a c => handle_ok E s1 a (canon0 c)) l ch.

  Lemma Sound_add_expr_k : forall E k t s a s', (rsize t < k)%nat -> inv3 s -> syn_wf s -> Sound E s -> RI s ->
    ectr s mod 4 = 1 -> rt_ok t -> rt_wf t -> add_expr t s = Ok (a, s') ->
    Sound E s' /\ handle_ok E s' a (canon0 t) /\ syn_wf s' /\ vnb a /\ hvb (ectr s') a /\ RI s'.
  Proof.
    intros E. induction k as [|k IHk]; intros t s a s' Hk I W S HR Cm OK WF H; [lia|].
    destruct t as [n ch]. rewrite add_expr_unfold in H.
    apply rt_ok_iff in OK. destruct OK as [U C]. apply rt_wf_iff in WF. destruct WF as [Ln Cw].
    apply mbind_inv in H. destruct H as (l & s1 & Hgo & H).
    assert (G : forall ch0, (forall c, In c ch0 -> (rsize c < k)%nat) -> Forall rt_ok ch0 -> Forall rt_wf ch0 ->
                forall s0 l0 s2, inv3 s0 -> syn_wf s0 -> Sound E s0 -> RI s0 -> ectr s0 mod 4 = 1 ->
                add_children ch0 s0 = Ok (l0, s2) ->
                inv3 s2 /\ ext0 s0 s2 /\ ectr s2 mod 4 = 1 /\ kids_res E s2 l0 ch0).
    { clear -IHk. induction ch0 as [|c r IHr]; intros Hs Co Cw s0 l0 s2 I0 W0 S0 R0 M0 H; cbn [add_children] in H.
      - inversion H; subst. split; [exact I0|]. split; [apply ext0_refl|]. split; [exact M0|]. unfold kids_res. repeat (split; [solve [auto]|]). auto.
      - inversion Co as [|? ? Oc Or]; subst. inversion Cw as [|? ? Wc Wr]; subst.
        apply mbind_inv in H. destruct H as (a0 & s1 & H1 & H).
        destruct (IHk c s0 a0 s1 (Hs c (or_introl eq_refl)) I0 W0 S0 R0 M0 Oc Wc H1) as (S1 & O1 & W1 & V1 & B1 & R1).
        pose proof (proj2 (add_expr_ctr_grows c s0 a0 s1 H1) M0) as M1.
        destruct (add_expr_covers c s0 a0 s1 I0 H1) as (I1 & X1 & C1).
        apply mbind_inv in H. destruct H as (r' & s3 & H3 & H). inversion H; subst l0 s3; clear H.
        destruct (IHr (fun c' Hc' => Hs c' (or_intror Hc')) Or Wr s1 r' s2 I1 W1 S1 R1 M1 H3) as (I2 & X2 & M2 & (R2 & W2 & S2 & C2 & V2 & B2 & F2)).
        split; [exact I2|]. split; [eapply ext0_trans; eauto|]. split; [exact M2|]. unfold kids_res.
        split; [exact R2|]. split; [exact W2|]. split; [exact S2|]. split; [constructor; [eapply covers_ext0; eauto|exact C2]|].
        split; [constructor; assumption|]. split; [constructor; [exact (hvb_mono _ _ _ (proj1 X2) B1)|exact B2]|].
        constructor; [|exact F2]. eapply handle_ok_ext0; eauto. }
    assert (Hsz : forall c, In c ch -> (rsize c < k)%nat).
    { intros c Hc. pose proof (rsize_child n ch c Hc). lia. }
    destruct (G ch Hsz C Cw s l s1 I W S HR Cm Hgo) as (I1 & X1 & M1 & (R1 & W1 & S1 & C1 & V1 & B1 & F1)).
    pose proof (F2_length _ _ _ F1) as Ll.
    destruct (Nat.ltb _ _); [discriminate|].
    assert (Lo : List.length l = List.length (app_occ n)) by lia.
    assert (Ao : app_occ (set_apps n l) = l) by (apply app_occ_set_apps; exact Lo).
    assert (Cv' : Forall (covers s1) (app_occ (set_apps n l))) by (rewrite Ao; exact C1).
    pose proof (set_apps_all_bound n l (ectr s1) U B1) as Bn.
    destruct (Sound_eg_add E _ s1 a s' I1 W1 S1 R1 M1 Cv' Bn H) as (S' & W' & NS & R').
    destruct (eg_add_covers _ s1 a s' I1 H) as (I' & X' & Ca).
    assert (Va : vnb a).
    { intros v Hv. destruct (eg_add_vals _ s1 a s' I1 M1 H v Hv) as [T|T].
      - eapply set_apps_all_notB; eauto.
      - unfold is_B. lia. }
    assert (Ba : hvb (ectr s') a).
    { intros v Hv. destruct (eg_add_vals _ s1 a s' I1 M1 H v Hv) as [T|T].
      - destruct (Bn v T) as [T'|T']; [left; exact T'|right]. pose proof (proj1 X') as L. lia.
      - right. exact (proj2 T). }
    split; [exact S'|]. split; [|split; [assumption|split; [assumption|split; assumption]]].
    apply (bridge E s' W' a n ch l I' S' Ca Va); try assumption.
    - apply rt_ok_iff. split; assumption.
    - clear -F1 C1 X'. induction F1 as [|x y l l' Hxy F IHF]; [constructor|]. inversion C1; subst.
      constructor; [eapply handle_ok_ext0; eauto|apply IHF; assumption].
    - revert C1. apply Forall_impl. intros x. apply covers_ext0. exact X'.
  Qed.

  (* (3); the premise rt_wf is needed: see the summary *)
  Theorem Sound_add_expr : forall E t s a s', inv3 s -> syn_wf s -> Sound E s -> RI s -> ectr s mod 4 = 1 ->
    rt_ok t -> rt_wf t -> add_expr t s = Ok (a, s') -> Sound E s' /\ handle_ok E s' a (canon0 t) /\ syn_wf s' /\ RI s'.
  Proof.
    intros E t s a s' I W Sd HR Cm OK WF H.
    destruct (Sound_add_expr_k E (S (rsize t)) t s a s' (Nat.lt_succ_diag_r _) I W Sd HR Cm OK WF H) as (A & C & D & _ & _ & R').
    auto.
  Qed.
End AddExpr.

(* ====================================================================== *)
(* 5. summary                                                              *)
(* ======================================================================
   PROVED (closed under the global context):
   - canon_S / canon_fuel / canon_cren / canon_canon0: canon restated with top-level fixpoints, fuel
     independence, canon under a renaming of the environment, and
       canon f d env c = cren (lift d (env_get env)) (canon0 c)      (rt_ok c, rsize c < f).
   - bridge (1): nsound E s a (set_apps n l) + handles of the children  ==>
       handle_ok E s a (canon0 (RT n ch)).
   - pre_shape_covers: the children of a pre-shape of a node with covered children are covered.
   CONDITIONAL (Section AddExpr) on HB_add_internal and HB_add_internal_vals:
   - Sound_eg_add (2), Sound_add_expr (3).
   THIRD ROUND: pre_shape_kids_wf (the child maps of a pre-shape are well formed); the handle-value
   invariant `hvb c a` (a value of the map of a that is 1 mod 4 is below c) is threaded through
   Sound_add_expr_k (kids_res, and the returned handle at the new counter), so that HB_add_internal is
   called with the two extra premises needed by SoundAddNew.nsound_add_internal_new;
   HB_add_internal_vals is used in the strengthened form (fresh values are below the new counter).
   EXTRA PREMISES of Sound_add_expr with respect to the statement assumed in SoundRebuild.v:
   - rt_wf t: every node of the term has exactly one child per applied-id position.  Without it the
     statement is false: with fewer children `set_apps` keeps the placeholder invocation of the
     node (an arbitrary class), whereas `canon` produces the dummy child CT 0 [].
   - Model.ctr s mod 4 = 1 (a run invariant: ModelFacts.add_expr_ctr_grows), needed by
     HB_add_internal_vals: fresh slots are not reserved binder names. *)

Print Assumptions canon_canon0.
Print Assumptions bridge.
Print Assumptions pre_shape_covers.
Print Assumptions Sound_eg_add.
Print Assumptions Sound_add_expr.
