(* EGraph/SoundAddNew.v — C01, the lookup-miss branch of `add_internal`: a new class is allocated.
   (1) `syn_wf` is preserved by add_internal / eg_add / add_expr;
   (2) the soundness invariant is preserved by the allocation (up to and including the rebuild inside
       mk_singleton_class), conditional on the Section Hypotheses listed at the end of the file. *)
From SE Require Import Slots.SlotMapFacts Group.GroupSound Lang.LangFacts Lang.ShapeFacts Lang.RenameFacts
  EGraph.Model EGraph.ModelFacts EGraph.ModelMachine EGraph.UnionFindFacts EGraph.InvariantFacts
  EGraph.UnionInvariantFacts EGraph.AddCoversFacts EGraph.MonotoneFacts EGraph.SoundFacts EGraph.SoundUnion EGraph.NodePass EGraph.SoundSyn EGraph.SoundNode.
From SE Require Import Sem.Deriv Sem.DerivFacts Sem.AlgebraFacts Sem.EgMachine Explain.CheckerFacts.
Require Import ZArith Lia ZifyBool ZifyN ZifyNat.
Ltac Zify.zify_post_hook ::= Z.div_mod_to_equations.

Local Notation "a ** b" := (compose_partial a b) (at level 40, left associativity).
Local Notation inv := inverse_nocheck.
Local Notation ectr := Model.ctr.

Local Ltac neq := repeat match goal with
  | H : (_ =? _) = true |- _ => apply N.eqb_eq in H
  | H : (_ =? _) = false |- _ => apply N.eqb_neq in H
  end.

(* ====================================================================== *)
(* 0. small facts                                                          *)
(* ====================================================================== *)

Lemma get_insert_nw : forall m l r k, get (insert l r m) k = if k =? l then Some r else get m k.
Proof.
  induction m as [|[k' v'] t IH]; intros l r k; cbn [insert get].
  - destruct (k =? l); reflexivity.
  - destruct (l <? k') eqn:E1.
    + cbn [get]. destruct (k =? l); reflexivity.
    + destruct (l =? k') eqn:E2; neq.
      * subst k'. cbn [get]. destruct (k =? l); reflexivity.
      * cbn [get]. rewrite IH. destruct (k =? k') eqn:E3; neq; [|reflexivity].
        subst k'. destruct (k =? l) eqn:E4; neq; [congruence|reflexivity].
Qed.

(* fill_fresh makes the map total on the list, and keeps what is defined *)
Lemma fill_fresh_total : forall l m s m' s', fill_fresh l m s = Ok (m', s') ->
  (forall k, get m k <> None -> get m' k <> None) /\ (forall x, In x l -> get m' x <> None).
Proof.
  induction l as [|x t IH]; intros m s m' s' H; cbn [fill_fresh] in H.
  - inversion H; subst. split; [auto|]. intros x [].
  - unfold contains_key in H. destruct (get m x) as [v|] eqn:G.
    + destruct (IH _ _ _ _ H) as [A C]. split; [exact A|]. intros y [<-|Hy]; [apply A; congruence|apply C; exact Hy].
    + apply mbind_inv in H. destruct H as (f & s1 & H1 & H). destruct (IH _ _ _ _ H) as [A C].
      split.
      * intros k Hk. apply A. rewrite get_insert_nw. destruct (k =? x); [discriminate|exact Hk].
      * intros y [<-|Hy]; [|apply C; exact Hy]. apply A. rewrite get_insert_nw, N.eqb_refl. discriminate.
Qed.

Lemma synify_app_id_total : forall a s a' s', synify_app_id a s = Ok (a', s') ->
  aid a' = aid a /\ exists c, get_class s (aid a) = Ok c /\ forall y, In y (slots (c_syn c)) -> get (am a') y <> None.
Proof.
  intros a s a' s' H. unfold synify_app_id in H. apply bind_reads_inv in H. destruct H as (ss & Hss & H).
  unfold syn_slots in Hss. destruct (get_class s (aid a)) as [c|] eqn:Hc; [|discriminate]. cbn [bind] in Hss.
  inversion Hss; subst ss; clear Hss.
  apply mbind_inv in H. destruct H as (m' & s1 & H1 & H). inversion H; subst a' s1; clear H.
  change (fill_fresh (slots (c_syn c)) (am a) s = Ok (m', s')) in H1.
  cbn [aid am]. split; [reflexivity|]. exists c. split; [reflexivity|]. apply (fill_fresh_total _ _ _ _ _ H1).
Qed.

(* steps that keep the classes and the union-find table (cuR of SoundRebuild.v) *)
Definition clsR (s s' : egraph) : Prop := classes s' = classes s /\ unionfind s' = unionfind s.
Lemma clsR_refl : forall s, clsR s s.
Proof. intros s. split; reflexivity. Qed.
Lemma clsR_trans : forall a b c, clsR a b -> clsR b c -> clsR a c.
Proof. intros a b c [A1 A2] [C1 C2]. split; congruence. Qed.
Lemma cls_fresh : pres clsR fresh.
Proof. intros s x s' H. inversion H. split; reflexivity. Qed.
Lemma cls_synify_app_id : forall a, pres clsR (synify_app_id a).
Proof. apply (pres_synify_app_id clsR clsR_refl clsR_trans cls_fresh). Qed.
Lemma cls_synify_enode : forall n, pres clsR (synify_enode n).
Proof. apply (pres_synify_enode clsR clsR_refl clsR_trans cls_fresh). Qed.

(* a child that exists and whose map is total on the syntactic slots of its class *)
Definition kid_total (s : egraph) (a : appid) : Prop :=
  exists c, get_class s (aid a) = Ok c /\ forall y, In y (slots (c_syn c)) -> get (am a) y <> None.

Lemma kid_total_classes : forall s s' a, classes s' = classes s -> kid_total s a -> kid_total s' a.
Proof. intros s s' a Hc (c & H & T). exists c. split; [rewrite (get_class_classes _ _ _ Hc); exact H|exact T]. Qed.

Lemma mapM_synify_total : forall l s r s', mapM synify_app_id l s = Ok (r, s') -> Forall (kid_total s) r.
Proof.
  induction l as [|a t IH]; intros s r s' H; cbn [mapM] in H.
  - inversion H; subst. constructor.
  - apply mbind_inv in H. destruct H as (a' & s1 & H1 & H).
    apply mbind_inv in H. destruct H as (r' & s2 & H2 & H). inversion H; subst r s2; clear H.
    pose proof (cls_synify_app_id _ _ _ _ H1) as [C1 _].
    destruct (synify_app_id_total _ _ _ _ H1) as (Ea & c & Hc & T).
    constructor.
    + exists c. rewrite Ea. split; assumption.
    + pose proof (IH _ _ _ H2) as F. revert F. apply Forall_impl. intros b Hb.
      apply (kid_total_classes s1 s); [symmetry; exact C1|exact Hb].
Qed.

Lemma synify_enode_total : forall n s n' s', synify_enode n s = Ok (n', s') -> Forall (kid_total s) (app_occ n').
Proof.
  intros n s n' s' H. unfold synify_enode in H. apply mbind_inv in H. destruct H as (l & s1 & H1 & H).
  inversion H; subst n' s1; clear H. rewrite app_occ_set_apps by (eapply mapM_length; eauto).
  eapply mapM_synify_total; eauto.
Qed.

(* nodes with the same skeleton have the same child ids and key vectors *)
Lemma skel_child : forall n n' x, skel n = skel n' -> In x (app_occ n) ->
  exists x', In x' (app_occ n') /\ aid x' = aid x /\ keys_vec (am x') = keys_vec (am x).
Proof.
  intros n n' x Hs Hx. pose proof (skel_ckeys _ _ Hs) as Ck. unfold ckeys in Ck.
  assert (Hin : In (aid x, keys_vec (am x)) (map (fun a => (aid a, keys_vec (am a))) (app_occ n))).
  { apply in_map_iff. exists x. split; [reflexivity|exact Hx]. }
  rewrite Ck in Hin. apply in_map_iff in Hin. destruct Hin as (x' & Eq & Hx'). inversion Eq.
  exists x'. auto.
Qed.

Lemma kid_total_skel : forall s n n', skel n = skel n' -> Forall (kid_total s) (app_occ n') -> Forall (kid_total s) (app_occ n).
Proof.
  intros s n n' Hs F. apply Forall_forall. intros x Hx. destruct (skel_child _ _ _ Hs Hx) as (x' & Hx' & Ea & Ek).
  destruct (proj1 (Forall_forall _ _) F x' Hx') as (c & Hc & T). exists c. rewrite <- Ea. split; [exact Hc|].
  intros y Hy. apply get_in_keys. rewrite <- Ek. apply get_in_keys. apply T. exact Hy.
Qed.

(* ====================================================================== *)
(* 1. the walk through mk_singleton_class (as in inv3_mk_singleton), exporting the steps *)
(* ====================================================================== *)

Lemma mk_singleton_walk : forall en s a s', inv3 s -> Forall (fun b => b < ectr s) (binders en) ->
  mk_singleton_class en s = Ok (a, s') ->
  exists f2o c2 synf s3 sh bij s4 s5,
    let i := N.of_nat (lc s) in
    let s2 := set_ctr (set_ctr s c2) c2 in
    bijection_from_fresh_to (slots en) (ectr s) = (f2o, c2) /\
    apply_slotmap_fresh false (inv f2o) en c2 = (synf, c2) /\
    alloc_eclass (values (inv f2o)) synf s2 = Ok (i, s3) /\
    wshape synf = Ok (sh, bij) /\
    raw_add_to_class i (sh, bij) i s3 = Ok (tt, s4) /\
    pending_insert sh true s4 = Ok (tt, s5) /\
    rebuild rebuild_fuel s5 = Ok (tt, s') /\
    a = {| aid := i; am := f2o |} /\
    inv3 s2 /\ inv3 s3 /\ ext0 s2 s3 /\ inv3 s4 /\ ext s3 s4 /\ inv3 s5 /\ ext s4 s5 /\ inv3 s' /\ ext s5 s'.
Proof.
  intros en s a s' I3 Hb H. unfold mk_singleton_class in H.
  apply mbind_inv in H. destruct H as (f2o & s1 & H1 & H).
  unfold with_ctr in H1. destruct (bijection_from_fresh_to (slots en) (ectr s)) as [f2o' c2] eqn:BF.
  inversion H1; subst f2o' s1; clear H1.
  apply mbind_inv in H. destruct H as (syn0 & s2 & H2 & H). unfold with_ctr in H2. cbn [Model.ctr set_ctr] in H2.
  pose proof (fresh_rename_spec en (ectr s) f2o c2 Hb BF) as R. cbv zeta in R.
  destruct (bff_props _ _ _ _ (slots_sorted en) BF) as [Wf2o If2o].
  destruct (apply_slotmap_fresh false (inv f2o) en c2) as [synf c3] eqn:ASF. cbn [fst snd] in R.
  inversion H2; subst syn0 s2; clear H2.
  destruct R as (Ec3 & _ & Bi & Sl & _ & Pb & _). subst c3.
  pose proof (bijection_from_fresh_to_step (slots en) (ectr s)) as St. rewrite BF in St. cbn [snd] in St. apply ctr_step_le in St.
  set (s2 := set_ctr (set_ctr s c2) c2) in *.
  assert (S02 : semR s s2).
  { split; [|unfold s2; cbn [Model.ctr set_ctr]; lia]. split; reflexivity. }
  destruct (semn_step3 _ _ S02 (nsame_classes s s2 eq_refl) I3) as [I2 E02].
  apply mbind_inv in H. destruct H as (i & s3 & H3 & H).
  pose proof (alloc_eclass_exact _ _ _ _ _ H3) as (Hi & U & C & _ & _ & Ct).
  assert (S3 : inv3 s3 /\ ext0 s2 s3).
  { destruct I2 as [[[Hok Hsl HC] Hbl] HN].
    assert (Wsl : swf (values (inv f2o))) by apply sset_of_list_spec.
    split; [split; [split|]|].
    - constructor.
      + exact (uf_ok_alloc_eclass _ _ _ _ _ H3 Hok).
      + eapply uf_slots_ok_alloc_eclass; [exact Hok|exact Hsl|exact Wsl|exact Sl|exact H3].
      + intros j c Hc. apply (get_class_ext_inv s2 s3 _ C) in Hc. destruct Hc as [Hc|[_ ->]]; [eapply HC; eauto|].
        split; [exact Wsl|]. split.
        * apply class_flat_grp_ok. unfold class_flat. cbn [c_slots c_group c_syn]. auto.
        * cbn [c_slots c_syn]. rewrite Sl. apply incl_refl.
    - intros j c x Hc Hx. rewrite Ct. apply (get_class_ext_inv s2 s3 _ C) in Hc. destruct Hc as [Hc|[_ ->]]; [eapply Hbl; eauto|].
      cbn [c_syn] in Hx. unfold s2. cbn [Model.ctr set_ctr].
      apply (Permutation.Permutation_in _ (occ_partition synf)) in Hx. apply in_app_or in Hx. destruct Hx as [Hx|Hx].
      + apply Pb in Hx. lia.
      + apply prv_binders in Hx. rewrite Bi in Hx. pose proof (proj1 (Forall_forall _ _) Hb x Hx) as T. cbv beta in T. lia.
    - intros j c e Hc He. apply (get_class_ext_inv s2 s3 _ C) in Hc. destruct Hc as [Hc|[_ ->]]; [eapply HN; eauto|].
      cbn [c_nodes] in He. contradiction.
    - split; [rewrite Ct; lia|]. intros j c Hc. exists c. split; [eapply get_class_ext_old; eauto|].
      split; [apply incl_refl|reflexivity]. }
  destruct S3 as [I3' E23].
  pose proof (get_class_ext_new s2 s3 _ C) as Hnew.
  assert (Ei : i = N.of_nat (lc s2)).
  { rewrite Hi. f_equal. exact (uso_wf _ (ei_slots _ (proj1 (proj1 I2)))). }
  rewrite <- Ei in Hnew.
  apply mbind_inv in H. destruct H as (t & s0 & Ht & H). apply lift_inv in Ht. destruct Ht as [Ht ->].
  apply mbind_inv in H. destruct H as (u4 & s4 & H4 & H). destruct t as [sh bij].
  assert (I4 : inv3 s4 /\ ext s3 s4).
  { destruct I3' as [Hs2 HN]. destruct (semR_step2 _ _ (s_raw_add _ _ _ _ _ _ H4) Hs2) as [Hs4 E4].
    split; [|exact E4]. split; [exact Hs4|]. eapply nodes_raw_add; [exact HN|exact Hnew| |exact H4].
    destruct (shape_bij_props _ _ _ Ht) as (Wb & Bb & _). destruct (shape_bij _ _ _ Ht) as (Sb1 & Sb2 & _).
    unfold entry_ok. cbn [fst snd c_slots]. split; [assumption|]. split; [apply is_bijection_injective; assumption|].
    split; [intros k Hk; apply Sb2; assumption|].
    intros x Hx. apply Sb1. rewrite <- Sl in Hx. apply slots_spec. assumption. }
  destruct I4 as [I4 E34].
  apply mbind_inv in H. destruct H as (u5 & s5 & H5 & H).
  destruct (semn_step3 _ _ (s_pending_insert _ _ _ _ _ H5) (n_pending_insert _ _ _ _ _ H5) I4) as [I5 E45].
  apply mbind_inv in H. destruct H as (u6 & s6 & H6 & H). inversion H; subst a s6; clear H.
  destruct (inv3_rebuild pre_shape_keeps_proved _ _ _ _ H6 I5) as [I6 E56].
  destruct u4, u5, u6. cbn [fst] in H5.
  exists f2o, c2, synf, s3, sh, bij, s4, s5. cbv zeta. fold s2.
  assert (Ei' : i = N.of_nat (lc s)) by (rewrite Ei; reflexivity). rewrite <- Ei'.
  repeat (split; [first [reflexivity|assumption]|]). assumption.
Qed.

(* the walk through the miss branch of add_internal *)
Lemma add_internal_walk : forall t s a s', inv3 s -> lookup_internal s t = Ok None ->
  add_internal t s = Ok (a, s') ->
  exists en1 c1 en2 en3 s3 syn,
    let s1 := set_ctr s c1 in
    refresh_private (fst t) (ectr s) = (Ok en1, c1) /\
    apply_slotmap false (snd t) en1 = Ok en2 /\
    synify_enode en2 s1 = Ok (en3, s3) /\
    mk_singleton_class en3 s3 = Ok (syn, s') /\
    semify_app_id s' syn = Ok a /\
    inv3 s1 /\ ext s s1 /\ inv3 s3 /\ ext s1 s3 /\ Forall (fun b => b < ectr s3) (binders en3).
Proof.
  intros t s a s' I3 Hlk H. unfold add_internal in H.
  apply bind_reads_inv in H. destruct H as (lk & Hlk' & H). rewrite Hlk in Hlk'. inversion Hlk'; subst lk; clear Hlk'.
  apply mbind_inv in H. destruct H as (en1 & s1 & H1 & H).
  destruct (refresh_private (fst t) (ectr s)) as [[r|e] c1] eqn:RP; [|discriminate]. inversion H1; subst r s1; clear H1.
  pose proof (refresh_private_step (fst t) (ectr s)) as St1. rewrite RP in St1. cbn [snd] in St1. apply ctr_step_le in St1.
  destruct (refresh_private_spec _ _ _ _ RP) as (_ & Bi1 & _).
  set (s1 := set_ctr s c1) in *.
  assert (S01 : semR s s1) by (split; [apply sem_set_ctr|unfold s1; cbn [Model.ctr set_ctr]; lia]).
  destruct (semn_step3 _ _ S01 (nsame_ctr s c1) I3) as [I1 E01].
  apply mbind_inv in H. destruct H as (en2 & s2 & H2 & H). apply lift_inv in H2. destruct H2 as [H2 ->].
  pose proof (apply_slotmap_ren _ _ _ H2) as R2.
  assert (Bi2 : binders en2 = binders en1) by (rewrite R2, ren_binders; unfold asm_g; apply map_id).
  apply mbind_inv in H. destruct H as (en3 & s3 & H3 & H).
  pose proof (s_synify_enode _ _ _ _ H3) as S13.
  destruct (semn_step3 _ _ S13 (n_synify_enode _ _ _ _ H3) I1) as [I3' E13].
  pose proof (synify_enode_binders _ _ _ _ H3) as Bi3.
  apply mbind_inv in H. destruct H as (syn & s4 & H4 & H).
  unfold reads in H. destruct (semify_app_id s4 syn) as [a0|] eqn:Sm; [|discriminate]. inversion H; subst a0 s4; clear H.
  exists en1, c1, en2, en3, s3, syn. cbv zeta. fold s1.
  repeat (split; [first [reflexivity|assumption]|]).
  rewrite Bi3, Bi2. revert Bi1. apply Forall_impl. intros b ((_ & Hb) & _).
  destruct S13 as [_ L13]. unfold s1 in L13. cbn [Model.ctr set_ctr] in L13. lia.
Qed.

(* ====================================================================== *)
(* 2. syn_wf is preserved by insertions                                    *)
(* ====================================================================== *)

(* appending one class whose syntactic node mentions existing classes with total maps *)
Lemma syn_wf_alloc : forall s s' cn, classes s' = classes s ++ [cn] -> syn_wf s ->
  Forall (kid_total s) (app_occ (c_syn cn)) -> syn_wf s'.
Proof.
  intros s s' cn C W F j c a Hc Ha.
  assert (Old : forall k ck, get_class s k = Ok ck -> SS s' k = slots (c_syn ck)).
  { intros k ck Hk. unfold SS. rewrite (get_class_ext_old s s' cn C _ _ Hk). reflexivity. }
  apply (get_class_ext_inv s s' cn C) in Hc. destruct Hc as [Hc|[-> ->]].
  - destruct (W _ _ _ Hc Ha) as [A T]. split; [exact A|].
    assert (L : (N.to_nat (aid a) < lc s)%nat) by (pose proof (get_class_lt _ _ _ Hc); lia).
    destruct (get_class_ok s _ L) as [ca Hca]. rewrite (Old _ _ Hca). rewrite <- (SS_class _ _ _ Hca). exact T.
  - destruct (proj1 (Forall_forall _ _) F a Ha) as (ca & Hca & T).
    split; [pose proof (get_class_lt _ _ _ Hca); lia|]. rewrite (Old _ _ Hca). exact T.
Qed.

Theorem syn_wf_add_internal : forall t p s a s', inv3 s -> syn_wf s -> wshape p = Ok t ->
  add_internal t s = Ok (a, s') -> syn_wf s'.
Proof.
  intros t p s a s' I3 W Hw H.
  destruct (lookup_internal s t) as [[hit|]|e] eqn:Hlk.
  - unfold add_internal, mbind, reads in H. rewrite Hlk in H. inversion H; subst. exact W.
  - destruct (add_internal_walk _ _ _ _ I3 Hlk H) as (en1 & c1 & en2 & en3 & s3 & syn & RP & H2 & H3 & H4 & Sm & I1 & E01 & I3' & E13 & Hb).
    cbv zeta in *.
    destruct (mk_singleton_walk _ _ _ _ I3' Hb H4) as (f2o & c2 & synf & s3a & sh & bij & s4 & s5 & BF & ASF & AL & Hsh & RA & PI & RB & Ea & I2 & I3a & E23 & I4 & E34 & I5 & E45 & I6 & E56).
    cbv zeta in *.
    pose proof (syn_wf_ext _ _ (ext_trans _ _ _ E01 E13) W) as W3.
    pose proof (synify_enode_total _ _ _ _ H3) as T3.
    pose proof (cls_synify_enode _ _ _ _ H3) as [C13 _].
    pose proof (fresh_rename_spec en3 (ectr s3) f2o c2 Hb BF) as R. cbv zeta in R. rewrite ASF in R. cbn [fst snd] in R.
    destruct R as (_ & Sk & _).
    pose proof (alloc_eclass_exact _ _ _ _ _ AL) as (_ & _ & C & _).
    set (s2 := set_ctr (set_ctr s3 c2) c2) in *.
    assert (W2 : syn_wf s2) by (apply (syn_wf_classes s3 s2); [reflexivity|exact W3]).
    assert (W3a : syn_wf s3a).
    { eapply syn_wf_alloc; [exact C|exact W2|]. cbn [c_syn].
      apply (kid_total_skel s2 synf en3 Sk). revert T3. apply Forall_impl. intros b Tb.
      apply (kid_total_classes (set_ctr s c1) s2); [|exact Tb]. unfold s2. cbn [classes set_ctr]. exact C13. }
    apply (syn_wf_ext s3a); [|exact W3a]. eapply ext_trans; [exact E34|]. eapply ext_trans; eauto.
  - unfold add_internal, mbind, reads in H. rewrite Hlk in H. discriminate.
Qed.

Theorem syn_wf_eg_add : forall n s a s', inv3 s -> syn_wf s -> eg_add n s = Ok (a, s') -> syn_wf s'.
Proof.
  intros n s a s' I3 W H. unfold eg_add in H. apply bind_reads_inv in H. destruct H as (t & Ht & H).
  unfold shape in Ht. destruct (pre_shape s n) as [p|]; cbn [bind] in Ht; [|discriminate].
  eapply syn_wf_add_internal; eauto.
Qed.

Definition step_wf (s s' : egraph) : Prop := inv3 s -> syn_wf s -> inv3 s' /\ syn_wf s'.
Lemma step_wf_refl : forall s, step_wf s s.
Proof. intros s A C. split; assumption. Qed.
Lemma step_wf_trans : forall a b c, step_wf a b -> step_wf b c -> step_wf a c.
Proof. intros a b c H1 H2 A C. destruct (H1 A C) as [A1 C1]. exact (H2 A1 C1). Qed.

Theorem syn_wf_add_expr : forall t s a s', inv3 s -> syn_wf s -> add_expr t s = Ok (a, s') -> syn_wf s'.
Proof.
  fix IH 1. intros [n ch] s a s' I3 W H. cbn [add_expr] in H.
  apply mbind_inv in H. destruct H as (l & s1 & Hgo & H).
  assert (G : pres step_wf ((fix go (l : list rterm) : M (list appid) :=
                match l with
                | [] => ret []
                | c :: r => dom a <- add_expr c; dom r' <- go r; ret (a :: r')
                end) ch)).
  { clear Hgo. induction ch as [|c r IHr]; [apply (pres_ret step_wf step_wf_refl)|].
    apply (pres_bind step_wf step_wf_trans).
    - intros s0 x0 s0' H0 I0 W0. split; [exact (proj1 (add_expr_covers c s0 x0 s0' I0 H0))|exact (IH c s0 x0 s0' I0 W0 H0)].
    - intros a0. apply (pres_bind step_wf step_wf_trans); [apply IHr|]. intros; apply (pres_ret step_wf step_wf_refl). }
  destruct (G _ _ _ Hgo I3 W) as [I1 W1].
  destruct (Nat.ltb _ _); [discriminate|].
  exact (syn_wf_eg_add _ _ _ _ I1 W1 H).
Qed.

(* ====================================================================== *)
(* 3. transfer of the semantic notions along ext / ext0                    *)
(* ====================================================================== *)

Lemma syn_t_ext : forall s s', ext s s' -> forall f d rho i, syn_t s' f d rho i = syn_t s f d rho i.
Proof.
  intros s s' X f d rho i. destruct (Nat.lt_ge_cases (N.to_nat i) (lc s)) as [L|L].
  - apply syn_t_ext0; [apply ext_ext0; exact X|exact L].
  - destruct f as [|f]; [reflexivity|]. cbn [syn_t]. destruct X as (_ & Lc & _).
    rewrite !nth_opt_none_ge by lia. reflexivity.
Qed.

Lemma sim_ext : forall E s s' a b, ext s s' -> sim E s a b -> sim E s' a b.
Proof.
  intros E s s' a b X H sg tau Rs Rt C. unfold rok, clsT, syn_at in *.
  rewrite (SS_ext _ _ _ X) in Rs. rewrite (SS_ext _ _ _ X) in Rt. rewrite !(syn_t_ext _ _ X). apply H; assumption.
Qed.

Lemma NodeArg_ext : forall s s', ext s s' -> forall d rho a t, NodeArg s' d rho a t -> NodeArg s d rho a t.
Proof.
  intros s s' X d rho a t H. induction H as [d rho x|d rho p|d rho x b t H IH|d rho a tau R Cm].
  - constructor.
  - constructor.
  - constructor. exact IH.
  - unfold syn_at. rewrite (syn_t_ext _ _ X). rewrite (SS_ext _ _ _ X) in R. apply (NA_app s d rho a tau R Cm).
Qed.

Lemma NodeT_ext : forall s s' rho n t, ext s s' -> NodeT s' rho n t -> NodeT s rho n t.
Proof.
  intros s s' rho n t X (args & F & ->). exists args. split; [|reflexivity].
  induction F as [|a t l l' Hat F IH]; constructor; [|exact IH]. eapply NodeArg_ext; eauto.
Qed.

(* along ext0 (classes may be appended): nodes whose children exist in the old state *)
Lemma NodeArg_ext0 : forall s s', ext0 s s' -> forall d rho a t, NodeArg s' d rho a t ->
  (forall x, In x (app_occ_f a) -> exists c, get_class s (aid x) = Ok c) -> NodeArg s d rho a t.
Proof.
  intros s s' X d rho a t H. induction H as [d rho x|d rho p|d rho x b t H IH|d rho a tau R Cm]; intros K.
  - constructor.
  - constructor.
  - constructor. apply IH. exact K.
  - destruct (K a (or_introl eq_refl)) as [c Hc].
    unfold syn_at. rewrite (syn_t_ext0 _ _ X) by (eapply get_class_lt; eauto).
    rewrite (SS_ext0 _ _ _ _ X Hc) in R. apply (NA_app s d rho a tau R Cm).
Qed.

Lemma NodeT_ext0 : forall s s' rho n t, ext0 s s' ->
  (forall x, In x (app_occ n) -> exists c, get_class s (aid x) = Ok c) -> NodeT s' rho n t -> NodeT s rho n t.
Proof.
  intros s s' rho n t X K (args & F & ->). exists args. split; [|reflexivity].
  assert (K' : forall a, In a (nargs n) -> forall x, In x (app_occ_f a) -> exists c, get_class s (aid x) = Ok c).
  { intros a Ha x Hx. apply K. eapply app_occ_f_in; eauto. }
  clear K. induction F as [|a t l l' Hat F IH]; constructor.
  - eapply NodeArg_ext0; [exact X|exact Hat|]. apply K'. left. reflexivity.
  - apply IH. intros a' Ha'. apply K'. right. exact Ha'.
Qed.

(* ====================================================================== *)
(* 4. the two state changes of the allocation                              *)
(* ====================================================================== *)

(* `kids_exist` (the children of the stored nodes exist) is defined in NodePass.v, where it is
   proved for every reachable state (`reachable_kids_exist`, `kids_exist_add_expr`,
   `kids_exist_eg_union`); it is not part of inv3. *)

(* Stage B: a step that keeps table, slots, groups and syntactic nodes, and adds only sound nodes *)
Lemma Sound_sem_nodes : forall E s s', sem_eq s s' -> ectr s <= ectr s' ->
  (forall j c c' sh bij src, get_class s j = Ok c -> get_class s' j = Ok c' -> In (sh, (bij, src)) (c_nodes c') ->
     In (sh, (bij, src)) (c_nodes c) \/
     (forall n sg t, apply_slotmap false bij sh = Ok n -> rokL (SS s j ++ slots n) sg -> NodeT s sg n t ->
        Deriv E 0 (clsT s sg j) t)) ->
  Sound E s -> Sound E s'.
Proof.
  intros E s s' Q L Hn S. pose proof (sem_ext _ _ Q L) as X. pose proof Q as [U _].
  assert (Back : forall j c', get_class s' j = Ok c' -> exists c, get_class s j = Ok c /\ csem c = csem c').
  { intros j c' Hc'. exact (get_class_sem_ok s' s j c' (sem_eq_sym _ _ Q) Hc'). }
  constructor.
  - intros i e H. rewrite <- U in H. unfold idapp. rewrite (SS_ext _ _ _ X).
    apply (sim_ext E s s' _ _ X). exact (snd_uf _ _ S i e H).
  - intros i c' sh bij src n sg t Hc' Hin Hap R NT. destruct (Back _ _ Hc') as (c & Hc & _).
    rewrite (SS_ext _ _ _ X) in R. apply (NodeT_ext _ _ _ _ _ X) in NT.
    unfold clsT, syn_at. rewrite (syn_t_ext _ _ X).
    destruct (Hn _ _ _ _ _ _ Hc Hc' Hin) as [Old|New].
    + exact (snd_node _ _ S i c sh bij src n sg t Hc Old Hap R NT).
    + exact (New n sg t Hap R NT).
  - intros i c' p Hc' P G. destruct (Back _ _ Hc') as (c & Hc & Cs). apply csem_inv in Cs. destruct Cs as (A & Gq & _).
    apply (sim_ext E s s' _ _ X). unfold cidapp. rewrite <- A. rewrite <- A in P. rewrite <- Gq in G.
    exact (snd_grp _ _ S i c p Hc P G).
Qed.

(* Stage A: appending one class without nodes, with the trivial group, and its identity entry *)
Lemma Sound_alloc : forall E s s' cn, eg_inv s -> eg_inv s' -> kids_exist s -> ext0 s s' ->
  classes s' = classes s ++ [cn] ->
  unionfind s' = unionfind s ++ [{| aid := N.of_nat (lc s); am := identity (slots (c_syn cn)) |}] ->
  c_nodes cn = [] -> c_group cn = Grp (identity (c_slots cn)) None -> c_slots cn = slots (c_syn cn) ->
  Sound E s -> Sound E s'.
Proof.
  intros E s s' cn I I' K X C U Nn Gn Sn S. pose proof I as [Hok Hs Hcl].
  pose proof (uso_wf s Hs) as Wf. unfold eg_wf in Wf.
  pose proof (get_class_ext_new s s' cn C) as Hnew.
  assert (SSn : SS s' (N.of_nat (lc s)) = slots (c_syn cn)) by (unfold SS; rewrite Hnew; reflexivity).
  assert (Refl : forall sg tau, (forall x, In x (slots (c_syn cn)) -> sg x = tau x) ->
                 Deriv E 0 (clsT s' sg (N.of_nat (lc s))) (clsT s' tau (N.of_nat (lc s)))).
  { intros sg tau Ag. rewrite (clsT_rho_ext s' sg tau) by (rewrite SSn; exact Ag). apply D_refl. }
  constructor.
  - intros i e H. rewrite U in H. apply uentry_app_inv in H. destruct H as [H|[-> ->]].
    + pose proof (uentry_lt _ _ _ H) as Li. rewrite Wf in Li. destruct (get_class_ok s i Li) as [ci Hci].
      pose proof (ufl_bound _ Hok _ _ H) as Le. rewrite Wf in Le. destruct (get_class_ok s _ Le) as [ce Hce].
      unfold idapp. rewrite (SS_ext0 _ _ _ _ X Hci).
      apply (sim_ext0 E s s' (idapp s i) e ci ce X Hci Hce). exact (snd_uf _ _ S i e H).
    + rewrite Wf. intros sg tau Rs Rt Cm. cbn [aid am idapp] in *. apply Refl. intros x Hx.
      apply (Cm x x x); [rewrite SSn; apply identity_get_in; exact Hx|apply identity_get_in; exact Hx].
  - intros i c sh bij src n sg t Hc Hin Hap R NT.
    apply (get_class_ext_inv s s' cn C) in Hc. destruct Hc as [Hc|[_ ->]]; [|rewrite Nn in Hin; destruct Hin].
    rewrite (SS_ext0 _ _ _ _ X Hc) in R. rewrite (clsT_ext0 _ _ _ _ _ X Hc).
    apply (snd_node _ _ S i c sh bij src n sg t Hc Hin Hap R).
    apply (NodeT_ext0 s s' sg n t X); [|exact NT].
    intros x Hx. pose proof (apply_slotmap_ren _ _ _ Hap) as Rn.
    assert (Sk : skel n = skel sh) by (rewrite Rn; apply ren_skel).
    destruct (skel_child _ _ _ Sk Hx) as (x' & Hx' & Ea & _). rewrite <- Ea. exact (K _ _ _ _ _ _ Hc Hin Hx').
  - intros i c p Hc P G. pose proof Hc as Hc0.
    apply (get_class_ext_inv s s' cn C) in Hc. destruct Hc as [Hc|[-> ->]].
    + apply (sim_ext0 E s s' (cidapp i c) {| aid := i; am := p |} c c X Hc Hc). exact (snd_grp _ _ S i c p Hc P G).
    + apply (group_new_sound E s' _ cn [] Hc0 (ei_cls _ I' _ _ Hc0) (Forall_nil _)); try assumption.
      * rewrite Gn. reflexivity.
      * intros sg tau Rs Rt Cm. apply Refl. intros x Hx. apply Cm. apply identity_get_in. rewrite Sn. exact Hx.
      * intros g [].
Qed.

(* ====================================================================== *)
(* 5. the syntactic node of a class denotes the class                      *)
(* ====================================================================== *)

Lemma NodeArg_syn : forall s i, forall d rho a t, NodeArg s d rho a t ->
  (forall x, In x (app_occ_f a) -> aid x < i /\ forall y, In y (SS s (aid x)) -> get (am x) y <> None) ->
  t = arg_t (fun d' rho' x => if aid x <? i then syn_t s (N.to_nat i) d' (thru (am x) rho') (aid x) else dummy) d rho a.
Proof.
  intros s i d rho a t H. induction H as [d rho x|d rho p|d rho x b t H IH|d rho a tau R Cm]; intros K; cbn [arg_t].
  - reflexivity.
  - reflexivity.
  - f_equal. apply IH. exact K.
  - destruct (K a (or_introl eq_refl)) as [Lt T]. f_equal.
    rewrite (proj2 (N.ltb_lt _ _) Lt). unfold syn_at.
    rewrite (syn_t_fuel s (S (N.to_nat (aid a))) (N.to_nat i)) by lia.
    apply syn_t_rho_ext. intros y Hy. specialize (T y Hy). unfold thru.
    destruct (get (am a) y) as [v|] eqn:G; [|congruence]. exact (Cm _ _ G).
Qed.

Lemma NodeT_syn : forall s i c sg t, syn_wf s -> get_class s i = Ok c -> NodeT s sg (c_syn c) t -> t = clsT s sg i.
Proof.
  intros s i c sg t W Hc (args & F & ->). unfold clsT, syn_at. cbn [syn_t].
  unfold get_class in Hc. destruct (nth_opt (classes s) (N.to_nat i)) as [c0|] eqn:Hn; [|discriminate].
  inversion Hc; subst c0. f_equal.
  assert (K : forall a, In a (nargs (c_syn c)) -> forall x, In x (app_occ_f a) ->
                aid x < i /\ forall y, In y (SS s (aid x)) -> get (am x) y <> None).
  { intros a Ha x Hx. apply (W i c x); [unfold get_class; rewrite Hn; reflexivity|]. eapply app_occ_f_in; eauto. }
  clear Hn Hc. induction F as [|a t l l' Hat F IH]; [reflexivity|]. cbn [map]. f_equal.
  - apply (NodeArg_syn s i _ _ _ _ Hat). apply K. left. reflexivity.
  - apply IH. intros a' Ha'. apply K. right. exact Ha'.
Qed.

(* sh[bij] is the node itself, up to alpha-renaming, when the public slots of the node cannot
   capture the (numbered) binders of the shape *)
Lemma shape_apply_equiv_id : forall n0 sh bij n, wshape n0 = Ok (sh, bij) ->
  (forall x, In x (pub_occ n0) -> x mod 4 <> 0) ->
  apply_slotmap false bij sh = Ok n -> equiv_by (fun x => x) n0 n.
Proof.
  intros n0 sh bij n Hw M Hap. pose proof (apply_slotmap_ren _ _ _ Hap) as Rn.
  destruct (shape_sound _ _ _ Hw) as [Sk (rho & Irho & Prho)].
  destruct (shape_bij _ _ _ Hw) as (_ & _ & B3).
  pose proof (equiv_pub _ _ _ Prho) as Pub.
  assert (Ag : forall k, In k (pub_occ sh) -> asm_g bij true k = rho k).
  { rewrite Pub, map_map in B3. intros k Hk.
    assert (T : forall l, map (fun k => get bij k) l = map (fun x => Some (rho x)) l -> In k l -> get bij k = Some (rho k)).
    { induction l as [|z l IHl]; intros Eq Hin; [destruct Hin|]. cbn [map] in Eq. inversion Eq as [[E1 E2]].
      destruct Hin as [<-|Hin]; [exact E1|exact (IHl E2 Hin)]. }
    unfold asm_g. rewrite (T _ B3 Hk). reflexivity. }
  assert (Pat : pattern n = pattern n0).
  { rewrite Rn, ren_spec.
    - rewrite <- Prho. apply map_ext_in. intros [k|x] Hin; cbn [rename_occ]; [reflexivity|].
      f_equal. apply Ag. rewrite <- frees_pattern. apply frees_in. exact Hin.
    - intros x y _ _ Eq. exact Eq.
    - intros x b Hx Hb Eq. rewrite (Ag _ Hx) in Eq. unfold asm_g in Eq.
      assert (Hr : In (rho x) (pub_occ n0)) by (rewrite Pub; apply in_map; exact Hx).
      apply (M _ Hr). rewrite Eq. apply (shape_all_occ_mod4 _ _ _ Hw). apply binders_all_occ. exact Hb. }
  split; [|split].
  - rewrite Rn, ren_skel. symmetry. exact Sk.
  - intros x y _ _ Eq. exact Eq.
  - rewrite rename_occ_id. symmetry. exact Pat.
Qed.

(* ====================================================================== *)
(* 6. soundness of the allocation                                          *)
(* ====================================================================== *)

(* the structural invariant mod4_ok (SoundUnion.v) at the states of the walk up to the rebuild inside
   mk_singleton_class (SoundUnion.p4_mk_singleton / p4_add_internal prove it for the final states only) *)
Lemma m4_refresh_ctr : forall n s r c1, mod4_ok s -> refresh_private n (ectr s) = (r, c1) -> mod4_ok (set_ctr s c1).
Proof.
  intros n s r c1 M RP. pose proof (refresh_private_step n (ectr s)) as St. rewrite RP in St. cbn [snd] in St.
  apply (m4_frame s _); [| | | |exact M].
  - cbn [Model.ctr set_ctr]. rewrite (ctr_step_mod _ _ St). apply M.
  - apply classes_synsame. reflexivity.
  - apply nsame_nodes_same. apply nsame_ctr.
  - intros i e He. left. exact He.
Qed.

Lemma m4_singleton_pre : forall en s f2o c2 synf i s3 sh bij s4 s5, mod4_ok s ->
  bijection_from_fresh_to (slots en) (ectr s) = (f2o, c2) ->
  apply_slotmap_fresh false (inv f2o) en c2 = (synf, c2) ->
  alloc_eclass (values (inv f2o)) synf (set_ctr (set_ctr s c2) c2) = Ok (i, s3) ->
  wshape synf = Ok (sh, bij) ->
  raw_add_to_class i (sh, bij) i s3 = Ok (tt, s4) ->
  pending_insert sh true s4 = Ok (tt, s5) -> mod4_ok s5.
Proof.
  intros en s f2o c2 synf i s3 sh bij s4 s5 M BF ASF H3 Ht H4 H5.
  assert (M1 : mod4_ok (set_ctr s c2)).
  { apply (p4_with_ctr _ _ (bijection_from_fresh_to_step (slots en)) s f2o (set_ctr s c2)); [|exact M].
    unfold with_ctr. rewrite BF. reflexivity. }
  assert (M2 : mod4_ok (set_ctr (set_ctr s c2) c2)).
  { apply (p4_with_ctr _ _ (apply_slotmap_fresh_step false (inv f2o) en) (set_ctr s c2) synf (set_ctr (set_ctr s c2) c2)); [|exact M1].
    unfold with_ctr. cbn [Model.ctr set_ctr]. rewrite ASF. reflexivity. }
  destruct (fresh_spec _ _ _ _ (slots_sorted en) BF) as (F1 & _).
  assert (K : forall x, In x (pub_occ en) -> get (inv f2o) x <> None).
  { intros x Hx. apply slots_spec in Hx. destruct (F1 x Hx) as (y & -> & _). discriminate. }
  pose proof (asf_ren (inv f2o) en c2 K) as AR. rewrite ASF in AR. injection AR as Esyn.
  assert (Psyn : forall y, In y (pub_occ synf) -> y mod 4 = 1).
  { intros y Hy. rewrite Esyn in Hy. apply pub_occ_ren_sub in Hy; [|reflexivity]. destruct Hy as (x & Hx & ->).
    cbv beta. apply slots_spec in Hx. destruct (F1 x Hx) as (u & -> & _ & Mu). rewrite Mu. apply M. }
  pose proof (alloc_eclass_exact _ _ _ _ _ H3) as (Hi & U & C & _ & _ & Ct).
  set (s2 := set_ctr (set_ctr s c2) c2) in *.
  assert (M3 : mod4_ok s3).
  { destruct M2 as [A B Cn D]. constructor.
    - rewrite Ct. exact A.
    - intros j x Hx. unfold SS in Hx. destruct (get_class s3 j) as [cj|] eqn:Hcj; [|contradiction].
      apply (get_class_ext_inv s2 s3 _ C) in Hcj. destruct Hcj as [Hcj|[_ ->]].
      + apply (B j). unfold SS. rewrite Hcj. exact Hx.
      + cbn [c_syn] in Hx. apply Psyn. apply slots_spec. exact Hx.
    - intros j cj e Hcj He. apply (get_class_ext_inv s2 s3 _ C) in Hcj. destruct Hcj as [Hcj|[_ ->]]; [eapply Cn; eauto|].
      cbn [c_nodes] in He. contradiction.
    - intros j e He. rewrite U in He. apply uentry_app_inv in He. destruct He as [He|[_ ->]]; [eapply D; eauto|].
      cbn [am]. apply k4_identity. intros x Hx. apply Psyn. apply slots_spec. exact Hx. }
  assert (Q : Q4 (sh, (bij, i))).
  { split; cbn [fst snd].
    - intros y Hy. apply (shape_all_occ_mod4 _ _ _ Ht). apply binders_all_occ. exact Hy.
    - intros k v G. apply Psyn. apply (proj2 (proj2 (shape_bij_props _ _ _ Ht))). eauto. }
  pose proof (p4_raw_add _ _ _ _ Q _ _ _ H4 M3) as M4.
  exact (p4_pending_insert _ _ _ _ _ H5 M4).
Qed.

(* new_walk t s s5: s5 is the state right before the rebuild performed by the insertion of the weak
   shape t (lookup-miss branch of add_internal) in the state s *)
Definition new_walk (t : node * slotmap) (s s5 : egraph) : Prop :=
  exists en1 c1 en2 en3 s3 f2o c2 synf i s3a sh bij s4,
    refresh_private (fst t) (ectr s) = (Ok en1, c1) /\ apply_slotmap false (snd t) en1 = Ok en2 /\
    synify_enode en2 (set_ctr s c1) = Ok (en3, s3) /\
    bijection_from_fresh_to (slots en3) (ectr s3) = (f2o, c2) /\
    apply_slotmap_fresh false (inv f2o) en3 c2 = (synf, c2) /\
    alloc_eclass (values (inv f2o)) synf (set_ctr (set_ctr s3 c2) c2) = Ok (i, s3a) /\
    wshape synf = Ok (sh, bij) /\ raw_add_to_class i (sh, bij) i s3a = Ok (tt, s4) /\
    pending_insert sh true s4 = Ok (tt, s5).

Section AddNew.
  (* XP: further run invariants needed (and kept) by rebuild; instance: fun _ => True *)
  Variable XP : egraph -> Prop.
  (* rebuild keeps the invariant (SoundRebuild.Sound_rebuild) *)
  Hypothesis H_rebuild : forall E fuel s x s', inv3 s -> syn_wf s -> mod4_ok s -> XP s -> Sound E s ->
    rebuild fuel s = Ok (x, s') -> Sound E s' /\ XP s'.
  (* the terms of a node are invariant under alpha-renaming and transported by a renaming of the
     free slots: NodeT_equiv of SoundNode.v *)
  Let NL_NodeT_equiv := NodeT_equiv.

  (* I2 for the node that mk_singleton_class stores in the new class *)
  Lemma new_node_sound : forall E s i c sh bij n sg t, syn_wf s -> get_class s i = Ok c ->
    wshape (c_syn c) = Ok (sh, bij) -> (forall x, In x (pub_occ (c_syn c)) -> x mod 4 <> 0) ->
    apply_slotmap false bij sh = Ok n -> NodeT s sg n t -> Deriv E 0 (clsT s sg i) t.
  Proof.
    intros E s i c sh bij n sg t W Hc Hw M Hap NT.
    pose proof (shape_apply_equiv_id _ _ _ _ Hw M Hap) as Q.
    apply (proj1 (NL_NodeT_equiv s _ _ _ sg t Q)) in NT.
    rewrite (NodeT_syn s i c sg t W Hc NT). apply D_refl.
  Qed.

  (* the whole walk, with the facts about the state s3a right after the allocation *)
  Lemma add_new_main : forall E t s a s', inv3 s -> syn_wf s -> mod4_ok s -> Sound E s ->
    kids_exist s -> ectr s mod 4 = 1 -> (forall s5, new_walk t s s5 -> XP s5) ->
    lookup_internal s t = Ok None -> add_internal t s = Ok (a, s') ->
    exists en1 c1 en2 en3 s3 f2o c2 synf s3a cn,
      refresh_private (fst t) (ectr s) = (Ok en1, c1) /\ ectr s <= c1 /\
      apply_slotmap false (snd t) en1 = Ok en2 /\
      synify_enode en2 (set_ctr s c1) = Ok (en3, s3) /\ Forall (fun b => b < ectr s3) (binders en3) /\
      bijection_from_fresh_to (slots en3) (ectr s3) = (f2o, c2) /\
      apply_slotmap_fresh false (inv f2o) en3 c2 = (synf, c2) /\
      classes s3a = classes s ++ [cn] /\ c_syn cn = synf /\ ext0 (set_ctr (set_ctr s3 c2) c2) s3a /\
      get_class s3a (N.of_nat (lc s3)) = Ok cn /\ inv3 s3a /\ syn_wf s3a /\ Sound E s3a /\
      ext s3a s' /\ inv3 s' /\ Sound E s' /\
      semify_app_id s' {| aid := N.of_nat (lc s3); am := f2o |} = Ok a /\ XP s'.
  Proof.
    intros E t s a s' I3 W M4s S K Cm HXP Hlk H.
    destruct (add_internal_walk _ _ _ _ I3 Hlk H) as (en1 & c1 & en2 & en3 & s3 & syn & RP & H2 & H3 & H4 & Sm & I1 & E01 & I3' & E13 & Hb).
    cbv zeta in *.
    destruct (mk_singleton_walk _ _ _ _ I3' Hb H4) as (f2o & c2 & synf & s3a & sh & bij & s4 & s5 & BF & ASF & AL & Hsh & RA & PI & RB & Ea & I2 & I3a & E23 & I4 & E34 & I5 & E45 & I6 & E56).
    cbv zeta in *.
    (* the counter *)
    pose proof (refresh_private_step (fst t) (ectr s)) as St1. rewrite RP in St1. cbn [snd] in St1.
    pose proof (core_synify_enode ctr_rel ctr_core en2 _ _ _ H3) as St3. unfold ctr_rel in St3. cbn [Model.ctr set_ctr] in St3.
    assert (Cm3 : ectr s3 mod 4 = 1) by (rewrite (ctr_step_mod _ _ St3), (ctr_step_mod _ _ St1); exact Cm).
    (* up to the allocation: classes and table are unchanged *)
    pose proof (cls_synify_enode _ _ _ _ H3) as [C13 U13]. cbn [classes unionfind set_ctr] in C13, U13.
    pose proof (syn_wf_ext _ _ (ext_trans _ _ _ E01 E13) W) as W3.
    pose proof (synify_enode_total _ _ _ _ H3) as T3.
    pose proof (fresh_rename_spec en3 (ectr s3) f2o c2 Hb BF) as R. cbv zeta in R. rewrite ASF in R. cbn [fst snd] in R.
    destruct R as (_ & Sk & _ & Sl & _ & Pb & _).
    pose proof (alloc_eclass_exact _ _ _ _ _ AL) as (_ & U & C & _).
    set (s2 := set_ctr (set_ctr s3 c2) c2) in *.
    assert (C2 : classes s2 = classes s) by exact C13.
    assert (S2 : Sound E s2).
    { apply (Sound_frame E s s2 C2); [|exact S]. intros j e G. left. unfold s2 in G. cbn [unionfind set_ctr] in G. rewrite U13 in G. exact G. }
    pose proof (kids_exist_classes s s2 C2 K) as K2.
    assert (W2 : syn_wf s2) by (apply (syn_wf_classes s3 s2); [reflexivity|exact W3]).
    set (cn := {| c_nodes := []; c_slots := values (inv f2o); c_usages := [];
                  c_group := Grp (identity (values (inv f2o))) None; c_syn := synf |}) in *.
    assert (W3a : syn_wf s3a).
    { eapply syn_wf_alloc; [exact C|exact W2|]. cbn [c_syn cn].
      apply (kid_total_skel s2 synf en3 Sk). revert T3. apply Forall_impl. intros b Tb.
      apply (kid_total_classes (set_ctr s c1) s2); [|exact Tb]. unfold s2. cbn [classes set_ctr]. exact C13. }
    (* the allocation *)
    assert (S3a : Sound E s3a).
    { apply (Sound_alloc E s2 s3a cn (proj1 (proj1 I2)) (proj1 (proj1 I3a)) K2 E23 C); try reflexivity; try assumption.
      cbn [c_slots c_syn cn]. symmetry. exact Sl. }
    pose proof (get_class_ext_new s2 s3a cn C) as Hnew.
    (* the node *)
    assert (S4 : Sound E s4).
    { destruct (s_raw_add _ _ _ _ _ _ RA) as [Q L]. apply (Sound_sem_nodes E s3a s4 Q L); [|exact S3a].
      intros j c c' sh0 bij0 src0 Hc Hc' Hin.
      destruct (raw_add_nodes _ _ _ _ _ _ _ RA _ _ _ _ Hc Hc' Hin) as [Old|[Ej Ee]]; [left; exact Old|right].
      inversion Ee; subst sh0 bij0 src0. intros n sg t0 Hap _ NT. rewrite Ej.
      replace (N.of_nat (lc s3)) with (N.of_nat (lc s2)) in * by reflexivity.
      apply (new_node_sound E s3a _ cn sh bij n sg t0 W3a Hnew); try assumption.
      intros x Hx. cbn [c_syn cn] in Hx. destruct (Pb x Hx) as [_ Mx]. rewrite Mx, Cm3. discriminate. }
    assert (S5 : Sound E s5) by (inversion PI; apply Sound_set_pending; exact S4).
    pose proof (syn_wf_ext _ _ (ext_trans _ _ _ E34 E45) W3a) as W5.
    assert (M5 : mod4_ok s5).
    { pose proof (m4_refresh_ctr _ _ _ _ M4s RP) as Ma.
      pose proof (p4_synify_enode _ _ _ _ H3 Ma) as Mb.
      exact (m4_singleton_pre en3 s3 f2o c2 synf _ s3a sh bij s4 s5 Mb BF ASF AL Hsh RA PI). }
    assert (X5 : XP s5).
    { apply HXP. exists en1, c1, en2, en3, s3, f2o, c2, synf, (N.of_nat (lc s3)), s3a, sh, bij, s4.
      repeat (split; [assumption|]). assumption. }
    destruct (H_rebuild E _ _ _ _ I5 W5 M5 X5 S5 RB) as [S6 X6].
    exists en1, c1, en2, en3, s3, f2o, c2, synf, s3a, cn. subst syn.
    split; [exact RP|]. split; [apply ctr_step_le; exact St1|]. split; [exact H2|]. split; [exact H3|]. split; [exact Hb|].
    split; [exact BF|]. split; [exact ASF|]. split; [rewrite <- C2; exact C|]. split; [reflexivity|]. split; [exact E23|].
    split; [exact Hnew|]. split; [exact I3a|]. split; [exact W3a|]. split; [exact S3a|].
    split; [exact (ext_trans _ _ _ E34 (ext_trans _ _ _ E45 E56))|]. split; [exact I6|]. split; [exact S6|]. split; [exact Sm|exact X6].
  Qed.

  Theorem Sound_add_internal_new : forall E t p s a s', inv3 s -> syn_wf s -> mod4_ok s -> Sound E s ->
    kids_exist s -> ectr s mod 4 = 1 -> (forall s5, new_walk t s s5 -> XP s5) ->
    wshape p = Ok t -> lookup_internal s t = Ok None -> add_internal t s = Ok (a, s') -> Sound E s' /\ XP s'.
  Proof.
    intros E t p s a s' I3 W M4s S K Cm HXP _ Hlk H.
    destruct (add_new_main E t s a s' I3 W M4s S K Cm HXP Hlk H) as (en1 & c1 & en2 & en3 & s3 & f2o & c2 & synf & s3a & cn & T).
    destruct T as (_ & _ & _ & _ & _ & _ & _ & _ & _ & _ & _ & _ & _ & _ & _ & _ & S6 & _ & X6). split; [exact S6|exact X6].
  Qed.
End AddNew.

(* ====================================================================== *)
(* 7. the handle: general steps                                            *)
(* ====================================================================== *)

Lemma nsound_ext : forall E s s' a n, ext s s' -> nsound E s a n -> nsound E s' a n.
Proof.
  intros E s s' a n X H sg rho t Rs Rr Ag Jn NT. rewrite (SS_ext _ _ _ X) in Rs.
  unfold clsT, syn_at. rewrite (syn_t_ext _ _ X). apply (H sg rho t Rs Rr Ag).
  - intros x y Hx. apply Jn. rewrite (SS_ext _ _ _ X). exact Hx.
  - eapply NodeT_ext; eauto.
Qed.

(* semify_app_id: restricting the map of a handle (total on the syntactic slots) to the class slots *)
Lemma nsound_restrict : forall E s i m c n, eg_inv s -> Sound E s -> get_class s i = Ok c ->
  wf m -> injective m -> (forall x, In x (SS s i) -> get m x <> None) ->
  nsound E s {| aid := i; am := m |} n ->
  nsound E s {| aid := i; am := filter (fun p => sset_mem (fst p) (c_slots c)) m |} n.
Proof.
  intros E s i m c n I S Hc Wm Im Tot H sg rho t Rs Rr Ag Jn NT. cbn [aid am] in *.
  set (m' := filter (fun p => sset_mem (fst p) (c_slots c)) m) in *.
  assert (Wm' : wf m') by (apply (filter_key_wf (fun k => sset_mem k (c_slots c))); exact Wm).
  assert (G' : forall x, get m' x = if sset_mem x (c_slots c) then get m x else None).
  { intros x. apply (get_filter_key (fun k => sset_mem k (c_slots c))). }
  destruct (ei_cls s I _ _ Hc) as (_ & _ & Sub). rewrite <- (SS_class _ _ _ Hc) in Sub.
  assert (K' : forall x v, get m' x = Some v -> In x (c_slots c) /\ In x (SS s i) /\ get m x = Some v).
  { intros x v G. rewrite G' in G. destruct (sset_mem x (c_slots c)) eqn:Mx; [|discriminate].
    apply sset_mem_in in Mx. split; [exact Mx|]. split; [apply Sub; exact Mx|exact G]. }
  set (Dm := slots n ++ values_vec m').
  set (K := bound_of rho Dm).
  set (rp := fun z => if memb z Dm then rho z else 4 * (z + K)).
  destruct Rs as [Is Ns]. destruct Rr as [Ir Nr].
  assert (VD : forall z, In z Dm -> In z (slots n) \/ exists x, get m' x = Some z).
  { intros z Hz. apply in_app_or in Hz. destruct Hz as [Hz|Hz]; [left; exact Hz|right].
    unfold values_vec in Hz. apply in_map_iff in Hz. destruct Hz as ([x v] & Ev & Hin). cbn [snd] in Ev. subst v.
    exists x. apply in_get; assumption. }
  assert (C1 : forall z, In z Dm -> is_B (rho z) = false).
  { intros z Hz. destruct (VD z Hz) as [Hn|(x & Gx)]; [apply Nr; exact Hn|].
    destruct (K' _ _ Gx) as (_ & Hx & _). rewrite <- (Ag _ _ Gx). apply Ns. exact Hx. }
  assert (C0 : forall z z', In z Dm -> In z' Dm -> rho z = rho z' -> z = z').
  { intros z z' Hz Hz' Eq. destruct (VD z Hz) as [Hn|(x & Gx)]; destruct (VD z' Hz') as [Hn'|(x' & Gx')].
    - apply Ir; assumption.
    - destruct (K' _ _ Gx') as (_ & Hx' & _). rewrite <- (Ag _ _ Gx') in Eq. symmetry in Eq.
      pose proof (Jn _ _ Hx' Hn Eq) as T. congruence.
    - destruct (K' _ _ Gx) as (_ & Hx & _). rewrite <- (Ag _ _ Gx) in Eq.
      pose proof (Jn _ _ Hx Hn' Eq) as T. congruence.
    - destruct (K' _ _ Gx) as (_ & Hx & _). destruct (K' _ _ Gx') as (_ & Hx' & _).
      rewrite <- (Ag _ _ Gx), <- (Ag _ _ Gx') in Eq. pose proof (Is _ _ Hx Hx' Eq). subst x'. congruence. }
  assert (Rp1 : forall z, In z Dm -> rp z = rho z).
  { intros z Hz. unfold rp. rewrite (proj2 (memb_in _ _) Hz). reflexivity. }
  assert (RpI : forall z z', rp z = rp z' -> z = z').
  { intros z z'. unfold rp. destruct (memb z Dm) eqn:Mz; destruct (memb z' Dm) eqn:Mz'; intros Eq.
    - apply memb_in in Mz, Mz'. apply C0; assumption.
    - apply memb_in in Mz. pose proof (bound_of_spec rho Dm z Mz) as Bz. fold K in Bz. lia.
    - apply memb_in in Mz'. pose proof (bound_of_spec rho Dm z' Mz') as Bz. fold K in Bz. lia.
    - lia. }
  assert (RpB : forall z, is_B (rp z) = false).
  { intros z. unfold rp. destruct (memb z Dm) eqn:Mz; [apply memb_in in Mz; apply C1; exact Mz|unfold is_B; lia]. }
  set (sg2 := fun x => match get m x with Some v => rp v | None => 0 end).
  assert (Rs2 : rok s i sg2).
  { split.
    - intros x y Hx Hy. unfold sg2. pose proof (Tot x Hx) as Tx. pose proof (Tot y Hy) as Ty.
      destruct (get m x) as [v|] eqn:Gx; [|congruence]. destruct (get m y) as [w|] eqn:Gy; [|congruence].
      intros Eq. apply RpI in Eq. subst w. eapply Im; eauto.
    - intros x Hx. unfold sg2. pose proof (Tot x Hx) as Tx. destruct (get m x) as [v|] eqn:Gx; [|congruence]. apply RpB. }
  apply D_trans with (clsT s sg2 i).
  - apply (Sound_redundant E s i c S (ei_cls s I) Hc sg sg2 (conj Is Ns) Rs2). cbn [aid am cidapp].
    intros x y v Hx Hy. apply identity_get in Hx. destruct Hx as [-> Hv]. apply identity_get in Hy. destruct Hy as [-> _].
    pose proof (Tot v (Sub v Hv)) as Tv. destruct (get m v) as [w|] eqn:Gv; [|congruence].
    assert (Gv' : get m' v = Some w) by (rewrite G', (proj2 (sset_mem_in _ _) Hv); exact Gv).
    rewrite (Ag _ _ Gv'). unfold sg2. rewrite Gv. symmetry. apply Rp1.
    apply in_or_app. right. eapply vals_in_vec; eauto.
  - apply (H sg2 rp t Rs2); cbn [aid am].
    + split; [intros x y _ _; apply RpI|intros x _; apply RpB].
    + intros x v G. unfold sg2. rewrite G. reflexivity.
    + intros x y Hx Hy. unfold sg2. pose proof (Tot x Hx) as Tx. destruct (get m x) as [v|] eqn:Gx; [|congruence].
      intros Eq. apply RpI in Eq. congruence.
    + apply (NodeT_rho_ext s n rho rp); [|exact NT]. intros z Hz. symmetry. apply Rp1. apply in_or_app. left. exact Hz.
Qed.

(* replacing the children of a node by related ones whose maps may have MORE values (synify): the
   forward direction of NodeT_cong of SoundNode.v *)
Definition srel (E : equations) (s : egraph) (x x' : appid) : Prop :=
  sim E s x x' /\ injective (am x) /\ injective (am x').

Lemma NodeArg_cong2 : forall E s, syn_wf s -> forall a a', SoundNode.arg_rel (srel E s) a a' ->
  forall d r L ta, rokdL d L r -> incl (pub_occ_f a') L -> NodeArg s d r a ta ->
  exists ta', NodeArg s d r a' ta' /\ DerivArg E d ta ta'.
Proof.
  intros E s W a a' H. induction H as [x|p|x x' (Sx & Ix & Ix')|x b b' H IH]; intros d r L ta RL In1 NA.
  - exists ta. split; [exact NA|]. inversion NA; subst. constructor.
  - exists ta. split; [exact NA|]. inversion NA; subst. constructor.
  - inversion NA as [| | |d0 r0 a0 tau Rk Cm]; subst. cbn [pub_occ_f] in In1.
    set (tau' := ext_ren r (am x') (bound_of r L)).
    assert (Rk' : rokdL d (SS s (aid x')) tau').
    { apply (ext_ren_rokd d L); [exact RL|exact Ix'|]. intros k v G. apply In1. eapply vals_in_vec; eauto. }
    exists (CChild (syn_at s d tau' (aid x'))). split.
    + apply NA_app; [exact Rk'|]. intros y v G. unfold tau', ext_ren. rewrite G. reflexivity.
    + constructor. apply (sim_lift E s x x' W Sx Ix Ix' d tau tau' Rk Rk').
      intros y y' v G G'. rewrite (Cm _ _ G). unfold tau', ext_ren. rewrite G'. reflexivity.
  - inversion NA as [| |d0 r0 x0 b0 t0 Hb|]; subst. cbn [pub_occ_f] in In1.
    destruct (IH (S d) (upd r x (B d)) (x :: L) t0) as (t0' & NA' & D').
    + destruct RL as [Inj Fr]. split.
      * intros y z Hy Hz. unfold upd. destruct (y =? x) eqn:E1; destruct (z =? x) eqn:E2; intros Eq.
        -- apply N.eqb_eq in E1, E2. congruence.
        -- destruct Hz as [Hz|Hz]; [apply N.eqb_neq in E2; congruence|]. pose proof (Fr _ Hz) as T. unfold fr, is_B, B in *. lia.
        -- destruct Hy as [Hy|Hy]; [apply N.eqb_neq in E1; congruence|]. pose proof (Fr _ Hy) as T. unfold fr, is_B, B in *. lia.
        -- destruct Hy as [Hy|Hy]; [apply N.eqb_neq in E1; congruence|]. destruct Hz as [Hz|Hz]; [apply N.eqb_neq in E2; congruence|]. apply Inj; assumption.
      * intros y Hy. unfold upd. destruct (y =? x) eqn:E1; [right; unfold B; lia|].
        destruct Hy as [Hy|Hy]; [apply N.eqb_neq in E1; congruence|]. apply fr_S_mono. apply Fr. exact Hy.
    + intros y Hy. destruct (y =? x) eqn:E1; [left; apply N.eqb_eq in E1; congruence|]. right. apply In1.
      apply filter_In. split; [exact Hy|]. rewrite E1. reflexivity.
    + exact Hb.
    + exists (CBind t0'). split; constructor; assumption.
Qed.

Lemma NodeT_cong2 : forall E s n n' rho t, syn_wf s -> SoundNode.node_rel (srel E s) n n' -> rokL (slots n') rho ->
  NodeT s rho n t -> exists t', NodeT s rho n' t' /\ Deriv E 0 t t'.
Proof.
  intros E s n n' rho t W [Ev F] R (args & NA & ->).
  assert (RL : rokdL 0 (slots n') rho) by (apply rokdL_0; exact R).
  assert (In1 : forall a, In a (nargs n') -> incl (pub_occ_f a) (slots n')).
  { intros a Ha y Hy. eapply pub_occ_f_in; eauto. }
  assert (G : exists args', Forall2 (NodeArg s 0 rho) (nargs n') args' /\ DerivArgs E 0 args args').
  { clear Ev. revert args NA. induction F as [|a a' l l' Ha F IH]; intros args NA.
    - inversion NA; subst. exists []. split; constructor.
    - inversion NA as [|a0 ta l0 ltl Hta Htl]; subst.
      destruct (NodeArg_cong2 E s W a a' Ha 0 rho (slots n') ta RL (In1 a' (or_introl eq_refl)) Hta) as (ta' & N1 & D1).
      destruct (IH (fun a0 H0 => In1 a0 (or_intror H0)) ltl Htl) as (tl' & N2 & D2).
      exists (ta' :: tl'). split; constructor; assumption. }
  destruct G as (args' & NA' & DA). exists (CT (nvar n') args'). split.
  - exists args'. split; [exact NA'|reflexivity].
  - rewrite Ev. apply D_cong. exact DA.
Qed.

(* the core of the handle statement, in the state after the allocation: p ~alpha~ en2, the children
   of en2 are extended to those of en3 (synify), en3 is renamed by theta to the syntactic node of
   the new class i, and f2o inverts theta *)
Lemma handle_core : forall E z i c p en2 en3 theta f2o, syn_wf z -> get_class z i = Ok c ->
  equiv_by (fun x => x) p en2 -> SoundNode.node_rel (srel E z) en2 en3 -> equiv_by theta en3 (c_syn c) ->
  (forall v, In v (slots en3) -> get f2o (theta v) = Some v) ->
  nsound E z {| aid := i; am := f2o |} p.
Proof.
  intros E z i c p en2 en3 theta f2o W Hc Q1 Q2 Q3 Inv sg rho t [Is Ns] Rr Ag Jn NT. cbn [aid am] in *.
  rewrite (SS_class _ _ _ Hc) in Is, Ns.
  pose proof (proj2 (NodeT_equiv z p en2 (fun x => x) rho t Q1) NT) as NT2.
  destruct Q3 as (Sk3 & I3 & P3). pose proof (equiv_pub _ _ _ P3) as Pub3.
  assert (Th : forall v, In v (slots en3) -> In (theta v) (slots (c_syn c))).
  { intros v Hv. apply slots_spec. rewrite Pub3. apply in_map. apply slots_spec. exact Hv. }
  assert (Rv : forall v, In v (slots en3) -> sg (theta v) = rho v).
  { intros v Hv. apply Ag. apply Inv. exact Hv. }
  assert (R3 : rokL (slots en3) rho).
  { split.
    - intros v v' Hv Hv' Eq. rewrite <- (Rv _ Hv), <- (Rv _ Hv') in Eq.
      apply Is in Eq; [|apply Th; exact Hv|apply Th; exact Hv']. apply I3; [apply slots_spec; exact Hv|apply slots_spec; exact Hv'|exact Eq].
    - intros v Hv. rewrite <- (Rv _ Hv). apply Ns. apply Th. exact Hv. }
  destruct (NodeT_cong2 E z en2 en3 rho t W Q2 R3 NT2) as (t3 & NT3 & D).
  assert (NTs : NodeT z sg (c_syn c) t3).
  { apply (proj2 (NodeT_equiv z en3 (c_syn c) theta sg t3 (conj Sk3 (conj I3 P3)))).
    apply (NodeT_rho_ext z en3 rho); [|exact NT3]. intros v Hv. symmetry. apply Rv. exact Hv. }
  rewrite <- (NodeT_syn z i c sg t3 W Hc NTs). apply D_sym. exact D.
Qed.

(* ---------------------------------------------------------------------- *)
(* the three node-level facts of handle_core                                *)

(* en3 and the syntactic node: apply_slotmap_fresh with the inverse of bijection_from_fresh_to *)
Lemma fresh_rename_equiv : forall n c f2o c2 synf, Forall (fun b => b < c) (binders n) ->
  bijection_from_fresh_to (slots n) c = (f2o, c2) -> apply_slotmap_fresh false (inv f2o) n c2 = (synf, c2) ->
  equiv_by (asm_g (inv f2o) true) n synf /\
  (forall v, In v (slots n) -> get f2o (asm_g (inv f2o) true v) = Some v).
Proof.
  intros n c f2o c2 synf Hb E ASF. set (o2f := inv f2o) in *.
  pose proof (slots_sorted n) as W.
  destruct (fresh_spec _ _ _ _ W E) as (F1 & F2). fold o2f in F1, F2.
  destruct (bff_props _ _ _ _ W E) as [Wf _].
  assert (K : forall x, In x (pub_occ n) -> get o2f x <> None).
  { intros x Hx. apply slots_spec in Hx. destruct (F1 x Hx) as (y & -> & _). discriminate. }
  rewrite (asf_ren o2f n c2 K) in ASF. fold (asm_g o2f) in ASF. inversion ASF as [Es]. clear ASF.
  assert (C1 : inj_on (asm_g o2f false) (binders n)) by (intros x y _ _ E'; exact E').
  assert (C2 : forall x b, In x (pub_occ n) -> In b (binders n) -> asm_g o2f true x <> asm_g o2f false b).
  { intros x b Hx Hb'. unfold asm_g. apply slots_spec in Hx. destruct (F1 x Hx) as (y & -> & Hy & _).
    pose proof (proj1 (Forall_forall _ _) Hb b Hb') as Tb. cbv beta in Tb. lia. }
  assert (C3 : inj_on (asm_g o2f true) (pub_occ n)).
  { intros x y Hx Hy. unfold asm_g. apply slots_spec in Hx, Hy.
    destruct (F1 x Hx) as (u & Gu & _). destruct (F1 y Hy) as (v & Gv & _). rewrite Gu, Gv. intros ->.
    eapply F2; eauto. }
  split.
  - split; [symmetry; apply ren_skel|]. split; [exact C3|]. symmetry. apply ren_spec; assumption.
  - intros v Hv. destruct (F1 v Hv) as (y & Gy & _). unfold asm_g. rewrite Gy.
    apply get_inverse_sound; assumption.
Qed.

Lemma pub_in_all : forall n x, In x (pub_occ n) -> In x (all_occ n).
Proof.
  intros n x H. apply (Permutation.Permutation_in _ (Permutation.Permutation_sym (occ_partition n))).
  apply in_or_app. left. exact H.
Qed.

(* p and en2 = (refresh_private sh)[bij] for (sh, bij) = wshape p *)
Lemma pre_node_equiv : forall p sh bij c en1 c1 en2, wshape p = Ok (sh, bij) ->
  refresh_private sh c = (Ok en1, c1) -> apply_slotmap false bij en1 = Ok en2 -> c mod 4 = 1 ->
  (forall x, In x (pub_occ p) -> x mod 4 <> 1 \/ x < c) ->
  equiv_by (fun x => x) p en2 /\ binders en2 = binders en1.
Proof.
  intros p sh bij c en1 c1 en2 Hw RP Hap Cm Bp.
  destruct (shape_equiv_by p sh bij Hw) as (th & (Sk & Ith & Pth) & Hth).
  destruct (refresh_private_spec _ _ _ _ RP) as (Sk1 & Bi1 & Pat1).
  assert (M0 : forall x, In x (pub_occ sh) -> x mod 4 <> c mod 4).
  { intros x Hx. rewrite (shape_all_occ_mod4 _ _ _ Hw x (pub_in_all _ _ Hx)), Cm. discriminate. }
  specialize (Pat1 M0).
  assert (Pub1 : pub_occ en1 = pub_occ sh) by (rewrite <- !frees_pattern, Pat1; reflexivity).
  pose proof (apply_slotmap_ren _ _ _ Hap) as Rn.
  pose proof (equiv_pub _ _ _ Pth) as Pubp.
  assert (Pat2 : pattern en2 = map (rename_occ (asm_g bij true)) (pattern en1)).
  { rewrite Rn. apply ren_spec.
    - intros x y _ _ Eq. exact Eq.
    - intros x b Hx Hb. rewrite Pub1 in Hx. unfold asm_g. rewrite (Hth _ Hx).
      assert (Hp : In (th x) (pub_occ p)) by (rewrite Pubp; apply in_map; exact Hx).
      pose proof (proj1 (Forall_forall _ _) Bi1 b Hb) as T. cbv beta in T. destruct (Bp _ Hp); lia. }
  assert (Pat : pattern en2 = pattern p).
  { rewrite Pat2, Pat1, <- Pth. apply map_ext_in. intros [k|x] Hin; cbn [rename_occ]; [reflexivity|].
    f_equal. unfold asm_g. rewrite (Hth x); [reflexivity|]. rewrite <- frees_pattern. apply frees_in. exact Hin. }
  split.
  - split; [|split].
    + rewrite Rn, ren_skel, Sk1. symmetry. exact Sk.
    + intros x y _ _ Eq. exact Eq.
    + rewrite rename_occ_id. symmetry. exact Pat.
  - rewrite Rn, ren_binders. unfold asm_g. apply map_id.
Qed.

(* nodes with the same skeleton and the same pattern: corresponding children have the same id,
   the same keys, and duplicate-free value vectors at the same time *)
Lemma snd_nodup_inj : forall (env : benv) a b i, NoDup (map snd env) -> In (a, i) env -> In (b, i) env -> a = b.
Proof.
  induction env as [|[x j] t IH]; intros a b i N Ha Hb; [destruct Ha|]. cbn [map snd] in N. inversion N as [|j0 l0 Nj Nt]; subst.
  destruct Ha as [Ea|Ha]; destruct Hb as [Eb|Hb].
  - congruence.
  - inversion Ea; subst. exfalso. apply Nj. apply in_map_iff. exists (b, i). split; [reflexivity|exact Hb].
  - inversion Eb; subst. exfalso. apply Nj. apply in_map_iff. exists (a, i). split; [reflexivity|exact Ha].
  - eapply IH; eauto.
Qed.

Lemma key_inj : forall env v v', NoDup (map snd env) -> key env v = key env v' -> v = v'.
Proof.
  intros env v v' N H. unfold key in H.
  destruct (blookup env v) as [i|] eqn:E1; destruct (blookup env v') as [j|] eqn:E2; try discriminate.
  - inversion H; subst j. apply blookup_in in E1, E2. eapply snd_nodup_inj; eauto.
  - inversion H. reflexivity.
Qed.

Definition child_same (x x' : appid) : Prop :=
  aid x' = aid x /\ keys_vec (am x') = keys_vec (am x) /\ (NoDup (values_vec (am x)) -> NoDup (values_vec (am x'))).

Lemma child_same_f : forall a a' env env' k, skel_f a = skel_f a' -> pat_f env k a = pat_f env' k a' ->
  NoDup (map snd env) -> bounded env k -> Forall2 child_same (app_occ_f a) (app_occ_f a').
Proof.
  induction a as [x|x|x b IH|p]; intros a' env env' k Sk P N Bd; destruct a' as [x'|x'|x' b'|p']; try discriminate;
    cbn [app_occ_f]; try constructor.
  - cbn [skel_f] in Sk. injection Sk as Ea Em. cbn [pat_f] in P. split; [symmetry; exact Ea|]. split.
    + unfold keys_vec. apply (f_equal (map fst)) in Em. rewrite !map_map in Em. cbn [fst] in Em. symmetry. exact Em.
    + intros Nd. apply (NoDup_map_inv (key env')). rewrite <- P.
      apply FinFun.Injective_map_NoDup; [|exact Nd]. intros u w. apply key_inj. exact N.
  - constructor.
  - cbn [skel_f] in Sk. injection Sk as Sk. cbn [pat_f] in P. injection P as P.
    apply (IH b' ((x, k) :: env) ((x', k) :: env') (S k) Sk P).
    + cbn [map snd]. constructor; [|exact N]. intros Hin. apply in_map_iff in Hin. destruct Hin as ([y j] & Ej & Hin).
      cbn [snd] in Ej. subst j. apply Bd in Hin. lia.
    + intros y j [Ey|Hy]; [inversion Ey; lia|]. apply Bd in Hy. lia.
Qed.

Lemma app_eq_len : forall {A} (l1 l1' l2 l2' : list A), List.length l1 = List.length l1' ->
  l1 ++ l2 = l1' ++ l2' -> l1 = l1' /\ l2 = l2'.
Proof.
  intros A. induction l1 as [|x t IH]; intros l1' l2 l2' L H; destruct l1' as [|y t']; try discriminate.
  - split; [reflexivity|exact H].
  - cbn [app] in H. injection H as Hx H. injection L as L. destruct (IH _ _ _ L H) as [A1 A2]. subst. split; reflexivity.
Qed.

Lemma child_same_args : forall l l' k, map skel_f l = map skel_f l' -> pat_args k l = pat_args k l' ->
  Forall2 child_same (flat_map app_occ_f l) (flat_map app_occ_f l').
Proof.
  induction l as [|a t IH]; intros l' k Sk P; destruct l' as [|a' t']; try discriminate; cbn [flat_map]; [constructor|].
  cbn [map] in Sk. injection Sk as Sa St. cbn [pat_args] in P.
  assert (Nb : nbind_f a = nbind_f a') by (rewrite <- (nbind_skel a), Sa, nbind_skel; reflexivity).
  rewrite Nb in P. apply app_eq_len in P; [|apply pat_f_len; exact Sa]. destruct P as [Pa Pt].
  apply Forall2_app; [|eapply IH; eauto].
  apply (child_same_f a a' [] [] k Sa Pa); [constructor|intros y i []].
Qed.

Lemma child_same_node : forall n n', skel n = skel n' -> pattern n = pattern n' ->
  Forall2 child_same (app_occ n) (app_occ n').
Proof.
  intros n n' Sk P. unfold skel in Sk. injection Sk as _ Sk. exact (child_same_args _ _ 0 Sk P).
Qed.

(* fill_fresh extends an injective map injectively (fresh slots have residue 1 and are above the counter) *)
Definition vbound (c : N) (m : slotmap) : Prop := forall k v, get m k = Some v -> v mod 4 <> 1 \/ v < c.

Lemma fill_fresh_ext : forall l m s m' s', fill_fresh l m s = Ok (m', s') -> ectr s mod 4 = 1 ->
  injective m -> vbound (ectr s) m ->
  (forall k v, get m k = Some v -> get m' k = Some v) /\ injective m' /\ vbound (ectr s') m' /\
  ectr s' mod 4 = 1 /\ ectr s <= ectr s'.
Proof.
  induction l as [|x t IH]; intros m s m' s' H Cm Im Bm; cbn [fill_fresh] in H.
  - inversion H; subst. repeat split; auto. lia.
  - unfold contains_key in H. destruct (get m x) as [v0|] eqn:G; [exact (IH _ _ _ _ H Cm Im Bm)|].
    apply mbind_inv in H. destruct H as (f & s1 & H1 & H). inversion H1; subst f s1; clear H1.
    destruct (IH _ _ _ _ H) as (Kp & Im' & Bm' & Cm' & Le).
    + cbn [Model.ctr set_ctr]. lia.
    + intros k1 k2 v. rewrite !get_insert_nw. destruct (k1 =? x) eqn:E1; destruct (k2 =? x) eqn:E2; neq; intros G1 G2.
      * congruence.
      * inversion G1; subst v. destruct (Bm _ _ G2); lia.
      * inversion G2; subst v. destruct (Bm _ _ G1); lia.
      * eapply Im; eauto.
    + intros k v. rewrite get_insert_nw. cbn [Model.ctr set_ctr]. destruct (k =? x); intros Gk.
      * inversion Gk; subst v. right. lia.
      * destruct (Bm _ _ Gk); [left; assumption|right; lia].
    + split; [|split; [exact Im'|split; [exact Bm'|split; [exact Cm'|cbn [Model.ctr set_ctr] in Le; lia]]]].
      intros k v Gk. apply Kp. rewrite get_insert_nw. destruct (k =? x) eqn:E1; neq; [congruence|exact Gk].
Qed.

Definition child_ext (x x' : appid) : Prop :=
  aid x' = aid x /\ (forall k v, get (am x) k = Some v -> get (am x') k = Some v) /\ injective (am x').

Lemma mapM_synify_rel : forall l s r s', mapM synify_app_id l s = Ok (r, s') -> ectr s mod 4 = 1 ->
  Forall (fun x => injective (am x) /\ vbound (ectr s) (am x)) l -> Forall2 child_ext l r.
Proof.
  induction l as [|a t IH]; intros s r s' H Cm F; cbn [mapM] in H.
  - inversion H; subst. constructor.
  - apply mbind_inv in H. destruct H as (a' & s1 & H1 & H).
    apply mbind_inv in H. destruct H as (r' & s2 & H2 & H). inversion H; subst r s2; clear H.
    inversion F as [|a0 t0 [Ia Ba] Ft]; subst.
    unfold synify_app_id in H1. apply bind_reads_inv in H1. destruct H1 as (ss & _ & H1).
    apply mbind_inv in H1. destruct H1 as (m' & s1' & H1 & H1'). inversion H1'; subst a' s1'; clear H1'.
    change (fill_fresh ss (am a) s = Ok (m', s1)) in H1.
    destruct (fill_fresh_ext _ _ _ _ _ H1 Cm Ia Ba) as (Kp & Im' & _ & Cm1 & Le).
    constructor.
    + split; [reflexivity|]. split; [exact Kp|exact Im'].
    + apply (IH _ _ _ H2 Cm1). revert Ft. apply Forall_impl. intros b [Ib Bb]. split; [exact Ib|].
      intros k v Gk. destruct (Bb _ _ Gk); [left; assumption|right; lia].
Qed.

(* an invocation and an extension of its map are related: the new keys are redundant slots *)
Lemma ext_sim : forall E z x x', eg_inv z -> Sound E z -> covers z x -> child_ext x x' -> srel E z x x'.
Proof.
  intros E z x x' I S (c & Hc & Ix & Sx) (Ea & Kp & Ix'). split; [|split; assumption].
  intros sg tau Rs Rt C. rewrite Ea in Rt |- *.
  apply (Sound_redundant E z (aid x) c S (ei_cls z I) Hc sg tau Rs Rt). cbn [aid am cidapp].
  intros y y' v Hy Hy'. apply identity_get in Hy. destruct Hy as [-> Hv]. apply identity_get in Hy'. destruct Hy' as [-> _].
  pose proof (Sx v Hv) as T. destruct (get (am x) v) as [w|] eqn:Gw; [|congruence].
  exact (C v v w Gw (Kp _ _ Gw)).
Qed.

(* ====================================================================== *)
(* 8. the handle returned by the miss branch denotes the inserted node     *)
(* ====================================================================== *)

Lemma vals_all_occ_f : forall a x v, In x (app_occ_f a) -> In v (values_vec (am x)) -> In v (all_occ_f a).
Proof.
  induction a as [y|y|y b IH|q]; intros x v Hx Hv; cbn [app_occ_f all_occ_f] in *.
  - destruct Hx.
  - destruct Hx as [<-|[]]. exact Hv.
  - right. eapply IH; eauto.
  - destruct Hx.
Qed.

Lemma vals_all_occ : forall n x v, In x (app_occ n) -> In v (values_vec (am x)) -> In v (all_occ n).
Proof.
  intros n x v Hx Hv. unfold app_occ in Hx. apply in_flat_map in Hx. destruct Hx as (a & Ha & Hx).
  unfold all_occ. apply in_flat_map. exists a. split; [exact Ha|]. eapply vals_all_occ_f; eauto.
Qed.

Lemma covers_classes : forall s s' a, classes s' = classes s -> covers s a -> covers s' a.
Proof. intros s s' a C (c & Hc & R). exists c. split; [rewrite (get_class_classes _ _ _ C); exact Hc|exact R]. Qed.

Lemma Forall2_Forall_l : forall {A C} (P : A -> Prop) (R : A -> C -> Prop) l r,
  Forall P l -> Forall2 R l r -> Forall2 (fun x y => P x /\ R x y) l r.
Proof.
  intros A C P R l r F H. induction H as [|x y l r Hxy H IH]; [constructor|].
  inversion F; subst. constructor; [split; assumption|apply IH; assumption].
Qed.

Lemma Forall2_Forall_r : forall {A C} (P : A -> Prop) (Q : C -> Prop) (R : A -> C -> Prop) l r,
  (forall x y, P x -> R x y -> Q y) -> Forall P l -> Forall2 R l r -> Forall Q r.
Proof.
  intros A C P Q R l r HQ F H. induction H as [|x y l r Hxy H IH]; [constructor|].
  inversion F; subst. constructor; [eapply HQ; eauto|apply IH; assumption].
Qed.

Section AddNewHandle.
  Variable XP : egraph -> Prop.
  Hypothesis H_rebuild : forall E fuel s x s', inv3 s -> syn_wf s -> mod4_ok s -> XP s -> Sound E s ->
    rebuild fuel s = Ok (x, s') -> Sound E s' /\ XP s'.

  Theorem nsound_add_internal_new : forall E t p s a s', inv3 s -> syn_wf s -> mod4_ok s -> Sound E s ->
    kids_exist s -> ectr s mod 4 = 1 -> (forall s5, new_walk t s s5 -> XP s5) ->
    wshape p = Ok t -> lookup_internal s t = Ok None -> add_internal t s = Ok (a, s') ->
    Forall (covers s) (app_occ p) -> Forall (fun x => wf (am x)) (app_occ p) ->
    (forall x, In x (pub_occ p) -> x mod 4 <> 1 \/ x < ectr s) ->
    nsound E s' a p.
  Proof.
    intros E [sh_t bij_t] p s a s' I3 W M4s S K Cm HXP Hw Hlk H Cv Wfp Bp.
    destruct (add_new_main XP H_rebuild E _ s a s' I3 W M4s S K Cm HXP Hlk H)
      as (en1 & c1 & en2 & en3 & s3 & f2o & c2 & synf & z & cn & RP & Le1 & H2 & H3 & Hb & BF & ASF & Cz & Sy & E2z & Hnew & Iz & Wz & Sz & Ezs & I6 & S6 & Sm & _).
    cbn [fst snd] in RP, H2.
    set (i := N.of_nat (lc s3)) in *.
    pose proof (proj1 (proj1 Iz)) as EIz.
    (* p and en2 *)
    destruct (pre_node_equiv p sh_t bij_t (ectr s) en1 c1 en2 Hw RP H2 Cm Bp) as [Q1 Bi2].
    pose proof Q1 as (Sk1 & _ & P1). rewrite rename_occ_id in P1.
    pose proof (child_same_node p en2 Sk1 P1) as CS.
    (* the children of en2 in z *)
    pose proof (cls_synify_enode _ _ _ _ H3) as [C13 _]. cbn [classes set_ctr] in C13.
    assert (Cvz : forall x, covers s x -> covers z x).
    { intros x Cx. apply (covers_ext0 _ _ _ E2z). apply (covers_classes s); [cbn [classes set_ctr]; exact C13|exact Cx]. }
    assert (Cv2 : Forall (fun x2 => covers z x2) (app_occ en2)).
    { apply (Forall2_Forall_r (fun x => covers s x /\ wf (am x)) _ child_same (app_occ p) (app_occ en2)); [| |exact CS].
      - intros x x2 [Cx Wx] (Ea & Ek & Nd). destruct (Cvz x Cx) as (c & Hc & Ix & Sx).
        assert (Wx2 : wf (am x2)) by (apply wf_keys; rewrite Ek; apply wf_keys; exact Wx).
        exists c. rewrite Ea. split; [exact Hc|]. split.
        + apply (is_bijection_injective _ Wx2). unfold is_bijection. apply nodupb_NoDup. apply Nd.
          apply nodupb_NoDup. apply (is_bijection_injective _ Wx). exact Ix.
        + intros k Hk. apply get_in_keys. rewrite Ek. apply get_in_keys. apply Sx. exact Hk.
      - apply Forall_forall. intros x Hx. split; [exact (proj1 (Forall_forall _ _) Cv x Hx)|exact (proj1 (Forall_forall _ _) Wfp x Hx)]. }
    destruct (refresh_private_spec _ _ _ _ RP) as (_ & Bi1 & _).
    assert (Vb2 : Forall (fun x2 => injective (am x2) /\ vbound (ectr (set_ctr s c1)) (am x2)) (app_occ en2)).
    { apply Forall_forall. intros x2 Hx2. destruct (proj1 (Forall_forall _ _) Cv2 x2 Hx2) as (c & _ & Ix2 & _).
      split; [exact Ix2|]. intros k v Gk. cbn [Model.ctr set_ctr].
      pose proof (vals_all_occ en2 x2 v Hx2 (vals_in_vec _ _ _ Gk)) as Hall.
      apply (Permutation.Permutation_in _ (occ_partition en2)) in Hall. apply in_app_or in Hall. destruct Hall as [Hp|Hp].
      - rewrite (equiv_pub _ _ _ (proj2 (proj2 Q1))), map_id in Hp. destruct (Bp _ Hp); [left; assumption|right; lia].
      - apply prv_binders in Hp. rewrite Bi2 in Hp. pose proof (proj1 (Forall_forall _ _) Bi1 v Hp) as T. cbv beta in T. right. lia. }
    (* en2 and en3 *)
    pose proof (refresh_private_step sh_t (ectr s)) as St1. rewrite RP in St1. cbn [snd] in St1.
    assert (Cm1 : ectr (set_ctr s c1) mod 4 = 1) by (cbn [Model.ctr set_ctr]; rewrite (ctr_step_mod _ _ St1); exact Cm).
    assert (Q2 : SoundNode.node_rel (srel E z) en2 en3).
    { unfold synify_enode in H3. apply mbind_inv in H3. destruct H3 as (l & s1 & H3 & H3'). inversion H3'; subst en3 s1; clear H3'.
      apply set_apps_rel.
      pose proof (mapM_synify_rel _ _ _ _ H3 Cm1 Vb2) as F2.
      pose proof (Forall2_Forall_l _ _ _ _ Cv2 F2) as F3. revert F3. apply Forall2_imp.
      intros x x' [Cx Ex]. exact (ext_sim E z x x' EIz Sz Cx Ex). }
    (* en3 and the syntactic node *)
    destruct (fresh_rename_equiv en3 (ectr s3) f2o c2 synf Hb BF ASF) as [Q3 Inv3].
    rewrite <- Sy in Q3.
    pose proof (handle_core E z i cn p en2 en3 _ f2o Wz Hnew Q1 Q2 Q3 Inv3) as N1.
    pose proof (nsound_ext E z s' _ p Ezs N1) as N2.
    (* semify *)
    unfold semify_app_id, class_slots in Sm. cbn [aid am] in Sm.
    destruct (get_class s' i) as [c6|] eqn:Hc6; [|discriminate]. cbn [bind] in Sm. inversion Sm; subst a; clear Sm.
    destruct (bff_props _ _ _ _ (slots_sorted en3) BF) as [Wf2o If2o].
    apply (nsound_restrict E s' i f2o c6 p (proj1 (proj1 I6)) S6 Hc6 Wf2o If2o); [|exact N2].
    intros x Hx. rewrite (SS_ext _ _ _ Ezs), (SS_class _ _ _ Hnew), Sy in Hx.
    pose proof (fresh_rename_spec en3 (ectr s3) f2o c2 Hb BF) as R. cbv zeta in R. rewrite ASF in R. cbn [fst snd] in R.
    destruct R as (_ & _ & _ & Sl & _). rewrite Sl in Hx.
    apply values_spec in Hx; [|apply inverse_wf]. destruct Hx as (k & Gk).
    apply get_inverse_sound in Gk; [|assumption]. congruence.
  Qed.
End AddNewHandle.

Print Assumptions syn_wf_add_internal.
Print Assumptions syn_wf_eg_add.
Print Assumptions syn_wf_add_expr.
Print Assumptions Sound_add_internal_new.
Print Assumptions nsound_add_internal_new.
Check Sound_add_internal_new.
Check nsound_add_internal_new.
