(* EGraph/SoundBase.v — C01: the interface of the union core (`ui_spec_sound`) and the steps that
   keep the classes and the union-find table (`cuR`), shared by the Sound*.v files. *)
From SE Require Import Slots.SlotMapFacts Group.GroupSound Lang.LangFacts Lang.ShapeFacts Lang.RenameFacts
  EGraph.Model EGraph.ModelFacts EGraph.ModelMachine EGraph.UnionFindFacts EGraph.InvariantFacts
  EGraph.UnionInvariantFacts EGraph.AddCoversFacts EGraph.MonotoneFacts EGraph.SoundFacts EGraph.SoundUnion EGraph.SoundSyn.
From SE Require Import Sem.Deriv Sem.DerivFacts Sem.AlgebraFacts Sem.EgMachine Explain.CheckerFacts.
Require Import ZArith Lia ZifyBool ZifyN ZifyNat.
Ltac Zify.zify_post_hook ::= Z.div_mod_to_equations.

Local Notation "a ** b" := (compose_partial a b) (at level 40, left associativity).
Local Notation inv := inverse_nocheck.
Local Notation ectr := Model.ctr.

(* the interface of the union core: the statement proved in SoundUnion.v (same body as
   SoundUnion.ui_spec_sound: with the structural invariant mod4_ok of the pre-state) *)
Definition ui_spec_sound (E : equations) (ui : appid -> appid -> M bool) : Prop :=
  forall l r s b s', inv3 s -> mod4_ok s -> Sound E s -> covers s l -> covers s r -> sim E s l r ->
    ui l r s = Ok (b, s') -> Sound E s'.

(* DISCHARGED: the union core (SoundUnion.sound_union_internal_closed) *)
Theorem ui_spec_sound_closed : forall E fuel, ui_spec_sound E (union_internal fuel).
Proof. exact sound_union_internal_closed. Qed.

(* mod4_ok along the steps: the p4 lemmas (pres R4) of SoundUnion.v *)
Lemma m4_pc_congruence : forall a b s x s', mod4_ok s -> pc_congruence a b s = Ok (x, s') -> mod4_ok s'.
Proof. intros a b s x s' M H. exact (p4_pc_congruence a b s x s' H M). Qed.
Lemma m4_uint : forall l r s x s', mod4_ok s -> uint l r s = Ok (x, s') -> mod4_ok s'.
Proof. intros l r s x s' M H. exact (p4_uint l r s x s' H M). Qed.
Lemma m4_raw_remove : forall id sh s x s', mod4_ok s -> raw_remove_from_class id sh s = Ok (x, s') -> mod4_ok s'.
Proof. intros id sh s x s' M H. exact (p4_raw_remove id sh s x s' H M). Qed.
Lemma m4_handle_shrink : forall src s x s', mod4_ok s -> handle_shrink_in_upwards_merge src s = Ok (x, s') -> mod4_ok s'.
Proof. intros src s x s' M H. exact (p4_handle_shrink src s x s' H M). Qed.
Lemma m4_synify_app_id : forall a s x s', mod4_ok s -> synify_app_id a s = Ok (x, s') -> mod4_ok s'.
Proof. intros a s x s' M H. exact (p4_synify_app_id a s x s' H M). Qed.
Lemma m4_handle_pending : forall sh ty s x s', mod4_ok s -> handle_pending sh ty s = Ok (x, s') -> mod4_ok s'.
Proof. intros sh ty s x s' M H. exact (p4_handle_pending sh ty s x s' H M). Qed.
Lemma m4_rebuild : forall fuel s x s', mod4_ok s -> rebuild fuel s = Ok (x, s') -> mod4_ok s'.
Proof. intros fuel s x s' M H. exact (p4_rebuild fuel s x s' H M). Qed.
Lemma m4_set_pending : forall s p, mod4_ok s -> mod4_ok (set_pending s p).
Proof. intros s p M. apply (R4_same s (set_pending s p)); [reflexivity|reflexivity|reflexivity|exact M]. Qed.

(* steps that keep the classes and the union-find table *)
Definition cuR (s s' : egraph) : Prop := classes s' = classes s /\ unionfind s' = unionfind s.
Lemma cuR_refl : forall s, cuR s s.
Proof. intros s. split; reflexivity. Qed.
Lemma cuR_trans : forall a b c, cuR a b -> cuR b c -> cuR a c.
Proof. intros a b c [A1 A2] [B1 B2]. split; congruence. Qed.
Lemma cu_fresh : pres cuR fresh.
Proof. intros s x s' H. inversion H. split; reflexivity. Qed.
Lemma cu_with_ctr : forall A (f : N -> A * N), pres cuR (with_ctr f).
Proof. intros A f s x s' H. apply with_ctr_spec in H. subst s'. split; reflexivity. Qed.
Lemma cu_synify_app_id : forall a, pres cuR (synify_app_id a).
Proof. apply (pres_synify_app_id cuR cuR_refl cuR_trans cu_fresh). Qed.
Lemma cu_synify_enode : forall n, pres cuR (synify_enode n).
Proof. apply (pres_synify_enode cuR cuR_refl cuR_trans cu_fresh). Qed.
Lemma cu_fill_fresh : forall l m, pres cuR (fill_fresh l m).
Proof. apply (pres_fill_fresh cuR cuR_refl cuR_trans cu_fresh). Qed.
Lemma cu_pc_congruence : forall a b, pres cuR (pc_congruence a b).
Proof. apply (pres_pc_congruence cuR cuR_refl cuR_trans); intros; apply cu_with_ctr. Qed.

Lemma Sound_cuR : forall E s s', cuR s s' -> Sound E s -> Sound E s'.
Proof. intros E s s' [A C]. apply Sound_frame; [exact A|]. intros i e H. left. rewrite <- C. exact H. Qed.
Lemma syn_wf_cuR : forall s s', cuR s s' -> syn_wf s -> syn_wf s'.
Proof. intros s s' [A _]. apply syn_wf_classes. exact A. Qed.

