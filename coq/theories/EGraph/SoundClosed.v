(* EGraph/SoundClosed.v — C01: the last semantic fact (handle_congruence) discharged; `equality_sound_all`.

   The run invariant KS: every stored entry (key sh, source src) satisfies `nc s (c_syn src) sh`
   (EGraph/NodeCong.v): the key is obtained from the syntactic node of its source by renamings and by
   replacing children by eg-equal ones.  KS is kept by every step: `eg_eq` on covered invocations is
   monotone (EGraph/MonotoneFacts.v), the union core only moves entries (EGraph/EntriesPersist.v), the
   re-added entry of handle_pending is the shape of a node nc-related to the old key
   (EGraph/KidEqFacts.v).  At the call of handle_congruence, `shape` does not distinguish nc-related nodes
   (EGraph/ShapeCong.v), the key of the hit is a fixed point of `shape` (HashconsShape.shape_idem_nodup),
   hence it is the shape of the syntactic node of its source: the two weak shapes composed by
   pc_congruence are equal (the local premise of SoundCong.HC_sim_local). *)
From SE Require Import Slots.SlotMapFacts Group.GroupSound Lang.LangFacts Lang.ShapeFacts Lang.RenameFacts
  EGraph.Model EGraph.ModelFacts EGraph.ModelMachine EGraph.UnionFindFacts EGraph.InvariantFacts
  EGraph.UnionInvariantFacts EGraph.AddCoversFacts EGraph.MonotoneFacts EGraph.SoundFacts EGraph.SoundUnion EGraph.SoundSyn EGraph.SoundNode EGraph.SoundStruct EGraph.NodePass EGraph.SoundBase EGraph.SoundAddNew EGraph.SoundVals EGraph.SoundAddExpr EGraph.SoundPending.
From SE Require EGraph.SoundCong.
From SE Require Import EGraph.SoundReadd EGraph.KidsCov EGraph.SoundRebuild EGraph.SoundFinal.
From SE Require Import EGraph.HashconsShape EGraph.NodeCong EGraph.KidEqFacts EGraph.ShapeCong EGraph.EntriesPersist EGraph.SynNodup.
From SE Require Import Sem.Deriv Sem.DerivFacts Sem.AlgebraFacts Sem.EgMachine Explain.CheckerFacts.
Require Import ZArith Lia ZifyBool ZifyN ZifyNat.
Ltac Zify.zify_post_hook ::= Z.div_mod_to_equations.

Local Notation "a ** b" := (compose_partial a b) (at level 40, left associativity).
Local Notation inv := inverse_nocheck.
Local Notation ectr := Model.ctr.

(* ====================================================================== *)
(* 1. the invariants                                                       *)
(* ====================================================================== *)

Definition KS (s : egraph) : Prop :=
  forall sh src, has_entry s sh src -> exists csrc, get_class s src = Ok csrc /\ nc s (c_syn csrc) sh.

Definition SC2 (s : egraph) : Prop := syn_cov s /\ SN s.
Definition KC2 (s : egraph) : Prop := kids_cov s /\ stored2 s /\ KS s.

  (* ---------------------------------------------------------------------- *)
  (* 2. `shape` does not distinguish nc-related nodes                       *)

  Lemma nc_shape : forall s n m t, eg_inv s -> nc s n m -> shape s n = Ok t -> exists b, shape s m = Ok (fst t, b).
  Proof.
    intros s n m t Hs H Hn. induction H as [|m g H IH (G1 & G2 & G3)|m l H IH F].
    - destruct t as [sh b]. exists b. exact Hn.
    - destruct IH as [b Hm]. destruct (shape_ren s g m (fst t, b) G1 G2 G3 Hm) as [b' Hr]. exists b'. exact Hr.
    - destruct IH as [b Hm]. destruct (shape_kid_eq s m l (fst t, b) Hs F Hm) as [b' Hr]. exists b'. exact Hr.
  Qed.

  Lemma kid_eq_mext : forall s s' a b, mext s s' -> kid_eq s a b -> kid_eq s' a b.
  Proof.
    intros s s' a b [E M] (Ca & Cb & H). split; [eapply covers_ext; eauto|]. split; [eapply covers_ext; eauto|].
    apply M; assumption.
  Qed.
  Lemma kid_eq_mext0 : forall s s' a b, mext0 s s' -> kid_eq s a b -> kid_eq s' a b.
  Proof.
    intros s s' a b [E M] (Ca & Cb & H). split; [eapply covers_ext0; eauto|]. split; [eapply covers_ext0; eauto|].
    apply M; assumption.
  Qed.

  (* the generic step: invocations stay eg-equal, syntactic nodes persist, the stored (key, source) pairs
     are old ones or satisfy the invariant *)
  Lemma KS_step : forall s s', (forall a b, kid_eq s a b -> kid_eq s' a b) ->
    (forall i c, get_class s i = Ok c -> exists c', get_class s' i = Ok c' /\ c_syn c' = c_syn c) ->
    (forall sh src, has_entry s' sh src -> has_entry s sh src \/
       exists csrc, get_class s' src = Ok csrc /\ nc s' (c_syn csrc) sh) ->
    KS s -> KS s'.
  Proof.
    intros s s' KM CS EN K sh src He. destruct (EN sh src He) as [Ho|Hn]; [|exact Hn].
    destruct (K sh src Ho) as (csrc & Hc & Hnc). destruct (CS _ _ Hc) as (c' & Hc' & Es).
    exists c'. split; [exact Hc'|]. rewrite Es. exact (nc_mono s s' _ _ KM Hnc).
  Qed.

  Lemma ext_syn : forall s s', ext s s' -> forall i c, get_class s i = Ok c -> exists c', get_class s' i = Ok c' /\ c_syn c' = c_syn c.
  Proof. intros s s' (_ & _ & E) i c Hc. destruct (E i c Hc) as (c' & Hc' & _ & Es). eauto. Qed.
  Lemma ext0_syn : forall s s', ext0 s s' -> forall i c, get_class s i = Ok c -> exists c', get_class s' i = Ok c' /\ c_syn c' = c_syn c.
  Proof. intros s s' (_ & E) i c Hc. destruct (E i c Hc) as (c' & Hc' & _ & Es). eauto. Qed.

  (* a step of the pass (eg_inv2 kept, `mext`) whose entries are old entries *)
  Lemma KS_mext_EP : forall s s', mext s s' -> EP s s' -> KS s -> KS s'.
  Proof.
    intros s s' X P K. apply (KS_step s s'); [intros a b; apply kid_eq_mext; exact X|apply ext_syn; exact (proj1 X)| |exact K].
    intros sh src He. left. exact (P sh src He).
  Qed.

  (* ---------------------------------------------------------------------- *)
  (* 3. the call site                                                        *)

  Lemma pre_shape_found : forall s n p, eg_inv s -> pre_shape s n = Ok p ->
    exists N, find_enode s n = Ok N /\ pre_shape s N = Ok p.
  Proof.
    intros s n p Hs P. unfold pre_shape in P. destruct (find_enode s n) as [N|] eqn:F; cbn [bind] in P; [|discriminate].
    exists N. split; [reflexivity|]. unfold pre_shape. rewrite (proj1 (find_enode_idem s n N (ei_uf _ Hs) F)). exact P.
  Qed.

  Theorem HC_shapes : forall s src pc1 sh pc2 w1 w2, inv3 s -> SN s -> KS s ->
    pc_from_src_id s src = Ok pc1 -> shape s (fst pc1) = Ok sh -> pc_from_shape s (fst sh) = Ok pc2 ->
    wshape (fst pc1) = Ok w1 -> wshape (fst pc2) = Ok w2 -> fst w1 = fst w2.
  Proof.
    intros s src pc1 sh pc2 w1 w2 I3 Sn K P1 Hsh P2 W1 W2. pose proof (proj1 (proj1 I3)) as Hs.
    destruct (pc_from_src_spec _ _ _ P1) as (c1 & Hc1 & PS1 & _).
    destruct (pre_shape_found s _ _ Hs PS1) as (N1 & F1 & PN1).
    pose proof (pre_shape_idem s _ N1 _ Hs F1 PN1) as Id1.
    (* pc_idem: sh = w1 *)
    assert (E1 : sh = w1).
    { unfold shape in Hsh. rewrite Id1 in Hsh. cbn [bind] in Hsh. rewrite W1 in Hsh. inversion Hsh. reflexivity. }
    subst w1.
    (* the key is a fixed point of shape *)
    assert (SN1 : shape s N1 = Ok sh) by (unfold shape; rewrite PN1; cbn [bind]; exact W1).
    assert (ND : NoDup (binders N1)) by (rewrite (find_enode_binders _ _ _ F1); exact (Sn _ _ Hc1)).
    destruct sh as [k bk]. destruct (shape_idem_nodup s _ N1 k bk Hs F1 ND SN1) as [b2 Fix]. cbn [fst] in *.
    (* the hit entry *)
    unfold pc_from_shape in P2. destruct (na_get (hashcons s) k) as [i2|]; [|discriminate].
    destruct (get_class s i2) as [c2|] eqn:Hc2; cbn [bind] in P2; [|discriminate].
    destruct (na_get (c_nodes c2) k) as [[bj src2]|] eqn:G; [|discriminate].
    apply na_get_in in G.
    destruct (K k src2 (ex_intro _ i2 (ex_intro _ c2 (ex_intro _ bj (conj Hc2 G))))) as (csrc & Hcs & Hnc).
    destruct (pc_from_src_spec _ _ _ P2) as (c' & Hc' & PS2 & _). rewrite Hcs in Hc'. inversion Hc'; subst c'.
    assert (S2 : shape s (c_syn csrc) = Ok w2) by (unfold shape; rewrite PS2; cbn [bind]; exact W2).
    destruct (nc_shape s _ _ _ Hs Hnc S2) as [b Hk]. rewrite Fix in Hk. inversion Hk. reflexivity.
  Qed.

(* ====================================================================== *)
(* 4. KS along the steps                                                   *)
(* ====================================================================== *)

Lemma semR_mext : forall s s', semR s s' -> mext s s'.
Proof. intros s s' [Q L]. split; [apply sem_ext; assumption|apply sem_eqmono; exact Q]. Qed.

(* the in-flight node *)
Definition flight (s : egraph) (src : N) (n : node) : Prop :=
  exists csrc, get_class s src = Ok csrc /\ nc s (c_syn csrc) n.

Lemma flight_mext : forall s s' src n, mext s s' -> flight s src n -> flight s' src n.
Proof.
  intros s s' src n X (csrc & Hc & Hn). destruct (ext_syn s s' (proj1 X) _ _ Hc) as (c' & Hc' & Es).
  exists c'. split; [exact Hc'|]. rewrite Es. apply (nc_mono s s'); [intros a b; apply kid_eq_mext; exact X|exact Hn].
Qed.

Lemma flight_nc : forall s src n m, flight s src n -> nc s n m -> flight s src m.
Proof. intros s src n m (csrc & Hc & Hn) H. exists csrc. split; [exact Hc|]. eapply nc_trans; eauto. Qed.

Lemma covers_all_ext : forall s s' l, ext s s' -> Forall (covers s) l -> Forall (covers s') l.
Proof. intros s s' l E. apply Forall_impl. intros a. apply covers_ext. exact E. Qed.

(* hp_loop *)
Lemma KS_hp_loop : forall fuel src enode i s r s', eg_inv2 s -> KS s -> flight s src enode ->
  Forall (covers s) (app_occ enode) -> hp_loop fuel src enode i s = Ok (r, s') ->
  eg_inv2 s' /\ mext s s' /\ KS s' /\ flight s' src (fst r) /\ Forall (covers s') (app_occ (fst r)) /\
  binders (fst r) = binders enode.
Proof.
  induction fuel as [|f IH]; intros src enode i s r s' Hs K Fl Cv H; cbn [hp_loop] in H; [discriminate|].
  destruct (sset_subset (values (am i)) (slots enode)) eqn:Eq.
  - inversion H; subst r s'. cbn [fst]. split; [exact Hs|]. split; [apply mext_refl|]. auto.
  - apply mbind_inv in H. destruct H as (u & s1 & H1 & H).
    destruct (inv4_handle_shrink src s u s1 H1 Hs) as [Hs1 X1].
    pose proof (KS_mext_EP s s1 X1 (pE_handle_shrink src s u s1 H1) K) as K1.
    apply bind_reads_inv in H. destruct H as (enode' & He & H).
    apply bind_reads_inv in H. destruct H as (i' & Hi & H).
    destruct (find_enode_nc s1 enode enode' (proj1 Hs1) (covers_all_ext _ _ _ (proj1 X1) Cv) He) as [Nc1 Cv1].
    pose proof (flight_nc _ _ _ _ (flight_mext _ _ _ _ X1 Fl) Nc1) as Fl1.
    destruct (IH src enode' i' s1 r s' Hs1 K1 Fl1 Cv1 H) as (A & B & C & D & F & G).
    split; [exact A|]. split; [eapply mext_trans; eauto|]. split; [exact C|]. split; [exact D|]. split; [exact F|].
    rewrite G. eapply find_enode_binders; eauto.
Qed.

(* the stored node of an entry is nc-related to its key *)
Lemma stored_ren_ok : forall s i c sh bij0 src, inv3 s -> mod4_ok s -> stored2 s ->
  get_class s i = Ok c -> In (sh, (bij0, src)) (c_nodes c) -> ren_ok (asm_g bij0) sh /\ NoDup (binders sh).
Proof.
  intros s i c sh bij0 src [_ NO] M SO Hc Hin.
  destruct (NO i c _ Hc Hin) as (Wb & Ib & _ & _). cbn [fst snd] in *.
  destruct (SO i c _ Hc Hin) as [[bs Hw] Tot]. cbn [fst snd] in *.
  destruct (m4_nodes s M i c _ Hc Hin) as [Qb Qv]. cbn [fst snd] in *.
  split; [|exact (ws_binders_nodup _ _ _ Hw)].
  split; [intros x y _ _ E; exact E|]. split.
  - intros x b Hx Hb. unfold asm_g. destruct (get bij0 x) as [y|] eqn:G; [|apply Tot in Hx; congruence].
    apply Qv in G. apply Qb in Hb. intros E. rewrite E in G. rewrite Hb in G. discriminate.
  - intros x y Hx Hy. unfold asm_g. apply Tot in Hx, Hy.
    destruct (get bij0 x) as [u|] eqn:Gx; [|congruence]. destruct (get bij0 y) as [v|] eqn:Gy; [|congruence].
    intros ->. eapply Ib; eauto.
Qed.

(* the walk of handle_pending up to the state of the lookup *)
Lemma KS_hp_prefix : forall s sh i c bij0 src nd u1 sA cA enode0 i0 enode i1 sB,
  inv3 s -> mod4_ok s -> KC2 s ->
  na_get (hashcons s) sh = Some i -> get_class s i = Ok c -> na_get (c_nodes c) sh = Some (bij0, src) ->
  apply_slotmap false bij0 sh = Ok nd ->
  raw_remove_from_class i sh s = Ok (u1, sA) -> get_class sA i = Ok cA ->
  find_enode sA nd = Ok enode0 -> find_applied_id sA {| aid := i; am := identity (c_slots cA) |} = Ok i0 ->
  hp_loop 100 src enode0 i0 sA = Ok ((enode, i1), sB) ->
  eg_inv2 sB /\ mext s sB /\ KS sB /\ flight sB src enode /\ Forall (covers sB) (app_occ enode) /\ NoDup (binders enode).
Proof.
  intros s sh i c bij0 src nd u1 sA cA enode0 i0 enode i1 sB I3 M (Kc & SO & K) Hh Hc Hp0 Hnd HA HcA Hen Hi0 HB.
  pose proof (na_get_in _ _ _ Hp0) as Hin. pose proof (proj1 I3) as Hs.
  destruct (stored_ren_ok s i c sh bij0 src I3 M SO Hc Hin) as [RO ND].
  pose proof (kids_cov_apply s i c sh bij0 src nd I3 M Kc Hc Hin Hnd) as Cv.
  pose proof (apply_slotmap_ren _ _ _ Hnd) as Rn.
  assert (Fl : flight s src nd).
  { destruct (K sh src (ex_intro _ i (ex_intro _ c (ex_intro _ bij0 (conj Hc Hin))))) as (csrc & Hcs & Hnc).
    exists csrc. split; [exact Hcs|]. rewrite Rn. apply nc_ren; assumption. }
  assert (NDn : NoDup (binders nd)).
  { rewrite Rn, ren_binders. unfold asm_g. rewrite map_id. exact ND. }
  destruct (semR_step4 _ _ (s_raw_remove _ _ _ _ _ HA) Hs) as [HsA XA].
  pose proof (KS_mext_EP s sA XA (raw_remove_entries _ _ _ _ _ HA) K) as KA.
  destruct (find_enode_nc sA nd enode0 (proj1 HsA) (covers_all_ext _ _ _ (proj1 XA) Cv) Hen) as [Nc0 Cv0].
  pose proof (flight_nc _ _ _ _ (flight_mext _ _ _ _ XA Fl) Nc0) as Fl0.
  destruct (KS_hp_loop 100 src enode0 i0 sA (enode, i1) sB HsA KA Fl0 Cv0 HB) as (A & B & C & D & F & G). cbn [fst] in *.
  split; [exact A|]. split; [eapply mext_trans; eauto|]. split; [exact C|]. split; [exact D|]. split; [exact F|].
  rewrite G, (find_enode_binders _ _ _ Hen). exact NDn.
Qed.

(* handle_pending keeps KS *)
Theorem KS_handle_pending : forall sh ty s x s', inv3 s -> mod4_ok s -> KC2 s ->
  handle_pending sh ty s = Ok (x, s') -> KS s'.
Proof.
  intros sh ty s x s' I3 M KC H. pose proof KC as (_ & _ & K). unfold handle_pending in H.
  apply bind_reads_inv in H. destruct H as (i & Hi & H). cbv beta in Hi.
  destruct (na_get (hashcons s) sh) as [i'|] eqn:Hh; [|discriminate]. inversion Hi; subst i'; clear Hi.
  destruct (negb ty); [inversion H; subst; exact K|].
  apply bind_reads_inv in H. destruct H as (c & Hc & H).
  apply mbind_inv in H. destruct H as ([bij0 src_id] & s0 & Hp & H). apply lift_inv in Hp. destruct Hp as [Hp ->].
  destruct (na_get (c_nodes c) sh) as [p0|] eqn:Hp0; [|discriminate]. inversion Hp; subst p0; clear Hp.
  apply mbind_inv in H. destruct H as (nd & s0 & Hnd & H). apply lift_inv in Hnd. destruct Hnd as [Hnd ->].
  apply mbind_inv in H. destruct H as (u1 & sA & HA & H).
  apply bind_reads_inv in H. destruct H as (sl & Hsl & H). cbv zeta in H.
  apply bind_reads_inv in H. destruct H as (enode0 & Hen & H).
  apply bind_reads_inv in H. destruct H as (i0 & Hi0 & H).
  unfold class_slots in Hsl. destruct (get_class sA i) as [cA|] eqn:HcA; cbn [bind] in Hsl; [|discriminate].
  inversion Hsl; subst sl; clear Hsl.
  apply mbind_inv in H. destruct H as ([enode i1] & sB & HB & H).
  destruct (KS_hp_prefix s sh i c bij0 src_id nd u1 sA cA enode0 i0 enode i1 sB I3 M KC Hh Hc Hp0 Hnd HA HcA Hen Hi0 HB)
    as (HsB & XB & KB & FlB & CvB & NDB).
  apply bind_reads_inv in H. destruct H as (t & Ht & H).
  apply bind_reads_inv in H. destruct H as (lk & Hlk & H).
  destruct lk as [hit|].
  - apply bind_reads_inv in H. destruct H as (pc & P & H).
    destruct (inv4_handle_congruence src_id sB pc x s' HsB P H) as [_ X'].
    exact (KS_mext_EP sB s' X' (pE_handle_congruence pc sB x s' H) KB).
  - destruct t as [sh' bij].
    apply mbind_inv in H. destruct H as (m & sC & Hm & H).
    change (fill_fresh (values bij) (inv (am i1)) sB = Ok (m, sC)) in Hm. cbv zeta in H.
    apply mbind_inv in H. destruct H as (u2 & sD & HD & H).
    pose proof (flight_nc _ _ _ _ FlB (shape_nc sB enode (sh', bij) (proj1 HsB) CvB NDB Ht)) as FlS. cbn [fst] in FlS.
    destruct (semR_step4 _ _ (s_fill_fresh _ _ _ _ _ Hm) HsB) as [HsC XC].
    assert (EC : EP sB sC).
    { destruct (fill_fresh_spec _ _ _ _ _ (inverse_wf (am i1)) Hm) as (_ & _ & _ & (cC & ->)).
      apply EP_nodes_same. intros j c' Hj. exists c'. split; [exact Hj|reflexivity]. }
    pose proof (KS_mext_EP sB sC XC EC KB) as KC'.
    destruct (semR_step4 _ _ (s_raw_add _ _ _ _ _ _ HD) HsC) as [HsD XD].
    assert (KD : KS sD).
    { apply (KS_step sC sD); [intros a b; apply kid_eq_mext; exact XD|apply ext_syn; exact (proj1 XD)| |exact KC'].
      intros sh0 src0 He. destruct (raw_add_entries _ _ _ _ _ _ _ HD sh0 src0 He) as [Ho|[-> ->]]; [left; exact Ho|].
      right. exact (flight_mext _ _ _ _ XD (flight_mext _ _ _ _ XC FlS)). }
    destruct (inv4_determine_self_symmetries src_id sD x s' H HsD) as [_ X'].
    exact (KS_mext_EP sD s' X' (pE_determine_self_symmetries src_id sD x s' H) KD).
Qed.

(* ====================================================================== *)
(* 5. the obligations of SoundRebuild.xinv_ok for SC2, KC2                 *)
(* ====================================================================== *)

Lemma KS_empty : KS empty_egraph.
Proof.
  intros sh src (j & c & bij & Hc & _). unfold get_class in Hc. cbn [classes empty_egraph] in Hc.
  destruct (N.to_nat j); discriminate.
Qed.

Lemma KC2_cuR : forall s s', cuR s s' -> KC2 s -> KC2 s'.
Proof.
  intros s s' [A B] (Kc & SO & K). split; [exact (kids_cov_classes s s' A Kc)|]. split.
  - apply (RS_nodes_same s s'); [|exact SO]. intros j c' Hj. exists c'. rewrite <- (get_class_classes s s' j A). auto.
  - assert (Q : sem_eq s s') by (split; [congruence|rewrite A; reflexivity]).
    apply (KS_step s s'); [| | |exact K].
    + intros a b (Ca & Cb & H). split; [exact (covers_classes s s' a A Ca)|]. split; [exact (covers_classes s s' b A Cb)|].
      exact (sem_eqmono s s' Q a b Ca Cb H).
    + intros j c Hj. exists c. rewrite (get_class_classes s s' j A). auto.
    + intros sh src (j & c & bij & Hj & Hin). left. exists j, c, bij. rewrite <- (get_class_classes s s' j A). auto.
Qed.

(* the state right before the rebuild of an insertion *)
Lemma KS_new_walk : forall t p s s5, inv3 s -> stored2 s -> KS s -> SN s5 -> wshape p = Ok t -> new_walk t s s5 ->
  stored2 s5 /\ KS s5.
Proof.
  intros t p s s5 I3 SO K Sn5 Hw (en1 & c1 & en2 & en3 & s3 & f2o & c2 & synf & i & s3a & sh & bij & s4 &
    RP & AP & SY & BF & ASF & AL & WS & RA & PI).
  pose proof (proj1 I3) as Hs.
  pose proof (refresh_private_step (fst t) (ectr s)) as St1. rewrite RP in St1. cbn [snd] in St1. apply ctr_step_le in St1.
  set (s1 := set_ctr s c1) in *.
  assert (S01 : semR s s1) by (split; [apply sem_set_ctr|unfold s1; cbn [Model.ctr set_ctr]; lia]).
  destruct (semR_step4 _ _ S01 Hs) as [Hs1 X01].
  pose proof (s_synify_enode _ _ _ _ SY) as S13. destruct (semR_step4 _ _ S13 Hs1) as [Hs3 X13].
  pose proof (bijection_from_fresh_to_step (slots en3) (ectr s3)) as St2. rewrite BF in St2. cbn [snd] in St2. apply ctr_step_le in St2.
  set (s2 := set_ctr (set_ctr s3 c2) c2) in *.
  assert (S32 : semR s3 s2).
  { split; [|unfold s2; cbn [Model.ctr set_ctr]; lia]. split; reflexivity. }
  destruct (semR_step4 _ _ S32 Hs3) as [Hs2 X32].
  pose proof (alloc_eclass_exact _ _ _ _ _ AL) as (Hi & U & C & _ & _ & Ct).
  pose proof Hs2 as [[Hok Hsl HC] Hbl].
  assert (X2a : mext0 s2 s3a).
  { split.
    - split; [rewrite Ct; lia|]. intros j c Hc. exists c. split; [eapply get_class_ext_old; eauto|].
      split; [apply incl_refl|reflexivity].
    - intros x y Cx Cy Q. destruct (alloc_eclass_frame _ _ _ _ _ Hok (uso_wf _ Hsl) AL) as (_ & F & _).
      rewrite F; [exact Q| |]; rewrite (uso_wf _ Hsl); apply covers_lt; assumption. }
  pose proof (semR_mext _ _ (s_raw_add _ _ _ _ _ _ RA)) as X34.
  pose proof (semR_mext _ _ (s_pending_insert _ _ _ _ _ PI)) as X45.
  assert (X : mext0 s s5).
  { eapply mext0_trans; [apply mext_mext0; exact X01|]. eapply mext0_trans; [apply mext_mext0; exact X13|].
    eapply mext0_trans; [apply mext_mext0; exact X32|]. eapply mext0_trans; [exact X2a|].
    apply mext_mext0. eapply mext_trans; eauto. }
  assert (N01 : nodes_same s s1) by (intros j c' Hj; exists c'; split; [exact Hj|reflexivity]).
  assert (N32 : nodes_same s3 s2) by (intros j c' Hj; exists c'; split; [exact Hj|reflexivity]).
  split.
  - apply (pS_pending_insert sh true s4 tt s5 PI).
    apply (pS_raw_add i sh bij i (SOe_shape synf sh bij i WS) s3a tt s4 RA).
    apply (pS_alloc _ _ s2 i s3a AL). apply (RS_nodes_same s3 s2 N32).
    apply (pS_synify_enode en2 s1 en3 s3 SY). apply (RS_nodes_same s s1 N01). exact SO.
  - apply (KS_step s s5); [intros a b; apply kid_eq_mext0; exact X|apply ext0_syn; exact (proj1 X)| |exact K].
    intros sh0 src0 He. apply (pE_pending_insert sh true s4 tt s5 PI) in He.
    destruct (raw_add_entries _ _ _ _ _ _ _ RA sh0 src0 He) as [Ho|[-> ->]].
    + left. apply (EP_nodes_same s s1 N01). apply (pE_synify_enode en2 s1 en3 s3 SY). apply (EP_nodes_same s3 s2 N32).
      apply (pE_alloc _ _ s2 i s3a AL). exact Ho.
    + right. pose proof (get_class_ext_new s2 s3a _ C) as Hn.
      assert (Ei : i = N.of_nat (lc s2)) by (rewrite Hi; f_equal; exact (uso_wf _ Hsl)).
      rewrite <- Ei in Hn.
      destruct (ext_syn s3a s4 (proj1 X34) _ _ Hn) as (c4 & Hc4 & E4).
      destruct (ext_syn s4 s5 (proj1 X45) _ _ Hc4) as (c5 & Hc5 & E5).
      exists c5. split; [exact Hc5|]. rewrite E5, E4. cbn [c_syn].
      assert (ND : NoDup (binders synf)).
      { pose proof (Sn5 i c5 Hc5) as T. rewrite E5, E4 in T. exact T. }
      destruct (wshape_fwd synf sh bij WS ND) as (g & -> & RO).
      apply nc_ren; [apply nc_refl|exact RO].
Qed.

Theorem xinv_closed : xinv_ok SC2 KC2.
Proof.
  constructor.
  - intros s s' E [A B]. split; [exact (syn_cov_ext s s' E A)|exact (SN_ext s s' E B)].
  - exact KC2_cuR.
  - split; [exact syn_cov_empty|exact SN_empty].
  - split; [exact kids_cov_empty|]. split; [exact stored2_empty|exact KS_empty].
  - intros sh ty s x s' I _ M _ K H. pose proof K as (K1 & K2 & K3).
    split; [exact (kids_cov_handle_pending sh ty s x s' I M K1 H)|].
    split; [exact (pS_handle_pending sh ty s x s' H K2)|exact (KS_handle_pending sh ty s x s' I M K H)].
  - intros l r s b s' I _ _ Cl Cr _ (K1 & K2 & K3) H.
    split; [exact (kids_cov_uint l r s b s' I Cl Cr K1 H)|]. split; [exact (pS_uint l r s b s' H K2)|].
    destruct (uint_step4 l r s b s' Cl Cr H (proj1 I)) as [_ X].
    exact (KS_mext_EP s s' X (pE_uint l r s b s' H) K3).
  - intros t p s a s' s5 I _ M SO _ [Sc Sn] (Kk & _ & K) _ Hw L Cv _ Bp H NW.
    destruct (cov_pre_rebuild t p s a s' I M Sc Kk Hw L Cv Bp H) as (s5' & NW' & R1 & R2).
    rewrite (new_walk_det t s s5 s5' NW NW') in *.
    pose proof (SN_new_walk t p s s5' Sn Hw NW') as Sn5.
    destruct (KS_new_walk t p s s5' I SO K Sn5 Hw NW') as [SO5 K5].
    split; [split; assumption|]. split; [exact R2|]. split; assumption.
Qed.

(* ====================================================================== *)
(* 6. the four semantic facts for SC2, KC2                                 *)
(* ====================================================================== *)

Theorem HC_sim_y_proved : spec_HC_sim_y SC2 KC2.
Proof.
  intros E s sh i c bij0 src nd u1 sA cA enode0 i0 enode i1 sB t hit pc1 sh2 pc2 ab s1
    I3 W M Sc Kc S Hh Hc Hp0 Hnd HA HcA Hen Hi0 HB IB WB MB ScB SB Ht Hlk P1 Hsh P2 HP.
  destruct (KS_hp_prefix s sh i c bij0 src nd u1 sA cA enode0 i0 enode i1 sB I3 M Kc Hh Hc Hp0 Hnd HA HcA Hen Hi0 HB)
    as (_ & _ & KB & _).
  apply (SoundCong.HC_sim_local E src sB pc1 sh2 pc2 ab s1 IB WB SB (proj1 ScB) P1 Hsh P2); [|exact HP].
  unfold SoundCong.hc_shapes_eqb.
  destruct (pc_congruence_dec _ _ _ _ _ HP) as (sa & sb & m & c1 & x & c2 & bm & c3 & S1 & S2 & _).
  rewrite S1, S2. apply node_eqb_iff.
  exact (HC_shapes sB src pc1 sh2 pc2 sa sb IB (proj2 ScB) KB P1 Hsh P2 S1 S2).
Qed.

Theorem HSh_red_2 : spec_HSh_red_x SC2.
Proof. intros E src s pc1 n2 a b s1 I3 W M Sc. exact (HSh_red_x_proved E src s pc1 n2 a b s1 I3 W M (proj1 Sc)). Qed.

Theorem HD_sim_2 : spec_HD_sim_x SC2.
Proof. intros E src s0 pc1 w vs pn2 w2 s ab s1 I3 W M Sc. exact (HD_sim_x_proved E src s0 pc1 w vs pn2 w2 s ab s1 I3 W M (proj1 Sc)). Qed.

Theorem HS_readd_2 : spec_HS_readd_x SC2 KC2.
Proof.
  intros E s sh i c bij0 src nd u1 sA cA enode0 i0 enode i1 sB sh' bij m sC n''
    I3 W M Sc Kc S Hh Hc Hp0 Hnd NS0 HA HcA Hen Hi0 HB IB WB MB ScB.
  exact (HS_readd_x_proved E s sh i c bij0 src nd u1 sA cA enode0 i0 enode i1 sB sh' bij m sC n''
           I3 W M (proj1 Sc) (proj1 Kc) S Hh Hc Hp0 Hnd NS0 HA HcA Hen Hi0 HB IB WB MB (proj1 ScB)).
Qed.

(* ====================================================================== *)
(* 7. the end-to-end statements, unconditional                             *)
(* ====================================================================== *)

Theorem equality_sound_all : forall terms ops hs s i j a b ti tj, Forall rt_ok terms -> Forall rt_wf terms ->
  run_ops terms ops [] empty_egraph = Ok (hs, s) ->
  nth_opt hs i = Some a -> nth_opt hs j = Some b ->
  nth_opt (handle_cterms terms ops) i = Some ti -> nth_opt (handle_cterms terms ops) j = Some tj ->
  eg_eq s a b = Ok true -> Deriv (asserted terms ops) 0 ti tj.
Proof. exact (equality_sound_x SC2 KC2 xinv_closed HSh_red_2 HC_sim_y_proved HD_sim_2 HS_readd_2). Qed.

Theorem equality_sound_insertion_only_all : forall terms ops hs s i j a b ti tj, Forall rt_ok terms -> Forall rt_wf terms ->
  adds_only ops -> run_ops terms ops [] empty_egraph = Ok (hs, s) ->
  nth_opt hs i = Some a -> nth_opt hs j = Some b ->
  nth_opt (handle_cterms terms ops) i = Some ti -> nth_opt (handle_cterms terms ops) j = Some tj ->
  eg_eq s a b = Ok true -> ti = tj.
Proof. exact (equality_sound_insertion_only_x SC2 KC2 xinv_closed HSh_red_2 HC_sim_y_proved HD_sim_2 HS_readd_2). Qed.

Print Assumptions HC_shapes.
Print Assumptions KS_handle_pending.
Print Assumptions xinv_closed.
Print Assumptions HC_sim_y_proved.
Print Assumptions equality_sound_all.
Print Assumptions equality_sound_insertion_only_all.
Check equality_sound_all.
