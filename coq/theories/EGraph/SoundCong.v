(* EGraph/SoundCong.v — C01: the semantic facts about the congruence proofs built by pc_congruence
   (the `spec_*` propositions of SoundPending.v).  See the summary at the end of the file. *)
From SE Require Import Slots.SlotMapFacts Group.GroupSound Lang.LangFacts Lang.ShapeFacts Lang.RenameFacts
  EGraph.Model EGraph.ModelFacts EGraph.ModelMachine EGraph.UnionFindFacts EGraph.InvariantFacts
  EGraph.UnionInvariantFacts EGraph.AddCoversFacts EGraph.MonotoneFacts EGraph.SoundFacts EGraph.SoundUnion
  EGraph.SoundSyn EGraph.SoundNode EGraph.SoundBase EGraph.SoundAddExpr EGraph.SoundPending.
From SE Require Import Sem.Deriv Sem.DerivFacts Sem.AlgebraFacts Sem.EgMachine Explain.CheckerFacts.
Require Import ZArith Lia ZifyBool ZifyN ZifyNat.
Ltac Zify.zify_post_hook ::= Z.div_mod_to_equations.

Local Notation "a ** b" := (compose_partial a b) (at level 40, left associativity).
Local Notation inv := inverse_nocheck.
Local Notation ectr := Model.ctr.

(* ====================================================================== *)
(* 1. a node whose child maps are injective has a term under every admissible renaming *)
(* ====================================================================== *)

Lemma rokdL_upd : forall d L r x, rokdL d L r -> rokdL (S d) (x :: L) (upd r x (B d)).
Proof.
  intros d L r x [Inj Fr]. split.
  - intros y z Hy Hz. unfold upd. destruct (y =? x) eqn:E1; destruct (z =? x) eqn:E2; intros Eq.
    + apply N.eqb_eq in E1, E2. congruence.
    + destruct Hz as [Hz|Hz]; [apply N.eqb_neq in E2; congruence|]. pose proof (Fr _ Hz) as T. unfold fr, is_B, B in *. lia.
    + destruct Hy as [Hy|Hy]; [apply N.eqb_neq in E1; congruence|]. pose proof (Fr _ Hy) as T. unfold fr, is_B, B in *. lia.
    + destruct Hy as [Hy|Hy]; [apply N.eqb_neq in E1; congruence|]. destruct Hz as [Hz|Hz]; [apply N.eqb_neq in E2; congruence|]. apply Inj; assumption.
  - intros y Hy. unfold upd. destruct (y =? x) eqn:E1; [right; unfold B; lia|].
    destruct Hy as [Hy|Hy]; [apply N.eqb_neq in E1; congruence|]. apply fr_S_mono. apply Fr. exact Hy.
Qed.

Lemma NodeArg_exists : forall s a d r L, rokdL d L r -> incl (pub_occ_f a) L ->
  (forall x, In x (app_occ_f a) -> injective (am x)) -> exists t, NodeArg s d r a t.
Proof.
  intros s. induction a as [x|x|x b IH|p]; intros d r L RL In1 Ix.
  - eexists. constructor.
  - cbn [pub_occ_f] in In1.
    set (tau := ext_ren r (am x) (bound_of r L)).
    assert (Rk : rokdL d (SS s (aid x)) tau).
    { apply (ext_ren_rokd d L); [exact RL|apply Ix; left; reflexivity|]. intros k v G. apply In1. eapply vals_in_vec; eauto. }
    exists (CChild (syn_at s d tau (aid x))). apply NA_app; [exact Rk|].
    intros y v G. unfold tau, ext_ren. rewrite G. reflexivity.
  - cbn [pub_occ_f] in In1. cbn [app_occ_f] in Ix.
    destruct (IH (S d) (upd r x (B d)) (x :: L)) as (t0 & NA).
    + apply rokdL_upd. exact RL.
    + intros y Hy. destruct (y =? x) eqn:E1; [left; apply N.eqb_eq in E1; congruence|]. right. apply In1.
      apply filter_In. split; [exact Hy|]. rewrite E1. reflexivity.
    + exact Ix.
    + exists (CBind t0). constructor. exact NA.
  - eexists. constructor.
Qed.

Lemma NodeT_exists : forall s n rho, rokL (slots n) rho -> (forall x, In x (app_occ n) -> injective (am x)) ->
  exists t, NodeT s rho n t.
Proof.
  intros s n rho R Ix.
  assert (RL : rokdL 0 (slots n) rho) by (apply rokdL_0; exact R).
  assert (G : forall l, incl l (nargs n) -> exists args, Forall2 (NodeArg s 0 rho) l args).
  { induction l as [|a t IH]; intros Sub; [exists []; constructor|].
    destruct (IH (fun z Hz => Sub z (or_intror Hz))) as (args & F).
    destruct (NodeArg_exists s a 0 rho (slots n) RL) as (ta & NA).
    - intros y Hy. eapply pub_occ_f_in; [apply Sub; left; reflexivity|exact Hy].
    - intros x Hx. apply Ix. eapply app_occ_f_in; [apply Sub; left; reflexivity|exact Hx].
    - exists (ta :: args). constructor; assumption. }
  destruct (G (nargs n) (incl_refl _)) as (args & F). exists (CT (nvar n) args). exists args. split; [exact F|reflexivity].
Qed.

(* ====================================================================== *)
(* 2. two invocations denoted by the same node are related                 *)
(* ====================================================================== *)

Theorem nsound2_sim : forall E s a b n, injective (am a) -> injective (am b) -> skeys s a -> skeys s b ->
  (forall x, In x (app_occ n) -> injective (am x)) ->
  nsound E s a n -> nsound E s b n -> sim E s a b.
Proof.
  intros E s a b n Ia Ib Ka Kb Ix Ha Hb. apply simw_sim; try assumption.
  intros sg tau Rs Rt C X. pose proof Rs as [Is Ns]. pose proof Rt as [It Nt].
  set (La := SS s (aid a)) in *. set (Lb := SS s (aid b)) in *.
  set (K := bound2 sg La tau Lb).
  set (rho := fun v => match fkey La (am a) v with
                       | Some x => sg x
                       | None => match fkey Lb (am b) v with Some y => tau y | None => 4 * (v + K) end
                       end).
  assert (CS : forall v, (exists x, In x La /\ get (am a) x = Some v /\ rho v = sg x) \/
                         (fkey La (am a) v = None /\ exists y, In y Lb /\ get (am b) y = Some v /\ rho v = tau y) \/
                         (fkey La (am a) v = None /\ fkey Lb (am b) v = None /\ rho v = 4 * (v + K))).
  { intros v. unfold rho. destruct (fkey La (am a) v) as [x|] eqn:Fa.
    - left. apply fkey_some in Fa. destruct Fa as [A1 A2]. exists x. auto.
    - destruct (fkey Lb (am b) v) as [y|] eqn:Fb.
      + right. left. split; [reflexivity|]. apply fkey_some in Fb. destruct Fb as [A1 A2]. exists y. auto.
      + right. right. auto. }
  assert (Aa : forall x v, get (am a) x = Some v -> rho v = sg x).
  { intros x v G. unfold rho. rewrite (fkey_in La (am a) v x Ia (Ka x ltac:(congruence)) G). reflexivity. }
  assert (Ab : forall y v, get (am b) y = Some v -> rho v = tau y).
  { intros y v G. destruct (CS v) as [(x & Hx & Gx & Ev)|[(Fa & y' & Hy' & Gy' & Ev)|(Fa & Fb & Ev)]]; rewrite Ev.
    - eapply C; eauto.
    - f_equal. eapply Ib; eauto.
    - rewrite (fkey_in Lb (am b) v y Ib (Kb y ltac:(congruence)) G) in Fb. discriminate. }
  assert (Bs : forall x, In x La -> sg x < 4 * K) by (intros x Hx; apply bound2_l; exact Hx).
  assert (Bt : forall y, In y Lb -> tau y < 4 * K) by (intros y Hy; apply bound2_r; exact Hy).
  assert (Irho : forall v w, rho v = rho w -> v = w).
  { intros v w Eq.
    destruct (CS v) as [(x & Hx & Gx & Ev)|[(Fa & y & Hy & Gy & Ev)|(Fa & Fb & Ev)]];
    destruct (CS w) as [(x' & Hx' & Gx' & Ew)|[(Fa' & y' & Hy' & Gy' & Ew)|(Fa' & Fb' & Ew)]]; rewrite Ev, Ew in Eq.
    - apply Is in Eq; [|assumption|assumption]. subst x'. congruence.
    - destruct (X x y' Hx Hy' Eq) as (u & G1 & G2). congruence.
    - pose proof (Bs x Hx). lia.
    - symmetry in Eq. destruct (X x' y Hx' Hy Eq) as (u & G1 & G2). congruence.
    - apply It in Eq; [|assumption|assumption]. subst y'. congruence.
    - pose proof (Bt y Hy). lia.
    - pose proof (Bs x' Hx'). lia.
    - pose proof (Bt y' Hy'). lia.
    - lia. }
  assert (Nrho : forall v, is_B (rho v) = false).
  { intros v. destruct (CS v) as [(x & Hx & Gx & Ev)|[(Fa & y & Hy & Gy & Ev)|(Fa & Fb & Ev)]]; rewrite Ev.
    - apply Ns. exact Hx.
    - apply Nt. exact Hy.
    - unfold is_B. lia. }
  assert (Rr : rokL (slots n) rho) by (split; [intros v w _ _; apply Irho|intros v _; apply Nrho]).
  destruct (NodeT_exists s n rho Rr Ix) as (t & NT).
  apply D_trans with t.
  - apply (Ha sg rho t Rs Rr); [intros x v G; symmetry; eapply Aa; eauto| |exact NT].
    intros x z Hx Hz Eq.
    destruct (CS z) as [(x' & Hx' & Gx' & Ev)|[(Fa & y & Hy & Gy & Ev)|(Fa & Fb & Ev)]]; rewrite Ev in Eq.
    + apply Is in Eq; [|assumption|assumption]. subst x'. exact Gx'.
    + destruct (X x y Hx Hy Eq) as (u & G1 & G2). congruence.
    + pose proof (Bs x Hx). lia.
  - apply D_sym. apply (Hb tau rho t Rt Rr); [intros y v G; symmetry; eapply Ab; eauto| |exact NT].
    intros y z Hy Hz Eq.
    destruct (CS z) as [(x' & Hx' & Gx' & Ev)|[(Fa & y' & Hy' & Gy' & Ev)|(Fa & Fb & Ev)]]; rewrite Ev in Eq.
    + symmetry in Eq. destruct (X x' y Hx' Hy Eq) as (u & G1 & G2). congruence.
    + apply It in Eq; [|assumption|assumption]. subst y'. exact Gy'.
    + pose proof (Bt y Hy). lia.
Qed.

(* ====================================================================== *)
(* 3. renaming the node of an invocation                                   *)
(* ====================================================================== *)

(* n' is n renamed by theta; a' arises from a by renaming the values that are slots of n by theta
   (pairs of a whose value is not a slot of n may be dropped; a' may have additional pairs whose
   value is not a slot of n') *)
Theorem nsound_equiv : forall E s a a' n n' theta, equiv_by theta n n' -> nsound E s a n ->
  injective (am a) -> skeys s a -> aid a' = aid a ->
  (forall x v, get (am a) x = Some v -> In v (slots n) -> get (am a') x = Some (theta v)) ->
  (forall x v', get (am a') x = Some v' -> In v' (slots n') ->
     exists v, get (am a) x = Some v /\ In v (slots n) /\ v' = theta v) ->
  nsound E s a' n'.
Proof.
  intros E s a a' n n' theta Q H Ia Ka Ea A1 A2 sg rho' t Rs Rr' Ag' Jn' NT'. rewrite Ea in *.
  pose proof Q as (_ & Ith & P). pose proof (equiv_pub _ _ _ P) as Pub.
  pose proof Rs as [Is Ns]. pose proof Rr' as [Ir Nr].
  assert (Th : forall v, In v (slots n) -> In (theta v) (slots n')).
  { intros v Hv. apply slots_spec. rewrite Pub. apply in_map. apply slots_spec. exact Hv. }
  set (rho := fun v => if memb v (slots n) then rho' (theta v)
                       else match fkey (SS s (aid a)) (am a) v with Some x => sg x | None => 0 end).
  assert (E1 : forall v, In v (slots n) -> rho v = rho' (theta v)).
  { intros v Hv. unfold rho. rewrite (proj2 (memb_in _ _) Hv). reflexivity. }
  assert (Rr : rokL (slots n) rho).
  { split.
    - intros v w Hv Hw Eq. rewrite (E1 _ Hv), (E1 _ Hw) in Eq. apply Ir in Eq; [|apply Th; assumption|apply Th; assumption].
      apply Ith; [apply slots_spec; exact Hv|apply slots_spec; exact Hw|exact Eq].
    - intros v Hv. rewrite (E1 _ Hv). apply Nr. apply Th. exact Hv. }
  apply (H sg rho t Rs Rr).
  - intros x v G. unfold rho. destruct (memb v (slots n)) eqn:M.
    + apply memb_in in M. apply Ag'. apply A1; assumption.
    + rewrite (fkey_in _ (am a) v x Ia (Ka x ltac:(congruence)) G). reflexivity.
  - intros x y Hx Hy Eq. rewrite (E1 _ Hy) in Eq. pose proof (Jn' x (theta y) Hx (Th _ Hy) Eq) as G'.
    destruct (A2 _ _ G' (Th _ Hy)) as (v & Gv & Hv & Et).
    assert (y = v) by (apply Ith; [apply slots_spec; exact Hy|apply slots_spec; exact Hv|exact Et]). subst v. exact Gv.
  - apply (NodeT_rho_ext s n (fun x => rho' (theta x))); [intros x Hx; symmetry; apply E1; exact Hx|].
    apply (proj1 (NodeT_equiv s n n' theta rho' t Q)). exact NT'.
Qed.

(* the pairs of an invocation whose value is not a slot of the node may be dropped *)
Corollary nsound_restrict_vals : forall E s a n, injective (am a) -> skeys s a -> nsound E s a n ->
  nsound E s (restrict_vals (slots n) a) n.
Proof.
  intros E s a n Ia Ka H.
  apply (nsound_equiv E s a (restrict_vals (slots n) a) n n (fun v => v)); try assumption.
  - split; [reflexivity|]. split; [intros x y _ _ Eq; exact Eq|apply rename_occ_id].
  - reflexivity.
  - intros x v G Hv. apply restrict_vals_get. auto.
  - intros x v' G Hv. apply restrict_vals_get in G. destruct G as [G _]. exists v'. auto.
Qed.

(* sim depends on the maps through `get` only *)
Lemma sim_get_ext : forall E s a b b', aid b' = aid b -> (forall x, get (am b') x = get (am b) x) ->
  sim E s a b -> sim E s a b'.
Proof.
  intros E s a b b' Ea Eg H sg tau Rs Rt C. rewrite Ea in *. apply H; try assumption.
  intros x y v Gx Gy. apply (C x y v Gx). rewrite Eg. exact Gy.
Qed.

(* ====================================================================== *)
(* 4. the pair built by pc_congruence from two proven-contains with equal weak shapes *)
(* ====================================================================== *)

(* two nodes with the same weak shape: n1 is n2 renamed by m = bij2^-1 ; bij1 *)
Lemma shapes_equiv : forall n1 n2 sh bij1 bij2 m, wshape n1 = Ok (sh, bij1) -> wshape n2 = Ok (sh, bij2) ->
  (forall k v, get bij2 k = Some v -> get m v = get bij1 k) ->
  equiv_by (asm_g m true) n2 n1.
Proof.
  intros n1 n2 sh bij1 bij2 m H1 H2 Hm.
  destruct (shape_equiv_by n1 sh bij1 H1) as (th1 & (Sk1 & I1 & P1) & B1).
  destruct (shape_equiv_by n2 sh bij2 H2) as (th2 & (Sk2 & I2 & P2) & B2).
  assert (T : forall k, In k (pub_occ sh) -> asm_g m true (th2 k) = th1 k).
  { intros k Hk. unfold asm_g. rewrite (Hm k (th2 k) (B2 k Hk)), (B1 k Hk). reflexivity. }
  split; [congruence|]. split.
  - rewrite (equiv_pub _ _ _ P2). intros x y Hx Hy Eq.
    apply in_map_iff in Hx. destruct Hx as (k & <- & Hk). apply in_map_iff in Hy. destruct Hy as (k' & <- & Hk').
    rewrite (T _ Hk), (T _ Hk') in Eq. f_equal. apply I1; assumption.
  - rewrite <- P2, <- P1, map_map. apply map_ext_in. intros [i|k] Hin; cbn [rename_occ]; [reflexivity|].
    f_equal. apply T. rewrite <- frees_pattern. apply frees_in. exact Hin.
Qed.

(* the two maps built by pc_congruence, when the two weak shapes are equal *)
Lemma pcc_maps : forall s n1 a1 n2 a2 ab s1 sh bij1 bij2,
  wshape n1 = Ok (sh, bij1) -> wshape n2 = Ok (sh, bij2) -> wf (am a2) ->
  pc_congruence (n1, a1) (n2, a2) s = Ok (ab, s1) ->
  exists m bm, ab = (a1, {| aid := aid a2; am := bm |}) /\
    (forall k v, get bij2 k = Some v -> get m v = get bij1 k) /\
    (forall v z, get m v = Some z -> In v (pub_occ n2)) /\
    (forall v, In v (pub_occ n2) -> exists z, get m v = Some z) /\
    (forall k, match get (am a2) k with
               | None => get bm k = None
               | Some y => match get m y with
                           | Some z => get bm k = Some z
                           | None => exists z, get bm k = Some z /\ ectr s <= z
                           end
               end).
Proof.
  intros s n1 a1 n2 a2 ab s1 sh bij1 bij2 H1 H2 Wa2 H.
  destruct (pc_congruence_dec _ _ _ _ _ H) as ([sh1 b1] & [sh2 b2] & m & c1 & x & c2 & bm & c3 & S1 & S2 & E1 & E2 & E3 & ->).
  cbn [fst snd aid am] in *. rewrite H1 in S1. inversion S1; subst sh1 b1; clear S1.
  rewrite H2 in S2. inversion S2; subst sh2 b2; clear S2.
  destruct (shape_bij_props _ _ _ H1) as (W1 & B1 & P1). destruct (shape_bij_props _ _ _ H2) as (W2 & B2 & P2).
  destruct (shape_bij _ _ _ H1) as (_ & K1 & _). destruct (shape_bij _ _ _ H2) as (_ & K2 & _).
  assert (Hm : forall v, match get (inv bij2) v with
                         | None => get m v = None
                         | Some k => get m v = get bij1 k
                         end).
  { intros v. pose proof (compose_fresh_spec (inv bij2) bij1 (ectr s) v (inverse_wf bij2)) as (_ & _ & T).
    rewrite E1 in T. cbn [fst snd] in T. destruct (get (inv bij2) v) as [k|] eqn:Gi; [|exact T].
    assert (Hk : get bij1 k <> None).
    { apply K1. apply K2. apply (get_inverse bij2 v k W2 B2) in Gi. congruence. }
    destruct (get bij1 k) as [z|]; [exact T|congruence]. }
  assert (Hm1 : forall k v, get bij2 k = Some v -> get m v = get bij1 k).
  { intros k v G. pose proof (Hm v) as T. rewrite (proj2 (get_inverse bij2 v k W2 B2) G) in T. exact T. }
  assert (L01 : ectr s <= c1).
  { pose proof (compose_fresh_spec (inv bij2) bij1 (ectr s) 0 (inverse_wf bij2)) as (_ & T & _). rewrite E1 in T. exact T. }
  assert (L12 : c1 <= c2).
  { pose proof (apply_slotmap_fresh_step false m n2 c1) as T. rewrite E2 in T. apply ctr_step_le in T. exact T. }
  exists m, bm. split; [reflexivity|]. split; [exact Hm1|]. split; [|split].
  - intros v z G. pose proof (Hm v) as T. destruct (get (inv bij2) v) as [k|] eqn:Gi; [|congruence].
    apply P2. exists k. apply (get_inverse bij2 v k W2 B2). exact Gi.
  - intros v Hv. apply P2 in Hv. destruct Hv as (k & Gk). rewrite (Hm1 _ _ Gk).
    assert (Hk : get bij1 k <> None) by (apply K1; apply K2; congruence).
    destruct (get bij1 k) as [z|]; [eauto|congruence].
  - intros k. pose proof (compose_fresh_spec (am a2) m c2 k Wa2) as (_ & _ & T). rewrite E3 in T. cbn [fst snd] in T.
    destruct (get (am a2) k) as [y|]; [|exact T]. destruct (get m y) as [z|]; [exact T|].
    destruct T as (z & G & Lz & _). exists z. split; [exact G|lia].
Qed.

Theorem pcc_sim : forall E s0 s n1 a1 n2 a2 ab s1 sh bij1 bij2,
  nsound E s0 a1 n1 -> nsound E s0 a2 n2 ->
  wshape n1 = Ok (sh, bij1) -> wshape n2 = Ok (sh, bij2) ->
  injective (am a1) -> skeys s0 a1 -> wf (am a2) -> injective (am a2) -> skeys s0 a2 ->
  (forall x, In x (app_occ n1) -> injective (am x)) ->
  (forall x, In x (pub_occ n1) -> x < ectr s) ->
  pc_congruence (n1, a1) (n2, a2) s = Ok (ab, s1) ->
  sim E s0 (fst ab) (snd ab).
Proof.
  intros E s0 s n1 a1 n2 a2 ab s1 sh bij1 bij2 NS1 NS2 H1 H2 Ia1 Ka1 Wa2 Ia2 Ka2 Ix Bnd H.
  destruct (pcc_injective s (n1, a1) (n2, a2) ab s1 Bnd Wa2 Ia2 H) as (_ & _ & Ib & _). cbn [fst snd] in Ib.
  destruct (pcc_maps s n1 a1 n2 a2 ab s1 sh bij1 bij2 H1 H2 Wa2 H) as (m & bm & -> & Hm1 & Hm2 & Hm3 & Hb).
  cbn [fst snd aid am] in *.
  pose proof (shapes_equiv n1 n2 sh bij1 bij2 m H1 H2 Hm1) as Q.
  set (b := {| aid := aid a2; am := bm |}).
  assert (NSb : nsound E s0 b n1).
  { apply (nsound_equiv E s0 a2 b n2 n1 (asm_g m true) Q NS2 Ia2 Ka2 eq_refl).
    - intros k v G Hv. apply slots_spec in Hv. destruct (Hm3 v Hv) as (z & Gz).
      pose proof (Hb k) as T. rewrite G, Gz in T. unfold b, asm_g. cbn [am]. rewrite Gz. exact T.
    - intros k v' G Hv'. unfold b in G. cbn [am] in G. pose proof (Hb k) as T.
      destruct (get (am a2) k) as [y|] eqn:Gy; [|congruence]. destruct (get m y) as [z|] eqn:Gz.
      + exists y. split; [reflexivity|]. split; [apply slots_spec; eapply Hm2; eauto|]. unfold asm_g. rewrite Gz. congruence.
      + destruct T as (z & G2 & Lz). rewrite G in G2. inversion G2; subst z.
        apply slots_spec in Hv'. apply Bnd in Hv'. lia. }
  apply (nsound2_sim E s0 a1 b n1); try assumption.
  intros k Hk. unfold b in Hk. cbn [aid am] in *. apply Ka2. pose proof (Hb k) as T.
  destruct (get (am a2) k); congruence.
Qed.

(* ====================================================================== *)
(* 5. the children of a pre-shape are leader-canonical invocations          *)
(* ====================================================================== *)

(* NEW RUN INVARIANT: the children of every syntactic node are covered (the syntactic node of a
   class never changes and `covers` is monotone along ext steps, so only the allocation of a new
   class has to establish it) *)
Definition syn_cov (s : egraph) : Prop :=
  forall i c a, get_class s i = Ok c -> In a (app_occ (c_syn c)) -> covers s a.

Lemma variants_lcanon : forall s n vs, Forall (lcanon s) (app_occ n) -> variants s n = Ok vs ->
  forall v, In v vs -> Forall (lcanon s) (app_occ v).
Proof.
  intros s n vs Hf H v Hv. unfold variants in H.
  destruct (mapr (fun a => get_class s (aid a)) (app_occ n)) as [cls|] eqn:Ec; cbn [bind] in H; [|discriminate].
  destruct (forallb _ cls).
  - inversion H; subst vs. destruct Hv as [<-|[]]. exact Hf.
  - destruct (mapr _ cls) as [groups|] eqn:Eg; cbn [bind] in H; [|discriminate]. inversion H; subst vs; clear H.
    apply in_map_iff in Hv. destruct Hv as (l & <- & Hl).
    pose proof (mapr_mapr_F2 (lcanon s) _ _ _ _ _ (proj1 (Forall_forall _ _) Hf) Ec Eg) as F2.
    assert (Z : Forall2 (fun _ x => lcanon s x) (app_occ n)
                  (zip_with (fun a pp => {| aid := aid a; am := pp ** am a |}) (app_occ n) l)).
    { apply (zip_cart (fun _ x => lcanon s x) (app_occ n) groups); [|exact Hl].
      revert F2. apply Forall2_imp. intros a g ((Ld & c' & Hc' & (gens & HG & Hgn) & Wa & Ba & Ka) & c & Hc & Hg) pp Hpp.
      rewrite Hc in Hc'. inversion Hc'; subst c'; clear Hc'.
      assert (P : perm_on (c_slots c) pp).
      { unfold group_new in Hgn.
        apply (generated_po (c_slots c) (identity (c_slots c)) (identity_is_id _) (pdedup gens) (pdedup_po _ _ HG)).
        eapply (gnew_gall_sound (c_slots c) (identity (c_slots c)) (identity_is_id _)); [apply pdedup_po; exact HG|exact Hgn|exact Hg|exact Hpp]. }
      destruct (perm_compose_bij (c_slots c) pp (am a) P Wa Ba Ka) as (W' & B' & K' & _).
      split; [exact Ld|]. exists c. cbn [aid am]. split; [exact Hc|]. split; [exists gens; auto|]. auto. }
    rewrite app_occ_set_apps; [exact (Forall2_Forall_r _ _ _ Z)|]. exact (Forall2_length' _ _ _ Z).
Qed.

Lemma find_enode_lcanon : forall s n n1, eg_inv s -> Forall (covers s) (app_occ n) -> find_enode s n = Ok n1 ->
  Forall (lcanon s) (app_occ n1).
Proof.
  intros s n n1 I Cv F. unfold find_enode in F.
  destruct (mapr (find_applied_id s) (app_occ n)) as [l|] eqn:El; cbn [bind] in F; [|discriminate].
  inversion F; subst n1; clear F.
  rewrite app_occ_set_apps by (eapply mapr_length; eauto).
  apply Forall_forall. intros a' Ha'. destruct (mapr_in _ _ _ El a' Ha') as (a & Ha & Fa).
  exact (covers_lcanon s a a' I (proj1 (Forall_forall _ _) Cv a Ha) Fa).
Qed.

Lemma pre_shape_lcanon : forall s n p, eg_inv s -> Forall (covers s) (app_occ n) -> pre_shape s n = Ok p ->
  Forall (lcanon s) (app_occ p).
Proof.
  intros s n p I Cv P. unfold pre_shape in P.
  destruct (find_enode s n) as [n1|] eqn:F; cbn [bind] in P; [|discriminate].
  destruct (variants s n1) as [vs|] eqn:Ev; cbn [bind] in P; [|discriminate].
  apply min_variant_in in P. destruct P as [P|[k P]]; [|discriminate].
  exact (variants_lcanon s n1 vs (find_enode_lcanon s n n1 I Cv F) Ev p P).
Qed.

(* a leader-canonical invocation is its own canonical form *)
Lemma find_lcanon_id : forall s x, eg_inv s -> lcanon s x -> find_applied_id s x = Ok x.
Proof.
  intros s [i m] I [(e & He & Ee) (c & Hc & _ & W & _ & K)]. cbn [aid am] in *.
  unfold find_applied_id. cbn [aid am]. rewrite (unionfind_get_leader s i e He Ee). cbn [bind].
  rewrite Ee, (leader_entry_identity s i e c I He Ee Hc). f_equal. f_equal.
  apply ext_eq; [apply compose_partial_wf|exact W|]. intros k.
  rewrite get_compose_partial by apply identity_wf. rewrite get_identity.
  destruct (sset_mem k (c_slots c)) eqn:M; [reflexivity|].
  destruct (get m k) as [v|] eqn:G; [|reflexivity].
  assert (Hk : In k (c_slots c)) by (rewrite <- K; apply keys_spec; congruence).
  apply sset_mem_in in Hk. congruence.
Qed.

Lemma find_enode_lcanon_id : forall s n, eg_inv s -> Forall (lcanon s) (app_occ n) -> find_enode s n = Ok n.
Proof.
  intros s n I L. unfold find_enode. rewrite (mapr_id (find_applied_id s) (app_occ n)).
  - cbn [bind]. rewrite set_apps_self. reflexivity.
  - intros x Hx. apply find_lcanon_id; [exact I|]. exact (proj1 (Forall_forall _ _) L x Hx).
Qed.

(* ====================================================================== *)
(* 6. the proven-contains of a class, and the three call sites              *)
(* ====================================================================== *)

(* everything the call sites need about pc_from_src_id *)
Lemma pc_facts : forall E s src pc, inv3 s -> syn_wf s -> Sound E s -> syn_cov s -> pc_from_src_id s src = Ok pc ->
  nsound E s (snd pc) (fst pc) /\ lcanon s (snd pc) /\ wf (am (snd pc)) /\ injective (am (snd pc)) /\ skeys s (snd pc) /\
  Forall (lcanon s) (app_occ (fst pc)) /\ (forall x, In x (pub_occ (fst pc)) -> x < ectr s) /\
  (forall x v, get (am (snd pc)) x = Some v -> v < ectr s).
Proof.
  intros E s src pc I3 W S SC P. pose proof I3 as [[I Hb] _].
  destruct (pc_from_src_spec _ _ _ P) as (c & Hc & PS & F).
  assert (Cv : Forall (covers s) (app_occ (c_syn c))) by (apply Forall_forall; intros a Ha; exact (SC _ _ _ Hc Ha)).
  destruct (pc_props s src pc I P) as (L & c' & Hc' & Oc). rewrite Hc in Hc'. inversion Hc'; subst c'; clear Hc'.
  destruct (canon_wf_inj _ _ (proj2 L)) as [Wa Ia].
  split; [exact (pc_nsound E s src c pc I3 W S Hc Cv P)|]. split; [exact L|]. split; [exact Wa|]. split; [exact Ia|].
  split; [exact (canon_keys_SS s (snd pc) I (proj2 L))|]. split; [exact (pre_shape_lcanon s (c_syn c) (fst pc) I Cv PS)|].
  split; [intros x Hx; apply (Hb src c x Hc); apply Oc; apply pub_occ_all_occ; exact Hx|].
  intros x v G. unfold find_applied_id in F. destruct (unionfind_get s _) as [p|]; cbn [bind aid am] in F; [|discriminate].
  inversion F as [F']. rewrite <- F' in G. cbn [am] in G. apply compose_vals in G. destruct G as (y & G).
  apply identity_get in G. destruct G as [_ G]. apply (Hb src c v Hc). apply pub_occ_all_occ. apply slots_spec. exact G.
Qed.

Lemma lcanon_children_inj : forall s n, Forall (lcanon s) (app_occ n) -> forall x, In x (app_occ n) -> injective (am x).
Proof. intros s n L x Hx. exact (proj2 (canon_wf_inj _ _ (proj2 (proj1 (Forall_forall _ _) L x Hx)))). Qed.

(* ---------------- determine_self_symmetries ---------------- *)

Theorem HD_sim_proved : forall E src s0 pc1 w vs pn2 w2 s ab s1, inv3 s0 -> syn_wf s0 -> Sound E s0 -> syn_cov s0 ->
  pc_from_src_id s0 src = Ok pc1 -> wshape (fst pc1) = Ok w -> variants s0 (fst pc1) = Ok vs -> In pn2 vs ->
  wshape pn2 = Ok w2 -> node_eqb (fst w) (fst w2) = true -> ext s0 s ->
  pc_congruence pc1 (pn2, snd pc1) s = Ok (ab, s1) -> sim E s0 (fst ab) (snd ab).
Proof.
  intros E src s0 [n1 a1] [sh bij1] vs pn2 [sh2 bij2] s ab s1 I3 W S SC P1 Hw Hvs Hin Hw2 EQ X H.
  destruct (pc_facts E s0 src (n1, a1) I3 W S SC P1) as (NS1 & L1 & Wa & Ia & Ka & LC & Bnd & _). cbn [fst snd] in *.
  apply node_eqb_iff in EQ. subst sh2. pose proof (proj1 (proj1 I3)) as I.
  assert (CC : Forall (canon_ok s0) (app_occ n1)) by (eapply Forall_impl; [|exact LC]; intros x Hx; exact (proj2 Hx)).
  pose proof (variants_rel E s0 n1 vs pn2 I S CC Hvs Hin) as R2.
  assert (NS2 : nsound E s0 a1 pn2).
  { apply (nsound_fwd E s0 a1 n1 pn2 W); try assumption.
    eapply node_rel_imp; [|exact R2]. intros x x' T. exact (proj1 T). }
  apply (pcc_sim E s0 s n1 a1 pn2 a1 ab s1 sh bij1 bij2 NS1 NS2 Hw Hw2 Ia Ka Wa Ia Ka (lcanon_children_inj s0 n1 LC)); [|exact H].
  intros x Hx. pose proof (Bnd x Hx). destruct X as (Lc & _). lia.
Qed.

(* ---------------- handle_shrink_in_upwards_merge ---------------- *)

Lemma filter_pairs_wf : forall (f : slot * slot -> bool) m, wf m -> wf (filter f m).
Proof.
  intros f m W. apply wf_keys. apply wf_keys in W. unfold keys_vec in *.
  induction m as [|[k v] t IH]; cbn [map filter fst] in *; [exact I|]. destruct W as [L W].
  destruct (f (k, v)); [|apply IH; exact W]. cbn [map fst swf]. split; [|apply IH; exact W].
  assert (G : forall y, In y (map fst (filter f t)) -> k < y).
  { intros y Hy. apply in_map_iff in Hy. destruct Hy as (q & <- & Hq). apply filter_In in Hq.
    apply (swf_gt (map fst t) k (fst q) L W). apply in_map. tauto. }
  destruct (map fst (filter f t)) as [|y r]; [exact I|]. cbn [slb]. apply G. left. reflexivity.
Qed.

Lemma restrict_to_get : forall cap a x v, wf (am a) ->
  (get (am (restrict_to cap a)) x = Some v <-> (get (am a) x = Some v /\ sset_mem v cap = true)).
Proof.
  intros cap a x v Wa. unfold restrict_to. cbn [am]. split.
  - intros G. apply get_in in G. apply filter_In in G. destruct G as [G M]. cbn [snd] in M.
    split; [apply in_get; assumption|exact M].
  - intros [G M]. apply in_get; [apply filter_pairs_wf; exact Wa|]. apply filter_In. split; [apply get_in; exact G|exact M].
Qed.

Theorem HSh_red_proved : forall E src s pc1 n2 a b s1, inv3 s -> syn_wf s -> Sound E s -> syn_cov s ->
  pc_from_src_id s src = Ok pc1 -> find_enode s (fst pc1) = Ok n2 ->
  pc_congruence pc1 (n2, snd pc1) s = Ok ((a, b), s1) ->
  sim E s a (restrict_to (sset_inter (values (am a)) (values (am b))) a).
Proof.
  intros E src s [n1 a1] n2 a b s1 I3 W S SC P1 F2 H.
  destruct (pc_facts E s src (n1, a1) I3 W S SC P1) as (NS1 & L1 & Wa & Ia & Ka & LC & Bnd & Vb). cbn [fst snd] in *.
  pose proof (proj1 (proj1 I3)) as I.
  rewrite (find_enode_lcanon_id s n1 I LC) in F2. inversion F2; subst n2; clear F2.
  destruct (weak_shape_total false n1) as (sh & bij & Hw). change (wshape n1 = Ok (sh, bij)) in Hw.
  destruct (pcc_maps s n1 a1 n1 a1 (a, b) s1 sh bij bij Hw Hw Wa H) as (m & bm & Eab & Hm1 & Hm2 & Hm3 & Hb).
  inversion Eab; subst a b; clear Eab. cbn [aid am].
  destruct (shape_bij_props _ _ _ Hw) as (Wb & Bb & Pb).
  assert (Mid : forall v z, get m v = Some z -> z = v).
  { intros v z G. pose proof (Hm2 _ _ G) as Hv. apply Pb in Hv. destruct Hv as (k & Gk).
    rewrite (Hm1 _ _ Gk), Gk in G. congruence. }
  (* the bijection bm is wf *)
  assert (Wbm : wf bm).
  { destruct (pc_congruence_dec _ _ _ _ _ H) as (sa & sb & m' & c1 & x & c2 & bm' & c3 & _ & _ & _ & _ & E3 & Eab).
    cbn [fst snd] in E3. inversion Eab; subst bm'. pose proof (compose_fresh_spec (am a1) m' c2 0 Wa) as (T & _). rewrite E3 in T. exact T. }
  pose proof (nsound_restrict_vals E s a1 n1 Ia Ka NS1) as NS2.
  assert (SIM : sim E s a1 (restrict_vals (slots n1) a1)).
  { apply (nsound2_sim E s a1 (restrict_vals (slots n1) a1) n1); try assumption.
    - intros x y v Gx Gy. apply restrict_vals_get in Gx, Gy. eapply Ia; [exact (proj1 Gx)|exact (proj1 Gy)].
    - intros k Hk. apply Ka. cbn [aid restrict_vals].
      destruct (get (am (restrict_vals (slots n1) a1)) k) as [v|] eqn:G; [|congruence].
      apply restrict_vals_get in G. destruct G as [G _]. congruence.
    - exact (lcanon_children_inj s n1 LC). }
  apply (sim_get_ext E s a1 (restrict_vals (slots n1) a1)); [reflexivity| |exact SIM].
  intros x.
  destruct (get (am (restrict_to (sset_inter (values (am a1)) (values bm)) a1)) x) as [v|] eqn:G1.
  - symmetry. apply restrict_vals_get. apply (restrict_to_get _ a1 x v Wa) in G1. destruct G1 as [G M]. split; [exact G|].
    apply sset_mem_in in M. unfold sset_inter in M. apply filter_In in M. destruct M as [_ M]. apply sset_mem_in in M.
    apply (values_spec bm v Wbm) in M. destruct M as (k & Gk). pose proof (Hb k) as T.
    destruct (get (am a1) k) as [y|] eqn:Gy; [|congruence]. destruct (get m y) as [z|] eqn:Gz.
    + rewrite Gk in T. inversion T; subst z. pose proof (Mid _ _ Gz). subst y. apply slots_spec. eapply Hm2; eauto.
    + destruct T as (z & G2 & Lz). rewrite Gk in G2. inversion G2; subst z. pose proof (Vb _ _ G). lia.
  - destruct (get (am (restrict_vals (slots n1) a1)) x) as [v|] eqn:G2; [|reflexivity]. exfalso.
    apply restrict_vals_get in G2. destruct G2 as [G Hv].
    assert (G3 : get (am (restrict_to (sset_inter (values (am a1)) (values bm)) a1)) x = Some v).
    { apply (restrict_to_get _ a1 x v Wa). split; [exact G|]. apply sset_mem_in. unfold sset_inter. apply filter_In. split.
      - apply (values_spec (am a1) v Wa). eauto.
      - apply sset_mem_in. apply (values_spec bm v Wbm). exists x. pose proof (Hb x) as T. rewrite G in T.
        apply slots_spec in Hv. destruct (Hm3 v Hv) as (z & Gz). rewrite Gz in T. rewrite (Mid _ _ Gz) in T. exact T. }
    congruence.
Qed.

(* ---------------- handle_congruence ---------------- *)

(* the source id behind a hashcons hit *)
Lemma pc_from_shape_src : forall s k pc2, pc_from_shape s k = Ok pc2 ->
  exists i2 c2 bij2 src2, na_get (hashcons s) k = Some i2 /\ get_class s i2 = Ok c2 /\
    na_get (c_nodes c2) k = Some (bij2, src2) /\ pc_from_src_id s src2 = Ok pc2.
Proof.
  intros s k pc2 P2. unfold pc_from_shape in P2. destruct (na_get (hashcons s) k) as [i2|] eqn:E1; [|discriminate].
  destruct (get_class s i2) as [c2|] eqn:E2; cbn [bind] in P2; [|discriminate].
  destruct (na_get (c_nodes c2) k) as [[bj src2]|] eqn:E3; [|discriminate]. exists i2, c2, bj, src2.
  split; [reflexivity|]. split; [exact E2|]. split; [exact E3|exact P2].
Qed.

(* the LOCAL premise of handle_congruence: the two weak shapes composed by pc_congruence are equal *)
Definition hc_shapes_eqb (pc1 pc2 : pcont) : bool :=
  match wshape (fst pc1), wshape (fst pc2) with
  | Ok w1, Ok w2 => node_eqb (fst w1) (fst w2)
  | _, _ => false
  end.

Theorem HC_sim_local : forall E src s pc1 sh pc2 ab s1, inv3 s -> syn_wf s -> Sound E s -> syn_cov s ->
  pc_from_src_id s src = Ok pc1 -> shape s (fst pc1) = Ok sh -> pc_from_shape s (fst sh) = Ok pc2 ->
  hc_shapes_eqb pc1 pc2 = true ->
  pc_congruence pc1 pc2 s = Ok (ab, s1) -> sim E s (fst ab) (snd ab).
Proof.
  intros E src s [n1 a1] sh [n2 a2] ab s1 I3 W S SC P1 _ P2 EQ H.
  destruct (pc_from_shape_src _ _ _ P2) as (i2 & c2 & bj & src2 & _ & _ & _ & P2').
  destruct (pc_facts E s src (n1, a1) I3 W S SC P1) as (NS1 & L1 & Wa1 & Ia1 & Ka1 & LC1 & Bnd1 & _).
  destruct (pc_facts E s src2 (n2, a2) I3 W S SC P2') as (NS2 & L2 & Wa2 & Ia2 & Ka2 & _). cbn [fst snd] in *.
  unfold hc_shapes_eqb in EQ. cbn [fst] in EQ.
  destruct (wshape n1) as [[sh1 bij1]|] eqn:Hw1; [|discriminate]. destruct (wshape n2) as [[sh2 bij2]|] eqn:Hw2; [|discriminate].
  cbn [fst] in EQ. apply node_eqb_iff in EQ. subst sh2.
  exact (pcc_sim E s s n1 a1 n2 a2 ab s1 sh1 bij1 bij2 NS1 NS2 Hw1 Hw2 Ia1 Ka1 Wa2 Ia2 Ka2 (lcanon_children_inj s n1 LC1) Bnd1 H).
Qed.

(* ====================================================================== *)
(* summary                                                                 *)
(* ======================================================================
   PROVED (closed under the global context):
   - NodeT_exists: a node whose child maps are injective has a term under every admissible renaming.
   - nsound2_sim: two invocations a, b denoted by the same node n (nsound a n, nsound b n) are related:
     sim a b (via SoundUnion.simw_sim: generic renamings suffice).
   - nsound_equiv: nsound is transported along a renaming theta of the node (equiv_by theta n n'), the
     invocation being composed with theta; pairs whose value is not a slot of the node may be dropped
     or added (nsound_restrict_vals).
   - pcc_maps / pcc_sim: for two proven-contains (n1,a1), (n2,a2) with nsound a_i n_i whose weak shapes
     have the SAME first component, the pair built by pc_congruence is related by sim.
   - pre_shape_lcanon, find_enode_lcanon_id: the children of a pre-shape are leader-canonical; such a
     node is a fixed point of find_enode (the fact `find_enode s (fst pc1) = Ok (fst pc1)`).
   - pc_facts: everything the call sites need about pc_from_src_id (from SoundPending.pc_nsound).
   - HD_sim_proved  = spec_HD_sim  with the extra premise `syn_cov s0`;
     HSh_red_proved = spec_HSh_red with the extra premise `syn_cov s`;
     HC_sim_local   = spec_HC_sim  with the extra premises `syn_cov s` and the LOCAL premise
       `hc_shapes_eqb pc1 pc2 = true` (the two weak shapes composed by pc_congruence are equal).
   NEW RUN INVARIANT: syn_cov (the children of every syntactic node are covered); proved reachable
   and preserved in SoundReadd.v (`syn_cov_ext`, `syn_cov_add_expr`, `reachable_syn_cov`).
   See SoundCongAll.v for the assembly with SoundReadd.v / KidsCov.v / KeyInv.v. *)

Print Assumptions NodeT_exists.
Print Assumptions nsound2_sim.
Print Assumptions nsound_equiv.
Print Assumptions pcc_sim.
Print Assumptions pc_facts.
Print Assumptions HD_sim_proved.
Print Assumptions HSh_red_proved.
Print Assumptions HC_sim_local.
