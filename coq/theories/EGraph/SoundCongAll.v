(* EGraph/SoundCongAll.v — C01: assembly of SoundCong.v (pc_congruence call sites), SoundReadd.v
   (link_rename, syn_cov), KidsCov.v (kids_cov) and KeyInv.v (key invariant, guarded model):
   the four `spec_*` propositions of SoundPending.v under run invariants.  Summary at the end. *)
From SE Require Import Slots.SlotMapFacts Group.GroupSound Lang.LangFacts Lang.ShapeFacts Lang.RenameFacts
  EGraph.Model EGraph.ModelFacts EGraph.ModelMachine EGraph.UnionFindFacts EGraph.InvariantFacts
  EGraph.UnionInvariantFacts EGraph.AddCoversFacts EGraph.MonotoneFacts EGraph.SoundFacts EGraph.SoundUnion
  EGraph.SoundSyn EGraph.SoundNode EGraph.SoundBase EGraph.SoundAddExpr EGraph.SoundPending.
From SE Require EGraph.SoundCong EGraph.SoundReadd EGraph.KidsCov EGraph.KeyInv.
From SE Require Import Sem.Deriv Sem.DerivFacts Sem.AlgebraFacts Sem.EgMachine Explain.CheckerFacts.
Require Import ZArith Lia ZifyBool ZifyN ZifyNat.

Local Notation "a ** b" := (compose_partial a b) (at level 40, left associativity).
Local Notation inv := inverse_nocheck.
Local Notation ectr := Model.ctr.

(* the two definitions of syn_cov (SoundCong.v, SoundReadd.v) are the same proposition *)
Lemma syn_cov_same : forall s, SoundCong.syn_cov s <-> SoundReadd.syn_cov s.
Proof. intros s. split; intros H; exact H. Qed.

(* kids_cov looks at the classes only *)
Lemma kids_cov_classes : forall s s', classes s' = classes s -> KidsCov.kids_cov s -> KidsCov.kids_cov s'.
Proof.
  intros s s' Hc K i c sh bij src a Hi Hin Ha. rewrite (get_class_classes _ _ _ Hc) in Hi.
  destruct (K _ _ _ _ _ _ Hi Hin Ha) as (ca & Hca & Ia & Sa). exists ca. rewrite (get_class_classes _ _ _ Hc). auto.
Qed.
Corollary kids_cov_cuR : forall s s', cuR s s' -> KidsCov.kids_cov s -> KidsCov.kids_cov s'.
Proof. intros s s' [Hc _]. apply kids_cov_classes. exact Hc. Qed.

(* ---------------------------------------------------------------------- *)
(* 1, 2: spec_HD_sim, spec_HSh_red under syn_cov: SoundCong.HD_sim_proved, SoundCong.HSh_red_proved *)

(* ---------------------------------------------------------------------- *)
(* 3: spec_HC_sim under syn_cov, the key invariant and the two idempotence facts of `shape` *)
Theorem HC_sim_key : forall E src s pc1 sh pc2 ab s1, inv3 s -> syn_wf s -> Sound E s -> SoundCong.syn_cov s ->
  KeyInv.key_inv s -> KeyInv.pc_idem s pc1 -> KeyInv.shape_canonical s (fst pc1) ->
  pc_from_src_id s src = Ok pc1 -> shape s (fst pc1) = Ok sh -> pc_from_shape s (fst sh) = Ok pc2 ->
  pc_congruence pc1 pc2 s = Ok (ab, s1) -> sim E s (fst ab) (snd ab).
Proof.
  intros E src s pc1 sh pc2 ab s1 I3 W S SC K PI CA P1 Hsh P2 H.
  apply (SoundCong.HC_sim_local E src s pc1 sh pc2 ab s1 I3 W S SC P1 Hsh P2); [|exact H].
  unfold SoundCong.hc_shapes_eqb.
  destruct (UnionInvariantFacts.pc_congruence_dec _ _ _ _ _ H) as (sa & sb & _ & _ & _ & _ & _ & _ & S1 & S2 & _).
  rewrite S1, S2. exact (KeyInv.hc_local_b s src pc1 sh pc2 sa sb K PI CA P1 Hsh P2 S1 S2).
Qed.

(* 4: spec_HS_readd under mod4_ok and kids_cov: see SoundFinal.HS_readd_x_proved (re-derived against the
   threaded SoundPending.v) *)

Print Assumptions HC_sim_key.
Print Assumptions kids_cov_cuR.
