(* EGraph/SoundFacts.v — C01 "equality is sound": the semantic invariant of the e-graph model and the
   machine-checked skeleton "the invariant is preserved by every step  ==>  eg_eq is sound".
   See the summary at the end of the file for what is proved and what is assumed. *)
From SE Require Import Slots.SlotMapFacts Group.GroupSound Lang.LangFacts
  EGraph.Model EGraph.ModelFacts EGraph.ModelMachine EGraph.UnionFindFacts EGraph.InvariantFacts
  EGraph.UnionInvariantFacts EGraph.AddCoversFacts.
From SE Require Import Sem.Deriv Sem.DerivFacts Sem.EgMachine Explain.CheckerFacts.
Require Import ZArith Lia ZifyBool ZifyN ZifyNat.
Ltac Zify.zify_post_hook ::= Z.div_mod_to_equations.

Local Notation "a ** b" := (compose_partial a b) (at level 40, left associativity).
Local Notation inv := inverse_nocheck.

(* ====================================================================== *)
(* 1. the term of a class                                                  *)
(* ====================================================================== *)

(* a renaming updated at a binder; a renaming pulled back through the slot map of a child *)
Definition upd (rho : N -> N) (x : slot) (v : N) : N -> N := fun y => if y =? x then v else rho y.
Definition thru (m : slotmap) (rho : N -> N) : N -> N :=
  fun y => match get m y with Some v => rho v | None => y end.

(* the canonical term of one argument of a node, under d binders, free slots renamed by rho;
   `child d rho a` is the term of the child invocation a *)
Fixpoint arg_t (child : nat -> (N -> N) -> appid -> cterm) (d : nat) (rho : N -> N) (a : farg) : carg :=
  match a with
  | ASlot x => CSlot (rho x)
  | AApp x => CChild (child d rho x)
  | ABind x b => CBind (arg_t child (S d) (upd rho x (B d)) b)
  | APay p => CPay p
  end.

(* syn_t s fuel d rho i = "rename rho (syn i)" of the design document, placed under d binders: the
   syntactic node c_syn of class i is unfolded recursively; a child invocation (j, m) contributes
   the term of j renamed by rho o m (the maps of a syntactic node are total on the syntactic slots
   of the child, cf. synify_app_id).  The syn graph is acyclic: a syntactic node only mentions older
   ids (`syn_acyc` below).  The definition has this built in (a child whose id is not older
   contributes the dummy term), so that N.to_nat i + 1 units of fuel always suffice
   (`syn_t_fuel`) and the term of a class does not depend on classes allocated later (`clsT_ext0`). *)
Definition dummy : cterm := CT 0 [].

Fixpoint syn_t (s : egraph) (fuel : nat) (d : nat) (rho : N -> N) (i : N) : cterm :=
  match fuel with
  | O => dummy
  | S f =>
      match nth_opt (classes s) (N.to_nat i) with
      | None => dummy
      | Some c =>
          CT (nvar (c_syn c))
             (map (arg_t (fun d' rho' a =>
                            if aid a <? i then syn_t s f d' (thru (am a) rho') (aid a) else dummy) d rho)
                  (nargs (c_syn c)))
      end
  end.

Definition syn_at (s : egraph) (d : nat) (rho : N -> N) (i : N) : cterm := syn_t s (S (N.to_nat i)) d rho i.
Definition clsT (s : egraph) (rho : N -> N) (i : N) : cterm := syn_at s 0 rho i.

Definition syn_acyc (s : egraph) : Prop :=
  forall i c a, get_class s i = Ok c -> In a (app_occ (c_syn c)) -> aid a < i.
Definition syn_acycb (s : egraph) : bool :=
  forallb (fun p => forallb (fun a => aid a <? N.of_nat (fst p)) (app_occ (c_syn (snd p))))
          (combine (seq 0 (List.length (classes s))) (classes s)).

(* the syntactic slots of a class *)
Definition SS (s : egraph) (i : N) : sset :=
  match get_class s i with Ok c => slots (c_syn c) | Err _ => [] end.

(* ====================================================================== *)
(* 2. completions, denotations, the relation between invocations           *)
(* ====================================================================== *)

(* an admissible renaming of the term of a class: injective on its syntactic slots, and no slot is
   sent to the reserved name of a binder level *)
Definition rokL (L : list N) (sg : N -> N) : Prop :=
  (forall x y, In x L -> In y L -> sg x = sg y -> x = y) /\ (forall x, In x L -> is_B (sg x) = false).
Definition rok (s : egraph) (i : N) (sg : N -> N) : Prop := rokL (SS s i) sg.

(* completion of an invocation a = i.m : an admissible renaming that extends m *)
Definition completion (s : egraph) (a : appid) (sg : N -> N) : Prop :=
  rok s (aid a) sg /\ forall x v, get (am a) x = Some v -> sg x = v.

(* den a = { rename m^ (syn i) | m^ completion of m } *)
Definition den (s : egraph) (a : appid) (t : cterm) : Prop :=
  exists sg, completion s a sg /\ t = clsT s sg (aid a).

(* a ~~ b, in its renaming-closed form: whenever two admissible renamings sg (of the class of a) and
   tau (of the class of b) identify the arguments that a and b identify, the renamed class terms
   are derivably equal.  (Taking sg, tau to be completions gives the formulation with den.) *)
Definition sim (E : equations) (s : egraph) (a b : appid) : Prop :=
  forall sg tau, rok s (aid a) sg -> rok s (aid b) tau ->
    (forall x y v, get (am a) x = Some v -> get (am b) y = Some v -> sg x = tau y) ->
    Deriv E 0 (clsT s sg (aid a)) (clsT s tau (aid b)).

Definition sim_den (E : equations) (s : egraph) (a b : appid) : Prop :=
  forall t u, den s a t -> den s b u -> Deriv E 0 t u.

Lemma sim_sim_den : forall E s a b, sim E s a b -> sim_den E s a b.
Proof.
  intros E s a b H t u (sg & [Rs Cs] & ->) (tau & [Rt Ct] & ->). apply H; try assumption.
  intros x y v Hx Hy. rewrite (Cs _ _ Hx), (Ct _ _ Hy). reflexivity.
Qed.

Lemma sim_sym : forall E s a b, sim E s a b -> sim E s b a.
Proof.
  intros E s a b H sg tau Rs Rt C. apply D_sym. apply H; try assumption.
  intros x y v Hx Hy. symmetry. eapply C; eauto.
Qed.

Lemma sim_mono : forall E E' s a b, (forall e, In e E -> In e E') -> sim E s a b -> sim E' s a b.
Proof. intros E E' s a b HE H sg tau Rs Rt C. eapply Deriv_mono; [exact HE|]. apply H; assumption. Qed.

(* i.id on the syntactic slots, c.id on the class slots *)
Definition idapp (s : egraph) (i : N) : appid := {| aid := i; am := identity (SS s i) |}.
Definition cidapp (i : N) (c : eclass) : appid := {| aid := i; am := identity (c_slots c) |}.

(* ====================================================================== *)
(* 3. the terms of a stored node                                           *)
(* ====================================================================== *)

(* admissible under d binders: values may also be the names of the d enclosing binders *)
Definition rokdL (d : nat) (L : list N) (sg : N -> N) : Prop :=
  (forall x y, In x L -> In y L -> sg x = sg y -> x = y) /\ (forall x, In x L -> fr d (sg x)).

(* NodeArg s d rho a t: t is the argument a of a node, under d binders, its free slots renamed by
   rho, every child invocation (j, m) replaced by an element of den: the term of j renamed by some
   admissible tau that extends rho o m *)
Inductive NodeArg (s : egraph) : nat -> (N -> N) -> farg -> carg -> Prop :=
| NA_slot : forall d rho x, NodeArg s d rho (ASlot x) (CSlot (rho x))
| NA_pay : forall d rho p, NodeArg s d rho (APay p) (CPay p)
| NA_bind : forall d rho x b t, NodeArg s (S d) (upd rho x (B d)) b t -> NodeArg s d rho (ABind x b) (CBind t)
| NA_app : forall d rho a tau, rokdL d (SS s (aid a)) tau ->
    (forall y v, get (am a) y = Some v -> tau y = rho v) ->
    NodeArg s d rho (AApp a) (CChild (syn_at s d tau (aid a))).

Definition NodeT (s : egraph) (rho : N -> N) (n : node) (t : cterm) : Prop :=
  exists args, Forall2 (NodeArg s 0 rho) (nargs n) args /\ t = CT (nvar n) args.

(* ====================================================================== *)
(* 4. the invariant                                                        *)
(* ====================================================================== *)

Record Sound (E : equations) (s : egraph) : Prop := {
  (* I1: i.id ~~ unionfind[i] *)
  snd_uf : forall i e, uentry (unionfind s) i = Some e -> sim E s (idapp s i) e;
  (* I2: every stored node of a class is equal to the class: for the node n = sh[bij] of class i,
     every admissible renaming sg of the syntactic slots of i and of the slots of n, and every
     term t of n under sg (children replaced by elements of their den): sg(syn i) = t *)
  snd_node : forall i c sh bij src n sg t, get_class s i = Ok c -> In (sh, (bij, src)) (c_nodes c) ->
     apply_slotmap false bij sh = Ok n ->
     rokL (SS s i ++ slots n) sg -> NodeT s sg n t -> Deriv E 0 (clsT s sg i) t;
  (* I3 (+ I4, the case pi = id): every member pi of the group of a class is a symmetry: c.id ~~ c.pi *)
  snd_grp : forall i c p, get_class s i = Ok c -> perm_on (c_slots c) p ->
     gcontains false (c_group c) p = Ok true -> sim E s (cidapp i c) {| aid := i; am := p |} }.

(* I5: the handle a returned for the inserted term t: t is equal to every completion of a *)
Definition handle_ok (E : equations) (s : egraph) (a : appid) (t : cterm) : Prop :=
  (forall x v, get (am a) x = Some v -> is_B v = false) /\
  forall sg, completion s a sg -> Deriv E 0 t (clsT s sg (aid a)).

Lemma Sound_mono : forall E E' s, (forall e, In e E -> In e E') -> Sound E s -> Sound E' s.
Proof.
  intros E E' s HE [A Bn C]. constructor.
  - intros i e H. eapply sim_mono; eauto.
  - intros. eapply Deriv_mono; [exact HE|]. eapply Bn; eauto.
  - intros i c p H1 H2 H3. eapply sim_mono; eauto.
Qed.

Lemma handle_ok_mono : forall E E' s a t, (forall e, In e E -> In e E') -> handle_ok E s a t -> handle_ok E' s a t.
Proof. intros E E' s a t HE [A Bn]. split; [exact A|]. intros sg H. eapply Deriv_mono; [exact HE|]. auto. Qed.

(* I4: slots outside the class slots are redundant *)
Lemma Sound_redundant : forall E s i c, Sound E s -> cls_ok s -> get_class s i = Ok c ->
  sim E s (cidapp i c) (cidapp i c).
Proof.
  intros E s i c S C Hc. destruct (C _ _ Hc) as (W & G & _).
  apply (snd_grp E s S i c (identity (c_slots c)) Hc).
  - apply identity_is_id.
  - apply gcontains_identity. exact G.
Qed.

(* ====================================================================== *)
(* 5. extending a renaming along a slot map                                *)
(* ====================================================================== *)

(* x |-> sg (m x) where m is defined, a new name (not a binder name, above K) elsewhere *)
Definition ext_ren (sg : N -> N) (m : slotmap) (K : N) (x : N) : N :=
  match get m x with Some v => sg v | None => 4 * (x + K) end.

Definition bound_of (sg : N -> N) (L : list N) : N := bnd (map sg L) + 1.

Lemma bound_of_spec : forall sg L v, In v L -> sg v < 4 * bound_of sg L.
Proof.
  intros sg L v H. unfold bound_of. pose proof (bnd_ge (map sg L) (sg v) (in_map sg _ _ H)). lia.
Qed.

Lemma ext_ren_rok : forall L L' sg m, rokL L sg -> injective m ->
  (forall k v, get m k = Some v -> In v L) -> rokL L' (ext_ren sg m (bound_of sg L)).
Proof.
  intros L L' sg m [Inj NB] Im Vm. split.
  - intros x y _ _. unfold ext_ren.
    destruct (get m x) as [v|] eqn:Ex; destruct (get m y) as [w|] eqn:Ey; intros H.
    + pose proof (Inj v w (Vm _ _ Ex) (Vm _ _ Ey) H). subst w. eapply Im; eauto.
    + pose proof (bound_of_spec sg L v (Vm _ _ Ex)). lia.
    + pose proof (bound_of_spec sg L w (Vm _ _ Ey)). lia.
    + lia.
  - intros x _. unfold ext_ren. destruct (get m x) as [v|] eqn:Ex.
    + apply NB. eapply Vm; eauto.
    + unfold is_B. lia.
Qed.

(* ====================================================================== *)
(* 6. Stage 1: eg_eq is sound in every state that satisfies the invariant   *)
(* ====================================================================== *)

Lemma SS_class : forall s i c, get_class s i = Ok c -> SS s i = slots (c_syn c).
Proof. intros s i c H. unfold SS. rewrite H. reflexivity. Qed.

Lemma identity_get : forall sl x v, get (identity sl) x = Some v -> x = v /\ In v sl.
Proof.
  intros sl x v H. rewrite get_identity in H. destruct (sset_mem x sl) eqn:E; [|discriminate].
  inversion H; subst v. split; [reflexivity|]. apply sset_mem_in. exact E.
Qed.

Lemma identity_get_in : forall sl x, In x sl -> get (identity sl) x = Some x.
Proof. intros sl x H. rewrite get_identity. apply sset_mem_in in H. rewrite H. reflexivity. Qed.

(* applying a covering map n to both sides of i.id ~~ j.m *)
Lemma sim_app : forall E s i j m n, sim E s (idapp s i) {| aid := j; am := m |} -> wf m ->
  (forall y v, get m y = Some v -> In v (SS s i) /\ get n v <> None) ->
  sim E s {| aid := i; am := n |} {| aid := j; am := m ** n |}.
Proof.
  intros E s i j m n H Wm Hv sg tau Rs Rt C. cbn [aid am] in *. apply (H sg tau Rs Rt).
  cbn [aid am idapp]. intros x y v Hx Hy. apply identity_get in Hx. destruct Hx as [-> Hin].
  destruct (Hv _ _ Hy) as [_ Hn]. destruct (get n v) as [w|] eqn:En; [|congruence].
  apply (C v y w En). rewrite get_compose_partial by assumption. rewrite Hy. exact En.
Qed.

(* I1 along the chain of the union-find *)
Lemma uf_get_sim : forall E s, Sound E s -> eg_inv s ->
  forall fuel i p ci, uf_get_go fuel (unionfind s) i = Ok p -> get_class s i = Ok ci ->
  sim E s (idapp s i) p.
Proof.
  intros E s S [Hok Hs Hcl]. induction fuel as [|f IH]; intros i p ci H Hci; [discriminate|].
  cbn [uf_get_go] in H. destruct (nth_opt (unionfind s) (N.to_nat i)) as [e|] eqn:He; [|discriminate].
  destruct (aid e =? i) eqn:Ei.
  - inversion H; subst p. apply (snd_uf E s S). exact He.
  - apply N.eqb_neq in Ei.
    destruct (uf_get_go f (unionfind s) (aid e)) as [l|] eqn:Hl; [|discriminate]. cbn [bind] in H.
    inversion H; subst p. clear H.
    destruct (get_class_ok s (aid e)) as [cq Hcq].
    { rewrite <- (uso_wf s Hs). eapply (ufl_bound _ Hok); eauto. }
    pose proof (IH _ _ _ Hl Hcq) as SL.
    pose proof (snd_uf E s S i e He) as SE.
    destruct (uf_get_go_canon s Hok Hs _ _ _ _ Hl Hcq) as (cl & Hcl' & Wl & Il & Kl & Vl).
    destruct (uso_edge s Hs _ _ _ _ He Ei Hci Hcq) as (Ie & Se & Ve).
    destruct (Hcl _ _ Hci) as (_ & _ & Sub_i).
    destruct (Hcl _ _ Hcq) as (_ & _ & Sub_q).
    intros sg tau Rs Rt C. cbn [aid am idapp] in *.
    set (rho := ext_ren sg (am e) (bound_of sg (SS s i))).
    assert (Rr : rok s (aid e) rho).
    { apply (ext_ren_rok (SS s i)); [exact Rs|exact Ie|].
      intros k v G. rewrite (SS_class _ _ _ Hci). apply Sub_i. eapply Ve; eauto. }
    apply D_trans with (clsT s rho (aid e)).
    + apply (SE sg rho Rs Rr). cbn [aid am idapp]. intros x y v Hx Hy.
      apply identity_get in Hx. destruct Hx as [-> _]. unfold rho, ext_ren. rewrite Hy. reflexivity.
    + apply (SL rho tau Rr Rt). cbn [aid am idapp]. intros x y w Hx Hy.
      apply identity_get in Hx. destruct Hx as [-> _].
      pose proof (Vl _ _ Hy) as Hw. pose proof (Se _ Hw) as Hk.
      destruct (get (am e) w) as [v|] eqn:Ev; [|congruence].
      unfold rho, ext_ren. rewrite Ev.
      assert (Hv : In v (SS s i)). { rewrite (SS_class _ _ _ Hci). apply Sub_i. eapply Ve; eauto. }
      apply (C v y v); [apply identity_get_in; exact Hv|].
      rewrite get_compose_partial by assumption. rewrite Hy. exact Ev.
Qed.

(* an invocation and its canonical form *)
Lemma find_sim : forall E s a a', Sound E s -> eg_inv s -> covers s a ->
  find_applied_id s a = Ok a' -> sim E s a a'.
Proof.
  intros E s a a' S I (c & Hc & Ia & Sa) H. pose proof I as [Hok Hs Hcl].
  unfold find_applied_id, unionfind_get in H.
  destruct (uf_get_go _ _ _) as [p|] eqn:Hp; [|discriminate]. cbn [bind] in H. inversion H; subst a'.
  destruct (uf_get_go_canon s Hok Hs _ _ _ _ Hp Hc) as (cl & Hcl' & Wl & Il & Kl & Vl).
  destruct (Hcl _ _ Hc) as (_ & _ & Sub).
  pose proof (uf_get_sim E s S I _ _ _ _ Hp Hc) as SP.
  destruct a as [i n]. destruct p as [j m]. cbn [aid am] in *.
  apply sim_app; [exact SP|exact Wl|].
  intros y v G. split.
  - rewrite (SS_class _ _ _ Hc). apply Sub. eapply Vl; eauto.
  - apply Sa. eapply Vl; eauto.
Qed.

(* two canonical invocations of the same class whose quotient is in the group *)
Lemma canon_sim : forall E s l ma mb c, Sound E s -> get_class s l = Ok c ->
  wf ma -> wf mb -> is_bijection ma = true -> is_bijection mb = true ->
  keys ma = c_slots c -> keys mb = c_slots c -> values ma = values mb ->
  gcontains false (c_group c) (ma ** inv mb) = Ok true ->
  sim E s {| aid := l; am := ma |} {| aid := l; am := mb |}.
Proof.
  intros E s l ma mb c S Hc Wa Wb Ba Bb Ka Kb V G sg tau Rs Rt C. cbn [aid am] in *.
  pose proof (quot_perm_on (c_slots c) ma mb Wa Wb Ba Bb Ka Kb V) as P.
  apply D_sym. apply (snd_grp E s S l c _ Hc P G tau sg Rt Rs).
  cbn [aid am cidapp]. intros x y v Hx Hy. apply identity_get in Hx. destruct Hx as [-> _].
  apply (quot_get ma mb Wa Wb Bb) in Hy. destruct Hy as (u & Hu & Hv). symmetry. eapply C; eauto.
Qed.

Theorem eq_sound_of_Sound : forall E s a b, Sound E s -> inv3 s -> covers s a -> covers s b ->
  eg_eq s a b = Ok true -> sim E s a b.
Proof.
  intros E s a b S [[I _] _] Ca Cb H. pose proof I as [Hok Hs Hcl].
  destruct (covers_find_ok s a Hok Hs Ca) as (a' & Fa & (c & Hc & Gc & Wa & Ba & Ka)).
  destruct (covers_find_ok s b Hok Hs Cb) as (b' & Fb & (c' & Hc' & _ & Wb & Bb & Kb)).
  pose proof (find_sim E s a a' S I Ca Fa) as SA.
  pose proof (find_sim E s b b' S I Cb Fb) as SB.
  unfold eg_eq in H. rewrite Fa, Fb in H. cbn [bind] in H.
  destruct (aid a' =? aid b') eqn:Ei; cbn [negb] in H; [|discriminate]. apply N.eqb_eq in Ei.
  destruct (sset_eqb (values (am a')) (values (am b'))) eqn:V; cbn [negb] in H; [|discriminate].
  apply sset_eqb_eq in V. rewrite Hc in H. cbn [bind] in H.
  rewrite <- Ei, Hc in Hc'. inversion Hc'; subst c'.
  assert (SC : sim E s a' b').
  { destruct a' as [l ma]. destruct b' as [l' mb]. cbn [aid am] in *. subst l'.
    eapply canon_sim; eauto. }
  (* the middle renamings *)
  destruct Ca as (ca & Hca & Ia & Sa). destruct Cb as (cb & Hcb & Ib & Sb).
  unfold find_applied_id, unionfind_get in Fa, Fb.
  destruct (uf_get_go _ _ (aid a)) as [pa|] eqn:Hpa; [|discriminate]. cbn [bind] in Fa.
  destruct (uf_get_go _ _ (aid b)) as [pb|] eqn:Hpb; [|discriminate]. cbn [bind] in Fb.
  destruct (uf_get_go_canon s Hok Hs _ _ _ _ Hpa Hca) as (cla & Hcla & Wpa & Ipa & Kpa & Vpa).
  destruct (uf_get_go_canon s Hok Hs _ _ _ _ Hpb Hcb) as (clb & Hclb & Wpb & Ipb & Kpb & Vpb).
  destruct (Hcl _ _ Hca) as (_ & _ & Sub_a). destruct (Hcl _ _ Hcb) as (_ & _ & Sub_b).
  inversion Fa; subst a'. inversion Fb; subst b'. cbn [aid am] in *.
  intros sg tau Rs Rt C.
  set (r1 := ext_ren sg (am pa) (bound_of sg (SS s (aid a)))).
  set (r2 := ext_ren tau (am pb) (bound_of tau (SS s (aid b)))).
  assert (R1 : rok s (aid pa) r1).
  { apply (ext_ren_rok (SS s (aid a))); [exact Rs|exact Ipa|].
    intros k v G. rewrite (SS_class _ _ _ Hca). apply Sub_a. eapply Vpa; eauto. }
  assert (R2 : rok s (aid pb) r2).
  { apply (ext_ren_rok (SS s (aid b))); [exact Rt|exact Ipb|].
    intros k v G. rewrite (SS_class _ _ _ Hcb). apply Sub_b. eapply Vpb; eauto. }
  apply D_trans with (clsT s r1 (aid pa)).
  { apply (SA sg r1 Rs R1). cbn [aid am]. intros x y v Hx Hy.
    rewrite get_compose_partial in Hy by assumption.
    destruct (get (am pa) y) as [w|] eqn:Ew; [|discriminate].
    pose proof (Ia _ _ _ Hx Hy). subst w. unfold r1, ext_ren. rewrite Ew. reflexivity. }
  apply D_trans with (clsT s r2 (aid pb)).
  { apply (SC r1 r2 R1 R2). cbn [aid am]. intros x y v Hx Hy.
    rewrite get_compose_partial in Hx, Hy by assumption.
    destruct (get (am pa) x) as [w1|] eqn:E1; [|discriminate].
    destruct (get (am pb) y) as [w2|] eqn:E2; [|discriminate].
    unfold r1, r2, ext_ren. rewrite E1, E2. eapply C; eauto. }
  { apply D_sym. apply (SB tau r2 Rt R2). cbn [aid am]. intros x y v Hx Hy.
    rewrite get_compose_partial in Hy by assumption.
    destruct (get (am pb) y) as [w|] eqn:Ew; [|discriminate].
    pose proof (Ib _ _ _ Hx Hy). subst w. unfold r2, ext_ren. rewrite Ew. reflexivity. }
Qed.

(* ====================================================================== *)
(* 7. the term of a class never changes after the class is allocated        *)
(* ====================================================================== *)

Lemma arg_t_ext : forall c1 c2, (forall d rho a, c1 d rho a = c2 d rho a) ->
  forall a d rho, arg_t c1 d rho a = arg_t c2 d rho a.
Proof.
  intros c1 c2 H. induction a as [x|x|x b IH|p]; intros d rho; cbn [arg_t]; try reflexivity.
  - rewrite H. reflexivity.
  - rewrite IH. reflexivity.
Qed.

Lemma syn_t_fuel : forall s f f' d rho i, (N.to_nat i < f)%nat -> (N.to_nat i < f')%nat ->
  syn_t s f d rho i = syn_t s f' d rho i.
Proof.
  intros s. induction f as [|f IH]; intros f' d rho i H1 H2; [lia|]. destruct f' as [|f']; [lia|].
  cbn [syn_t]. destruct (nth_opt (classes s) (N.to_nat i)) as [c|]; [|reflexivity].
  f_equal. apply map_ext. intros a. apply arg_t_ext. intros d' rho' x.
  destruct (aid x <? i) eqn:Ex; [|reflexivity]. apply N.ltb_lt in Ex. apply IH; lia.
Qed.

Lemma syn_t_ext0 : forall s s', ext0 s s' -> forall f d rho i, (N.to_nat i < lc s)%nat ->
  syn_t s' f d rho i = syn_t s f d rho i.
Proof.
  intros s s' [_ X]. induction f as [|f IH]; intros d rho i Hi; [reflexivity|]. cbn [syn_t].
  destruct (get_class_ok s i Hi) as [c Hc]. destruct (X _ _ Hc) as (c' & Hc' & _ & Sy).
  unfold get_class in Hc, Hc'.
  destruct (nth_opt (classes s) (N.to_nat i)) as [c0|]; [|discriminate]. inversion Hc; subst c0.
  destruct (nth_opt (classes s') (N.to_nat i)) as [c0|]; [|discriminate]. inversion Hc'; subst c0.
  rewrite Sy. f_equal. apply map_ext. intros a. apply arg_t_ext. intros d' rho' x.
  destruct (aid x <? i) eqn:Ex; [|reflexivity]. apply N.ltb_lt in Ex. apply IH. lia.
Qed.

Theorem clsT_ext0 : forall s s' rho i c, ext0 s s' -> get_class s i = Ok c -> clsT s' rho i = clsT s rho i.
Proof. intros s s' rho i c X Hc. apply syn_t_ext0; [exact X|]. eapply get_class_lt; eauto. Qed.

Lemma SS_ext0 : forall s s' i c, ext0 s s' -> get_class s i = Ok c -> SS s' i = SS s i.
Proof.
  intros s s' i c [_ X] Hc. destruct (X _ _ Hc) as (c' & Hc' & _ & Sy). unfold SS. rewrite Hc, Hc', Sy. reflexivity.
Qed.

Lemma sim_ext0 : forall E s s' a b ca cb, ext0 s s' -> get_class s (aid a) = Ok ca -> get_class s (aid b) = Ok cb ->
  sim E s a b -> sim E s' a b.
Proof.
  intros E s s' a b ca cb X Ha Hb H sg tau Rs Rt C. unfold rok in *.
  rewrite (SS_ext0 _ _ _ _ X Ha) in Rs. rewrite (SS_ext0 _ _ _ _ X Hb) in Rt.
  rewrite (clsT_ext0 _ _ _ _ _ X Ha), (clsT_ext0 _ _ _ _ _ X Hb). apply H; assumption.
Qed.

(* handles stay valid *)
Lemma handle_ok_ext0 : forall E s s' a t, ext0 s s' -> covers s a -> handle_ok E s a t -> handle_ok E s' a t.
Proof.
  intros E s s' a t X (c & Hc & _) [A H]. split; [exact A|]. intros sg [R Cs].
  rewrite (clsT_ext0 _ _ _ _ _ X Hc). apply H. split; [|exact Cs].
  unfold rok in *. rewrite (SS_ext0 _ _ _ _ X Hc) in R. exact R.
Qed.

(* ====================================================================== *)
(* 8. the empty e-graph                                                    *)
(* ====================================================================== *)

Theorem Sound_empty : forall E, Sound E empty_egraph.
Proof.
  intros E. constructor.
  - intros i e H. unfold uentry in H. cbn in H. destruct (N.to_nat i); discriminate.
  - intros i c sh bij src n sg t H. unfold get_class in H. cbn in H. destruct (N.to_nat i); discriminate.
  - intros i c p H. unfold get_class in H. cbn in H. destruct (N.to_nat i); discriminate.
Qed.

(* ====================================================================== *)
(* 9. symmetries: sound generators generate sound members                  *)
(* ====================================================================== *)

(* pi is a symmetry of class i: renamings that differ by pi give derivably equal terms *)
Definition perm_sound (E : equations) (s : egraph) (i : N) (p : perm) : Prop :=
  forall sg tau, rok s i sg -> rok s i tau -> (forall y v, get p y = Some v -> sg v = tau y) ->
    Deriv E 0 (clsT s sg i) (clsT s tau i).

Lemma perm_sound_sim : forall E s i c p, perm_on (c_slots c) p ->
  (perm_sound E s i p <-> sim E s (cidapp i c) {| aid := i; am := p |}).
Proof.
  intros E s i c p P. split.
  - intros H sg tau Rs Rt C. cbn [aid am cidapp] in *. apply H; try assumption.
    intros y v Hy. apply (C v y v); [|exact Hy]. apply identity_get_in. eapply po_val; eauto.
  - intros H sg tau Rs Rt C. apply (H sg tau Rs Rt). cbn [aid am cidapp]. intros x y v Hx Hy.
    apply identity_get in Hx. destruct Hx as [-> _]. apply C. exact Hy.
Qed.

Theorem generated_sound : forall E s i c gens, get_class s i = Ok c -> class_ok c ->
  Forall (perm_on (c_slots c)) gens ->
  perm_sound E s i (identity (c_slots c)) ->
  (forall g, In g gens -> perm_sound E s i g) ->
  forall p, generated (identity (c_slots c)) gens p -> perm_sound E s i p.
Proof.
  intros E s i c gens Hc (W & _ & Sub) HG Hid Hgens.
  pose proof (identity_is_id (c_slots c)) as Iid.
  assert (PO : forall p, generated (identity (c_slots c)) gens p -> perm_on (c_slots c) p).
  { intros p G. eapply generated_po; eauto. }
  intros p G. induction G as [|g Hg|a b Ga IHa Gb IHb|a Ga IHa].
  - exact Hid.
  - apply Hgens. exact Hg.
  - pose proof (PO _ Ga) as Pa. pose proof (PO _ Gb) as Pb.
    intros sg tau Rs Rt C.
    set (rho := ext_ren sg b (bound_of sg (SS s i))).
    assert (Rr : rok s i rho).
    { apply (ext_ren_rok (SS s i)); [exact Rs|apply Pb|].
      intros k v Gk. rewrite (SS_class _ _ _ Hc). apply Sub. eapply po_val; eauto. }
    apply D_trans with (clsT s rho i).
    + apply (IHb sg rho Rs Rr). intros w v Hw. unfold rho, ext_ren. rewrite Hw. reflexivity.
    + apply (IHa rho tau Rr Rt). intros y w Hy.
      destruct (po_get _ b w Pb (po_val _ _ _ _ Pa Hy)) as (v & Hv & _).
      unfold rho, ext_ren. rewrite Hv. apply C. rewrite (get_comp _ a b y Pa), Hy. exact Hv.
  - pose proof (PO _ Ga) as Pa. intros sg tau Rs Rt C. apply D_sym. apply (IHa tau sg Rt Rs).
    intros y v Hy. symmetry. apply C. apply (po_get_inv _ a y v Pa). exact Hy.
Qed.

(* I3 for a group built by group_new from sound generators *)
Corollary group_new_sound : forall E s i c gens, get_class s i = Ok c -> class_ok c ->
  Forall (perm_on (c_slots c)) gens -> group_new false (identity (c_slots c)) gens = Ok (c_group c) ->
  perm_sound E s i (identity (c_slots c)) ->
  (forall g, In g gens -> perm_sound E s i g) ->
  forall p, perm_on (c_slots c) p -> gcontains false (c_group c) p = Ok true ->
  sim E s (cidapp i c) {| aid := i; am := p |}.
Proof.
  intros E s i c gens Hc Ck HG Hn Hid Hgens p P G.
  apply (perm_sound_sim E s i c p P). eapply generated_sound; eauto.
  exact (gcontains_sound _ _ gens (identity_is_id (c_slots c)) HG _ _ P Hn G).
Qed.

(* ====================================================================== *)
(* 9b. Stage 3, first steps: the union-find write of move_to               *)
(* ====================================================================== *)

(* the invariant speaks about the classes and the union-find table only: a step that keeps the
   classes, and writes only sound entries into the table, keeps the invariant *)
Lemma syn_t_classes : forall s s', classes s' = classes s ->
  forall f d rho i, syn_t s' f d rho i = syn_t s f d rho i.
Proof.
  intros s s' Hc. induction f as [|f IH]; intros d rho i; [reflexivity|]. cbn [syn_t]. rewrite Hc.
  destruct (nth_opt (classes s) (N.to_nat i)) as [c|]; [|reflexivity].
  f_equal. apply map_ext. intros a. apply arg_t_ext. intros d' rho' x. rewrite IH. reflexivity.
Qed.

Lemma get_class_classes : forall s s' i, classes s' = classes s -> get_class s' i = get_class s i.
Proof. intros s s' i Hc. unfold get_class. rewrite Hc. reflexivity. Qed.

Lemma SS_classes : forall s s' i, classes s' = classes s -> SS s' i = SS s i.
Proof. intros s s' i Hc. unfold SS. rewrite (get_class_classes _ _ _ Hc). reflexivity. Qed.

Lemma sim_classes : forall E s s' a b, classes s' = classes s -> sim E s a b -> sim E s' a b.
Proof.
  intros E s s' a b Hc H sg tau Rs Rt C. unfold rok, clsT, syn_at in *.
  rewrite (SS_classes _ _ _ Hc) in Rs. rewrite (SS_classes _ _ _ Hc) in Rt.
  rewrite !(syn_t_classes _ _ Hc). apply H; assumption.
Qed.

Lemma NodeArg_classes : forall s s', classes s' = classes s ->
  forall d rho a t, NodeArg s' d rho a t -> NodeArg s d rho a t.
Proof.
  intros s s' Hc d rho a t H. induction H as [d rho x|d rho p|d rho x b t H IH|d rho a tau R Cm].
  - constructor.
  - constructor.
  - constructor. exact IH.
  - unfold syn_at. rewrite (syn_t_classes _ _ Hc). rewrite (SS_classes _ _ _ Hc) in R.
    apply (NA_app s d rho a tau R Cm).
Qed.

Theorem Sound_frame : forall E s s', classes s' = classes s ->
  (forall i e, uentry (unionfind s') i = Some e ->
     uentry (unionfind s) i = Some e \/ sim E s (idapp s i) e) ->
  Sound E s -> Sound E s'.
Proof.
  intros E s s' Hc Hu S. constructor.
  - intros i e H. unfold idapp. rewrite (SS_classes _ _ _ Hc). apply (sim_classes E s s' _ _ Hc).
    destruct (Hu i e H) as [H1|H1]; [exact (snd_uf _ _ S i e H1)|exact H1].
  - intros i c sh bij src n sg t H1 H2 H3 H4 (args & F & ->).
    rewrite (get_class_classes _ _ _ Hc) in H1. rewrite (SS_classes _ _ _ Hc) in H4.
    unfold clsT, syn_at. rewrite (syn_t_classes _ _ Hc).
    apply (snd_node _ _ S i c sh bij src n sg _ H1 H2 H3 H4). exists args. split; [|reflexivity].
    clear -F Hc. induction F as [|a t l l' Hat F IH]; constructor; [|exact IH].
    eapply NodeArg_classes; eauto.
  - intros i c p H1 H2 H3. rewrite (get_class_classes _ _ _ Hc) in H1.
    apply (sim_classes E s s' _ _ Hc). exact (snd_grp _ _ S i c p H1 H2 H3).
Qed.

(* the steps that do not touch classes or table: the counter, the pending list, the hashcons *)
Corollary Sound_set_ctr : forall E s c, Sound E s -> Sound E (set_ctr s c).
Proof. intros E s c. apply Sound_frame; [reflexivity|]. intros i e H. left. exact H. Qed.
Corollary Sound_set_pending : forall E s p, Sound E s -> Sound E (set_pending s p).
Proof. intros E s p. apply Sound_frame; [reflexivity|]. intros i e H. left. exact H. Qed.
Corollary Sound_set_hashcons : forall E s h, Sound E s -> Sound E (set_hashcons s h).
Proof. intros E s h. apply Sound_frame; [reflexivity|]. intros i e H. left. exact H. Qed.

(* "the new edge is the asserted from ~~ to": if from = i.mf (mf a bijection defined on slots of i)
   and to = j.mt are related, then i.id ~~ j.(mt ; mf^-1), the entry that move_to writes *)
Theorem edge_of_sim : forall E s i mf j mt, sim E s {| aid := i; am := mf |} {| aid := j; am := mt |} ->
  wf mf -> wf mt -> is_bijection mf = true -> (forall k, get mf k <> None -> In k (SS s i)) ->
  sim E s (idapp s i) {| aid := j; am := mt ** inv mf |}.
Proof.
  intros E s i mf j mt H Wf Wt Bf Kf sg tau Rs Rt C. cbn [aid am idapp] in *.
  apply (H sg tau Rs Rt). cbn [aid am]. intros x y u Hx Hy.
  apply (C x y x).
  - apply identity_get_in. apply Kf. congruence.
  - apply (quot_get mt mf Wt Wf Bf). exists u. split; assumption.
Qed.

Theorem Sound_unionfind_set : forall E s i e x s', Sound E s -> sim E s (idapp s i) e ->
  unionfind_set i e s = Ok (x, s') -> Sound E s'.
Proof.
  intros E s i e x s' S H U.
  assert (Hc : classes s' = classes s).
  { unfold unionfind_set in U. destruct (Nat.eqb _ _); [inversion U; reflexivity|].
    destruct (Nat.ltb _ _); [inversion U; reflexivity|discriminate]. }
  apply (Sound_frame E s s' Hc); [|exact S]. intros j e' G.
  destruct (unionfind_set_uf _ _ _ _ _ U) as [[L Eq]|[L Eq]]; rewrite Eq in G.
  - apply uentry_app_inv in G. destruct G as [G|[-> ->]]; [left; exact G|].
    right. replace (N.of_nat (lu s)) with i by lia. exact H.
  - apply uentry_set_inv in G. destruct G as [[-> ->]|[_ G]]; [right; exact H|left; exact G].
Qed.

(* the first statement of move_to: with from ~~ to, writing unionfind[from.id] := (to.id, to.m ; from.m^-1)
   keeps the invariant *)
Corollary Sound_move_to_edge : forall E s from to x s', Sound E s -> sim E s from to ->
  wf (am from) -> wf (am to) -> is_bijection (am from) = true ->
  (forall k, get (am from) k <> None -> In k (SS s (aid from))) ->
  unionfind_set (aid from) {| aid := aid to; am := am to ** inv (am from) |} s = Ok (x, s') ->
  Sound E s'.
Proof.
  intros E s [i mf] [j mt] x s' S H Wf Wt Bf Kf U. cbn [aid am] in *.
  eapply Sound_unionfind_set; [exact S| |exact U]. apply edge_of_sim; assumption.
Qed.

(* without asserted equations, derivable equality is syntactic equality of canonical terms *)
Lemma Deriv_nil_all :
  (forall d s t, Deriv [] d s t -> s = t) /\
  (forall d a b, DerivArg [] d a b -> a = b) /\
  (forall d l l', DerivArgs [] d l l' -> l = l').
Proof.
  apply (Deriv_mutind []
    (fun d s t _ => s = t) (fun d a b _ => a = b) (fun d l l' _ => l = l')).
  - intros d l r rho Hin. destruct Hin.
  - reflexivity.
  - intros d s t _ IH. symmetry. exact IH.
  - intros d s t u _ IH1 _ IH2. congruence.
  - intros d v args args' _ IH. rewrite IH. reflexivity.
  - reflexivity.
  - reflexivity.
  - intros d s t _ IH. rewrite IH. reflexivity.
  - intros d a b _ IH. rewrite IH. reflexivity.
  - reflexivity.
  - intros d a b l l' _ IHa _ IHl. rewrite IHa, IHl. reflexivity.
Qed.
Lemma Deriv_nil_eq : forall d s t, Deriv [] d s t -> s = t.
Proof. exact (proj1 Deriv_nil_all). Qed.

(* ====================================================================== *)
(* 10. histories: the asserted equations, and the skeleton of the soundness proof *)
(* ====================================================================== *)

(* user slot names are numeric (4u) or named (4u+2) slots: neither drawn from the fresh counter
   (4u+1) nor reserved binder names (4u+3) *)
Fixpoint rt_ok (t : rterm) : Prop :=
  match t with
  | RT n ch => (forall x, In x (all_occ n) -> x mod 4 = 0 \/ x mod 4 = 2) /\
               (fix go (l : list rterm) : Prop := match l with [] => True | c :: r => rt_ok c /\ go r end) ch
  end.

(* the semantic side of a history: the canonical term of every handle, and the equations asserted
   by the unions (between the terms of the two handles) *)
Fixpoint ghost (terms : list rterm) (ops : list hop) (hts : list cterm) (E : equations) : list cterm * equations :=
  match ops with
  | [] => (hts, E)
  | HAdd k :: t =>
      match nth_opt terms k with
      | Some tm => ghost terms t (hts ++ [canon0 tm]) E
      | None => (hts, E)
      end
  | HUnion i j _ :: t =>
      match nth_opt hts i, nth_opt hts j with
      | Some a, Some b => ghost terms t hts (E ++ [(a, b)])
      | _, _ => (hts, E)
      end
  end.
Definition handle_cterms (terms : list rterm) (ops : list hop) : list cterm := fst (ghost terms ops [] []).
Definition asserted (terms : list rterm) (ops : list hop) : equations := snd (ghost terms ops [] []).

(* by eg_union l r the asserted equation is added: afterwards every element of den l is equal to
   every element of den r *)
Theorem union_asserted_sim_den : forall E s l r tl tr, handle_ok E s l tl -> handle_ok E s r tr ->
  sim_den (E ++ [(tl, tr)]) s l r.
Proof.
  intros E s l r tl tr [_ Hl] [_ Hr] t u (sg & Cs & ->) (tau & Ct & ->).
  assert (M : forall e, In e E -> In e (E ++ [(tl, tr)])) by (intros e He; apply in_or_app; left; exact He).
  apply D_trans with tl; [apply D_sym; eapply Deriv_mono; [exact M|]; apply Hl; exact Cs|].
  apply D_trans with tr; [|eapply Deriv_mono; [exact M|]; apply Hr; exact Ct].
  apply Deriv_asserted. apply in_or_app. right. left. reflexivity.
Qed.

(* a completion of a handle exists *)
Lemma completion_exists : forall E s a t, handle_ok E s a t -> covers s a ->
  exists sg, completion s a sg /\ forall x v, get (am a) x = Some v -> sg x = v.
Proof.
  intros E s a t [NB _] (c & Hc & Ia & _).
  set (L := filter (fun v => negb (is_B v)) (values_vec (am a))).
  assert (RL : rokL L (fun v => v)).
  { split; [intros x y _ _ H; exact H|]. intros x Hx. apply filter_In in Hx. destruct Hx as [_ Hx].
    apply negb_true_iff in Hx. exact Hx. }
  assert (VL : forall k v, get (am a) k = Some v -> In v L).
  { intros k v G. apply filter_In. split.
    - apply get_in in G. unfold values_vec. apply in_map_iff. exists (k, v). split; [reflexivity|exact G].
    - rewrite (NB _ _ G). reflexivity. }
  exists (ext_ren (fun v => v) (am a) (bound_of (fun v => v) L)).
  assert (X : forall x v, get (am a) x = Some v -> ext_ren (fun v => v) (am a) (bound_of (fun v => v) L) x = v).
  { intros x v G. unfold ext_ren. rewrite G. reflexivity. }
  split; [|exact X]. split; [|exact X]. apply (ext_ren_rok L); assumption.
Qed.

Lemma Forall2_nth_opt : forall {A C} (R : A -> C -> Prop) l l' i a, Forall2 R l l' -> nth_opt l i = Some a ->
  exists b, nth_opt l' i = Some b /\ R a b.
Proof.
  intros A C R l l' i a F. revert i a. induction F as [|x y l l' Hxy F IH]; intros i a H.
  - destruct i; discriminate.
  - destruct i as [|i]; cbn in *.
    + inversion H; subst. eauto.
    + apply IH. exact H.
Qed.

Lemma Forall2_nth_opt_r : forall {A C} (R : A -> C -> Prop) l l' i b, Forall2 R l l' -> nth_opt l' i = Some b ->
  exists a, nth_opt l i = Some a /\ R a b.
Proof.
  intros A C R l l' i b F. revert i b. induction F as [|x y l l' Hxy F IH]; intros i b H.
  - destruct i; discriminate.
  - destruct i as [|i]; cbn in *.
    + inversion H; subst. eauto.
    + apply IH. exact H.
Qed.

(* the invariant of a run *)
Definition Good (E : equations) (s : egraph) (hs : list appid) (hts : list cterm) : Prop :=
  inv3 s /\ Sound E s /\ Forall (covers s) hs /\ Forall2 (handle_ok E s) hs hts.

(* equal handles have derivably equal terms, in every good state *)
Theorem Good_eq_sound : forall E s hs hts i j a b ti tj, Good E s hs hts ->
  nth_opt hs i = Some a -> nth_opt hs j = Some b -> nth_opt hts i = Some ti -> nth_opt hts j = Some tj ->
  eg_eq s a b = Ok true -> Deriv E 0 ti tj.
Proof.
  intros E s hs hts i j a b ti tj (I & S & Cv & F) Ha Hb Hti Htj H.
  destruct (Forall2_nth_opt _ _ _ _ _ F Ha) as (ti' & E1 & Oa). rewrite Hti in E1. inversion E1; subst ti'.
  destruct (Forall2_nth_opt _ _ _ _ _ F Hb) as (tj' & E2 & Ob). rewrite Htj in E2. inversion E2; subst tj'.
  pose proof (proj1 (Forall_forall _ _) Cv) as Cv'.
  pose proof (Cv' _ (nth_opt_In _ _ _ _ Ha)) as Ca. pose proof (Cv' _ (nth_opt_In _ _ _ _ Hb)) as Cb.
  pose proof (eq_sound_of_Sound E s a b S I Ca Cb H) as Sab.
  destruct (completion_exists E s a ti Oa Ca) as (sg & Cs & Xs).
  destruct (completion_exists E s b tj Ob Cb) as (tau & Ct & Xt).
  apply D_trans with (clsT s sg (aid a)); [apply (proj2 Oa); exact Cs|].
  apply D_trans with (clsT s tau (aid b)); [|apply D_sym; apply (proj2 Ob); exact Ct].
  apply Sab; [apply Cs|apply Ct|]. intros x y v Hx Hy. rewrite (Xs _ _ Hx), (Xt _ _ Hy). reflexivity.
Qed.

Section Skeleton.
  (* ASSUMED (Stage 2 of the plan): insertion keeps the invariant, and the returned handle denotes
     the inserted term *)
  Hypothesis H_add : forall E s t a s', inv3 s -> Sound E s -> rt_ok t -> add_expr t s = Ok (a, s') ->
    Sound E s' /\ handle_ok E s' a (canon0 t).
  (* ASSUMED (Stages 3 and 4 of the plan): a union of two handles keeps the invariant, for the
     equations extended by the asserted equation *)
  Hypothesis H_union : forall E s l r tl tr b s', inv3 s -> Sound E s -> covers s l -> covers s r ->
    handle_ok E s l tl -> handle_ok E s r tr -> eg_union l r s = Ok (b, s') ->
    Sound (E ++ [(tl, tr)]) s'.

  Lemma Good_run_ops : forall terms, Forall rt_ok terms ->
    forall ops hs s hts E hs' s', Good E s hs hts -> run_ops terms ops hs s = Ok (hs', s') ->
    Good (snd (ghost terms ops hts E)) s' hs' (fst (ghost terms ops hts E)).
  Proof.
    intros terms TO. induction ops as [|o ops IH]; intros hs s hts E hs' s' G H; cbn [run_ops ghost] in *.
    - inversion H; subst. exact G.
    - destruct G as (I & S & Cv & F). destruct o as [k|i j just].
      + destruct (nth_opt terms k) as [tm|] eqn:Ek; [|discriminate]. unfold mbind in H.
        destruct (add_expr tm s) as [[a s1]|] eqn:Ea; [|discriminate].
        destruct (add_expr_covers tm s a s1 I Ea) as (I1 & X & Ca).
        assert (TOk : rt_ok tm). { apply (proj1 (Forall_forall _ _) TO). eapply nth_opt_In; eauto. }
        destruct (H_add E s tm a s1 I S TOk Ea) as [S1 O1].
        refine (IH _ _ _ _ _ _ _ H). split; [exact I1|]. split; [exact S1|]. split.
        * apply Forall_app. split; [|constructor; [exact Ca|constructor]].
          apply Forall_forall. intros x Hx. eapply covers_ext0; [exact X|]. apply (proj1 (Forall_forall _ _) Cv). exact Hx.
        * apply Forall2_app; [|constructor; [exact O1|constructor]].
          clear -F Cv X. induction F as [|x y l l' Hxy F IHF]; [constructor|]. inversion Cv; subst.
          constructor; [eapply handle_ok_ext0; eauto|apply IHF; assumption].
      + destruct (nth_opt hs i) as [a|] eqn:Ha; [|discriminate]. destruct (nth_opt hs j) as [b|] eqn:Hb; [|discriminate].
        unfold mbind in H. destruct (eg_union a b s) as [[u s1]|] eqn:Eu; [|discriminate].
        destruct (Forall2_nth_opt _ _ _ _ _ F Ha) as (ta & -> & Oa).
        destruct (Forall2_nth_opt _ _ _ _ _ F Hb) as (tb & -> & Ob).
        pose proof (proj1 (Forall_forall _ _) Cv) as Cv'.
        pose proof (Cv' _ (nth_opt_In _ _ _ _ Ha)) as Ca. pose proof (Cv' _ (nth_opt_In _ _ _ _ Hb)) as Cb.
        destruct (eg_union_inv3 a b s u s1 I Ca Cb Eu) as (I1 & X).
        pose proof (H_union E s a b ta tb u s1 I S Ca Cb Oa Ob Eu) as S1.
        refine (IH _ _ _ _ _ _ _ H). split; [exact I1|]. split; [exact S1|]. split.
        * apply Forall_forall. intros x Hx. eapply covers_ext; [exact X|]. apply Cv'. exact Hx.
        * clear -F Cv X. induction F as [|x y l l' Hxy F IHF]; [constructor|]. inversion Cv; subst.
          constructor; [|apply IHF; assumption].
          eapply handle_ok_ext0; [apply ext_ext0; exact X|eassumption|].
          eapply handle_ok_mono; [|exact Hxy]. intros e He. apply in_or_app. left. exact He.
  Qed.

  (* insertion-only histories need H_add only *)
  Lemma Good_run_adds : forall terms, Forall rt_ok terms ->
    forall ops hs s hts E hs' s', adds_only ops -> Good E s hs hts -> run_ops terms ops hs s = Ok (hs', s') ->
    Good E s' hs' (fst (ghost terms ops hts E)) /\ snd (ghost terms ops hts E) = E.
  Proof.
    intros terms TO. induction ops as [|o ops IH]; intros hs s hts E hs' s' AO G H; cbn [run_ops ghost] in *.
    - inversion H; subst. split; [exact G|reflexivity].
    - destruct G as (I & S & Cv & F). inversion AO as [|o' ops' Ho AO']; subst. destruct o as [k|i j just]; [|contradiction].
      destruct (nth_opt terms k) as [tm|] eqn:Ek; [|discriminate]. unfold mbind in H.
      destruct (add_expr tm s) as [[a s1]|] eqn:Ea; [|discriminate].
      destruct (add_expr_covers tm s a s1 I Ea) as (I1 & X & Ca).
      assert (TOk : rt_ok tm). { apply (proj1 (Forall_forall _ _) TO). eapply nth_opt_In; eauto. }
      destruct (H_add E s tm a s1 I S TOk Ea) as [S1 O1].
      refine (IH _ _ _ _ _ _ AO' _ H). split; [exact I1|]. split; [exact S1|]. split.
      * apply Forall_app. split; [|constructor; [exact Ca|constructor]].
        apply Forall_forall. intros x Hx. eapply covers_ext0; [exact X|]. apply (proj1 (Forall_forall _ _) Cv). exact Hx.
      * apply Forall2_app; [|constructor; [exact O1|constructor]].
        clear -F Cv X. induction F as [|x y l l' Hxy F IHF]; [constructor|]. inversion Cv; subst.
        constructor; [eapply handle_ok_ext0; eauto|apply IHF; assumption].
  Qed.

  (* Stage 2 conclusion, conditional on H_add: in a history that only inserts, two handles that
     the e-graph reports equal belong to alpha-equivalent terms (equal canonical terms) *)
  Theorem insertion_only_sound_conditional : forall terms ops hs s i j a b ti tj, Forall rt_ok terms ->
    adds_only ops -> run_ops terms ops [] empty_egraph = Ok (hs, s) ->
    nth_opt hs i = Some a -> nth_opt hs j = Some b ->
    nth_opt (handle_cterms terms ops) i = Some ti -> nth_opt (handle_cterms terms ops) j = Some tj ->
    eg_eq s a b = Ok true -> ti = tj.
  Proof.
    intros terms ops hs s i j a b ti tj TO AO R Ha Hb Hti Htj H.
    assert (G0 : Good [] empty_egraph [] []).
    { split; [exact inv3_empty|]. split; [apply Sound_empty|]. split; constructor. }
    destruct (Good_run_adds terms TO ops [] empty_egraph [] [] hs s AO G0 R) as [G _].
    apply (Deriv_nil_eq 0). exact (Good_eq_sound _ _ _ _ i j a b ti tj G Ha Hb Hti Htj H).
  Qed.

  (* the final statement, conditional on H_add and H_union *)
  Theorem equality_sound_conditional : forall terms ops hs s i j a b ti tj, Forall rt_ok terms ->
    run_ops terms ops [] empty_egraph = Ok (hs, s) ->
    nth_opt hs i = Some a -> nth_opt hs j = Some b ->
    nth_opt (handle_cterms terms ops) i = Some ti -> nth_opt (handle_cterms terms ops) j = Some tj ->
    eg_eq s a b = Ok true -> Deriv (asserted terms ops) 0 ti tj.
  Proof.
    intros terms ops hs s i j a b ti tj TO R Ha Hb Hti Htj H.
    assert (G0 : Good [] empty_egraph [] []).
    { split; [exact inv3_empty|]. split; [apply Sound_empty|]. split; constructor. }
    pose proof (Good_run_ops terms TO ops [] empty_egraph [] [] hs s G0 R) as G.
    exact (Good_eq_sound _ _ _ _ i j a b ti tj G Ha Hb Hti Htj H).
  Qed.
End Skeleton.

(* ====================================================================== *)
(* 11. examples: the definitions on states built by the model's operations  *)
(* ====================================================================== *)

Definition idr : N -> N := fun x => x.

(* ix_state (InvariantFacts.v): lam x. app(x, y); app(x, x); lam y. lam x. app(x, y) inserted.
   For every handle h of the run, the class term renamed by the completion of h IS the canonical
   term of the inserted term (I5, with syntactic equality) *)
Example ix_handles_den :
  map (fun h => clsT ix_state (thru (am h) idr) (aid h)) ix_handles = handle_cterms ix_terms ix_ops.
Proof. vm_compute. reflexivity. Qed.

Example ix_handle_terms : handle_cterms ix_terms ix_ops = map canon0 ix_terms.
Proof. vm_compute. reflexivity. Qed.

Example ix_term2 :
  clsT ix_state idr 4 =
  CT 0 [CBind (CChild (CT 0 [CBind (CChild (CT 1 [CChild (CT 2 [CSlot 7]); CChild (CT 2 [CSlot 3])]))]))].
Proof. vm_compute. reflexivity. Qed.

Example ix_ex_acyclic : syn_acycb ix_state = true /\ syn_acycb ex_state = true.
Proof. vm_compute. auto. Qed.

(* ex_state (UnionFindFacts.v): f(4,8), f(8,4), g(8,4), h(4,8), k(4,8) inserted, then the unions
   f(4,8)=f(8,4), f(4,8)=g(8,4), h=k, g=k *)
Example ex_asserted :
  asserted ex_terms ex_ops =
    [(CT 2 [CSlot 4; CSlot 8], CT 2 [CSlot 8; CSlot 4]); (CT 2 [CSlot 4; CSlot 8], CT 3 [CSlot 8; CSlot 4]);
     (CT 4 [CSlot 4; CSlot 8], CT 5 [CSlot 4; CSlot 8]); (CT 3 [CSlot 8; CSlot 4], CT 5 [CSlot 4; CSlot 8])].
Proof. vm_compute. reflexivity. Qed.

Example ex_handles_den :
  map (fun h => clsT ex_state (thru (am h) idr) (aid h)) [ex_h0; ex_h1; ex_h2; ex_h3; ex_h4]
  = handle_cterms ex_terms ex_ops.
Proof. vm_compute. reflexivity. Qed.

(* an instance of I1 on ex_state: unionfind[0] = (1, [9 -> 1; 13 -> 5]); the term of class 0 under
   the identity and the term of class 1 under the pulled-back renaming are f(1,5) and g(5,1), an
   instance of the second asserted equation *)
Example ex_I1_terms :
  nth_opt (unionfind ex_state) 0 = Some {| aid := 1; am := [(9, 1); (13, 5)] |} /\
  clsT ex_state idr 0 = CT 2 [CSlot 1; CSlot 5] /\
  clsT ex_state (thru [(9, 1); (13, 5)] idr) 1 = CT 3 [CSlot 5; CSlot 1].
Proof. vm_compute. auto. Qed.

Example ex_I1_instance :
  Deriv (asserted ex_terms ex_ops) 0 (clsT ex_state idr 0) (clsT ex_state (thru [(9, 1); (13, 5)] idr) 1).
Proof.
  set (rho := fun x : N => if x =? 4 then 1 else if x =? 8 then 5 else x).
  assert (E1 : clsT ex_state idr 0 = cren (lift 0 rho) (CT 2 [CSlot 4; CSlot 8])) by (vm_compute; reflexivity).
  assert (E2 : clsT ex_state (thru [(9, 1); (13, 5)] idr) 1 = cren (lift 0 rho) (CT 3 [CSlot 8; CSlot 4]))
    by (vm_compute; reflexivity).
  rewrite E1, E2. apply D_ax.
  - rewrite ex_asserted. right. left. reflexivity.
  - split.
    + intros x y Hx Hy _ _ H. cbn in Hx, Hy.
      repeat (destruct Hx as [Hx|Hx]; [subst x|]); try contradiction;
      repeat (destruct Hy as [Hy|Hy]; [subst y|]); try contradiction;
      try reflexivity; vm_compute in H; discriminate.
    + intros x Hx _. left. cbn in Hx.
      repeat (destruct Hx as [Hx|Hx]; [subst x|]); try contradiction; vm_compute; reflexivity.
Qed.

(* the reported equalities of ex_state *)
Example ex_reported : eg_eq ex_state ex_h0 ex_h1 = Ok true /\ eg_eq ex_state ex_h0 ex_h2 = Ok true.
Proof. vm_compute. auto. Qed.

(* the premise on the terms holds for the example histories *)
Example ex_ix_rt_ok : Forall rt_ok ex_terms /\ Forall rt_ok ix_terms.
Proof.
  split; cbn; repeat (apply Forall_cons || apply Forall_nil || apply conj || exact I); cbn; intros x Hx;
    repeat (destruct Hx as [Hx|Hx]; [subst x; vm_compute; auto|]); contradiction.
Qed.

(* the asserted equations of the run coincide with those formed by Sem/EgMachine.v *)
Example ex_asserted_pairs : asserted ex_terms ex_ops = asserted_pairs (map canon0 ex_terms) ex_ops.
Proof. vm_compute. reflexivity. Qed.

(* ====================================================================== *)
(* 12. summary                                                             *)
(* ======================================================================

   PROVED (closed under the global context, see Print Assumptions below):
   - Stage 1: eq_sound_of_Sound: Sound E s -> inv3 s -> covers s a -> covers s b ->
       eg_eq s a b = Ok true -> sim E s a b        (a ~~ b; sim_sim_den gives the den formulation)
     via uf_get_sim (I1 along union-find chains), find_sim, canon_sim (group membership, I3).
   - Sound_empty, Sound_mono (more equations), Sound_redundant (I4 is the case pi = id of I3),
     clsT_ext0 / sim_ext0 / handle_ok_ext0 (class terms never change; handles stay valid).
   - generated_sound / group_new_sound: the symmetries of a class are closed under composition and
     inverse, hence a group built by group_new from sound generators satisfies I3.
   - Stage 3, first steps: Sound_frame, Sound_set_ctr/_pending/_hashcons, edge_of_sim,
     Sound_unionfind_set, Sound_move_to_edge (the table write of move_to keeps the invariant when
     from ~~ to), union_asserted_sim_den (after the union the asserted equation relates den l and
     den r).
   - Good_eq_sound: in a state with the invariant and valid handles (I5), handles that eg_eq
     reports equal have derivably equal terms.
   - Deriv_nil_eq: with no equations, derivable equality is equality of canonical terms.

   ASSUMED (Section Skeleton; everything else of the chain is machine-checked):
   - H_add   (Stage 2): add_expr keeps Sound and returns a handle satisfying I5;
   - H_union (Stages 3+4): eg_union of two valid handles keeps Sound for E ++ [(t_l, t_r)].
   CONDITIONAL theorems: insertion_only_sound_conditional (needs H_add only),
   equality_sound_conditional (needs H_add and H_union). *)

Print Assumptions eq_sound_of_Sound.
Print Assumptions sim_sim_den.
Print Assumptions Sound_empty.
Print Assumptions Sound_mono.
Print Assumptions Sound_redundant.
Print Assumptions clsT_ext0.
Print Assumptions handle_ok_ext0.
Print Assumptions generated_sound.
Print Assumptions group_new_sound.
Print Assumptions Sound_frame.
Print Assumptions edge_of_sim.
Print Assumptions Sound_unionfind_set.
Print Assumptions Sound_move_to_edge.
Print Assumptions union_asserted_sim_den.
Print Assumptions Good_eq_sound.
Print Assumptions Deriv_nil_eq.
Print Assumptions insertion_only_sound_conditional.
Print Assumptions equality_sound_conditional.
Print Assumptions ex_I1_instance.
