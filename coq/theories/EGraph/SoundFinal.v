(* EGraph/SoundFinal.v — C01: assembly.  The structural side (SoundRebuild.v: `equality_sound_x`, parametric
   in two run invariants SC, KC with the obligations `xinv_ok`) is instantiated with
   SC = syn_cov (SoundReadd.v: the children of every syntactic node are covered) and
   KC = kids_cov (KidsCov.v: the children of every stored key are covered), and three of the four
   semantic facts are supplied from SoundCong.v / SoundReadd.v / KidsCov.v.  What remains is
   `spec_HC_sim_x syn_cov` (handle_congruence).  See the summary at the end. *)
From SE Require Import Slots.SlotMapFacts Group.GroupSound Lang.LangFacts Lang.ShapeFacts Lang.RenameFacts
  EGraph.Model EGraph.ModelFacts EGraph.ModelMachine EGraph.UnionFindFacts EGraph.InvariantFacts
  EGraph.UnionInvariantFacts EGraph.AddCoversFacts EGraph.MonotoneFacts EGraph.SoundFacts EGraph.SoundUnion EGraph.SoundSyn EGraph.SoundNode EGraph.SoundStruct EGraph.NodePass EGraph.SoundBase EGraph.SoundAddNew EGraph.SoundVals EGraph.SoundAddExpr EGraph.SoundPending.
From SE Require EGraph.SoundCong.
From SE Require Import EGraph.SoundReadd EGraph.KidsCov EGraph.SoundRebuild.
From SE Require EGraph.KeyInv.
From SE Require Import EGraph.SoundGuard.
From SE Require Import Sem.Deriv Sem.DerivFacts Sem.AlgebraFacts Sem.EgMachine Explain.CheckerFacts.
Require Import ZArith Lia ZifyBool ZifyN ZifyNat.
Ltac Zify.zify_post_hook ::= Z.div_mod_to_equations.

Local Notation "a ** b" := (compose_partial a b) (at level 40, left associativity).
Local Notation inv := inverse_nocheck.
Local Notation ectr := Model.ctr.

(* ====================================================================== *)
(* 1. the two invariants at the state right before the rebuild of an insertion *)
(* ====================================================================== *)

(* the walk is deterministic *)
Lemma new_walk_det : forall t s s5 s5', new_walk t s s5 -> new_walk t s s5' -> s5 = s5'.
Proof.
  intros t s s5 s5' (en1 & c1 & en2 & en3 & s3 & f2o & c2 & synf & i & s3a & sh & bij & s4 & A1 & A2 & A3 & A4 & A5 & A6 & A7 & A8 & A9)
    (en1' & c1' & en2' & en3' & s3' & f2o' & c2' & synf' & i' & s3a' & sh' & bij' & s4' & B1 & B2 & B3 & B4 & B5 & B6 & B7 & B8 & B9).
  rewrite A1 in B1. inversion B1; subst en1' c1'; clear B1.
  rewrite A2 in B2. inversion B2; subst en2'; clear B2.
  rewrite A3 in B3. inversion B3; subst en3' s3'; clear B3.
  rewrite A4 in B4. inversion B4; subst f2o' c2'; clear B4.
  rewrite A5 in B5. inversion B5; subst synf'; clear B5.
  rewrite A6 in B6. inversion B6; subst i' s3a'; clear B6.
  rewrite A7 in B7. inversion B7; subst sh' bij'; clear B7.
  rewrite A8 in B8. inversion B8; subst s4'; clear B8.
  rewrite A9 in B9. inversion B9. reflexivity.
Qed.

(* adapted from SoundReadd.add_internal_cov_vb and KidsCov.kids_cov_add_internal_vb: the same walk, stopped
   before the rebuild *)
Lemma cov_pre_rebuild : forall t p s a s', inv3 s -> mod4_ok s -> syn_cov s -> kids_cov s -> wshape p = Ok t ->
  lookup_internal s t = Ok None ->
  Forall (covers s) (app_occ p) -> (forall x, In x (pub_occ p) -> x mod 4 <> 1 \/ x < ectr s) ->
  add_internal t s = Ok (a, s') -> exists s5, new_walk t s s5 /\ syn_cov s5 /\ kids_cov s5.
Proof.
  intros [sh_t bij_t] p s a s' I3 M4 SCs KCs Hw Hlk Cv Bp H. pose proof (m4_ctr s M4) as Cm.
  destruct (add_internal_walk _ _ _ _ I3 Hlk H) as (en1 & c1 & en2 & en3 & s3 & syn & RP & H2 & H3 & H4 & Sm & I1 & E01 & I3' & E13 & Hb).
  cbv zeta in *. cbn [fst snd] in RP, H2.
  destruct (mk_singleton_walk _ _ _ _ I3' Hb H4) as (f2o & c2 & synf & s3a & sh & bij & s4 & s5 & BF & ASF & AL & Hsh & RA & PI & RB & Ea & I2 & I3a & E23 & I4 & E34 & I5 & E45 & I6 & E56).
  cbv zeta in *.
  exists s5. split.
  { exists en1, c1, en2, en3, s3, f2o, c2, synf, (N.of_nat (lc s3)), s3a, sh, bij, s4. cbn [fst snd].
    repeat (split; [assumption|]). assumption. }
  pose proof (cls_synify_enode _ _ _ _ H3) as [C13 _]. cbn [classes set_ctr] in C13.
  pose proof (alloc_eclass_exact _ _ _ _ _ AL) as (_ & _ & C & _).
  set (s2 := set_ctr (set_ctr s3 c2) c2) in *.
  assert (C2 : classes s2 = classes s) by (unfold s2; cbn [classes set_ctr]; exact C13).
  destruct (pre_node_equiv p sh_t bij_t (ectr s) en1 c1 en2 Hw RP H2 Cm Bp) as [Q1 Bi2].
  pose proof (covers_child_inj s _ _ Cv (child_inj_node _ _ _ Q1)) as Cv2.
  destruct (refresh_private_spec _ _ _ _ RP) as (_ & Bi1 & _).
  pose proof (refresh_private_step sh_t (ectr s)) as St1. rewrite RP in St1. cbn [snd] in St1.
  pose proof (ctr_step_le _ _ St1) as Le1.
  assert (All2 : forall v, In v (all_occ en2) -> v mod 4 <> 1 \/ v < c1).
  { intros v Hall.
    apply (Permutation.Permutation_in _ (occ_partition en2)) in Hall. apply in_app_or in Hall. destruct Hall as [Hp|Hp].
    - rewrite (equiv_pub _ _ _ (proj2 (proj2 Q1))), map_id in Hp. destruct (Bp _ Hp); [left; assumption|right; lia].
    - apply prv_binders in Hp. rewrite Bi2 in Hp. pose proof (proj1 (Forall_forall _ _) Bi1 v Hp) as T. cbv beta in T. right. lia. }
  assert (Vv2 : Forall (fun x2 => vbv (ectr (set_ctr s c1)) (am x2)) (app_occ en2)).
  { apply Forall_forall. intros x2 Hx2 v Hv. cbn [Model.ctr set_ctr]. apply All2. exact (vals_all_occ en2 x2 v Hx2 Hv). }
  assert (Vb2 : Forall (fun x2 => injective (am x2) /\ vbound (ectr (set_ctr s c1)) (am x2)) (app_occ en2)).
  { apply Forall_forall. intros x2 Hx2. destruct (proj1 (Forall_forall _ _) Cv2 x2 Hx2) as (c & _ & Ix2 & _).
    split; [exact Ix2|]. apply vbv_vbound. exact (proj1 (Forall_forall _ _) Vv2 x2 Hx2). }
  assert (Cm1 : ectr (set_ctr s c1) mod 4 = 1) by (cbn [Model.ctr set_ctr]; rewrite (ctr_step_mod _ _ St1); exact Cm).
  assert (Cv3 : Forall (covers s) (app_occ en3)).
  { pose proof H3 as H3c. unfold synify_enode in H3c. apply mbind_inv in H3c. destruct H3c as (l & s1 & H3c & H3'). inversion H3'; subst en3 s1; clear H3'.
    rewrite app_occ_set_apps by (eapply mapM_length; eauto).
    exact (covers_child_ext s _ _ Cv2 (mapM_synify_rel _ _ _ _ H3c Cm1 Vb2)). }
  destruct (fresh_rename_equiv en3 (ectr s3) f2o c2 synf Hb BF ASF) as [Q3 _].
  pose proof (covers_child_inj s _ _ Cv3 (child_inj_node _ _ _ Q3)) as Cvf.
  split.
  - assert (SC3a : syn_cov s3a).
    { eapply syn_cov_alloc; [exact C|exact (syn_cov_classes s s2 C2 SCs)|]. cbn [c_syn].
      revert Cvf. apply Forall_impl. intros x. apply covers_classes. exact C2. }
    apply (syn_cov_ext s3a); [|exact SC3a]. eapply ext_trans; [exact E34|exact E45].
  - pose proof (kids_cov_classes s s2 C2 KCs) as K2.
    assert (K3a : kids_cov s3a).
    { intros j cj sh0 bij1 src1 x Hj Hin Hx. apply (get_class_ext_inv s2 s3a _ C) in Hj.
      destruct Hj as [Hj|[_ ->]]; [|destruct Hin]. apply (covers_ext0 s2 s3a x E23). exact (K2 _ _ _ _ _ _ Hj Hin Hx). }
    assert (Cvf3 : Forall (covers s3a) (app_occ synf)).
    { revert Cvf. apply Forall_impl. intros x Cx. apply (covers_ext0 s2 s3a x E23). exact (covers_classes s s2 x C2 Cx). }
    pose proof (wshape_covers s3a synf sh bij Hsh Cvf3) as CvS.
    pose proof (kids_cov_raw_add _ _ _ _ _ _ _ (proj1 I3a) K3a CvS RA) as K4.
    apply (kids_cov_step s4 s5 E45); [|exact K4]. inversion PI. apply nsame_ks, nsame_pend.
Qed.

(* ====================================================================== *)
(* 2. the structural obligations                                           *)
(* ====================================================================== *)

Theorem xinv_cov : xinv_ok syn_cov kids_cov.
Proof.
  constructor.
  - exact syn_cov_ext.
  - intros s s' [C _]. exact (kids_cov_classes s s' C).
  - exact syn_cov_empty.
  - exact kids_cov_empty.
  - intros sh ty s x s' I _ M _ K H. exact (kids_cov_handle_pending sh ty s x s' I M K H).
  - intros l r s b s' I _ _ Cl Cr _ K H. exact (kids_cov_uint l r s b s' I Cl Cr K H).
  - intros t p s a s' s5 I _ M _ _ Sc Kc _ Hw L Cv _ Bp H NW.
    destruct (cov_pre_rebuild t p s a s' I M Sc Kc Hw L Cv Bp H) as (s5' & NW' & R).
    rewrite (new_walk_det t s s5 s5' NW NW'). exact R.
Qed.

(* ====================================================================== *)
(* 3. three of the four semantic facts                                      *)
(* ====================================================================== *)

Theorem HSh_red_x_proved : spec_HSh_red_x syn_cov.
Proof. intros E src s pc1 n2 a b s1 I3 W _ Sc S. exact (SoundCong.HSh_red_proved E src s pc1 n2 a b s1 I3 W S Sc). Qed.

Theorem HD_sim_x_proved : spec_HD_sim_x syn_cov.
Proof. intros E src s0 pc1 w vs pn2 w2 s ab s1 I3 W _ Sc S. exact (SoundCong.HD_sim_proved E src s0 pc1 w vs pn2 w2 s ab s1 I3 W S Sc). Qed.

(* the re-added entry: kids_cov gives the covered children of the removed node, Link_loop_proved the loop
   invariant, nsound_pre_shape the chosen variant, link_rename_proved the renaming step *)
Theorem HS_readd_x_proved : spec_HS_readd_x syn_cov kids_cov.
Proof.
  intros E s sh i c bij0 src nd u1 sA cA enode0 i0 enode i1 sB sh' bij m sC n''
    I3 W M Sc Kc S Hh Hc Hp0 Hnd NS0 HA HcA Hen Hi0 HB IB WB MB ScB SB Ht _ Hm Hn.
  pose proof (kids_cov_apply s i c sh bij0 src nd I3 M Kc Hc (na_get_in _ _ _ Hp0) Hnd) as Cv.
  destruct (Link_loop_proved syn_cov syn_cov_ext H_shrink_closed HSh_red_x_proved E s sh i c bij0 src nd u1 sA cA enode0 i0 enode i1 sB
              I3 W M Sc S Hh Hc Hp0 Hnd NS0 Cv HA HcA Hen Hi0 HB) as [NS1 CvB].
  assert (IA : inv3 sA).
  { destruct I3 as [Hs2 HN]. destruct (semR_step2 _ _ (s_raw_remove _ _ _ _ _ HA) Hs2) as [HsA EA].
    split; [exact HsA|eapply nodes_raw_remove; eauto]. }
  pose proof (covers_lcanon sA _ i0 (proj1 (proj1 IA)) (covers_identity sA i cA HcA) Hi0) as L0.
  destruct (inv3_hp_loop _ _ _ _ _ _ _ IA L0 (ex_intro _ nd Hen) HB) as (_ & _ & L1 & (n0 & Fn) & Sub).
  cbn [fst snd] in *. pose proof (proj1 (proj1 IB)) as HsB.
  unfold shape in Ht. destruct (pre_shape sB enode) as [p|] eqn:Pp; cbn [bind] in Ht; [|discriminate].
  pose proof (nsound_pre_shape E sB i1 enode p HsB WB SB CvB Pp
                (proj2 (canon_wf_inj _ _ (proj2 L1))) (canon_keys_SS sB i1 HsB (proj2 L1)) NS1) as NS2.
  refine (link_rename_proved E sB p i1 sh' bij m sC n'' IB WB SB L1 _ NS2 Ht Hm Hn MB).
  intros v Hv. apply (pre_shape_keeps_proved sB n0 enode p HsB Fn Pp).
  apply mem_in. unfold sset_subset in Sub. exact (proj1 (forallb_forall _ _) Sub v Hv).
Qed.

(* ====================================================================== *)
(* 4. the end-to-end statements: one hypothesis left                        *)
(* ====================================================================== *)

Section Last.
  (* ASSUMED: handle_congruence.  The statement is `spec_HC_sim` of SoundPending.v with the run invariants
     mod4_ok s and syn_cov s as extra premises *)
  Hypothesis HC_sim : spec_HC_sim_x syn_cov.

  Theorem equality_sound_HC : forall terms ops hs s i j a b ti tj, Forall rt_ok terms -> Forall rt_wf terms ->
    run_ops terms ops [] empty_egraph = Ok (hs, s) ->
    nth_opt hs i = Some a -> nth_opt hs j = Some b ->
    nth_opt (handle_cterms terms ops) i = Some ti -> nth_opt (handle_cterms terms ops) j = Some tj ->
    eg_eq s a b = Ok true -> Deriv (asserted terms ops) 0 ti tj.
  Proof. exact (equality_sound_x syn_cov kids_cov xinv_cov HSh_red_x_proved (spec_HC_sim_y_of_x _ _ HC_sim) HD_sim_x_proved HS_readd_x_proved). Qed.

  Theorem equality_sound_insertion_only_HC : forall terms ops hs s i j a b ti tj, Forall rt_ok terms -> Forall rt_wf terms ->
    adds_only ops -> run_ops terms ops [] empty_egraph = Ok (hs, s) ->
    nth_opt hs i = Some a -> nth_opt hs j = Some b ->
    nth_opt (handle_cterms terms ops) i = Some ti -> nth_opt (handle_cterms terms ops) j = Some tj ->
    eg_eq s a b = Ok true -> ti = tj.
  Proof. exact (equality_sound_insertion_only_x syn_cov kids_cov xinv_cov HSh_red_x_proved (spec_HC_sim_y_of_x _ _ HC_sim) HD_sim_x_proved HS_readd_x_proved). Qed.
End Last.

Print Assumptions xinv_cov.
Print Assumptions HSh_red_x_proved.
Print Assumptions HD_sim_x_proved.
Print Assumptions HS_readd_x_proved.
Print Assumptions equality_sound_HC.
Print Assumptions equality_sound_insertion_only_HC.
Check equality_sound_HC.

(* ====================================================================== *)
(* 5. the per-run certified form: the guarded model                        *)
(* ====================================================================== *)


(* (a) under its agreed name *)
Theorem equality_sound_modulo_congruence : spec_HC_sim_x syn_cov ->
  forall terms ops hs s i j a b ti tj, Forall rt_ok terms -> Forall rt_wf terms ->
    run_ops terms ops [] empty_egraph = Ok (hs, s) ->
    nth_opt hs i = Some a -> nth_opt hs j = Some b ->
    nth_opt (handle_cterms terms ops) i = Some ti -> nth_opt (handle_cterms terms ops) j = Some tj ->
    eg_eq s a b = Ok true -> Deriv (asserted terms ops) 0 ti tj.
Proof. exact equality_sound_HC. Qed.

(* the LOCAL form of the fact about handle_congruence (SoundGuard.spec_HC_sim_loc: `spec_HC_sim_x` with the
   premise `hc_shapes_eqb pc1 pc2 = true`) is proved: SoundCong.HC_sim_local *)
Theorem HC_sim_loc_proved : spec_HC_sim_loc syn_cov.
Proof.
  intros E src s pc1 sh pc2 ab s1 I3 W _ Sc S P1 Hsh P2 G H.
  exact (SoundCong.HC_sim_local E src s pc1 sh pc2 ab s1 I3 W S Sc P1 Hsh P2 G H).
Qed.

(* (b) NO semantic hypothesis: along a successful run of the guarded model (KeyInv.run_ops_g: every call of
   handle_congruence asserts that the two nodes it composes have the same weak shape) equality is sound *)
Theorem equality_sound_checked : forall terms ops hs s i j a b ti tj, Forall rt_ok terms -> Forall rt_wf terms ->
    KeyInv.run_ops_g terms ops [] empty_egraph = Ok (hs, s) ->
    nth_opt hs i = Some a -> nth_opt hs j = Some b ->
    nth_opt (handle_cterms terms ops) i = Some ti -> nth_opt (handle_cterms terms ops) j = Some tj ->
    eg_eq s a b = Ok true -> Deriv (asserted terms ops) 0 ti tj.
Proof. exact (equality_sound_g_x syn_cov kids_cov xinv_cov HSh_red_x_proved HC_sim_loc_proved HD_sim_x_proved HS_readd_x_proved). Qed.

(* the same about the run of the model itself, with the executable premise `guarded_ok terms ops = true`
   (SoundGuard.guarded_ok; the guarded run refines the run: KeyInv.run_ops_g_refines) *)
Theorem equality_sound_guarded_ok : forall terms ops hs s i j a b ti tj, Forall rt_ok terms -> Forall rt_wf terms ->
    guarded_ok terms ops = true ->
    run_ops terms ops [] empty_egraph = Ok (hs, s) ->
    nth_opt hs i = Some a -> nth_opt hs j = Some b ->
    nth_opt (handle_cterms terms ops) i = Some ti -> nth_opt (handle_cterms terms ops) j = Some tj ->
    eg_eq s a b = Ok true -> Deriv (asserted terms ops) 0 ti tj.
Proof.
  intros terms ops hs s i j a b ti tj TO TW G R.
  destruct (guarded_ok_run terms ops G) as (hs' & s' & Rg & Rr). rewrite R in Rr. inversion Rr; subst hs' s'.
  exact (equality_sound_checked terms ops hs s i j a b ti tj TO TW Rg).
Qed.

Print Assumptions equality_sound_modulo_congruence.
Print Assumptions HC_sim_loc_proved.
Print Assumptions equality_sound_checked.
Print Assumptions equality_sound_guarded_ok.
Check equality_sound_modulo_congruence.
Check equality_sound_checked.
Check equality_sound_guarded_ok.

(* ====================================================================== *)
(* summary                                                                 *)
(* ======================================================================
   Instances: SC = syn_cov (SoundReadd.v), KC = kids_cov (KidsCov.v).
   PROVED (closed under the global context):
   - xinv_cov : xinv_ok syn_cov kids_cov (all seven obligations of SoundRebuild.xinv_ok; the field xi_new
     by cov_pre_rebuild + new_walk_det: both invariants hold in the state right before the rebuild of an
     insertion);
   - HSh_red_x_proved : spec_HSh_red_x syn_cov      (SoundCong.HSh_red_proved);
     HD_sim_x_proved  : spec_HD_sim_x syn_cov       (SoundCong.HD_sim_proved);
     HS_readd_x_proved : spec_HS_readd_x syn_cov kids_cov  (KidsCov.kids_cov_apply, SoundPending.Link_loop_proved,
       SoundPending.nsound_pre_shape, SoundReadd.link_rename_proved);
     HC_sim_loc_proved : spec_HC_sim_loc syn_cov    (SoundCong.HC_sim_local; the LOCAL form of the fact about
       handle_congruence: extra premise hc_shapes_eqb pc1 pc2 = true);
   - (a) equality_sound_modulo_congruence (= equality_sound_HC): the end-to-end statement about run_ops from
     the single hypothesis spec_HC_sim_x syn_cov;
   - (b) equality_sound_checked: the end-to-end statement about a successful run of the guarded model
     KeyInv.run_ops_g, NO hypothesis (SoundGuard.equality_sound_g_x instantiated);
     equality_sound_guarded_ok: the same about run_ops under the executable premise
     SoundGuard.guarded_ok terms ops = true.
   spec_HC_sim_x syn_cov itself is not proved for arbitrary states; EGraph/SoundClosed.v proves the call-site
   form SoundPending.spec_HC_sim_y for the run invariants SC2 / KC2 (key invariant KS) and from it the
   unconditional `equality_sound_all`. *)

(* the premise of equality_sound_guarded_ok is evaluated per run; e.g. on the recorded histories of
   SoundPending.v *)
Example guarded_ok_recorded : map (fun p => guarded_ok (fst p) (snd p)) x_hist = [true; true; true; true; true; true].
Proof. vm_compute. reflexivity. Qed.
