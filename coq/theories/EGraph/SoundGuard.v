(* EGraph/SoundGuard.v — C01, the per-run certified form.  The guarded model of KeyInv.v
   (`handle_congruence_g` fails unless the two nodes composed by pc_congruence have the same weak shape;
   `handle_pending_g` .. `run_ops_g` are verbatim copies of the model calling the guarded layer below)
   refines the model (`KeyInv.run_ops_g_refines`).  This file re-runs the preservation argument of
   SoundPending.v / SoundRebuild.v over the guarded functions: the hypothesis about handle_congruence is
   needed only in its LOCAL form `spec_HC_sim_loc` (with the premise `hc_shapes_eqb pc1 pc2 = true`, which
   the guard establishes at every call).  Every structural fact is obtained from the lemma about the
   real function through the refinement lemmas.  See the summary at the end. *)
From SE Require Import Slots.SlotMapFacts Group.GroupSound Lang.LangFacts Lang.ShapeFacts Lang.RenameFacts
  EGraph.Model EGraph.ModelFacts EGraph.ModelMachine EGraph.UnionFindFacts EGraph.InvariantFacts
  EGraph.UnionInvariantFacts EGraph.AddCoversFacts EGraph.MonotoneFacts EGraph.PendingFacts EGraph.SoundFacts EGraph.SoundUnion EGraph.SoundSyn EGraph.SoundNode EGraph.SoundStruct EGraph.NodePass EGraph.SoundBase EGraph.SoundAddNew EGraph.SoundVals EGraph.SoundAddExpr EGraph.SoundPending EGraph.SoundRebuild.
From SE Require EGraph.SoundCong EGraph.KeyInv.
From SE Require Import Sem.Deriv Sem.DerivFacts Sem.AlgebraFacts Sem.EgMachine Explain.CheckerFacts.
Require Import ZArith Lia ZifyBool ZifyN ZifyNat.
Ltac Zify.zify_post_hook ::= Z.div_mod_to_equations.

Local Notation "a ** b" := (compose_partial a b) (at level 40, left associativity).
Local Notation inv := inverse_nocheck.
Local Notation ectr := Model.ctr.

Local Notation handle_congruence_g := KeyInv.handle_congruence_g.
Local Notation handle_pending_g := KeyInv.handle_pending_g.
Local Notation rebuild_g := KeyInv.rebuild_g.
Local Notation mk_singleton_class_g := KeyInv.mk_singleton_class_g.
Local Notation add_internal_g := KeyInv.add_internal_g.
Local Notation eg_add_g := KeyInv.eg_add_g.
Local Notation add_expr_g := KeyInv.add_expr_g.
Local Notation eg_union_g := KeyInv.eg_union_g.
Local Notation run_ops_g := KeyInv.run_ops_g.

(* the statement about handle_congruence that the guarded run needs: `spec_HC_sim_x` with the LOCAL
   premise that the two weak shapes composed by pc_congruence are equal *)
Definition spec_HC_sim_loc (SC : egraph -> Prop) : Prop :=
  forall E src s pc1 sh pc2 ab s1, inv3 s -> syn_wf s -> mod4_ok s -> SC s -> Sound E s ->
    pc_from_src_id s src = Ok pc1 -> shape s (fst pc1) = Ok sh -> pc_from_shape s (fst sh) = Ok pc2 ->
    SoundCong.hc_shapes_eqb pc1 pc2 = true ->
    pc_congruence pc1 pc2 s = Ok (ab, s1) -> sim E s (fst ab) (snd ab).

Lemma spec_HC_sim_loc_of_x : forall SC, spec_HC_sim_x SC -> spec_HC_sim_loc SC.
Proof. intros SC H E src s pc1 sh pc2 ab s1 I3 W M Sc S P1 Hsh P2 _. exact (H E src s pc1 sh pc2 ab s1 I3 W M Sc S P1 Hsh P2). Qed.

(* ---------------------------------------------------------------------- *)
(* unfolding lemmas for the guarded fixpoints *)

Lemma rebuild_g_S : forall f, rebuild_g (S f) =
  (dom p <- gets pending;
   match p with
   | [] => ret tt
   | (sh, ty) :: rest =>
       dom _ <- modify (fun s => set_pending s rest);
       dom _ <- handle_pending_g sh ty;
       rebuild_g f
   end).
Proof. reflexivity. Qed.

Definition add_children_g : list rterm -> M (list appid) :=
  fix go (l : list rterm) : M (list appid) :=
    match l with
    | [] => ret []
    | c :: r => dom a <- add_expr_g c; dom r' <- go r; ret (a :: r')
    end.

Lemma add_expr_g_unfold : forall n ch,
  add_expr_g (RT n ch) = (dom l <- add_children_g ch;
                          if Nat.ltb (List.length (app_occ n)) (List.length l) then fail OutOfBounds
                          else eg_add_g (set_apps n l)).
Proof. reflexivity. Qed.

Lemma rebuild_fuel_S : exists n, rebuild_fuel = S n.
Proof. exists (pred rebuild_fuel). reflexivity. Qed.

Lemma rebuild_g_nil : forall f s, pending s = [] -> rebuild_g (S f) s = Ok (tt, s).
Proof. intros f s H. rewrite rebuild_g_S. unfold mbind, gets. rewrite H. reflexivity. Qed.

(* a successful guarded rebuild does not depend on the fuel: with the fuel of a successful real
   rebuild from the same state it gives the same result *)
Lemma rebuild_g_fuel : forall f f' s r r', rebuild f s = Ok r -> rebuild_g f' s = Ok r' -> rebuild_g f s = Ok r.
Proof.
  induction f as [|f IH]; intros f' s r r' H H'; [discriminate|].
  destruct f' as [|f']; [discriminate|].
  rewrite rebuild_S in H. rewrite rebuild_g_S in H'. rewrite rebuild_g_S.
  unfold mbind at 1 in H. unfold mbind at 1 in H'. unfold mbind at 1. unfold gets in *.
  destruct (pending s) as [|[sh ty] rest]; [exact H|].
  unfold mbind at 1 in H. unfold mbind at 1 in H'. unfold mbind at 1. unfold modify in *.
  unfold mbind at 1 in H. unfold mbind at 1 in H'. unfold mbind at 1.
  destruct (handle_pending_g sh ty (set_pending s rest)) as [[u s2]|e] eqn:Hg; [|discriminate].
  rewrite (KeyInv.handle_pending_g_refines _ _ _ _ Hg) in H.
  exact (IH f' s2 r r' H H').
Qed.

Section GStages.
  Variable SC : egraph -> Prop.
  Variable KC : egraph -> Prop.
  Hypothesis XI : xinv_ok SC KC.
  Hypothesis HSh_red : spec_HSh_red_x SC.
  Hypothesis HC_loc : spec_HC_sim_loc SC.
  Hypothesis HD_sim : spec_HD_sim_x SC.
  Hypothesis HS_readd : spec_HS_readd_x SC KC.

  Let SC_ext := xi_SC_ext _ _ XI.

  (* ------------------------------------------------------------------ *)
  (* handle_congruence_g: the guard gives the local premise *)

  Lemma Sound_handle_congruence_g : forall E src s pc1 x s', inv3 s -> syn_wf s -> mod4_ok s -> SC s -> Sound E s ->
    pc_from_src_id s src = Ok pc1 -> handle_congruence_g pc1 s = Ok (x, s') -> Sound E s'.
  Proof.
    intros E src s pc1 x s' I3 W M Sc S P1 H. unfold KeyInv.handle_congruence_g in H.
    apply bind_reads_inv in H. destruct H as (sh & Hsh & H).
    apply bind_reads_inv in H. destruct H as (pc2 & P2 & H).
    apply mbind_inv in H. destruct H as (w1 & s0 & Hw1 & H). apply lift_inv in Hw1. destruct Hw1 as [Hw1 ->].
    apply mbind_inv in H. destruct H as (w2 & s0 & Hw2 & H). apply lift_inv in Hw2. destruct Hw2 as [Hw2 ->].
    destruct (node_eqb (fst w1) (fst w2)) eqn:EQ; cbn [negb] in H; [|discriminate].
    apply mbind_inv in H. destruct H as (ab & s1 & H1 & H).
    apply mbind_inv in H. destruct H as (b & s2 & H2 & H). inversion H; subst x s2; clear H.
    assert (G : SoundCong.hc_shapes_eqb pc1 pc2 = true).
    { unfold SoundCong.hc_shapes_eqb. rewrite Hw1, Hw2. exact EQ. }
    pose proof (HC_loc E src s pc1 sh pc2 ab s1 I3 W M Sc S P1 Hsh P2 G H1) as SIM.
    unfold pc_from_shape in P2. destruct (na_get (hashcons s) (fst sh)) as [i2|]; [|discriminate].
    destruct (get_class s i2) as [c2|]; cbn [bind] in P2; [|discriminate].
    destruct (na_get (c_nodes c2) (fst sh)) as [[bj src2]|]; [|discriminate].
    destruct (pc_props s src2 pc2 (proj1 (proj1 I3)) P2) as (L2 & _).
    exact (Sound_pcc_uint SC KC SC_ext ui_spec_sound_closed E s s src pc1 pc2 ab s1 b s' I3 (ext_refl s) I3 M S P1 L2 H1 SIM H2).
  Qed.

  (* ------------------------------------------------------------------ *)
  (* handle_pending_g: the proof of SoundPending.Sound_handle_pending, with the guarded call *)

  Theorem Sound_handle_pending_g : forall E sh ty s x s', inv3 s -> syn_wf s -> mod4_ok s -> SC s -> KC s -> Sound E s ->
    handle_pending_g sh ty s = Ok (x, s') -> Sound E s'.
  Proof.
    intros E sh ty s x s' I3 W M Sc Kc S H. unfold KeyInv.handle_pending_g in H.
    apply bind_reads_inv in H. destruct H as (i & Hi & H). cbv beta in Hi.
    destruct (na_get (hashcons s) sh) as [i'|] eqn:Hh; [|discriminate]. inversion Hi; subst i'; clear Hi.
    destruct (negb ty); [inversion H; subst; exact S|].
    apply bind_reads_inv in H. destruct H as (c & Hc & H).
    apply mbind_inv in H. destruct H as ([bij0 src_id] & s0 & Hp & H). apply lift_inv in Hp. destruct Hp as [Hp ->].
    destruct (na_get (c_nodes c) sh) as [p0|] eqn:Hp0; [|discriminate]. inversion Hp; subst p0; clear Hp.
    apply mbind_inv in H. destruct H as (nd & s0 & Hnd & H). apply lift_inv in Hnd. destruct Hnd as [Hnd ->].
    pose proof (Sound_nsound E s i c sh bij0 src_id nd S Hc (na_get_in _ _ _ Hp0) Hnd) as NS0.
    apply mbind_inv in H. destruct H as (u1 & sA & HA & H).
    assert (IA : inv3 sA /\ ext s sA).
    { destruct I3 as [Hs2 HN]. destruct (semR_step2 _ _ (s_raw_remove _ _ _ _ _ HA) Hs2) as [HsA EA].
      split; [|exact EA]. split; [exact HsA|eapply nodes_raw_remove; eauto]. }
    destruct IA as [IA EA].
    pose proof (Sound_raw_remove E _ _ _ _ _ S HA) as SA.
    pose proof (m4_raw_remove _ _ _ _ _ M HA) as MA.
    pose proof (syn_wf_ext _ _ EA W) as WA.
    apply bind_reads_inv in H. destruct H as (sl & Hsl & H). cbv zeta in H.
    apply bind_reads_inv in H. destruct H as (enode0 & Hen & H).
    apply bind_reads_inv in H. destruct H as (i0 & Hi0 & H).
    unfold class_slots in Hsl. destruct (get_class sA i) as [cA|] eqn:HcA; cbn [bind] in Hsl; [|discriminate].
    inversion Hsl; subst sl; clear Hsl.
    pose proof (covers_lcanon sA _ i0 (proj1 (proj1 IA)) (covers_identity sA i cA HcA) Hi0) as L0.
    apply mbind_inv in H. destruct H as ([enode i1] & sB & HB & H).
    destruct (inv3_hp_loop _ _ _ _ _ _ _ IA L0 (ex_intro _ nd Hen) HB) as (IB & EB & L1 & (n0 & Fn) & Sub). cbn [fst snd] in *.
    pose proof (SC_ext _ _ EA Sc) as ScA. pose proof (SC_ext _ _ EB ScA) as ScB.
    pose proof (Sound_hp_loop SC SC_ext H_shrink_closed HSh_red E _ _ _ _ _ _ _ IA WA MA ScA SA HB) as SB.
    destruct (hp_loop_m4 _ _ _ _ _ _ _ _ MA (find_k4w _ _ _ MA Hi0) HB) as [MB [K1m W1m]].
    pose proof (syn_wf_ext _ _ EB WA) as WB.
    apply bind_reads_inv in H. destruct H as (t & Ht & H).
    apply bind_reads_inv in H. destruct H as (lk & Hlk & H).
    destruct lk as [hit|].
    - apply bind_reads_inv in H. destruct H as (pc & P & H).
      exact (Sound_handle_congruence_g E _ _ _ _ _ IB WB MB ScB SB P H).
    - destruct t as [sh' bij]. pose proof Ht as Ht0.
      apply mbind_inv in H. destruct H as (m & sC & Hm & H).
      change (fill_fresh (values bij) (inv (am i1)) sB = Ok (m, sC)) in Hm. cbv zeta in H.
      apply mbind_inv in H. destruct H as (u2 & sD & HD & H).
      pose proof IB as [[HsB HbB] NB].
      destruct L1 as [Ld1 (cB & HcB & G1 & W1 & B1 & K1)].
      pose proof (proj1 (is_bijection_injective _ W1) B1) as Inj1.
      unfold shape in Ht. destruct (pre_shape sB enode) as [p|] eqn:Pp; cbn [bind] in Ht; [|discriminate].
      destruct (shape_bij_props _ _ _ Ht) as (Wb & Bb & _). destruct (shape_bij _ _ _ Ht) as (Sb1 & Sb2 & _).
      pose proof (proj1 (is_bijection_injective _ Wb) Bb) as Injb.
      pose proof Hm as Hm0.
      destruct (fill_fresh_spec _ _ _ _ _ (inverse_wf (am i1)) Hm) as (Wm & _ & Keep & (cC & ->)).
      assert (Bnd : forall k v, get (inv (am i1)) k = Some v -> v < ectr sB).
      { intros k v G. apply (get_inverse _ _ _ W1 B1) in G.
        assert (Hv : In v (c_slots cB)) by (rewrite <- K1; apply keys_spec; congruence).
        destruct (ei_cls sB HsB _ _ HcB) as (_ & _ & Isyn). apply Isyn, slots_spec, pub_occ_all_occ in Hv.
        exact (HbB _ _ _ HcB Hv). }
      destruct (fill_fresh_inj _ _ _ _ _ (inverse_wf (am i1)) (inv_injective _ W1 Inj1) Bnd Hm) as [Injm _].
      assert (IC : inv3 (set_ctr sB cC) /\ ext sB (set_ctr sB cC)).
      { apply (semn_step3 sB (set_ctr sB cC)); [|apply nsame_ctr|exact IB].
        exact (s_fill_fresh _ _ _ _ _ Hm). }
      destruct IC as [IC EC].
      assert (EO : entry_ok (c_slots cB) (sh', (bij ** m, src_id))).
      { unfold entry_ok. cbn [fst snd]. split; [apply compose_partial_wf|]. split; [apply compose_injective; assumption|]. split.
        - intros k Hk. apply Sb2. rewrite get_compose_partial in Hk by assumption. destruct (get bij k); congruence.
        - intros y Hy. rewrite <- K1 in Hy. apply keys_spec in Hy. destruct (get (am i1) y) as [v|] eqn:Gy; [|congruence].
          assert (Hv : In v (slots enode)).
          { apply mem_in. unfold sset_subset in Sub. apply (proj1 (forallb_forall _ _) Sub). apply values_spec; eauto. }
          apply (pre_shape_keeps_proved sB n0 enode p HsB Fn Pp), slots_spec, Sb1 in Hv. destruct Hv as (k & Gk). exists k.
          rewrite get_compose_partial by assumption. rewrite Gk.
          assert (Gi : get (inv (am i1)) v = Some y) by (apply (get_inverse _ _ _ W1 B1); exact Gy).
          rewrite Keep by congruence. exact Gi. }
      assert (ID : inv3 sD /\ ext (set_ctr sB cC) sD).
      { destruct IC as [Hs2 HN]. destruct (semR_step2 _ _ (s_raw_add _ _ _ _ _ _ HD) Hs2) as [HsD ED].
        split; [|exact ED]. split; [exact HsD|]. eapply nodes_raw_add; [exact HN| |exact EO|exact HD]. exact HcB. }
      destruct ID as [ID ED].
      pose proof (p4_fill_fresh _ _ _ _ _ Hm0 MB) as MC.
      assert (Vm : forall k v, get m k = Some v -> v mod 4 = 1).
      { apply (fill_fresh_m4 _ _ _ _ _ (inverse_wf (am i1)) MB) with (2 := Hm0).
        intros k v G. apply get_inverse_sound in G; [|exact W1m]. apply K1m. congruence. }
      assert (Q : Q4 (sh', (bij ** m, src_id))).
      { split; cbn [fst snd].
        - intros y Hy. apply (shape_all_occ_mod4 _ _ _ Ht). apply binders_all_occ. exact Hy.
        - intros k v G. apply compose_vals in G. destruct G as (y & G). eapply Vm; eauto. }
      pose proof (p4_raw_add _ _ _ _ Q _ _ _ HD MC) as MD.
      assert (SD : Sound E sD).
      { refine (Sound_raw_add E _ _ _ _ _ _ _ (Sound_set_ctr E sB cC SB) _ HD). intros n'' Hn.
        change (idapp (set_ctr sB cC) (aid i1)) with (idapp sB (aid i1)).
        apply (nsound_synR E sB); [apply cuR_synR; split; reflexivity|].
        exact (HS_readd E s sh i c bij0 src_id nd u1 sA cA enode0 i0 enode i1 sB sh' bij m (set_ctr sB cC) n''
                 I3 W M Sc Kc S Hh Hc Hp0 Hnd NS0 HA HcA Hen Hi0 HB IB WB MB ScB SB Ht0 Hlk Hm0 Hn). }
      exact (Sound_determine_self_symmetries SC KC SC_ext ui_spec_sound_closed HD_sim E _ _ _ _ ID
               (syn_wf_ext _ _ (ext_trans _ _ _ EC ED) WB) MD
               (SC_ext _ _ (ext_trans _ _ _ EC ED) ScB) SD H).
  Qed.

  (* ------------------------------------------------------------------ *)
  (* rebuild_g *)

  Theorem Sound_rebuild_g : forall E fuel s x s', inv3 s -> syn_wf s -> mod4_ok s -> SC s /\ KC s -> Sound E s ->
    rebuild_g fuel s = Ok (x, s') -> Sound E s' /\ (SC s' /\ KC s').
  Proof.
    intros E. induction fuel as [|f IH]; intros s x s' I W M [Sc Kc] S H; [discriminate|]. rewrite rebuild_g_S in H.
    apply mbind_inv in H. destruct H as (p & s0 & Hp & H). inversion Hp; subst p s0; clear Hp.
    destruct (pending s) as [|[sh ty] rest]; [inversion H; subst; auto|].
    apply mbind_inv in H. destruct H as (u & s1 & H1 & H).
    destruct (s_modify_pend' (fun _ => rest) _ _ _ H1) as [A1 N1].
    destruct (semn_step3 _ _ A1 N1 I) as [I1 E1].
    assert (S1 : Sound E s1) by (inversion H1; apply Sound_set_pending; exact S).
    assert (M1 : mod4_ok s1) by (inversion H1; apply m4_set_pending; exact M).
    pose proof (syn_wf_ext _ _ E1 W) as W1.
    apply mbind_inv in H. destruct H as (u2 & s2 & H2 & H).
    pose proof (KeyInv.handle_pending_g_refines _ _ _ _ H2) as H2r.
    destruct (inv3_handle_pending pre_shape_keeps_proved _ _ _ _ _ H2r I1) as [I2 E2].
    pose proof (SC_ext _ _ E1 Sc) as Sc1.
    assert (Kc1 : KC s1) by (inversion H1; apply (xi_KC_cuR _ _ XI s); [split; reflexivity|exact Kc]).
    pose proof (Sound_handle_pending_g E _ _ _ _ _ I1 W1 M1 Sc1 Kc1 S1 H2) as S2.
    pose proof (xi_KC_hp _ _ XI _ _ _ _ _ I1 W1 M1 Sc1 Kc1 H2r) as Kc2.
    exact (IH _ _ _ I2 (syn_wf_ext _ _ E2 W1) (m4_handle_pending _ _ _ _ _ M1 H2r) (conj (SC_ext _ _ E2 Sc1) Kc2) S2 H).
  Qed.

  (* ------------------------------------------------------------------ *)
  (* add_internal_g: the lemmas about the real add_internal (SoundAddNew.v) are parametric in a
     predicate XP of the state right before the inner rebuild that rebuild has to keep; it is
     instantiated with "SC, KC, and the guarded rebuild from this state succeeds" *)

  Definition GP (s : egraph) : Prop := exists r, rebuild_g rebuild_fuel s = Ok r.
  Definition XPg (s : egraph) : Prop := (SC s /\ KC s) /\ GP s.

  Lemma H_rebuild_XPg : forall E fuel s x s', inv3 s -> syn_wf s -> mod4_ok s -> XPg s -> Sound E s ->
    rebuild fuel s = Ok (x, s') -> Sound E s' /\ XPg s'.
  Proof.
    intros E fuel s x s' I W M [X [r G]] S H.
    pose proof (rebuild_g_fuel _ _ _ _ _ H G) as Hg.
    destruct (Sound_rebuild_g E fuel s x s' I W M X S Hg) as [S' X'].
    split; [exact S'|]. split; [exact X'|].
    destruct rebuild_fuel_S as [n En]. unfold GP. rewrite En. exists (tt, s').
    apply rebuild_g_nil. exact (rebuild_drains _ _ _ _ H).
  Qed.

  (* the guarded insertion runs the guarded rebuild from the state of new_walk *)
  Lemma add_internal_g_GP : forall t s a s' s5, lookup_internal s t = Ok None ->
    add_internal_g t s = Ok (a, s') -> new_walk t s s5 -> GP s5.
  Proof.
    intros t s a s' s5 Hlk H (en1 & c1 & en2 & en3 & s3 & f2o & c2 & synf & i & s3a & sh & bij & s4 &
                               A1 & A2 & A3 & A4 & A5 & A6 & A7 & A8 & A9).
    unfold KeyInv.add_internal_g in H.
    apply bind_reads_inv in H. destruct H as (lk & Hlk' & H). rewrite Hlk in Hlk'. inversion Hlk'; subst lk; clear Hlk'.
    apply mbind_inv in H. destruct H as (en1' & s1 & H1 & H).
    rewrite A1 in H1. inversion H1; subst en1' s1; clear H1.
    apply mbind_inv in H. destruct H as (en2' & s2 & H2 & H). apply lift_inv in H2. destruct H2 as [H2 ->].
    rewrite A2 in H2. inversion H2; subst en2'; clear H2.
    apply mbind_inv in H. destruct H as (en3' & s3' & H3 & H).
    rewrite A3 in H3. inversion H3; subst en3' s3'; clear H3.
    apply mbind_inv in H. destruct H as (syn & s6 & H4 & _).
    unfold KeyInv.mk_singleton_class_g in H4.
    apply mbind_inv in H4. destruct H4 as (f2o' & s1 & H1 & H).
    unfold with_ctr in H1. rewrite A4 in H1. inversion H1; subst f2o' s1; clear H1.
    apply mbind_inv in H. destruct H as (synf' & s2 & H2 & H).
    unfold with_ctr in H2. cbn [Model.ctr set_ctr] in H2. rewrite A5 in H2. inversion H2; subst synf' s2; clear H2.
    apply mbind_inv in H. destruct H as (i' & s3a' & H3 & H).
    rewrite A6 in H3. inversion H3; subst i' s3a'; clear H3.
    apply mbind_inv in H. destruct H as (t' & s0 & Ht & H). apply lift_inv in Ht. destruct Ht as [Ht ->].
    rewrite A7 in Ht. inversion Ht; subst t'; clear Ht.
    apply mbind_inv in H. destruct H as (u4 & s4' & H4 & H).
    rewrite A8 in H4. inversion H4; subst u4 s4'; clear H4.
    apply mbind_inv in H. destruct H as (u5 & s5' & H5 & H). cbn [fst] in H5.
    rewrite A9 in H5. inversion H5; subst u5 s5'; clear H5.
    apply mbind_inv in H. destruct H as (u6 & s7 & H6 & _).
    exists (u6, s7). exact H6.
  Qed.

  Theorem Sound_add_internal_g : forall E t p s a s', inv3 s -> syn_wf s -> Sound E s -> RI SC KC s -> ectr s mod 4 = 1 ->
    wshape p = Ok t -> Forall (covers s) (app_occ p) -> Forall (fun x => wf (am x)) (app_occ p) ->
    (forall x, In x (pub_occ p) -> x mod 4 <> 1 \/ x < ectr s) ->
    add_internal_g t s = Ok (a, s') ->
    Sound E s' /\ syn_wf s' /\ nsound E s' a p /\ RI SC KC s'.
  Proof.
    intros E t p s a s' I W S HR Cm Hw Cv Wfp Bp Hg. pose proof HR as ((SO & KE & M) & (Sc & Kc)).
    pose proof (KeyInv.add_internal_g_refines _ _ _ Hg) as H.
    destruct (lookup_total _ _ _ _ H) as ([x|] & L).
    - destruct (add_internal_hit _ _ _ _ _ L H) as [-> ->]. split; [exact S|]. split; [exact W|]. split; [|exact HR].
      destruct t as [sh nb]. exact (nsound_lookup_hit E s p sh nb x I (stored_ok_of s SO M) S Hw L).
    - assert (HXP : forall s5, new_walk t s s5 -> XPg s5).
      { intros s5 NW. split; [exact (xi_new _ _ XI t p s a s' s5 I W M SO KE Sc Kc Cm Hw L Cv Wfp Bp H NW)|].
        exact (add_internal_g_GP t s a s' s5 L Hg NW). }
      destruct (Sound_add_internal_new XPg H_rebuild_XPg E t p s a s' I W M S KE Cm HXP Hw L H) as [S' [X' _]].
      split; [exact S'|].
      split; [exact (syn_wf_add_internal t p s a s' I W Hw H)|].
      split; [exact (nsound_add_internal_new XPg H_rebuild_XPg E t p s a s' I W M S KE Cm HXP Hw L H Cv Wfp Bp)|].
      split; [exact (RI0_add_internal t s a s' (proj1 HR) H)|exact X'].
  Qed.

  (* ------------------------------------------------------------------ *)
  (* eg_add_g, add_expr_g: the proofs of SoundAddExpr.Sound_eg_add / Sound_add_expr_k *)

  Theorem Sound_eg_add_g : forall E n s a s', inv3 s -> syn_wf s -> Sound E s -> RI SC KC s -> ectr s mod 4 = 1 ->
    Forall (covers s) (app_occ n) ->
    (forall x, In x (all_occ n) -> x mod 4 <> 1 \/ x < ectr s) ->
    eg_add_g n s = Ok (a, s') -> Sound E s' /\ syn_wf s' /\ nsound E s' a n /\ RI SC KC s'.
  Proof.
    intros E n s a s' I W S HR Cm0 Cv Bn Hg. pose proof (KeyInv.eg_add_g_refines _ _ _ Hg) as H0. pose proof Hg as H.
    unfold KeyInv.eg_add_g in H. apply bind_reads_inv in H. destruct H as (t & Ht & H).
    unfold shape in Ht. destruct (pre_shape s n) as [p|] eqn:P; cbn [bind] in Ht; [|discriminate].
    assert (Bp : forall x, In x (pub_occ p) -> x mod 4 <> 1 \/ x < ectr s).
    { intros x Hx. apply Bn. apply (pre_shape_all_occ s n p P). apply pub_occ_all_occ. exact Hx. }
    destruct (Sound_add_internal_g E t p s a s' I W S HR Cm0 Ht (pre_shape_covers s n p I Cv P) (pre_shape_kids_wf s n p P) Bp H) as (S' & W' & NS & HR').
    destruct (eg_add_covers n s a s' I H0) as (I' & X & _).
    split; [exact S'|]. split; [exact W'|]. split; [|exact HR']. exact (pre_shape_back E s s' a n p (proj1 (proj1 I)) S X W' Cv P NS).
  Qed.

  Lemma eg_add_vals_r : forall n s a s', inv3 s -> ectr s mod 4 = 1 -> eg_add n s = Ok (a, s') ->
    forall v, In v (values_vec (am a)) -> In v (all_occ n) \/ (v mod 4 = 1 /\ v < ectr s').
  Proof. exact (eg_add_vals add_internal_vals). Qed.

  Definition kids_res_g (E : equations) (s1 : egraph) (l : list appid) (ch : list rterm) : Prop :=
    RI SC KC s1 /\ syn_wf s1 /\ Sound E s1 /\ Forall (covers s1) l /\ Forall vnb l /\ Forall (hvb (ectr s1)) l /\
    Forall2 (fun a c => handle_ok E s1 a (canon0 c)) l ch.

  Lemma Sound_add_expr_g_k : forall E k t s a s', (rsize t < k)%nat -> inv3 s -> syn_wf s -> Sound E s -> RI SC KC s ->
    ectr s mod 4 = 1 -> rt_ok t -> rt_wf t -> add_expr_g t s = Ok (a, s') ->
    Sound E s' /\ handle_ok E s' a (canon0 t) /\ syn_wf s' /\ vnb a /\ hvb (ectr s') a /\ RI SC KC s'.
  Proof.
    intros E. induction k as [|k IHk]; intros t s a s' Hk I W S HR Cm OK WF H; [lia|].
    destruct t as [n ch]. rewrite add_expr_g_unfold in H.
    apply rt_ok_iff in OK. destruct OK as [U C]. apply rt_wf_iff in WF. destruct WF as [Ln Cw].
    apply mbind_inv in H. destruct H as (l & s1 & Hgo & H).
    assert (G : forall ch0, (forall c, In c ch0 -> (rsize c < k)%nat) -> Forall rt_ok ch0 -> Forall rt_wf ch0 ->
                forall s0 l0 s2, inv3 s0 -> syn_wf s0 -> Sound E s0 -> RI SC KC s0 -> ectr s0 mod 4 = 1 ->
                add_children_g ch0 s0 = Ok (l0, s2) ->
                inv3 s2 /\ ext0 s0 s2 /\ ectr s2 mod 4 = 1 /\ kids_res_g E s2 l0 ch0).
    { clear -IHk. induction ch0 as [|c r IHr]; intros Hs Co Cw s0 l0 s2 I0 W0 S0 R0 M0 H; cbn [add_children_g] in H.
      - inversion H; subst. split; [exact I0|]. split; [apply ext0_refl|]. split; [exact M0|]. unfold kids_res_g. repeat (split; [solve [auto]|]). auto.
      - inversion Co as [|? ? Oc Or]; subst. inversion Cw as [|? ? Wc Wr]; subst.
        apply mbind_inv in H. destruct H as (a0 & s1 & H1 & H).
        destruct (IHk c s0 a0 s1 (Hs c (or_introl eq_refl)) I0 W0 S0 R0 M0 Oc Wc H1) as (S1 & O1 & W1 & V1 & B1 & R1).
        pose proof (KeyInv.add_expr_g_refines _ _ _ H1) as H1r.
        pose proof (proj2 (add_expr_ctr_grows c s0 a0 s1 H1r) M0) as M1.
        destruct (add_expr_covers c s0 a0 s1 I0 H1r) as (I1 & X1 & C1).
        apply mbind_inv in H. destruct H as (r' & s3 & H3 & H). inversion H; subst l0 s3; clear H.
        destruct (IHr (fun c' Hc' => Hs c' (or_intror Hc')) Or Wr s1 r' s2 I1 W1 S1 R1 M1 H3) as (I2 & X2 & M2 & (R2 & W2 & S2 & C2 & V2 & B2 & F2)).
        split; [exact I2|]. split; [eapply ext0_trans; eauto|]. split; [exact M2|]. unfold kids_res_g.
        split; [exact R2|]. split; [exact W2|]. split; [exact S2|]. split; [constructor; [eapply covers_ext0; eauto|exact C2]|].
        split; [constructor; assumption|]. split; [constructor; [exact (hvb_mono _ _ _ (proj1 X2) B1)|exact B2]|].
        constructor; [|exact F2]. eapply handle_ok_ext0; eauto. }
    assert (Hsz : forall c, In c ch -> (rsize c < k)%nat).
    { intros c Hc. pose proof (rsize_child n ch c Hc). lia. }
    destruct (G ch Hsz C Cw s l s1 I W S HR Cm Hgo) as (I1 & X1 & M1 & (R1 & W1 & S1 & C1 & V1 & B1 & F1)).
    pose proof (F2_length _ _ _ F1) as Ll.
    destruct (Nat.ltb _ _); [discriminate|].
    assert (Lo : List.length l = List.length (app_occ n)) by lia.
    assert (Ao : app_occ (set_apps n l) = l) by (apply app_occ_set_apps; exact Lo).
    assert (Cv' : Forall (covers s1) (app_occ (set_apps n l))) by (rewrite Ao; exact C1).
    pose proof (set_apps_all_bound n l (ectr s1) U B1) as Bn.
    destruct (Sound_eg_add_g E _ s1 a s' I1 W1 S1 R1 M1 Cv' Bn H) as (S' & W' & NS & R').
    pose proof (KeyInv.eg_add_g_refines _ _ _ H) as Hr.
    destruct (eg_add_covers _ s1 a s' I1 Hr) as (I' & X' & Ca).
    assert (Va : vnb a).
    { intros v Hv. destruct (eg_add_vals_r _ s1 a s' I1 M1 Hr v Hv) as [T|T].
      - eapply set_apps_all_notB; eauto.
      - unfold is_B. lia. }
    assert (Ba : hvb (ectr s') a).
    { intros v Hv. destruct (eg_add_vals_r _ s1 a s' I1 M1 Hr v Hv) as [T|T].
      - destruct (Bn v T) as [T'|T']; [left; exact T'|right]. pose proof (proj1 X') as L. lia.
      - right. exact (proj2 T). }
    split; [exact S'|]. split; [|split; [assumption|split; [assumption|split; assumption]]].
    apply (bridge E s' W' a n ch l I' S' Ca Va); try assumption.
    - apply rt_ok_iff. split; assumption.
    - clear -F1 C1 X'. induction F1 as [|x y l l' Hxy F IHF]; [constructor|]. inversion C1; subst.
      constructor; [eapply handle_ok_ext0; eauto|apply IHF; assumption].
    - revert C1. apply Forall_impl. intros x. apply covers_ext0. exact X'.
  Qed.

  Theorem Sound_add_expr_g : forall E t s a s', inv3 s -> syn_wf s -> Sound E s -> RI SC KC s -> ectr s mod 4 = 1 ->
    rt_ok t -> rt_wf t -> add_expr_g t s = Ok (a, s') ->
    Sound E s' /\ handle_ok E s' a (canon0 t) /\ syn_wf s' /\ RI SC KC s'.
  Proof.
    intros E t s a s' I W Sd HR Cm OK WF H.
    destruct (Sound_add_expr_g_k E (S (rsize t)) t s a s' (Nat.lt_succ_diag_r _) I W Sd HR Cm OK WF H) as (A & C & D & _ & _ & R').
    auto.
  Qed.

  (* ------------------------------------------------------------------ *)
  (* eg_union_g *)

  Theorem Sound_eg_union_g : forall E s l r tl tr b s', inv3 s -> syn_wf s -> mod4_ok s -> SC s /\ KC s -> Sound E s ->
    covers s l -> covers s r -> handle_ok E s l tl -> handle_ok E s r tr ->
    eg_union_g l r s = Ok (b, s') -> Sound (E ++ [(tl, tr)]) s' /\ (SC s' /\ KC s').
  Proof.
    intros E s l r tl tr b s' I W M [Sc Kc] S Cl Cr Ol Or H.
    pose proof (handle_sim E s l r tl tr W Cl Cr Ol Or) as SIM.
    assert (ME : forall e, In e E -> In e (E ++ [(tl, tr)])) by (intros e He; apply in_or_app; left; exact He).
    pose proof (Sound_mono _ _ _ ME S) as S'.
    unfold KeyInv.eg_union_g in H.
    apply mbind_inv in H. destruct H as (l1 & s1 & H1 & H).
    destruct (semn_step3 _ _ (s_synify_app_id _ _ _ _ H1) (n_synify_app_id _ _ _ _ H1) I) as [I1 E1].
    pose proof (cu_synify_app_id _ _ _ _ H1) as U1. pose proof (m4_synify_app_id _ _ _ _ M H1) as M1.
    apply mbind_inv in H. destruct H as (r1 & s2 & H2 & H).
    destruct (semn_step3 _ _ (s_synify_app_id _ _ _ _ H2) (n_synify_app_id _ _ _ _ H2) I1) as [I2 E2].
    pose proof (cu_synify_app_id _ _ _ _ H2) as U2. pose proof (m4_synify_app_id _ _ _ _ M1 H2) as M2.
    pose proof (cuR_trans _ _ _ U1 U2) as U02. pose proof (ext_trans _ _ _ E1 E2) as E02.
    apply mbind_inv in H. destruct H as (out & s3 & H3 & H).
    assert (SIM2 : sim (E ++ [(tl, tr)]) s2 l r) by (apply (sim_classes _ s s2 _ _ (proj1 U02)); exact SIM).
    pose proof (ui_spec_sound_closed _ ui_fuel l r s2 out s3 I2 M2 (Sound_cuR _ _ _ U02 S')
                  (covers_ext _ _ _ E02 Cl) (covers_ext _ _ _ E02 Cr) SIM2 H3) as S3.
    destruct (inv3_uint _ _ _ _ _ I2 (covers_ext _ _ _ E02 Cl) (covers_ext _ _ _ E02 Cr) H3) as [I3 E3].
    apply mbind_inv in H. destruct H as (u & s4 & H4 & H). inversion H; subst b s4; clear H.
    assert (W2 : syn_wf s2) by (apply (syn_wf_ext s); [exact E02|exact W]).
    pose proof (SC_ext _ _ E02 Sc) as Sc2. pose proof (xi_KC_cuR _ _ XI _ _ U02 Kc) as Kc2.
    pose proof (xi_KC_uint _ _ XI l r s2 out s3 I2 W2 M2 (covers_ext _ _ _ E02 Cl) (covers_ext _ _ _ E02 Cr) Sc2 Kc2 H3) as Kc3.
    refine (Sound_rebuild_g _ _ _ _ _ I3 _ (m4_uint _ _ _ _ _ M2 H3) (conj (SC_ext _ _ E3 Sc2) Kc3) S3 H4).
    apply (syn_wf_ext s2); [exact E3|exact W2].
  Qed.

  (* ------------------------------------------------------------------ *)
  (* every guarded history *)

  Lemma Good2_add_g : forall E s hs hts tm a s1, Good2 SC KC E s hs hts -> rt_ok tm -> rt_wf tm ->
    add_expr_g tm s = Ok (a, s1) -> Good2 SC KC E s1 (hs ++ [a]) (hts ++ [canon0 tm]).
  Proof.
    intros E s hs hts tm a s1 ((I & S & Cv & F) & W & SO & Cm) TOk TWf Eg.
    pose proof (KeyInv.add_expr_g_refines _ _ _ Eg) as Ea.
    destruct (add_expr_covers tm s a s1 I Ea) as (I1 & X & Ca).
    destruct (Sound_add_expr_g E tm s a s1 I W S SO Cm TOk TWf Eg) as (S1 & O1 & W1 & SO1).
    pose proof (proj2 (add_expr_ctr_grows tm s a s1 Ea) Cm) as Cm1.
    split; [|split; [exact W1|split; [exact SO1|exact Cm1]]]. split; [exact I1|]. split; [exact S1|]. split.
    - apply Forall_app. split; [|constructor; [exact Ca|constructor]].
      apply Forall_forall. intros x Hx. eapply covers_ext0; [exact X|]. apply (proj1 (Forall_forall _ _) Cv). exact Hx.
    - apply Forall2_app; [|constructor; [exact O1|constructor]].
      clear -F Cv X. induction F as [|x y l l' Hxy F IHF]; [constructor|]. inversion Cv; subst.
      constructor; [eapply handle_ok_ext0; eauto|apply IHF; assumption].
  Qed.

  Lemma Good2_run_ops_g : forall terms, Forall rt_ok terms -> Forall rt_wf terms ->
    forall ops hs s hts E hs' s', Good2 SC KC E s hs hts -> run_ops_g terms ops hs s = Ok (hs', s') ->
    Good2 SC KC (snd (ghost terms ops hts E)) s' hs' (fst (ghost terms ops hts E)).
  Proof.
    intros terms TO TW. induction ops as [|o ops IH]; intros hs s hts E hs' s' G H; cbn [KeyInv.run_ops_g ghost] in *.
    - inversion H; subst. exact G.
    - destruct o as [k|i j just].
      + destruct (nth_opt terms k) as [tm|] eqn:Ek; [|discriminate]. unfold mbind in H.
        destruct (add_expr_g tm s) as [[a s1]|] eqn:Ea; [|discriminate].
        assert (TOk : rt_ok tm). { apply (proj1 (Forall_forall _ _) TO). eapply nth_opt_In; eauto. }
        assert (TWf : rt_wf tm). { apply (proj1 (Forall_forall _ _) TW). eapply nth_opt_In; eauto. }
        exact (IH _ _ _ _ _ _ (Good2_add_g E s hs hts tm a s1 G TOk TWf Ea) H).
      + destruct G as ((I & S & Cv & F) & W & SO & Cm).
        destruct (nth_opt hs i) as [a|] eqn:Ha; [|discriminate]. destruct (nth_opt hs j) as [b|] eqn:Hb; [|discriminate].
        unfold mbind in H. destruct (eg_union_g a b s) as [[u s1]|] eqn:Eg; [|discriminate].
        pose proof (KeyInv.eg_union_g_refines _ _ _ _ Eg) as Eu.
        destruct (Forall2_nth_opt _ _ _ _ _ F Ha) as (ta & -> & Oa).
        destruct (Forall2_nth_opt _ _ _ _ _ F Hb) as (tb & -> & Ob).
        pose proof (proj1 (Forall_forall _ _) Cv) as Cv'.
        pose proof (Cv' _ (nth_opt_In _ _ _ _ Ha)) as Ca. pose proof (Cv' _ (nth_opt_In _ _ _ _ Hb)) as Cb.
        destruct (eg_union_inv3 a b s u s1 I Ca Cb Eu) as (I1 & X).
        destruct (Sound_eg_union_g E s a b ta tb u s1 I W (proj2 (proj2 (proj1 SO))) (proj2 SO) S Ca Cb Oa Ob Eg) as [S1 X1].
        pose proof (proj2 (eg_union_ctr_grows a b s u s1 Eu) Cm) as Cm1.
        pose proof (conj (RI0_eg_union a b s u s1 (proj1 SO) Eu) X1) as SO1.
        refine (IH _ _ _ _ _ _ _ H). split; [|split; [exact (syn_wf_ext _ _ X W)|split; [exact SO1|exact Cm1]]]. split; [exact I1|]. split; [exact S1|]. split.
        * apply Forall_forall. intros x Hx. eapply covers_ext; [exact X|]. apply Cv'. exact Hx.
        * clear -F Cv X. induction F as [|x y l l' Hxy F IHF]; [constructor|]. inversion Cv; subst.
          constructor; [|apply IHF; assumption].
          eapply handle_ok_ext0; [apply ext_ext0; exact X|eassumption|].
          eapply handle_ok_mono; [|exact Hxy]. intros e He. apply in_or_app. left. exact He.
  Qed.

  (* the end-to-end statement over the guarded run *)
  Theorem equality_sound_g_x : forall terms ops hs s i j a b ti tj, Forall rt_ok terms -> Forall rt_wf terms ->
    run_ops_g terms ops [] empty_egraph = Ok (hs, s) ->
    nth_opt hs i = Some a -> nth_opt hs j = Some b ->
    nth_opt (handle_cterms terms ops) i = Some ti -> nth_opt (handle_cterms terms ops) j = Some tj ->
    eg_eq s a b = Ok true -> Deriv (asserted terms ops) 0 ti tj.
  Proof.
    intros terms ops hs s i j a b ti tj TO TW R Ha Hb Hti Htj H.
    destruct (Good2_run_ops_g terms TO TW ops [] empty_egraph [] [] hs s (Good2_empty SC KC XI []) R) as [G _].
    exact (Good_eq_sound _ _ _ _ i j a b ti tj G Ha Hb Hti Htj H).
  Qed.
End GStages.

(* the executable premise: the guarded run of the history succeeds *)
Definition guarded_ok (terms : list rterm) (ops : list hop) : bool :=
  match run_ops_g terms ops [] empty_egraph with Ok _ => true | Err _ => false end.

Lemma guarded_ok_run : forall terms ops, guarded_ok terms ops = true ->
  exists hs s, run_ops_g terms ops [] empty_egraph = Ok (hs, s) /\ run_ops terms ops [] empty_egraph = Ok (hs, s).
Proof.
  intros terms ops H. unfold guarded_ok in H.
  destruct (run_ops_g terms ops [] empty_egraph) as [[hs s]|e] eqn:R; [|discriminate].
  exists hs, s. split; [reflexivity|]. exact (KeyInv.run_ops_g_refines _ _ _ _ _ R).
Qed.

Print Assumptions Sound_handle_pending_g.
Print Assumptions Sound_rebuild_g.
Print Assumptions Sound_add_internal_g.
Print Assumptions Sound_add_expr_g.
Print Assumptions Sound_eg_union_g.
Print Assumptions equality_sound_g_x.
Check equality_sound_g_x.
