(* EGraph/SoundMachine.v — executable premises of the end-to-end soundness theorem and the machine `egsound`:
   for one history, are the inserted terms well formed (user slot names only, one child per invocation position)
   and does the GUARDED model run succeed (every handle_congruence call passed the weak-shape equality test)?
   If so, SoundFinal.equality_sound_guarded_ok applies to this history: every equality the model reports between
   two handles is derivable from the asserted equations. *)
From Coq Require Import Arith.
From SE Require Import EGraph.ModelMachine EGraph.SoundFacts EGraph.SoundAddExpr EGraph.SoundGuard EGraph.SoundFinal.

Fixpoint rt_okb (t : rterm) : bool :=
  match t with
  | RT n ch => forallb (fun x => (x mod 4 =? 0) || (x mod 4 =? 2)) (all_occ n) &&
               (fix go (l : list rterm) : bool := match l with [] => true | c :: r => rt_okb c && go r end) ch
  end.

Fixpoint rt_wfb (t : rterm) : bool :=
  match t with
  | RT n ch => Nat.eqb (List.length ch) (List.length (app_occ n)) &&
               (fix go (l : list rterm) : bool := match l with [] => true | c :: r => rt_wfb c && go r end) ch
  end.

Lemma rt_okb_sound : forall t, rt_okb t = true -> rt_ok t.
Proof.
  fix IH 1. intros [n ch] H. cbn [rt_okb] in H. apply andb_true_iff in H. destruct H as [Ha Hc].
  cbn [rt_ok]. split.
  - intros x Hx. rewrite forallb_forall in Ha. specialize (Ha x Hx). apply orb_true_iff in Ha.
    destruct Ha as [Ha|Ha]; apply N.eqb_eq in Ha; [left|right]; exact Ha.
  - clear Ha. induction ch as [|c r IHr]; [exact I|]. apply andb_true_iff in Hc. destruct Hc as [H1 H2].
    split; [apply IH; exact H1|apply IHr; exact H2].
Qed.

Lemma rt_wfb_sound : forall t, rt_wfb t = true -> rt_wf t.
Proof.
  fix IH 1. intros [n ch] H. cbn [rt_wfb] in H. apply andb_true_iff in H. destruct H as [Ha Hc].
  cbn [rt_wf]. split.
  - apply PeanoNat.Nat.eqb_eq. exact Ha.
  - clear Ha. induction ch as [|c r IHr]; [exact I|]. apply andb_true_iff in Hc. destruct Hc as [H1 H2].
    split; [apply IH; exact H1|apply IHr; exact H2].
Qed.

Definition sound_premises (terms : list rterm) (ops : list hop) : bool :=
  forallb rt_okb terms && forallb rt_wfb terms && guarded_ok terms ops.

(* the per-run certified form of C01 on the model *)
Theorem equality_sound_certified : forall terms ops hs s i j a b ti tj,
  sound_premises terms ops = true ->
  run_ops terms ops [] empty_egraph = Ok (hs, s) ->
  nth_opt hs i = Some a -> nth_opt hs j = Some b ->
  nth_opt (handle_cterms terms ops) i = Some ti -> nth_opt (handle_cterms terms ops) j = Some tj ->
  eg_eq s a b = Ok true -> Deriv (asserted terms ops) 0 ti tj.
Proof.
  intros terms ops hs s i j a b ti tj Hp Hr Ha Hb Hti Htj He. unfold sound_premises in Hp.
  apply andb_true_iff in Hp. destruct Hp as [Hp Hg]. apply andb_true_iff in Hp. destruct Hp as [Ho Hw].
  apply (equality_sound_guarded_ok terms ops hs s i j a b ti tj); [| |exact Hg|exact Hr|exact Ha|exact Hb|exact Hti|exact Htj|exact He].
  - apply Forall_forall. intros t Ht. apply rt_okb_sound. rewrite forallb_forall in Ho. apply Ho. exact Ht.
  - apply Forall_forall. intros t Ht. apply rt_wfb_sound. rewrite forallb_forall in Hw. apply Hw. exact Ht.
Qed.

Definition run_egsound (args : list sexp) : sexp :=
  match args with
  | _ :: Lst (Sym "terms" :: ts) :: Lst (Sym "ops" :: os) :: _ =>
      match dec_rterms ts, dec_hops os with
      | Some rts, Some ops =>
          Lst [Sym "sound"; Lst [Sym "terms-ok"; sbool (forallb rt_okb rts && forallb rt_wfb rts)];
               Lst [Sym "guarded"; sbool (guarded_ok rts ops)]]
      | _, _ => Sym "bad-case"
      end
  | _ => Sym "bad-case"
  end.

Print Assumptions equality_sound_certified.
