(* EGraph/SoundNode.v — the node layer of the soundness proof (C01): how the terms of a node
   (`NodeT` of SoundFacts.v) behave under alpha-renaming / renaming of the free slots
   (`NodeT_equiv`), and under replacing the children by related invocations. *)
From SE Require Import Slots.SlotMapFacts Group.GroupSound Lang.LangFacts Lang.ShapeFacts Lang.RenameFacts
  EGraph.Model EGraph.ModelFacts EGraph.ModelMachine EGraph.UnionFindFacts EGraph.InvariantFacts
  EGraph.UnionInvariantFacts EGraph.AddCoversFacts EGraph.MonotoneFacts EGraph.SoundFacts EGraph.SoundSyn.
From SE Require Import Sem.Deriv Sem.DerivFacts Sem.AlgebraFacts Explain.CheckerFacts.
Require Import ZArith Lia ZifyBool ZifyN ZifyNat.
Ltac Zify.zify_post_hook ::= Z.div_mod_to_equations.

Local Notation "a ** b" := (compose_partial a b) (at level 40, left associativity).
Local Notation inv := inverse_nocheck.
Local Notation ectr := Model.ctr.

(* ====================================================================== *)
(* 1. nodes with related patterns have the same terms                      *)
(* ====================================================================== *)

Section PatRel.
  Variable s : egraph.
  (* a relation between pattern entries that relates binder markers only to themselves *)
  Variable Q : occ -> occ -> Prop.
  Hypothesis Q_bnd_l : forall i o, Q (Bnd i) o -> o = Bnd i.
  Hypothesis Q_bnd_r : forall i o, Q o (Bnd i) -> o = Bnd i.

  Definition bounded (env : benv) (k : nat) : Prop := forall x i, In (x, i) env -> (i < k)%nat.

  Lemma Forall2_app_split : forall {A C} (R : A -> C -> Prop) l1 l1' l2 l2', List.length l1 = List.length l1' ->
    Forall2 R (l1 ++ l2) (l1' ++ l2') -> Forall2 R l1 l1' /\ Forall2 R l2 l2'.
  Proof.
    intros A C R. induction l1 as [|x t IH]; intros l1' l2 l2' L F; destruct l1' as [|y t']; try discriminate.
    - split; [constructor|exact F].
    - cbn [app] in F. inversion F as [|x0 y0 l0 l0' Hxy F']; subst. injection L as L.
      destruct (IH _ _ _ L F') as [A1 A2]. split; [constructor; assumption|assumption].
  Qed.

  Lemma skel_vals_len : forall (m m' : slotmap), map (fun p => (fst p, 0)) m = map (fun p => (fst p, 0)) m' ->
    List.length m = List.length m'.
  Proof. intros m m' H. rewrite <- (map_length (fun p => (fst p, 0)) m), H. apply map_length. Qed.

  Lemma pat_f_len : forall a a' env env' k k', skel_f a = skel_f a' ->
    List.length (pat_f env k a) = List.length (pat_f env' k' a').
  Proof.
    induction a as [x|x|x b IH|p]; intros a' env env' k k' H; destruct a' as [x'|x'|x' b'|p']; try discriminate; cbn [pat_f].
    - reflexivity.
    - cbn [skel_f] in H. injection H as _ H. rewrite !map_length. unfold values_vec. rewrite !map_length. apply skel_vals_len. exact H.
    - cbn [skel_f] in H. injection H as H. cbn [List.length]. f_equal. apply IH. exact H.
    - reflexivity.
  Qed.

  (* the value read at a key, for two maps with the same keys and related values *)
  Lemma get_rel_vals : forall (P : N -> N -> Prop) (m m' : slotmap),
    map (fun p => (fst p, 0)) m = map (fun p => (fst p, 0)) m' ->
    Forall2 P (values_vec m) (values_vec m') ->
    forall z v', get m' z = Some v' -> exists v, get m z = Some v /\ P v v'.
  Proof.
    intros P. induction m as [|[k v] t IH]; intros m' H F z v' G; destruct m' as [|[k' w] t']; try discriminate.
    cbn [map fst] in H. injection H as Hk H. subst k'.
      unfold values_vec in F. cbn [map snd] in F. inversion F as [|x0 y0 l0 l0' Hvw F']; subst.
      cbn [get] in G |- *. destruct (z =? k).
      + inversion G; subst. eauto.
      + apply (IH t' H F' z v' G).
  Qed.

  Lemma NodeArg_rel : forall a a' env env' k d r r' t, skel_f a = skel_f a' ->
    Forall2 Q (pat_f env k a) (pat_f env' k a') -> bounded env k -> bounded env' k ->
    (forall x x', Q (key env x) (key env' x') -> r x = r' x') ->
    NodeArg s d r a t -> NodeArg s d r' a' t.
  Proof.
    induction a as [x|x|x b IH|p]; intros a' env env' k d r r' t Sk F Be Be' Rel H;
      destruct a' as [x'|x'|x' b'|p']; try discriminate; cbn [pat_f] in F.
    - inversion F as [|o o' l0 l0' Hq F']; subst.
      inversion H as [d0 r0 x0| | |]; subst. rewrite (Rel _ _ Hq). constructor.
    - cbn [skel_f] in Sk. injection Sk as Ea Em.
      inversion H as [| | |d0 r0 a0 tau Rk Cm]; subst. rewrite Ea. apply NA_app; [rewrite <- Ea; exact Rk|].
      intros z v' G.
      assert (F' : Forall2 (fun v w => Q (key env v) (key env' w)) (values_vec (am x)) (values_vec (am x'))).
      { clear -F. remember (values_vec (am x)) as l. remember (values_vec (am x')) as l'. clear Heql Heql'.
        revert l' F. induction l as [|u l IHl]; intros l' F; destruct l' as [|u' l']; cbn [map] in F; inversion F; subst; constructor; auto. }
      destruct (get_rel_vals _ _ _ Em F' z v' G) as (v & Gv & Hq).
      rewrite (Cm _ _ Gv). apply Rel. exact Hq.
    - cbn [skel_f] in Sk. injection Sk as Sk.
      inversion F as [|o o' l0 l0' Hq F']; subst.
      inversion H as [| |d0 r0 x0 b0 t0 Hb|]; subst. constructor.
      apply (IH b' ((x, k) :: env) ((x', k) :: env') (S k) (S d) (upd r x (B d)) (upd r' x' (B d)) t0 Sk F').
      + intros y i [Ey|Hy]; [inversion Ey; lia|]. apply Be in Hy. lia.
      + intros y i [Ey|Hy]; [inversion Ey; lia|]. apply Be' in Hy. lia.
      + intros y y'. rewrite !key_cons. unfold upd. destruct (y =? x) eqn:E1; destruct (y' =? x') eqn:E2; intros Hq'.
        * reflexivity.
        * apply Q_bnd_l in Hq'. apply key_bnd in Hq'. apply Be' in Hq'. lia.
        * apply Q_bnd_r in Hq'. apply key_bnd in Hq'. apply Be in Hq'. lia.
        * apply Rel. exact Hq'.
      + exact Hb.
    - cbn [skel_f] in Sk. injection Sk as ->. inversion H; subst. constructor.
  Qed.

  Lemma NodeArgs_rel : forall l l' k r r' args, map skel_f l = map skel_f l' ->
    Forall2 Q (pat_args k l) (pat_args k l') ->
    (forall x x', Q (key [] x) (key [] x') -> r x = r' x') ->
    Forall2 (NodeArg s 0 r) l args -> Forall2 (NodeArg s 0 r') l' args.
  Proof.
    induction l as [|a t IH]; intros l' k r r' args Sk F Rel H; destruct l' as [|a' t']; try discriminate.
    - inversion H; subst. constructor.
    - cbn [map] in Sk. injection Sk as Sa St. cbn [pat_args] in F.
      assert (Nb : nbind_f a = nbind_f a') by (rewrite <- (nbind_skel a), Sa, nbind_skel; reflexivity).
      rewrite Nb in F. apply Forall2_app_split in F; [|apply pat_f_len; exact Sa]. destruct F as [Fa Ft].
      inversion H as [|a0 ta l0 l0' Ha Ht]; subst. constructor.
      + eapply (NodeArg_rel a a' [] [] k 0 r r' ta Sa Fa); try assumption; intros y i [].
      + eapply IH; eauto.
  Qed.
End PatRel.

Theorem NodeT_equiv : forall s n n' theta rho t, equiv_by theta n n' ->
  (NodeT s rho n' t <-> NodeT s (fun x => rho (theta x)) n t).
Proof.
  intros s n n' theta rho t (Sk & _ & P). unfold skel in Sk. injection Sk as Ev Sk. unfold pattern in P. split.
  - intros (args & F & ->). exists args. split; [|rewrite Ev; reflexivity].
    apply (NodeArgs_rel s (fun o' o => rename_occ theta o = o')) with (l := nargs n') (k := O) (r := rho).
    + intros i o H. destruct o; cbn in H; [congruence|discriminate].
    + intros i o H. cbn in H. symmetry. exact H.
    + symmetry. exact Sk.
    + rewrite <- P. clear. induction (pat_args 0 (nargs n)) as [|o l IH]; constructor; auto.
    + intros x x' H. cbn in H. injection H as <-. reflexivity.
    + exact F.
  - intros (args & F & ->). exists args. split; [|rewrite Ev; reflexivity].
    apply (NodeArgs_rel s (fun o o' => rename_occ theta o = o')) with (l := nargs n) (k := O) (r := fun x => rho (theta x)).
    + intros i o H. cbn in H. symmetry. exact H.
    + intros i o H. destruct o; cbn in H; [congruence|discriminate].
    + exact Sk.
    + rewrite <- P. clear. induction (pat_args 0 (nargs n)) as [|o l IH]; constructor; auto.
    + intros x x' H. cbn in H. injection H as <-. reflexivity.
    + exact F.
Qed.

(* ====================================================================== *)
(* 2. replacing the children of a node by related invocations              *)
(* ====================================================================== *)

Inductive arg_rel (R : appid -> appid -> Prop) : farg -> farg -> Prop :=
| AR_slot : forall x, arg_rel R (ASlot x) (ASlot x)
| AR_pay : forall p, arg_rel R (APay p) (APay p)
| AR_app : forall x x', R x x' -> arg_rel R (AApp x) (AApp x')
| AR_bind : forall x b b', arg_rel R b b' -> arg_rel R (ABind x b) (ABind x b').

Definition node_rel (R : appid -> appid -> Prop) (n n' : node) : Prop :=
  nvar n = nvar n' /\ Forall2 (arg_rel R) (nargs n) (nargs n').

Lemma set_apps_f_rel : forall R a r0 l, Forall2 R (app_occ_f a ++ r0) l ->
  arg_rel R a (fst (set_apps_f a l)) /\ Forall2 R r0 (snd (set_apps_f a l)).
Proof.
  intros R. induction a as [x|x|x b IH|p]; intros r0 l H; cbn [set_apps_f app_occ_f app] in *.
  - split; [constructor|exact H].
  - inversion H as [|x0 y l0 t Hxy Ht]; subst. cbn [fst snd]. split; [constructor; exact Hxy|exact Ht].
  - specialize (IH r0 l H). destruct (set_apps_f b l) as [b' r]. cbn [fst snd] in *.
    destruct IH as [A C]. split; [constructor; exact A|exact C].
  - split; [constructor|exact H].
Qed.

Lemma set_apps_args_rel : forall R args l, Forall2 R (flat_map app_occ_f args) l ->
  Forall2 (arg_rel R) args (set_apps_args args l).
Proof.
  intros R. induction args as [|a t IH]; intros l H; cbn [set_apps_args flat_map] in *; [constructor|].
  destruct (set_apps_f_rel R a _ l H) as [A C]. destruct (set_apps_f a l) as [a' r]. cbn [fst snd] in *.
  constructor; [exact A|apply IH; exact C].
Qed.

Lemma set_apps_rel : forall R n l, Forall2 R (app_occ n) l -> node_rel R n (set_apps n l).
Proof. intros R n l H. split; [reflexivity|]. unfold set_apps. cbn [nargs]. apply set_apps_args_rel. exact H. Qed.

Lemma node_rel_imp : forall (R R' : appid -> appid -> Prop) n n', (forall x x', R x x' -> R' x x') ->
  node_rel R n n' -> node_rel R' n n'.
Proof.
  intros R R' n n' H [Ev F]. split; [exact Ev|]. revert F. apply Forall2_imp.
  intros a a' Ha. induction Ha; constructor; auto.
Qed.

(* what the congruence step needs from a pair (old child, new child) *)
Definition crel (E : equations) (s : egraph) (x x' : appid) : Prop :=
  sim E s x x' /\ injective (am x) /\ injective (am x') /\ incl (values_vec (am x')) (values_vec (am x)).

Lemma arg_rel_pub_occ : forall E s a a', arg_rel (crel E s) a a' -> incl (pub_occ_f a') (pub_occ_f a).
Proof.
  intros E s a a' H. induction H as [x|p|x x' (_ & _ & _ & I)|x b b' H IH]; cbn [pub_occ_f]; try apply incl_refl.
  - exact I.
  - intros y Hy. apply filter_In in Hy. apply filter_In. split; [apply IH; tauto|tauto].
Qed.

Lemma node_rel_slots : forall E s n n', node_rel (crel E s) n n' -> incl (slots n') (slots n).
Proof.
  intros E s n n' [_ F] y Hy. apply slots_spec in Hy. apply slots_spec. unfold pub_occ in *.
  induction F as [|a a' l l' Ha F IH]; cbn [flat_map] in *; [exact Hy|].
  apply in_app_or in Hy. apply in_or_app. destruct Hy as [Hy|Hy]; [left; eapply arg_rel_pub_occ; eauto|right; auto].
Qed.

Lemma vals_in_vec : forall (m : slotmap) y v, get m y = Some v -> In v (values_vec m).
Proof. intros m y v G. apply get_in in G. unfold values_vec. apply in_map_iff. exists (y, v). split; [reflexivity|exact G]. Qed.

Lemma fr_S_mono : forall d x, fr d x -> fr (S d) x.
Proof. intros d x [H|H]; [left; exact H|right; lia]. Qed.

Lemma ext_ren_rokd : forall d L L' r m, rokdL d L r -> injective m ->
  (forall k v, get m k = Some v -> In v L) -> rokdL d L' (ext_ren r m (bound_of r L)).
Proof.
  intros d L L' r m [Inj Fr] Im Vm. split.
  - intros x y _ _. unfold ext_ren.
    destruct (get m x) as [v|] eqn:Ex; destruct (get m y) as [w|] eqn:Ey; intros H.
    + pose proof (Inj v w (Vm _ _ Ex) (Vm _ _ Ey) H). subst w. eapply Im; eauto.
    + pose proof (bound_of_spec r L v (Vm _ _ Ex)). lia.
    + pose proof (bound_of_spec r L w (Vm _ _ Ey)). lia.
    + lia.
  - intros x _. unfold ext_ren. destruct (get m x) as [v|] eqn:Ex.
    + apply Fr. eapply Vm; eauto.
    + left. unfold is_B. lia.
Qed.

Lemma NodeArg_cong : forall E s, syn_wf s -> forall a a', arg_rel (crel E s) a a' ->
  forall d r L ta, rokdL d L r -> incl (pub_occ_f a) L -> NodeArg s d r a ta ->
  exists ta', NodeArg s d r a' ta' /\ DerivArg E d ta ta'.
Proof.
  intros E s W a a' H. induction H as [x|p|x x' (Sx & Ix & Ix' & Vx)|x b b' H IH]; intros d r L ta RL In1 NA.
  - exists ta. split; [exact NA|]. inversion NA; subst. constructor.
  - exists ta. split; [exact NA|]. inversion NA; subst. constructor.
  - inversion NA as [| | |d0 r0 a0 tau Rk Cm]; subst. cbn [pub_occ_f] in In1.
    set (tau' := ext_ren r (am x') (bound_of r L)).
    assert (Rk' : rokdL d (SS s (aid x')) tau').
    { apply (ext_ren_rokd d L); [exact RL|exact Ix'|]. intros k v G. apply In1, Vx. eapply vals_in_vec; eauto. }
    exists (CChild (syn_at s d tau' (aid x'))). split.
    + apply NA_app; [exact Rk'|]. intros y v G. unfold tau', ext_ren. rewrite G. reflexivity.
    + constructor. apply (sim_lift E s x x' W Sx Ix Ix' d tau tau' Rk Rk').
      intros y y' v G G'. rewrite (Cm _ _ G). unfold tau', ext_ren. rewrite G'. reflexivity.
  - inversion NA as [| |d0 r0 x0 b0 t0 Hb|]; subst. cbn [pub_occ_f] in In1.
    destruct (IH (S d) (upd r x (B d)) (x :: L) t0) as (t0' & NA' & D').
    + destruct RL as [Inj Fr]. split.
      * intros y z Hy Hz. unfold upd. destruct (y =? x) eqn:E1; destruct (z =? x) eqn:E2; intros Eq.
        -- apply N.eqb_eq in E1, E2. congruence.
        -- destruct Hz as [Hz|Hz]; [apply N.eqb_neq in E2; congruence|]. pose proof (Fr _ Hz) as T. unfold fr, is_B, B in *. lia.
        -- destruct Hy as [Hy|Hy]; [apply N.eqb_neq in E1; congruence|]. pose proof (Fr _ Hy) as T. unfold fr, is_B, B in *. lia.
        -- destruct Hy as [Hy|Hy]; [apply N.eqb_neq in E1; congruence|]. destruct Hz as [Hz|Hz]; [apply N.eqb_neq in E2; congruence|]. apply Inj; assumption.
      * intros y Hy. unfold upd. destruct (y =? x) eqn:E1; [right; unfold B; lia|].
        destruct Hy as [Hy|Hy]; [apply N.eqb_neq in E1; congruence|]. apply fr_S_mono. apply Fr. exact Hy.
    + intros y Hy. destruct (y =? x) eqn:E1; [left; apply N.eqb_eq in E1; congruence|]. right. apply In1.
      apply filter_In. split; [exact Hy|]. rewrite E1. reflexivity.
    + exact Hb.
    + exists (CBind t0'). split; constructor; assumption.
Qed.

Lemma NodeT_cong : forall E s n n' rho t, syn_wf s -> node_rel (crel E s) n n' -> rokL (slots n) rho ->
  NodeT s rho n t -> exists t', NodeT s rho n' t' /\ Deriv E 0 t t'.
Proof.
  intros E s n n' rho t W [Ev F] R (args & NA & ->).
  assert (RL : rokdL 0 (slots n) rho) by (apply rokdL_0; exact R).
  assert (In1 : forall a, In a (nargs n) -> incl (pub_occ_f a) (slots n)).
  { intros a Ha y Hy. eapply pub_occ_f_in; eauto. }
  assert (G : exists args', Forall2 (NodeArg s 0 rho) (nargs n') args' /\ DerivArgs E 0 args args').
  { clear Ev. revert args NA. induction F as [|a a' l l' Ha F IH]; intros args NA.
    - inversion NA; subst. exists []. split; constructor.
    - inversion NA as [|a0 ta l0 ltl Hta Htl]; subst.
      destruct (NodeArg_cong E s W a a' Ha 0 rho (slots n) ta RL (In1 a (or_introl eq_refl)) Hta) as (ta' & N1 & D1).
      destruct (IH (fun a0 H0 => In1 a0 (or_intror H0)) ltl Htl) as (tl' & N2 & D2).
      exists (ta' :: tl'). split; constructor; assumption. }
  destruct G as (args' & NA' & DA). exists (CT (nvar n') args'). split.
  - exists args'. split; [exact NA'|reflexivity].
  - rewrite Ev. apply D_cong. exact DA.
Qed.

(* if n' arises from n by replacing children by related ones and n' denotes a, so does n *)
Theorem nsound_cong_back : forall E s a n n', syn_wf s -> node_rel (crel E s) n n' ->
  nsound E s a n' -> nsound E s a n.
Proof.
  intros E s a n n' W NR H sg rho t Rs Rr Ag Jn NT.
  destruct (NodeT_cong E s n n' rho t W NR Rr NT) as (t' & NT' & D).
  pose proof (node_rel_slots E s n n' NR) as Sub.
  apply D_trans with t'; [|apply D_sym; exact D].
  apply (H sg rho t'); try assumption.
  - destruct Rr as [Ir Nr]. split; [intros x y Hx Hy; apply Ir; apply Sub; assumption|intros x Hx; apply Nr; apply Sub; exact Hx].
  - intros x y Hx Hy. apply Jn; [exact Hx|apply Sub; exact Hy].
Qed.

(* the mirror image: from a term of the new node to a term of the old node (the renaming must be
   given on the slots of the old node) *)
Lemma NodeArg_cong_fwd : forall E s, syn_wf s -> forall a a', arg_rel (crel E s) a a' ->
  forall d r L ta', rokdL d L r -> incl (pub_occ_f a) L -> NodeArg s d r a' ta' ->
  exists ta, NodeArg s d r a ta /\ DerivArg E d ta ta'.
Proof.
  intros E s W a a' H. induction H as [x|p|x x' (Sx & Ix & Ix' & Vx)|x b b' H IH]; intros d r L ta' RL In1 NA.
  - exists ta'. split; [exact NA|]. inversion NA; subst. constructor.
  - exists ta'. split; [exact NA|]. inversion NA; subst. constructor.
  - inversion NA as [| | |d0 r0 a0 tau' Rk' Cm']; subst. cbn [pub_occ_f] in In1.
    set (tau := ext_ren r (am x) (bound_of r L)).
    assert (Rk : rokdL d (SS s (aid x)) tau).
    { apply (ext_ren_rokd d L); [exact RL|exact Ix|]. intros k v G. apply In1. eapply vals_in_vec; eauto. }
    exists (CChild (syn_at s d tau (aid x))). split.
    + apply NA_app; [exact Rk|]. intros y v G. unfold tau, ext_ren. rewrite G. reflexivity.
    + constructor. apply (sim_lift E s x x' W Sx Ix Ix' d tau tau' Rk Rk').
      intros y y' v G G'. rewrite (Cm' _ _ G'). unfold tau, ext_ren. rewrite G. reflexivity.
  - inversion NA as [| |d0 r0 x0 b0 t0 Hb|]; subst. cbn [pub_occ_f] in In1.
    destruct (IH (S d) (upd r x (B d)) (x :: L) t0) as (t0' & NA' & D').
    + destruct RL as [Inj Fr]. split.
      * intros y z Hy Hz. unfold upd. destruct (y =? x) eqn:E1; destruct (z =? x) eqn:E2; intros Eq.
        -- apply N.eqb_eq in E1, E2. congruence.
        -- destruct Hz as [Hz|Hz]; [apply N.eqb_neq in E2; congruence|]. pose proof (Fr _ Hz) as T. unfold fr, is_B, B in *. lia.
        -- destruct Hy as [Hy|Hy]; [apply N.eqb_neq in E1; congruence|]. pose proof (Fr _ Hy) as T. unfold fr, is_B, B in *. lia.
        -- destruct Hy as [Hy|Hy]; [apply N.eqb_neq in E1; congruence|]. destruct Hz as [Hz|Hz]; [apply N.eqb_neq in E2; congruence|]. apply Inj; assumption.
      * intros y Hy. unfold upd. destruct (y =? x) eqn:E1; [right; unfold B; lia|].
        destruct Hy as [Hy|Hy]; [apply N.eqb_neq in E1; congruence|]. apply fr_S_mono. apply Fr. exact Hy.
    + intros y Hy. destruct (y =? x) eqn:E1; [left; apply N.eqb_eq in E1; congruence|]. right. apply In1.
      apply filter_In. split; [exact Hy|]. rewrite E1. reflexivity.
    + exact Hb.
    + exists (CBind t0'). split; constructor; assumption.
Qed.

Lemma NodeT_cong_fwd : forall E s n n' rho t', syn_wf s -> node_rel (crel E s) n n' -> rokL (slots n) rho ->
  NodeT s rho n' t' -> exists t, NodeT s rho n t /\ Deriv E 0 t t'.
Proof.
  intros E s n n' rho t' W [Ev F] R (args' & NA & ->).
  assert (RL : rokdL 0 (slots n) rho) by (apply rokdL_0; exact R).
  assert (In1 : forall a, In a (nargs n) -> incl (pub_occ_f a) (slots n)).
  { intros a Ha y Hy. eapply pub_occ_f_in; eauto. }
  assert (G : exists args, Forall2 (NodeArg s 0 rho) (nargs n) args /\ DerivArgs E 0 args args').
  { clear Ev. revert args' NA. induction F as [|a a' l l' Ha F IH]; intros args' NA.
    - inversion NA; subst. exists []. split; constructor.
    - inversion NA as [|a0 ta l0 ltl Hta Htl]; subst.
      destruct (NodeArg_cong_fwd E s W a a' Ha 0 rho (slots n) ta RL (In1 a (or_introl eq_refl)) Hta) as (ta0 & N1 & D1).
      destruct (IH (fun a0 H0 => In1 a0 (or_intror H0)) ltl Htl) as (tl0 & N2 & D2).
      exists (ta0 :: tl0). split; constructor; assumption. }
  destruct G as (args & NA' & DA). exists (CT (nvar n) args). split.
  - exists args. split; [exact NA'|reflexivity].
  - rewrite <- Ev. apply D_cong. exact DA.
Qed.

(* if n denotes a and n' arises from n by replacing children by related ones, then n' denotes the
   invocation a' that keeps the pairs of a whose value is still a slot of n' *)
Theorem nsound_cong_fwd : forall E s a a' n n', syn_wf s -> node_rel (crel E s) n n' ->
  injective (am a) -> (forall x, get (am a) x <> None -> In x (SS s (aid a))) ->
  aid a' = aid a -> (forall x v, get (am a') x = Some v <-> (get (am a) x = Some v /\ In v (slots n'))) ->
  nsound E s a n -> nsound E s a' n'.
Proof.
  intros E s a a' n n' W NR Ia Ka Ea Ha H sg rho' t' Rs Rr' Ag Jn NT'. rewrite Ea in *.
  pose proof (node_rel_slots E s n n' NR) as Sub.
  set (KB := bound_of rho' (slots n') + bound_of sg (SS s (aid a))).
  set (pick := fun v => find (fun x => match get (am a) x with Some w => w =? v | None => false end) (SS s (aid a))).
  set (rho := fun v => if memb v (slots n') then rho' v else match pick v with Some x => sg x | None => 4 * (v + KB) end).
  assert (P1 : forall x v, get (am a) x = Some v -> pick v = Some x).
  { intros x v G. unfold pick.
    destruct (find (fun x0 => match get (am a) x0 with Some w => w =? v | None => false end) (SS s (aid a))) as [x'|] eqn:Ef.
    - apply find_some in Ef. destruct Ef as [_ T]. destruct (get (am a) x') as [w|] eqn:G'; [|discriminate].
      apply N.eqb_eq in T. subst w. f_equal. eapply Ia; eauto.
    - assert (Hx : In x (SS s (aid a))) by (apply Ka; congruence).
      pose proof (find_none _ _ Ef x Hx) as T. cbv beta in T. rewrite G, N.eqb_refl in T. discriminate. }
  assert (P2 : forall v x, pick v = Some x -> In x (SS s (aid a)) /\ get (am a) x = Some v).
  { intros v x Ef. unfold pick in Ef. apply find_some in Ef. destruct Ef as [Hx T].
    destruct (get (am a) x) as [w|] eqn:G'; [|discriminate]. apply N.eqb_eq in T. subst w. auto. }
  assert (B1 : forall y, In y (slots n') -> rho' y < 4 * KB).
  { intros y Hy. pose proof (bound_of_spec rho' (slots n') y Hy). unfold KB. lia. }
  assert (B2 : forall x, In x (SS s (aid a)) -> sg x < 4 * KB).
  { intros x Hx. pose proof (bound_of_spec sg (SS s (aid a)) x Hx). unfold KB. lia. }
  assert (E1 : forall y, In y (slots n') -> rho y = rho' y).
  { intros y Hy. unfold rho. rewrite (proj2 (memb_in _ _) Hy). reflexivity. }
  destruct Rs as [Is Ns]. destruct Rr' as [Ir Nr].
  (* the three shapes of a value of rho *)
  assert (CS : forall y, (In y (slots n') /\ rho y = rho' y) \/
                         (~ In y (slots n') /\ exists x, In x (SS s (aid a)) /\ get (am a) x = Some y /\ rho y = sg x) \/
                         (~ In y (slots n') /\ pick y = None /\ rho y = 4 * (y + KB))).
  { intros y. unfold rho. destruct (memb y (slots n')) eqn:M.
    - left. apply memb_in in M. auto.
    - assert (~ In y (slots n')) by (intros T; apply memb_in in T; congruence).
      destruct (pick y) as [x|] eqn:Ep; [right; left|right; right; auto].
      destruct (P2 _ _ Ep) as [A1 A2]. split; [assumption|]. exists x. auto. }
  assert (Rr : rokL (slots n) rho).
  { split.
    - intros y z _ _ Eq.
      destruct (CS y) as [(Hy & Ey)|[(Hy & x & Hx & Gx & Ey)|(Hy & Py & Ey)]];
      destruct (CS z) as [(Hz & Ez)|[(Hz & x' & Hx' & Gx' & Ez)|(Hz & Pz & Ez)]]; rewrite Ey, Ez in Eq.
      + apply Ir; assumption.
      + symmetry in Eq. apply (Jn x' y Hx' Hy) in Eq. apply Ha in Eq. destruct Eq as [Eq _]. congruence.
      + pose proof (B1 y Hy). lia.
      + apply (Jn x z Hx Hz) in Eq. apply Ha in Eq. destruct Eq as [Eq _]. congruence.
      + apply Is in Eq; [|assumption|assumption]. subst x'. congruence.
      + pose proof (B2 x Hx). lia.
      + pose proof (B1 z Hz). lia.
      + pose proof (B2 x' Hx'). lia.
      + lia.
    - intros y _. destruct (CS y) as [(Hy & Ey)|[(Hy & x & Hx & Gx & Ey)|(Hy & Py & Ey)]]; rewrite Ey.
      + apply Nr. exact Hy.
      + apply Ns. exact Hx.
      + unfold is_B. lia. }
  assert (NT0 : NodeT s rho n' t').
  { eapply NodeT_rho_ext; [|exact NT']. intros y Hy. symmetry. apply E1. exact Hy. }
  destruct (NodeT_cong_fwd E s n n' rho t' W NR Rr NT0) as (t & NT & D).
  apply D_trans with t; [|exact D].
  apply (H sg rho t); try assumption.
  - split; assumption.
  - intros x v G. unfold rho. destruct (memb v (slots n')) eqn:M.
    + apply memb_in in M. apply Ag. apply Ha. auto.
    + rewrite (P1 _ _ G). reflexivity.
  - intros x y Hx Hy Eq.
    destruct (CS y) as [(Hy' & Ey)|[(Hy' & x' & Hx' & Gx' & Ey)|(Hy' & Py & Ey)]]; rewrite Ey in Eq.
    + apply (Jn x y Hx Hy') in Eq. apply Ha in Eq. tauto.
    + apply Is in Eq; [|assumption|assumption]. subst x'. exact Gx'.
    + pose proof (B2 x Hx). lia.
Qed.

(* transport along a ~~ b: a node that denotes a also denotes b (both maps into the name space of n) *)
Theorem nsound_sim : forall E s a b n, sim E s a b -> injective (am a) -> injective (am b) ->
  (forall y, get (am b) y <> None -> In y (SS s (aid b))) ->
  nsound E s a n -> nsound E s b n.
Proof.
  intros E s a b n SIM Ia Ib Kb H sgb rho t Rsb Rr Ag Jn NT.
  destruct Rsb as [Isb Nsb]. destruct Rr as [Ir Nr].
  set (KB := bound_of rho (slots n) + bound_of sgb (SS s (aid b))).
  set (pick := fun v => find (fun y => match get (am b) y with Some w => w =? v | None => false end) (SS s (aid b))).
  set (rho2 := fun v => if memb v (slots n) then rho v else match pick v with Some y => sgb y | None => 4 * (v + KB) + 1 end).
  set (sga := fun x => match get (am a) x with Some v => rho2 v | None => 4 * (x + KB) + 2 end).
  assert (P1 : forall y v, get (am b) y = Some v -> pick v = Some y).
  { intros y v G. unfold pick.
    destruct (find (fun y0 => match get (am b) y0 with Some w => w =? v | None => false end) (SS s (aid b))) as [y'|] eqn:Ef.
    - apply find_some in Ef. destruct Ef as [_ T]. destruct (get (am b) y') as [w|] eqn:G'; [|discriminate].
      apply N.eqb_eq in T. subst w. f_equal. eapply Ib; eauto.
    - assert (Hy : In y (SS s (aid b))) by (apply Kb; congruence).
      pose proof (find_none _ _ Ef y Hy) as T. cbv beta in T. rewrite G, N.eqb_refl in T. discriminate. }
  assert (P2 : forall v y, pick v = Some y -> In y (SS s (aid b)) /\ get (am b) y = Some v).
  { intros v y Ef. unfold pick in Ef. apply find_some in Ef. destruct Ef as [Hy T].
    destruct (get (am b) y) as [w|] eqn:G'; [|discriminate]. apply N.eqb_eq in T. subst w. auto. }
  assert (B1 : forall z, In z (slots n) -> rho z < 4 * KB).
  { intros z Hz. pose proof (bound_of_spec rho (slots n) z Hz). unfold KB. lia. }
  assert (B2 : forall y, In y (SS s (aid b)) -> sgb y < 4 * KB).
  { intros y Hy. pose proof (bound_of_spec sgb (SS s (aid b)) y Hy). unfold KB. lia. }
  assert (CS : forall v, (In v (slots n) /\ rho2 v = rho v) \/
                         (~ In v (slots n) /\ exists y, In y (SS s (aid b)) /\ get (am b) y = Some v /\ rho2 v = sgb y) \/
                         (~ In v (slots n) /\ rho2 v = 4 * (v + KB) + 1)).
  { intros v. unfold rho2. destruct (memb v (slots n)) eqn:M.
    - left. apply memb_in in M. auto.
    - assert (~ In v (slots n)) by (intros T; apply memb_in in T; congruence).
      destruct (pick v) as [y|] eqn:Ep; [right; left|right; right; auto].
      destruct (P2 _ _ Ep) as [A1 A2]. split; [assumption|]. exists y. auto. }
  assert (I2 : forall v w, rho2 v = rho2 w -> v = w).
  { intros v w Eq.
    destruct (CS v) as [(Hv & Ev)|[(Hv & y & Hy & Gy & Ev)|(Hv & Ev)]];
    destruct (CS w) as [(Hw & Ew)|[(Hw & y' & Hy' & Gy' & Ew)|(Hw & Ew)]]; rewrite Ev, Ew in Eq.
    - apply Ir; assumption.
    - symmetry in Eq. apply (Jn y' v Hy' Hv) in Eq. congruence.
    - pose proof (B1 v Hv). lia.
    - apply (Jn y w Hy Hw) in Eq. congruence.
    - apply Isb in Eq; [|assumption|assumption]. subst y'. congruence.
    - pose proof (B2 y Hy). lia.
    - pose proof (B1 w Hw). lia.
    - pose proof (B2 y' Hy'). lia.
    - lia. }
  assert (N2 : forall v, is_B (rho2 v) = false).
  { intros v. destruct (CS v) as [(Hv & Ev)|[(Hv & y & Hy & Gy & Ev)|(Hv & Ev)]]; rewrite Ev.
    - apply Nr. exact Hv.
    - apply Nsb. exact Hy.
    - unfold is_B. lia. }
  assert (M2 : forall v, rho2 v < 4 * KB \/ rho2 v mod 4 = 1).
  { intros v. destruct (CS v) as [(Hv & Ev)|[(Hv & y & Hy & Gy & Ev)|(Hv & Ev)]]; rewrite Ev.
    - left. apply B1. exact Hv.
    - left. apply B2. exact Hy.
    - right. lia. }
  assert (Rsa : rok s (aid a) sga).
  { split.
    - intros x x' _ _. unfold sga. destruct (get (am a) x) as [v|] eqn:Gx; destruct (get (am a) x') as [v'|] eqn:Gx'; intros Eq.
      + apply I2 in Eq. subst v'. eapply Ia; eauto.
      + destruct (M2 v); lia.
      + destruct (M2 v'); lia.
      + lia.
    - intros x _. unfold sga. destruct (get (am a) x) as [v|]; [apply N2|unfold is_B; lia]. }
  assert (Rsb : rok s (aid b) sgb) by (split; assumption).
  assert (NT2 : NodeT s rho2 n t).
  { eapply NodeT_rho_ext; [|exact NT]. intros z Hz. unfold rho2. rewrite (proj2 (memb_in _ _) Hz). reflexivity. }
  apply D_trans with (clsT s sga (aid a)).
  - apply D_sym. apply (SIM sga sgb Rsa Rsb). intros x y v Gx Gy. unfold sga. rewrite Gx.
    destruct (CS v) as [(Hv & Ev)|[(Hv & y' & Hy' & Gy' & Ev)|(Hv & Ev)]]; rewrite Ev.
    + symmetry. apply Ag. exact Gy.
    + f_equal. eapply Ib; eauto.
    + exfalso. pose proof (P1 _ _ Gy) as T. unfold rho2 in Ev.
      destruct (memb v (slots n)) eqn:M; [apply memb_in in M; tauto|]. rewrite T in Ev.
      assert (In y (SS s (aid b))) by (apply Kb; congruence). pose proof (B2 y H0). lia.
  - apply (H sga rho2 t); try assumption.
    + split; [intros z z' _ _; apply I2|intros z _; apply N2].
    + intros x v G. unfold sga. rewrite G. reflexivity.
    + intros x z Hx Hz Eq. unfold sga in Eq. destruct (get (am a) x) as [v|] eqn:Gx.
      * apply I2 in Eq. subst v. reflexivity.
      * destruct (M2 z); lia.
Qed.

(* ====================================================================== *)
(* 3. the children replaced by find_enode and by the group variants        *)
(* ====================================================================== *)

Lemma compose_vals_incl : forall l e, wf l -> incl (values_vec (l ** e)) (values_vec e).
Proof.
  intros l e Wl v Hv. unfold values_vec in Hv. apply in_map_iff in Hv. destruct Hv as ([k v'] & Ev & Hin).
  cbn [snd] in Ev. subst v'. apply in_get in Hin; [|apply compose_partial_wf].
  rewrite get_compose_partial in Hin by assumption. destruct (get l k) as [y|]; [|discriminate].
  eapply vals_in_vec; eauto.
Qed.

Lemma find_crel : forall E s x x', eg_inv s -> Sound E s -> covers s x -> find_applied_id s x = Ok x' ->
  crel E s x x' /\ canon_ok s x'.
Proof.
  intros E s x x' I S C F. pose proof I as [Hok Hs Hcl].
  destruct (covers_find_ok s x Hok Hs C) as (x2 & F2 & CO). rewrite F in F2. inversion F2; subst x2; clear F2.
  split; [|exact CO]. split; [exact (find_sim E s x x' S I C F)|].
  destruct C as (c & Hc & Ix & _). split; [exact Ix|].
  destruct CO as (c' & Hc' & _ & W' & B' & _). split; [apply is_bijection_injective; assumption|].
  unfold find_applied_id, unionfind_get in F. destruct (uf_get_go _ _ _) as [p|] eqn:Hp; [|discriminate]. cbn [bind] in F.
  inversion F; subst x'. cbn [am].
  destruct (uf_get_go_canon s Hok Hs _ _ _ _ Hp Hc) as (cl & _ & Wl & _). apply compose_vals_incl. exact Wl.
Qed.

Lemma variant_crel : forall E s x c pp l, Sound E s -> canon_ok s x -> get_class s (aid x) = Ok c ->
  gall_perms false (c_group c) = Ok l -> In pp l ->
  crel E s x {| aid := aid x; am := pp ** am x |}.
Proof.
  intros E s x c pp l S (c' & Hc' & (gens & HG & Hgn) & W & Bj & K) Hc Hl Hpp.
  rewrite Hc in Hc'. inversion Hc'; subst c'; clear Hc'.
  pose proof (identity_is_id (c_slots c)) as Iid.
  pose proof (gall_perms_sound _ _ _ Iid HG _ _ Hgn Hl _ Hpp) as Gp.
  pose proof (generated_po _ _ Iid _ HG _ Gp) as P.
  pose proof (gcontains_complete _ _ _ Iid HG _ _ Hgn Gp) as Gc.
  pose proof (proj1 (is_bijection_injective _ W) Bj) as Ix.
  pose proof P as (Wp & Kp & Vp & Ip & Sp).
  split; [|split; [exact Ix|split; [apply compose_injective; assumption|apply compose_vals_incl; exact Wp]]].
  intros sg tau Rs Rt C. cbn [aid am] in *.
  apply (snd_grp E s S (aid x) c pp Hc P Gc sg tau Rs Rt). cbn [aid am cidapp].
  intros y y' v Hy Hy'. apply identity_get in Hy. destruct Hy as [-> Hv].
  assert (Hk : get (am x) v <> None) by (apply keys_spec; rewrite K; exact Hv).
  destruct (get (am x) v) as [w|] eqn:Gw; [|congruence].
  apply (C v y' w Gw). rewrite get_compose_partial by assumption. rewrite Hy'. exact Gw.
Qed.

Lemma crel_ext0 : forall E s s' x x' c c', ext0 s s' -> get_class s (aid x) = Ok c -> get_class s (aid x') = Ok c' ->
  crel E s x x' -> crel E s' x x'.
Proof.
  intros E s s' x x' c c' X Hc Hc' (S & A). split; [|exact A]. eapply sim_ext0; eauto.
Qed.

Lemma crel_trans_rel : forall E s n n1 n2, node_rel (crel E s) n n1 -> node_rel (crel E s) n1 n2 ->
  forall a, syn_wf s -> nsound E s a n2 -> nsound E s a n.
Proof. intros E s n n1 n2 R1 R2 a W H. eapply nsound_cong_back; [exact W|exact R1|]. eapply nsound_cong_back; eauto. Qed.

Lemma Forall2_zip : forall {A C} (R : A -> A -> Prop) (f : A -> C -> A) (P : A -> list C -> Prop) apps groups,
  Forall2 P apps groups -> (forall a g pp, P a g -> In pp g -> R a (f a pp)) ->
  forall l, In l (cartesian groups) -> Forall2 R apps (zip_with f apps l).
Proof.
  intros A C R f P apps groups H HR. induction H as [|a g t gs Hag _ IH]; intros l Hl; cbn [cartesian] in Hl.
  - destruct Hl as [<-|[]]. constructor.
  - apply in_flat_map in Hl. destruct Hl as (rest & Hr & Hl). apply in_map_iff in Hl. destruct Hl as (x & <- & Hx).
    cbn [zip_with]. constructor; [eapply HR; eauto|apply IH; assumption].
Qed.

Lemma Forall2_refl_on : forall {A} (R : A -> A -> Prop) l, (forall x, In x l -> R x x) -> Forall2 R l l.
Proof. intros A R. induction l as [|x t IH]; intros H; constructor; [apply H; left; reflexivity|apply IH; intros y Hy; apply H; right; exact Hy]. Qed.

(* find_enode *)
Lemma find_enode_rel : forall E s n n1, eg_inv s -> Sound E s -> Forall (covers s) (app_occ n) ->
  find_enode s n = Ok n1 ->
  node_rel (fun x x' => crel E s x x' /\ covers s x /\ canon_ok s x') n n1 /\ Forall (canon_ok s) (app_occ n1).
Proof.
  intros E s n n1 I S Cv H. unfold find_enode in H.
  destruct (mapr (find_applied_id s) (app_occ n)) as [l|] eqn:El; cbn [bind] in H; [|discriminate].
  inversion H; subst n1; clear H. pose proof (mapr_ok _ _ _ El) as F.
  assert (F' : Forall2 (fun x x' => crel E s x x' /\ covers s x /\ canon_ok s x') (app_occ n) l).
  { clear El. induction F as [|x x' t t' Hx F IH]; [constructor|]. inversion Cv as [|x0 t0 Cx Ct]; subst.
    constructor; [|apply IH; assumption]. destruct (find_crel E s x x' I S Cx Hx) as [A1 A2]. auto. }
  split; [apply set_apps_rel; exact F'|].
  rewrite app_occ_set_apps by (eapply mapr_length; eauto).
  clear -F'. induction F' as [|x x' t t' (_ & _ & Hx) F IH]; constructor; assumption.
Qed.

Lemma canon_sim_refl : forall E s x, eg_inv s -> Sound E s -> canon_ok s x -> crel E s x x.
Proof.
  intros E s x I S (c & Hc & _ & W & Bj & K).
  split; [|split; [apply is_bijection_injective; assumption|split; [apply is_bijection_injective; assumption|apply incl_refl]]].
  intros sg tau Rs Rt C.
  apply (Sound_redundant E s (aid x) c S (ei_cls s I) Hc sg tau Rs Rt). cbn [aid am cidapp].
  intros y y' v Hy Hy'. apply identity_get in Hy. destruct Hy as [-> Hv]. apply identity_get in Hy'. destruct Hy' as [-> _].
  assert (Hk : get (am x) v <> None) by (apply keys_spec; rewrite K; exact Hv).
  destruct (get (am x) v) as [w|] eqn:Gw; [|congruence]. exact (C v v w Gw Gw).
Qed.

(* the group variants of a node whose children are canonical *)
Lemma variants_rel : forall E s n vs v, eg_inv s -> Sound E s -> Forall (canon_ok s) (app_occ n) ->
  variants s n = Ok vs -> In v vs -> node_rel (fun x x' => crel E s x x' /\ canon_ok s x /\ aid x' = aid x) n v.
Proof.
  intros E s n vs v I S Cn H Hv. unfold variants in H.
  destruct (mapr (fun a => get_class s (aid a)) (app_occ n)) as [cls|] eqn:Ec; cbn [bind] in H; [|discriminate].
  destruct (forallb _ cls).
  - inversion H; subst vs. destruct Hv as [<-|[]]. rewrite <- (set_apps_self n) at 2. apply set_apps_rel.
    apply Forall2_refl_on. intros x Hx. pose proof (proj1 (Forall_forall _ _) Cn x Hx) as Cx.
    split; [apply canon_sim_refl; assumption|split; [exact Cx|reflexivity]].
  - destruct (mapr _ cls) as [groups|] eqn:Eg; cbn [bind] in H; [|discriminate]. inversion H; subst vs; clear H.
    apply in_map_iff in Hv. destruct Hv as (l & <- & Hl). apply set_apps_rel.
    pose proof (mapr_mapr_F2 (canon_ok s) _ _ _ _ _ (proj1 (Forall_forall _ _) Cn) Ec Eg) as F2.
    apply (Forall2_zip (fun x x' => crel E s x x' /\ canon_ok s x /\ aid x' = aid x) (fun a pp => {| aid := aid a; am := pp ** am a |})
             (fun a g => canon_ok s a /\ exists c, get_class s (aid a) = Ok c /\ gall_perms false (c_group c) = Ok g)
             (app_occ n) groups F2); [|exact Hl].
    intros a g pp (Ca & c & Hc & Hg) Hpp. split; [eapply variant_crel; eauto|split; [exact Ca|reflexivity]].
Qed.

(* pre_shape = find_enode, then a variant; computed in s0, used in a later state s *)
Theorem pre_shape_back : forall E s0 s a n p, eg_inv s0 -> Sound E s0 -> ext0 s0 s -> syn_wf s ->
  Forall (covers s0) (app_occ n) -> pre_shape s0 n = Ok p -> nsound E s a p -> nsound E s a n.
Proof.
  intros E s0 s a n p I S X W Cv P H. unfold pre_shape in P.
  destruct (find_enode s0 n) as [n1|] eqn:F1; cbn [bind] in P; [|discriminate].
  destruct (variants s0 n1) as [vs|] eqn:Ev; cbn [bind] in P; [|discriminate].
  apply min_variant_in in P. destruct P as [P|[k P]]; [|discriminate].
  destruct (find_enode_rel E s0 n n1 I S Cv F1) as [R1 C1].
  pose proof (variants_rel E s0 n1 vs p I S C1 Ev P) as R2.
  eapply crel_trans_rel; [| |exact W|exact H].
  - eapply node_rel_imp; [|exact R1]. intros x x' (A & (c & Hc & _) & (c' & Hc' & _)). eapply crel_ext0; eauto.
  - eapply node_rel_imp; [|exact R2]. intros x x' (A & (c & Hc & _) & Ea). eapply crel_ext0; eauto. rewrite Ea. exact Hc.
Qed.

Corollary pre_shape_back0 : forall E s a n p, eg_inv s -> syn_wf s -> Sound E s -> Forall (covers s) (app_occ n) ->
  pre_shape s n = Ok p -> nsound E s a p -> nsound E s a n.
Proof. intros E s a n p I W S Cv P H. exact (pre_shape_back E s s a n p I S (ext0_refl s) W Cv P H). Qed.

(* ====================================================================== *)
(* 4. the lookup hit                                                       *)
(* ====================================================================== *)

(* structural facts about the stored entries (true in every reachable state; not part of inv3):
   the key is a weak shape, the bijection is total on its public slots, applying it succeeds, and
   its values are not numeric slots (the binders of a shape are numeric: no capture) *)
Definition stored_ok (s : egraph) : Prop :=
  forall i c sh bij src, get_class s i = Ok c -> In (sh, (bij, src)) (c_nodes c) ->
    (exists bs, wshape sh = Ok (sh, bs)) /\
    (forall k, In k (pub_occ sh) -> get bij k <> None) /\
    (exists n, apply_slotmap false bij sh = Ok n) /\
    (forall k v, get bij k = Some v -> v mod 4 <> 0).

Lemma stored_ok_empty : stored_ok empty_egraph.
Proof. intros i c sh bij src H. unfold get_class in H. cbn in H. destruct (N.to_nat i); discriminate. Qed.

(* a shape and the node obtained by applying a (total, injective, capture-free) bijection to it *)
Lemma shape_apply_equiv : forall sh bs bij n, wshape sh = Ok (sh, bs) -> wf bij -> injective bij ->
  (forall k, In k (pub_occ sh) -> get bij k <> None) -> (forall k v, get bij k = Some v -> v mod 4 <> 0) ->
  apply_slotmap false bij sh = Ok n -> equiv_by (asm_g bij true) sh n.
Proof.
  intros sh bs bij n Hw W Inj Tot M Ha. apply apply_slotmap_ren in Ha. subst n.
  assert (C1 : inj_on (asm_g bij false) (binders sh)) by (intros x y _ _ E; exact E).
  assert (C2 : forall x b, In x (pub_occ sh) -> In b (binders sh) -> asm_g bij true x <> asm_g bij false b).
  { intros x b Hx Hb. unfold asm_g. destruct (get bij x) as [y|] eqn:G; [|apply Tot in Hx; congruence].
    apply M in G. apply binders_all_occ in Hb. apply (shape_all_occ_mod4 _ _ _ Hw) in Hb. congruence. }
  assert (C3 : inj_on (asm_g bij true) (pub_occ sh)).
  { intros x y Hx Hy. unfold asm_g. apply Tot in Hx, Hy.
    destruct (get bij x) as [u|] eqn:Gx; [|congruence]. destruct (get bij y) as [v|] eqn:Gy; [|congruence].
    intros ->. eapply Inj; eauto. }
  split; [symmetry; apply ren_skel|]. split; [exact C3|]. symmetry. apply ren_spec; assumption.
Qed.

(* a node and its weak shape *)
Lemma shape_equiv_by : forall p sh bij, wshape p = Ok (sh, bij) ->
  exists theta, equiv_by theta sh p /\ forall k, In k (pub_occ sh) -> get bij k = Some (theta k).
Proof.
  intros p sh bij H. destruct (shape_sound _ _ _ H) as (Sk & theta & Inj & P). exists theta. split; [split; [exact Sk|split; assumption]|].
  destruct (shape_bij _ _ _ H) as (_ & _ & B3). rewrite (equiv_pub _ _ _ P) in B3. rewrite map_map in B3.
  intros k Hk. clear -B3 Hk. induction (pub_occ sh) as [|x t IH]; [destruct Hk|]. cbn [map] in B3. injection B3 as B0 B3.
  destruct Hk as [->|Hk]; [exact B0|apply IH; assumption].
Qed.

Theorem nsound_lookup_hit : forall E s p sh n_bij a, inv3 s -> stored_ok s -> Sound E s ->
  wshape p = Ok (sh, n_bij) -> lookup_internal s (sh, n_bij) = Ok (Some a) -> nsound E s a p.
Proof.
  intros E s p sh n_bij a [[I _] NO] SO S Hw H. unfold lookup_internal in H.
  destruct (na_get (hashcons s) sh) as [i|]; [|discriminate].
  destruct (get_class s i) as [c|] eqn:Hc; cbn [bind] in H; [|discriminate].
  destruct (na_get (c_nodes c) sh) as [[cn_bij src]|] eqn:G; [|discriminate]. inversion H; subst a; clear H.
  apply na_get_in in G. destruct (NO _ _ _ Hc G) as (W & Inj & K & V). cbn [fst snd] in *.
  destruct (SO _ _ _ _ _ Hc G) as ((bs & Hws) & Tot & (n_st & Hn) & M4).
  pose proof (shape_apply_equiv sh bs cn_bij n_st Hws W Inj Tot M4 Hn) as Q1.
  destruct (shape_equiv_by p sh n_bij Hw) as (th & Q2 & Hth).
  pose proof (proj2 (is_bijection_injective cn_bij W) Inj) as Bc.
  destruct (shape_bij_props _ _ _ Hw) as (Wn & Bn & _).
  intros sg rho t Rs Rr Ag _ NT. cbn [aid am] in *.
  (* the renaming of the stored node *)
  set (rho_st := fun v => match get (inv cn_bij) v with Some k => rho (th k) | None => 0 end).
  set (KB := bound_of rho (slots p)).
  set (sg' := fun z => if memb z (slots n_st) then rho_st z else 4 * (z + KB)).
  assert (Pst : forall v, In v (slots n_st) <-> exists k, In k (pub_occ sh) /\ get cn_bij k = Some v).
  { intros v. rewrite slots_spec. destruct Q1 as (_ & _ & P1). rewrite (equiv_pub _ _ _ P1). rewrite in_map_iff. split.
    - intros (k & <- & Hk). exists k. split; [exact Hk|]. unfold asm_g. pose proof (Tot k Hk) as T. destruct (get cn_bij k); congruence.
    - intros (k & Hk & Gk). exists k. split; [|exact Hk]. unfold asm_g. rewrite Gk. reflexivity. }
  assert (Pp : forall k, In k (pub_occ sh) -> In (th k) (slots p)).
  { intros k Hk. apply slots_spec. destruct Q2 as (_ & _ & P2). rewrite (equiv_pub _ _ _ P2). apply in_map. exact Hk. }
  assert (Rst : forall k v, In k (pub_occ sh) -> get cn_bij k = Some v -> rho_st v = rho (th k)).
  { intros k v Hk Gk. unfold rho_st. rewrite (proj2 (get_inverse cn_bij v k W Bc) Gk). reflexivity. }
  assert (R' : rokL (SS s i ++ slots n_st) sg').
  { destruct Rr as [Ir Nr]. split.
    - intros x y _ _. unfold sg'. destruct (memb x (slots n_st)) eqn:Mx; destruct (memb y (slots n_st)) eqn:My; intros Eq.
      + apply memb_in in Mx, My. apply Pst in Mx, My. destruct Mx as (k & Hk & Gk). destruct My as (k' & Hk' & Gk').
        rewrite (Rst _ _ Hk Gk), (Rst _ _ Hk' Gk') in Eq. apply Ir in Eq; [|apply Pp; assumption|apply Pp; assumption].
        destruct Q2 as (_ & I2 & _). apply I2 in Eq; [|assumption|assumption]. subst k'. congruence.
      + apply memb_in in Mx. apply Pst in Mx. destruct Mx as (k & Hk & Gk). rewrite (Rst _ _ Hk Gk) in Eq.
        pose proof (bound_of_spec rho (slots p) (th k) (Pp k Hk)). fold KB in H. lia.
      + apply memb_in in My. apply Pst in My. destruct My as (k & Hk & Gk). rewrite (Rst _ _ Hk Gk) in Eq.
        pose proof (bound_of_spec rho (slots p) (th k) (Pp k Hk)). fold KB in H. lia.
      + lia.
    - intros x _. unfold sg'. destruct (memb x (slots n_st)) eqn:Mx; [|unfold is_B; lia].
      apply memb_in in Mx. apply Pst in Mx. destruct Mx as (k & Hk & Gk). rewrite (Rst _ _ Hk Gk). apply Nr. apply Pp. exact Hk. }
  assert (NT' : NodeT s sg' n_st t).
  { apply (proj2 (NodeT_equiv s sh n_st (asm_g cn_bij true) sg' t Q1)).
    apply (NodeT_rho_ext s sh (fun x => rho (th x))); [|apply (proj1 (NodeT_equiv s sh p th rho t Q2)); exact NT].
    intros k Hk. apply slots_spec in Hk. pose proof (Tot k Hk) as T. unfold asm_g.
    destruct (get cn_bij k) as [v|] eqn:Gk; [|congruence].
    unfold sg'. rewrite (proj2 (memb_in _ _) (proj2 (Pst v) (ex_intro _ k (conj Hk Gk)))). symmetry. apply (Rst _ _ Hk Gk). }
  pose proof (snd_node E s S i c sh cn_bij src n_st sg' t Hc G Hn R' NT') as D1.
  apply D_trans with (clsT s sg' i); [|exact D1].
  assert (Rs' : rok s i sg').
  { destruct R' as [I' N']. split; [intros x y Hx Hy; apply I'; apply in_or_app; left; assumption|intros x Hx; apply N'; apply in_or_app; left; exact Hx]. }
  apply (Sound_redundant E s i c S (ei_cls s I) Hc sg sg' Rs Rs'). cbn [aid am cidapp].
  intros x y v Hx Hy. apply identity_get in Hx. destruct Hx as [-> Hv]. apply identity_get in Hy. destruct Hy as [-> _].
  destruct (V v Hv) as (k & Gk).
  assert (Hk : In k (pub_occ sh)) by (apply K; congruence).
  unfold sg'. rewrite (proj2 (memb_in _ _) (proj2 (Pst v) (ex_intro _ k (conj Hk Gk)))). rewrite (Rst _ _ Hk Gk).
  apply Ag. rewrite (get_filter_key (fun z => sset_mem z (c_slots c))). rewrite (proj2 (sset_mem_in _ _) Hv).
  rewrite get_compose_partial by apply inverse_wf. rewrite (proj2 (get_inverse cn_bij v k W Bc) Gk). apply Hth. exact Hk.
Qed.

Print Assumptions NodeT_equiv.
Print Assumptions nsound_cong_back.
Print Assumptions pre_shape_back0.
Print Assumptions pre_shape_back.
Print Assumptions nsound_lookup_hit.
Print Assumptions NodeT_cong_fwd.
Print Assumptions nsound_cong_fwd.
Print Assumptions nsound_sim.
