(* EGraph/SoundPending.v — C01: decomposition of `Sound_handle_pending` (the Section Hypothesis of
   SoundRebuild.v) into step facts.  See the summary at the end of the file. *)
From SE Require Import Slots.SlotMapFacts Group.GroupSound Lang.LangFacts Lang.ShapeFacts Lang.RenameFacts
  EGraph.Model EGraph.ModelFacts EGraph.ModelMachine EGraph.UnionFindFacts EGraph.InvariantFacts
  EGraph.UnionInvariantFacts EGraph.AddCoversFacts EGraph.MonotoneFacts EGraph.SoundFacts EGraph.SoundUnion EGraph.SoundSyn
  EGraph.SoundNode EGraph.SoundBase.
From SE Require Import Sem.Deriv Sem.DerivFacts Sem.AlgebraFacts Sem.EgMachine Explain.CheckerFacts.
Require Import ZArith Lia ZifyBool ZifyN ZifyNat.
Ltac Zify.zify_post_hook ::= Z.div_mod_to_equations.

Local Notation "a ** b" := (compose_partial a b) (at level 40, left associativity).
Local Notation inv := inverse_nocheck.
Local Notation ectr := Model.ctr.

(* ====================================================================== *)
(* 1. frame: everything semantic depends on the syntactic nodes only       *)
(* ====================================================================== *)

(* the two states have the same classes with the same syntactic nodes *)
Definition synR (s s' : egraph) : Prop :=
  forall i : N, option_map c_syn (nth_opt (classes s) (N.to_nat i)) = option_map c_syn (nth_opt (classes s') (N.to_nat i)).

Lemma synR_refl : forall s, synR s s.
Proof. intros s i. reflexivity. Qed.
Lemma synR_sym : forall s s', synR s s' -> synR s' s.
Proof. intros s s' H i. symmetry. apply H. Qed.
Lemma synR_trans : forall a b c, synR a b -> synR b c -> synR a c.
Proof. intros a b c H1 H2 i. rewrite H1. apply H2. Qed.

Lemma ext_synR : forall s s', ext s s' -> synR s s'.
Proof.
  intros s s' (_ & L & X) i.
  destruct (nth_opt (classes s) (N.to_nat i)) as [c|] eqn:Ec.
  - assert (Hc : get_class s i = Ok c) by (unfold get_class; rewrite Ec; reflexivity).
    destruct (X _ _ Hc) as (c' & Hc' & _ & Sy). unfold get_class in Hc'.
    destruct (nth_opt (classes s') (N.to_nat i)) as [c2|]; [|discriminate]. inversion Hc'; subst c2.
    cbn [option_map]. rewrite Sy. reflexivity.
  - destruct (nth_opt (classes s') (N.to_nat i)) as [c'|] eqn:Ec'; [|reflexivity].
    assert (Hc' : get_class s' i = Ok c') by (unfold get_class; rewrite Ec'; reflexivity).
    pose proof (get_class_lt _ _ _ Hc') as Li. rewrite L in Li.
    destruct (get_class_ok s i Li) as [c Hc]. unfold get_class in Hc. rewrite Ec in Hc. discriminate.
Qed.

Lemma sem_synR : forall s s', sem_eq s s' -> synR s s'.
Proof.
  intros s s' [_ H] i.
  pose proof (nth_opt_map csem (classes s) (N.to_nat i)) as A.
  pose proof (nth_opt_map csem (classes s') (N.to_nat i)) as B.
  rewrite H in A. rewrite A in B.
  destruct (nth_opt (classes s) (N.to_nat i)) as [c|], (nth_opt (classes s') (N.to_nat i)) as [c'|];
    cbn [option_map] in *; try discriminate; [|reflexivity].
  assert (B' : csem c = csem c') by congruence.
  apply csem_inv in B'. destruct B' as (_ & _ & ->). reflexivity.
Qed.

Lemma cuR_synR : forall s s', cuR s s' -> synR s s'.
Proof. intros s s' [A _] i. rewrite A. reflexivity. Qed.

Lemma syn_t_synR : forall s s', synR s s' -> forall f d rho i, syn_t s' f d rho i = syn_t s f d rho i.
Proof.
  intros s s' H. induction f as [|f IH]; intros d rho i; [reflexivity|]. cbn [syn_t].
  pose proof (H i) as Hi.
  destruct (nth_opt (classes s) (N.to_nat i)) as [c|], (nth_opt (classes s') (N.to_nat i)) as [c'|];
    cbn [option_map] in Hi; try discriminate; [|reflexivity].
  assert (Sy : c_syn c = c_syn c') by congruence. rewrite <- Sy.
  f_equal. apply map_ext. intros a. apply arg_t_ext. intros d' rho' x. rewrite IH. reflexivity.
Qed.

Lemma clsT_synR : forall s s' rho i, synR s s' -> clsT s' rho i = clsT s rho i.
Proof. intros s s' rho i H. unfold clsT, syn_at. apply syn_t_synR. exact H. Qed.

Lemma SS_synR : forall s s' i, synR s s' -> SS s' i = SS s i.
Proof.
  intros s s' i H. unfold SS, get_class. pose proof (H i) as Hi.
  destruct (nth_opt (classes s) (N.to_nat i)) as [c|], (nth_opt (classes s') (N.to_nat i)) as [c'|];
    cbn [option_map] in Hi; try discriminate; [|reflexivity].
  assert (Sy : c_syn c = c_syn c') by congruence. rewrite Sy. reflexivity.
Qed.

Lemma idapp_synR : forall s s' i, synR s s' -> idapp s' i = idapp s i.
Proof. intros s s' i H. unfold idapp. rewrite (SS_synR _ _ _ H). reflexivity. Qed.

Lemma sim_synR : forall E s s' a b, synR s s' -> sim E s a b -> sim E s' a b.
Proof.
  intros E s s' a b H S sg tau Rs Rt C. unfold rok in *.
  rewrite (SS_synR _ _ (aid a) H) in Rs. rewrite (SS_synR _ _ (aid b) H) in Rt.
  rewrite !(clsT_synR _ _ _ _ H). apply S; assumption.
Qed.

Lemma NodeArg_synR : forall s s', synR s s' -> forall d rho a t, NodeArg s' d rho a t -> NodeArg s d rho a t.
Proof.
  intros s s' Hc d rho a t H. induction H as [d rho x|d rho p|d rho x b t H IH|d rho a tau R Cm].
  - constructor.
  - constructor.
  - constructor. exact IH.
  - unfold syn_at. rewrite (syn_t_synR _ _ Hc). rewrite (SS_synR _ _ _ Hc) in R.
    apply (NA_app s d rho a tau R Cm).
Qed.

Lemma NodeT_synR : forall s s' rho n t, synR s s' -> NodeT s' rho n t -> NodeT s rho n t.
Proof.
  intros s s' rho n t Hc (args & F & ->). exists args. split; [|reflexivity].
  induction F as [|a t l l' Hat F IH]; constructor; [|exact IH]. eapply NodeArg_synR; eauto.
Qed.

(* nsound and sim are stable along every step of the pass (sem_eq, ext, cuR steps), both ways *)
Lemma nsound_synR : forall E s s' a n, synR s s' -> nsound E s a n -> nsound E s' a n.
Proof.
  intros E s s' a n H S sg rho t Rs Rr Ag Jn NT.
  rewrite (SS_synR _ _ _ H) in Rs, Jn. rewrite (clsT_synR _ _ _ _ H).
  apply (S sg rho t Rs Rr Ag Jn). eapply NodeT_synR; eauto.
Qed.

Corollary nsound_ext : forall E s s' a n, ext s s' -> nsound E s a n -> nsound E s' a n.
Proof. intros E s s' a n X. apply nsound_synR, ext_synR, X. Qed.
Corollary nsound_ext_back : forall E s s' a n, ext s s' -> nsound E s' a n -> nsound E s a n.
Proof. intros E s s' a n X. apply nsound_synR, synR_sym, ext_synR, X. Qed.
Corollary sim_ext : forall E s s' a b, ext s s' -> sim E s a b -> sim E s' a b.
Proof. intros E s s' a b X. apply sim_synR, ext_synR, X. Qed.
Corollary sim_ext_back : forall E s s' a b, ext s s' -> sim E s' a b -> sim E s a b.
Proof. intros E s s' a b X. apply sim_synR, synR_sym, ext_synR, X. Qed.

(* a step that keeps the union-find and the slots / group / syntactic node of every class, and
   whose stored nodes are stored nodes of the old state or satisfy I2, keeps the invariant *)
Theorem Sound_nodes : forall E s s', sem_eq s s' -> Sound E s ->
  (forall i c' sh bij src n, get_class s' i = Ok c' -> In (sh, (bij, src)) (c_nodes c') ->
     apply_slotmap false bij sh = Ok n ->
     (exists c, get_class s i = Ok c /\ In (sh, (bij, src)) (c_nodes c)) \/ nsound E s (idapp s i) n) ->
  Sound E s'.
Proof.
  intros E s s' Q S HN. pose proof (sem_synR _ _ Q) as R. pose proof Q as [U _]. constructor.
  - intros i e H. rewrite <- U in H. rewrite (idapp_synR _ _ _ R).
    apply (sim_synR _ _ _ _ _ R). exact (snd_uf _ _ S i e H).
  - intros i c' sh bij src n sg t H1 H2 H3 H4 NT.
    rewrite (SS_synR _ _ _ R) in H4. rewrite (clsT_synR _ _ _ _ R). apply (NodeT_synR _ _ _ _ _ R) in NT.
    destruct (HN _ _ _ _ _ _ H1 H2 H3) as [(c & Hc & Hin)|NS].
    + exact (snd_node _ _ S i c sh bij src n sg t Hc Hin H3 H4 NT).
    + exact (I2_of_nsound _ _ _ _ NS sg t H4 NT).
  - intros i c' p H1 H2 H3.
    destruct (get_class_sem_ok s' s i c' (sem_eq_sym _ _ Q) H1) as (c & Hc & Cs).
    apply csem_inv in Cs. destruct Cs as (A & B & _).
    apply (sim_synR _ _ _ _ _ R). unfold cidapp. rewrite <- A.
    apply (snd_grp _ _ S i c p Hc); [rewrite A; exact H2|rewrite B; exact H3].
Qed.

(* the stored nodes after raw_remove_from_class / raw_add_to_class *)
Lemma raw_remove_nodes : forall id sh s p s', raw_remove_from_class id sh s = Ok (p, s') ->
  forall j cj e, get_class s' j = Ok cj -> In e (c_nodes cj) -> exists c, get_class s j = Ok c /\ In e (c_nodes c).
Proof.
  intros id sh s p s' H. unfold raw_remove_from_class in H.
  apply bind_reads_inv in H. destruct H as (c & Hc & H).
  apply mbind_inv in H. destruct H as (u1 & s1 & H1 & H). apply upd_class_inv in H1. destruct H1 as (c1 & Hc1 & ->).
  rewrite Hc in Hc1. inversion Hc1; subst c1; clear Hc1.
  apply mbind_inv in H. destruct H as (u2 & s2 & H2 & H). inversion H2; subst u2 s2; clear H2.
  apply mbind_inv in H. destruct H as (u3 & s3 & H3 & H).
  assert (s' = s3) by (destruct (na_get (c_nodes c) sh); inversion H; reflexivity). subst s3.
  apply usages_nsame in H3. clear H.
  pose proof (get_class_lt _ _ _ Hc) as L. intros j cj e Hj Hin.
  destruct (H3 _ _ Hj) as (c2 & Hj2 & En & _). rewrite En in Hin.
  assert (Hj' : get_class (set_classes s (set_nth (classes s) (N.to_nat id) (with_nodes c (na_remove (c_nodes c) sh)))) j = Ok c2) by exact Hj2.
  rewrite (get_class_upd s id _ j L) in Hj'. destruct (j =? id) eqn:Eq.
  - apply N.eqb_eq in Eq. subst j. inversion Hj'; subst c2. cbn [c_nodes with_nodes] in Hin.
    apply na_remove_in in Hin. eauto.
  - eauto.
Qed.

Lemma raw_add_nodes : forall id sh bij src s x s', raw_add_to_class id (sh, bij) src s = Ok (x, s') ->
  forall j cj e, get_class s' j = Ok cj -> In e (c_nodes cj) ->
    (j = id /\ e = (sh, (bij, src))) \/ exists c, get_class s j = Ok c /\ In e (c_nodes c).
Proof.
  intros id sh bij src s x s' H. unfold raw_add_to_class in H.
  apply mbind_inv in H. destruct H as (u1 & s1 & H1 & H). apply upd_class_inv in H1. destruct H1 as (c & Hc & ->).
  apply mbind_inv in H. destruct H as (u2 & s2 & H2 & H). inversion H2; subst u2 s2; clear H2.
  apply usages_nsame in H.
  pose proof (get_class_lt _ _ _ Hc) as L. intros j cj e Hj Hin.
  destruct (H _ _ Hj) as (c2 & Hj2 & En & _). rewrite En in Hin.
  assert (Hj' : get_class (set_classes s (set_nth (classes s) (N.to_nat id) (with_nodes c (na_set (c_nodes c) sh (bij, src))))) j = Ok c2) by exact Hj2.
  rewrite (get_class_upd s id _ j L) in Hj'. destruct (j =? id) eqn:Eq.
  - apply N.eqb_eq in Eq. subst j. inversion Hj'; subst c2. cbn [c_nodes with_nodes] in Hin.
    apply na_set_in in Hin. destruct Hin as [->|Hin]; [left; auto|right; eauto].
  - right. eauto.
Qed.

(* raw_remove_from_class keeps the invariant *)
Theorem Sound_raw_remove : forall E id sh s p s', Sound E s -> raw_remove_from_class id sh s = Ok (p, s') -> Sound E s'.
Proof.
  intros E id sh s p s' S H. apply (Sound_nodes E s s' (proj1 (s_raw_remove _ _ _ _ _ H)) S).
  intros i c' sh0 bij src n H1 H2 _. left. exact (raw_remove_nodes _ _ _ _ _ H _ _ _ H1 H2).
Qed.

(* raw_add_to_class keeps the invariant if the written entry satisfies I2 *)
Theorem Sound_raw_add : forall E id sh bij src s x s', Sound E s ->
  (forall n, apply_slotmap false bij sh = Ok n -> nsound E s (idapp s id) n) ->
  raw_add_to_class id (sh, bij) src s = Ok (x, s') -> Sound E s'.
Proof.
  intros E id sh bij src s x s' S NS H. apply (Sound_nodes E s s' (proj1 (s_raw_add _ _ _ _ _ _ H)) S).
  intros i c' sh0 bij0 src0 n H1 H2 H3.
  destruct (raw_add_nodes _ _ _ _ _ _ _ H _ _ _ H1 H2) as [[-> Eq]|T]; [|left; exact T].
  inversion Eq; subst sh0 bij0 src0. right. apply NS. exact H3.
Qed.

(* ====================================================================== *)
(* 1b. forward transport of nsound (on top of SoundNode.v)                  *)
(* ====================================================================== *)

(* NodeArg_syn / NodeT_syn: the terms of the syntactic node of a class are the class term
   (copied from SoundAddNew.v of the insertion side) *)
Lemma NodeArg_syn : forall s i, forall d rho a t, NodeArg s d rho a t ->
  (forall x, In x (app_occ_f a) -> aid x < i /\ forall y, In y (SS s (aid x)) -> get (am x) y <> None) ->
  t = arg_t (fun d' rho' x => if aid x <? i then syn_t s (N.to_nat i) d' (thru (am x) rho') (aid x) else dummy) d rho a.
Proof.
  intros s i d rho a t H. induction H as [d rho x|d rho p|d rho x b t H IH|d rho a tau R Cm]; intros K; cbn [arg_t].
  - reflexivity.
  - reflexivity.
  - f_equal. apply IH. exact K.
  - destruct (K a (or_introl eq_refl)) as [Lt T]. f_equal.
    rewrite (proj2 (N.ltb_lt _ _) Lt). unfold syn_at.
    rewrite (syn_t_fuel s (S (N.to_nat (aid a))) (N.to_nat i)) by lia.
    apply syn_t_rho_ext. intros y Hy. specialize (T y Hy). unfold thru.
    destruct (get (am a) y) as [v|] eqn:G; [|congruence]. exact (Cm _ _ G).
Qed.

Lemma NodeT_syn : forall s i c sg t, syn_wf s -> get_class s i = Ok c -> NodeT s sg (c_syn c) t -> t = clsT s sg i.
Proof.
  intros s i c sg t W Hc (args & F & ->). unfold clsT, syn_at. cbn [syn_t].
  unfold get_class in Hc. destruct (nth_opt (classes s) (N.to_nat i)) as [c0|] eqn:Hn; [|discriminate].
  inversion Hc; subst c0. f_equal.
  assert (K : forall a, In a (nargs (c_syn c)) -> forall x, In x (app_occ_f a) ->
                aid x < i /\ forall y, In y (SS s (aid x)) -> get (am x) y <> None).
  { intros a Ha x Hx. apply (W i c x); [unfold get_class; rewrite Hn; reflexivity|]. eapply app_occ_f_in; eauto. }
  clear Hn Hc. induction F as [|a t l l' Hat F IH]; [reflexivity|]. cbn [map]. f_equal.
  - apply (NodeArg_syn s i _ _ _ _ Hat). apply K. left. reflexivity.
  - apply IH. intros a' Ha'. apply K. right. exact Ha'.
Qed.

(* the syntactic node of a class denotes the class *)
Theorem syn_nsound : forall E s i c, syn_wf s -> get_class s i = Ok c -> nsound E s (idapp s i) (c_syn c).
Proof.
  intros E s i c W Hc sg rho t Rs Rr Ag Jn NT. cbn [aid am idapp] in *.
  assert (NT' : NodeT s sg (c_syn c) t).
  { eapply NodeT_rho_ext; [|exact NT]. intros x Hx. symmetry. apply Ag. apply identity_get_in.
    rewrite (SS_class _ _ _ Hc). exact Hx. }
  rewrite (NodeT_syn s i c sg t W Hc NT'). apply D_refl.
Qed.

(* a restricted to the pairs whose value lies in L *)
Definition restrict_vals (L : list N) (a : appid) : appid :=
  {| aid := aid a;
     am := filter (fun p => match get (am a) (fst p) with Some v => memb v L | None => false end) (am a) |}.

Lemma restrict_vals_get : forall L a x v,
  get (am (restrict_vals L a)) x = Some v <-> (get (am a) x = Some v /\ In v L).
Proof.
  intros L a x v. unfold restrict_vals. cbn [am].
  rewrite (get_filter_key (fun k => match get (am a) k with Some v => memb v L | None => false end) (am a) x).
  destruct (get (am a) x) as [w|] eqn:G.
  - destruct (memb w L) eqn:M.
    + split; [intros H; inversion H; subst; split; [reflexivity|apply memb_in; exact M]|intros [H _]; exact H].
    + split; [discriminate|]. intros [H Hin]. inversion H; subst w. apply memb_in in Hin. congruence.
  - split; [discriminate|intros [H _]; discriminate].
Qed.

(* pairs whose value is not a slot of the node do not matter *)
Lemma nsound_unrestrict : forall E s a a' n, aid a' = aid a ->
  (forall x v, get (am a') x = Some v <-> (get (am a) x = Some v /\ In v (slots n))) ->
  nsound E s a' n -> nsound E s a n.
Proof.
  intros E s a a' n Ea Ha H sg rho t Rs Rr Ag Jn NT. rewrite <- Ea in Rs, Jn |- *.
  apply (H sg rho t Rs Rr); [| |exact NT].
  - intros x v G. apply Ha in G. apply Ag. exact (proj1 G).
  - intros x y Hx Hy Eq. apply Ha. split; [apply Jn; assumption|exact Hy].
Qed.

(* forward node congruence, for the same invocation *)
Theorem nsound_fwd : forall E s a n n', syn_wf s -> node_rel (crel E s) n n' -> injective (am a) ->
  (forall x, get (am a) x <> None -> In x (SS s (aid a))) -> nsound E s a n -> nsound E s a n'.
Proof.
  intros E s a n n' W NR Ia Ka H.
  apply (nsound_unrestrict E s a (restrict_vals (slots n') a) n' eq_refl (restrict_vals_get _ _)).
  exact (nsound_cong_fwd E s a (restrict_vals (slots n') a) n n' W NR Ia Ka eq_refl (restrict_vals_get _ _) H).
Qed.

Lemma canon_keys_SS : forall s a, eg_inv s -> canon_ok s a -> forall y, get (am a) y <> None -> In y (SS s (aid a)).
Proof.
  intros s a I (c & Hc & _ & _ & _ & K) y Hy. rewrite (SS_class _ _ _ Hc).
  destruct (ei_cls s I _ _ Hc) as (_ & _ & Sub). apply Sub. rewrite <- K. apply keys_spec. exact Hy.
Qed.

(* the first link of LINK A: i.id (on the syntactic slots) ~~ i.id (on the class slots): I4 *)
Lemma sim_idapp_cidapp : forall E s i c, eg_inv s -> Sound E s -> get_class s i = Ok c ->
  sim E s (idapp s i) (cidapp i c).
Proof.
  intros E s i c I S Hc sg tau Rs Rt C.
  apply (Sound_redundant E s i c S (ei_cls s I) Hc sg tau Rs Rt).
  cbn [aid am cidapp idapp] in *. intros x y v Hx Hy.
  pose proof (identity_get _ _ _ Hx) as [-> Hv].
  apply (C v y v); [|exact Hy]. apply identity_get_in.
  rewrite (SS_class _ _ _ Hc). destruct (ei_cls s I _ _ Hc) as (_ & _ & Sub). apply Sub. exact Hv.
Qed.

(* nsound along find_applied_id and along find_enode *)
Lemma nsound_find_app : forall E s a a' n, eg_inv s -> Sound E s -> covers s a -> find_applied_id s a = Ok a' ->
  nsound E s a n -> nsound E s a' n.
Proof.
  intros E s a a' n I S C F H. pose proof (covers_lcanon s a a' I C F) as [_ L'].
  destruct C as (c & Hc & Ia & Sa).
  apply (nsound_sim E s a a' n (find_sim E s a a' S I (ex_intro _ c (conj Hc (conj Ia Sa))) F) Ia
           (proj2 (canon_wf_inj _ _ L')) (canon_keys_SS s a' I L') H).
Qed.

Lemma nsound_find_enode : forall E s a n n', eg_inv s -> syn_wf s -> Sound E s -> Forall (covers s) (app_occ n) ->
  find_enode s n = Ok n' -> injective (am a) -> (forall x, get (am a) x <> None -> In x (SS s (aid a))) ->
  nsound E s a n -> nsound E s a n' /\ Forall (covers s) (app_occ n').
Proof.
  intros E s a n n' I W S Cv F Ia Ka H. destruct (find_enode_rel E s n n' I S Cv F) as [NR Cn]. split.
  - apply (nsound_fwd E s a n n' W); try assumption. eapply node_rel_imp; [|exact NR]. intros x x' T. exact (proj1 T).
  - eapply Forall_impl; [|exact Cn]. intros x Hx. apply canon_covers. exact Hx.
Qed.

(* nsound along pre_shape (find_enode, then the chosen group variant: I3 of the children) *)
Theorem nsound_pre_shape : forall E s a n p, eg_inv s -> syn_wf s -> Sound E s -> Forall (covers s) (app_occ n) ->
  pre_shape s n = Ok p -> injective (am a) -> (forall x, get (am a) x <> None -> In x (SS s (aid a))) ->
  nsound E s a n -> nsound E s a p.
Proof.
  intros E s a n p I W S Cv P Ia Ka H. unfold pre_shape in P.
  destruct (find_enode s n) as [n1|] eqn:F1; cbn [bind] in P; [|discriminate].
  destruct (variants s n1) as [vs|] eqn:Ev; cbn [bind] in P; [|discriminate].
  apply min_variant_in in P. destruct P as [P|[k P]]; [|discriminate].
  destruct (find_enode_rel E s n n1 I S Cv F1) as [R1 C1].
  pose proof (variants_rel E s n1 vs p I S C1 Ev P) as R2.
  apply (nsound_fwd E s a n1 p W); try assumption.
  - eapply node_rel_imp; [|exact R2]. intros x x' T. exact (proj1 T).
  - apply (nsound_fwd E s a n n1 W); try assumption.
    eapply node_rel_imp; [|exact R1]. intros x x' T. exact (proj1 T).
Qed.

(* the proven-contains of a class: the canonical syntactic node, written in the name space of the
   leader invocation, denotes the leader class.  Premise: the children of the syntactic node are
   covered (injective maps; totality is syn_wf) *)
Theorem pc_nsound : forall E s src c pc, inv3 s -> syn_wf s -> Sound E s -> get_class s src = Ok c ->
  Forall (covers s) (app_occ (c_syn c)) -> pc_from_src_id s src = Ok pc -> nsound E s (snd pc) (fst pc).
Proof.
  intros E s src c pc I3 W S Hc Cv P. pose proof (proj1 (proj1 I3)) as I.
  destruct (pc_from_src_spec _ _ _ P) as (c' & Hc' & PS & F). rewrite Hc in Hc'. inversion Hc'; subst c'; clear Hc'.
  destruct (pc_props s src pc I P) as (L & _).
  assert (C0 : covers s {| aid := src; am := identity (slots (c_syn c)) |}).
  { exists c. cbn [aid am]. split; [exact Hc|]. split; [apply pid_injective, pid_identity|].
    intros k Hk. destruct (ei_cls s I _ _ Hc) as (_ & _ & Sub). apply Sub, mem_in in Hk. rewrite get_identity, Hk. discriminate. }
  pose proof (syn_nsound E s src c W Hc) as N0. unfold idapp in N0. rewrite (SS_class _ _ _ Hc) in N0.
  pose proof (nsound_find_app E s _ (snd pc) (c_syn c) I S C0 F N0) as N1.
  exact (nsound_pre_shape E s (snd pc) (c_syn c) (fst pc) I W S Cv PS
           (proj2 (canon_wf_inj _ _ (proj2 L))) (canon_keys_SS s (snd pc) I (proj2 L)) N1).
Qed.

(* ====================================================================== *)
(* 2. the walk                                                             *)
(* ====================================================================== *)

(* from = i.m restricted to the entries whose value lies in cap *)
Definition restrict_to (cap : sset) (a : appid) : appid :=
  {| aid := aid a; am := filter (fun kv => sset_mem (snd kv) cap) (am a) |}.

(* LINK B', the pure renaming step that remains of the re-added entry: p = sh'[bij] denotes the
   leader invocation i1 (all of whose values are slots of p); n'' = sh'[bij ** m] with m extending
   (am i1)^-1 by fresh slots; then n'' denotes i1.id on the syntactic slots *)
Definition link_rename (E : equations) : Prop :=
  forall sB p i1 sh' bij m sC n'', inv3 sB -> syn_wf sB -> Sound E sB -> lcanon sB i1 ->
    (forall v, In v (values (am i1)) -> In v (slots p)) -> nsound E sB i1 p ->
    wshape p = Ok (sh', bij) -> fill_fresh (values bij) (inv (am i1)) sB = Ok (m, sC) ->
    apply_slotmap false (bij ** m) sh' = Ok n'' ->
    nsound E sB (idapp sB (aid i1)) n''.

(* the statements of the facts assumed in Section Pending, as named propositions *)
Definition spec_H_shrink : Prop :=
  forall E fuel from cap s x s', inv3 s -> syn_wf s -> mod4_ok s -> Sound E s -> lcanon s from ->
    sim E s from (restrict_to cap from) ->
    shrink_slots (union_internal fuel) from cap s = Ok (x, s') -> Sound E s'.

Definition spec_HSh_red : Prop :=
  forall E src s pc1 n2 a b s1, inv3 s -> syn_wf s -> Sound E s ->
    pc_from_src_id s src = Ok pc1 -> find_enode s (fst pc1) = Ok n2 ->
    pc_congruence pc1 (n2, snd pc1) s = Ok ((a, b), s1) ->
    sim E s a (restrict_to (sset_inter (values (am a)) (values (am b))) a).

Definition spec_HC_sim : Prop :=
  forall E src s pc1 sh pc2 ab s1, inv3 s -> syn_wf s -> Sound E s ->
    pc_from_src_id s src = Ok pc1 -> shape s (fst pc1) = Ok sh -> pc_from_shape s (fst sh) = Ok pc2 ->
    pc_congruence pc1 pc2 s = Ok (ab, s1) -> sim E s (fst ab) (snd ab).

Definition spec_HD_sim : Prop :=
  forall E src s0 pc1 w vs pn2 w2 s ab s1, inv3 s0 -> syn_wf s0 -> Sound E s0 ->
    pc_from_src_id s0 src = Ok pc1 -> wshape (fst pc1) = Ok w -> variants s0 (fst pc1) = Ok vs -> In pn2 vs ->
    wshape pn2 = Ok w2 -> node_eqb (fst w) (fst w2) = true -> ext s0 s ->
    pc_congruence pc1 (pn2, snd pc1) s = Ok (ab, s1) -> sim E s0 (fst ab) (snd ab).

Definition spec_HS_readd : Prop :=
  forall E s sh i c bij0 src nd u1 sA cA enode0 i0 enode i1 sB sh' bij m sC n'',
    inv3 s -> syn_wf s -> Sound E s ->
    na_get (hashcons s) sh = Some i -> get_class s i = Ok c -> na_get (c_nodes c) sh = Some (bij0, src) ->
    apply_slotmap false bij0 sh = Ok nd ->
    nsound E s (idapp s i) nd ->
    raw_remove_from_class i sh s = Ok (u1, sA) -> get_class sA i = Ok cA ->
    find_enode sA nd = Ok enode0 -> find_applied_id sA {| aid := i; am := identity (c_slots cA) |} = Ok i0 ->
    hp_loop 100 src enode0 i0 sA = Ok ((enode, i1), sB) ->
    inv3 sB -> syn_wf sB -> Sound E sB ->
    shape sB enode = Ok (sh', bij) -> lookup_internal sB (sh', bij) = Ok None ->
    fill_fresh (values bij) (inv (am i1)) sB = Ok (m, sC) ->
    apply_slotmap false (bij ** m) sh' = Ok n'' ->
    nsound E sB (idapp sB (aid i1)) n''.

(* the same four statements with more premises (hence weaker; these are what Section Pending uses):
   the structural run invariant mod4_ok (SoundUnion.v) of the states, and two further run invariants
   kept abstract here: SC (a property of the syntactic nodes that is monotone along `ext` steps, e.g.
   "the children of every syntactic node are covered") at every state where inv3 is given, and KC
   (a property of the stored nodes, e.g. "the children of every stored node are covered") at the
   state where handle_pending starts *)
Definition spec_HSh_red_x (SC : egraph -> Prop) : Prop :=
  forall E src s pc1 n2 a b s1, inv3 s -> syn_wf s -> mod4_ok s -> SC s -> Sound E s ->
    pc_from_src_id s src = Ok pc1 -> find_enode s (fst pc1) = Ok n2 ->
    pc_congruence pc1 (n2, snd pc1) s = Ok ((a, b), s1) ->
    sim E s a (restrict_to (sset_inter (values (am a)) (values (am b))) a).

Definition spec_HC_sim_x (SC : egraph -> Prop) : Prop :=
  forall E src s pc1 sh pc2 ab s1, inv3 s -> syn_wf s -> mod4_ok s -> SC s -> Sound E s ->
    pc_from_src_id s src = Ok pc1 -> shape s (fst pc1) = Ok sh -> pc_from_shape s (fst sh) = Ok pc2 ->
    pc_congruence pc1 pc2 s = Ok (ab, s1) -> sim E s (fst ab) (snd ab).

Definition spec_HD_sim_x (SC : egraph -> Prop) : Prop :=
  forall E src s0 pc1 w vs pn2 w2 s ab s1, inv3 s0 -> syn_wf s0 -> mod4_ok s0 -> SC s0 -> Sound E s0 ->
    pc_from_src_id s0 src = Ok pc1 -> wshape (fst pc1) = Ok w -> variants s0 (fst pc1) = Ok vs -> In pn2 vs ->
    wshape pn2 = Ok w2 -> node_eqb (fst w) (fst w2) = true -> ext s0 s ->
    pc_congruence pc1 (pn2, snd pc1) s = Ok (ab, s1) -> sim E s0 (fst ab) (snd ab).

Definition spec_HS_readd_x (SC KC : egraph -> Prop) : Prop :=
  forall E s sh i c bij0 src nd u1 sA cA enode0 i0 enode i1 sB sh' bij m sC n'',
    inv3 s -> syn_wf s -> mod4_ok s -> SC s -> KC s -> Sound E s ->
    na_get (hashcons s) sh = Some i -> get_class s i = Ok c -> na_get (c_nodes c) sh = Some (bij0, src) ->
    apply_slotmap false bij0 sh = Ok nd ->
    nsound E s (idapp s i) nd ->
    raw_remove_from_class i sh s = Ok (u1, sA) -> get_class sA i = Ok cA ->
    find_enode sA nd = Ok enode0 -> find_applied_id sA {| aid := i; am := identity (c_slots cA) |} = Ok i0 ->
    hp_loop 100 src enode0 i0 sA = Ok ((enode, i1), sB) ->
    inv3 sB -> syn_wf sB -> mod4_ok sB -> SC sB -> Sound E sB ->
    shape sB enode = Ok (sh', bij) -> lookup_internal sB (sh', bij) = Ok None ->
    fill_fresh (values bij) (inv (am i1)) sB = Ok (m, sC) ->
    apply_slotmap false (bij ** m) sh' = Ok n'' ->
    nsound E sB (idapp sB (aid i1)) n''.

Lemma spec_HSh_red_weaken : forall SC, spec_HSh_red -> spec_HSh_red_x SC.
Proof. intros SC H E src s pc1 n2 a b s1 I3 W _ _ S. exact (H E src s pc1 n2 a b s1 I3 W S). Qed.
Lemma spec_HC_sim_weaken : forall SC, spec_HC_sim -> spec_HC_sim_x SC.
Proof. intros SC H E src s pc1 sh pc2 ab s1 I3 W _ _ S. exact (H E src s pc1 sh pc2 ab s1 I3 W S). Qed.
Lemma spec_HD_sim_weaken : forall SC, spec_HD_sim -> spec_HD_sim_x SC.
Proof. intros SC H E src s0 pc1 w vs pn2 w2 s ab s1 I3 W _ _ S. exact (H E src s0 pc1 w vs pn2 w2 s ab s1 I3 W S). Qed.
Lemma spec_HS_readd_weaken : forall SC KC, spec_HS_readd -> spec_HS_readd_x SC KC.
Proof.
  intros SC KC H E s sh i c bij0 src nd u1 sA cA enode0 i0 enode i1 sB sh' bij m sC n'' I3 W _ _ _ S Hh Hc Hp0 Hnd NS0 HA HcA Hen Hi0 HB IB WB _ _ SB.
  exact (H E s sh i c bij0 src nd u1 sA cA enode0 i0 enode i1 sB sh' bij m sC n'' I3 W S Hh Hc Hp0 Hnd NS0 HA HcA Hen Hi0 HB IB WB SB).
Qed.

(* `spec_HC_sim_x` at the call site inside handle_pending: the premises are the facts available at that
   point of the walk (as for spec_HS_readd_x), in particular the run invariant KC of the state in which
   handle_pending started *)
Definition spec_HC_sim_y (SC KC : egraph -> Prop) : Prop :=
  forall E s sh i c bij0 src nd u1 sA cA enode0 i0 enode i1 sB t hit pc1 sh2 pc2 ab s1,
    inv3 s -> syn_wf s -> mod4_ok s -> SC s -> KC s -> Sound E s ->
    na_get (hashcons s) sh = Some i -> get_class s i = Ok c -> na_get (c_nodes c) sh = Some (bij0, src) ->
    apply_slotmap false bij0 sh = Ok nd ->
    raw_remove_from_class i sh s = Ok (u1, sA) -> get_class sA i = Ok cA ->
    find_enode sA nd = Ok enode0 -> find_applied_id sA {| aid := i; am := identity (c_slots cA) |} = Ok i0 ->
    hp_loop 100 src enode0 i0 sA = Ok ((enode, i1), sB) ->
    inv3 sB -> syn_wf sB -> mod4_ok sB -> SC sB -> Sound E sB ->
    shape sB enode = Ok t -> lookup_internal sB t = Ok (Some hit) ->
    pc_from_src_id sB src = Ok pc1 -> shape sB (fst pc1) = Ok sh2 -> pc_from_shape sB (fst sh2) = Ok pc2 ->
    pc_congruence pc1 pc2 sB = Ok (ab, s1) -> sim E sB (fst ab) (snd ab).

Lemma spec_HC_sim_y_of_x : forall SC KC, spec_HC_sim_x SC -> spec_HC_sim_y SC KC.
Proof.
  intros SC KC H E s sh i c bij0 src nd u1 sA cA enode0 i0 enode i1 sB t hit pc1 sh2 pc2 ab s1
    _ _ _ _ _ _ _ _ _ _ _ _ _ _ _ IB WB MB ScB SB _ _ P1 Hsh P2 HP.
  exact (H E src sB pc1 sh2 pc2 ab s1 IB WB MB ScB SB P1 Hsh P2 HP).
Qed.

Section Pending.
  (* two abstract run invariants (see the comment before spec_HSh_red_x); instances: fun _ => True, or
     syn_cov / kids_cov *)
  Variable SC : egraph -> Prop.
  Variable KC : egraph -> Prop.
  Hypothesis SC_ext : forall s s', ext s s' -> SC s -> SC s'.
  (* the interface of the union core (as in SoundRebuild.v; discharged there by
     SoundBase.ui_spec_sound_closed) *)
  Hypothesis H_ui : forall E fuel, ui_spec_sound E (union_internal fuel).

  (* ASSUMED: the interface of shrink_slots (part of the union core): if the slots of `from`
     outside cap are redundant, i.e. from ~~ from restricted to cap (two renamings of the class of
     `from` that agree on the slots mapped into cap give derivably equal class terms), then
     shrink_slots keeps the invariant *)
  Hypothesis H_shrink : spec_H_shrink.

  (* the union performed on the result of pc_congruence (mirrors inv3_pcc_uint) *)
  Lemma Sound_pcc_uint : forall E s0 s i pc1 pc2 ab s1 b s', inv3 s0 -> ext s0 s -> inv3 s -> mod4_ok s -> Sound E s ->
    pc_from_src_id s0 i = Ok pc1 -> lcanon s0 (snd pc2) ->
    pc_congruence pc1 pc2 s = Ok (ab, s1) -> sim E s (fst ab) (snd ab) ->
    uint (fst ab) (snd ab) s1 = Ok (b, s') -> Sound E s'.
  Proof.
    intros E s0 s i pc1 pc2 ab s1 b s' [[Hs0 Hb0] _] E0 I3 M S P1 L2 H SIM U.
    destruct (pc_props s0 i pc1 Hs0 P1) as (L1 & c & Hc & Oc).
    destruct (canon_wf_inj _ _ (proj2 L2)) as [W2 I2].
    destruct (pcc_injective s pc1 pc2 ab s1) as (F1 & F2 & F3 & F4); try assumption.
    { intros x Hx. assert (x < ectr s0) by (apply (Hb0 i c x Hc); apply Oc; apply pub_occ_all_occ; assumption).
      destruct E0 as (L & _). lia. }
    destruct (semn_step3 _ _ (s_pc_congruence _ _ _ _ _ H) (n_pc_congruence _ _ _ _ _ H) I3) as [Hs1 E1].
    pose proof (ext_trans _ _ _ E0 E1) as E01.
    assert (C1 : covers s1 (fst ab)).
    { rewrite F1. apply (covers_ext s0 s1); [assumption|]. apply canon_covers. apply L1. }
    assert (C2 : covers s1 (snd ab)).
    { pose proof (canon_covers _ _ (proj2 L2)) as C. apply (covers_ext s0 s1 _ E01) in C.
      destruct C as (c2 & Hc2 & _ & Sk). exists c2. rewrite F2. split; [assumption|]. split; [assumption|].
      intros k Hk. apply F4. apply Sk. assumption. }
    pose proof (cu_pc_congruence _ _ _ _ _ H) as CU.
    exact (H_ui E ui_fuel _ _ s1 b s' Hs1 (m4_pc_congruence _ _ _ _ _ M H) (Sound_cuR _ _ _ CU S) C1 C2
             (sim_synR _ _ _ _ _ (cuR_synR _ _ CU) SIM) U).
  Qed.

  (* ---------------- handle_shrink_in_upwards_merge ---------------- *)

  (* ASSUMED (semantic): the slots of the leader invocation of src that do not occur in the
     re-canonicalised syntactic node of src are redundant *)
  Hypothesis HSh_red : spec_HSh_red_x SC.

  Theorem Sound_handle_shrink : forall E src s x s', inv3 s -> syn_wf s -> mod4_ok s -> SC s -> Sound E s ->
    handle_shrink_in_upwards_merge src s = Ok (x, s') -> Sound E s'.
  Proof.
    intros E src s x s' I3 W M Sc S H. pose proof I3 as [[Hs Hb] _]. unfold handle_shrink_in_upwards_merge in H.
    apply bind_reads_inv in H. destruct H as (pc1 & P1 & H).
    apply bind_reads_inv in H. destruct H as (n2 & F2 & H).
    apply mbind_inv in H. destruct H as ([a b] & s1 & H1 & H).
    pose proof (HSh_red E src s pc1 n2 a b s1 I3 W M Sc S P1 F2 H1) as RED.
    pose proof (m4_pc_congruence _ _ _ _ _ M H1) as M1.
    pose proof (pc_congruence_fst _ _ _ _ _ H1) as Fa. cbn [fst] in Fa. subst a.
    destruct (pc_props s src pc1 Hs P1) as (L1 & _).
    pose proof (s_pc_congruence _ _ _ _ _ H1) as S1.
    destruct (semn_step3 _ _ S1 (n_pc_congruence _ _ _ _ _ H1) I3) as [Hs1 E1].
    pose proof (cu_pc_congruence _ _ _ _ _ H1) as CU.
    refine (H_shrink E ui_fuel _ _ s1 x s' Hs1 (syn_wf_cuR _ _ CU W) M1 (Sound_cuR _ _ _ CU S)
              (lcanon_sem _ _ _ (proj1 S1) L1) _ H).
    apply (sim_synR _ _ _ _ _ (cuR_synR _ _ CU)). exact RED.
  Qed.

  (* ---------------- handle_congruence ---------------- *)

  (* ASSUMED (semantic): the two invocations built by pc_congruence from the proven-contains of
     src and of the source id stored with the hashcons hit are related *)
  Hypothesis HC_sim : spec_HC_sim_y SC KC.

  (* handle_congruence, given the relation of the two invocations built by its pc_congruence *)
  Theorem Sound_handle_congruence : forall E src s pc1 x s', inv3 s -> syn_wf s -> mod4_ok s -> SC s -> Sound E s ->
    pc_from_src_id s src = Ok pc1 ->
    (forall sh pc2 ab s1, shape s (fst pc1) = Ok sh -> pc_from_shape s (fst sh) = Ok pc2 ->
       pc_congruence pc1 pc2 s = Ok (ab, s1) -> sim E s (fst ab) (snd ab)) ->
    handle_congruence pc1 s = Ok (x, s') -> Sound E s'.
  Proof.
    intros E src s pc1 x s' I3 W M Sc S P1 HSIM H. unfold handle_congruence in H.
    apply bind_reads_inv in H. destruct H as (sh & Hsh & H).
    apply bind_reads_inv in H. destruct H as (pc2 & P2 & H).
    apply mbind_inv in H. destruct H as (ab & s1 & H1 & H).
    apply mbind_inv in H. destruct H as (b & s2 & H2 & H). inversion H; subst x s2; clear H.
    pose proof (HSIM sh pc2 ab s1 Hsh P2 H1) as SIM.
    unfold pc_from_shape in P2. destruct (na_get (hashcons s) (fst sh)) as [i2|]; [|discriminate].
    destruct (get_class s i2) as [c2|]; cbn [bind] in P2; [|discriminate].
    destruct (na_get (c_nodes c2) (fst sh)) as [[bj src2]|]; [|discriminate].
    destruct (pc_props s src2 pc2 (proj1 (proj1 I3)) P2) as (L2 & _).
    exact (Sound_pcc_uint E s s src pc1 pc2 ab s1 b s' I3 (ext_refl s) I3 M S P1 L2 H1 SIM H2).
  Qed.

  (* ---------------- determine_self_symmetries ---------------- *)

  (* ASSUMED (semantic): a group variant pn2 of the canonical syntactic node of src with the same
     weak shape yields a symmetry of the leader invocation (pc1, the variants and the weak shapes
     are computed in s0; the congruence is built in a later state s) *)
  Hypothesis HD_sim : spec_HD_sim_x SC.

  Theorem Sound_determine_self_symmetries : forall E src s x s', inv3 s -> syn_wf s -> mod4_ok s -> SC s -> Sound E s ->
    determine_self_symmetries src s = Ok (x, s') -> Sound E s'.
  Proof.
    intros E src s x s' I3 W M Sc S H. unfold determine_self_symmetries in H.
    apply bind_reads_inv in H. destruct H as (pc1 & P1 & H).
    apply mbind_inv in H. destruct H as (w & s0 & Hw & H). apply lift_inv in Hw. destruct Hw as [Hw ->].
    cbv zeta in H. apply bind_reads_inv in H. destruct H as (vs & Hvs & H).
    destruct (pc_props s src pc1 (proj1 (proj1 I3)) P1) as (L1 & _).
    assert (G : forall l s1 x s', (forall p, In p l -> In p vs) -> inv3 s1 -> ext s s1 -> mod4_ok s1 -> Sound E s1 ->
              iterM (fun pn2 => dom w2 <- Model.lift (wshape pn2);
                       if node_eqb (fst w) (fst w2) then
                         dom ab <- pc_congruence pc1 (pn2, snd pc1); dom _ <- uint (fst ab) (snd ab); ret tt
                       else ret tt) l s1 = Ok (x, s') -> Sound E s').
    { clear H x s'. induction l as [|pn2 t IH]; intros s1 x s' Sub Hs1 E01 M1 S1 H; cbn [iterM] in H.
      - inversion H; subst. exact S1.
      - apply mbind_inv in H. destruct H as (u & s2 & H1 & H).
        assert (S12 : inv3 s2 /\ ext s1 s2 /\ mod4_ok s2 /\ Sound E s2).
        { apply mbind_inv in H1. destruct H1 as (w2 & s0 & Hw2 & H1). apply lift_inv in Hw2. destruct Hw2 as [Hw2 ->].
          destruct (node_eqb (fst w) (fst w2)) eqn:EQ;
            [|inversion H1; subst; split; [assumption|split; [apply ext_refl|split; assumption]]].
          apply mbind_inv in H1. destruct H1 as (ab & s3 & H3 & H1).
          apply mbind_inv in H1. destruct H1 as (b & s4 & H4 & H1). inversion H1; subst u s4; clear H1.
          destruct (inv3_pcc_uint s s1 src pc1 (pn2, snd pc1) ab s3 b s2 I3 E01 Hs1 P1 L1 H3 H4) as [A B].
          split; [exact A|]. split; [exact B|].
          split; [exact (m4_uint _ _ _ _ _ (m4_pc_congruence _ _ _ _ _ M1 H3) H4)|].
          pose proof (HD_sim E src s pc1 w vs pn2 w2 s1 ab s3 I3 W M Sc S P1 Hw Hvs (Sub _ (or_introl eq_refl)) Hw2 EQ E01 H3) as SIM.
          exact (Sound_pcc_uint E s s1 src pc1 (pn2, snd pc1) ab s3 b s2 I3 E01 Hs1 M1 S1 P1 L1 H3
                   (sim_ext _ _ _ _ _ E01 SIM) H4). }
        destruct S12 as (Hs2' & E12 & M2 & S2).
        exact (IH s2 x s' (fun p Hp => Sub p (or_intror Hp)) Hs2' (ext_trans _ _ _ E01 E12) M2 S2 H). }
    exact (G vs s x s' (fun p Hp => Hp) I3 (ext_refl s) M S H).
  Qed.

  (* ---------------- the loop ---------------- *)

  Lemma Sound_hp_loop : forall E fuel src enode i s r s', inv3 s -> syn_wf s -> mod4_ok s -> SC s -> Sound E s ->
    hp_loop fuel src enode i s = Ok (r, s') -> Sound E s'.
  Proof.
    intros E. induction fuel as [|f IH]; intros src enode i s r s' I3 W M Sc S H; cbn [hp_loop] in H; [discriminate|].
    destruct (sset_subset (values (am i)) (slots enode)) eqn:Eq.
    - inversion H; subst r s'. exact S.
    - apply mbind_inv in H. destruct H as (u & s1 & H1 & H).
      destruct (inv3_handle_shrink _ _ _ _ H1 I3) as [I1 E1].
      pose proof (Sound_handle_shrink E _ _ _ _ I3 W M Sc S H1) as S1.
      pose proof (m4_handle_shrink _ _ _ _ M H1) as M1.
      apply bind_reads_inv in H. destruct H as (enode' & He & H).
      apply bind_reads_inv in H. destruct H as (i' & Hi & H).
      exact (IH src enode' i' s1 r s' I1 (syn_wf_ext _ _ E1 W) M1 (SC_ext _ _ E1 Sc) S1 H).
  Qed.

  (* the semantic loop invariant: the node, written in the name space of the leader invocation,
     denotes the class of the invocation *)
  Lemma nsound_hp_loop : forall E fuel src enode i s r s', inv3 s -> syn_wf s -> mod4_ok s -> SC s -> Sound E s -> lcanon s i ->
    Forall (covers s) (app_occ enode) -> nsound E s i enode ->
    hp_loop fuel src enode i s = Ok (r, s') -> nsound E s' (snd r) (fst r) /\ Forall (covers s') (app_occ (fst r)).
  Proof.
    intros E. induction fuel as [|f IH]; intros src enode i s r s' I3 W M Sc S L Cv NS H; cbn [hp_loop] in H; [discriminate|].
    destruct (sset_subset (values (am i)) (slots enode)) eqn:Eq.
    - inversion H; subst r s'. split; assumption.
    - apply mbind_inv in H. destruct H as (u & s1 & H1 & H).
      destruct (inv3_handle_shrink _ _ _ _ H1 I3) as [I1 E1].
      pose proof (Sound_handle_shrink E _ _ _ _ I3 W M Sc S H1) as S1.
      pose proof (m4_handle_shrink _ _ _ _ M H1) as M1.
      pose proof (syn_wf_ext _ _ E1 W) as W1.
      apply bind_reads_inv in H. destruct H as (enode' & He & H).
      apply bind_reads_inv in H. destruct H as (i' & Hi & H).
      pose proof (proj1 (proj1 I1)) as Hs1.
      assert (Cv1 : Forall (covers s1) (app_occ enode)).
      { eapply Forall_impl; [|exact Cv]. intros x Hx. eapply covers_ext; eauto. }
      assert (Ci : covers s1 i) by (apply (covers_ext _ _ _ E1), canon_covers, (proj2 L)).
      pose proof (covers_lcanon s1 i i' Hs1 Ci Hi) as L'.
      pose proof (nsound_find_app E s1 i i' enode Hs1 S1 Ci Hi (nsound_ext E s s1 i enode E1 NS)) as NS2.
      destruct (nsound_find_enode E s1 i' enode enode' Hs1 W1 S1 Cv1 He
                  (proj2 (canon_wf_inj _ _ (proj2 L'))) (canon_keys_SS s1 i' Hs1 (proj2 L')) NS2) as [NS3 Cv'].
      exact (IH src enode' i' s1 r s' I1 W1 M1 (SC_ext _ _ E1 Sc) S1 L' Cv' NS3 H).
  Qed.

  (* LINK A of section 3, proved; new premise: the children of the removed stored node are covered *)
  Theorem Link_loop_proved : forall E s sh i c bij0 src nd u1 sA cA enode0 i0 enode i1 sB,
    inv3 s -> syn_wf s -> mod4_ok s -> SC s -> Sound E s ->
    na_get (hashcons s) sh = Some i -> get_class s i = Ok c -> na_get (c_nodes c) sh = Some (bij0, src) ->
    apply_slotmap false bij0 sh = Ok nd -> nsound E s (idapp s i) nd ->
    Forall (covers s) (app_occ nd) ->
    raw_remove_from_class i sh s = Ok (u1, sA) -> get_class sA i = Ok cA ->
    find_enode sA nd = Ok enode0 -> find_applied_id sA {| aid := i; am := identity (c_slots cA) |} = Ok i0 ->
    hp_loop 100 src enode0 i0 sA = Ok ((enode, i1), sB) ->
    nsound E sB i1 enode /\ Forall (covers sB) (app_occ enode).
  Proof.
    intros E s sh i c bij0 src nd u1 sA cA enode0 i0 enode i1 sB I3 W M Sc S Hh Hc Hp0 Hnd NS0 Cv HA HcA Hen Hi0 HB.
    pose proof (m4_raw_remove _ _ _ _ _ M HA) as MA.
    assert (IA : inv3 sA /\ ext s sA).
    { destruct I3 as [Hs2 HN]. destruct (semR_step2 _ _ (s_raw_remove _ _ _ _ _ HA) Hs2) as [HsA EA].
      split; [|exact EA]. split; [exact HsA|eapply nodes_raw_remove; eauto]. }
    destruct IA as [IA EA]. pose proof (proj1 (proj1 IA)) as HsA.
    pose proof (Sound_raw_remove E _ _ _ _ _ S HA) as SA.
    pose proof (syn_wf_ext _ _ EA W) as WA.
    assert (CvA : Forall (covers sA) (app_occ nd)).
    { eapply Forall_impl; [|exact Cv]. intros x Hx. eapply covers_ext; eauto. }
    pose proof (nsound_ext E s sA _ nd EA NS0) as NS1. rewrite <- (idapp_synR _ _ i (ext_synR _ _ EA)) in NS1.
    (* i.id on the syntactic slots -> i.id on the class slots *)
    assert (NS2 : nsound E sA (cidapp i cA) nd).
    { apply (nsound_sim E sA (idapp sA i) (cidapp i cA) nd (sim_idapp_cidapp E sA i cA HsA SA HcA)).
      - apply pid_injective, pid_identity.
      - apply pid_injective, pid_identity.
      - cbn [aid am cidapp]. intros y Hy. rewrite (SS_class _ _ _ HcA).
        destruct (ei_cls sA HsA _ _ HcA) as (_ & _ & Sub). apply Sub.
        destruct (get (identity (c_slots cA)) y) as [v|] eqn:G; [|congruence].
        apply identity_get in G. destruct G as [-> G]. exact G.
      - exact NS1. }
    pose proof (covers_identity sA i cA HcA) as C0.
    pose proof (covers_lcanon sA _ i0 HsA C0 Hi0) as L0.
    pose proof (nsound_find_app E sA _ i0 nd HsA SA C0 Hi0 NS2) as NS3.
    destruct (nsound_find_enode E sA i0 nd enode0 HsA WA SA CvA Hen
                (proj2 (canon_wf_inj _ _ (proj2 L0))) (canon_keys_SS sA i0 HsA (proj2 L0)) NS3) as [NS4 Cv0].
    exact (nsound_hp_loop E 100 src enode0 i0 sA (enode, i1) sB IA WA MA (SC_ext _ _ EA Sc) SA L0 Cv0 NS4 HB).
  Qed.

  (* HS_readd from the renaming step alone (plus: the children of the removed node are covered) *)
  Theorem HS_readd_reduced : forall E, link_rename E ->
    forall s sh i c bij0 src nd u1 sA cA enode0 i0 enode i1 sB sh' bij m sC n'',
    inv3 s -> syn_wf s -> mod4_ok s -> SC s -> Sound E s ->
    na_get (hashcons s) sh = Some i -> get_class s i = Ok c -> na_get (c_nodes c) sh = Some (bij0, src) ->
    apply_slotmap false bij0 sh = Ok nd -> nsound E s (idapp s i) nd ->
    Forall (covers s) (app_occ nd) ->
    raw_remove_from_class i sh s = Ok (u1, sA) -> get_class sA i = Ok cA ->
    find_enode sA nd = Ok enode0 -> find_applied_id sA {| aid := i; am := identity (c_slots cA) |} = Ok i0 ->
    hp_loop 100 src enode0 i0 sA = Ok ((enode, i1), sB) ->
    inv3 sB -> syn_wf sB -> Sound E sB ->
    shape sB enode = Ok (sh', bij) -> lookup_internal sB (sh', bij) = Ok None ->
    fill_fresh (values bij) (inv (am i1)) sB = Ok (m, sC) ->
    apply_slotmap false (bij ** m) sh' = Ok n'' ->
    nsound E sB (idapp sB (aid i1)) n''.
  Proof.
    intros E LR s sh i c bij0 src nd u1 sA cA enode0 i0 enode i1 sB sh' bij m sC n''
      I3 W M Sc S Hh Hc Hp0 Hnd NS0 Cv HA HcA Hen Hi0 HB IB WB SB Ht _ Hm Hn.
    destruct (Link_loop_proved E s sh i c bij0 src nd u1 sA cA enode0 i0 enode i1 sB
                I3 W M Sc S Hh Hc Hp0 Hnd NS0 Cv HA HcA Hen Hi0 HB) as [NS1 CvB].
    assert (IA : inv3 sA).
    { destruct I3 as [Hs2 HN]. destruct (semR_step2 _ _ (s_raw_remove _ _ _ _ _ HA) Hs2) as [HsA EA].
      split; [exact HsA|eapply nodes_raw_remove; eauto]. }
    pose proof (covers_lcanon sA _ i0 (proj1 (proj1 IA)) (covers_identity sA i cA HcA) Hi0) as L0.
    destruct (inv3_hp_loop _ _ _ _ _ _ _ IA L0 (ex_intro _ nd Hen) HB) as (_ & _ & L1 & (n0 & Fn) & Sub).
    cbn [fst snd] in *. pose proof (proj1 (proj1 IB)) as HsB.
    unfold shape in Ht. destruct (pre_shape sB enode) as [p|] eqn:Pp; cbn [bind] in Ht; [|discriminate].
    pose proof (nsound_pre_shape E sB i1 enode p HsB WB SB CvB Pp
                  (proj2 (canon_wf_inj _ _ (proj2 L1))) (canon_keys_SS sB i1 HsB (proj2 L1)) NS1) as NS2.
    refine (LR sB p i1 sh' bij m sC n'' IB WB SB L1 _ NS2 Ht Hm Hn).
    intros v Hv. apply (pre_shape_keeps_proved sB n0 enode p HsB Fn Pp).
    apply mem_in. unfold sset_subset in Sub. exact (proj1 (forallb_forall _ _) Sub v Hv).
  Qed.

  (* ---------------- the re-added entry ---------------- *)

  (* ASSUMED (semantic; section 3 below reduces it further): the entry written by the None branch
     satisfies I2.  All premises are facts available at that point of the walk. *)
  Hypothesis HS_readd : spec_HS_readd_x SC KC.

  (* ---------------- handle_pending ---------------- *)

  Theorem Sound_handle_pending : forall E sh ty s x s', inv3 s -> syn_wf s -> mod4_ok s -> SC s -> KC s -> Sound E s ->
    handle_pending sh ty s = Ok (x, s') -> Sound E s'.
  Proof.
    intros E sh ty s x s' I3 W M Sc Kc S H. unfold handle_pending in H.
    apply bind_reads_inv in H. destruct H as (i & Hi & H). cbv beta in Hi.
    destruct (na_get (hashcons s) sh) as [i'|] eqn:Hh; [|discriminate]. inversion Hi; subst i'; clear Hi.
    destruct (negb ty); [inversion H; subst; exact S|].
    apply bind_reads_inv in H. destruct H as (c & Hc & H).
    apply mbind_inv in H. destruct H as ([bij0 src_id] & s0 & Hp & H). apply lift_inv in Hp. destruct Hp as [Hp ->].
    destruct (na_get (c_nodes c) sh) as [p0|] eqn:Hp0; [|discriminate]. inversion Hp; subst p0; clear Hp.
    apply mbind_inv in H. destruct H as (nd & s0 & Hnd & H). apply lift_inv in Hnd. destruct Hnd as [Hnd ->].
    pose proof (Sound_nsound E s i c sh bij0 src_id nd S Hc (na_get_in _ _ _ Hp0) Hnd) as NS0.
    apply mbind_inv in H. destruct H as (u1 & sA & HA & H).
    assert (IA : inv3 sA /\ ext s sA).
    { destruct I3 as [Hs2 HN]. destruct (semR_step2 _ _ (s_raw_remove _ _ _ _ _ HA) Hs2) as [HsA EA].
      split; [|exact EA]. split; [exact HsA|eapply nodes_raw_remove; eauto]. }
    destruct IA as [IA EA].
    pose proof (Sound_raw_remove E _ _ _ _ _ S HA) as SA.
    pose proof (m4_raw_remove _ _ _ _ _ M HA) as MA.
    pose proof (syn_wf_ext _ _ EA W) as WA.
    apply bind_reads_inv in H. destruct H as (sl & Hsl & H). cbv zeta in H.
    apply bind_reads_inv in H. destruct H as (enode0 & Hen & H).
    apply bind_reads_inv in H. destruct H as (i0 & Hi0 & H).
    unfold class_slots in Hsl. destruct (get_class sA i) as [cA|] eqn:HcA; cbn [bind] in Hsl; [|discriminate].
    inversion Hsl; subst sl; clear Hsl.
    pose proof (covers_lcanon sA _ i0 (proj1 (proj1 IA)) (covers_identity sA i cA HcA) Hi0) as L0.
    apply mbind_inv in H. destruct H as ([enode i1] & sB & HB & H).
    destruct (inv3_hp_loop _ _ _ _ _ _ _ IA L0 (ex_intro _ nd Hen) HB) as (IB & EB & L1 & (n0 & Fn) & Sub). cbn [fst snd] in *.
    pose proof (SC_ext _ _ EA Sc) as ScA. pose proof (SC_ext _ _ EB ScA) as ScB.
    pose proof (Sound_hp_loop E _ _ _ _ _ _ _ IA WA MA ScA SA HB) as SB.
    destruct (hp_loop_m4 _ _ _ _ _ _ _ _ MA (find_k4w _ _ _ MA Hi0) HB) as [MB [K1m W1m]].
    pose proof (syn_wf_ext _ _ EB WA) as WB.
    apply bind_reads_inv in H. destruct H as (t & Ht & H).
    apply bind_reads_inv in H. destruct H as (lk & Hlk & H).
    destruct lk as [hit|].
    - apply bind_reads_inv in H. destruct H as (pc & P & H).
      refine (Sound_handle_congruence E _ _ _ _ _ IB WB MB ScB SB P _ H).
      intros sh2 pc2 ab s1 Hsh2 P2 HP.
      exact (HC_sim E s sh i c bij0 src_id nd u1 sA cA enode0 i0 enode i1 sB t hit pc sh2 pc2 ab s1
               I3 W M Sc Kc S Hh Hc Hp0 Hnd HA HcA Hen Hi0 HB IB WB MB ScB SB Ht Hlk P Hsh2 P2 HP).
    - destruct t as [sh' bij]. pose proof Ht as Ht0.
      apply mbind_inv in H. destruct H as (m & sC & Hm & H).
      change (fill_fresh (values bij) (inv (am i1)) sB = Ok (m, sC)) in Hm. cbv zeta in H.
      apply mbind_inv in H. destruct H as (u2 & sD & HD & H).
      pose proof IB as [[HsB HbB] NB].
      destruct L1 as [Ld1 (cB & HcB & G1 & W1 & B1 & K1)].
      pose proof (proj1 (is_bijection_injective _ W1) B1) as Inj1.
      unfold shape in Ht. destruct (pre_shape sB enode) as [p|] eqn:Pp; cbn [bind] in Ht; [|discriminate].
      destruct (shape_bij_props _ _ _ Ht) as (Wb & Bb & _). destruct (shape_bij _ _ _ Ht) as (Sb1 & Sb2 & _).
      pose proof (proj1 (is_bijection_injective _ Wb) Bb) as Injb.
      pose proof Hm as Hm0.
      destruct (fill_fresh_spec _ _ _ _ _ (inverse_wf (am i1)) Hm) as (Wm & _ & Keep & (cC & ->)).
      assert (Bnd : forall k v, get (inv (am i1)) k = Some v -> v < ectr sB).
      { intros k v G. apply (get_inverse _ _ _ W1 B1) in G.
        assert (Hv : In v (c_slots cB)) by (rewrite <- K1; apply keys_spec; congruence).
        destruct (ei_cls sB HsB _ _ HcB) as (_ & _ & Isyn). apply Isyn, slots_spec, pub_occ_all_occ in Hv.
        exact (HbB _ _ _ HcB Hv). }
      destruct (fill_fresh_inj _ _ _ _ _ (inverse_wf (am i1)) (inv_injective _ W1 Inj1) Bnd Hm) as [Injm _].
      assert (IC : inv3 (set_ctr sB cC) /\ ext sB (set_ctr sB cC)).
      { apply (semn_step3 sB (set_ctr sB cC)); [|apply nsame_ctr|exact IB].
        exact (s_fill_fresh _ _ _ _ _ Hm). }
      destruct IC as [IC EC].
      assert (EO : entry_ok (c_slots cB) (sh', (bij ** m, src_id))).
      { unfold entry_ok. cbn [fst snd]. split; [apply compose_partial_wf|]. split; [apply compose_injective; assumption|]. split.
        - intros k Hk. apply Sb2. rewrite get_compose_partial in Hk by assumption. destruct (get bij k); congruence.
        - intros y Hy. rewrite <- K1 in Hy. apply keys_spec in Hy. destruct (get (am i1) y) as [v|] eqn:Gy; [|congruence].
          assert (Hv : In v (slots enode)).
          { apply mem_in. unfold sset_subset in Sub. apply (proj1 (forallb_forall _ _) Sub). apply values_spec; eauto. }
          apply (pre_shape_keeps_proved sB n0 enode p HsB Fn Pp), slots_spec, Sb1 in Hv. destruct Hv as (k & Gk). exists k.
          rewrite get_compose_partial by assumption. rewrite Gk.
          assert (Gi : get (inv (am i1)) v = Some y) by (apply (get_inverse _ _ _ W1 B1); exact Gy).
          rewrite Keep by congruence. exact Gi. }
      assert (ID : inv3 sD /\ ext (set_ctr sB cC) sD).
      { destruct IC as [Hs2 HN]. destruct (semR_step2 _ _ (s_raw_add _ _ _ _ _ _ HD) Hs2) as [HsD ED].
        split; [|exact ED]. split; [exact HsD|]. eapply nodes_raw_add; [exact HN| |exact EO|exact HD]. exact HcB. }
      destruct ID as [ID ED].
      pose proof (p4_fill_fresh _ _ _ _ _ Hm0 MB) as MC.
      assert (Vm : forall k v, get m k = Some v -> v mod 4 = 1).
      { apply (fill_fresh_m4 _ _ _ _ _ (inverse_wf (am i1)) MB) with (2 := Hm0).
        intros k v G. apply get_inverse_sound in G; [|exact W1m]. apply K1m. congruence. }
      assert (Q : Q4 (sh', (bij ** m, src_id))).
      { split; cbn [fst snd].
        - intros y Hy. apply (shape_all_occ_mod4 _ _ _ Ht). apply binders_all_occ. exact Hy.
        - intros k v G. apply compose_vals in G. destruct G as (y & G). eapply Vm; eauto. }
      pose proof (p4_raw_add _ _ _ _ Q _ _ _ HD MC) as MD.
      assert (SD : Sound E sD).
      { refine (Sound_raw_add E _ _ _ _ _ _ _ (Sound_set_ctr E sB cC SB) _ HD). intros n'' Hn.
        change (idapp (set_ctr sB cC) (aid i1)) with (idapp sB (aid i1)).
        apply (nsound_synR E sB); [apply cuR_synR; split; reflexivity|].
        exact (HS_readd E s sh i c bij0 src_id nd u1 sA cA enode0 i0 enode i1 sB sh' bij m (set_ctr sB cC) n''
                 I3 W M Sc Kc S Hh Hc Hp0 Hnd NS0 HA HcA Hen Hi0 HB IB WB MB ScB SB Ht0 Hlk Hm0 Hn). }
      exact (Sound_determine_self_symmetries E _ _ _ _ ID (syn_wf_ext _ _ (ext_trans _ _ _ EC ED) WB) MD
               (SC_ext _ _ (ext_trans _ _ _ EC ED) ScB) SD H).
  Qed.
End Pending.

(* ====================================================================== *)
(* 3. the re-added entry: HS_readd from two links                          *)
(* ====================================================================== *)

Section Readd.
  Variable E : equations.

  (* LINK A (loop invariant): on exit of the loop the node enode, written in the name space of the
     leader invocation i1, denotes the class of i1.  Chain: nsound (idapp s i) nd [I2 of the removed
     entry] -> nsound (i, identity (c_slots cA)) nd [redundancy, I4] -> nsound i0 enode0 [find_sim for
     the invocation; find_crel per child + the forward node congruence] -> (per iteration: ext step,
     find_enode, find_applied_id) -> nsound i1 enode *)
  Hypothesis Link_loop : forall s sh i c bij0 src nd u1 sA cA enode0 i0 enode i1 sB,
    inv3 s -> syn_wf s -> Sound E s ->
    na_get (hashcons s) sh = Some i -> get_class s i = Ok c -> na_get (c_nodes c) sh = Some (bij0, src) ->
    apply_slotmap false bij0 sh = Ok nd -> nsound E s (idapp s i) nd ->
    raw_remove_from_class i sh s = Ok (u1, sA) -> get_class sA i = Ok cA ->
    find_enode sA nd = Ok enode0 -> find_applied_id sA {| aid := i; am := identity (c_slots cA) |} = Ok i0 ->
    hp_loop 100 src enode0 i0 sA = Ok ((enode, i1), sB) ->
    inv3 sB -> syn_wf sB -> Sound E sB ->
    nsound E sB i1 enode.

  (* LINK B (shape step): from "enode denotes i1" to I2 of the entry (sh', bij ** m) of class aid i1.
     Chain: nsound i1 enode -> nsound i1 p for the chosen group variant p = pre_shape enode [I3 of
     the children: variants_rel of SoundNode.v + the forward node congruence] -> p = sh'[bij]
     [shape_equiv_by] and n'' = sh'[bij ** m] [shape_apply_equiv], m extending (am i1)^-1: a pure
     renaming of the name space of i1 into the class slots of aid i1 [NodeT_equiv] *)
  Hypothesis Link_shape : forall sB enode i1 n0 sh' bij m sC n'',
    inv3 sB -> syn_wf sB -> Sound E sB -> lcanon sB i1 -> find_enode sB n0 = Ok enode ->
    sset_subset (values (am i1)) (slots enode) = true ->
    nsound E sB i1 enode ->
    shape sB enode = Ok (sh', bij) -> fill_fresh (values bij) (inv (am i1)) sB = Ok (m, sC) ->
    apply_slotmap false (bij ** m) sh' = Ok n'' ->
    nsound E sB (idapp sB (aid i1)) n''.

  Theorem HS_readd_of_links : forall s sh i c bij0 src nd u1 sA cA enode0 i0 enode i1 sB sh' bij m sC n'',
    inv3 s -> syn_wf s -> Sound E s ->
    na_get (hashcons s) sh = Some i -> get_class s i = Ok c -> na_get (c_nodes c) sh = Some (bij0, src) ->
    apply_slotmap false bij0 sh = Ok nd ->
    nsound E s (idapp s i) nd ->
    raw_remove_from_class i sh s = Ok (u1, sA) -> get_class sA i = Ok cA ->
    find_enode sA nd = Ok enode0 -> find_applied_id sA {| aid := i; am := identity (c_slots cA) |} = Ok i0 ->
    hp_loop 100 src enode0 i0 sA = Ok ((enode, i1), sB) ->
    inv3 sB -> syn_wf sB -> Sound E sB ->
    shape sB enode = Ok (sh', bij) -> lookup_internal sB (sh', bij) = Ok None ->
    fill_fresh (values bij) (inv (am i1)) sB = Ok (m, sC) ->
    apply_slotmap false (bij ** m) sh' = Ok n'' ->
    nsound E sB (idapp sB (aid i1)) n''.
  Proof.
    intros s sh i c bij0 src nd u1 sA cA enode0 i0 enode i1 sB sh' bij m sC n''
      I3 W S Hh Hc Hp0 Hnd NS0 HA HcA Hen Hi0 HB IB WB SB Ht _ Hm Hn.
    assert (IA : inv3 sA).
    { destruct I3 as [Hs2 HN]. destruct (semR_step2 _ _ (s_raw_remove _ _ _ _ _ HA) Hs2) as [HsA EA].
      split; [exact HsA|eapply nodes_raw_remove; eauto]. }
    pose proof (covers_lcanon sA _ i0 (proj1 (proj1 IA)) (covers_identity sA i cA HcA) Hi0) as L0.
    destruct (inv3_hp_loop _ _ _ _ _ _ _ IA L0 (ex_intro _ nd Hen) HB) as (_ & _ & L1 & (n0 & Fn) & Sub).
    cbn [fst snd] in *.
    pose proof (Link_loop s sh i c bij0 src nd u1 sA cA enode0 i0 enode i1 sB
                  I3 W S Hh Hc Hp0 Hnd NS0 HA HcA Hen Hi0 HB IB WB SB) as NS1.
    exact (Link_shape sB enode i1 n0 sh' bij m sC n'' IB WB SB L1 Fn Sub NS1 Ht Hm Hn).
  Qed.
End Readd.

(* ====================================================================== *)
(* 4. analysis: executable probes                                          *)
(* ====================================================================== *)

(* KEY INVARIANT (candidate): the key of a stored entry (sh, (bij, src)) is the current shape of
   the syntactic node of src *)
Definition key_okb (s : egraph) (e : node * (slotmap * N)) : bool :=
  match get_class s (snd (snd e)) with
  | Ok c => match shape s (c_syn c) with Ok t => node_eqb (fst t) (fst e) | Err _ => false end
  | Err _ => false
  end.
Definition keys_okb (s : egraph) : bool := forallb (fun c => forallb (key_okb s) (c_nodes c)) (classes s).

(* the source id of an entry stored in class i belongs to class i *)
Definition srcs_okb (s : egraph) : bool :=
  forallb (fun p => forallb (fun e => match find_applied_id s {| aid := snd (snd e); am := [] |} with
                                      | Ok a => aid a =? N.of_nat (fst p) | Err _ => false end) (c_nodes (snd p)))
          (combine (seq 0 (List.length (classes s))) (classes s)).

(* pre_shape is idempotent up to the weak shape, and its result is a fixed point of find_enode
   (so that n2 = fst pc1 in handle_shrink_in_upwards_merge), for the proven-contains of every class *)
Definition pcs_okb (s : egraph) : bool :=
  forallb (fun i => match pc_from_src_id s (N.of_nat i) with
                    | Ok pc => match shape s (fst pc), wshape (fst pc), find_enode s (fst pc) with
                               | Ok t, Ok w, Ok n2 => node_eqb (fst t) (fst w) && node_eqb n2 (fst pc)
                               | _, _, _ => false end
                    | Err _ => false end) (seq 0 (List.length (classes s))).

(* at the call of handle_congruence pc1: (1) the weak shapes of fst pc1 and fst pc2 composed by
   pc_congruence are equal; (2) the key looked up by handle_pending (shape of enode) is the key
   looked up again by handle_congruence (shape of fst pc1); (3) keys_okb of the state *)
Definition hc_probe (s : egraph) (key : node) (pc1 : pcont) : bool * bool * bool :=
  match shape s (fst pc1) with
  | Ok sh =>
      (match pc_from_shape s (fst sh) with
       | Ok pc2 => match wshape (fst pc1), wshape (fst pc2) with
                   | Ok w1, Ok w2 => node_eqb (fst w1) (fst w2)
                   | _, _ => false end
       | Err _ => false end,
       node_eqb (fst sh) key, keys_okb s)
  | Err _ => (false, false, keys_okb s)
  end.

Definition hp_probe (sh : node) (ty : bool) : M (list (bool * bool * bool)) :=
  dom i <- reads (fun s => match na_get (hashcons s) sh with Some i => Ok i | None => Err UnwrapNone end);
  if negb ty then ret [] else
  dom c <- reads (fun s => get_class s i);
  dom psn <- Model.lift (match na_get (c_nodes c) sh with Some p => Ok p | None => Err UnwrapNone end);
  let '(bij0, src_id) := psn in
  dom nd <- Model.lift (apply_slotmap false bij0 sh);
  dom _ <- raw_remove_from_class i sh;
  dom sl <- reads (fun s => class_slots s i);
  let app_i := {| aid := i; am := identity sl |} in
  dom enode <- reads (fun s => find_enode s nd);
  dom i1 <- reads (fun s => find_applied_id s app_i);
  dom ei <- hp_loop 100 src_id enode i1;
  let '(enode, i1) := ei in
  dom t <- reads (fun s => shape s enode);
  dom lk <- reads (fun s => lookup_internal s t);
  match lk with
  | Some _ =>
      dom pc <- reads (fun s => pc_from_src_id s src_id);
      dom b <- gets (fun s => hc_probe s (fst t) pc);
      ret [b]
  | None => ret []
  end.

Fixpoint rebuild_probe (fuel : nat) : M (list (bool * bool * bool)) :=
  match fuel with
  | O => fail OutOfFuel
  | S f =>
      dom p <- gets pending;
      match p with
      | [] => ret []
      | (sh, ty) :: rest =>
          dom _ <- modify (fun s => set_pending s rest);
          dom b <- (fun s => match hp_probe sh ty s with
                             | Ok (b, _) => Ok (b, s)
                             | Err _ => Ok ([(false, false, false)], s) end);
          dom _ <- handle_pending sh ty;
          dom r <- rebuild_probe f;
          ret (b ++ r)
      end
  end.

Definition eg_union_probe (l r : appid) : M (list (bool * bool * bool)) :=
  dom _ <- synify_app_id l;
  dom _ <- synify_app_id r;
  dom _ <- uint l r;
  rebuild_probe rebuild_fuel.

(* result: the probes of every handle_congruence call made by the unions of the history, and the
   static checks (keys_okb, srcs_okb, pcs_okb) after every operation *)
Fixpoint run_probe (terms : list rterm) (ops : list hop) (hs : list appid) (s : egraph)
  : list (bool * bool * bool) * list (bool * bool * bool) :=
  match ops with
  | [] => ([], [])
  | o :: t =>
    let r := match o with
      | HAdd k => match nth_opt terms k with None => Err OutOfBounds
                  | Some tm => match add_expr tm s with Ok (a, s') => Ok (hs ++ [a], [], s') | Err e => Err e end end
      | HUnion i j _ => match nth_opt hs i, nth_opt hs j with
                  | Some a, Some b => match eg_union_probe a b s with Ok (pr, s') => Ok (hs, pr, s') | Err e => Err e end
                  | _, _ => Err OutOfBounds end
      end in
    match r with
    | Err e => ([(false, false, false)], [(false, false, false)])
    | Ok (hs', pr, s') =>
        let '(p2, st2) := run_probe terms t hs' s' in
        (pr ++ p2, (keys_okb s', srcs_okb s', pcs_okb s') :: st2)
    end
  end.

Definition x_hist := [(xT1, xO1); (xT2, xO2); (xT3, xO3); (xT4, xO4); (xT5, xO5); (xT6, xO6)].
Definition x_probes := map (fun p => fst (run_probe (fst p) (snd p) [] empty_egraph)) x_hist.
Definition x_static := map (fun p => forallb (fun b => match b with (a, b, c) => a && b && c end)
                                       (snd (run_probe (fst p) (snd p) [] empty_egraph))) x_hist.
Eval vm_compute in x_probes.
Eval vm_compute in x_static.
Eval vm_compute in (keys_okb ex_state, srcs_okb ex_state, pcs_okb ex_state, keys_okb ix_state, srcs_okb ix_state, pcs_okb ix_state).

(* ====================================================================== *)
(* 5. summary                                                              *)
(* ======================================================================
   INTERFACE (third round): every statement of Section Pending carries the structural run invariant
   mod4_ok (SoundUnion.v) of its pre-state, because the proved union core (`ui_spec_sound`, SoundBase.v)
   and `spec_H_shrink` need it; it is preserved by every step (m4_* of SoundBase.v, p4 lemmas of
   SoundUnion.v).  The four semantic hypotheses are used in the weaker forms (mod4_ok of
   the states, and two abstract run invariants SC / KC, as extra premises: `spec_*_x`);
   `spec_*_weaken` derives them from `spec_*`.  H_ui and H_shrink are
   discharged in SoundRebuild.v (ui_spec_sound_closed, H_shrink_closed).
   PROVED (closed): synR frame lemmas (syn_t/clsT/SS/sim/NodeT/nsound stable along sem_eq, ext and
   cuR steps, both directions), Sound_nodes, raw_remove_nodes, raw_add_nodes, Sound_raw_remove,
   Sound_raw_add, sim_idapp_cidapp.
   PROVED inside Section Pending from H_ui, H_shrink and the semantic hypotheses HSh_red, HC_sim,
   HD_sim, HS_readd: Sound_pcc_uint (H_ui only), Sound_handle_shrink, Sound_handle_congruence,
   Sound_determine_self_symmetries, Sound_hp_loop, Sound_handle_pending.
   PROVED inside Section Readd: HS_readd_of_links (HS_readd from Link_loop and Link_shape).
   ROUND 2 (on top of nsound_sim / nsound_cong_fwd of SoundNode.v), closed: NodeT_syn, syn_nsound (the
   syntactic node denotes its class), restrict_vals(_get), nsound_unrestrict, nsound_fwd (forward
   node congruence for the same invocation), canon_keys_SS, nsound_find_app, nsound_find_enode,
   nsound_pre_shape, pc_nsound (the proven-contains of a class: fst pc denotes snd pc; premise: the
   children of the syntactic node are covered).  Inside Section Pending (from H_shrink, HSh_red only):
   nsound_hp_loop, Link_loop_proved (= Link_loop, with the new premise `Forall (covers s) (app_occ nd)`
   on the children of the removed stored node), HS_readd_reduced (HS_readd + that premise from
   `link_rename E`, the pure renaming step p = sh'[bij] |-> n'' = sh'[bij ** m]).
   NOT DONE: HD_sim, HSh_red (both now start from pc_nsound; they still need a NodeT-term existence
   lemma, the specification of compose_fresh, and for HSh_red `find_enode s (fst pc1) = Ok (fst pc1)`),
   link_rename, HC_sim.
   PROBES (vm_compute): on the six histories of AddCoversFacts.v, at every call of handle_congruence
   made by a union the two weak shapes composed by pc_congruence are equal and the key looked up by
   handle_congruence is the key looked up by handle_pending, although the key invariant keys_okb is
   violated (stale keys) in some of these states; keys_okb, srcs_okb, pcs_okb hold after every
   operation, and on ex_state and ix_state. *)

Print Assumptions Sound_nodes.
Print Assumptions Sound_raw_remove.
Print Assumptions Sound_raw_add.
Print Assumptions nsound_ext.
Print Assumptions sim_idapp_cidapp.
Print Assumptions Sound_pcc_uint.
Print Assumptions Sound_handle_shrink.
Print Assumptions Sound_handle_congruence.
Print Assumptions Sound_determine_self_symmetries.
Print Assumptions Sound_handle_pending.
Print Assumptions HS_readd_of_links.
Print Assumptions syn_nsound.
Print Assumptions nsound_fwd.
Print Assumptions nsound_find_app.
Print Assumptions nsound_find_enode.
Print Assumptions nsound_pre_shape.
Print Assumptions pc_nsound.
Print Assumptions nsound_hp_loop.
Print Assumptions Link_loop_proved.
Print Assumptions HS_readd_reduced.
Check Link_loop_proved.
Check HS_readd_reduced.
Check Sound_handle_pending.
Check HS_readd_of_links.
