(* EGraph/SoundReadd.v — C01: (1) the renaming step `link_rename` of SoundPending.v, proved (under the
   reachable invariant mod4_ok); (2) the run invariant `syn_cov` (children of syntactic nodes are
   covered).  See the summary at the end of the file. *)
From SE Require Import Slots.SlotMapFacts Group.GroupSound Lang.LangFacts Lang.ShapeFacts Lang.RenameFacts
  EGraph.Model EGraph.ModelFacts EGraph.ModelMachine EGraph.UnionFindFacts EGraph.InvariantFacts
  EGraph.UnionInvariantFacts EGraph.AddCoversFacts EGraph.MonotoneFacts EGraph.SoundFacts EGraph.SoundSyn
  EGraph.SoundNode EGraph.SoundBase.
From SE Require Import EGraph.NodePass EGraph.SoundUnion EGraph.SoundAddNew EGraph.SoundAddExpr EGraph.SoundPending.
From SE Require Import Sem.Deriv Sem.DerivFacts Sem.AlgebraFacts Sem.EgMachine Explain.CheckerFacts.
Require Import ZArith Lia ZifyBool ZifyN ZifyNat.
Ltac Zify.zify_post_hook ::= Z.div_mod_to_equations.

Local Notation "a ** b" := (compose_partial a b) (at level 40, left associativity).
Local Notation inv := inverse_nocheck.
Local Notation ectr := Model.ctr.

(* ====================================================================== *)
(* 1. nsound under a renaming of the node                                  *)
(* ====================================================================== *)

(* the core: n' is n renamed by theta (as far as the terms of the nodes are concerned), and the
   invocation a' is a with its values renamed by theta *)
Lemma nsound_ren : forall E s a a' n n' theta,
  nsound E s a n -> aid a' = aid a ->
  (forall rho t, NodeT s rho n' t -> NodeT s (fun x => rho (theta x)) n t) ->
  inj_on theta (slots n) ->
  (forall v, In v (slots n) -> In (theta v) (slots n')) ->
  (forall x v, get (am a) x = Some v -> In v (slots n) /\ get (am a') x = Some (theta v)) ->
  (forall x v', get (am a') x = Some v' -> In v' (slots n') -> exists v, get (am a) x = Some v /\ v' = theta v) ->
  nsound E s a' n'.
Proof.
  intros E s a a' n n' theta H Ea TR Inj Img C1 C2 sg rho' t Rs Rr' Ag' Jn' NT'.
  rewrite Ea in Rs, Jn' |- *. destruct Rr' as [Ir' Nr'].
  apply (H sg (fun v => rho' (theta v)) t).
  - exact Rs.
  - split.
    + intros x y Hx Hy Eq. apply Inj; [exact Hx|exact Hy|]. apply Ir'; [apply Img; exact Hx|apply Img; exact Hy|exact Eq].
    + intros x Hx. apply Nr'. apply Img. exact Hx.
  - intros x v G. destruct (C1 _ _ G) as [_ G']. exact (Ag' _ _ G').
  - intros x y Hx Hy Eq. pose proof (Jn' x (theta y) Hx (Img _ Hy) Eq) as G'.
    destruct (C2 _ _ G' (Img _ Hy)) as (v & Gv & Ev). destruct (C1 _ _ Gv) as [Hv _].
    assert (y = v) by (apply Inj; assumption). subst v. exact Gv.
  - apply TR. exact NT'.
Qed.

(* the general lemma for equivalent nodes *)
Lemma nsound_equiv : forall E s a a' n n' theta, equiv_by theta n n' -> nsound E s a n -> aid a' = aid a ->
  (forall x v, get (am a) x = Some v -> In v (slots n) /\ get (am a') x = Some (theta v)) ->
  (forall x v', get (am a') x = Some v' -> In v' (slots n') -> exists v, get (am a) x = Some v /\ v' = theta v) ->
  nsound E s a' n'.
Proof.
  intros E s a a' n n' theta Q H Ea C1 C2.
  apply (nsound_ren E s a a' n n' theta H Ea); try assumption.
  - intros rho t NT. exact (proj1 (NodeT_equiv s n n' theta rho t Q) NT).
  - destruct Q as (_ & I & _). intros x y Hx Hy. apply I; apply slots_spec; assumption.
  - destruct Q as (_ & _ & P). intros v Hv. apply slots_spec. rewrite (equiv_pub _ _ _ P). apply in_map.
    apply slots_spec. exact Hv.
Qed.

(* ====================================================================== *)
(* 2. link_rename                                                          *)
(* ====================================================================== *)

(* `link_rename E` of SoundPending.v with the extra premise mod4_ok sB (true in every reachable
   state: SoundUnion.reachable_mod4) *)
Definition link_rename_m4 (E : equations) : Prop :=
  forall sB p i1 sh' bij m sC n'', inv3 sB -> syn_wf sB -> Sound E sB -> lcanon sB i1 ->
    (forall v, In v (values (am i1)) -> In v (slots p)) -> nsound E sB i1 p ->
    wshape p = Ok (sh', bij) -> fill_fresh (values bij) (inv (am i1)) sB = Ok (m, sC) ->
    apply_slotmap false (bij ** m) sh' = Ok n'' ->
    mod4_ok sB ->
    nsound E sB (idapp sB (aid i1)) n''.

Theorem link_rename_proved : forall E, link_rename_m4 E.
Proof.
  intros E sB p i1 sh' bij m sC n'' I3 W S L Hv NS Hw Hm Hn M4.
  pose proof I3 as [[HsB Hbelow] _].
  destruct L as [_ (c & Hc & _ & W1 & B1 & K1)].
  pose proof (proj1 (is_bijection_injective _ W1) B1) as Inj1.
  destruct (ei_cls sB HsB _ _ Hc) as (_ & _ & Sub).
  (* the weak shape *)
  destruct (shape_equiv_by p sh' bij Hw) as (th & Q2 & Hth).
  destruct (shape_bij_props _ _ _ Hw) as (Wb & Bb & Pb).
  pose proof (proj1 (is_bijection_injective _ Wb) Bb) as Injb.
  destruct (shape_idempotent _ _ _ Hw) as [bs Hws]. change (wshape sh' = Ok (sh', bs)) in Hws.
  (* the map m *)
  destruct (fill_fresh_spec _ _ _ _ _ (inverse_wf (am i1)) Hm) as (Wm & _ & Keep & _).
  destruct (fill_fresh_total _ _ _ _ _ Hm) as [_ Tot].
  assert (Vinv : forall k v, get (inv (am i1)) k = Some v -> In v (c_slots c)).
  { intros k v G. apply (get_inverse _ _ _ W1 B1) in G. rewrite <- K1. apply keys_spec. congruence. }
  assert (Bnd : forall k v, get (inv (am i1)) k = Some v -> v < ectr sB).
  { intros k v G. apply (Hbelow _ _ _ Hc). apply pub_occ_all_occ. apply slots_spec. apply Sub. eapply Vinv; eauto. }
  destruct (fill_fresh_inj _ _ _ _ _ (inverse_wf (am i1)) (inv_injective _ W1 Inj1) Bnd Hm) as [Injm _].
  assert (Vm4 : forall k v, get m k = Some v -> v mod 4 = 1).
  { apply (fill_fresh_m4 _ _ _ _ _ (inverse_wf (am i1)) M4) with (2 := Hm).
    intros k v G. apply (m4_syn _ M4 (aid i1)). rewrite (SS_class _ _ _ Hc). apply Sub. eapply Vinv; eauto. }
  assert (Minv : forall x v, get (am i1) x = Some v -> get m v = Some x).
  { intros x v G. assert (G' : get (inv (am i1)) v = Some x) by (apply (get_inverse _ _ _ W1 B1); exact G).
    rewrite Keep by congruence. exact G'. }
  set (theta := asm_g m true).
  set (g := asm_g (bij ** m) true).
  assert (Gk : forall k, In k (pub_occ sh') -> exists z, get m (th k) = Some z /\ g k = z /\ theta (th k) = z).
  { intros k Hk. pose proof (Hth k Hk) as Gb.
    assert (T : get m (th k) <> None).
    { apply Tot. apply values_spec; [exact Wb|]. exists k. exact Gb. }
    destruct (get m (th k)) as [z|] eqn:Gz; [|congruence]. exists z. split; [reflexivity|]. split.
    - unfold g, asm_g. rewrite get_compose_partial by exact Wb. rewrite Gb, Gz. reflexivity.
    - unfold theta, asm_g. rewrite Gz. reflexivity. }
  (* n'' = sh'[bij ** m] *)
  assert (Q1 : equiv_by g sh' n'').
  { apply (shape_apply_equiv sh' bs (bij ** m) n'' Hws).
    - apply compose_partial_wf.
    - apply compose_injective; assumption.
    - intros k Hk. destruct (Gk k Hk) as (z & Gz & _). rewrite get_compose_partial by exact Wb.
      rewrite (Hth k Hk), Gz. discriminate.
    - intros k v G. rewrite get_compose_partial in G by exact Wb. destruct (get bij k) as [y|]; [|discriminate].
      apply Vm4 in G. lia.
    - exact Hn. }
  assert (Pp : pub_occ p = map th (pub_occ sh')).
  { destruct Q2 as (_ & _ & P2). exact (equiv_pub _ _ _ P2). }
  assert (Pn : pub_occ n'' = map g (pub_occ sh')).
  { destruct Q1 as (_ & _ & P1). exact (equiv_pub _ _ _ P1). }
  assert (Sp : forall v, In v (slots p) -> exists k, In k (pub_occ sh') /\ v = th k).
  { intros v Hv'. apply slots_spec in Hv'. rewrite Pp in Hv'. apply in_map_iff in Hv'.
    destruct Hv' as (k & <- & Hk). eauto. }
  (* first: the class-slot identity invocation *)
  assert (NC : nsound E sB (cidapp (aid i1) c) n'').
  { apply (nsound_ren E sB i1 (cidapp (aid i1) c) p n'' theta NS eq_refl).
    - intros rho t NT.
      apply (proj2 (NodeT_equiv sB sh' p th (fun x => rho (theta x)) t Q2)).
      apply (NodeT_rho_ext sB sh' (fun x => rho (g x))); [|exact (proj1 (NodeT_equiv sB sh' n'' g rho t Q1) NT)].
      intros k Hk. apply slots_spec in Hk. destruct (Gk k Hk) as (z & _ & -> & ->). reflexivity.
    - intros x y Hx Hy Eq. destruct (Sp _ Hx) as (k & Hk & ->). destruct (Sp _ Hy) as (k' & Hk' & ->).
      destruct (Gk k Hk) as (z & Gz & _ & Tz). destruct (Gk k' Hk') as (z' & Gz' & _ & Tz').
      rewrite Tz, Tz' in Eq. subst z'. exact (Injm _ _ _ Gz Gz').
    - intros v Hv'. destruct (Sp _ Hv') as (k & Hk & ->). destruct (Gk k Hk) as (z & _ & Ez & ->).
      apply slots_spec. rewrite Pn. apply in_map_iff. exists k. split; [exact Ez|exact Hk].
    - intros x v G. split.
      + apply Hv. apply values_spec; [exact W1|]. exists x. exact G.
      + cbn [am cidapp]. unfold theta, asm_g. rewrite (Minv _ _ G). apply identity_get_in.
        rewrite <- K1. apply keys_spec. congruence.
    - intros x v' G _. cbn [am cidapp] in G. apply identity_get in G. destruct G as [<- Hx].
      rewrite <- K1 in Hx. apply keys_spec in Hx. destruct (get (am i1) x) as [v|] eqn:Gx; [|congruence].
      exists v. split; [reflexivity|]. unfold theta, asm_g. rewrite (Minv _ _ Gx). reflexivity. }
  (* then: from the class slots to the syntactic slots *)
  apply (nsound_sim E sB (cidapp (aid i1) c) (idapp sB (aid i1)) n''
           (sim_sym _ _ _ _ (sim_idapp_cidapp E sB (aid i1) c HsB S Hc))).
  - apply pid_injective, pid_identity.
  - apply pid_injective, pid_identity.
  - cbn [aid am idapp]. intros y Hy. destruct (get (identity (SS sB (aid i1))) y) as [v|] eqn:G; [|congruence].
    apply identity_get in G. destruct G as [-> G]. exact G.
  - exact NC.
Qed.

(* ====================================================================== *)
(* 3. spec_HS_readd, under two more premises                               *)
(* ====================================================================== *)

(* `spec_HS_readd` of SoundPending.v with the extra premises: the children of the removed stored
   node are covered, and mod4_ok of the state sB in which the node is re-added *)
Definition spec_HS_readd_m4 : Prop :=
  forall E s sh i c bij0 src nd u1 sA cA enode0 i0 enode i1 sB sh' bij m sC n'',
    inv3 s -> syn_wf s -> Sound E s ->
    na_get (hashcons s) sh = Some i -> get_class s i = Ok c -> na_get (c_nodes c) sh = Some (bij0, src) ->
    apply_slotmap false bij0 sh = Ok nd ->
    nsound E s (idapp s i) nd ->
    Forall (covers s) (app_occ nd) ->
    raw_remove_from_class i sh s = Ok (u1, sA) -> get_class sA i = Ok cA ->
    find_enode sA nd = Ok enode0 -> find_applied_id sA {| aid := i; am := identity (c_slots cA) |} = Ok i0 ->
    hp_loop 100 src enode0 i0 sA = Ok ((enode, i1), sB) ->
    inv3 sB -> syn_wf sB -> Sound E sB -> mod4_ok sB ->
    shape sB enode = Ok (sh', bij) -> lookup_internal sB (sh', bij) = Ok None ->
    fill_fresh (values bij) (inv (am i1)) sB = Ok (m, sC) ->
    apply_slotmap false (bij ** m) sh' = Ok n'' ->
    nsound E sB (idapp sB (aid i1)) n''.

(* Section Readd (HS_readd_m4 through the old Link_loop_proved) is re-derived in SoundFinal.v against the
   threaded SoundPending.v *)

(* ====================================================================== *)
(* 4. the run invariant syn_cov                                            *)
(* ====================================================================== *)

(* the children of every syntactic node are covered (the premise of SoundPending.pc_nsound) *)
Definition syn_cov (s : egraph) : Prop :=
  forall i c a, get_class s i = Ok c -> In a (app_occ (c_syn c)) -> covers s a.

(* (a) *)
Lemma syn_cov_empty : syn_cov empty_egraph.
Proof. intros i c a H. unfold get_class in H. cbn in H. destruct (N.to_nat i); discriminate. Qed.

(* (b) *)
Lemma syn_cov_ext : forall s s', ext s s' -> syn_cov s -> syn_cov s'.
Proof.
  intros s s' X H i c' a Hc' Ha. pose proof X as (_ & L & Xc).
  pose proof (get_class_lt _ _ _ Hc') as Li. change (List.length (classes s')) with (lc s') in Li. rewrite L in Li.
  destruct (get_class_ok s i Li) as [c Hc]. destruct (Xc _ _ Hc) as (c2 & Hc2 & _ & Sy).
  rewrite Hc' in Hc2. inversion Hc2; subst c2. rewrite Sy in Ha.
  exact (covers_ext s s' a X (H _ _ _ Hc Ha)).
Qed.

(* along ext0 (classes may be appended): the old classes keep the property *)
Lemma syn_cov_ext0_old : forall s s' i c a, ext0 s s' -> syn_cov s -> get_class s i = Ok c ->
  In a (app_occ (c_syn c)) -> covers s' a.
Proof. intros s s' i c a X H Hc Ha. exact (covers_ext0 s s' a X (H _ _ _ Hc Ha)). Qed.

Lemma syn_cov_classes : forall s s', classes s' = classes s -> syn_cov s -> syn_cov s'.
Proof.
  intros s s' C H i c a Hc Ha. rewrite (get_class_classes _ _ _ C) in Hc.
  exact (covers_classes s s' a C (H _ _ _ Hc Ha)).
Qed.

(* (c) *)
Theorem syn_cov_eg_union : forall l r s b s', inv3 s -> covers s l -> covers s r -> syn_cov s ->
  eg_union l r s = Ok (b, s') -> syn_cov s'.
Proof. intros l r s b s' I Cl Cr H U. exact (syn_cov_ext _ _ (proj2 (eg_union_inv3 l r s b s' I Cl Cr U)) H). Qed.

Theorem syn_cov_handle_pending : forall sh ty s x s', inv3 s -> syn_cov s ->
  handle_pending sh ty s = Ok (x, s') -> syn_cov s'.
Proof.
  intros sh ty s x s' I H U.
  exact (syn_cov_ext _ _ (proj2 (inv3_handle_pending pre_shape_keeps_proved sh ty s x s' U I)) H).
Qed.

Theorem syn_cov_rebuild : forall fuel s x s', inv3 s -> syn_cov s -> rebuild fuel s = Ok (x, s') -> syn_cov s'.
Proof.
  intros fuel s x s' I H U.
  exact (syn_cov_ext _ _ (proj2 (inv3_rebuild pre_shape_keeps_proved fuel s x s' U I)) H).
Qed.

(* appending one class whose syntactic node has covered children *)
Lemma syn_cov_alloc : forall s s' cn, classes s' = classes s ++ [cn] -> syn_cov s ->
  Forall (covers s) (app_occ (c_syn cn)) -> syn_cov s'.
Proof.
  intros s s' cn C H F j c a Hc Ha.
  assert (Old : forall x, covers s x -> covers s' x).
  { intros x (cx & Hx & R). exists cx. split; [exact (get_class_ext_old s s' cn C _ _ Hx)|exact R]. }
  apply (get_class_ext_inv s s' cn C) in Hc. destruct Hc as [Hc|[_ ->]].
  - apply Old. exact (H _ _ _ Hc Ha).
  - apply Old. exact (proj1 (Forall_forall _ _) F a Ha).
Qed.

(* ---------------------------------------------------------------------- *)
(* an executable checker                                                   *)

Definition syn_covb (s : egraph) : bool :=
  forallb (fun c => forallb (coversb s) (app_occ (c_syn c))) (classes s).

Theorem syn_covb_sound : forall s, syn_covb s = true -> syn_cov s.
Proof.
  intros s H i c a Hc Ha. unfold syn_covb in H.
  pose proof (proj1 (forallb_forall _ _) H c (get_class_In _ _ _ Hc)) as Tc. cbv beta in Tc.
  apply coversb_sound. exact (proj1 (forallb_forall _ _) Tc a Ha).
Qed.

(* the checker after every operation of a history *)
Fixpoint run_chk_sc (terms : list rterm) (ops : list hop) (hs : list appid) (s : egraph) : bool :=
  match ops with
  | [] => true
  | o :: t =>
    let r := match o with
      | HAdd k => match nth_opt terms k with None => Err OutOfBounds
                  | Some tm => match add_expr tm s with Ok (a, s') => Ok (hs ++ [a], s') | Err e => Err e end end
      | HUnion i j _ => match nth_opt hs i, nth_opt hs j with
                  | Some a, Some b => match eg_union a b s with Ok (_, s') => Ok (hs, s') | Err e => Err e end
                  | _, _ => Err OutOfBounds end
      end in
    match r with
    | Err e => false
    | Ok (hs', s') => syn_covb s' && run_chk_sc terms t hs' s'
    end
  end.

Example syn_cov_histories_checked :
  map (fun p => run_chk_sc (fst p) (snd p) [] empty_egraph) [(xT1, xO1); (xT2, xO2); (xT3, xO3); (xT4, xO4); (xT5, xO5); (xT6, xO6)]
  = [true; true; true; true; true; true].
Proof. vm_compute. reflexivity. Qed.

(* ====================================================================== *)
(* 5. (d) syn_cov is kept by add_internal                                  *)
(* ====================================================================== *)

(* corresponding children of two equivalent nodes: same id, same keys, injectivity is kept
   (get-based: no sortedness of the child maps is needed) *)
Definition child_inj (x x' : appid) : Prop :=
  aid x' = aid x /\ keys_vec (am x') = keys_vec (am x) /\ (injective (am x) -> injective (am x')).

Lemma map_eq_Forall2 : forall {A B C} (f : A -> C) (g : B -> C) l l', map f l = map g l' ->
  Forall2 (fun a b => f a = g b) l l'.
Proof.
  intros A B C f g. induction l as [|x t IH]; intros l' H; destruct l' as [|y t']; try discriminate; [constructor|].
  cbn [map] in H. injection H as Hx Ht. constructor; [exact Hx|apply IH; exact Ht].
Qed.

Lemma child_inj_f : forall theta PAT,
  (forall v1 v2, In (Fr v1) PAT -> In (Fr v2) PAT -> theta v1 = theta v2 -> v1 = v2) ->
  forall a a' env env' k, skel_f a = skel_f a' -> map (rename_occ theta) (pat_f env k a) = pat_f env' k a' ->
  incl (pat_f env k a) PAT -> NoDup (map snd env) -> bounded env k ->
  Forall2 child_inj (app_occ_f a) (app_occ_f a').
Proof.
  intros theta PAT TI.
  induction a as [x|x|x b IH|q]; intros a' env env' k Sk P Inc N Bd; destruct a' as [x'|x'|x' b'|q']; try discriminate;
    cbn [app_occ_f]; try constructor.
  - cbn [skel_f] in Sk. injection Sk as Ea Em. cbn [pat_f] in P, Inc. split; [symmetry; exact Ea|]. split.
    + unfold keys_vec. apply (f_equal (map fst)) in Em. rewrite !map_map in Em. cbn [fst] in Em. symmetry. exact Em.
    + intros Ix k1 k2 v' G1 G2. rewrite map_map in P. pose proof (map_eq_Forall2 _ _ _ _ P) as F.
      destruct (get_rel_vals _ (am x) (am x') Em F k1 v' G1) as (v1 & Gv1 & Q1).
      destruct (get_rel_vals _ (am x) (am x') Em F k2 v' G2) as (v2 & Gv2 & Q2). cbv beta in Q1, Q2.
      assert (J1 : In (key env v1) PAT) by (apply Inc; apply in_map; eapply vals_in_vec; eauto).
      assert (J2 : In (key env v2) PAT) by (apply Inc; apply in_map; eapply vals_in_vec; eauto).
      assert (Ev : v1 = v2).
      { rewrite <- Q2 in Q1. unfold key in Q1, J1, J2.
        destruct (blookup env v1) as [i1|] eqn:B1; destruct (blookup env v2) as [i2|] eqn:B2; cbn [rename_occ] in Q1; try discriminate.
        - inversion Q1; subst i2. apply blookup_in in B1, B2. eapply snd_nodup_inj; eauto.
        - inversion Q1 as [Et]. exact (TI _ _ J1 J2 Et). }
      subst v2. exact (Ix _ _ _ Gv1 Gv2).
  - constructor.
  - cbn [skel_f] in Sk. injection Sk as Sk. cbn [pat_f map rename_occ] in P. injection P as P. cbn [pat_f] in Inc.
    apply (IH b' ((x, k) :: env) ((x', k) :: env') (S k) Sk P).
    + intros o Ho. apply Inc. right. exact Ho.
    + cbn [map snd]. constructor; [|exact N]. intros Hin. apply in_map_iff in Hin. destruct Hin as ([y j] & Ej & Hin).
      cbn [snd] in Ej. subst j. apply Bd in Hin. lia.
    + intros y j [Ey|Hy]; [inversion Ey; lia|]. apply Bd in Hy. lia.
Qed.

Lemma child_inj_args : forall theta PAT,
  (forall v1 v2, In (Fr v1) PAT -> In (Fr v2) PAT -> theta v1 = theta v2 -> v1 = v2) ->
  forall l l' k, map skel_f l = map skel_f l' -> map (rename_occ theta) (pat_args k l) = pat_args k l' ->
  incl (pat_args k l) PAT ->
  Forall2 child_inj (flat_map app_occ_f l) (flat_map app_occ_f l').
Proof.
  intros theta PAT TI.
  induction l as [|a t IH]; intros l' k Sk P Inc; destruct l' as [|a' t']; try discriminate; cbn [flat_map]; [constructor|].
  cbn [map] in Sk. injection Sk as Sa St. cbn [pat_args] in P, Inc.
  assert (Nb : nbind_f a = nbind_f a') by (rewrite <- (nbind_skel a), Sa, nbind_skel; reflexivity).
  rewrite Nb in P. rewrite map_app in P. apply app_eq_len in P; [|rewrite map_length; apply pat_f_len; exact Sa].
  destruct P as [Pa Pt].
  apply Forall2_app.
  - apply (child_inj_f theta PAT TI a a' [] [] k Sa Pa); [|constructor|intros y i []].
    intros o Ho. apply Inc. apply in_or_app. left. exact Ho.
  - apply (IH t' (k + nbind_f a)%nat St); [rewrite Nb; exact Pt|].
    intros o Ho. apply Inc. apply in_or_app. right. exact Ho.
Qed.

Lemma child_inj_node : forall theta n n', equiv_by theta n n' -> Forall2 child_inj (app_occ n) (app_occ n').
Proof.
  intros theta n n' (Sk & I & P). unfold skel in Sk. injection Sk as _ Sk. unfold pattern in P.
  apply (child_inj_args theta (pattern n)) with (k := O); [|exact Sk|exact P|apply incl_refl].
  intros v1 v2 H1 H2. apply I; rewrite <- frees_pattern; apply frees_in; assumption.
Qed.

Lemma covers_child_inj : forall s l l', Forall (covers s) l -> Forall2 child_inj l l' -> Forall (covers s) l'.
Proof.
  intros s l l' F H. induction H as [|x x' l l' (Ea & Ek & Ij) H IH]; [constructor|].
  inversion F as [|x0 l0 (c & Hc & Ix & Sx) Fl]; subst. constructor; [|apply IH; exact Fl].
  exists c. rewrite Ea. split; [exact Hc|]. split; [exact (Ij Ix)|].
  intros k Hk. apply get_in_keys. rewrite Ek. apply get_in_keys. apply Sx. exact Hk.
Qed.

Lemma covers_child_ext : forall s l l', Forall (covers s) l -> Forall2 child_ext l l' -> Forall (covers s) l'.
Proof.
  intros s l l' F H. induction H as [|x x' l l' (Ea & Kp & Ij) H IH]; [constructor|].
  inversion F as [|x0 l0 (c & Hc & Ix & Sx) Fl]; subst. constructor; [|apply IH; exact Fl].
  exists c. rewrite Ea. split; [exact Hc|]. split; [exact Ij|].
  intros k Hk. pose proof (Sx k Hk) as T. destruct (get (am x) k) as [v|] eqn:G; [|congruence].
  rewrite (Kp _ _ G). discriminate.
Qed.

(* value vectors whose slots of residue 1 are below the counter *)
Definition vbv (c : N) (m : slotmap) : Prop := forall v, In v (values_vec m) -> v mod 4 <> 1 \/ v < c.

Lemma vbv_vbound : forall c m, vbv c m -> vbound c m.
Proof. intros c m H k v G. apply H. eapply vals_in_vec; eauto. Qed.

Lemma vbv_mono : forall c c' m, c <= c' -> vbv c m -> vbv c' m.
Proof. intros c c' m L H v Hv. destruct (H v Hv); [left; assumption|right; lia]. Qed.

Lemma insert_vals : forall m l r v, In v (values_vec (insert l r m)) -> v = r \/ In v (values_vec m).
Proof.
  unfold values_vec. induction m as [|[k w] t IH]; intros l r v H; cbn [insert] in H.
  - cbn [map snd] in H. destruct H as [<-|[]]. left. reflexivity.
  - destruct (l <? k).
    + cbn [map snd] in H |- *. destruct H as [<-|H]; [left; reflexivity|right; exact H].
    + destruct (l =? k).
      * cbn [map snd] in H |- *. destruct H as [<-|H]; [left; reflexivity|right; right; exact H].
      * cbn [map snd] in H |- *. destruct H as [<-|H]; [right; left; reflexivity|].
        destruct (IH _ _ _ H) as [A|A]; [left; exact A|right; right; exact A].
Qed.

Lemma fill_fresh_vbv : forall l m s m' s', fill_fresh l m s = Ok (m', s') -> vbv (ectr s) m ->
  vbv (ectr s') m' /\ ectr s <= ectr s'.
Proof.
  induction l as [|x t IH]; intros m s m' s' H B; cbn [fill_fresh] in H.
  - inversion H; subst. split; [exact B|lia].
  - destruct (contains_key m x); [exact (IH _ _ _ _ H B)|].
    apply mbind_inv in H. destruct H as (f & s1 & H1 & H). inversion H1; subst f s1; clear H1.
    destruct (IH _ _ _ _ H) as [A L].
    + intros v Hv. cbn [Model.ctr set_ctr]. apply insert_vals in Hv. destruct Hv as [->|Hv]; [right; lia|].
      destruct (B v Hv); [left; assumption|right; lia].
    + split; [exact A|]. cbn [Model.ctr set_ctr] in L. lia.
Qed.

Lemma mapM_synify_vbv : forall l s r s', mapM synify_app_id l s = Ok (r, s') ->
  Forall (fun x => vbv (ectr s) (am x)) l -> Forall (fun x => vbv (ectr s') (am x)) r /\ ectr s <= ectr s'.
Proof.
  induction l as [|a t IH]; intros s r s' H F; cbn [mapM] in H.
  - inversion H; subst. split; [constructor|lia].
  - apply mbind_inv in H. destruct H as (a' & s1 & H1 & H).
    apply mbind_inv in H. destruct H as (r' & s2 & H2 & H). inversion H; subst r s2; clear H.
    inversion F as [|a0 t0 Ba Ft]; subst.
    unfold synify_app_id in H1. apply bind_reads_inv in H1. destruct H1 as (ss & _ & H1).
    apply mbind_inv in H1. destruct H1 as (m' & s1' & H1 & H1'). inversion H1'; subst a' s1'; clear H1'.
    change (fill_fresh ss (am a) s = Ok (m', s1)) in H1.
    destruct (fill_fresh_vbv _ _ _ _ _ H1 Ba) as [Bm L1].
    destruct (IH _ _ _ H2) as [Br L2].
    { revert Ft. apply Forall_impl. intros b Bb. exact (vbv_mono _ _ _ L1 Bb). }
    split; [|lia]. constructor; [cbn [am]; exact (vbv_mono _ _ _ L2 Bm)|exact Br].
Qed.

(* the values of the map returned by a lookup hit are public slots of the node
   (= SoundRebuild.lookup_hit_vals, repeated here because that file comes later) *)
Lemma lookup_hit_vals' : forall s p sh nb a, wshape p = Ok (sh, nb) -> lookup_internal s (sh, nb) = Ok (Some a) ->
  forall v, In v (values_vec (am a)) -> In v (pub_occ p).
Proof.
  intros s p sh nb a Hw H v Hv. unfold lookup_internal in H.
  destruct (na_get (hashcons s) sh) as [i|]; [|discriminate].
  destruct (get_class s i) as [c|] eqn:Hc; cbn [bind] in H; [|discriminate].
  destruct (na_get (c_nodes c) sh) as [[cn_bij src]|] eqn:G; [|discriminate]. inversion H; subst a; clear H. cbn [am] in Hv.
  destruct (shape_bij_props _ _ _ Hw) as (Wn & _ & Pn).
  assert (Hv2 : In v (values_vec (inv cn_bij ** nb))).
  { unfold values_vec in *. apply in_map_iff in Hv. destruct Hv as (kv & <- & Hin). apply filter_In in Hin.
    apply in_map. tauto. }
  apply (compose_vals_incl _ _ (inverse_wf cn_bij)) in Hv2.
  unfold values_vec in Hv2. apply in_map_iff in Hv2. destruct Hv2 as ([k v'] & Ev & Hin). cbn [snd] in Ev. subst v'.
  apply Pn. exists k. apply in_get; assumption.
Qed.

(* (d) and the bound on the values of the returned handle.  Extra premise with respect to the
   statement asked for: the public slots of p that have residue 1 are below the counter
   (otherwise the fresh binder names chosen by refresh_private could capture a public slot);
   syn_wf and mod4_ok are not needed, only ctr mod 4 = 1 *)
Lemma add_internal_cov_vb : forall t p s a s', inv3 s -> syn_cov s -> ectr s mod 4 = 1 -> wshape p = Ok t ->
  Forall (covers s) (app_occ p) -> (forall x, In x (pub_occ p) -> x mod 4 <> 1 \/ x < ectr s) ->
  add_internal t s = Ok (a, s') -> syn_cov s' /\ vbv (ectr s') (am a).
Proof.
  intros [sh_t bij_t] p s a s' I3 SC Cm Hw Cv Bp H.
  destruct (lookup_internal s (sh_t, bij_t)) as [[hit|]|e] eqn:Hlk.
  - unfold add_internal, mbind, reads in H. rewrite Hlk in H. inversion H; subst. split; [exact SC|].
    intros v Hv. apply Bp. exact (lookup_hit_vals' _ _ _ _ _ Hw Hlk v Hv).
  - destruct (add_internal_walk _ _ _ _ I3 Hlk H) as (en1 & c1 & en2 & en3 & s3 & syn & RP & H2 & H3 & H4 & Sm & I1 & E01 & I3' & E13 & Hb).
    cbv zeta in *. cbn [fst snd] in RP, H2.
    destruct (mk_singleton_walk _ _ _ _ I3' Hb H4) as (f2o & c2 & synf & s3a & sh & bij & s4 & s5 & BF & ASF & AL & Hsh & RA & PI & RB & Ea & I2 & I3a & E23 & I4 & E34 & I5 & E45 & I6 & E56).
    cbv zeta in *.
    pose proof (cls_synify_enode _ _ _ _ H3) as [C13 _]. cbn [classes set_ctr] in C13.
    pose proof (alloc_eclass_exact _ _ _ _ _ AL) as (_ & _ & C & _).
    set (s2 := set_ctr (set_ctr s3 c2) c2) in *.
    assert (C2 : classes s2 = classes s) by (unfold s2; cbn [classes set_ctr]; exact C13).
    (* p and en2 *)
    destruct (pre_node_equiv p sh_t bij_t (ectr s) en1 c1 en2 Hw RP H2 Cm Bp) as [Q1 Bi2].
    pose proof (covers_child_inj s _ _ Cv (child_inj_node _ _ _ Q1)) as Cv2.
    destruct (refresh_private_spec _ _ _ _ RP) as (_ & Bi1 & _).
    pose proof (refresh_private_step sh_t (ectr s)) as St1. rewrite RP in St1. cbn [snd] in St1.
    pose proof (ctr_step_le _ _ St1) as Le1.
    assert (All2 : forall v, In v (all_occ en2) -> v mod 4 <> 1 \/ v < c1).
    { intros v Hall.
      apply (Permutation.Permutation_in _ (occ_partition en2)) in Hall. apply in_app_or in Hall. destruct Hall as [Hp|Hp].
      - rewrite (equiv_pub _ _ _ (proj2 (proj2 Q1))), map_id in Hp. destruct (Bp _ Hp); [left; assumption|right; lia].
      - apply prv_binders in Hp. rewrite Bi2 in Hp. pose proof (proj1 (Forall_forall _ _) Bi1 v Hp) as T. cbv beta in T. right. lia. }
    assert (Vv2 : Forall (fun x2 => vbv (ectr (set_ctr s c1)) (am x2)) (app_occ en2)).
    { apply Forall_forall. intros x2 Hx2 v Hv. cbn [Model.ctr set_ctr]. apply All2. exact (vals_all_occ en2 x2 v Hx2 Hv). }
    assert (Vb2 : Forall (fun x2 => injective (am x2) /\ vbound (ectr (set_ctr s c1)) (am x2)) (app_occ en2)).
    { apply Forall_forall. intros x2 Hx2. destruct (proj1 (Forall_forall _ _) Cv2 x2 Hx2) as (c & _ & Ix2 & _).
      split; [exact Ix2|]. apply vbv_vbound. exact (proj1 (Forall_forall _ _) Vv2 x2 Hx2). }
    (* en2 and en3 *)
    assert (Cm1 : ectr (set_ctr s c1) mod 4 = 1) by (cbn [Model.ctr set_ctr]; rewrite (ctr_step_mod _ _ St1); exact Cm).
    assert (X3 : Forall (covers s) (app_occ en3) /\ (forall v, In v (pub_occ en3) -> v mod 4 <> 1 \/ v < ectr s3)).
    { unfold synify_enode in H3. apply mbind_inv in H3. destruct H3 as (l & s1 & H3 & H3'). inversion H3'; subst en3 s1; clear H3'.
      destruct (mapM_synify_vbv _ _ _ _ H3 Vv2) as [Vl L13]. cbn [Model.ctr set_ctr] in L13. split.
      - rewrite app_occ_set_apps by (eapply mapM_length; eauto).
        exact (covers_child_ext s _ _ Cv2 (mapM_synify_rel _ _ _ _ H3 Cm1 Vb2)).
      - intros v Hv. unfold pub_occ, set_apps in Hv. cbn [nargs] in Hv. apply set_apps_args_pub in Hv.
        destruct Hv as [Hv|(y & Hy & Hv)].
        + destruct (All2 v Hv); [left; assumption|right; lia].
        + exact (proj1 (Forall_forall _ _) Vl y Hy v Hv). }
    destruct X3 as [Cv3 P3].
    (* en3 and the syntactic node *)
    destruct (fresh_rename_equiv en3 (ectr s3) f2o c2 synf Hb BF ASF) as [Q3 _].
    pose proof (covers_child_inj s _ _ Cv3 (child_inj_node _ _ _ Q3)) as Cvf.
    split.
    + (* the new class *)
      assert (SC3a : syn_cov s3a).
      { eapply syn_cov_alloc; [exact C|exact (syn_cov_classes s s2 C2 SC)|]. cbn [c_syn].
        revert Cvf. apply Forall_impl. intros x. apply covers_classes. exact C2. }
      apply (syn_cov_ext s3a); [|exact SC3a]. eapply ext_trans; [exact E34|]. eapply ext_trans; eauto.
    + (* the handle *)
      assert (L3 : ectr s3 <= ectr s').
      { pose proof (bijection_from_fresh_to_step (slots en3) (ectr s3)) as St. rewrite BF in St. cbn [snd] in St. apply ctr_step_le in St.
        destruct E23 as [A1 _]. destruct E34 as [A2 _]. destruct E45 as [A3 _]. destruct E56 as [A4 _].
        unfold s2 in A1. cbn [Model.ctr set_ctr] in A1. lia. }
      destruct (bff_props _ _ _ _ (slots_sorted en3) BF) as [Wf2o If2o].
      pose proof (proj2 (is_bijection_injective f2o Wf2o) If2o) as Bf2o.
      unfold semify_app_id in Sm. destruct (class_slots s' (aid syn)) as [sl|]; [|discriminate]. cbn [bind] in Sm.
      inversion Sm; subst a; clear Sm. rewrite Ea. cbn [aid am].
      intros v Hv. unfold values_vec in Hv. apply in_map_iff in Hv. destruct Hv as ([k v'] & Ev & Hin). cbn [snd] in Ev. subst v'.
      apply filter_In in Hin. destruct Hin as [Hin _]. apply (in_get _ _ _ Wf2o) in Hin.
      apply (get_inverse f2o v k Wf2o Bf2o) in Hin.
      destruct (fresh_spec_keys _ _ _ _ _ _ (slots_sorted en3) BF Hin) as (Hs & _).
      apply slots_spec in Hs. destruct (P3 v Hs); [left; assumption|right; lia].
  - unfold add_internal, mbind, reads in H. rewrite Hlk in H. discriminate.
Qed.

Theorem syn_cov_add_internal : forall t p s a s', inv3 s -> syn_cov s -> ectr s mod 4 = 1 -> wshape p = Ok t ->
  Forall (covers s) (app_occ p) -> (forall x, In x (pub_occ p) -> x mod 4 <> 1 \/ x < ectr s) ->
  add_internal t s = Ok (a, s') -> syn_cov s'.
Proof. intros t p s a s' I SC Cm Hw Cv Bp H. exact (proj1 (add_internal_cov_vb t p s a s' I SC Cm Hw Cv Bp H)). Qed.

(* ====================================================================== *)
(* 6. (e) syn_cov for eg_add, add_expr and every history                    *)
(* ====================================================================== *)

Theorem syn_cov_eg_add : forall n s a s', inv3 s -> syn_cov s -> ectr s mod 4 = 1 -> Forall (covers s) (app_occ n) ->
  (forall x, In x (all_occ n) -> x mod 4 <> 1 \/ x < ectr s) ->
  eg_add n s = Ok (a, s') -> syn_cov s' /\ vbv (ectr s') (am a).
Proof.
  intros n s a s' I SC Cm Cv Bn H. unfold eg_add in H. apply bind_reads_inv in H. destruct H as (t & Ht & H).
  unfold shape in Ht. destruct (pre_shape s n) as [p|] eqn:P; cbn [bind] in Ht; [|discriminate].
  apply (add_internal_cov_vb t p s a s' I SC Cm Ht (pre_shape_covers s n p I Cv P)); [|exact H].
  intros x Hx. apply Bn. apply (pre_shape_all_occ s n p P). apply pub_occ_all_occ. exact Hx.
Qed.

Lemma syn_cov_add_expr_k : forall k t s a s', (rsize t < k)%nat -> inv3 s -> syn_cov s -> ectr s mod 4 = 1 ->
  rt_ok t -> rt_wf t -> add_expr t s = Ok (a, s') -> syn_cov s' /\ vbv (ectr s') (am a).
Proof.
  induction k as [|k IHk]; intros t s a s' Hk I SC Cm OK WF H; [lia|].
  destruct t as [n ch]. rewrite add_expr_unfold in H.
  apply rt_ok_iff in OK. destruct OK as [U Co]. apply rt_wf_iff in WF. destruct WF as [Ln Cw].
  apply mbind_inv in H. destruct H as (l & s1 & Hgo & H).
  assert (G : forall ch0, (forall c, In c ch0 -> (rsize c < k)%nat) -> Forall rt_ok ch0 -> Forall rt_wf ch0 ->
              forall s0 l0 s2, inv3 s0 -> syn_cov s0 -> ectr s0 mod 4 = 1 ->
              add_children ch0 s0 = Ok (l0, s2) ->
              inv3 s2 /\ ext0 s0 s2 /\ ectr s2 mod 4 = 1 /\ syn_cov s2 /\ Forall (covers s2) l0 /\
              Forall (fun x => vbv (ectr s2) (am x)) l0 /\ List.length l0 = List.length ch0).
  { clear -IHk. induction ch0 as [|c r IHr]; intros Hs Co Cw s0 l0 s2 I0 SC0 M0 H; cbn [add_children] in H.
    - inversion H; subst. split; [exact I0|]. split; [apply ext0_refl|]. split; [exact M0|]. split; [exact SC0|].
      split; [constructor|]. split; [constructor|reflexivity].
    - inversion Co as [|? ? Oc Or]; subst. inversion Cw as [|? ? Wc Wr]; subst.
      apply mbind_inv in H. destruct H as (a0 & s1 & H1 & H).
      destruct (IHk c s0 a0 s1 (Hs c (or_introl eq_refl)) I0 SC0 M0 Oc Wc H1) as (SC1 & V1).
      pose proof (proj2 (add_expr_ctr_grows c s0 a0 s1 H1) M0) as M1.
      destruct (add_expr_covers c s0 a0 s1 I0 H1) as (I1 & X1 & C1).
      apply mbind_inv in H. destruct H as (r' & s3 & H3 & H). inversion H; subst l0 s3; clear H.
      destruct (IHr (fun c' Hc' => Hs c' (or_intror Hc')) Or Wr s1 r' s2 I1 SC1 M1 H3) as (I2 & X2 & M2 & SC2 & C2 & V2 & L2).
      split; [exact I2|]. split; [eapply ext0_trans; eauto|]. split; [exact M2|]. split; [exact SC2|].
      split; [constructor; [eapply covers_ext0; eauto|exact C2]|].
      split; [|cbn [List.length]; rewrite L2; reflexivity].
      constructor; [|exact V2]. apply (vbv_mono (ectr s1)); [exact (proj1 X2)|exact V1]. }
  assert (Hsz : forall c, In c ch -> (rsize c < k)%nat).
  { intros c Hc. pose proof (rsize_child n ch c Hc). lia. }
  destruct (G ch Hsz Co Cw s l s1 I SC Cm Hgo) as (I1 & X1 & M1 & SC1 & C1 & V1 & Ll).
  destruct (Nat.ltb _ _); [discriminate|].
  assert (Lo : List.length l = List.length (app_occ n)) by lia.
  assert (Ao : app_occ (set_apps n l) = l) by (apply app_occ_set_apps; exact Lo).
  apply (syn_cov_eg_add (set_apps n l) s1 a s' I1 SC1 M1); [rewrite Ao; exact C1| |exact H].
  intros x Hx. unfold all_occ, set_apps in Hx. cbn [nargs] in Hx.
  apply set_apps_args_all in Hx. destruct Hx as [Hx|(z & Hz & Hx)].
  - left. destruct (U x Hx) as [T|T]; lia.
  - exact (proj1 (Forall_forall _ _) V1 z Hz x Hx).
Qed.

Theorem syn_cov_add_expr : forall t s a s', inv3 s -> syn_cov s -> ectr s mod 4 = 1 -> rt_ok t -> rt_wf t ->
  add_expr t s = Ok (a, s') -> syn_cov s'.
Proof.
  intros t s a s' I SC Cm OK WF H.
  exact (proj1 (syn_cov_add_expr_k (S (rsize t)) t s a s' (Nat.lt_succ_diag_r _) I SC Cm OK WF H)).
Qed.

Lemma syn_cov_run_ops : forall terms, Forall rt_ok terms -> Forall rt_wf terms ->
  forall ops hs s hs' s', inv3 s -> Forall (covers s) hs -> syn_cov s -> ectr s mod 4 = 1 ->
  run_ops terms ops hs s = Ok (hs', s') -> syn_cov s'.
Proof.
  intros terms TO TW. induction ops as [|o ops IH]; intros hs s hs' s' I Cv SC Cm H; cbn [run_ops] in H.
  - inversion H; subst. exact SC.
  - destruct o as [k|i j just].
    + destruct (nth_opt terms k) as [tm|] eqn:Ek; [|discriminate].
      apply mbind_inv in H. destruct H as (a & s1 & Ea & H).
      destruct (add_expr_covers tm s a s1 I Ea) as (I1 & X & Ca).
      assert (TOk : rt_ok tm). { apply (proj1 (Forall_forall _ _) TO). eapply nth_opt_In; eauto. }
      assert (TWf : rt_wf tm). { apply (proj1 (Forall_forall _ _) TW). eapply nth_opt_In; eauto. }
      pose proof (syn_cov_add_expr tm s a s1 I SC Cm TOk TWf Ea) as SC1.
      pose proof (proj2 (add_expr_ctr_grows tm s a s1 Ea) Cm) as Cm1.
      refine (IH _ _ _ _ I1 _ SC1 Cm1 H).
      apply Forall_app. split; [|constructor; [exact Ca|constructor]].
      revert Cv. apply Forall_impl. intros x. apply covers_ext0. exact X.
    + destruct (nth_opt hs i) as [a|] eqn:Ha; [|discriminate]. destruct (nth_opt hs j) as [b|] eqn:Hb; [|discriminate].
      apply mbind_inv in H. destruct H as (u & s1 & Eu & H).
      assert (Ca : covers s a) by (apply (proj1 (Forall_forall _ _) Cv); eapply nth_opt_In; eauto).
      assert (Cb : covers s b) by (apply (proj1 (Forall_forall _ _) Cv); eapply nth_opt_In; eauto).
      destruct (eg_union_inv3 a b s u s1 I Ca Cb Eu) as (I1 & X).
      pose proof (proj2 (eg_union_ctr_grows a b s u s1 Eu) Cm) as Cm1.
      refine (IH _ _ _ _ I1 _ (syn_cov_ext _ _ X SC) Cm1 H).
      revert Cv. apply Forall_impl. intros x. apply covers_ext. exact X.
Qed.

(* extra premises with respect to the statement asked for: the user terms are rt_ok (user slot
   names have residue 0 or 2) and rt_wf (one child per applied-id position), as in equality_sound *)
Theorem reachable_syn_cov : forall terms ops hs s, Forall rt_ok terms -> Forall rt_wf terms ->
  run_ops terms ops [] empty_egraph = Ok (hs, s) -> syn_cov s.
Proof.
  intros terms ops hs s TO TW H.
  exact (syn_cov_run_ops terms TO TW ops [] empty_egraph hs s inv3_empty (Forall_nil _) syn_cov_empty eq_refl H).
Qed.

(* the premise of SoundPending.pc_nsound, from the invariant *)
Lemma syn_cov_Forall : forall s i c, syn_cov s -> get_class s i = Ok c -> Forall (covers s) (app_occ (c_syn c)).
Proof. intros s i c H Hc. apply Forall_forall. intros a Ha. exact (H i c a Hc Ha). Qed.

Corollary pc_nsound_cov : forall E s src c pc, inv3 s -> syn_wf s -> Sound E s -> syn_cov s -> get_class s src = Ok c ->
  pc_from_src_id s src = Ok pc -> nsound E s (snd pc) (fst pc).
Proof. intros E s src c pc I W S SC Hc P. exact (pc_nsound E s src c pc I W S Hc (syn_cov_Forall s src c SC Hc) P). Qed.

(* ====================================================================== *)
(* summary                                                                 *)
(* ======================================================================
   PROVED, closed under the global context:
   - nsound_ren, nsound_equiv: nsound is kept when the node and the values of the invocation are
     renamed by the same (injective on the slots of the node) renaming.
   - link_rename_proved : forall E, link_rename_m4 E, where link_rename_m4 is `link_rename` of
     SoundPending.v with the extra premise `mod4_ok sB` (SoundUnion.reachable_mod4).  No other
     premise was added (stored_ok is not needed: shape_idempotent gives wshape sh' = Ok (sh', _)).
   - syn_cov: syn_cov_empty (a), syn_cov_ext (b), syn_cov_eg_union / _handle_pending / _rebuild (c),
     syn_cov_add_internal (d), syn_cov_eg_add, syn_cov_add_expr, reachable_syn_cov (e);
     add_internal_cov_vb also bounds the values of the returned handle (`vbv`).
     Extra premises: (d) needs `forall x, In x (pub_occ p) -> x mod 4 <> 1 \/ x < ctr s` (no capture by
     the fresh binder names of refresh_private) and only ctr s mod 4 = 1 instead of mod4_ok; syn_wf is
     not needed.  (e) needs Forall rt_ok terms and Forall rt_wf terms (as equality_sound does).
   - syn_covb / syn_covb_sound and the Example on the six histories of AddCoversFacts.v.
   - pc_nsound_cov: pc_nsound with its covering premise discharged by syn_cov.
   CONDITIONAL (Section Readd: H_shrink, HSh_red of SoundPending.v; H_ui is listed but unused):
   - HS_readd_m4 : spec_HS_readd_m4 = spec_HS_readd with the extra premises
     `Forall (covers s) (app_occ nd)` and `mod4_ok sB`. *)

Print Assumptions nsound_equiv.
Print Assumptions link_rename_proved.
Print Assumptions syn_cov_empty.
Print Assumptions syn_cov_ext.
Print Assumptions syn_cov_eg_union.
Print Assumptions syn_cov_handle_pending.
Print Assumptions syn_cov_rebuild.
Print Assumptions syn_covb_sound.
Print Assumptions syn_cov_histories_checked.
Print Assumptions add_internal_cov_vb.
Print Assumptions syn_cov_add_internal.
Print Assumptions syn_cov_eg_add.
Print Assumptions syn_cov_add_expr.
Print Assumptions reachable_syn_cov.
Print Assumptions pc_nsound_cov.
