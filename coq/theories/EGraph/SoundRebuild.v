(* EGraph/SoundRebuild.v — C01, stages 2 and 4 of the plan of SoundFacts.v: rebuild, insertion
   and union keep the soundness invariant; the end-to-end theorem `equality_sound`, conditional on
   four semantic facts about handle_pending only (`spec_HSh_red`, `spec_HC_sim`, `spec_HD_sim`,
   `spec_HS_readd` of SoundPending.v).  See the summary at the end of the file. *)
From SE Require Import Slots.SlotMapFacts Group.GroupSound Lang.LangFacts Lang.ShapeFacts Lang.RenameFacts
  EGraph.Model EGraph.ModelFacts EGraph.ModelMachine EGraph.UnionFindFacts EGraph.InvariantFacts
  EGraph.UnionInvariantFacts EGraph.AddCoversFacts EGraph.MonotoneFacts EGraph.SoundFacts EGraph.SoundUnion EGraph.SoundSyn EGraph.SoundNode EGraph.SoundStruct EGraph.NodePass EGraph.SoundBase EGraph.SoundAddNew EGraph.SoundVals EGraph.SoundAddExpr EGraph.SoundPending.
From SE Require Import Sem.Deriv Sem.DerivFacts Sem.AlgebraFacts Sem.EgMachine Explain.CheckerFacts.
Require Import ZArith Lia ZifyBool ZifyN ZifyNat.
Ltac Zify.zify_post_hook ::= Z.div_mod_to_equations.

Local Notation "a ** b" := (compose_partial a b) (at level 40, left associativity).
Local Notation inv := inverse_nocheck.
Local Notation ectr := Model.ctr.

(* the values of the map returned by a lookup hit are public slots of the node *)
Lemma lookup_hit_vals : forall s p sh nb a, wshape p = Ok (sh, nb) -> lookup_internal s (sh, nb) = Ok (Some a) ->
  forall v, In v (values_vec (am a)) -> In v (pub_occ p).
Proof.
  intros s p sh nb a Hw H v Hv. unfold lookup_internal in H.
  destruct (na_get (hashcons s) sh) as [i|]; [|discriminate].
  destruct (get_class s i) as [c|] eqn:Hc; cbn [bind] in H; [|discriminate].
  destruct (na_get (c_nodes c) sh) as [[cn_bij src]|] eqn:G; [|discriminate]. inversion H; subst a; clear H. cbn [am] in Hv.
  destruct (shape_bij_props _ _ _ Hw) as (Wn & _ & Pn).
  assert (Hv2 : In v (values_vec (inv cn_bij ** nb))).
  { unfold values_vec in *. apply in_map_iff in Hv. destruct Hv as (kv & <- & Hin). apply filter_In in Hin.
    apply in_map. tauto. }
  apply (compose_vals_incl _ _ (inverse_wf cn_bij)) in Hv2.
  unfold values_vec in Hv2. apply in_map_iff in Hv2. destruct Hv2 as ([k v'] & Ev & Hin). cbn [snd] in Ev. subst v'.
  apply Pn. exists k. apply in_get; assumption.
Qed.

(* ====================================================================== *)
(* the interface of shrink_slots, DISCHARGED (SoundUnion.Sound_shrink_slots_closed + redund_of_sim) *)
(* ====================================================================== *)

Lemma restrict_to_get : forall cap a y v, wf (am a) -> get (am (restrict_to cap a)) y = Some v ->
  get (am a) y = Some v /\ In v cap.
Proof.
  intros cap a y v W G. unfold restrict_to in G. cbn [am] in G. apply get_in in G. apply filter_In in G.
  destruct G as [Hin Hm]. cbn [snd] in Hm. split; [apply in_get; assumption|apply sset_mem_in; exact Hm].
Qed.

(* from ~~ from restricted to cap  ==>  the slots of from mapped outside cap are redundant *)
Theorem H_shrink_closed : spec_H_shrink.
Proof.
  intros E fuel from cap s x s' I3 W M S L SIM H.
  pose proof (proj1 (proj1 I3)) as I. destruct (canon_wf_inj _ _ (proj2 L)) as [Wf If].
  destruct (canon_skeys s from I (proj2 L)) as [_ Kf].
  apply (Sound_shrink_slots_closed E fuel from cap s x s' I3 M S L); [|exact H].
  apply (redund_of_sim E s from (restrict_to cap from) cap SIM If).
  - intros k1 k2 v G1 G2. destruct (restrict_to_get _ _ _ _ Wf G1) as [G1' _].
    destruct (restrict_to_get _ _ _ _ Wf G2) as [G2' _]. eapply If; eauto.
  - exact Kf.
  - intros x0 y v Gx Gy. exact (proj2 (restrict_to_get _ _ _ _ Wf Gy)).
Qed.

(* the facts about two further (abstract) structural run invariants SC, KC that Section Stages needs:
   SC is monotone along ext steps, KC depends on the classes only and is kept by handle_pending and by
   the union core, both hold in the empty e-graph and in the state right before the rebuild of an
   insertion.  Instances: SC = KC = fun _ => True (`xinv_trivial` below; used for the final theorems),
   or SC = "children of syntactic nodes are covered", KC = "children of stored nodes are covered" *)
Record xinv_ok (SC KC : egraph -> Prop) : Prop := {
  xi_SC_ext : forall s s', ext s s' -> SC s -> SC s';
  xi_KC_cuR : forall s s', cuR s s' -> KC s -> KC s';
  xi_SC_empty : SC empty_egraph;
  xi_KC_empty : KC empty_egraph;
  xi_KC_hp : forall sh ty s x s', inv3 s -> syn_wf s -> mod4_ok s -> SC s -> KC s ->
     handle_pending sh ty s = Ok (x, s') -> KC s';
  xi_KC_uint : forall l r s b s', inv3 s -> syn_wf s -> mod4_ok s -> covers s l -> covers s r -> SC s -> KC s ->
     uint l r s = Ok (b, s') -> KC s';
  xi_new : forall t p s a s' s5, inv3 s -> syn_wf s -> mod4_ok s -> stored2 s -> kids_exist s -> SC s -> KC s ->
     ectr s mod 4 = 1 -> wshape p = Ok t -> lookup_internal s t = Ok None ->
     Forall (covers s) (app_occ p) -> Forall (fun x => wf (am x)) (app_occ p) ->
     (forall x, In x (pub_occ p) -> x mod 4 <> 1 \/ x < ectr s) ->
     add_internal t s = Ok (a, s') -> new_walk t s s5 -> SC s5 /\ KC s5 }.

Lemma xinv_trivial : xinv_ok (fun _ => True) (fun _ => True).
Proof. constructor; auto. Qed.

Section Stages.
  Variable SC : egraph -> Prop.
  Variable KC : egraph -> Prop.
  Hypothesis XI : xinv_ok SC KC.

  (* ASSUMED (semantic, about handle_pending; statements: `spec_*_x` of SoundPending.v, i.e. the
     `spec_*` statements with the structural invariants mod4_ok, SC (and KC at the start of
     handle_pending) of the states as extra premises): the arguments of the shrink / the two unions
     issued by handle_pending are related, and the re-added node denotes its new class *)
  Hypothesis HSh_red : spec_HSh_red_x SC.
  Hypothesis HC_sim : spec_HC_sim_y SC KC.
  Hypothesis HD_sim : spec_HD_sim_x SC.
  Hypothesis HS_readd : spec_HS_readd_x SC KC.

  (* ------------------------------------------------------------------ *)
  (* (a) rebuild *)

  Lemma Sound_handle_pending : forall E sh ty s x s', inv3 s -> syn_wf s -> mod4_ok s -> SC s -> KC s -> Sound E s ->
    handle_pending sh ty s = Ok (x, s') -> Sound E s'.
  Proof. exact (SoundPending.Sound_handle_pending SC KC (xi_SC_ext _ _ XI) ui_spec_sound_closed H_shrink_closed HSh_red HC_sim HD_sim HS_readd). Qed.

  Theorem Sound_rebuild : forall E fuel s x s', inv3 s -> syn_wf s -> mod4_ok s -> SC s /\ KC s -> Sound E s ->
    rebuild fuel s = Ok (x, s') -> Sound E s' /\ (SC s' /\ KC s').
  Proof.
    intros E. induction fuel as [|f IH]; intros s x s' I W M [Sc Kc] S H; [discriminate|]. rewrite rebuild_S in H.
    apply mbind_inv in H. destruct H as (p & s0 & Hp & H). inversion Hp; subst p s0; clear Hp.
    destruct (pending s) as [|[sh ty] rest]; [inversion H; subst; auto|].
    apply mbind_inv in H. destruct H as (u & s1 & H1 & H).
    destruct (s_modify_pend' (fun _ => rest) _ _ _ H1) as [A1 N1].
    destruct (semn_step3 _ _ A1 N1 I) as [I1 E1].
    assert (S1 : Sound E s1) by (inversion H1; apply Sound_set_pending; exact S).
    assert (M1 : mod4_ok s1) by (inversion H1; apply m4_set_pending; exact M).
    pose proof (syn_wf_ext _ _ E1 W) as W1.
    apply mbind_inv in H. destruct H as (u2 & s2 & H2 & H).
    destruct (inv3_handle_pending pre_shape_keeps_proved _ _ _ _ _ H2 I1) as [I2 E2].
    pose proof (xi_SC_ext _ _ XI _ _ E1 Sc) as Sc1.
    assert (Kc1 : KC s1) by (inversion H1; apply (xi_KC_cuR _ _ XI s); [split; reflexivity|exact Kc]).
    pose proof (Sound_handle_pending E _ _ _ _ _ I1 W1 M1 Sc1 Kc1 S1 H2) as S2.
    pose proof (xi_KC_hp _ _ XI _ _ _ _ _ I1 W1 M1 Sc1 Kc1 H2) as Kc2.
    exact (IH _ _ _ I2 (syn_wf_ext _ _ E2 W1) (m4_handle_pending _ _ _ _ _ M1 H2) (conj (xi_SC_ext _ _ XI _ _ E2 Sc1) Kc2) S2 H).
  Qed.

  (* ------------------------------------------------------------------ *)
  (* (b) insertion *)

  Lemma add_internal_hit : forall t s x a s', lookup_internal s t = Ok (Some x) -> add_internal t s = Ok (a, s') -> a = x /\ s' = s.
  Proof.
    intros t s x a s' L H. unfold add_internal in H. apply bind_reads_inv in H. destruct H as (lk & Hlk & H).
    rewrite L in Hlk. inversion Hlk; subst lk. inversion H; subst. auto.
  Qed.

  Lemma lookup_total : forall t s a s', add_internal t s = Ok (a, s') -> exists lk, lookup_internal s t = Ok lk.
  Proof. intros t s a s' H. unfold add_internal in H. apply bind_reads_inv in H. destruct H as (lk & Hlk & _). eauto. Qed.

  (* the values of the map returned by add_internal: public slots of the node, or fresh slots drawn
     from the counter *)
  Lemma add_internal_vals : forall t p s a s', inv3 s -> ectr s mod 4 = 1 -> wshape p = Ok t ->
    add_internal t s = Ok (a, s') -> forall v, In v (values_vec (am a)) -> In v (pub_occ p) \/ (v mod 4 = 1 /\ v < ectr s').
  Proof.
    intros t p s a s' I Cm Hw H v Hv. destruct (lookup_total _ _ _ _ H) as ([x|] & L).
    - destruct (add_internal_hit _ _ _ _ _ L H) as [-> ->]. left. destruct t as [sh nb]. eapply lookup_hit_vals; eauto.
    - exact (add_internal_new_vals t p s a s' I Cm Hw L H v Hv).
  Qed.

  (* the structural run invariants that are not part of inv3: the stored keys are weak shapes with
     total bijections (SoundStruct.v), the children of stored nodes exist (NodePass.v), slot names by
     residue (SoundUnion.v), and the two abstract invariants.  stored2 /\ mod4_ok gives stored_ok of
     SoundNode.v *)
  Definition RI0 (s : egraph) : Prop := stored2 s /\ kids_exist s /\ mod4_ok s.
  Definition RI (s : egraph) : Prop := RI0 s /\ (SC s /\ KC s).

  Lemma RI0_add_internal : forall t s a s', RI0 s -> add_internal t s = Ok (a, s') -> RI0 s'.
  Proof.
    intros t s a s' (SO & KE & M) H. split; [exact (pS_add_internal t s a s' H SO)|].
    split; [exact (kids_exist_add_internal t s a s' KE H)|exact (p4_add_internal t s a s' H M)].
  Qed.

  Lemma RI0_eg_union : forall l r s b s', RI0 s -> eg_union l r s = Ok (b, s') -> RI0 s'.
  Proof.
    intros l r s b s' (SO & KE & M) H. split; [exact (pS_eg_union l r s b s' H SO)|].
    split; [exact (kids_exist_eg_union l r s b s' KE H)|exact (p4_eg_union l r s b s' H M)].
  Qed.

  Lemma RI_empty : RI empty_egraph.
  Proof.
    split; [split; [exact stored2_empty|split; [exact kids_exist_empty|exact mod4_ok_empty]]|].
    split; [exact (xi_SC_empty _ _ XI)|exact (xi_KC_empty _ _ XI)].
  Qed.

  Theorem Sound_add_internal : forall E t p s a s', inv3 s -> syn_wf s -> Sound E s -> RI s -> ectr s mod 4 = 1 ->
    wshape p = Ok t -> Forall (covers s) (app_occ p) -> Forall (fun x => wf (am x)) (app_occ p) ->
    (forall x, In x (pub_occ p) -> x mod 4 <> 1 \/ x < ectr s) ->
    add_internal t s = Ok (a, s') ->
    Sound E s' /\ syn_wf s' /\ nsound E s' a p /\ RI s'.
  Proof.
    intros E t p s a s' I W S HR Cm Hw Cv Wfp Bp H. pose proof HR as ((SO & KE & M) & (Sc & Kc)).
    destruct (lookup_total _ _ _ _ H) as ([x|] & L).
    - destruct (add_internal_hit _ _ _ _ _ L H) as [-> ->]. split; [exact S|]. split; [exact W|]. split; [|exact HR].
      destruct t as [sh nb]. exact (nsound_lookup_hit E s p sh nb x I (stored_ok_of s SO M) S Hw L).
    - assert (HXP : forall s5, new_walk t s s5 -> SC s5 /\ KC s5).
      { intros s5 NW. exact (xi_new _ _ XI t p s a s' s5 I W M SO KE Sc Kc Cm Hw L Cv Wfp Bp H NW). }
      destruct (Sound_add_internal_new (fun z => SC z /\ KC z) Sound_rebuild E t p s a s' I W M S KE Cm HXP Hw L H) as [S' X'].
      split; [exact S'|].
      split; [exact (syn_wf_add_internal t p s a s' I W Hw H)|].
      split; [exact (nsound_add_internal_new (fun z => SC z /\ KC z) Sound_rebuild E t p s a s' I W M S KE Cm HXP Hw L H Cv Wfp Bp)|].
      split; [exact (RI0_add_internal t s a s' (proj1 HR) H)|exact X'].
  Qed.

  Theorem Sound_add_expr_all : forall E t s a s', inv3 s -> syn_wf s -> Sound E s -> RI s -> ectr s mod 4 = 1 ->
    rt_ok t -> rt_wf t -> add_expr t s = Ok (a, s') ->
    Sound E s' /\ handle_ok E s' a (canon0 t) /\ syn_wf s' /\ RI s'.
  Proof. exact (SoundAddExpr.Sound_add_expr RI Sound_add_internal add_internal_vals). Qed.

  (* ------------------------------------------------------------------ *)
  (* (c) union *)

  Theorem Sound_eg_union : forall E s l r tl tr b s', inv3 s -> syn_wf s -> mod4_ok s -> SC s /\ KC s -> Sound E s ->
    covers s l -> covers s r -> handle_ok E s l tl -> handle_ok E s r tr ->
    eg_union l r s = Ok (b, s') -> Sound (E ++ [(tl, tr)]) s' /\ (SC s' /\ KC s').
  Proof.
    intros E s l r tl tr b s' I W M [Sc Kc] S Cl Cr Ol Or H.
    pose proof (handle_sim E s l r tl tr W Cl Cr Ol Or) as SIM.
    assert (ME : forall e, In e E -> In e (E ++ [(tl, tr)])) by (intros e He; apply in_or_app; left; exact He).
    pose proof (Sound_mono _ _ _ ME S) as S'.
    unfold eg_union in H.
    apply mbind_inv in H. destruct H as (l1 & s1 & H1 & H).
    destruct (semn_step3 _ _ (s_synify_app_id _ _ _ _ H1) (n_synify_app_id _ _ _ _ H1) I) as [I1 E1].
    pose proof (cu_synify_app_id _ _ _ _ H1) as U1. pose proof (m4_synify_app_id _ _ _ _ M H1) as M1.
    apply mbind_inv in H. destruct H as (r1 & s2 & H2 & H).
    destruct (semn_step3 _ _ (s_synify_app_id _ _ _ _ H2) (n_synify_app_id _ _ _ _ H2) I1) as [I2 E2].
    pose proof (cu_synify_app_id _ _ _ _ H2) as U2. pose proof (m4_synify_app_id _ _ _ _ M1 H2) as M2.
    pose proof (cuR_trans _ _ _ U1 U2) as U02. pose proof (ext_trans _ _ _ E1 E2) as E02.
    apply mbind_inv in H. destruct H as (out & s3 & H3 & H).
    assert (SIM2 : sim (E ++ [(tl, tr)]) s2 l r) by (apply (sim_classes _ s s2 _ _ (proj1 U02)); exact SIM).
    pose proof (ui_spec_sound_closed _ ui_fuel l r s2 out s3 I2 M2 (Sound_cuR _ _ _ U02 S')
                  (covers_ext _ _ _ E02 Cl) (covers_ext _ _ _ E02 Cr) SIM2 H3) as S3.
    destruct (inv3_uint _ _ _ _ _ I2 (covers_ext _ _ _ E02 Cl) (covers_ext _ _ _ E02 Cr) H3) as [I3 E3].
    apply mbind_inv in H. destruct H as (u & s4 & H4 & H). inversion H; subst b s4; clear H.
    assert (W2 : syn_wf s2) by (apply (syn_wf_ext s); [exact E02|exact W]).
    pose proof (xi_SC_ext _ _ XI _ _ E02 Sc) as Sc2. pose proof (xi_KC_cuR _ _ XI _ _ U02 Kc) as Kc2.
    pose proof (xi_KC_uint _ _ XI l r s2 out s3 I2 W2 M2 (covers_ext _ _ _ E02 Cl) (covers_ext _ _ _ E02 Cr) Sc2 Kc2 H3) as Kc3.
    refine (Sound_rebuild _ _ _ _ _ I3 _ (m4_uint _ _ _ _ _ M2 H3) (conj (xi_SC_ext _ _ XI _ _ E3 Sc2) Kc3) S3 H4).
    apply (syn_wf_ext s2); [exact E3|exact W2].
  Qed.

  (* ------------------------------------------------------------------ *)
  (* (d) every history *)

  Definition Good2 (E : equations) (s : egraph) (hs : list appid) (hts : list cterm) : Prop :=
    Good E s hs hts /\ syn_wf s /\ RI s /\ ectr s mod 4 = 1.

  Lemma Good2_empty : forall E, Good2 E empty_egraph [] [].
  Proof.
    intros E. split; [|split; [exact syn_wf_empty|split; [exact RI_empty|reflexivity]]].
    split; [exact inv3_empty|]. split; [apply Sound_empty|]. split; constructor.
  Qed.

  (* one insertion *)
  Lemma Good2_add : forall E s hs hts tm a s1, Good2 E s hs hts -> rt_ok tm -> rt_wf tm ->
    add_expr tm s = Ok (a, s1) -> Good2 E s1 (hs ++ [a]) (hts ++ [canon0 tm]).
  Proof.
    intros E s hs hts tm a s1 ((I & S & Cv & F) & W & SO & Cm) TOk TWf Ea.
    destruct (add_expr_covers tm s a s1 I Ea) as (I1 & X & Ca).
    destruct (Sound_add_expr_all E tm s a s1 I W S SO Cm TOk TWf Ea) as (S1 & O1 & W1 & SO1).
    pose proof (proj2 (add_expr_ctr_grows tm s a s1 Ea) Cm) as Cm1.
    split; [|split; [exact W1|split; [exact SO1|exact Cm1]]]. split; [exact I1|]. split; [exact S1|]. split.
    - apply Forall_app. split; [|constructor; [exact Ca|constructor]].
      apply Forall_forall. intros x Hx. eapply covers_ext0; [exact X|]. apply (proj1 (Forall_forall _ _) Cv). exact Hx.
    - apply Forall2_app; [|constructor; [exact O1|constructor]].
      clear -F Cv X. induction F as [|x y l l' Hxy F IHF]; [constructor|]. inversion Cv; subst.
      constructor; [eapply handle_ok_ext0; eauto|apply IHF; assumption].
  Qed.

  Lemma Good2_run_ops : forall terms, Forall rt_ok terms -> Forall rt_wf terms ->
    forall ops hs s hts E hs' s', Good2 E s hs hts -> run_ops terms ops hs s = Ok (hs', s') ->
    Good2 (snd (ghost terms ops hts E)) s' hs' (fst (ghost terms ops hts E)).
  Proof.
    intros terms TO TW. induction ops as [|o ops IH]; intros hs s hts E hs' s' G H; cbn [run_ops ghost] in *.
    - inversion H; subst. exact G.
    - destruct o as [k|i j just].
      + destruct (nth_opt terms k) as [tm|] eqn:Ek; [|discriminate]. unfold mbind in H.
        destruct (add_expr tm s) as [[a s1]|] eqn:Ea; [|discriminate].
        assert (TOk : rt_ok tm). { apply (proj1 (Forall_forall _ _) TO). eapply nth_opt_In; eauto. }
        assert (TWf : rt_wf tm). { apply (proj1 (Forall_forall _ _) TW). eapply nth_opt_In; eauto. }
        exact (IH _ _ _ _ _ _ (Good2_add E s hs hts tm a s1 G TOk TWf Ea) H).
      + destruct G as ((I & S & Cv & F) & W & SO & Cm).
        destruct (nth_opt hs i) as [a|] eqn:Ha; [|discriminate]. destruct (nth_opt hs j) as [b|] eqn:Hb; [|discriminate].
        unfold mbind in H. destruct (eg_union a b s) as [[u s1]|] eqn:Eu; [|discriminate].
        destruct (Forall2_nth_opt _ _ _ _ _ F Ha) as (ta & -> & Oa).
        destruct (Forall2_nth_opt _ _ _ _ _ F Hb) as (tb & -> & Ob).
        pose proof (proj1 (Forall_forall _ _) Cv) as Cv'.
        pose proof (Cv' _ (nth_opt_In _ _ _ _ Ha)) as Ca. pose proof (Cv' _ (nth_opt_In _ _ _ _ Hb)) as Cb.
        destruct (eg_union_inv3 a b s u s1 I Ca Cb Eu) as (I1 & X).
        destruct (Sound_eg_union E s a b ta tb u s1 I W (proj2 (proj2 (proj1 SO))) (proj2 SO) S Ca Cb Oa Ob Eu) as [S1 X1].
        pose proof (proj2 (eg_union_ctr_grows a b s u s1 Eu) Cm) as Cm1.
        pose proof (conj (RI0_eg_union a b s u s1 (proj1 SO) Eu) X1) as SO1.
        refine (IH _ _ _ _ _ _ _ H). split; [|split; [exact (syn_wf_ext _ _ X W)|split; [exact SO1|exact Cm1]]]. split; [exact I1|]. split; [exact S1|]. split.
        * apply Forall_forall. intros x Hx. eapply covers_ext; [exact X|]. apply Cv'. exact Hx.
        * clear -F Cv X. induction F as [|x y l l' Hxy F IHF]; [constructor|]. inversion Cv; subst.
          constructor; [|apply IHF; assumption].
          eapply handle_ok_ext0; [apply ext_ext0; exact X|eassumption|].
          eapply handle_ok_mono; [|exact Hxy]. intros e He. apply in_or_app. left. exact He.
  Qed.

  (* insertion-only histories: the set of equations stays as it is *)
  Lemma Good2_run_adds : forall terms, Forall rt_ok terms -> Forall rt_wf terms ->
    forall ops hs s hts E hs' s', adds_only ops -> Good2 E s hs hts -> run_ops terms ops hs s = Ok (hs', s') ->
    Good2 E s' hs' (fst (ghost terms ops hts E)) /\ snd (ghost terms ops hts E) = E.
  Proof.
    intros terms TO TW. induction ops as [|o ops IH]; intros hs s hts E hs' s' AO G H; cbn [run_ops ghost] in *.
    - inversion H; subst. split; [exact G|reflexivity].
    - inversion AO as [|o' ops' Ho AO']; subst. destruct o as [k|i j just]; [|contradiction].
      destruct (nth_opt terms k) as [tm|] eqn:Ek; [|discriminate]. unfold mbind in H.
      destruct (add_expr tm s) as [[a s1]|] eqn:Ea; [|discriminate].
      assert (TOk : rt_ok tm). { apply (proj1 (Forall_forall _ _) TO). eapply nth_opt_In; eauto. }
      assert (TWf : rt_wf tm). { apply (proj1 (Forall_forall _ _) TW). eapply nth_opt_In; eauto. }
      exact (IH _ _ _ _ _ _ AO' (Good2_add E s hs hts tm a s1 G TOk TWf Ea) H).
  Qed.

  (* the final statement, conditional on the four hypotheses of this section *)
  Theorem equality_sound_x : forall terms ops hs s i j a b ti tj, Forall rt_ok terms -> Forall rt_wf terms ->
    run_ops terms ops [] empty_egraph = Ok (hs, s) ->
    nth_opt hs i = Some a -> nth_opt hs j = Some b ->
    nth_opt (handle_cterms terms ops) i = Some ti -> nth_opt (handle_cterms terms ops) j = Some tj ->
    eg_eq s a b = Ok true -> Deriv (asserted terms ops) 0 ti tj.
  Proof.
    intros terms ops hs s i j a b ti tj TO TW R Ha Hb Hti Htj H.
    destruct (Good2_run_ops terms TO TW ops [] empty_egraph [] [] hs s (Good2_empty []) R) as [G _].
    exact (Good_eq_sound _ _ _ _ i j a b ti tj G Ha Hb Hti Htj H).
  Qed.

  (* insertion-only histories: equal handles belong to alpha-equivalent terms *)
  Theorem equality_sound_insertion_only_x : forall terms ops hs s i j a b ti tj, Forall rt_ok terms -> Forall rt_wf terms ->
    adds_only ops -> run_ops terms ops [] empty_egraph = Ok (hs, s) ->
    nth_opt hs i = Some a -> nth_opt hs j = Some b ->
    nth_opt (handle_cterms terms ops) i = Some ti -> nth_opt (handle_cterms terms ops) j = Some tj ->
    eg_eq s a b = Ok true -> ti = tj.
  Proof.
    intros terms ops hs s i j a b ti tj TO TW AO R Ha Hb Hti Htj H.
    destruct (Good2_run_adds terms TO TW ops [] empty_egraph [] [] hs s AO (Good2_empty []) R) as [[G _] _].
    apply (Deriv_nil_eq 0). exact (Good_eq_sound _ _ _ _ i j a b ti tj G Ha Hb Hti Htj H).
  Qed.
End Stages.

(* ====================================================================== *)
(* the final statements: exactly the four semantic hypotheses               *)
(* ====================================================================== *)

Section Final.
  Hypothesis HSh_red : spec_HSh_red.
  Hypothesis HC_sim : spec_HC_sim.
  Hypothesis HD_sim : spec_HD_sim.
  Hypothesis HS_readd : spec_HS_readd.

  Theorem equality_sound : forall terms ops hs s i j a b ti tj, Forall rt_ok terms -> Forall rt_wf terms ->
    run_ops terms ops [] empty_egraph = Ok (hs, s) ->
    nth_opt hs i = Some a -> nth_opt hs j = Some b ->
    nth_opt (handle_cterms terms ops) i = Some ti -> nth_opt (handle_cterms terms ops) j = Some tj ->
    eg_eq s a b = Ok true -> Deriv (asserted terms ops) 0 ti tj.
  Proof.
    exact (equality_sound_x _ _ xinv_trivial (spec_HSh_red_weaken _ HSh_red) (spec_HC_sim_y_of_x _ _ (spec_HC_sim_weaken _ HC_sim))
             (spec_HD_sim_weaken _ HD_sim) (spec_HS_readd_weaken _ _ HS_readd)).
  Qed.

  Theorem equality_sound_insertion_only : forall terms ops hs s i j a b ti tj, Forall rt_ok terms -> Forall rt_wf terms ->
    adds_only ops -> run_ops terms ops [] empty_egraph = Ok (hs, s) ->
    nth_opt hs i = Some a -> nth_opt hs j = Some b ->
    nth_opt (handle_cterms terms ops) i = Some ti -> nth_opt (handle_cterms terms ops) j = Some tj ->
    eg_eq s a b = Ok true -> ti = tj.
  Proof.
    exact (equality_sound_insertion_only_x _ _ xinv_trivial (spec_HSh_red_weaken _ HSh_red) (spec_HC_sim_y_of_x _ _ (spec_HC_sim_weaken _ HC_sim))
             (spec_HD_sim_weaken _ HD_sim) (spec_HS_readd_weaken _ _ HS_readd)).
  Qed.
End Final.

(* ====================================================================== *)
(* summary                                                                 *)
(* ======================================================================
   Files: SoundSyn.v (class terms under renaming, `clsT_transfer`, `sim_lift`, `handle_sim`, `nsound`),
   SoundNode.v (`NodeT_equiv`, node congruences, `pre_shape_back`, `nsound_lookup_hit`, `nsound_sim`),
   NodePass.v (`kids_exist` is a run invariant), SoundUnion.v (the union core, `mod4_ok` is a run
   invariant), SoundStruct.v (`stored2` is a run invariant; stored2 /\ mod4_ok -> stored_ok),
   SoundBase.v, SoundAddNew.v (new class), SoundVals.v (slot names of the returned invocation),
   SoundAddExpr.v (canon / NodeT bridge, eg_add, add_expr), SoundPending.v (handle_pending), this file.

   DISCHARGED (were Section hypotheses of the previous version):
   - H_ui          = SoundBase.ui_spec_sound_closed (SoundUnion.sound_union_internal_closed); the
                     interface `ui_spec_sound` now carries the premise mod4_ok of the pre-state, and
                     mod4_ok is threaded through handle_pending / rebuild / eg_union / add_internal
                     (preserved by every step: the p4 lemmas of SoundUnion.v, m4_* of SoundBase.v,
                     m4_singleton_pre of SoundAddNew.v for the state before the rebuild of an insertion);
   - H_shrink      = H_shrink_closed above (Sound_shrink_slots_closed + redund_of_sim: from ~~ from|cap
                     gives the redundancy of the slots of `from` mapped outside cap);
   - HSO_add_internal, HSO_eg_union: the run invariant is now RI0 = stored2 /\ kids_exist /\ mod4_ok
                     (RI0_add_internal, RI0_eg_union; `stored_ok_of` gives stored_ok where it is used);
   - HN_vals       = SoundVals.add_internal_new_vals (strengthened: a fresh value is below the new counter);
   - HN_nsound     = SoundAddNew.nsound_add_internal_new; its two extra premises (child maps of the
                     pre-shape are wf: SoundAddExpr.pre_shape_kids_wf; public slots of kind 4u+1 are
                     below the counter) come from the handle-value invariant `hvb` threaded through
                     SoundAddExpr.Sound_add_expr_k (values of the map of a handle that are 1 mod 4 are
                     below the counter).

   Section Stages is parametric in two further structural run invariants SC, KC (abstract; what the
   development needs of them is the record `xinv_ok`; `xinv_trivial` is the instance SC = KC = True)
   so that proofs of the four semantic facts may use them: SC is threaded to every state inside
   handle_pending (via ext), KC to the state where handle_pending starts; both to the state right
   before the rebuild of an insertion (`new_walk` of SoundAddNew.v, field xi_new).

   PROVED inside Section Stages from `xinv_ok SC KC` and the four hypotheses HSh_red, HC_sim, HD_sim,
   HS_readd in their weakened form `spec_*_x` (with mod4_ok, SC (, KC) of the states as extra premises):
   - Sound_handle_pending, Sound_rebuild (a): rebuild keeps `Sound E` (given inv3, syn_wf, mod4_ok).
   - Sound_add_internal, Sound_add_expr_all (b): insertion keeps Sound, syn_wf and RI, and returns a
     handle with handle_ok E s' a (canon0 t), for rt_ok, rt_wf terms.
   - Sound_eg_union (c): eg_union of two handles keeps Sound for E ++ [(tl, tr)].
   - Good2_run_ops, Good2_run_adds, equality_sound_x, equality_sound_insertion_only_x (d); the run
     invariant is Good /\ syn_wf /\ RI /\ ctr mod 4 = 1 with RI = RI0 /\ SC /\ KC.

   FINAL (Section Final): equality_sound, equality_sound_insertion_only, from exactly
     HSh_red : spec_HSh_red, HC_sim : spec_HC_sim, HD_sim : spec_HD_sim, HS_readd : spec_HS_readd
   (statements in SoundPending.v; `spec_*_weaken` gives the `_x` forms; instance xinv_trivial).
   Everything else is closed under the global context.

   The insertion-only corollary is NOT closed: the rebuild inside mk_singleton_class runs
   handle_pending on the new node, which re-adds it (HS_readd: the re-added entry denotes its class)
   and calls determine_self_symmetries (HD_sim, for the trivial variant).  HC_sim and HSh_red are not
   exercised semantically in such histories (no lookup hit after the removal, no shrink: all groups
   are trivial and the union-find is the identity), but showing that needs a flatness invariant of
   insertion-only states that is not developed here. *)

Print Assumptions H_shrink_closed.
Print Assumptions Sound_rebuild.
Print Assumptions Sound_eg_union.
Print Assumptions Sound_add_internal.
Print Assumptions Sound_add_expr_all.
Print Assumptions equality_sound_x.
Check equality_sound_x.
Print Assumptions equality_sound.
Print Assumptions equality_sound_insertion_only.
Check equality_sound.
Check equality_sound_insertion_only.
