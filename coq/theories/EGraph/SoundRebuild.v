(* EGraph/SoundRebuild.v — C01, stages 2 and 4 of the plan of SoundFacts.v: rebuild, insertion
   and union keep the soundness invariant; the end-to-end theorem `equality_sound`, conditional on
   the union core only (`H_ui`).  See the summary at the end of the file. *)
From SE Require Import Slots.SlotMapFacts Group.GroupSound Lang.LangFacts Lang.ShapeFacts Lang.RenameFacts
  EGraph.Model EGraph.ModelFacts EGraph.ModelMachine EGraph.UnionFindFacts EGraph.InvariantFacts
  EGraph.UnionInvariantFacts EGraph.AddCoversFacts EGraph.MonotoneFacts EGraph.SoundFacts EGraph.SoundSyn EGraph.SoundNode EGraph.NodePass EGraph.SoundBase EGraph.SoundAddNew EGraph.SoundAddExpr EGraph.SoundPending.
From SE Require Import Sem.Deriv Sem.DerivFacts Sem.AlgebraFacts Sem.EgMachine Explain.CheckerFacts.
Require Import ZArith Lia ZifyBool ZifyN ZifyNat.
Ltac Zify.zify_post_hook ::= Z.div_mod_to_equations.

Local Notation "a ** b" := (compose_partial a b) (at level 40, left associativity).
Local Notation inv := inverse_nocheck.
Local Notation ectr := Model.ctr.

(* the values of the map returned by a lookup hit are public slots of the node *)
Lemma lookup_hit_vals : forall s p sh nb a, wshape p = Ok (sh, nb) -> lookup_internal s (sh, nb) = Ok (Some a) ->
  forall v, In v (values_vec (am a)) -> In v (pub_occ p).
Proof.
  intros s p sh nb a Hw H v Hv. unfold lookup_internal in H.
  destruct (na_get (hashcons s) sh) as [i|]; [|discriminate].
  destruct (get_class s i) as [c|] eqn:Hc; cbn [bind] in H; [|discriminate].
  destruct (na_get (c_nodes c) sh) as [[cn_bij src]|] eqn:G; [|discriminate]. inversion H; subst a; clear H. cbn [am] in Hv.
  destruct (shape_bij_props _ _ _ Hw) as (Wn & _ & Pn).
  assert (Hv2 : In v (values_vec (inv cn_bij ** nb))).
  { unfold values_vec in *. apply in_map_iff in Hv. destruct Hv as (kv & <- & Hin). apply filter_In in Hin.
    apply in_map. tauto. }
  apply (compose_vals_incl _ _ (inverse_wf cn_bij)) in Hv2.
  unfold values_vec in Hv2. apply in_map_iff in Hv2. destruct Hv2 as ([k v'] & Ev & Hin). cbn [snd] in Ev. subst v'.
  apply Pn. exists k. apply in_get; assumption.
Qed.

Section Stages.
  (* ASSUMED: the union core keeps the invariant when it is called on related invocations
     (stage 3 of the plan, proved elsewhere) *)
  Hypothesis H_ui : forall E fuel, ui_spec_sound E (union_internal fuel).

  (* ------------------------------------------------------------------ *)
  (* (a) rebuild *)

  (* ASSUMED: the facts assumed by SoundPending.v (statements: `spec_*` there): the interface of
     shrink_slots (part of the union core), that the arguments of the three unions issued by
     handle_pending are related, and that the re-added node denotes its new class *)
  Hypothesis H_shrink : spec_H_shrink.
  Hypothesis HSh_red : spec_HSh_red.
  Hypothesis HC_sim : spec_HC_sim.
  Hypothesis HD_sim : spec_HD_sim.
  Hypothesis HS_readd : spec_HS_readd.

  Lemma Sound_handle_pending : forall E sh ty s x s', inv3 s -> syn_wf s -> Sound E s ->
    handle_pending sh ty s = Ok (x, s') -> Sound E s'.
  Proof. exact (SoundPending.Sound_handle_pending H_ui H_shrink HSh_red HC_sim HD_sim HS_readd). Qed.

  Theorem Sound_rebuild : forall E fuel s x s', inv3 s -> syn_wf s -> Sound E s ->
    rebuild fuel s = Ok (x, s') -> Sound E s'.
  Proof.
    intros E. induction fuel as [|f IH]; intros s x s' I W S H; [discriminate|]. rewrite rebuild_S in H.
    apply mbind_inv in H. destruct H as (p & s0 & Hp & H). inversion Hp; subst p s0; clear Hp.
    destruct (pending s) as [|[sh ty] rest]; [inversion H; subst; exact S|].
    apply mbind_inv in H. destruct H as (u & s1 & H1 & H).
    destruct (s_modify_pend' (fun _ => rest) _ _ _ H1) as [A1 N1].
    destruct (semn_step3 _ _ A1 N1 I) as [I1 E1].
    assert (S1 : Sound E s1) by (inversion H1; apply Sound_set_pending; exact S).
    pose proof (syn_wf_ext _ _ E1 W) as W1.
    apply mbind_inv in H. destruct H as (u2 & s2 & H2 & H).
    destruct (inv3_handle_pending pre_shape_keeps_proved _ _ _ _ _ H2 I1) as [I2 E2].
    pose proof (Sound_handle_pending E _ _ _ _ _ I1 W1 S1 H2) as S2.
    exact (IH _ _ _ I2 (syn_wf_ext _ _ E2 W1) S2 H).
  Qed.

  (* ------------------------------------------------------------------ *)
  (* (b) insertion *)

  (* ASSUMED, structural (no semantics): the run invariant `stored_ok` of SoundNode.v is kept *)
  Hypothesis HSO_add_internal : forall t p s a s', inv3 s -> stored_ok s -> ectr s mod 4 = 1 -> wshape p = Ok t ->
    add_internal t s = Ok (a, s') -> stored_ok s'.
  Hypothesis HSO_eg_union : forall l r s b s', inv3 s -> covers s l -> covers s r -> stored_ok s -> ectr s mod 4 = 1 ->
    eg_union l r s = Ok (b, s') -> stored_ok s'.
  (* ASSUMED, structural: the values of the map returned by add_internal *)
  Hypothesis HN_vals : forall t p s a s', inv3 s -> ectr s mod 4 = 1 -> wshape p = Ok t -> lookup_internal s t = Ok None ->
    add_internal t s = Ok (a, s') -> forall v, In v (values_vec (am a)) -> In v (pub_occ p) \/ v mod 4 = 1.
  (* ASSUMED: the lookup-miss branch of add_internal (a new class): the returned invocation denotes
     the node.  (SoundAddNew.nsound_add_internal_new proves this from Sound_rebuild under two more
     premises: `Forall (fun x => wf (am x)) (app_occ p)` and
     `forall x, In x (pub_occ p) -> x mod 4 <> 1 \/ x < ectr s`.) *)
  Hypothesis HN_nsound : forall E t p s a s', inv3 s -> syn_wf s -> Sound E s -> ectr s mod 4 = 1 -> wshape p = Ok t ->
    lookup_internal s t = Ok None -> Forall (covers s) (app_occ p) -> add_internal t s = Ok (a, s') -> nsound E s' a p.

  Lemma add_internal_hit : forall t s x a s', lookup_internal s t = Ok (Some x) -> add_internal t s = Ok (a, s') -> a = x /\ s' = s.
  Proof.
    intros t s x a s' L H. unfold add_internal in H. apply bind_reads_inv in H. destruct H as (lk & Hlk & H).
    rewrite L in Hlk. inversion Hlk; subst lk. inversion H; subst. auto.
  Qed.

  Lemma lookup_total : forall t s a s', add_internal t s = Ok (a, s') -> exists lk, lookup_internal s t = Ok lk.
  Proof. intros t s a s' H. unfold add_internal in H. apply bind_reads_inv in H. destruct H as (lk & Hlk & _). eauto. Qed.

  Lemma add_internal_vals : forall t p s a s', inv3 s -> ectr s mod 4 = 1 -> wshape p = Ok t ->
    add_internal t s = Ok (a, s') -> forall v, In v (values_vec (am a)) -> In v (pub_occ p) \/ v mod 4 = 1.
  Proof.
    intros t p s a s' I Cm Hw H v Hv. destruct (lookup_total _ _ _ _ H) as ([x|] & L).
    - destruct (add_internal_hit _ _ _ _ _ L H) as [-> ->]. left. destruct t as [sh nb]. eapply lookup_hit_vals; eauto.
    - eapply HN_vals; eauto.
  Qed.

  (* the structural run invariants that are not part of inv3 *)
  Definition RI (s : egraph) : Prop := stored_ok s /\ kids_exist s.

  Theorem Sound_add_internal : forall E t p s a s', inv3 s -> syn_wf s -> Sound E s -> RI s -> ectr s mod 4 = 1 ->
    wshape p = Ok t -> Forall (covers s) (app_occ p) -> add_internal t s = Ok (a, s') ->
    Sound E s' /\ syn_wf s' /\ nsound E s' a p /\ RI s'.
  Proof.
    intros E t p s a s' I W S [SO KE] Cm Hw Cv H. destruct (lookup_total _ _ _ _ H) as ([x|] & L).
    - destruct (add_internal_hit _ _ _ _ _ L H) as [-> ->]. split; [exact S|]. split; [exact W|]. split; [|split; assumption].
      destruct t as [sh nb]. eapply nsound_lookup_hit; eauto.
    - split; [exact (Sound_add_internal_new Sound_rebuild E t p s a s' I W S KE Cm Hw L H)|].
      split; [exact (syn_wf_add_internal t p s a s' I W Hw H)|]. split; [eapply HN_nsound; eauto|].
      split; [eapply HSO_add_internal; eauto|eapply kids_exist_add_internal; eauto].
  Qed.

  Theorem Sound_add_expr_all : forall E t s a s', inv3 s -> syn_wf s -> Sound E s -> RI s -> ectr s mod 4 = 1 ->
    rt_ok t -> rt_wf t -> add_expr t s = Ok (a, s') ->
    Sound E s' /\ handle_ok E s' a (canon0 t) /\ syn_wf s' /\ RI s'.
  Proof. exact (SoundAddExpr.Sound_add_expr RI Sound_add_internal add_internal_vals). Qed.

  (* ------------------------------------------------------------------ *)
  (* (c) union *)

  Theorem Sound_eg_union : forall E s l r tl tr b s', inv3 s -> syn_wf s -> Sound E s ->
    covers s l -> covers s r -> handle_ok E s l tl -> handle_ok E s r tr ->
    eg_union l r s = Ok (b, s') -> Sound (E ++ [(tl, tr)]) s'.
  Proof.
    intros E s l r tl tr b s' I W S Cl Cr Ol Or H.
    pose proof (handle_sim E s l r tl tr W Cl Cr Ol Or) as SIM.
    assert (M : forall e, In e E -> In e (E ++ [(tl, tr)])) by (intros e He; apply in_or_app; left; exact He).
    pose proof (Sound_mono _ _ _ M S) as S'.
    unfold eg_union in H.
    apply mbind_inv in H. destruct H as (l1 & s1 & H1 & H).
    destruct (semn_step3 _ _ (s_synify_app_id _ _ _ _ H1) (n_synify_app_id _ _ _ _ H1) I) as [I1 E1].
    pose proof (cu_synify_app_id _ _ _ _ H1) as U1.
    apply mbind_inv in H. destruct H as (r1 & s2 & H2 & H).
    destruct (semn_step3 _ _ (s_synify_app_id _ _ _ _ H2) (n_synify_app_id _ _ _ _ H2) I1) as [I2 E2].
    pose proof (cu_synify_app_id _ _ _ _ H2) as U2.
    pose proof (cuR_trans _ _ _ U1 U2) as U02. pose proof (ext_trans _ _ _ E1 E2) as E02.
    apply mbind_inv in H. destruct H as (out & s3 & H3 & H).
    assert (SIM2 : sim (E ++ [(tl, tr)]) s2 l r) by (apply (sim_classes _ s s2 _ _ (proj1 U02)); exact SIM).
    pose proof (H_ui _ ui_fuel l r s2 out s3 I2 (Sound_cuR _ _ _ U02 S')
                  (covers_ext _ _ _ E02 Cl) (covers_ext _ _ _ E02 Cr) SIM2 H3) as S3.
    destruct (inv3_uint _ _ _ _ _ I2 (covers_ext _ _ _ E02 Cl) (covers_ext _ _ _ E02 Cr) H3) as [I3 E3].
    apply mbind_inv in H. destruct H as (u & s4 & H4 & H). inversion H; subst b s4; clear H.
    refine (Sound_rebuild _ _ _ _ _ I3 _ S3 H4).
    apply (syn_wf_ext s); [|exact W]. eapply ext_trans; eauto.
  Qed.

  (* ------------------------------------------------------------------ *)
  (* (d) every history *)

  Definition Good2 (E : equations) (s : egraph) (hs : list appid) (hts : list cterm) : Prop :=
    Good E s hs hts /\ syn_wf s /\ RI s /\ ectr s mod 4 = 1.

  Lemma Good2_run_ops : forall terms, Forall rt_ok terms -> Forall rt_wf terms ->
    forall ops hs s hts E hs' s', Good2 E s hs hts -> run_ops terms ops hs s = Ok (hs', s') ->
    Good2 (snd (ghost terms ops hts E)) s' hs' (fst (ghost terms ops hts E)).
  Proof.
    intros terms TO TW. induction ops as [|o ops IH]; intros hs s hts E hs' s' G H; cbn [run_ops ghost] in *.
    - inversion H; subst. exact G.
    - destruct G as ((I & S & Cv & F) & W & SO & Cm). destruct o as [k|i j just].
      + destruct (nth_opt terms k) as [tm|] eqn:Ek; [|discriminate]. unfold mbind in H.
        destruct (add_expr tm s) as [[a s1]|] eqn:Ea; [|discriminate].
        destruct (add_expr_covers tm s a s1 I Ea) as (I1 & X & Ca).
        assert (TOk : rt_ok tm). { apply (proj1 (Forall_forall _ _) TO). eapply nth_opt_In; eauto. }
        assert (TWf : rt_wf tm). { apply (proj1 (Forall_forall _ _) TW). eapply nth_opt_In; eauto. }
        destruct (Sound_add_expr_all E tm s a s1 I W S SO Cm TOk TWf Ea) as (S1 & O1 & W1 & SO1).
        pose proof (proj2 (add_expr_ctr_grows tm s a s1 Ea) Cm) as Cm1.
        refine (IH _ _ _ _ _ _ _ H). split; [|split; [exact W1|split; [exact SO1|exact Cm1]]]. split; [exact I1|]. split; [exact S1|]. split.
        * apply Forall_app. split; [|constructor; [exact Ca|constructor]].
          apply Forall_forall. intros x Hx. eapply covers_ext0; [exact X|]. apply (proj1 (Forall_forall _ _) Cv). exact Hx.
        * apply Forall2_app; [|constructor; [exact O1|constructor]].
          clear -F Cv X. induction F as [|x y l l' Hxy F IHF]; [constructor|]. inversion Cv; subst.
          constructor; [eapply handle_ok_ext0; eauto|apply IHF; assumption].
      + destruct (nth_opt hs i) as [a|] eqn:Ha; [|discriminate]. destruct (nth_opt hs j) as [b|] eqn:Hb; [|discriminate].
        unfold mbind in H. destruct (eg_union a b s) as [[u s1]|] eqn:Eu; [|discriminate].
        destruct (Forall2_nth_opt _ _ _ _ _ F Ha) as (ta & -> & Oa).
        destruct (Forall2_nth_opt _ _ _ _ _ F Hb) as (tb & -> & Ob).
        pose proof (proj1 (Forall_forall _ _) Cv) as Cv'.
        pose proof (Cv' _ (nth_opt_In _ _ _ _ Ha)) as Ca. pose proof (Cv' _ (nth_opt_In _ _ _ _ Hb)) as Cb.
        destruct (eg_union_inv3 a b s u s1 I Ca Cb Eu) as (I1 & X).
        pose proof (Sound_eg_union E s a b ta tb u s1 I W S Ca Cb Oa Ob Eu) as S1.
        pose proof (proj2 (eg_union_ctr_grows a b s u s1 Eu) Cm) as Cm1.
        assert (SO1 : RI s1) by (split; [exact (HSO_eg_union a b s u s1 I Ca Cb (proj1 SO) Cm Eu)|exact (kids_exist_eg_union a b s u s1 (proj2 SO) Eu)]).
        refine (IH _ _ _ _ _ _ _ H). split; [|split; [exact (syn_wf_ext _ _ X W)|split; [exact SO1|exact Cm1]]]. split; [exact I1|]. split; [exact S1|]. split.
        * apply Forall_forall. intros x Hx. eapply covers_ext; [exact X|]. apply Cv'. exact Hx.
        * clear -F Cv X. induction F as [|x y l l' Hxy F IHF]; [constructor|]. inversion Cv; subst.
          constructor; [|apply IHF; assumption].
          eapply handle_ok_ext0; [apply ext_ext0; exact X|eassumption|].
          eapply handle_ok_mono; [|exact Hxy]. intros e He. apply in_or_app. left. exact He.
  Qed.

  (* the final statement, conditional on H_ui (and on whatever is still a Hypothesis above) *)
  Theorem equality_sound : forall terms ops hs s i j a b ti tj, Forall rt_ok terms -> Forall rt_wf terms ->
    run_ops terms ops [] empty_egraph = Ok (hs, s) ->
    nth_opt hs i = Some a -> nth_opt hs j = Some b ->
    nth_opt (handle_cterms terms ops) i = Some ti -> nth_opt (handle_cterms terms ops) j = Some tj ->
    eg_eq s a b = Ok true -> Deriv (asserted terms ops) 0 ti tj.
  Proof.
    intros terms ops hs s i j a b ti tj TO TW R Ha Hb Hti Htj H.
    assert (G0 : Good2 [] empty_egraph [] []).
    { split; [|split; [exact syn_wf_empty|split; [split; [exact stored_ok_empty|exact kids_exist_empty]|reflexivity]]]. split; [exact inv3_empty|]. split; [apply Sound_empty|]. split; constructor. }
    destruct (Good2_run_ops terms TO TW ops [] empty_egraph [] [] hs s G0 R) as [G _].
    exact (Good_eq_sound _ _ _ _ i j a b ti tj G Ha Hb Hti Htj H).
  Qed.
End Stages.

(* ====================================================================== *)
(* summary                                                                 *)
(* ======================================================================
   Files: SoundSyn.v (class terms under renaming, `clsT_transfer`, `sim_lift`, `handle_sim`, `nsound`),
   SoundNode.v (`NodeT_equiv`, node congruences, `pre_shape_back`, `nsound_lookup_hit`, `nsound_sim`),
   NodePass.v (`kids_exist` is a run invariant), SoundBase.v, SoundAddNew.v (new class),
   SoundAddExpr.v (canon / NodeT bridge, eg_add, add_expr), SoundPending.v (handle_pending), this file.

   PROVED here, inside Section Stages (i.e. from the hypotheses listed below):
   - Sound_handle_pending, Sound_rebuild (a): rebuild keeps `Sound E` (given inv3, syn_wf).
   - Sound_add_internal, Sound_add_expr_all (b): insertion keeps Sound, syn_wf and the structural run
     invariants RI = stored_ok /\ kids_exist, and returns a handle with handle_ok E s' a (canon0 t),
     for rt_ok, rt_wf terms.  (`H_add` of SoundFacts.v is FALSE as stated there: for a term with
     fewer children than applied-id positions `set_apps` keeps the placeholder invocation while
     `canon` produces the dummy child; hence the premise rt_wf.)
   - Sound_eg_union (c): eg_union of two handles keeps Sound for E ++ [(tl, tr)]
     (`handle_sim` of SoundSyn.v gives l ~~ r from the two handle_ok facts and D_ax via Deriv_inst).
   - Good2_run_ops, equality_sound (d): the end-to-end statement; the run invariant is
     Good /\ syn_wf /\ stored_ok /\ kids_exist /\ ctr mod 4 = 1 (so `equality_sound_conditional`
     of SoundFacts.v is re-proved with the larger invariant instead of being instantiated).

   HYPOTHESES of Section Stages (everything else is closed under the global context):
   - H_ui            the union core (stage 3), as specified in the task;
   - H_shrink        (SoundPending.spec_H_shrink) the interface of shrink_slots, which is part of
                     the union core but is called directly by handle_shrink_in_upwards_merge;
   - HSh_red, HD_sim (spec_HSh_red, spec_HD_sim) the arguments of the shrink / of the union issued
                     by handle_shrink_in_upwards_merge / determine_self_symmetries are related;
                     SoundPending.pc_nsound is the common core, the rest is not proved;
   - HC_sim          (spec_HC_sim) the same for handle_congruence.  NOT provable from
                     inv3 /\ Sound: pc_congruence composes the bijections of two separately
                     computed weak shapes without checking that the shapes are equal; a "key
                     invariant" relating a stored entry (sh, (bij, src)) to the syntactic node of
                     src is needed (see the analysis in SoundPending.v);
   - HS_readd        (spec_HS_readd) the node re-added by handle_pending denotes its class;
                     SoundPending.HS_readd_reduced reduces it to the renaming step `link_rename`
                     plus the run invariant "children of stored nodes are covered";
   - HSO_add_internal, HSO_eg_union   the structural invariant stored_ok (SoundNode.v) is kept;
   - HN_vals         structural: values of the map returned by the lookup-miss branch;
   - HN_nsound       the handle of a new class denotes the node; proved in
                     SoundAddNew.nsound_add_internal_new under two more premises (child maps wf,
                     public slots of kind 4u+1 are below the counter) that the caller does not
                     supply yet. *)

Print Assumptions Sound_rebuild.
Print Assumptions Sound_eg_union.
Print Assumptions Sound_add_internal.
Print Assumptions Sound_add_expr_all.
Print Assumptions equality_sound.
