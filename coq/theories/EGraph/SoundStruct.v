(* EGraph/SoundStruct.v — a structural invariant of the stored e-nodes, for every reachable state:
   the key of every entry of every class is a weak shape (a fixed point of `wshape`), and the stored
   bijection is total on the public slots of the key.
   Together with `mod4_ok` (SoundUnion.v) this gives `stored_ok` of SoundNode.v.
   The development follows the one of `mod4_ok` (the p4_* lemmas of SoundUnion.v). *)
From SE Require Import Slots.SlotMapFacts Group.GroupSound Lang.LangFacts Lang.ShapeFacts Lang.RenameFacts
  Base.TextFacts EGraph.Model EGraph.ModelFacts EGraph.ModelMachine EGraph.UnionFindFacts EGraph.InvariantFacts
  EGraph.UnionInvariantFacts EGraph.AddCoversFacts EGraph.MonotoneFacts EGraph.SoundFacts EGraph.SoundUnion
  EGraph.SoundSyn EGraph.SoundNode.
From SE Require Import Sem.Deriv Sem.DerivFacts Explain.CheckerFacts.
Require Import ZArith Lia ZifyBool ZifyN ZifyNat.
Ltac Zify.zify_post_hook ::= Z.div_mod_to_equations.

Local Notation "a ** b" := (compose_partial a b) (at level 40, left associativity).
Local Notation inv := inverse_nocheck.
Local Notation ectr := Model.ctr.

Local Ltac neq := repeat match goal with
  | H : (_ =? _) = true |- _ => apply N.eqb_eq in H
  | H : (_ =? _) = false |- _ => apply N.eqb_neq in H
  end.

(* ====================================================================== *)
(* 1. the predicate                                                        *)
(* ====================================================================== *)

Definition SOe (e : node * (slotmap * N)) : Prop :=
  (exists bs, wshape (fst e) = Ok (fst e, bs)) /\
  (forall k, In k (pub_occ (fst e)) -> get (fst (snd e)) k <> None).
Definition stored2 (s : egraph) : Prop := nodesP (fun _ e => SOe e) s.
Definition RS (s s' : egraph) : Prop := stored2 s -> stored2 s'.

Lemma stored2_empty : stored2 empty_egraph.
Proof. intros i c e H. unfold get_class in H. cbn in H. destruct (N.to_nat i); discriminate. Qed.

Theorem stored_ok_of : forall s, stored2 s -> mod4_ok s -> stored_ok s.
Proof.
  intros s S M i c sh bij src Hc Hin.
  destruct (S i c _ Hc Hin) as [Hw Tot]. destruct (m4_nodes s M i c _ Hc Hin) as [_ Qv]. cbn [fst snd] in *.
  split; [exact Hw|]. split; [exact Tot|]. split.
  - exists (ren (asm_g bij) sh). apply apply_slotmap_ok. exact Tot.
  - intros k v G. rewrite (Qv k v G). discriminate.
Qed.

(* an entry (sh, bij) where (sh, bij) is the weak shape of some node *)
Lemma SOe_shape : forall p sh bij src, wshape p = Ok (sh, bij) -> SOe (sh, (bij, src)).
Proof.
  intros p sh bij src H. split; cbn [fst snd].
  - exact (shape_idempotent _ _ _ H).
  - intros k Hk. destruct (shape_equiv_by p sh bij H) as (th & _ & Hth). rewrite (Hth k Hk). discriminate.
Qed.

(* ====================================================================== *)
(* 2. the combinators                                                      *)
(* ====================================================================== *)

Lemma RS_refl : forall s, RS s s.
Proof. intros s H. exact H. Qed.
Lemma RS_trans : forall a b c, RS a b -> RS b c -> RS a c.
Proof. intros a b c H1 H2 H. auto. Qed.

Local Notation pS := (pres RS).
Lemma pS_bind : forall A C (m : M A) (k : A -> M C), pS m -> (forall a, pS (k a)) -> pS (mbind m k).
Proof. apply (pres_bind RS RS_trans). Qed.
Lemma pS_ret : forall A (a : A), pS (ret a).
Proof. apply (pres_ret RS RS_refl). Qed.
Lemma pS_reads : forall A (f : egraph -> res A), pS (reads f).
Proof. apply (pres_reads RS RS_refl). Qed.
Lemma pS_lift : forall A (r : res A), pS (Model.lift r).
Proof. apply (pres_lift RS RS_refl). Qed.
Lemma pS_iterM : forall A (f : A -> M unit) l, (forall x, pS (f x)) -> pS (iterM f l).
Proof. apply (pres_iterM RS RS_refl RS_trans). Qed.

Lemma RS_nodes_same : forall s s', nodes_same s s' -> RS s s'.
Proof. intros s s' H S. exact (nodes_same_nodesP _ s s' H S). Qed.

(* every step that keeps the nodes of all classes *)
Lemma pS_npres : forall A (m : M A), pres nsame m -> pS m.
Proof. intros A m H s x s' E. apply RS_nodes_same. apply nsame_nodes_same. eapply H; eauto. Qed.

Lemma pS_pending_insert : forall sh ty, pS (pending_insert sh ty).
Proof. intros sh ty. apply pS_npres. apply n_pending_insert. Qed.
Lemma pS_touched_class : forall i ty, pS (touched_class i ty).
Proof. intros i ty. apply pS_npres. apply n_touched_class. Qed.
Lemma pS_with_ctr : forall A (f : N -> A * N), pS (with_ctr f).
Proof. intros A f. apply pS_npres. apply n_with_ctr. Qed.
Lemma pS_fresh : pS fresh.
Proof. apply pS_npres. apply n_fresh. Qed.
Lemma pS_fill_fresh : forall l m, pS (fill_fresh l m).
Proof. intros l m. apply pS_npres. apply n_fill_fresh. Qed.
Lemma pS_synify_app_id : forall a, pS (synify_app_id a).
Proof. intros a. apply pS_npres. apply n_synify_app_id. Qed.
Lemma pS_synify_enode : forall n, pS (synify_enode n).
Proof. intros n. apply pS_npres. apply n_synify_enode. Qed.
Lemma pS_pc_congruence : forall a b, pS (pc_congruence a b).
Proof. intros a b. apply pS_npres. apply n_pc_congruence. Qed.
Lemma pS_ufset : forall i p, pS (unionfind_set i p).
Proof. intros i p. apply pS_npres. apply n_unionfind_set. Qed.

(* a class update that keeps the nodes *)
Lemma pS_upd_class : forall i f, (forall c, c_nodes (f c) = c_nodes c) -> pS (upd_class i f).
Proof.
  intros i f Hf s x s' H. apply RS_nodes_same.
  apply upd_class_inv in H. destruct H as (c & Hc & ->). pose proof (get_class_lt _ _ _ Hc) as L.
  intros j cj Hj. rewrite (get_class_upd s i (f c) j L) in Hj. destruct (j =? i) eqn:Ej; neq.
  - subst j. inversion Hj; subst cj. exists c. split; [exact Hc|apply Hf].
  - exists cj. auto.
Qed.

Lemma pS_witness : forall i cap, pS (record_redundancy_witness i cap).
Proof.
  intros i cap. unfold record_redundancy_witness. apply pS_bind; [apply pS_reads|]. intros ss. apply pS_ufset.
Qed.

Lemma pS_raw_add : forall id sh bij src, SOe (sh, (bij, src)) -> pS (raw_add_to_class id (sh, bij) src).
Proof.
  intros id sh bij src Q s x s' H N.
  assert (Hc : exists c, get_class s id = Ok c).
  { unfold raw_add_to_class in H. apply mbind_inv in H. destruct H as (u1 & s1 & H1 & _).
    apply upd_class_inv in H1. destruct H1 as (c & Hc & _). eauto. }
  destruct Hc as (c & Hc). exact (nodesP_raw_add (fun _ e => SOe e) _ _ _ _ _ _ _ _ N Hc Q H).
Qed.

Lemma pS_raw_remove : forall id sh, pS (raw_remove_from_class id sh).
Proof. intros id sh s p s' H N. exact (nodesP_raw_remove (fun _ e => SOe e) _ _ _ _ _ N H). Qed.

(* ====================================================================== *)
(* 3. move_to                                                              *)
(* ====================================================================== *)

(* the keys of compose_fresh a b c: all keys of a *)
Lemma cf_go_keys : forall a b c out, wf out -> forall k,
  (get out k <> None \/ get a k <> None) -> get (fst (compose_fresh_go a b c out)) k <> None.
Proof.
  induction a as [|[x y] t IH]; intros b c out W k Hk; cbn [compose_fresh_go].
  - cbn [fst]. destruct Hk as [Hk|Hk]; [exact Hk|]. cbn [get] in Hk. congruence.
  - assert (X : forall z, get (insert x z out) k <> None \/ get t k <> None).
    { intros z. rewrite get_insert by exact W. destruct Hk as [Hk|Hk].
      - left. destruct (k =? x); [discriminate|exact Hk].
      - cbn [get] in Hk. destruct (k =? x); [left; discriminate|right; exact Hk]. }
    destruct (get b y) as [z|]; apply IH; try (apply insert_wf; exact W); apply X.
Qed.

Lemma compose_fresh_keys : forall a b c k, get a k <> None -> get (fst (compose_fresh a b c)) k <> None.
Proof. intros a b c k H. unfold compose_fresh. apply cf_go_keys; [exact I|]. right. exact H. Qed.

Lemma pS_move_body : forall idf idt mi sh bij src, SOe (sh, (bij, src)) ->
  pS (dom _ <- raw_remove_from_class idf sh;
      dom new_bij <- with_ctr (compose_fresh bij mi);
      dom _ <- raw_add_to_class idt (sh, new_bij) src;
      pending_insert sh true).
Proof.
  intros idf idt mi sh bij src [Qw Qt] s x s' H N. cbn [fst snd] in Qw, Qt.
  apply mbind_inv in H. destruct H as (p & s1 & Hr & H).
  apply mbind_inv in H. destruct H as (nb & s2 & Hcf & H).
  apply mbind_inv in H. destruct H as (u3 & s3 & Ha & Hp).
  pose proof (pS_raw_remove _ _ _ _ _ Hr N) as N1.
  pose proof (pS_with_ctr _ _ _ _ _ Hcf N1) as N2.
  assert (Enb : nb = fst (compose_fresh bij mi (ectr s1))).
  { unfold with_ctr in Hcf. destruct (compose_fresh bij mi (ectr s1)) as [a b]. inversion Hcf. reflexivity. }
  assert (Q : SOe (sh, (nb, src))).
  { split; cbn [fst snd]; [exact Qw|]. intros k Hk. rewrite Enb. apply compose_fresh_keys. apply Qt. exact Hk. }
  pose proof (pS_raw_add _ _ _ _ Q _ _ _ Ha N2) as N3.
  exact (pS_pending_insert _ _ _ _ _ Hp N3).
Qed.

Lemma pS_move_loop : forall idf idt mi l, (forall e, In e l -> SOe e) ->
  pS (iterM (fun e => let '(sh, (bij, src_id)) := e in
                  dom _ <- raw_remove_from_class idf sh;
                  dom new_bij <- with_ctr (compose_fresh bij mi);
                  dom _ <- raw_add_to_class idt (sh, new_bij) src_id;
                  pending_insert sh true) l).
Proof.
  intros idf idt mi. induction l as [|[sh [bij src]] t IH]; intros Hl; cbn [iterM].
  - apply pS_ret.
  - apply pS_bind.
    + apply pS_move_body. apply Hl. left. reflexivity.
    + intros _. apply IH. intros e He. apply Hl. right. exact He.
Qed.

Lemma pS_move_to : forall from to, pS (move_to from to).
Proof.
  intros from to s x s' H N. unfold move_to in H. cbv zeta in H.
  apply mbind_inv in H. destruct H as (u1 & s1 & H1 & H).
  pose proof (pS_ufset _ _ _ _ _ H1 N) as N1.
  apply bind_reads_inv in H. destruct H as (cf & Hcf & H).
  apply mbind_inv in H. destruct H as (u2 & s2 & H2 & H).
  assert (LQ : forall e, In e (c_nodes cf) -> SOe e).
  { intros e He. exact (N1 _ _ e Hcf He). }
  pose proof (pS_move_loop (aid from) (aid to) _ (c_nodes cf) LQ s1 u2 s2 H2 N1) as N2.
  revert N2. revert H. generalize s2. clear. intros s2.
  apply pS_bind; [apply pS_reads|]. intros cf2. apply pS_bind; [apply pS_reads|]. intros ct2.
  apply pS_bind; [apply pS_lift|]. intros r. apply pS_bind; [apply pS_upd_class; intros c; reflexivity|]. intros _.
  apply pS_bind; [destruct (snd r); [apply pS_touched_class|apply pS_ret]|]. intros _. apply pS_touched_class.
Qed.

(* ====================================================================== *)
(* 4. union_internal                                                       *)
(* ====================================================================== *)

Section SUi.
  Variable ui : appid -> appid -> M bool.
  Hypothesis H_ui : forall l r, pS (ui l r).

  Lemma pS_shrink_slots : forall from cap, pS (shrink_slots ui from cap).
  Proof.
    intros from cap. unfold shrink_slots.
    apply pS_bind; [apply pS_lift|]. intros ocl. apply pS_bind; [apply pS_witness|]. intros _. cbv zeta.
    apply pS_bind; [apply pS_reads|]. intros c. apply pS_bind; [apply pS_lift|]. intros flags.
    apply pS_bind; [apply pS_lift|]. intros g.
    apply pS_bind; [apply pS_upd_class; intros c0; reflexivity|]. intros _.
    apply pS_bind; [apply pS_touched_class|]. intros _. apply pS_iterM. intros pp.
    apply pS_bind; [apply pS_reads|]. intros sl. apply pS_bind; [apply pS_lift|]. intros ps.
    apply pS_bind; [apply H_ui|]. intros _. apply pS_ret.
  Qed.

  Lemma pS_union_leaders : forall l r, pS (union_leaders ui l r).
  Proof.
    intros l r. unfold union_leaders. apply pS_bind; [apply pS_reads|]. intros e.
    destruct e; [apply pS_ret|]. cbv zeta.
    destruct (negb (sset_eqb (values (am l)) _)).
    { apply pS_bind; [apply pS_shrink_slots|]. intros _. apply pS_bind; [apply H_ui|]. intros _. apply pS_ret. }
    destruct (negb (sset_eqb (values (am r)) _)).
    { apply pS_bind; [apply pS_shrink_slots|]. intros _. apply pS_bind; [apply H_ui|]. intros _. apply pS_ret. }
    destruct (aid l =? aid r).
    - apply pS_bind; [apply pS_reads|]. intros c. apply pS_bind; [apply pS_lift|]. intros bc.
      destruct bc; [apply pS_ret|]. apply pS_bind; [apply pS_lift|]. intros g.
      apply pS_bind; [apply pS_upd_class; intros c0; reflexivity|]. intros _.
      apply pS_bind; [apply pS_touched_class|]. intros _. apply pS_ret.
    - apply pS_bind; [apply pS_reads|]. intros cl. apply pS_bind; [apply pS_reads|]. intros cr. cbv zeta.
      apply pS_bind; [|intros _; apply pS_ret].
      match goal with |- pres _ (if ?b then _ else _) => destruct b end; apply pS_move_to.
  Qed.
End SUi.

Theorem pS_union_internal : forall fuel l r, pS (union_internal fuel l r).
Proof.
  induction fuel as [|f IH]; intros l r; [intros s x s' H; discriminate|].
  rewrite union_internal_S. unfold union_internal_body.
  apply pS_bind; [apply pS_reads|]. intros l'. apply pS_bind; [apply pS_reads|]. intros r'.
  apply pS_union_leaders. exact IH.
Qed.

Lemma pS_uint : forall l r, pS (uint l r).
Proof. intros l r. apply pS_union_internal. Qed.

(* ====================================================================== *)
(* 5. rebuild                                                              *)
(* ====================================================================== *)

Lemma pS_handle_shrink : forall src, pS (handle_shrink_in_upwards_merge src).
Proof.
  intros src. unfold handle_shrink_in_upwards_merge. apply pS_bind; [apply pS_reads|]. intros pc1.
  apply pS_bind; [apply pS_reads|]. intros n2. apply pS_bind; [apply pS_pc_congruence|]. intros [a b].
  apply pS_shrink_slots. apply pS_uint.
Qed.

Lemma pS_handle_congruence : forall pc, pS (handle_congruence pc).
Proof.
  intros pc. unfold handle_congruence. apply pS_bind; [apply pS_reads|]. intros sh.
  apply pS_bind; [apply pS_reads|]. intros pc2. apply pS_bind; [apply pS_pc_congruence|]. intros ab.
  apply pS_bind; [apply pS_uint|]. intros _. apply pS_ret.
Qed.

Lemma pS_determine_self_symmetries : forall src, pS (determine_self_symmetries src).
Proof.
  intros src. unfold determine_self_symmetries. apply pS_bind; [apply pS_reads|]. intros pc1.
  apply pS_bind; [apply pS_lift|]. intros w. cbv zeta. apply pS_bind; [apply pS_reads|]. intros vs.
  apply pS_iterM. intros pn2. apply pS_bind; [apply pS_lift|]. intros w2.
  destruct (node_eqb (fst w) (fst w2)); [|apply pS_ret].
  apply pS_bind; [apply pS_pc_congruence|]. intros ab. apply pS_bind; [apply pS_uint|]. intros _. apply pS_ret.
Qed.

Lemma pS_hp_loop : forall fuel src e i, pS (hp_loop fuel src e i).
Proof.
  induction fuel as [|f IH]; intros src e i; [intros s x s' H; discriminate|]. cbn [hp_loop].
  destruct (sset_subset (values (am i)) (slots e)); [apply pS_ret|].
  apply pS_bind; [apply pS_handle_shrink|]. intros _.
  apply pS_bind; [apply pS_reads|]. intros e1. apply pS_bind; [apply pS_reads|]. intros i1. apply IH.
Qed.

(* fill_fresh makes the map total on the list, and keeps what is defined *)
Lemma fill_fresh_keys : forall l m s m' s', wf m -> fill_fresh l m s = Ok (m', s') ->
  (forall k, get m k <> None -> get m' k <> None) /\ (forall x, In x l -> get m' x <> None).
Proof.
  induction l as [|x t IH]; intros m s m' s' W H; cbn [fill_fresh] in H.
  - inversion H; subst. split; [auto|]. intros x [].
  - unfold contains_key in H. destruct (get m x) as [v|] eqn:G.
    + destruct (IH _ _ _ _ W H) as [A C]. split; [exact A|]. intros y [<-|Hy]; [apply A; congruence|apply C; exact Hy].
    + apply mbind_inv in H. destruct H as (f & s1 & H1 & H).
      destruct (IH _ _ _ _ (insert_wf _ x f W) H) as [A C]. split.
      * intros k Hk. apply A. rewrite get_insert by exact W. destruct (k =? x); [discriminate|exact Hk].
      * intros y [<-|Hy]; [|apply C; exact Hy]. apply A. rewrite get_insert by exact W. rewrite N.eqb_refl. discriminate.
Qed.

Theorem pS_handle_pending : forall sh ty, pS (handle_pending sh ty).
Proof.
  intros sh ty s x s' H N. unfold handle_pending in H.
  apply bind_reads_inv in H. destruct H as (i & _ & H).
  destruct (negb ty); [inversion H; subst; exact N|].
  apply bind_reads_inv in H. destruct H as (c & Hc & H).
  apply mbind_inv in H. destruct H as ([bij0 src_id] & s0 & Hp & H). apply lift_inv in Hp. destruct Hp as [_ ->].
  apply mbind_inv in H. destruct H as (nd & s0 & Hnd & H). apply lift_inv in Hnd. destruct Hnd as [_ ->].
  apply mbind_inv in H. destruct H as (u1 & sA & HA & H).
  pose proof (pS_raw_remove _ _ _ _ _ HA N) as NA.
  apply bind_reads_inv in H. destruct H as (sl & _ & H). cbv zeta in H.
  apply bind_reads_inv in H. destruct H as (enode0 & _ & H).
  apply bind_reads_inv in H. destruct H as (i0 & Hi0 & H).
  apply mbind_inv in H. destruct H as ([enode i1] & sB & HB & H).
  pose proof (pS_hp_loop _ _ _ _ _ _ _ HB NA) as NB.
  apply bind_reads_inv in H. destruct H as (t & Ht & H).
  apply bind_reads_inv in H. destruct H as (lk & _ & H).
  destruct lk as [hit|].
  - apply bind_reads_inv in H. destruct H as (pc & _ & H). exact (pS_handle_congruence _ _ _ _ H NB).
  - destruct t as [sh' bij].
    apply mbind_inv in H. destruct H as (m & sC & Hm & H).
    change (fill_fresh (values bij) (inv (am i1)) sB = Ok (m, sC)) in Hm. cbv zeta in H.
    apply mbind_inv in H. destruct H as (u2 & sD & HD & H).
    pose proof (pS_fill_fresh _ _ _ _ _ Hm NB) as NC.
    destruct (fill_fresh_keys _ _ _ _ _ (inverse_wf (am i1)) Hm) as [_ Tm].
    unfold shape in Ht. destruct (pre_shape sB enode) as [p|] eqn:Pp; cbn [bind] in Ht; [|discriminate].
    destruct (shape_bij_props _ _ _ Ht) as (Wb & _ & _).
    assert (Q : SOe (sh', (bij ** m, src_id))).
    { split; cbn [fst snd].
      - exact (shape_idempotent _ _ _ Ht).
      - intros k Hk. destruct (shape_equiv_by p sh' bij Ht) as (th & _ & Hth).
        rewrite (get_compose_partial bij m k Wb). rewrite (Hth k Hk). apply Tm.
        apply (values_spec bij (th k) Wb). exists k. apply Hth. exact Hk. }
    pose proof (pS_raw_add _ _ _ _ Q _ _ _ HD NC) as ND.
    exact (pS_determine_self_symmetries _ _ _ _ H ND).
Qed.

Theorem pS_rebuild : forall fuel, pS (rebuild fuel).
Proof.
  induction fuel as [|f IH]; [intros s x s' H; discriminate|]. rewrite rebuild_S.
  apply pS_bind; [apply (pres_gets RS RS_refl)|]. intros p. destruct p as [|[sh ty] rest]; [apply pS_ret|].
  apply pS_bind; [intros s x s' H; inversion H; apply RS_nodes_same; apply nsame_nodes_same; apply nsame_pend|].
  intros _. apply pS_bind; [apply pS_handle_pending|]. intros _. apply IH.
Qed.

Theorem pS_eg_union : forall l r, pS (eg_union l r).
Proof.
  intros l r. unfold eg_union. apply pS_bind; [apply pS_synify_app_id|]. intros _.
  apply pS_bind; [apply pS_synify_app_id|]. intros _. apply pS_bind; [apply pS_uint|]. intros out.
  apply pS_bind; [apply pS_rebuild|]. intros _. apply pS_ret.
Qed.

(* ====================================================================== *)
(* 6. add                                                                  *)
(* ====================================================================== *)

Lemma pS_alloc : forall sl syn, pS (alloc_eclass sl syn).
Proof.
  intros sl syn s i s' H N. pose proof (alloc_eclass_exact _ _ _ _ _ H) as (_ & _ & C & _).
  intros j cj e Hcj He. apply (get_class_ext_inv s s' _ C) in Hcj. destruct Hcj as [Hcj|[_ ->]]; [eapply N; eauto|].
  cbn [c_nodes] in He. contradiction.
Qed.

Theorem pS_mk_singleton : forall en, pS (mk_singleton_class en).
Proof.
  intros en. unfold mk_singleton_class. cbv zeta.
  apply pS_bind; [apply pS_with_ctr|]. intros f2o. apply pS_bind; [apply pS_with_ctr|]. intros synf.
  apply pS_bind; [apply pS_alloc|]. intros i.
  intros s x s' H N.
  apply mbind_inv in H. destruct H as (t & s0 & Ht & H). apply lift_inv in Ht. destruct Ht as [Ht ->].
  apply mbind_inv in H. destruct H as (u4 & s4 & H4 & H). destruct t as [sh bij].
  pose proof (pS_raw_add _ _ _ _ (SOe_shape _ _ _ i Ht) _ _ _ H4 N) as N4.
  revert N4. revert H. generalize s4. clear. intros s4.
  apply pS_bind; [apply pS_pending_insert|]. intros _. apply pS_bind; [apply pS_rebuild|]. intros _. apply pS_ret.
Qed.

Theorem pS_add_internal : forall t, pS (add_internal t).
Proof.
  intros t. unfold add_internal. apply pS_bind; [apply pS_reads|]. intros lk. destruct lk as [hit|]; [apply pS_ret|].
  apply pS_bind.
  { intros s x s' H. destruct (refresh_private (fst t) (ectr s)) as [[r|e] c1] eqn:RP; [|discriminate].
    inversion H; subst x s'. apply RS_nodes_same. apply nsame_nodes_same. apply nsame_ctr. }
  intros en. apply pS_bind; [apply pS_lift|]. intros en2. apply pS_bind; [apply pS_synify_enode|]. intros en3.
  apply pS_bind; [apply pS_mk_singleton|]. intros syn. apply pS_reads.
Qed.

Theorem pS_eg_add : forall n, pS (eg_add n).
Proof. intros n. unfold eg_add. apply pS_bind; [apply pS_reads|]. intros t. apply pS_add_internal. Qed.

Theorem pS_add_expr : forall t, pS (add_expr t).
Proof.
  fix IH 1. intros [n ch]. cbn [add_expr]. apply pS_bind.
  - induction ch as [|c r IHr]; [apply pS_ret|].
    apply pS_bind; [apply IH|]. intros a0. apply pS_bind; [apply IHr|]. intros; apply pS_ret.
  - intros l. destruct (Nat.ltb _ _); [intros s x s' H; discriminate|]. apply pS_eg_add.
Qed.

(* ====================================================================== *)
(* 7. every reachable state                                                *)
(* ====================================================================== *)

Lemma stored2_run_ops : forall terms ops hs s hs' s', stored2 s -> run_ops terms ops hs s = Ok (hs', s') -> stored2 s'.
Proof.
  intros terms. induction ops as [|o t IH]; intros hs s hs' s' N H; cbn [run_ops] in H.
  - inversion H; subst. exact N.
  - destruct o as [k|i j just].
    + destruct (nth_opt terms k) as [tm|] eqn:Ek; [|discriminate].
      apply mbind_inv in H. destruct H as (a & s1 & H1 & H). exact (IH _ _ _ _ (pS_add_expr _ _ _ _ H1 N) H).
    + destruct (nth_opt hs i) as [a|] eqn:Ei; [|discriminate]. destruct (nth_opt hs j) as [b|] eqn:Ej; [|discriminate].
      apply mbind_inv in H. destruct H as (u & s1 & H1 & H). exact (IH _ _ _ _ (pS_eg_union _ _ _ _ _ H1 N) H).
Qed.

Theorem reachable_stored2 : forall terms ops hs s, run_ops terms ops [] empty_egraph = Ok (hs, s) -> stored2 s.
Proof. intros terms ops hs s H. exact (stored2_run_ops _ _ _ _ _ _ stored2_empty H). Qed.

(* with reachable_mod4 of SoundUnion.v: stored_ok in every reachable state *)
Corollary reachable_stored_ok : forall terms ops hs s, run_ops terms ops [] empty_egraph = Ok (hs, s) -> stored_ok s.
Proof. intros terms ops hs s H. exact (stored_ok_of s (reachable_stored2 _ _ _ _ H) (reachable_mod4 _ _ _ _ H)). Qed.

Print Assumptions stored2_empty.
Print Assumptions stored_ok_of.
Print Assumptions pS_union_internal.
Print Assumptions pS_rebuild.
Print Assumptions pS_eg_union.
Print Assumptions pS_add_internal.
Print Assumptions pS_add_expr.
Print Assumptions reachable_stored2.
Print Assumptions reachable_stored_ok.
