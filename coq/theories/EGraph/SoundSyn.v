(* EGraph/SoundSyn.v — infrastructure for the soundness proof (C01): how the term of a class
   (`syn_t` of SoundFacts.v) depends on the renaming, how it behaves under a renaming of the
   names of a canonical term (`cren`), which names it contains; the transfer lemma
   `clsT_transfer` (a derivable equation between two renamed class terms may be re-instantiated,
   at any binder depth, by renamings that identify at least what the original renamings
   identified); its corollaries `sim_lift` (a ~~ b at depth d) and `handle_sim` (the asserted
   equation relates the two handles of a union).
   The facts need that every child map of a syntactic node is total on the syntactic slots of the
   child (`syn_wf`, an invariant kept by every `ext` step; established by `add_internal`). *)
From SE Require Import Slots.SlotMapFacts Group.GroupSound Lang.LangFacts Lang.ShapeFacts
  EGraph.Model EGraph.ModelFacts EGraph.ModelMachine EGraph.UnionFindFacts EGraph.InvariantFacts
  EGraph.UnionInvariantFacts EGraph.AddCoversFacts EGraph.SoundFacts.
From SE Require Import Sem.Deriv Sem.DerivFacts Sem.AlgebraFacts Explain.CheckerFacts.
Require Import ZArith Lia ZifyBool ZifyN ZifyNat.
Ltac Zify.zify_post_hook ::= Z.div_mod_to_equations.

Local Notation "a ** b" := (compose_partial a b) (at level 40, left associativity).
Local Notation inv := inverse_nocheck.

(* ====================================================================== *)
(* 0. the invariant on syntactic nodes                                      *)
(* ====================================================================== *)

Definition syn_wf (s : egraph) : Prop :=
  forall i c a, get_class s i = Ok c -> In a (app_occ (c_syn c)) ->
    aid a < i /\ forall y, In y (SS s (aid a)) -> get (am a) y <> None.

Lemma SS_ext : forall s s' i, ext s s' -> SS s' i = SS s i.
Proof.
  intros s s' i (_ & L & X). unfold SS. destruct (get_class s i) as [c|e] eqn:Hc.
  - destruct (X _ _ Hc) as (c' & Hc' & _ & Sy). rewrite Hc', Sy. reflexivity.
  - destruct (get_class s' i) as [c'|e'] eqn:Hc'; [|reflexivity].
    pose proof (get_class_lt _ _ _ Hc') as Li. rewrite L in Li.
    destruct (get_class_ok s i Li) as [c Hc2]. congruence.
Qed.

Lemma syn_wf_ext : forall s s', ext s s' -> syn_wf s -> syn_wf s'.
Proof.
  intros s s' X H i c' a Hc' Ha. pose proof X as (_ & L & X').
  pose proof (get_class_lt _ _ _ Hc') as Li. rewrite L in Li.
  destruct (get_class_ok s i Li) as [c Hc]. destruct (X' _ _ Hc) as (c2 & Hc2 & _ & Sy).
  rewrite Hc' in Hc2. inversion Hc2; subst c2. rewrite Sy in Ha.
  destruct (H _ _ _ Hc Ha) as [A T]. split; [exact A|]. rewrite (SS_ext _ _ _ X). exact T.
Qed.

Lemma syn_wf_classes : forall s s', classes s' = classes s -> syn_wf s -> syn_wf s'.
Proof.
  intros s s' Hc H i c a Hi Ha. rewrite (get_class_classes _ _ _ Hc) in Hi.
  rewrite (SS_classes _ _ _ Hc). eapply H; eauto.
Qed.

Lemma syn_wf_empty : syn_wf empty_egraph.
Proof. intros i c a H. unfold get_class in H. cbn in H. destruct (N.to_nat i); discriminate. Qed.

(* ====================================================================== *)
(* 1. the term of a class depends on the renaming through the syntactic slots only *)
(* ====================================================================== *)

Lemma arg_t_rho_ext : forall (child : nat -> (N -> N) -> appid -> cterm) a,
  (forall d rho rho' x, In x (app_occ_f a) -> (forall v, In v (values_vec (am x)) -> rho v = rho' v) ->
     child d rho x = child d rho' x) ->
  forall d rho rho', (forall x, In x (pub_occ_f a) -> rho x = rho' x) ->
  arg_t child d rho a = arg_t child d rho' a.
Proof.
  intros child. induction a as [x|x|x b IH|p]; intros Hc d rho rho' H; cbn [arg_t].
  - rewrite H; [reflexivity|left; reflexivity].
  - f_equal. apply Hc; [left; reflexivity|]. intros v Hv. apply H. exact Hv.
  - f_equal. apply IH.
    + intros d' r r' y Hy. apply Hc. exact Hy.
    + intros y Hy. unfold upd. destruct (y =? x) eqn:E; [reflexivity|]. apply H.
      cbn [pub_occ_f]. apply filter_In. split; [exact Hy|]. rewrite E. reflexivity.
  - reflexivity.
Qed.

Lemma thru_ext_vals : forall m rho rho', (forall v, In v (values_vec m) -> rho v = rho' v) ->
  forall y, thru m rho y = thru m rho' y.
Proof.
  intros m rho rho' H y. unfold thru. destruct (get m y) as [v|] eqn:G; [|reflexivity].
  apply H. apply get_in in G. unfold values_vec. apply in_map_iff. exists (y, v). split; [reflexivity|exact G].
Qed.

Lemma pub_occ_f_in : forall n a x, In a (nargs n) -> In x (pub_occ_f a) -> In x (slots n).
Proof. intros n a x Ha Hx. apply slots_spec. unfold pub_occ. apply in_flat_map. exists a. split; assumption. Qed.

Lemma app_occ_f_in : forall n a x, In a (nargs n) -> In x (app_occ_f a) -> In x (app_occ n).
Proof. intros n a x Ha Hx. unfold app_occ. apply in_flat_map. exists a. split; assumption. Qed.

Lemma SS_nth : forall s i c, nth_opt (classes s) (N.to_nat i) = Some c -> SS s i = slots (c_syn c) /\ get_class s i = Ok c.
Proof. intros s i c H. unfold SS, get_class. rewrite H. split; reflexivity. Qed.

Theorem syn_t_rho_ext : forall s f d rho rho' i, (forall x, In x (SS s i) -> rho x = rho' x) ->
  syn_t s f d rho i = syn_t s f d rho' i.
Proof.
  intros s. induction f as [|f IH]; intros d rho rho' i H; [reflexivity|]. cbn [syn_t].
  destruct (nth_opt (classes s) (N.to_nat i)) as [c|] eqn:Hn; [|reflexivity].
  destruct (SS_nth _ _ _ Hn) as [ES _]. rewrite ES in H.
  f_equal. apply map_ext_in. intros a Ha. apply arg_t_rho_ext.
  - intros d' r r' x _ Hv. destruct (aid x <? i); [|reflexivity]. apply IH.
    intros y _. apply thru_ext_vals. exact Hv.
  - intros x Hx. apply H. eapply pub_occ_f_in; eauto.
Qed.

Corollary clsT_rho_ext : forall s rho rho' i, (forall x, In x (SS s i) -> rho x = rho' x) ->
  clsT s rho i = clsT s rho' i.
Proof. intros. apply syn_t_rho_ext. assumption. Qed.

(* ====================================================================== *)
(* 2. renaming the names of the term of a class                            *)
(* ====================================================================== *)

(* r re-bases the bound levels from depth j to depth d *)
Definition shifts (j d : nat) (r : N -> N) : Prop := forall k, r (B (j + k)) = B (d + k).

Lemma shifts_S : forall j d r, shifts j d r -> shifts (S j) (S d) r.
Proof. intros j d r H k. replace (S j + k)%nat with (j + S k)%nat by lia. replace (S d + k)%nat with (d + S k)%nat by lia. apply H. Qed.

Lemma shifts_0 : forall j d r, shifts j d r -> r (B j) = B d.
Proof. intros j d r H. pose proof (H O) as T. rewrite !Nat.add_0_r in T. exact T. Qed.

Lemma shifts_lift : forall d rho, shifts 0 d (lift d rho).
Proof. intros d rho k. cbn [Nat.add]. apply lift_B. Qed.

Lemma arg_t_cren : forall (c1 c2 : nat -> (N -> N) -> appid -> cterm) r a,
  (forall x j' d' rho' rho2', In x (app_occ_f a) -> shifts j' d' r ->
     (forall v, In v (values_vec (am x)) -> rho2' v = r (rho' v)) ->
     cren r (c1 j' rho' x) = c2 d' rho2' x) ->
  forall j d rho rho2, shifts j d r -> (forall y, In y (pub_occ_f a) -> rho2 y = r (rho y)) ->
  cren_arg r (arg_t c1 j rho a) = arg_t c2 d rho2 a.
Proof.
  intros c1 c2 r. induction a as [x|x|x b IH|p]; intros Hc j d rho rho2 Sh H; cbn [arg_t cren_arg].
  - rewrite H; [reflexivity|left; reflexivity].
  - f_equal. apply Hc; [left; reflexivity|exact Sh|]. intros v Hv. apply H. exact Hv.
  - f_equal. apply IH.
    + intros y j' d' r1 r2 Hy. apply Hc. exact Hy.
    + apply shifts_S. exact Sh.
    + intros y Hy. unfold upd. destruct (y =? x) eqn:E.
      * symmetry. apply shifts_0. exact Sh.
      * apply H. cbn [pub_occ_f]. apply filter_In. split; [exact Hy|]. rewrite E. reflexivity.
  - reflexivity.
Qed.

Theorem syn_t_cren : forall s, syn_wf s -> forall f r j d rho rho2 i, shifts j d r ->
  (forall y, In y (SS s i) -> rho2 y = r (rho y)) ->
  cren r (syn_t s f j rho i) = syn_t s f d rho2 i.
Proof.
  intros s W. induction f as [|f IH]; intros r j d rho rho2 i Sh H; [reflexivity|]. cbn [syn_t].
  destruct (nth_opt (classes s) (N.to_nat i)) as [c|] eqn:Hn; [|reflexivity].
  destruct (SS_nth _ _ _ Hn) as [ES Hc]. rewrite ES in H.
  rewrite cren_CT, map_map. f_equal. apply map_ext_in. intros a Ha.
  apply arg_t_cren; [|exact Sh|].
  - intros x j' d' r1 r2 Hx Sh' Hv. destruct (aid x <? i); [|reflexivity].
    apply IH; [exact Sh'|]. intros y Hy.
    destruct (W _ _ _ Hc (app_occ_f_in _ _ _ Ha Hx)) as [_ T]. specialize (T y Hy).
    unfold thru. destruct (get (am x) y) as [v|] eqn:G; [|congruence].
    apply Hv. apply get_in in G. unfold values_vec. apply in_map_iff. exists (y, v). split; [reflexivity|exact G].
  - intros y Hy. apply H. eapply pub_occ_f_in; eauto.
Qed.

(* ====================================================================== *)
(* 3. the names of the term of a class                                     *)
(* ====================================================================== *)

Lemma is_B_B : forall k, is_B (B k) = true.
Proof. intros k. unfold is_B, B. lia. Qed.

Lemma arg_t_names : forall (child : nat -> (N -> N) -> appid -> cterm) a,
  (forall d rho x z, In x (app_occ_f a) -> In z (cnames (child d rho x)) ->
     (exists v, In v (values_vec (am x)) /\ z = rho v) \/ is_B z = true) ->
  forall d rho z, In z (cnames_arg (arg_t child d rho a)) ->
  (exists y, In y (pub_occ_f a) /\ z = rho y) \/ is_B z = true.
Proof.
  intros child. induction a as [x|x|x b IH|p]; intros Hc d rho z Hz; cbn [arg_t cnames_arg] in Hz.
  - destruct Hz as [<-|[]]. left. exists x. split; [left; reflexivity|reflexivity].
  - apply Hc in Hz; [|left; reflexivity]. exact Hz.
  - apply IH in Hz.
    + destruct Hz as [(y & Hy & ->)|Hz]; [|right; exact Hz]. unfold upd. destruct (y =? x) eqn:E.
      * right. apply is_B_B.
      * left. exists y. split; [|reflexivity]. cbn [pub_occ_f]. apply filter_In. split; [exact Hy|]. rewrite E. reflexivity.
    + intros d' r y z' Hy. apply Hc. exact Hy.
  - destruct Hz.
Qed.

Theorem syn_t_names : forall s, syn_wf s -> forall f d rho i z, In z (cnames (syn_t s f d rho i)) ->
  (exists y, In y (SS s i) /\ z = rho y) \/ is_B z = true.
Proof.
  intros s W. induction f as [|f IH]; intros d rho i z Hz; [destruct Hz|]. cbn [syn_t] in Hz.
  destruct (nth_opt (classes s) (N.to_nat i)) as [c|] eqn:Hn; [|destruct Hz].
  destruct (SS_nth _ _ _ Hn) as [ES Hc]. rewrite ES.
  rewrite cnames_CT in Hz. apply in_flat_map in Hz. destruct Hz as (ca & Hca & Hz).
  apply in_map_iff in Hca. destruct Hca as (a & <- & Ha).
  apply arg_t_names in Hz.
  - destruct Hz as [(y & Hy & ->)|Hz]; [|right; exact Hz]. left. exists y. split; [|reflexivity]. eapply pub_occ_f_in; eauto.
  - intros d' r x z' Hx Hz'. destruct (aid x <? i); [|destruct Hz']. apply IH in Hz'.
    destruct Hz' as [(y & Hy & ->)|Hz']; [|right; exact Hz'].
    destruct (W _ _ _ Hc (app_occ_f_in _ _ _ Ha Hx)) as [_ T]. specialize (T y Hy).
    unfold thru. destruct (get (am x) y) as [v|] eqn:G; [|congruence]. left. exists v. split; [|reflexivity].
    apply get_in in G. unfold values_vec. apply in_map_iff. exists (y, v). split; [reflexivity|exact G].
Qed.

(* ====================================================================== *)
(* 4. the transfer lemma                                                   *)
(* ====================================================================== *)

Definition tr_rho (sg0 sg tau0 tau : N -> N) (Li Lj : list N) (z : N) : N :=
  match find (fun x => sg0 x =? z) Li with
  | Some x => sg x
  | None => match find (fun y => tau0 y =? z) Lj with Some y => tau y | None => z end
  end.

Lemma rokdL_0 : forall L sg, rokdL 0 L sg <-> rokL L sg.
Proof.
  intros L sg. unfold rokdL, rokL. split; intros [A C]; (split; [exact A|]); intros x Hx.
  - apply fr_0. apply C. exact Hx.
  - apply fr_0. apply C. exact Hx.
Qed.

Theorem clsT_transfer : forall E s i j sg0 tau0, syn_wf s ->
  Deriv E 0 (clsT s sg0 i) (clsT s tau0 j) -> rok s i sg0 -> rok s j tau0 ->
  forall d sg tau, rokdL d (SS s i) sg -> rokdL d (SS s j) tau ->
  (forall x y, In x (SS s i) -> In y (SS s j) -> sg0 x = tau0 y -> sg x = tau y) ->
  Deriv E d (syn_at s d sg i) (syn_at s d tau j).
Proof.
  intros E s i j sg0 tau0 W D [I0 N0] [J0 M0] d sg tau [Is Fs] [It Ft] Ag.
  set (rho := tr_rho sg0 sg tau0 tau (SS s i) (SS s j)).
  assert (R1 : forall x, In x (SS s i) -> rho (sg0 x) = sg x).
  { intros x Hx. unfold rho, tr_rho.
    destruct (find (fun x0 => sg0 x0 =? sg0 x) (SS s i)) as [x'|] eqn:Ef.
    - apply find_some in Ef. destruct Ef as [Hx' Eq]. apply N.eqb_eq in Eq. rewrite (I0 _ _ Hx' Hx Eq). reflexivity.
    - pose proof (find_none _ _ Ef x Hx) as T. cbv beta in T. rewrite N.eqb_refl in T. discriminate. }
  assert (R2 : forall y, In y (SS s j) -> rho (tau0 y) = tau y).
  { intros y Hy. unfold rho, tr_rho.
    destruct (find (fun x0 => sg0 x0 =? tau0 y) (SS s i)) as [x'|] eqn:Ef.
    - apply find_some in Ef. destruct Ef as [Hx' Eq]. apply N.eqb_eq in Eq. apply Ag; assumption.
    - destruct (find (fun y0 => tau0 y0 =? tau0 y) (SS s j)) as [y'|] eqn:Eg.
      + apply find_some in Eg. destruct Eg as [Hy' Eq]. apply N.eqb_eq in Eq. rewrite (J0 _ _ Hy' Hy Eq). reflexivity.
      + pose proof (find_none _ _ Eg y Hy) as T. cbv beta in T. rewrite N.eqb_refl in T. discriminate. }
  assert (NL : forall z, In z (cnames (clsT s sg0 i)) -> is_B z = false -> exists x, In x (SS s i) /\ z = sg0 x).
  { intros z Hz Hb. destruct (syn_t_names s W _ _ _ _ _ Hz) as [T|T]; [exact T|congruence]. }
  assert (NR : forall z, In z (cnames (clsT s tau0 j)) -> is_B z = false -> exists y, In y (SS s j) /\ z = tau0 y).
  { intros z Hz Hb. destruct (syn_t_names s W _ _ _ _ _ Hz) as [T|T]; [exact T|congruence]. }
  pose proof (Deriv_inst E _ _ D d rho) as DI.
  assert (E1 : cren (lift d rho) (clsT s sg0 i) = syn_at s d sg i).
  { unfold clsT, syn_at. apply (syn_t_cren s W); [apply shifts_lift|].
    intros y Hy. unfold lift. rewrite (N0 _ Hy). symmetry. apply R1. exact Hy. }
  assert (E2 : cren (lift d rho) (clsT s tau0 j) = syn_at s d tau j).
  { unfold clsT, syn_at. apply (syn_t_cren s W); [apply shifts_lift|].
    intros y Hy. unfold lift. rewrite (M0 _ Hy). symmetry. apply R2. exact Hy. }
  rewrite E1, E2 in DI. apply DI.
  - intros z Hz Hb. apply fr_range. apply in_app_or in Hz. destruct Hz as [Hz|Hz].
    + destruct (NL z Hz Hb) as (x & Hx & ->). rewrite (R1 _ Hx). apply Fs. exact Hx.
    + destruct (NR z Hz Hb) as (y & Hy & ->). rewrite (R2 _ Hy). apply Ft. exact Hy.
  - intros z z' Hz Hz' Hb Hb' Eq. destruct (NL z Hz Hb) as (x & Hx & ->). destruct (NL z' Hz' Hb') as (x' & Hx' & ->).
    rewrite (R1 _ Hx), (R1 _ Hx') in Eq. rewrite (Is _ _ Hx Hx' Eq). reflexivity.
  - intros z z' Hz Hz' Hb Hb' Eq. destruct (NR z Hz Hb) as (y & Hy & ->). destruct (NR z' Hz' Hb') as (y' & Hy' & ->).
    rewrite (R2 _ Hy), (R2 _ Hy') in Eq. rewrite (It _ _ Hy Hy' Eq). reflexivity.
Qed.

(* a ~~ b at binder depth d *)
Theorem sim_lift : forall E s a b, syn_wf s -> sim E s a b -> injective (am a) -> injective (am b) ->
  forall d sg tau, rokdL d (SS s (aid a)) sg -> rokdL d (SS s (aid b)) tau ->
  (forall x y v, get (am a) x = Some v -> get (am b) y = Some v -> sg x = tau y) ->
  Deriv E d (syn_at s d sg (aid a)) (syn_at s d tau (aid b)).
Proof.
  intros E s a b W H Ia Ib d sg tau Rs Rt C.
  set (sg0 := fun x => match get (am a) x with Some v => 4 * v | None => 4 * x + 1 end).
  set (tau0 := fun y => match get (am b) y with Some v => 4 * v | None => 4 * y + 2 end).
  assert (R0 : rok s (aid a) sg0).
  { split.
    - intros x y _ _. unfold sg0. destruct (get (am a) x) as [v|] eqn:Ex; destruct (get (am a) y) as [w|] eqn:Ey; intros Eq; try lia.
      assert (v = w) by lia. subst w. eapply Ia; eauto.
    - intros x _. unfold sg0, is_B. destruct (get (am a) x); lia. }
  assert (T0 : rok s (aid b) tau0).
  { split.
    - intros x y _ _. unfold tau0. destruct (get (am b) x) as [v|] eqn:Ex; destruct (get (am b) y) as [w|] eqn:Ey; intros Eq; try lia.
      assert (v = w) by lia. subst w. eapply Ib; eauto.
    - intros x _. unfold tau0, is_B. destruct (get (am b) x); lia. }
  apply (clsT_transfer E s (aid a) (aid b) sg0 tau0 W); try assumption.
  - apply H; try assumption. intros x y v Hx Hy. unfold sg0, tau0. rewrite Hx, Hy. reflexivity.
  - intros x y _ _. unfold sg0, tau0. destruct (get (am a) x) as [v|] eqn:Ex; destruct (get (am b) y) as [w|] eqn:Ey; intros Eq; try lia.
    assert (v = w) by lia. subst w. eapply C; eauto.
Qed.

(* the `sim` form of union_asserted_sim_den *)
Theorem handle_sim : forall E s l r tl tr, syn_wf s -> covers s l -> covers s r ->
  handle_ok E s l tl -> handle_ok E s r tr -> sim (E ++ [(tl, tr)]) s l r.
Proof.
  intros E s l r tl tr W (cl & Hcl & Il & _) (cr & Hcr & Ir & _) [NBl Hl] [NBr Hr] sg tau Rs Rt C.
  set (K1 := bnd (values_vec (am l) ++ values_vec (am r)) + 1).
  set (sg0 := ext_ren (fun v => v) (am l) K1).
  set (K2 := bnd (values_vec (am l) ++ values_vec (am r) ++ map sg0 (SS s (aid l))) + 1).
  set (tau0 := ext_ren (fun v => v) (am r) K2).
  assert (V1 : forall m x v, get m x = Some v -> In v (values_vec m)).
  { intros m x v G. apply get_in in G. unfold values_vec. apply in_map_iff. exists (x, v). split; [reflexivity|exact G]. }
  assert (B1 : forall x v, get (am l) x = Some v -> v < K1).
  { intros x v G. unfold K1. pose proof (bnd_ge (values_vec (am l) ++ values_vec (am r)) v) as T.
    assert (In v (values_vec (am l) ++ values_vec (am r))) by (apply in_or_app; left; eapply V1; eauto). apply T in H. lia. }
  assert (B1' : forall x v, get (am r) x = Some v -> v < K1).
  { intros x v G. unfold K1. pose proof (bnd_ge (values_vec (am l) ++ values_vec (am r)) v) as T.
    assert (In v (values_vec (am l) ++ values_vec (am r))) by (apply in_or_app; right; eapply V1; eauto). apply T in H. lia. }
  assert (B2 : forall x v, get (am r) x = Some v -> v < K2).
  { intros x v G. unfold K2. pose proof (bnd_ge (values_vec (am l) ++ values_vec (am r) ++ map sg0 (SS s (aid l))) v) as T.
    assert (In v (values_vec (am l) ++ values_vec (am r) ++ map sg0 (SS s (aid l)))) by (apply in_or_app; right; apply in_or_app; left; eapply V1; eauto).
    apply T in H. lia. }
  assert (B3 : forall x, In x (SS s (aid l)) -> sg0 x < K2).
  { intros x Hx. unfold K2. pose proof (bnd_ge (values_vec (am l) ++ values_vec (am r) ++ map sg0 (SS s (aid l))) (sg0 x)) as T.
    assert (In (sg0 x) (values_vec (am l) ++ values_vec (am r) ++ map sg0 (SS s (aid l)))) by (apply in_or_app; right; apply in_or_app; right; apply in_map; exact Hx).
    apply T in H. lia. }
  assert (C1 : completion s l sg0).
  { split; [|intros x v G; unfold sg0, ext_ren; rewrite G; reflexivity]. split.
    - intros x y _ _. unfold sg0, ext_ren. destruct (get (am l) x) as [v|] eqn:Ex; destruct (get (am l) y) as [w|] eqn:Ey; intros Eq.
      + subst w. eapply Il; eauto.
      + apply B1 in Ex. lia.
      + apply B1 in Ey. lia.
      + lia.
    - intros x _. unfold sg0, ext_ren. destruct (get (am l) x) as [v|] eqn:Ex; [eapply NBl; eauto|unfold is_B; lia]. }
  assert (C2 : completion s r tau0).
  { split; [|intros x v G; unfold tau0, ext_ren; rewrite G; reflexivity]. split.
    - intros x y _ _. unfold tau0, ext_ren. destruct (get (am r) x) as [v|] eqn:Ex; destruct (get (am r) y) as [w|] eqn:Ey; intros Eq.
      + subst w. eapply Ir; eauto.
      + apply B2 in Ex. lia.
      + apply B2 in Ey. lia.
      + lia.
    - intros x _. unfold tau0, ext_ren. destruct (get (am r) x) as [v|] eqn:Ex; [eapply NBr; eauto|unfold is_B; lia]. }
  assert (M : forall e, In e E -> In e (E ++ [(tl, tr)])) by (intros e He; apply in_or_app; left; exact He).
  assert (D0 : Deriv (E ++ [(tl, tr)]) 0 (clsT s sg0 (aid l)) (clsT s tau0 (aid r))).
  { apply D_trans with tl; [apply D_sym; eapply Deriv_mono; [exact M|]; apply Hl; exact C1|].
    apply D_trans with tr; [|eapply Deriv_mono; [exact M|]; apply Hr; exact C2].
    apply Deriv_asserted. apply in_or_app. right. left. reflexivity. }
  apply (clsT_transfer _ s (aid l) (aid r) sg0 tau0 W D0 (proj1 C1) (proj1 C2) 0 sg tau).
  - apply rokdL_0. exact Rs.
  - apply rokdL_0. exact Rt.
  - intros x y Hx Hy. pose proof (B3 x Hx) as Bx. unfold tau0. unfold sg0 in Bx |- *. unfold ext_ren in *.
    destruct (get (am l) x) as [v|] eqn:Ex; destruct (get (am r) y) as [w|] eqn:Ey; intros Eq.
    + subst w. eapply C; eauto.
    + lia.
    + apply B1' in Ey. lia.
    + lia.
Qed.

(* ====================================================================== *)
(* 5. nodes that denote (an invocation of) a class                         *)
(* ====================================================================== *)

Lemma NodeArg_rho_ext : forall s d rho a t, NodeArg s d rho a t ->
  forall rho', (forall x, In x (pub_occ_f a) -> rho x = rho' x) -> NodeArg s d rho' a t.
Proof.
  intros s d rho a t H. induction H as [d rho x|d rho p|d rho x b t H IH|d rho a tau R Cm]; intros rho' X.
  - rewrite X; [constructor|left; reflexivity].
  - constructor.
  - constructor. apply IH. intros y Hy. unfold upd. destruct (y =? x) eqn:E; [reflexivity|].
    apply X. cbn [pub_occ_f]. apply filter_In. split; [exact Hy|]. rewrite E. reflexivity.
  - apply NA_app; [exact R|]. intros y v G. rewrite (Cm _ _ G). apply X. cbn [pub_occ_f].
    apply get_in in G. unfold values_vec. apply in_map_iff. exists (y, v). split; [reflexivity|exact G].
Qed.

Lemma NodeT_rho_ext : forall s n rho rho' t, (forall x, In x (slots n) -> rho x = rho' x) ->
  NodeT s rho n t -> NodeT s rho' n t.
Proof.
  intros s n rho rho' t X (args & F & ->). exists args. split; [|reflexivity].
  assert (Y : forall a, In a (nargs n) -> forall x, In x (pub_occ_f a) -> rho x = rho' x).
  { intros a Ha x Hx. apply X. eapply pub_occ_f_in; eauto. }
  clear X. induction F as [|a t l l' Hat F IH]; constructor.
  - eapply NodeArg_rho_ext; [exact Hat|]. apply Y. left. reflexivity.
  - apply IH. intros a' Ha'. apply Y. right. exact Ha'.
Qed.

(* the node n, written in the name space of the invocation a, is equal to the class of a: for
   renamings sg (of the syntactic slots of the class) and rho (of the slots of n) that identify
   exactly what a identifies, every term of n under rho is equal to the class term under sg *)
Definition nsound (E : equations) (s : egraph) (a : appid) (n : node) : Prop :=
  forall sg rho t, rokL (SS s (aid a)) sg -> rokL (slots n) rho ->
    (forall x v, get (am a) x = Some v -> sg x = rho v) ->
    (forall x y, In x (SS s (aid a)) -> In y (slots n) -> sg x = rho y -> get (am a) x = Some y) ->
    NodeT s rho n t -> Deriv E 0 (clsT s sg (aid a)) t.

Definition memb (x : N) (l : list N) : bool := existsb (N.eqb x) l.
Lemma memb_in : forall x l, memb x l = true <-> In x l.
Proof.
  intros x l. unfold memb. rewrite existsb_exists. split.
  - intros (y & Hy & E). apply N.eqb_eq in E. subst y. exact Hy.
  - intros H. exists x. split; [exact H|apply N.eqb_refl].
Qed.

(* I2 of SoundFacts.v is nsound for the identity invocation on the syntactic slots *)
Lemma nsound_of_I2 : forall E s i n,
  (forall sg t, rokL (SS s i ++ slots n) sg -> NodeT s sg n t -> Deriv E 0 (clsT s sg i) t) ->
  nsound E s (idapp s i) n.
Proof.
  intros E s i n H sg rho t [Is Ns] [Ir Nr] Ag Jn NT. cbn [aid am idapp] in *.
  set (sg' := fun z => if memb z (SS s i) then sg z else rho z).
  assert (A1 : forall x, In x (SS s i) -> sg' x = sg x).
  { intros x Hx. unfold sg'. rewrite (proj2 (memb_in _ _) Hx). reflexivity. }
  assert (A2 : forall y, In y (slots n) -> sg' y = rho y).
  { intros y Hy. unfold sg'. destruct (memb y (SS s i)) eqn:M; [|reflexivity]. apply memb_in in M.
    apply Ag. apply identity_get_in. exact M. }
  rewrite (clsT_rho_ext s sg sg' i) by (intros x Hx; symmetry; apply A1; exact Hx).
  apply H.
  - split.
    + intros x y Hx Hy Eq. apply in_app_or in Hx. apply in_app_or in Hy.
      destruct Hx as [Hx|Hx]; destruct Hy as [Hy|Hy].
      * rewrite (A1 _ Hx), (A1 _ Hy) in Eq. apply Is; assumption.
      * rewrite (A1 _ Hx), (A2 _ Hy) in Eq. apply (Jn _ _ Hx Hy) in Eq. apply identity_get in Eq. tauto.
      * rewrite (A2 _ Hx), (A1 _ Hy) in Eq. symmetry in Eq. apply (Jn _ _ Hy Hx) in Eq. apply identity_get in Eq. symmetry. tauto.
      * rewrite (A2 _ Hx), (A2 _ Hy) in Eq. apply Ir; assumption.
    + intros x Hx. apply in_app_or in Hx. destruct Hx as [Hx|Hx]; [rewrite (A1 _ Hx); apply Ns; exact Hx|rewrite (A2 _ Hx); apply Nr; exact Hx].
  - eapply NodeT_rho_ext; [|exact NT]. intros x Hx. symmetry. apply A2. exact Hx.
Qed.

Lemma I2_of_nsound : forall E s i n, nsound E s (idapp s i) n ->
  forall sg t, rokL (SS s i ++ slots n) sg -> NodeT s sg n t -> Deriv E 0 (clsT s sg i) t.
Proof.
  intros E s i n H sg t [Is Ns] NT. apply (H sg sg t); cbn [aid am idapp].
  - split; [intros x y Hx Hy; apply Is; apply in_or_app; left; assumption|intros x Hx; apply Ns; apply in_or_app; left; exact Hx].
  - split; [intros x y Hx Hy; apply Is; apply in_or_app; right; assumption|intros x Hx; apply Ns; apply in_or_app; right; exact Hx].
  - intros x v G. apply identity_get in G. destruct G as [-> _]. reflexivity.
  - intros x y Hx Hy Eq. assert (x = y) by (apply Is; [apply in_or_app; left; exact Hx|apply in_or_app; right; exact Hy|exact Eq]).
    subst y. apply identity_get_in. exact Hx.
  - exact NT.
Qed.

(* the stored nodes of a sound state *)
Lemma Sound_nsound : forall E s i c sh bij src n, Sound E s -> get_class s i = Ok c ->
  In (sh, (bij, src)) (c_nodes c) -> apply_slotmap false bij sh = Ok n -> nsound E s (idapp s i) n.
Proof.
  intros E s i c sh bij src n S Hc Hin Hn. apply nsound_of_I2. intros sg t R NT.
  exact (snd_node E s S i c sh bij src n sg t Hc Hin Hn R NT).
Qed.

(* two nodes that are equal up to the renaming theta of the free slots (and alpha-renaming) *)
Definition equiv_by (theta : N -> N) (n n' : node) : Prop :=
  skel n = skel n' /\ inj_on theta (pub_occ n) /\ map (rename_occ theta) (pattern n) = pattern n'.

Print Assumptions syn_t_rho_ext.
Print Assumptions syn_t_cren.
Print Assumptions syn_t_names.
Print Assumptions clsT_transfer.
Print Assumptions sim_lift.
Print Assumptions handle_sim.
Print Assumptions nsound_of_I2.
Print Assumptions I2_of_nsound.
