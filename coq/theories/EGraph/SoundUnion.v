(* EGraph/SoundUnion.v — C01, Stage 3: the soundness invariant `Sound` of EGraph/SoundFacts.v is kept
   by the steps of a union (shrink_slots, gadd_set, move_to, union_leaders, union_internal), given
   that the two invocations being united are related by `sim`.
   See the summary at the end of the file for what is proved and what is assumed. *)
From SE Require Import Slots.SlotMapFacts Group.GroupSound Lang.LangFacts Lang.ShapeFacts Lang.RenameFacts
  Base.TextFacts EGraph.Model EGraph.ModelFacts EGraph.ModelMachine EGraph.UnionFindFacts EGraph.InvariantFacts
  EGraph.UnionInvariantFacts EGraph.AddCoversFacts EGraph.MonotoneFacts EGraph.SoundFacts.
From SE Require Import Sem.Deriv Sem.DerivFacts Explain.CheckerFacts.
Require Import ZArith Lia ZifyBool ZifyN ZifyNat.
Ltac Zify.zify_post_hook ::= Z.div_mod_to_equations.

Local Notation "a ** b" := (compose_partial a b) (at level 40, left associativity).
Local Notation inv := inverse_nocheck.
Local Notation ectr := Model.ctr.

Local Ltac neq := repeat match goal with
  | H : (_ =? _) = true |- _ => apply N.eqb_eq in H
  | H : (_ =? _) = false |- _ => apply N.eqb_neq in H
  end.

(* ====================================================================== *)
(* 1. the invariant only looks at the syntactic nodes of the classes        *)
(* ====================================================================== *)

Definition syn_of (s : egraph) (i : N) : option node :=
  match nth_opt (classes s) (N.to_nat i) with Some c => Some (c_syn c) | None => None end.

(* the syntactic nodes of all classes agree (and the same classes exist) *)
Definition synsame (s s' : egraph) : Prop := forall i, syn_of s' i = syn_of s i.

Lemma synsame_refl : forall s, synsame s s.
Proof. intros s i. reflexivity. Qed.
Lemma synsame_sym : forall s s', synsame s s' -> synsame s' s.
Proof. intros s s' H i. symmetry. apply H. Qed.
Lemma synsame_trans : forall a b c, synsame a b -> synsame b c -> synsame a c.
Proof. intros a b c H1 H2 i. rewrite H2. apply H1. Qed.

Lemma syn_t_synsame : forall s s', synsame s s' ->
  forall f d rho i, syn_t s' f d rho i = syn_t s f d rho i.
Proof.
  intros s s' Hc. induction f as [|f IH]; intros d rho i; [reflexivity|]. cbn [syn_t].
  pose proof (Hc i) as E. unfold syn_of in E.
  destruct (nth_opt (classes s') (N.to_nat i)) as [c'|]; destruct (nth_opt (classes s) (N.to_nat i)) as [c|];
    try discriminate; [|reflexivity].
  inversion E as [E']. f_equal. apply map_ext. intros a. apply arg_t_ext. intros d' rho' x. rewrite IH. reflexivity.
Qed.

Lemma clsT_synsame : forall s s' rho i, synsame s s' -> clsT s' rho i = clsT s rho i.
Proof. intros s s' rho i H. unfold clsT, syn_at. apply syn_t_synsame. exact H. Qed.

Lemma SS_synsame : forall s s' i, synsame s s' -> SS s' i = SS s i.
Proof.
  intros s s' i H. pose proof (H i) as E. unfold syn_of in E. unfold SS, get_class.
  destruct (nth_opt (classes s') (N.to_nat i)) as [c'|]; destruct (nth_opt (classes s) (N.to_nat i)) as [c|];
    try discriminate; [|reflexivity]. inversion E as [E']. reflexivity.
Qed.

Lemma sim_synsame : forall E s s' a b, synsame s s' -> sim E s a b -> sim E s' a b.
Proof.
  intros E s s' a b Hc H sg tau Rs Rt C. unfold rok in *.
  rewrite (SS_synsame _ _ _ Hc) in Rs. rewrite (SS_synsame _ _ _ Hc) in Rt.
  rewrite !(clsT_synsame _ _ _ _ Hc). apply H; assumption.
Qed.

Lemma NodeArg_synsame : forall s s', synsame s s' ->
  forall d rho a t, NodeArg s' d rho a t -> NodeArg s d rho a t.
Proof.
  intros s s' Hc d rho a t H. induction H as [d rho x|d rho p|d rho x b t H IH|d rho a tau R Cm].
  - constructor.
  - constructor.
  - constructor. exact IH.
  - unfold syn_at. rewrite (syn_t_synsame _ _ Hc). rewrite (SS_synsame _ _ _ Hc) in R.
    apply (NA_app s d rho a tau R Cm).
Qed.

Lemma NodeT_synsame : forall s s' rho n t, synsame s s' -> NodeT s' rho n t -> NodeT s rho n t.
Proof.
  intros s s' rho n t Hc (args & F & ->). exists args. split; [|reflexivity].
  clear -F Hc. induction F as [|a t l l' Hat F IH]; constructor; [|exact IH]. eapply NodeArg_synsame; eauto.
Qed.

Lemma ext_synsame : forall s s', ext s s' -> synsame s s'.
Proof.
  intros s s' (_ & L & X) i. unfold syn_of.
  destruct (nth_opt (classes s) (N.to_nat i)) as [c|] eqn:E.
  - assert (Hc : get_class s i = Ok c) by (unfold get_class; rewrite E; reflexivity).
    destruct (X _ _ Hc) as (c' & Hc' & _ & Sy). unfold get_class in Hc'.
    destruct (nth_opt (classes s') (N.to_nat i)) as [c0|]; [|discriminate]. inversion Hc'; subst c0. rewrite Sy. reflexivity.
  - destruct (nth_opt (classes s') (N.to_nat i)) as [c'|] eqn:E'; [|reflexivity]. exfalso.
    assert (Hc' : get_class s' i = Ok c') by (unfold get_class; rewrite E'; reflexivity).
    pose proof (get_class_lt _ _ _ Hc') as Lt. rewrite L in Lt.
    destruct (nth_opt_some_lt _ _ Lt) as [c Hc]. congruence.
Qed.

Lemma classes_synsame : forall s s', classes s' = classes s -> synsame s s'.
Proof. intros s s' H i. unfold syn_of. rewrite H. reflexivity. Qed.

(* the invariant of a state s', every clause stated with the terms of a state s with the same
   syntactic nodes *)
Lemma Sound_intro_syn : forall E s s', synsame s s' ->
  (forall i e, uentry (unionfind s') i = Some e -> sim E s (idapp s i) e) ->
  (forall i c' sh bij src n sg t, get_class s' i = Ok c' -> In (sh, (bij, src)) (c_nodes c') ->
     apply_slotmap false bij sh = Ok n -> rokL (SS s i ++ slots n) sg -> NodeT s sg n t ->
     Deriv E 0 (clsT s sg i) t) ->
  (forall i c' p, get_class s' i = Ok c' -> perm_on (c_slots c') p ->
     gcontains false (c_group c') p = Ok true -> sim E s (cidapp i c') {| aid := i; am := p |}) ->
  Sound E s'.
Proof.
  intros E s s' Hc A Bn C. constructor.
  - intros i e H. unfold idapp. rewrite (SS_synsame _ _ _ Hc). apply (sim_synsame E s s' _ _ Hc). apply A. exact H.
  - intros i c sh bij src n sg t H1 H2 H3 H4 H5. rewrite (SS_synsame _ _ _ Hc) in H4.
    rewrite (clsT_synsame _ _ _ _ Hc). eapply Bn; eauto. eapply NodeT_synsame; eauto.
  - intros i c p H1 H2 H3. apply (sim_synsame E s s' _ _ Hc). eapply C; eauto.
Qed.

(* ====================================================================== *)
(* 2. building admissible renamings                                        *)
(* ====================================================================== *)

(* a partial renaming completed by new names: 8 (x + K) + o, o = 0 or 4 *)
Definition ren2 (th : N -> option N) (o K : N) (x : N) : N :=
  match th x with Some n => n | None => 8 * (x + K) + o end.

Lemma ren2_rok : forall L th o K, (o = 0 \/ o = 4) ->
  (forall x y n, In x L -> In y L -> th x = Some n -> th y = Some n -> x = y) ->
  (forall x n, In x L -> th x = Some n -> is_B n = false /\ (n < 4 * K \/ n mod 8 <> o)) ->
  rokL L (ren2 th o K).
Proof.
  intros L th o K Ho Inj Bd. split.
  - intros x y Hx Hy. unfold ren2.
    destruct (th x) as [n|] eqn:Ex; destruct (th y) as [n'|] eqn:Ey; intros H.
    + subst n'. eapply Inj; eauto.
    + destruct (Bd _ _ Hx Ex) as [_ Lt]. lia.
    + destruct (Bd _ _ Hy Ey) as [_ Lt]. lia.
    + lia.
  - intros x Hx. unfold ren2. destruct (th x) as [n|] eqn:Ex.
    + exact (proj1 (Bd _ _ Hx Ex)).
    + unfold is_B. destruct Ho as [-> | ->]; apply N.eqb_neq; lia.
Qed.

(* a common bound for two renamings on two lists *)
Definition bound2 (sg : N -> N) (L : list N) (tau : N -> N) (L' : list N) : N :=
  bound_of sg L + bound_of tau L'.

Lemma bound2_l : forall sg L tau L' v, In v L -> sg v < 4 * bound2 sg L tau L'.
Proof. intros sg L tau L' v H. pose proof (bound_of_spec sg L v H). unfold bound2. lia. Qed.
Lemma bound2_r : forall sg L tau L' v, In v L' -> tau v < 4 * bound2 sg L tau L'.
Proof. intros sg L tau L' v H. pose proof (bound_of_spec tau L' v H). unfold bound2. lia. Qed.

(* the key of a value, searched in a list *)
Definition fkey (L : list N) (m : slotmap) (v : N) : option N :=
  find (fun x => match get m x with Some v' => v' =? v | None => false end) L.

Lemma fkey_some : forall L m v x, fkey L m v = Some x -> In x L /\ get m x = Some v.
Proof.
  intros L m v x H. unfold fkey in H. apply find_some in H. destruct H as [Hin H]. split; [exact Hin|].
  destruct (get m x) as [v'|]; [|discriminate]. neq. subst v'. reflexivity.
Qed.

Lemma fkey_in : forall L m v x, injective m -> In x L -> get m x = Some v -> fkey L m v = Some x.
Proof.
  intros L m v x Im Hin G. unfold fkey.
  destruct (find _ L) as [x'|] eqn:E.
  - apply find_some in E. destruct E as [_ E]. destruct (get m x') as [v'|] eqn:G'; [|discriminate]. neq. subst v'.
    f_equal. eapply Im; eauto.
  - pose proof (find_none _ _ E x Hin) as T. cbv beta in T. rewrite G, N.eqb_refl in T. discriminate.
Qed.

(* the keys of an invocation are syntactic slots of its class *)
Definition skeys (s : egraph) (a : appid) : Prop := forall k, get (am a) k <> None -> In k (SS s (aid a)).

(* ====================================================================== *)
(* 3. the detour lemma: it suffices to relate renamings without accidental coincidences *)
(* ====================================================================== *)

Definition simw (E : equations) (s : egraph) (a b : appid) : Prop :=
  forall sg tau, rok s (aid a) sg -> rok s (aid b) tau ->
    (forall x y v, get (am a) x = Some v -> get (am b) y = Some v -> sg x = tau y) ->
    (forall x y, In x (SS s (aid a)) -> In y (SS s (aid b)) -> sg x = tau y ->
       exists v, get (am a) x = Some v /\ get (am b) y = Some v) ->
    Deriv E 0 (clsT s sg (aid a)) (clsT s tau (aid b)).

Lemma sim_simw : forall E s a b, sim E s a b -> simw E s a b.
Proof. intros E s a b H sg tau Rs Rt C _. apply H; assumption. Qed.

Theorem simw_sim : forall E s a b, injective (am a) -> injective (am b) -> skeys s a -> skeys s b ->
  simw E s a b -> sim E s a b.
Proof.
  intros E s [i ma] [j mb] Ia Ib Ka Kb H sg tau Rs Rt C. cbn [aid am] in *. unfold skeys in Ka, Kb. cbn [aid am] in Ka, Kb.
  set (La := SS s i) in *. set (Lb := SS s j) in *.
  set (K := bound2 sg La tau Lb).
  set (th1 := fun y => match get mb y with
                       | Some v => match fkey La ma v with Some x => Some (sg x) | None => None end
                       | None => None end).
  set (tau1 := ren2 th1 0 K).
  assert (T1 : forall y n, th1 y = Some n -> exists x v, In x La /\ get ma x = Some v /\ get mb y = Some v /\ n = sg x).
  { intros y n Hn. unfold th1 in Hn. destruct (get mb y) as [v|] eqn:Gy; [|discriminate].
    destruct (fkey La ma v) as [x|] eqn:Fx; [|discriminate]. apply fkey_some in Fx. destruct Fx as [Hx Gx].
    inversion Hn; subst n. exists x, v. auto. }
  assert (R1 : rokL Lb tau1).
  { apply ren2_rok; [left; reflexivity| |].
    - intros y1 y2 n _ _ H1 H2. destruct (T1 _ _ H1) as (x1 & v1 & X1 & G1 & M1 & E1).
      destruct (T1 _ _ H2) as (x2 & v2 & X2 & G2 & M2 & E2).
      assert (x1 = x2) by (apply (proj1 Rs); [assumption|assumption|congruence]). subst x2.
      assert (v1 = v2) by congruence. subst v2. eapply Ib; eauto.
    - intros y n _ Hn. destruct (T1 _ _ Hn) as (x & v & X & _ & _ & ->). split; [apply (proj2 Rs); exact X|].
      left. apply bound2_l. exact X. }
  assert (C1 : forall x y v, get ma x = Some v -> get mb y = Some v -> sg x = tau1 y).
  { intros x y v Gx Gy. unfold tau1, ren2, th1. rewrite Gy.
    rewrite (fkey_in La ma v x Ia); [reflexivity| |exact Gx]. apply Ka. congruence. }
  assert (D1 : Deriv E 0 (clsT s sg i) (clsT s tau1 j)).
  { apply (H sg tau1 Rs R1 C1). intros x y Hx Hy Heq. unfold tau1, ren2 in Heq.
    destruct (th1 y) as [n|] eqn:Ty.
    - destruct (T1 _ _ Ty) as (x' & v & X' & G' & M' & ->).
      assert (x = x') by (apply (proj1 Rs); [assumption|assumption|congruence]). subst x'. exists v. auto.
    - pose proof (bound2_l sg La tau Lb x Hx) as Bx. fold K in Bx. lia. }
  set (K2 := bound2 tau1 Lb tau Lb).
  set (th2 := fun x => match get ma x with
                       | Some v => match fkey Lb mb v with Some y => Some (tau1 y) | None => None end
                       | None => None end).
  set (sg2 := ren2 th2 0 K2).
  assert (T2 : forall x n, th2 x = Some n -> exists y v, In y Lb /\ get ma x = Some v /\ get mb y = Some v /\ n = tau1 y).
  { intros x n Hn. unfold th2 in Hn. destruct (get ma x) as [v|] eqn:Gx; [|discriminate].
    destruct (fkey Lb mb v) as [y|] eqn:Fy; [|discriminate]. apply fkey_some in Fy. destruct Fy as [Hy Gy].
    inversion Hn; subst n. exists y, v. auto. }
  assert (R2 : rokL La sg2).
  { apply ren2_rok; [left; reflexivity| |].
    - intros x1 x2 n _ _ H1 H2. destruct (T2 _ _ H1) as (y1 & v1 & Y1 & G1 & M1 & E1).
      destruct (T2 _ _ H2) as (y2 & v2 & Y2 & G2 & M2 & E2).
      assert (y1 = y2) by (apply (proj1 R1); [assumption|assumption|congruence]). subst y2.
      assert (v1 = v2) by congruence. subst v2. eapply Ia; eauto.
    - intros x n _ Hn. destruct (T2 _ _ Hn) as (y & v & Y & _ & _ & ->). split; [apply (proj2 R1); exact Y|].
      left. apply bound2_l. exact Y. }
  assert (C2 : forall x y v, get ma x = Some v -> get mb y = Some v -> sg2 x = tau1 y).
  { intros x y v Gx Gy. unfold sg2, ren2, th2. rewrite Gx.
    rewrite (fkey_in Lb mb v y Ib); [reflexivity| |exact Gy]. apply Kb. congruence. }
  assert (D2 : Deriv E 0 (clsT s sg2 i) (clsT s tau1 j)).
  { apply (H sg2 tau1 R2 R1 C2). intros x y Hx Hy Heq. unfold sg2, ren2 in Heq.
    destruct (th2 x) as [n|] eqn:Tx.
    - destruct (T2 _ _ Tx) as (y' & v & Y' & G' & M' & ->).
      assert (y = y') by (apply (proj1 R1); [assumption|assumption|congruence]). subst y'. exists v. auto.
    - pose proof (bound2_l tau1 Lb tau Lb y Hy) as By. fold K2 in By. lia. }
  assert (D3 : Deriv E 0 (clsT s sg2 i) (clsT s tau j)).
  { apply (H sg2 tau R2 Rt).
    - intros x y v Gx Gy. rewrite (C2 x y v Gx Gy). rewrite <- (C1 x y v Gx Gy). eapply C; eauto.
    - intros x y Hx Hy Heq. unfold sg2, ren2 in Heq. destruct (th2 x) as [n|] eqn:Tx.
      + destruct (T2 _ _ Tx) as (y' & v & Y' & G' & M' & ->).
        assert (E1 : tau1 y' = tau y') by (rewrite <- (C1 x y' v G' M'); eapply C; eauto).
        assert (y = y') by (apply (proj1 Rt); [assumption|assumption|congruence]). subst y'. exists v. auto.
      + pose proof (bound2_r tau1 Lb tau Lb y Hy) as By. fold K2 in By. lia. }
  apply D_trans with (clsT s tau1 j); [exact D1|]. apply D_trans with (clsT s sg2 i); [apply D_sym; exact D2|exact D3].
Qed.

(* ====================================================================== *)
(* 4. canonical forms: l ~~ r gives find l ~~ find r                        *)
(* ====================================================================== *)

Lemma canon_skeys : forall s a, eg_inv s -> canon_ok s a -> injective (am a) /\ skeys s a.
Proof.
  intros s a Hs (c & Hc & _ & W & Bj & K). split; [apply is_bijection_injective; assumption|].
  intros k Hk. rewrite (SS_class _ _ _ Hc). destruct (ei_cls s Hs _ _ Hc) as (_ & _ & Sub). apply Sub.
  rewrite <- K. apply keys_spec. exact Hk.
Qed.

Theorem sim_find_both : forall E s l r l' r', Sound E s -> eg_inv s -> covers s l -> covers s r ->
  find_applied_id s l = Ok l' -> find_applied_id s r = Ok r' -> sim E s l r -> sim E s l' r'.
Proof.
  intros E s l r l' r' S I Cl Cr Fl Fr H. pose proof I as [Hok Hs Hcl].
  pose proof (find_sim E s l l' S I Cl Fl) as SA. pose proof (find_sim E s r r' S I Cr Fr) as SB.
  destruct (canon_skeys s l' I (find_canon s l l' Hok Hs Cl Fl)) as [Il' Kl'].
  destruct (canon_skeys s r' I (find_canon s r r' Hok Hs Cr Fr)) as [Ir' Kr'].
  destruct Cl as (cl & Hcl1 & Il & _). destruct Cr as (cr & Hcr1 & Ir & _).
  destruct l as [i ml]. destruct r as [j mr]. destruct l' as [i' ml']. destruct r' as [j' mr'].
  unfold skeys in *. cbn [aid am] in *.
  apply simw_sim; try assumption. intros sg' tau' Rs Rt C X. cbn [aid am] in *.
  set (La := SS s i') in *. set (Lb := SS s j') in *.
  set (K := bound2 sg' La tau' Lb).
  set (Th := fun v => match fkey La ml' v with
                      | Some y => Some (sg' y)
                      | None => match fkey Lb mr' v with Some w => Some (tau' w) | None => None end
                      end).
  set (V := ren2 Th 0 K).
  assert (TT : forall v n, Th v = Some n ->
             (exists y, In y La /\ get ml' y = Some v /\ n = sg' y) \/
             (fkey La ml' v = None /\ exists w, In w Lb /\ get mr' w = Some v /\ n = tau' w)).
  { intros v n Hn. unfold Th in Hn. destruct (fkey La ml' v) as [y|] eqn:Fy.
    - apply fkey_some in Fy. inversion Hn; subst n. left. exists y. tauto.
    - destruct (fkey Lb mr' v) as [w|] eqn:Fw; [|discriminate]. apply fkey_some in Fw. inversion Hn; subst n.
      right. split; [reflexivity|]. exists w. tauto. }
  assert (TB : forall v n, Th v = Some n -> is_B n = false /\ n < 4 * K).
  { intros v n Hn. destruct (TT _ _ Hn) as [(y & Y & _ & ->)|(_ & w & W & _ & ->)].
    - split; [apply (proj2 Rs); exact Y|apply bound2_l; exact Y].
    - split; [apply (proj2 Rt); exact W|apply bound2_r; exact W]. }
  assert (V1 : forall v1 v2, V v1 = V v2 -> v1 = v2).
  { intros v1 v2. unfold V, ren2. destruct (Th v1) as [n1|] eqn:T1; destruct (Th v2) as [n2|] eqn:T2; intros Heq.
    - subst n2. destruct (TT _ _ T1) as [(y1 & Y1 & G1 & E1)|(N1 & w1 & W1 & G1 & E1)];
        destruct (TT _ _ T2) as [(y2 & Y2 & G2 & E2)|(N2 & w2 & W2 & G2 & E2)].
      + assert (y1 = y2) by (apply (proj1 Rs); [assumption|assumption|congruence]). congruence.
      + destruct (X y1 w2 Y1 W2) as (v & A1 & A2); [congruence|]. congruence.
      + destruct (X y2 w1 Y2 W1) as (v & A1 & A2); [congruence|]. congruence.
      + assert (w1 = w2) by (apply (proj1 Rt); [assumption|assumption|congruence]). congruence.
    - destruct (TB _ _ T1) as [_ Lt]. lia.
    - destruct (TB _ _ T2) as [_ Lt]. lia.
    - lia. }
  assert (V2 : forall v, is_B (V v) = false /\ (V v < 4 * K \/ V v mod 8 <> 4)).
  { intros v. unfold V, ren2. destruct (Th v) as [n|] eqn:T.
    - destruct (TB _ _ T) as [A Lt]. auto.
    - split; [unfold is_B; apply N.eqb_neq; lia|right; lia]. }
  set (sg := ren2 (fun x => option_map V (get ml x)) 4 K).
  set (tau := ren2 (fun x => option_map V (get mr x)) 4 K).
  assert (RK : forall (L : list N) (m : slotmap), injective m -> rokL L (ren2 (fun x => option_map V (get m x)) 4 K)).
  { intros L m Im. apply ren2_rok; [right; reflexivity| |].
    - intros x y n _ _ Hx Hy. destruct (get m x) as [v1|] eqn:G1; [|discriminate].
      destruct (get m y) as [v2|] eqn:G2; [|discriminate]. cbn [option_map] in Hx, Hy.
      assert (v1 = v2) by (apply V1; congruence). subst v2. eapply Im; eauto.
    - intros x n _ Hx. destruct (get m x) as [v|]; [|discriminate]. cbn [option_map] in Hx. inversion Hx; subst n. apply V2. }
  assert (Rsg : rok s i sg) by (apply RK; exact Il).
  assert (Rtau : rok s j tau) by (apply RK; exact Ir).
  assert (Esg : forall x v, get ml x = Some v -> sg x = V v).
  { intros x v G. unfold sg, ren2. rewrite G. reflexivity. }
  assert (Etau : forall x v, get mr x = Some v -> tau x = V v).
  { intros x v G. unfold tau, ren2. rewrite G. reflexivity. }
  assert (VL : forall y v, get ml' y = Some v -> V v = sg' y).
  { intros y v G. unfold V, ren2, Th. rewrite (fkey_in La ml' v y Il'); [reflexivity| |exact G]. apply Kl'. congruence. }
  assert (VR : forall w v, get mr' w = Some v -> V v = tau' w).
  { intros w v G. unfold V, ren2, Th. destruct (fkey La ml' v) as [y|] eqn:Fy.
    - apply fkey_some in Fy. destruct Fy as [_ Gy]. eapply C; eauto.
    - rewrite (fkey_in Lb mr' v w Ir'); [reflexivity| |exact G]. apply Kr'. congruence. }
  apply D_trans with (clsT s sg i).
  { apply D_sym. apply (SA sg sg' Rsg Rs). cbn [aid am]. intros x y v Gx Gy. rewrite (Esg _ _ Gx). apply VL. exact Gy. }
  apply D_trans with (clsT s tau j).
  { apply (H sg tau Rsg Rtau). cbn [aid am]. intros x y v Gx Gy. rewrite (Esg _ _ Gx), (Etau _ _ Gy). reflexivity. }
  apply (SB tau tau' Rtau Rt). cbn [aid am]. intros x y v Gx Gy. rewrite (Etau _ _ Gx). apply VR. exact Gy.
Qed.

(* ====================================================================== *)
(* 5. symmetries and redundant slots of a class                            *)
(* ====================================================================== *)

Lemma perm_sound_synsame : forall E s s' i p, synsame s s' -> perm_sound E s i p -> perm_sound E s' i p.
Proof.
  intros E s s' i p Hc H sg tau Rs Rt C. unfold rok in *.
  rewrite (SS_synsame _ _ _ Hc) in Rs. rewrite (SS_synsame _ _ _ Hc) in Rt.
  rewrite !(clsT_synsame _ _ _ _ Hc). apply H; assumption.
Qed.

(* generated_sound of SoundFacts.v, for a slot set that need not be the one stored in the state *)
Theorem generated_sound' : forall E s i C gens, incl C (SS s i) ->
  Forall (perm_on C) gens ->
  perm_sound E s i (identity C) ->
  (forall g, In g gens -> perm_sound E s i g) ->
  forall p, generated (identity C) gens p -> perm_sound E s i p.
Proof.
  intros E s i C gens Sub HG Hid Hgens.
  pose proof (identity_is_id C) as Iid.
  assert (PO : forall p, generated (identity C) gens p -> perm_on C p).
  { intros p G. eapply generated_po; eauto. }
  intros p G. induction G as [|g Hg|a b Ga IHa Gb IHb|a Ga IHa].
  - exact Hid.
  - apply Hgens. exact Hg.
  - pose proof (PO _ Ga) as Pa. pose proof (PO _ Gb) as Pb.
    intros sg tau Rs Rt Cm.
    set (rho := ext_ren sg b (bound_of sg (SS s i))).
    assert (Rr : rok s i rho).
    { apply (ext_ren_rok (SS s i)); [exact Rs|apply Pb|].
      intros k v Gk. apply Sub. eapply po_val; eauto. }
    apply D_trans with (clsT s rho i).
    + apply (IHb sg rho Rs Rr). intros w v Hw. unfold rho, ext_ren. rewrite Hw. reflexivity.
    + apply (IHa rho tau Rr Rt). intros y w Hy.
      destruct (po_get _ b w Pb (po_val _ _ _ _ Pa Hy)) as (v & Hv & _).
      unfold rho, ext_ren. rewrite Hv. apply Cm. rewrite (get_comp _ a b y Pa), Hy. exact Hv.
  - pose proof (PO _ Ga) as Pa. intros sg tau Rs Rt Cm. apply D_sym. apply (IHa tau sg Rt Rs).
    intros y v Hy. symmetry. apply Cm. apply (po_get_inv _ a y v Pa). exact Hy.
Qed.

(* the generators extracted from a chain are generated by the permutations it was built from *)
Lemma ggens_generated : forall om idp, is_id om idp ->
  forall fuel gens g, Forall (perm_on om) gens -> gnew false fuel idp gens = Ok g ->
  forall x, In x (ggens_impl g) -> generated idp gens x.
Proof.
  intros om idp Hid. induction fuel as [|f IH]; intros gens g Hg H x Hx; [discriminate|].
  apply gnew_S in H. destruct H as [[_ ->]|(st & o & sg & g' & Hs & Ho & Hsg & Hg' & ->)].
  - cbn [ggens_impl] in Hx. contradiction.
  - destruct (level_facts om idp Hid gens st o sg Hg Hs Ho Hsg) as (_ & HO & _ & HS & Hsgpo).
    cbn [ggens_impl] in Hx. apply (proj1 (punion_in _ _ _)) in Hx. destruct Hx as [Hx|Hx].
    + apply (proj1 (pdedup_in _ _)) in Hx. apply in_map_iff in Hx. destruct Hx as ([k r] & <- & Hin).
      cbn [snd]. apply HO in Hin. apply Hin.
    + eapply generated_mono; [|eapply IH; eauto]. intros y Hy. apply HS. exact Hy.
Qed.

Lemma generators_members : forall c x, grp_ok c -> In x (ggenerators (c_group c)) ->
  gcontains false (c_group c) x = Ok true.
Proof.
  intros c x (gens & HG & Hg) Hx. pose proof (identity_is_id (c_slots c)) as Hid.
  apply (gcontains_complete _ _ gens Hid HG _ _ Hg).
  unfold ggenerators, premove in Hx. apply filter_In in Hx. destruct Hx as [Hx _].
  apply generated_pdedup. unfold group_new in Hg.
  eapply (ggens_generated _ _ Hid); [apply pdedup_po; exact HG|exact Hg|exact Hx].
Qed.

(* the members of a class group are symmetries, in the perm_sound form *)
Definition grp_sound (E : equations) (s : egraph) (i : N) (c : eclass) : Prop :=
  forall p, perm_on (c_slots c) p -> gcontains false (c_group c) p = Ok true -> perm_sound E s i p.

Lemma Sound_grp_sound : forall E s i c, Sound E s -> get_class s i = Ok c -> grp_sound E s i c.
Proof.
  intros E s i c S Hc p P G. apply (perm_sound_sim E s i c p P). exact (snd_grp E s S i c p Hc P G).
Qed.

(* gadd_set of symmetries gives a group of symmetries *)
Theorem gadd_set_sound : forall E s i c ps g' b, grp_ok c -> incl (c_slots c) (SS s i) ->
  Forall (perm_on (c_slots c)) ps -> gadd_set false (c_group c) ps = Ok (g', b) ->
  grp_sound E s i c -> (forall p, In p ps -> perm_sound E s i p) ->
  grp_sound E s i (with_group c g').
Proof.
  intros E s i c ps g' b G Sub Hps H Old New q Pq Hq. cbn [c_slots c_group with_group] in *.
  pose proof (identity_is_id (c_slots c)) as Hid.
  unfold gadd_set in H.
  match type of H with bind ?f _ = _ => destruct f as [keep|] eqn:K end; cbn [bind] in H; [|discriminate].
  pose proof (gadd_keep (perm_on (c_slots c)) _ _ _ _ Hps (Forall_nil _) K) as PK.
  assert (IK : Forall (fun p => In p ps) keep).
  { eapply gadd_keep; [| |exact K]; [apply Forall_forall; auto|constructor]. }
  destruct keep as [|k0 kt].
  - inversion H; subst g' b. apply Old; assumption.
  - match type of H with bind ?f _ = _ => destruct f as [g2|] eqn:Eg end; cbn [bind] in H; [|discriminate].
    inversion H; subst g2 b. rewrite (grp_ok_identity c G) in Eg.
    set (gens := punion (ggenerators (c_group c)) (k0 :: kt)) in *.
    assert (PG : Forall (perm_on (c_slots c)) gens).
    { apply Forall_forall. intros x Hx. apply (proj1 (punion_in _ _ _)) in Hx. destruct Hx as [Hx|Hx].
      - exact (proj1 (Forall_forall _ _) (grp_ok_generators c G) x Hx).
      - exact (proj1 (Forall_forall _ _) PK x Hx). }
    apply (generated_sound' E s i (c_slots c) gens Sub PG).
    + apply Old; [apply identity_is_id|apply gcontains_identity; exact G].
    + intros x Hx. apply (proj1 (punion_in _ _ _)) in Hx. destruct Hx as [Hx|Hx].
      * apply Old; [exact (proj1 (Forall_forall _ _) (grp_ok_generators c G) x Hx)|apply generators_members; assumption].
      * apply New. exact (proj1 (Forall_forall _ _) IK x Hx).
    + exact (gcontains_sound _ _ gens Hid PG _ _ Pq Eg Hq).
Qed.

(* the slots selected by A are redundant in class i: renamings that agree on the others give equal terms *)
Definition redund (E : equations) (s : egraph) (i : N) (A : N -> bool) : Prop :=
  forall sg tau, rok s i sg -> rok s i tau ->
    (forall x, In x (SS s i) -> A x = false -> sg x = tau x) ->
    Deriv E 0 (clsT s sg i) (clsT s tau i).

Lemma redund_synsame : forall E s s' i A, synsame s s' -> redund E s i A -> redund E s' i A.
Proof.
  intros E s s' i A Hc H sg tau Rs Rt C. unfold rok in *.
  rewrite (SS_synsame _ _ _ Hc) in Rs. rewrite (SS_synsame _ _ _ Hc) in Rt. rewrite (SS_synsame _ _ _ Hc) in C.
  rewrite !(clsT_synsame _ _ _ _ Hc). apply H; assumption.
Qed.

(* I4: the slots outside the class slots are redundant *)
Lemma redund_of_id : forall E s i C, incl C (SS s i) -> perm_sound E s i (identity C) ->
  redund E s i (fun x => negb (sset_mem x C)).
Proof.
  intros E s i C Sub H sg tau Rs Rt Cm. apply (H sg tau Rs Rt). intros y v G.
  apply identity_get in G. destruct G as [-> Hin]. apply Cm; [apply Sub; exact Hin|].
  apply negb_false_iff. apply sset_mem_in. exact Hin.
Qed.

Lemma id_of_redund : forall E s i C, redund E s i (fun x => negb (sset_mem x C)) -> perm_sound E s i (identity C).
Proof.
  intros E s i C H sg tau Rs Rt Cm. apply (H sg tau Rs Rt). intros x _ Hx.
  apply negb_false_iff in Hx. apply sset_mem_in in Hx. apply Cm. apply identity_get_in. exact Hx.
Qed.

Lemma redund_mono : forall E s i (A A' : N -> bool), (forall x, A' x = true -> A x = true) ->
  redund E s i A -> redund E s i A'.
Proof.
  intros E s i A A' Sub H sg tau Rs Rt Cm. apply (H sg tau Rs Rt). intros x Hx Ax. apply Cm; [exact Hx|].
  destruct (A' x) eqn:E'; [|reflexivity]. rewrite (Sub _ E') in Ax. discriminate.
Qed.

(* dropping redundant keys from the left invocation *)
Theorem sim_restrict : forall E s i m m' b A, sim E s {| aid := i; am := m |} b -> redund E s i A ->
  injective m -> injective (am b) -> skeys s {| aid := i; am := m' |} -> skeys s b ->
  (forall x v, get m' x = Some v -> get m x = Some v) ->
  (forall x v, get m x = Some v -> A x = false -> get m' x = Some v) ->
  sim E s {| aid := i; am := m' |} b.
Proof.
  intros E s i m m' [j mb] A H R Im Ib Km Kb Sub Sup. unfold skeys in Km, Kb. cbn [aid am] in *.
  assert (Im' : injective m').
  { intros k1 k2 v G1 G2. apply Sub in G1, G2. eapply Im; eauto. }
  apply simw_sim; try assumption. intros sg tau Rs Rt C X. cbn [aid am] in *.
  set (La := SS s i) in *. set (Lb := SS s j) in *.
  set (K := bound2 sg La tau Lb).
  set (th := fun x => match (match get m x with Some v => fkey Lb mb v | None => None end) with
                      | Some y => Some (tau y)
                      | None => if A x then None else Some (sg x)
                      end).
  set (sg0 := ren2 th 0 K).
  assert (TT : forall x n, th x = Some n ->
            (exists y v, In y Lb /\ get m x = Some v /\ get mb y = Some v /\ n = tau y) \/
            (A x = false /\ n = sg x /\ forall y v, In y Lb -> get m x = Some v -> get mb y = Some v -> False)).
  { intros x n Hn. unfold th in Hn. destruct (get m x) as [v|] eqn:G.
    - destruct (fkey Lb mb v) as [y|] eqn:Fy.
      + apply fkey_some in Fy. inversion Hn; subst n. left. exists y, v. tauto.
      + destruct (A x); [discriminate|]. inversion Hn; subst n. right. split; [reflexivity|]. split; [reflexivity|].
        intros y v' Hy Ev Gy. inversion Ev; subst v'. rewrite (fkey_in Lb mb v y Ib Hy Gy) in Fy. discriminate.
    - destruct (A x); [discriminate|]. inversion Hn; subst n. right. split; [reflexivity|]. split; [reflexivity|].
      intros y v' _ Ev. discriminate. }
  assert (R0 : rokL La sg0).
  { apply ren2_rok; [left; reflexivity| |].
    - intros x1 x2 n H1 H2 T1 T2.
      destruct (TT _ _ T1) as [(y1 & v1 & Y1 & G1 & M1 & E1)|(A1 & E1 & N1)];
        destruct (TT _ _ T2) as [(y2 & v2 & Y2 & G2 & M2 & E2)|(A2 & E2 & N2)].
      + assert (y1 = y2) by (apply (proj1 Rt); [assumption|assumption|congruence]). subst y2.
        assert (v1 = v2) by congruence. subst v2. eapply Im; eauto.
      + exfalso. destruct (X x2 y1 H2 Y1) as (v & B1 & B2); [congruence|]. apply Sub in B1. eapply N2; eauto.
      + exfalso. destruct (X x1 y2 H1 Y2) as (v & B1 & B2); [congruence|]. apply Sub in B1. eapply N1; eauto.
      + apply (proj1 Rs); [assumption|assumption|congruence].
    - intros x n Hx T. destruct (TT _ _ T) as [(y & v & Y & _ & _ & ->)|(_ & -> & _)].
      + split; [apply (proj2 Rt); exact Y|left; apply bound2_r; exact Y].
      + split; [apply (proj2 Rs); exact Hx|left; apply bound2_l; exact Hx]. }
  apply D_trans with (clsT s sg0 i).
  - apply (R sg sg0 Rs R0). intros x Hx Ax. unfold sg0, ren2, th. destruct (get m x) as [v|] eqn:G.
    + destruct (fkey Lb mb v) as [y|] eqn:Fy.
      * apply fkey_some in Fy. destruct Fy as [_ Gy]. eapply C; [|exact Gy]. apply Sup; assumption.
      * rewrite Ax. reflexivity.
    + rewrite Ax. reflexivity.
  - apply (H sg0 tau R0 Rt). cbn [aid am]. intros x y v Gx Gy. unfold sg0, ren2, th. rewrite Gx.
    rewrite (fkey_in Lb mb v y Ib); [reflexivity| |exact Gy]. apply Kb. congruence.
Qed.

(* ====================================================================== *)
(* 6. steps that keep the table and the classes                            *)
(* ====================================================================== *)

Definition ucsame (s s' : egraph) : Prop := unionfind s' = unionfind s /\ classes s' = classes s.
Lemma ucsame_refl : forall s, ucsame s s.
Proof. intros s. split; reflexivity. Qed.
Lemma ucsame_trans : forall a b c, ucsame a b -> ucsame b c -> ucsame a c.
Proof. intros a b c [A1 A2] [B1 B2]. split; congruence. Qed.
Lemma ucsame_pend : forall s p, ucsame s (set_pending s p).
Proof. intros. split; reflexivity. Qed.

Lemma Sound_ucsame : forall E s s', ucsame s s' -> Sound E s -> Sound E s'.
Proof.
  intros E s s' [U C] S. apply (Sound_frame E s s' C); [|exact S]. intros i e H. left. rewrite <- U. exact H.
Qed.

Lemma uc_touched_class : forall i ty, pres ucsame (touched_class i ty).
Proof. apply (pres_touched_class ucsame ucsame_refl ucsame_trans ucsame_pend). Qed.

Lemma mapr_in_fwd : forall {A B} (f : A -> res B) l r, mapr f l = Ok r ->
  forall x, In x l -> exists y, f x = Ok y /\ In y r.
Proof.
  intros A B f l r H. apply mapr_ok in H. induction H as [|x y l r Hxy _ IH]; intros z Hz; [contradiction|].
  destruct Hz as [<-|Hz]; [exists y; split; [assumption|left; reflexivity]|].
  destruct (IH z Hz) as (y' & E & Hy'). exists y'. split; [assumption|right; assumption].
Qed.

(* l ~~ r : the slots of l whose value is not a value of r are redundant *)
Theorem redund_of_sim : forall E s l r cap, sim E s l r ->
  injective (am l) -> injective (am r) -> skeys s l ->
  (forall x y v, get (am l) x = Some v -> get (am r) y = Some v -> In v cap) ->
  redund E s (aid l) (fun k => match get (am l) k with Some v => negb (sset_mem v cap) | None => true end).
Proof.
  intros E s [i ml] [j mr] cap H Il Ir Kl Hcap sg tau Rs Rt Cm. unfold skeys in Kl. cbn [aid am] in *.
  set (La := SS s i) in *.
  set (K := bound2 sg La tau La).
  set (th := fun y => match get mr y with
                      | Some v => if sset_mem v cap then match fkey La ml v with Some x => Some (sg x) | None => None end
                                  else None
                      | None => None end).
  set (rho := ren2 th 0 K).
  assert (TT : forall y n, th y = Some n -> exists x v, In x La /\ get ml x = Some v /\ get mr y = Some v /\ In v cap /\ n = sg x).
  { intros y n Hn. unfold th in Hn. destruct (get mr y) as [v|] eqn:Gy; [|discriminate].
    destruct (sset_mem v cap) eqn:Ec; [|discriminate]. apply sset_mem_in in Ec.
    destruct (fkey La ml v) as [x|] eqn:Fx; [|discriminate]. apply fkey_some in Fx. destruct Fx as [Hx Gx].
    inversion Hn; subst n. exists x, v. auto 6. }
  assert (Rr : rok s j rho).
  { apply ren2_rok; [left; reflexivity| |].
    - intros y1 y2 n _ _ H1 H2. destruct (TT _ _ H1) as (x1 & v1 & X1 & G1 & M1 & _ & E1).
      destruct (TT _ _ H2) as (x2 & v2 & X2 & G2 & M2 & _ & E2).
      assert (x1 = x2) by (apply (proj1 Rs); [assumption|assumption|congruence]). subst x2.
      assert (v1 = v2) by congruence. subst v2. eapply Ir; eauto.
    - intros y n _ Hn. destruct (TT _ _ Hn) as (x & v & X & _ & _ & _ & ->). split; [apply (proj2 Rs); exact X|].
      left. apply bound2_l. exact X. }
  assert (Cr : forall x y v, get ml x = Some v -> get mr y = Some v -> sg x = rho y).
  { intros x y v Gx Gy. unfold rho, ren2, th. rewrite Gy.
    rewrite (proj2 (sset_mem_in _ _) (Hcap _ _ _ Gx Gy)).
    rewrite (fkey_in La ml v x Il); [reflexivity| |exact Gx]. apply Kl. congruence. }
  apply D_trans with (clsT s rho j).
  - apply (H sg rho Rs Rr). cbn [aid am]. exact Cr.
  - apply D_sym. apply (H tau rho Rt Rr). cbn [aid am]. intros x y v Gx Gy. rewrite <- (Cr x y v Gx Gy).
    symmetry. apply Cm; [apply Kl; congruence|]. rewrite Gx.
    rewrite (proj2 (sset_mem_in _ _) (Hcap _ _ _ Gx Gy)). reflexivity.
Qed.

(* ====================================================================== *)
(* 6b. class updates, node entries                                         *)
(* ====================================================================== *)

Lemma syn_of_class : forall s i, syn_of s i = match get_class s i with Ok c => Some (c_syn c) | Err _ => None end.
Proof. intros s i. unfold syn_of, get_class. destruct (nth_opt (classes s) (N.to_nat i)); reflexivity. Qed.

Lemma synsame_upd_class : forall i f s x s', (forall c, c_syn (f c) = c_syn c) ->
  upd_class i f s = Ok (x, s') -> synsame s s'.
Proof.
  intros i f s x s' Hf H. apply upd_class_inv in H. destruct H as (c & Hc & ->).
  pose proof (get_class_lt _ _ _ Hc) as L. intros j. rewrite !syn_of_class.
  rewrite (get_class_upd s i (f c) j L). destruct (j =? i) eqn:Ej; neq; [|reflexivity].
  subst j. rewrite Hc, Hf. reflexivity.
Qed.

Definition nodesP (P : N -> node * (slotmap * N) -> Prop) (s : egraph) : Prop :=
  forall i c e, get_class s i = Ok c -> In e (c_nodes c) -> P i e.

Lemma nsame_nodesP : forall P s s', nsame s s' -> nodesP P s -> nodesP P s'.
Proof.
  intros P s s' H N i c' e Hc' He. destruct (H _ _ Hc') as (c & Hc & En & _). rewrite En in He. eapply N; eauto.
Qed.

Lemma nodesP_raw_add : forall P id sh bij src s x s' c, nodesP P s -> get_class s id = Ok c ->
  P id (sh, (bij, src)) -> raw_add_to_class id (sh, bij) src s = Ok (x, s') -> nodesP P s'.
Proof.
  intros P id sh bij src s x s' c N Hc He H. unfold raw_add_to_class in H.
  apply mbind_inv in H. destruct H as (u1 & s1 & H1 & H). apply upd_class_inv in H1. destruct H1 as (c1 & Hc1 & ->).
  rewrite Hc in Hc1. inversion Hc1; subst c1; clear Hc1.
  apply mbind_inv in H. destruct H as (u2 & s2 & H2 & H). inversion H2; subst u2 s2; clear H2.
  apply usages_nsame in H. eapply nsame_nodesP; [exact H|]. clear H.
  pose proof (get_class_lt _ _ _ Hc) as L. intros j cj e Hj Hin.
  assert (Hj' : get_class (set_classes s (set_nth (classes s) (N.to_nat id) (with_nodes c (na_set (c_nodes c) sh (bij, src))))) j = Ok cj) by exact Hj.
  rewrite (get_class_upd s id _ j L) in Hj'. destruct (j =? id) eqn:Ej; neq.
  - subst j. inversion Hj'; subst cj. cbn [c_nodes c_slots with_nodes] in *. apply na_set_in in Hin.
    destruct Hin as [->|Hin]; [assumption|]. eapply N; eauto.
  - eapply N; eauto.
Qed.

Lemma nodesP_raw_remove : forall P id sh s p s', nodesP P s -> raw_remove_from_class id sh s = Ok (p, s') -> nodesP P s'.
Proof.
  intros P id sh s p s' N H. unfold raw_remove_from_class in H.
  apply bind_reads_inv in H. destruct H as (c & Hc & H).
  apply mbind_inv in H. destruct H as (u1 & s1 & H1 & H). apply upd_class_inv in H1. destruct H1 as (c1 & Hc1 & ->).
  rewrite Hc in Hc1. inversion Hc1; subst c1; clear Hc1.
  apply mbind_inv in H. destruct H as (u2 & s2 & H2 & H). inversion H2; subst u2 s2; clear H2.
  apply mbind_inv in H. destruct H as (u3 & s3 & H3 & H).
  assert (s' = s3) by (destruct (na_get (c_nodes c) sh); inversion H; reflexivity). subst s3.
  apply usages_nsame in H3. eapply nsame_nodesP; [exact H3|]. clear H3 H.
  pose proof (get_class_lt _ _ _ Hc) as L. intros j cj e Hj Hin.
  assert (Hj' : get_class (set_classes s (set_nth (classes s) (N.to_nat id) (with_nodes c (na_remove (c_nodes c) sh)))) j = Ok cj) by exact Hj.
  rewrite (get_class_upd s id _ j L) in Hj'. destruct (j =? id) eqn:Ej; neq.
  - subst j. inversion Hj'; subst cj. cbn [c_nodes c_slots with_nodes] in *. apply na_remove_in in Hin. eapply N; eauto.
  - eapply N; eauto.
Qed.

Lemma sem_synsame : forall s s', sem_eq s s' -> synsame s s'.
Proof.
  intros s s' E i. rewrite !syn_of_class.
  destruct (get_class s i) as [c|] eqn:Hc.
  - destruct (get_class_sem_ok s s' i c E Hc) as (c' & Hc' & Cs). rewrite Hc'. apply csem_inv in Cs.
    destruct Cs as (_ & _ & ->). reflexivity.
  - destruct (get_class s' i) as [c'|] eqn:Hc'; [|reflexivity].
    destruct (get_class_sem_ok s' s i c' (sem_eq_sym _ _ E) Hc') as (c & Hc2 & _). congruence.
Qed.

(* ====================================================================== *)
(* A. renaming the slots of a node, and the terms of the renamed node       *)
(* ====================================================================== *)

Section TravOk.
  Variable f : bool -> slot -> res slot.
  Let F := fun (b : bool) (s : slot) (st : option site) =>
             match st with
             | Some _ => (s, st)
             | None => match f b s with Ok s' => (s', None) | Err e => (s, Some e) end
             end.

  Lemma F_none : forall b s st, snd (F b s st) = None -> st = None /\ exists y, f b s = Ok y.
  Proof.
    intros b s [e|] H; unfold F in H; cbn [snd] in H; [discriminate|]. split; [reflexivity|].
    unfold F in H. destruct (f b s) as [y|e]; [eauto|discriminate].
  Qed.

  Lemma tv_vals_ok : forall bound m st, snd (trav_vals F bound m st) = None ->
    st = None /\ forall v, In v (values_vec m) -> exists y, f (negb (existsb (N.eqb v) bound)) v = Ok y.
  Proof.
    intros bound. induction m as [|[k v] t IH]; intros st H; cbn [trav_vals] in H.
    - cbn [snd] in H. split; [exact H|]. intros v [].
    - destruct (F (negb (existsb (N.eqb v) bound)) v st) as [v' st1] eqn:E1.
      destruct (trav_vals F bound t st1) as [t' st2] eqn:E2. cbn [snd] in H. subst st2.
      destruct (IH st1) as [-> Ht]; [rewrite E2; reflexivity|].
      destruct (F_none (negb (existsb (N.eqb v) bound)) v st) as [-> Hv]; [rewrite E1; reflexivity|].
      split; [reflexivity|]. intros w [<-|Hw]; [exact Hv|apply Ht; exact Hw].
  Qed.

  Lemma tv_f_ok : forall a bound st, snd (trav_f F bound a st) = None ->
    st = None /\ forall s b, In (s, b) (occ_flags_f bound a) -> exists y, f b s = Ok y.
  Proof.
    induction a as [s|x|s b IH|p]; intros bound st H; cbn [trav_f occ_flags_f] in *.
    - destruct (F (negb (existsb (N.eqb s) bound)) s st) as [s' st1] eqn:E1. cbn [snd] in H. subst st1.
      destruct (F_none (negb (existsb (N.eqb s) bound)) s st) as [-> Hv]; [rewrite E1; reflexivity|].
      split; [reflexivity|]. intros s0 b0 [Hin|[]]. inversion Hin; subst. exact Hv.
    - destruct (trav_vals F bound (am x) st) as [m' st1] eqn:E1. cbn [snd] in H. subst st1.
      destruct (tv_vals_ok bound (am x) st) as [-> Hv]; [rewrite E1; reflexivity|].
      split; [reflexivity|]. intros s0 b0 Hin. apply in_map_iff in Hin. destruct Hin as (v & Ev & Hv'). inversion Ev; subst.
      apply Hv. exact Hv'.
    - destruct (F false s st) as [s' st1] eqn:E1. destruct (trav_f F (s :: bound) b st1) as [b' st2] eqn:E2.
      cbn [snd] in H. subst st2.
      destruct (IH (s :: bound) st1) as [-> Hb]; [rewrite E2; reflexivity|].
      destruct (F_none false s st) as [-> Hv]; [rewrite E1; reflexivity|].
      split; [reflexivity|]. intros s0 b0 [Hin|Hin]; [inversion Hin; subst; exact Hv|apply Hb; exact Hin].
    - cbn [snd] in H. split; [exact H|]. intros s0 b0 [].
  Qed.

  Lemma tv_args_ok : forall l st, snd (trav_args F l st) = None ->
    st = None /\ forall s b, In (s, b) (flat_map (occ_flags_f []) l) -> exists y, f b s = Ok y.
  Proof.
    induction l as [|a t IH]; intros st H; cbn [trav_args flat_map] in *.
    - cbn [snd] in H. split; [exact H|]. intros s b [].
    - destruct (trav_f F [] a st) as [a' st1] eqn:E1. destruct (trav_args F t st1) as [t' st2] eqn:E2.
      cbn [snd] in H. subst st2.
      destruct (IH st1) as [-> Ht]; [rewrite E2; reflexivity|].
      destruct (tv_f_ok a [] st) as [-> Ha]; [rewrite E1; reflexivity|].
      split; [reflexivity|]. intros s b Hin. apply in_app_or in Hin. destruct Hin as [Hin|Hin]; [apply Ha|apply Ht]; exact Hin.
  Qed.

  Lemma trav_res_ok : forall n n', trav_res f n = Ok n' ->
    forall s b, In (s, b) (occ_flags n) -> exists y, f b s = Ok y.
  Proof.
    intros n n' H. unfold trav_res in H. fold F in H.
    destruct (trav F n None) as [n1 e] eqn:E1. destruct e as [e|]; [discriminate|].
    unfold trav in E1. destruct (trav_args F (nargs n) None) as [l st'] eqn:E2. inversion E1; subst.
    destruct (tv_args_ok (nargs n) None) as [_ Hl]; [rewrite E2; reflexivity|]. exact Hl.
  Qed.
End TravOk.

Lemma apply_slotmap_keys : forall m n0 n', apply_slotmap false m n0 = Ok n' ->
  forall x, In x (pub_occ n0) -> get m x <> None.
Proof.
  intros m n0 n' H x Hx. unfold apply_slotmap, apply_slotmap_partial in H. cbn [andb] in H.
  rewrite <- flags_pub in Hx. apply in_map_iff in Hx. destruct Hx as ([x' b] & Ex & Hin). cbn [fst] in Ex. subst x'.
  apply filter_In in Hin. destruct Hin as [Hin Hb]. cbn [snd] in Hb. subst b.
  destruct (trav_res_ok _ _ _ H x true Hin) as (y & Hy). cbv beta in Hy. unfold index in Hy.
  destruct (get m x); [discriminate|discriminate].
Qed.

Lemma apply_slotmap_ok : forall m n0, (forall x, In x (pub_occ n0) -> get m x <> None) ->
  apply_slotmap false m n0 = Ok (ren (asm_g m) n0).
Proof.
  intros m n0 H. unfold apply_slotmap, apply_slotmap_partial. cbn [andb]. unfold trav_res.
  rewrite (trav_fwd _ (asm_g m) None); [reflexivity|].
  intros s b Hin. destruct b; [|reflexivity]. apply occ_flags_true_pub in Hin. apply H in Hin.
  unfold index, asm_g. destruct (get m s) as [y|]; [reflexivity|congruence].
Qed.

Lemma get_ren_vals : forall g bound (m : slotmap) y,
  get (ren_vals g bound m) y = option_map (fun v => g (negb (existsb (N.eqb v) bound)) v) (get m y).
Proof.
  intros g bound. induction m as [|[k v] t IH]; intros y; [reflexivity|].
  unfold ren_vals in *. cbn [map get fst snd]. destruct (y =? k); [reflexivity|apply IH].
Qed.

(* the terms of sh[m] under rho are the terms of sh under rho o m, when no value of m is a binder of sh *)
Lemma NodeArg_ren : forall s mm a bound d rho rho' t,
  (forall x, In x (pub_occ_f a) -> unbound bound x = true -> rho' x = rho (asm_g mm true x)) ->
  (forall x, In x bound -> rho' x = rho x) ->
  (forall k v, get mm k = Some v -> ~ In v (binders_f a)) ->
  (NodeArg s d rho (ren_f (asm_g mm) bound a) t <-> NodeArg s d rho' a t).
Proof.
  intros s mm. induction a as [x|a0|y b IH|p]; intros bound d rho rho' t R1 R2 NC; cbn [ren_f].
  - assert (Eq : rho (asm_g mm (negb (existsb (N.eqb x) bound)) x) = rho' x).
    { destruct (negb (existsb (N.eqb x) bound)) eqn:U.
      - symmetry. apply R1; [left; reflexivity|exact U].
      - cbn [asm_g]. symmetry. apply R2. apply unbound_false_in. exact U. }
    split; intros H; inversion H; subst.
    + rewrite Eq. constructor.
    + rewrite <- Eq. constructor.
  - assert (Eq : forall y v, get (am a0) y = Some v ->
                   rho (asm_g mm (negb (existsb (N.eqb v) bound)) v) = rho' v).
    { intros y v G. destruct (negb (existsb (N.eqb v) bound)) eqn:U.
      - symmetry. apply R1; [|exact U]. cbn [pub_occ_f]. apply get_in in G. unfold values_vec.
        apply in_map_iff. exists (y, v). auto.
      - cbn [asm_g]. symmetry. apply R2. apply unbound_false_in. exact U. }
    split; intros H; inversion H as [| | |d0 rho0 a1 tau Rk Cm]; subst; cbn [aid am] in *.
    + apply (NA_app s d rho' a0 tau Rk). intros y v G. rewrite <- (Eq y v G). apply Cm.
      rewrite get_ren_vals, G. reflexivity.
    + apply (NA_app s d rho {| aid := aid a0; am := ren_vals (asm_g mm) bound (am a0) |} tau Rk). cbn [aid am].
      intros y v' G. rewrite get_ren_vals in G. destruct (get (am a0) y) as [v|] eqn:Gy; [|discriminate].
      cbn [option_map] in G. inversion G; subst v'. rewrite (Eq y v Gy). apply Cm. exact Gy.
  - cbn [asm_g].
    assert (IH' : forall t', NodeArg s (S d) (upd rho y (B d)) (ren_f (asm_g mm) (y :: bound) b) t' <->
                             NodeArg s (S d) (upd rho' y (B d)) b t').
    { intros t'. apply IH.
      - intros x Hx U. rewrite unbound_cons in U. apply andb_true_iff in U. destruct U as [U1 U2].
        apply negb_true_iff in U1. neq. unfold upd. rewrite (proj2 (N.eqb_neq _ _) U1).
        rewrite (R1 x); [|cbn [pub_occ_f]; apply filter_In; split; [exact Hx|apply negb_true_iff; apply N.eqb_neq; exact U1]|exact U2].
        assert (Ne : asm_g mm true x <> y).
        { unfold asm_g. destruct (get mm x) as [v|] eqn:G; [|exact U1]. intros ->. apply (NC _ _ G). left. reflexivity. }
        rewrite (proj2 (N.eqb_neq _ _) Ne). reflexivity.
      - intros x [<-|Hx]; unfold upd; [rewrite !N.eqb_refl; reflexivity|].
        destruct (x =? y); [reflexivity|apply R2; exact Hx].
      - intros k v G Hin. apply (NC _ _ G). right. exact Hin. }
    split; intros H; inversion H; subst; constructor; apply IH'; assumption.
  - split; intros H; inversion H; subst; constructor.
Qed.

Lemma NodeT_ren : forall s mm n0 rho rho' t,
  (forall x, In x (pub_occ n0) -> rho' x = rho (asm_g mm true x)) ->
  (forall k v, get mm k = Some v -> ~ In v (binders n0)) ->
  (NodeT s rho (ren (asm_g mm) n0) t <-> NodeT s rho' n0 t).
Proof.
  intros s mm [v l] rho rho' t R1 NC. unfold NodeT, ren, pub_occ, binders in *. cbn [nvar nargs] in *.
  assert (X : forall args, Forall2 (NodeArg s 0 rho) (map (ren_f (asm_g mm) []) l) args <-> Forall2 (NodeArg s 0 rho') l args).
  { induction l as [|a l IH]; intros args.
    - cbn [map]. split; intros H; inversion H; constructor.
    - cbn [map]. cbn [flat_map] in R1, NC.
      assert (Ha : forall ta, NodeArg s 0 rho (ren_f (asm_g mm) [] a) ta <-> NodeArg s 0 rho' a ta).
      { intros ta. apply NodeArg_ren.
        - intros x Hx _. apply R1. apply in_or_app. left. exact Hx.
        - intros x [].
        - intros k w G Hin. apply (NC _ _ G). apply in_or_app. left. exact Hin. }
      assert (Hl : forall args', Forall2 (NodeArg s 0 rho) (map (ren_f (asm_g mm) []) l) args' <-> Forall2 (NodeArg s 0 rho') l args').
      { apply IH.
        - intros x Hx. apply R1. apply in_or_app. right. exact Hx.
        - intros k w G Hin. apply (NC _ _ G). apply in_or_app. right. exact Hin. }
      split; intros H; inversion H; subst; constructor; try (apply Ha; assumption); apply Hl; assumption. }
  split; intros (args & F & ->); exists args; (split; [apply X; exact F|reflexivity]).
Qed.

(* ====================================================================== *)
(* B. a structural invariant: slot names by residue mod 4                   *)
(* ====================================================================== *)

(* shape slots (in particular the binders of a stored shape) are 0 mod 4; the slots drawn from the
   counter (the syntactic slots of every class, the values of the stored bijections, the keys of
   the union-find maps) are 1 mod 4.  Consequence: applying a stored bijection to its shape never
   captures a slot under a binder. *)
Definition Q4 (e : node * (slotmap * N)) : Prop :=
  (forall x, In x (binders (fst e)) -> x mod 4 = 0) /\ (forall k v, get (fst (snd e)) k = Some v -> v mod 4 = 1).
Definition k4 (m : slotmap) : Prop := forall k, get m k <> None -> k mod 4 = 1.

Record mod4_ok (s : egraph) : Prop := {
  m4_ctr : ectr s mod 4 = 1;
  m4_syn : forall i x, In x (SS s i) -> x mod 4 = 1;
  m4_nodes : nodesP (fun _ e => Q4 e) s;
  m4_uf : forall i e, uentry (unionfind s) i = Some e -> k4 (am e) }.

Definition nodes_same (s s' : egraph) : Prop :=
  forall i c', get_class s' i = Ok c' -> exists c, get_class s i = Ok c /\ c_nodes c' = c_nodes c.

Lemma nodes_same_nodesP : forall P s s', nodes_same s s' -> nodesP P s -> nodesP P s'.
Proof. intros P s s' H N i c' e Hc' He. destruct (H _ _ Hc') as (c & Hc & En). rewrite En in He. eapply N; eauto. Qed.

Lemma nsame_nodes_same : forall s s', nsame s s' -> nodes_same s s'.
Proof. intros s s' H i c' Hc'. destruct (H _ _ Hc') as (c & Hc & En & _). eauto. Qed.

Lemma m4_frame : forall s s', ectr s' mod 4 = 1 -> synsame s s' -> nodes_same s s' ->
  (forall i e, uentry (unionfind s') i = Some e -> uentry (unionfind s) i = Some e \/ k4 (am e)) ->
  mod4_ok s -> mod4_ok s'.
Proof.
  intros s s' Hc Sy Ns Hu [A B C D]. constructor.
  - exact Hc.
  - intros i x Hx. rewrite (SS_synsame _ _ _ Sy) in Hx. eapply B; eauto.
  - eapply nodes_same_nodesP; eauto.
  - intros i e He. destruct (Hu _ _ He) as [H|H]; [eapply D; eauto|exact H].
Qed.

Definition R4 (s s' : egraph) : Prop := mod4_ok s -> mod4_ok s'.
Lemma R4_refl : forall s, R4 s s.
Proof. intros s H. exact H. Qed.
Lemma R4_trans : forall a b c, R4 a b -> R4 b c -> R4 a c.
Proof. intros a b c H1 H2 H. auto. Qed.

Local Notation p4 := (pres R4).
Lemma p4_bind : forall A C (m : M A) (k : A -> M C), p4 m -> (forall a, p4 (k a)) -> p4 (mbind m k).
Proof. apply (pres_bind R4 R4_trans). Qed.
Lemma p4_ret : forall A (a : A), p4 (ret a).
Proof. apply (pres_ret R4 R4_refl). Qed.
Lemma p4_reads : forall A (f : egraph -> res A), p4 (reads f).
Proof. apply (pres_reads R4 R4_refl). Qed.
Lemma p4_lift : forall A (r : res A), p4 (Model.lift r).
Proof. apply (pres_lift R4 R4_refl). Qed.
Lemma p4_iterM : forall A (f : A -> M unit) l, (forall x, p4 (f x)) -> p4 (iterM f l).
Proof. apply (pres_iterM R4 R4_refl R4_trans). Qed.

Lemma R4_same : forall s s', ectr s' = ectr s -> unionfind s' = unionfind s -> classes s' = classes s -> R4 s s'.
Proof.
  intros s s' Ec Eu Ecl M. apply (m4_frame s s'); [rewrite Ec; apply M|apply classes_synsame; exact Ecl| | |exact M].
  - apply nsame_nodes_same. apply nsame_classes. exact Ecl.
  - intros i e He. left. rewrite <- Eu. exact He.
Qed.

Lemma p4_pending_touch : forall sh ty, p4 (pending_touch sh ty).
Proof. intros sh ty s x s' H. inversion H. apply R4_same; reflexivity. Qed.
Lemma p4_pending_insert : forall sh ty, p4 (pending_insert sh ty).
Proof. intros sh ty s x s' H. inversion H. apply R4_same; reflexivity. Qed.
Lemma p4_touched_class : forall i ty, p4 (touched_class i ty).
Proof.
  intros i ty. unfold touched_class. apply p4_bind; [apply p4_reads|]. intros c.
  apply p4_iterM. intros sh. apply p4_pending_touch.
Qed.
Lemma p4_modify_hc : forall f, p4 (modify (fun s => set_hashcons s (f s))).
Proof. intros f s x s' H. inversion H. apply R4_same; reflexivity. Qed.

Lemma p4_with_ctr : forall A (f : N -> A * N), (forall c, ctr_step c (snd (f c))) -> p4 (with_ctr f).
Proof.
  intros A f Hf s x s' H. apply with_ctr_spec in H. subst s'. intros M.
  apply (m4_frame s (set_ctr s (snd (f (ectr s))))); [| | | |exact M].
  - cbn [Model.ctr set_ctr]. rewrite (ctr_step_mod _ _ (Hf (ectr s))). apply M.
  - apply classes_synsame. reflexivity.
  - apply nsame_nodes_same. apply nsame_ctr.
  - intros i e He. left. exact He.
Qed.

(* a class update that keeps the nodes and the syntactic node *)
Lemma p4_upd_class : forall i f, (forall c, c_nodes (f c) = c_nodes c /\ c_syn (f c) = c_syn c) -> p4 (upd_class i f).
Proof.
  intros i f Hf s x s' H M.
  pose proof (synsame_upd_class i f s x s' (fun c => proj2 (Hf c)) H) as Sy.
  apply upd_class_inv in H. destruct H as (c & Hc & ->). pose proof (get_class_lt _ _ _ Hc) as L.
  apply (m4_frame s _); [apply M|exact Sy| | |exact M].
  - intros j cj Hj. rewrite (get_class_upd s i (f c) j L) in Hj. destruct (j =? i) eqn:Ej; neq.
    + subst j. inversion Hj; subst cj. exists c. split; [exact Hc|apply Hf].
    + exists cj. auto.
  - intros j e He. left. exact He.
Qed.

Lemma p4_ufset : forall i p, k4 (am p) -> p4 (unionfind_set i p).
Proof.
  intros i p Kp s x s' H M.
  pose proof (unionfind_set_classes _ _ _ _ _ H) as Cl. pose proof (unionfind_set_spec _ _ _ _ _ H) as (_ & Ct & _).
  apply (m4_frame s s'); [rewrite Ct; apply M|apply classes_synsame; exact Cl| | |exact M].
  - apply nsame_nodes_same. apply nsame_classes. exact Cl.
  - intros j e He. destruct (unionfind_set_uf _ _ _ _ _ H) as [[_ Eq]|[_ Eq]]; rewrite Eq in He.
    + apply uentry_app_inv in He. destruct He as [He|[_ ->]]; [left; exact He|right; exact Kp].
    + apply uentry_set_inv in He. destruct He as [[_ ->]|[_ He]]; [right; exact Kp|left; exact He].
Qed.

Lemma in_get_some : forall (m : slotmap) k v, In (k, v) m -> get m k <> None.
Proof.
  induction m as [|[k' v'] t IH]; intros k v H; [contradiction|]. cbn [get].
  destruct (k =? k') eqn:Ek; [discriminate|]. destruct H as [H|H]; [inversion H; subst; rewrite N.eqb_refl in Ek; discriminate|].
  eapply IH; eauto.
Qed.

Lemma compose_keys : forall a b k, get (a ** b) k <> None -> get a k <> None.
Proof.
  intros a b k H. unfold compose_partial in H. rewrite get_from_iter in H.
  destruct (assoc_last _ k) as [v|] eqn:Ev; [|congruence]. apply assoc_last_in in Ev.
  apply in_flat_map in Ev. destruct Ev as ([k0 y] & Hin & Hv). cbn [fst snd] in Hv.
  destruct (get b y); [|contradiction]. destruct Hv as [Hv|[]]. inversion Hv; subst. eapply in_get_some; eauto.
Qed.

Lemma k4_compose : forall a b, k4 a -> k4 (a ** b).
Proof. intros a b Ka k H. apply Ka. eapply compose_keys; eauto. Qed.

Lemma k4_identity : forall sl, (forall x, In x sl -> x mod 4 = 1) -> k4 (identity sl).
Proof.
  intros sl H k Hk. rewrite get_identity in Hk. destruct (sset_mem k sl) eqn:Ek; [|congruence].
  apply H. apply sset_mem_in. exact Ek.
Qed.

Lemma p4_witness : forall i cap, p4 (record_redundancy_witness i cap).
Proof.
  intros i cap s x s' H M. unfold record_redundancy_witness in H.
  apply bind_reads_inv in H. destruct H as (ss & Hss & H).
  assert (K : k4 (am {| aid := i; am := identity ss ** identity cap |})).
  { cbn [am]. apply k4_compose. apply k4_identity. intros y Hy. apply (m4_syn s M i).
    unfold syn_slots in Hss. unfold SS. destruct (get_class s i) as [c|]; cbn [bind] in Hss; [|discriminate].
    inversion Hss; subst ss. exact Hy. }
  exact (p4_ufset i _ K s x s' H M).
Qed.

Lemma R4_nodesP : forall s s', ectr s' = ectr s -> unionfind s' = unionfind s -> synsame s s' ->
  (nodesP (fun _ e => Q4 e) s -> nodesP (fun _ e => Q4 e) s') -> R4 s s'.
Proof.
  intros s s' Ec Eu Sy Hn [A B C D]. constructor.
  - rewrite Ec. exact A.
  - intros i x Hx. rewrite (SS_synsame _ _ _ Sy) in Hx. eapply B; eauto.
  - apply Hn. exact C.
  - intros i e He. rewrite Eu in He. eapply D; eauto.
Qed.

Lemma semR_fields : forall s s', semR s s' -> unionfind s' = unionfind s /\ synsame s s'.
Proof. intros s s' [E _]. split; [symmetry; apply E|apply sem_synsame; exact E]. Qed.

Definition ctr_eq (s s' : egraph) : Prop := ectr s' = ectr s.

Lemma ctr_raw_add : forall id t src, pres ctr_eq (raw_add_to_class id t src).
Proof.
  intros id t src. apply pres_raw_add_to_class; unfold ctr_eq.
  - reflexivity.
  - intros a b c H1 H2. congruence.
  - reflexivity.
  - reflexivity.
Qed.

Lemma ctr_raw_remove : forall id sh, pres ctr_eq (raw_remove_from_class id sh).
Proof.
  intros id sh. apply pres_raw_remove_from_class; unfold ctr_eq.
  - reflexivity.
  - intros a b c H1 H2. congruence.
  - reflexivity.
  - reflexivity.
Qed.

Lemma p4_raw_add : forall id sh bij src, Q4 (sh, (bij, src)) -> p4 (raw_add_to_class id (sh, bij) src).
Proof.
  intros id sh bij src Q s x s' H.
  destruct (semR_fields _ _ (s_raw_add _ _ _ _ _ _ H)) as [Eu Sy].
  apply (R4_nodesP s s' (ctr_raw_add _ _ _ _ _ _ H) Eu Sy). intros N.
  assert (Hc : exists c, get_class s id = Ok c).
  { unfold raw_add_to_class in H. apply mbind_inv in H. destruct H as (u1 & s1 & H1 & _).
    apply upd_class_inv in H1. destruct H1 as (c & Hc & _). eauto. }
  destruct Hc as (c & Hc). exact (nodesP_raw_add _ _ _ _ _ _ _ _ _ N Hc Q H).
Qed.

Lemma p4_raw_remove : forall id sh, p4 (raw_remove_from_class id sh).
Proof.
  intros id sh s p s' H.
  destruct (semR_fields _ _ (s_raw_remove _ _ _ _ _ H)) as [Eu Sy].
  apply (R4_nodesP s s' (ctr_raw_remove _ _ _ _ _ H) Eu Sy). intros N.
  exact (nodesP_raw_remove _ _ _ _ _ _ N H).
Qed.

(* the values of compose_fresh a b c: values of b, or new names c, c + 4, ... *)
Lemma cf_go_vals : forall (P : N -> Prop) a b c out, wf out ->
  (forall k v, get out k = Some v -> P v) -> (forall k v, get b k = Some v -> P v) ->
  (forall z, z mod 4 = c mod 4 -> P z) ->
  forall k v, get (fst (compose_fresh_go a b c out)) k = Some v -> P v.
Proof.
  intros P. induction a as [|[x y] t IH]; intros b c out W Ho Hb Hc k v G; cbn [compose_fresh_go] in G.
  - cbn [fst] in G. eapply Ho; eauto.
  - destruct (get b y) as [z|] eqn:Gy.
    + apply (IH b c (insert x z out)) with (k := k); try assumption; [apply insert_wf; exact W|].
      intros k0 v0. rewrite get_insert by exact W. destruct (k0 =? x); [|apply Ho].
      intros Ev. inversion Ev; subst v0. eapply Hb; eauto.
    + apply (IH b (c + 4) (insert x c out)) with (k := k); try assumption; [apply insert_wf; exact W| |].
      * intros k0 v0. rewrite get_insert by exact W. destruct (k0 =? x); [|apply Ho].
        intros Ev. inversion Ev; subst v0. apply Hc. reflexivity.
      * intros z Hz. apply Hc. rewrite Hz. rewrite N.add_mod by lia. replace (4 mod 4) with 0 by reflexivity.
        rewrite N.add_0_r. apply N.mod_mod. lia.
Qed.

Lemma p4_move_body : forall idf idt mi sh bij src, Q4 (sh, (bij, src)) ->
  (forall k v, get mi k = Some v -> v mod 4 = 1) ->
  p4 (dom _ <- raw_remove_from_class idf sh;
      dom new_bij <- with_ctr (compose_fresh bij mi);
      dom _ <- raw_add_to_class idt (sh, new_bij) src;
      pending_insert sh true).
Proof.
  intros idf idt mi sh bij src [Qb Qv] Hmi s x s' H M.
  apply mbind_inv in H. destruct H as (p & s1 & Hr & H).
  apply mbind_inv in H. destruct H as (nb & s2 & Hcf & H).
  apply mbind_inv in H. destruct H as (u3 & s3 & Ha & Hp).
  pose proof (p4_raw_remove _ _ _ _ _ Hr M) as M1.
  pose proof (p4_with_ctr _ _ (compose_fresh_step bij mi) _ _ _ Hcf M1) as M2.
  assert (Enb : nb = fst (compose_fresh bij mi (ectr s1))).
  { unfold with_ctr in Hcf. destruct (compose_fresh bij mi (ectr s1)) as [a b]. inversion Hcf. reflexivity. }
  assert (Q : Q4 (sh, (nb, src))).
  { split; [exact Qb|]. cbn [fst snd]. rewrite Enb. unfold compose_fresh.
    apply (cf_go_vals (fun v => v mod 4 = 1)); [exact I| |exact Hmi|].
    - intros k v G. discriminate.
    - intros z Hz. rewrite Hz. apply M1. }
  pose proof (p4_raw_add _ _ _ _ Q _ _ _ Ha M2) as M3.
  exact (p4_pending_insert _ _ _ _ _ Hp M3).
Qed.

Lemma p4_move_loop : forall idf idt mi l, (forall e, In e l -> Q4 e) ->
  (forall k v, get mi k = Some v -> v mod 4 = 1) ->
  p4 (iterM (fun e => let '(sh, (bij, src_id)) := e in
                  dom _ <- raw_remove_from_class idf sh;
                  dom new_bij <- with_ctr (compose_fresh bij mi);
                  dom _ <- raw_add_to_class idt (sh, new_bij) src_id;
                  pending_insert sh true) l).
Proof.
  intros idf idt mi. induction l as [|[sh [bij src]] t IH]; intros Hl Hmi; cbn [iterM].
  - apply p4_ret.
  - apply p4_bind.
    + apply p4_move_body; [apply Hl; left; reflexivity|exact Hmi].
    + intros _. apply IH; [|exact Hmi]. intros e He. apply Hl. right. exact He.
Qed.

Lemma p4_move_to : forall from to, k4 (am to) -> p4 (move_to from to).
Proof.
  intros from to Kt s x s' H M. unfold move_to in H. cbv zeta in H.
  apply mbind_inv in H. destruct H as (u1 & s1 & H1 & H).
  assert (Km : k4 (am to ** inv (am from))) by (apply k4_compose; exact Kt).
  pose proof (p4_ufset _ {| aid := aid to; am := am to ** inv (am from) |} Km _ _ _ H1 M) as M1.
  apply bind_reads_inv in H. destruct H as (cf & Hcf & H).
  apply mbind_inv in H. destruct H as (u2 & s2 & H2 & H).
  assert (LQ : forall e, In e (c_nodes cf) -> Q4 e).
  { intros e He. exact (m4_nodes s1 M1 _ _ e Hcf He). }
  assert (LM : forall k v, get (inv (am to ** inv (am from))) k = Some v -> v mod 4 = 1).
  { intros k v G. apply get_inverse_sound in G; [|apply compose_partial_wf]. apply Km. congruence. }
  pose proof (p4_move_loop (aid from) (aid to) _ (c_nodes cf) LQ LM s1 u2 s2 H2 M1) as M2.
  revert M2. revert H. generalize s2. clear. intros s2.
  apply p4_bind; [apply p4_reads|]. intros cf2. apply p4_bind; [apply p4_reads|]. intros ct2.
  apply p4_bind; [apply p4_lift|]. intros r. apply p4_bind; [apply p4_upd_class; intros c; split; reflexivity|]. intros _.
  apply p4_bind; [destruct (snd r); [apply p4_touched_class|apply p4_ret]|]. intros _. apply p4_touched_class.
Qed.

Section M4Ui.
  Variable ui : appid -> appid -> M bool.
  Hypothesis H_ui : forall l r, p4 (ui l r).

  Lemma p4_shrink_slots : forall from cap, p4 (shrink_slots ui from cap).
  Proof.
    intros from cap. unfold shrink_slots.
    apply p4_bind; [apply p4_lift|]. intros ocl. apply p4_bind; [apply p4_witness|]. intros _. cbv zeta.
    apply p4_bind; [apply p4_reads|]. intros c. apply p4_bind; [apply p4_lift|]. intros flags.
    apply p4_bind; [apply p4_lift|]. intros g.
    apply p4_bind; [apply p4_upd_class; intros c0; split; reflexivity|]. intros _.
    apply p4_bind; [apply p4_touched_class|]. intros _. apply p4_iterM. intros pp.
    apply p4_bind; [apply p4_reads|]. intros sl. apply p4_bind; [apply p4_lift|]. intros ps.
    apply p4_bind; [apply H_ui|]. intros _. apply p4_ret.
  Qed.

  Lemma p4_union_leaders : forall l r, k4 (am l) -> k4 (am r) -> p4 (union_leaders ui l r).
  Proof.
    intros l r Kl Kr. unfold union_leaders. apply p4_bind; [apply p4_reads|]. intros e.
    destruct e; [apply p4_ret|]. cbv zeta.
    destruct (negb (sset_eqb (values (am l)) _)).
    { apply p4_bind; [apply p4_shrink_slots|]. intros _. apply p4_bind; [apply H_ui|]. intros _. apply p4_ret. }
    destruct (negb (sset_eqb (values (am r)) _)).
    { apply p4_bind; [apply p4_shrink_slots|]. intros _. apply p4_bind; [apply H_ui|]. intros _. apply p4_ret. }
    destruct (aid l =? aid r).
    - apply p4_bind; [apply p4_reads|]. intros c. apply p4_bind; [apply p4_lift|]. intros bc.
      destruct bc; [apply p4_ret|]. apply p4_bind; [apply p4_lift|]. intros g.
      apply p4_bind; [apply p4_upd_class; intros c0; split; reflexivity|]. intros _.
      apply p4_bind; [apply p4_touched_class|]. intros _. apply p4_ret.
    - apply p4_bind; [apply p4_reads|]. intros cl. apply p4_bind; [apply p4_reads|]. intros cr. cbv zeta.
      apply p4_bind; [|intros _; apply p4_ret].
      match goal with |- pres _ (if ?b then _ else _) => destruct b end; apply p4_move_to; assumption.
  Qed.
End M4Ui.

Lemma uf_get_go_k4 : forall u, (forall i e, uentry u i = Some e -> k4 (am e)) ->
  forall fuel i p, uf_get_go fuel u i = Ok p -> k4 (am p).
Proof.
  intros u Hu. induction fuel as [|f IH]; intros i p H; [discriminate|]. cbn [uf_get_go] in H.
  destruct (nth_opt u (N.to_nat i)) as [e|] eqn:He; [|discriminate].
  destruct (aid e =? i).
  - inversion H; subst p. eapply Hu. exact He.
  - destruct (uf_get_go f u (aid e)) as [l|] eqn:Hl; [|discriminate]. cbn [bind] in H. inversion H; subst p. cbn [am].
    apply k4_compose. eapply IH; eauto.
Qed.

Lemma find_k4 : forall s a a', mod4_ok s -> find_applied_id s a = Ok a' -> k4 (am a').
Proof.
  intros s a a' M H. unfold find_applied_id, unionfind_get in H.
  destruct (uf_get_go _ _ _) as [p|] eqn:Hp; [|discriminate]. cbn [bind] in H. inversion H; subst a'. cbn [am].
  apply k4_compose. eapply uf_get_go_k4; [|exact Hp]. apply (m4_uf s M).
Qed.

Theorem m4_union_internal : forall fuel l r, p4 (union_internal fuel l r).
Proof.
  induction fuel as [|f IH]; intros l r; [intros s x s' H; discriminate|].
  rewrite union_internal_S. intros s x s' H M. unfold union_internal_body in H.
  apply bind_reads_inv in H. destruct H as (l' & Hl & H).
  apply bind_reads_inv in H. destruct H as (r' & Hr & H).
  exact (p4_union_leaders _ IH l' r' (find_k4 _ _ _ M Hl) (find_k4 _ _ _ M Hr) _ _ _ H M).
Qed.

(* ====================================================================== *)
(* 7. shrink_slots                                                         *)
(* ====================================================================== *)

(* what the recursive calls of union_internal must satisfy: a union of two related invocations
   keeps the invariant *)
Definition ui_spec_sound (E : equations) (ui : appid -> appid -> M bool) : Prop :=
  forall l r s b s', inv3 s -> mod4_ok s -> Sound E s -> covers s l -> covers s r -> sim E s l r ->
    ui l r s = Ok (b, s') -> Sound E s'.

Lemma perm_sound_sim' : forall E s i C p, perm_on C p ->
  (perm_sound E s i p <-> sim E s {| aid := i; am := identity C |} {| aid := i; am := p |}).
Proof.
  intros E s i C p P. split.
  - intros H sg tau Rs Rt Cm. cbn [aid am] in *. apply H; try assumption.
    intros y v Hy. apply (Cm v y v); [|exact Hy]. apply identity_get_in. eapply po_val; eauto.
  - intros H sg tau Rs Rt Cm. apply (H sg tau Rs Rt). cbn [aid am]. intros x y v Hx Hy.
    apply identity_get in Hx. destruct Hx as [-> _]. apply Cm. exact Hy.
Qed.

Section ShrinkS.
  Variable E : equations.
  Variable fu : nat.
  Hypothesis HS : ui_spec_sound E (union_internal fu).

  (* the generators that do not preserve the new slot set are re-asserted: each of them is a
     symmetry of the class in the state before the shrink *)
  Lemma shrink_moved_sound : forall id oc C moved s0, NoDup oc -> incl oc C -> incl C (SS s0 id) ->
    (forall pp, In pp moved -> perm_on C pp /\ perm_sound E s0 id pp) ->
    forall s x s', inv3 s -> mod4_ok s -> Sound E s -> synsame s0 s ->
    (exists c, get_class s id = Ok c /\ incl (c_slots c) oc) ->
    iterM (fun pp =>
             dom sl <- reads (fun s => class_slots s id);
             let l := {| aid := id; am := identity sl |} in
             dom ps <- Model.lift (mapr (fun x => do y <- index pp x; Ok (x, y)) oc);
             let r := {| aid := id; am := from_iter ps |} in
             dom _ <- union_internal fu l r;
             ret tt) moved s = Ok (x, s') ->
    Sound E s'.
  Proof.
    intros id oc C moved s0 Nd IC ISS. induction moved as [|pp t IH]; intros Hmv s x s' Hs M4 S Sy Hcl H; cbn [iterM] in H.
    - inversion H; subst. exact S.
    - apply mbind_inv in H. destruct H as (u & s1 & H1 & H).
      apply bind_reads_inv in H1. destruct H1 as (sl & Hsl & H1). cbv zeta in H1.
      apply mbind_inv in H1. destruct H1 as (ps & s0' & Hps & H1). apply lift_inv in Hps. destruct Hps as [Hps ->].
      apply mbind_inv in H1. destruct H1 as (b & s2 & H1 & H2). inversion H2; subst u s2; clear H2.
      destruct Hcl as (c & Hc & Ic). unfold class_slots in Hsl. rewrite Hc in Hsl. cbn [bind] in Hsl.
      inversion Hsl; subst sl; clear Hsl.
      destruct (Hmv pp (or_introl eq_refl)) as [Ppp PSpp].
      pose proof (proj1 (proj2 (proj2 (proj2 Ppp)))) as Ipp.
      pose proof (get_from_pairs pp oc ps Nd Hps) as G.
      pose proof Hs as [[Hinv _] _].
      pose proof (ei_cls s Hinv _ _ Hc) as (Wc & Gc & Isyn).
      assert (ISS' : incl C (SS s id)) by (rewrite (SS_synsame _ _ _ Sy); exact ISS).
      assert (C2 : covers s {| aid := id; am := from_iter ps |}).
      { exists c. cbn [aid am]. split; [assumption|]. split.
        - intros k1 k2 v A1 A2. apply G in A1, A2. destruct A1 as [_ A1], A2 as [_ A2]. eapply Ipp; eassumption.
        - intros k Hk. apply Ic in Hk. destruct (mapr_pairs pp oc ps Hps) as [A B].
          rewrite <- A in Hk. apply in_map_iff in Hk. destruct Hk as ([k' v] & Ek & Hin). cbn [fst] in Ek. subst k'.
          assert (E0 : get (from_iter ps) k = Some v) by (apply G; apply B; assumption). congruence. }
      (* the two invocations are related *)
      set (A := fun x => negb (sset_mem x (c_slots c))).
      assert (RA : redund E s id A).
      { apply redund_of_id; [rewrite (SS_class _ _ _ Hc); exact Isyn|].
        apply (Sound_grp_sound E s id c S Hc); [apply identity_is_id|apply gcontains_identity; exact Gc]. }
      assert (Iid : forall sl, injective (identity sl)) by (intros sl0; apply pid_injective, pid_identity).
      assert (SIM : sim E s {| aid := id; am := identity (c_slots c) |} {| aid := id; am := from_iter ps |}).
      { pose proof (proj1 (perm_sound_sim' E s id C pp Ppp) (perm_sound_synsame E s0 s id pp Sy PSpp)) as B0.
        assert (B1 : sim E s {| aid := id; am := identity (c_slots c) |} {| aid := id; am := pp |}).
        { apply (sim_restrict E s id (identity C) (identity (c_slots c)) _ A B0 RA); cbn [aid am].
          - apply Iid.
          - exact Ipp.
          - intros k Hk. cbn [aid am] in *. rewrite get_identity in Hk. destruct (sset_mem k (c_slots c)) eqn:Ek; [|congruence].
            apply sset_mem_in in Ek. apply ISS', IC, Ic, Ek.
          - intros k Hk. cbn [aid am] in *. apply ISS'. apply (proj1 (proj2 Ppp)). exact Hk.
          - intros k v Gk. apply identity_get in Gk. destruct Gk as [-> Hv]. apply identity_get_in. apply IC, Ic, Hv.
          - intros k v Gk Ak. apply identity_get in Gk. destruct Gk as [-> Hv]. unfold A in Ak.
            apply negb_false_iff in Ak. apply sset_mem_in in Ak. apply identity_get_in. exact Ak. }
        apply sim_sym. apply sim_sym in B1.
        apply (sim_restrict E s id pp (from_iter ps) _ A B1 RA); cbn [aid am].
        - exact Ipp.
        - apply Iid.
        - intros k Hk. cbn [aid am] in *. destruct (get (from_iter ps) k) as [v|] eqn:Gk; [|congruence].
          apply G in Gk. apply ISS', IC. tauto.
        - intros k Hk. cbn [aid am] in *. rewrite get_identity in Hk. destruct (sset_mem k (c_slots c)) eqn:Ek; [|congruence].
          apply sset_mem_in in Ek. apply ISS', IC, Ic, Ek.
        - intros k v Gk. apply G in Gk. tauto.
        - intros k v Gk Ak. unfold A in Ak. apply negb_false_iff in Ak. apply sset_mem_in in Ak. apply G. split; [apply Ic; exact Ak|exact Gk]. }
      pose proof (HS _ _ _ _ _ Hs M4 S (covers_identity s id c Hc) C2 SIM H1) as S1.
      pose proof (m4_union_internal fu _ _ _ _ _ H1 M4) as M41.
      destruct (inv3_union_internal fu _ _ _ _ _ Hs (covers_identity s id c Hc) C2 H1) as [Hs1 E1].
      destruct (proj2 (proj2 E1) _ _ Hc) as (c1 & Hc1 & I1 & _).
      apply (IH (fun q Hq => Hmv q (or_intror Hq)) s1 x s' Hs1 M41 S1); [| |exact H].
      + eapply synsame_trans; [exact Sy|apply ext_synsame; exact E1].
      + exists c1. split; [assumption|]. eapply incl_tran; eauto.
  Qed.

  Theorem Sound_shrink_slots : forall from cap s x s', inv3 s -> mod4_ok s -> Sound E s -> lcanon s from ->
    redund E s (aid from) (fun k => match get (am from) k with Some v => negb (sset_mem v cap) | None => true end) ->
    shrink_slots (union_internal fu) from cap s = Ok (x, s') -> Sound E s'.
  Proof.
    intros from cap s x s' I3 M4 S Lc Hred H. pose proof I3 as [Hs2 HN]. pose proof Hs2 as [Hs Hbl].
    pose proof (inv3_union_internal fu) as H3.
    destruct Lc as [Ld (c & Hc & Gc & Wf & Bf & Kf)]. unfold shrink_slots in H.
    pose proof (proj1 (is_bijection_injective _ Wf) Bf) as Ifr.
    apply mbind_inv in H. destruct H as (ocl & s0 & Hoc & H). apply lift_inv in Hoc. destruct Hoc as [Hoc ->].
    set (oc := sset_of_list ocl) in *.
    destruct (sset_of_list_spec ocl) as [Woc Ioc]. fold oc in Woc, Ioc.
    assert (Ic : incl oc (c_slots c)).
    { intros y Hy. apply Ioc in Hy. destruct (mapr_in _ _ _ Hoc y Hy) as (x0 & _ & E0). unfold index in E0.
      destruct (get (inv (am from)) x0) as [y'|] eqn:G; [|discriminate]. inversion E0; subst y'.
      apply (get_inverse _ _ _ Wf Bf) in G. rewrite <- Kf. apply keys_spec. congruence. }
    (* the new slot set: the keys whose value is in cap *)
    assert (Ooc : forall k v, get (am from) k = Some v -> In v cap -> In k oc).
    { intros k v Gk Hv. destruct (mapr_in_fwd _ _ _ Hoc v Hv) as (k' & E0 & Hk'). unfold index in E0.
      destruct (get (inv (am from)) v) as [k2|] eqn:G; [|discriminate]. inversion E0; subst k2.
      apply (get_inverse _ _ _ Wf Bf) in G. assert (k = k') by (eapply Ifr; eauto). subst k'. apply Ioc. exact Hk'. }
    apply mbind_inv in H. destruct H as (u1 & s1 & H1 & H).
    pose proof (p4_witness _ _ _ _ _ H1 M4) as M41.
    unfold record_redundancy_witness in H1. apply bind_reads_inv in H1. destruct H1 as (ss & Hss & H1).
    unfold syn_slots in Hss. rewrite Hc in Hss. cbn [bind] in Hss. inversion Hss; subst ss; clear Hss.
    pose proof (n_unionfind_set _ _ _ _ _ H1) as NS1.
    pose proof (unionfind_set_classes _ _ _ _ _ H1) as Cl1.
    pose proof (unionfind_set_spec _ _ _ _ _ H1) as (_ & Ct1 & _).
    apply unionfind_set_uf in H1. destruct Ld as (el & Hel & Hal). pose proof (uentry_lt _ _ _ Hel) as Lid.
    destruct H1 as [[Ei _]|[_ U1]]; [lia|].
    cbv zeta in H. apply bind_reads_inv in H. destruct H as (c1 & Hc1 & H).
    assert (c1 = c). { unfold get_class in Hc1, Hc. rewrite Cl1 in Hc1. congruence. } subst c1.
    apply mbind_inv in H. destruct H as (flags & s0 & Hfl & H). apply lift_inv in Hfl. destruct Hfl as [Hfl ->].
    apply mbind_inv in H. destruct H as (g & s0 & Hg & H). apply lift_inv in Hg. destruct Hg as [Hg ->].
    apply mbind_inv in H. destruct H as (u2 & s2 & H2 & H).
    pose proof (p4_upd_class (aid from) (fun c0 => with_group (with_slots c0 oc) g) (fun c0 => conj eq_refl eq_refl) _ _ _ H2 M41) as M42.
    assert (NS2 : nsame s1 s2).
    { eapply (n_upd_class_shrink (aid from) c); [exact Hc1| | |exact H2]; cbn [c_nodes c_slots with_group with_slots]; [reflexivity|exact Ic]. }
    apply upd_class_inv in H2. destruct H2 as (c2 & Hc2 & ->).
    assert (c2 = c). { unfold get_class in Hc2, Hc. rewrite Cl1 in Hc2. congruence. } subst c2.
    apply mbind_inv in H. destruct H as (u3 & s3 & H3' & H).
    pose proof (n_touched_class _ _ _ _ _ H3') as NS3. pose proof (uc_touched_class _ _ _ _ _ H3') as UC3.
    pose proof (p4_touched_class _ _ _ _ _ H3' M42) as M43.
    apply s_touched_class in H3'.
    pose proof (ei_cls s Hs _ _ Hc) as (Wc & _ & Isyn).
    pose proof (grp_ok_generators c Gc) as Gens.
    set (gsel := fun pp : perm => allr (fun x => do y <- index pp x; Ok (sset_mem y oc)) oc) in *.
    match type of H3' with semR ?st _ => set (s2 := st) in * end.
    assert (PR : forall q, In q (map (fun pp : slotmap => filter (fun kv => sset_mem (fst kv) oc) pp)
                                   (map fst (filter snd (combine (ggenerators (c_group c)) flags)))) ->
                 exists pp, q = filter (fun kv => sset_mem (fst kv) oc) pp /\ In pp (ggenerators (c_group c)) /\
                            perm_on oc q).
    { intros q Hq. apply in_map_iff in Hq. destruct Hq as (pp & <- & Hpp).
      apply in_map_iff in Hpp. destruct Hpp as ([pp' b] & Epp & Hin). cbn [fst] in Epp. subst pp'.
      apply filter_In in Hin. destruct Hin as [Hin Hb]. cbn [snd] in Hb. subst b.
      destruct (mapr_combine _ _ _ Hfl _ _ Hin) as [Hall Hflag]. exists pp. split; [reflexivity|]. split; [exact Hall|].
      apply (restrict_perm_on (c_slots c)).
      + exact (proj1 (Forall_forall _ _) Gens pp Hall).
      + apply swf_NoDup. assumption.
      + intros x0 Hx0. pose proof (allr_true _ _ Hflag x0 Hx0) as T. cbv beta in T. unfold index in T.
        destruct (get pp x0) as [y|]; cbn [bind] in T; [|discriminate]. exists y. split; [reflexivity|].
        apply mem_in. inversion T. reflexivity. }
    assert (S2 : eg_inv s2 /\ ext s s2).
    { apply (shrink_state s s2 (aid from) c {| aid := aid from; am := identity (slots (c_syn c)) ** identity oc |} oc g);
        try assumption.
      - exists el. auto.
      - match type of Hg with group_new _ _ ?r = _ => exists r end.
        cbn [c_slots c_group with_group with_slots]. split; [|exact Hg].
        apply Forall_forall. intros q Hq. destruct (PR q Hq) as (pp & _ & _ & Pq). exact Pq.
      - apply compose_partial_wf.
      - apply pid_compose; [apply identity_wf|apply pid_identity|apply pid_identity].
      - reflexivity.
      - cbn [am]. apply sset_ext; [apply sset_of_list_spec|assumption|]. intros k. rewrite keys_spec.
        rewrite get_compose_partial by apply identity_wf. rewrite get_identity.
        destruct (sset_mem k (slots (c_syn c))) eqn:E0.
        + rewrite get_identity. destruct (sset_mem k oc) eqn:E2.
          * apply mem_in in E2. split; [auto|discriminate].
          * split; [congruence|]. intros Hk. apply mem_in in Hk. congruence.
        + split; [congruence|]. intros Hk. apply Ic, Isyn, mem_in in Hk. congruence.
      - unfold s2. cbn [classes set_classes]. rewrite Cl1. reflexivity.
      - unfold s2. cbn [Model.ctr set_classes]. rewrite Ct1. lia. }
    destruct S2 as [Hs2' E2]. destruct (semR_step _ _ H3' Hs2') as [Hs3 E3].
    pose proof (ext_trans _ _ _ E2 E3) as E03.
    assert (I33 : inv3 s3).
    { eapply inv3_intro; [exact Hs2|exact Hs3|exact E03|].
      eapply nsame_nodes; [|exact HN]. eapply nsame_trans; [exact NS1|]. eapply nsame_trans; [exact NS2|exact NS3]. }
    (* the invariant after the table write and the class update *)
    assert (ISS : incl (c_slots c) (SS s (aid from))) by (rewrite (SS_class _ _ _ Hc); exact Isyn).
    assert (Roc : redund E s (aid from) (fun x => negb (sset_mem x oc))).
    { eapply redund_mono; [|exact Hred]. intros k Hk. cbv beta in Hk. apply negb_true_iff in Hk. cbv beta.
      destruct (get (am from) k) as [v|] eqn:Gk; [|reflexivity]. apply negb_true_iff.
      destruct (sset_mem v cap) eqn:Ev; [|reflexivity]. apply sset_mem_in in Ev.
      pose proof (Ooc _ _ Gk Ev) as Hin. apply sset_mem_in in Hin. congruence. }
    assert (OG : grp_sound E s (aid from) c) by (apply Sound_grp_sound; assumption).
    pose proof (get_class_lt _ _ _ Hc) as Lc.
    assert (GC2 : forall j, get_class s2 j = if j =? aid from then Ok (with_group (with_slots c oc) g) else get_class s j).
    { intros j. unfold s2. rewrite <- Cl1 in Lc. rewrite (get_class_upd s1 (aid from) _ j Lc).
      destruct (j =? aid from); [reflexivity|]. unfold get_class. rewrite Cl1. reflexivity. }
    assert (SD2 : Sound E s2).
    { apply (Sound_intro_syn E s s2 (ext_synsame _ _ E2)).
      - intros k e He. unfold s2 in He. cbn [unionfind set_classes] in He. rewrite U1 in He.
        apply uentry_set_inv in He. destruct He as [[-> ->]|[_ He]]; [|exact (snd_uf E s S k e He)].
        intros sg tau Rs Rt Cm. cbn [aid am idapp] in *. apply (Roc sg tau Rs Rt). intros k Hk Ak.
        apply negb_false_iff in Ak. apply (Cm k k k); [apply identity_get_in; exact Hk|].
        rewrite get_compose_partial by apply identity_wf. rewrite (SS_class _ _ _ Hc) in Hk.
        rewrite (identity_get_in _ _ Hk). rewrite get_identity, Ak. reflexivity.
      - intros k c' sh bij src n sg t Hc' Hin Ha Rk Nt. rewrite GC2 in Hc'.
        destruct (k =? aid from) eqn:Ek; neq.
        + subst k. inversion Hc'; subst c'. cbn [c_nodes with_group with_slots] in Hin.
          exact (snd_node E s S _ _ _ _ _ _ _ _ Hc Hin Ha Rk Nt).
        + exact (snd_node E s S _ _ _ _ _ _ _ _ Hc' Hin Ha Rk Nt).
      - intros k c' p Hc' Pp Gp. rewrite GC2 in Hc'. destruct (k =? aid from) eqn:Ek; neq.
        + subst k. inversion Hc'; subst c'. cbn [c_slots c_group with_group with_slots] in *.
          apply (proj1 (perm_sound_sim' E s (aid from) oc p Pp)).
          match type of Hg with group_new _ _ ?r = _ => set (gens := r) in * end.
          assert (PG : Forall (perm_on oc) gens).
          { apply Forall_forall. intros q Hq. destruct (PR q Hq) as (pp & _ & _ & Pq). exact Pq. }
          apply (generated_sound' E s (aid from) oc gens); [eapply incl_tran; eauto|exact PG|apply id_of_redund; exact Roc| |].
          * intros q Hq. destruct (PR q Hq) as (pp & -> & Hpp & Pq).
            pose proof (proj1 (Forall_forall _ _) Gens pp Hpp) as Ppp.
            pose proof (OG pp Ppp (generators_members c pp Gc Hpp)) as PS.
            intros sg tau Rs Rt Cm.
            set (tau0 := ext_ren sg pp (bound_of sg (SS s (aid from)))).
            assert (R0 : rok s (aid from) tau0).
            { apply (ext_ren_rok (SS s (aid from))); [exact Rs|apply Ppp|].
              intros k0 v Gk. apply ISS. eapply po_val; eauto. }
            apply D_trans with (clsT s tau0 (aid from)).
            -- apply (PS sg tau0 Rs R0). intros y v Gy. unfold tau0, ext_ren. rewrite Gy. reflexivity.
            -- apply (Roc tau0 tau R0 Rt). intros k0 Hk0 Ak. apply negb_false_iff in Ak.
               destruct (po_get _ pp k0 Ppp (Ic _ (proj1 (sset_mem_in _ _) Ak))) as (v & Gv & _).
               unfold tau0, ext_ren. rewrite Gv. apply Cm.
               rewrite (get_filter_key (fun k1 => sset_mem k1 oc)). rewrite Ak. exact Gv.
          * exact (gcontains_sound _ _ gens (identity_is_id oc) PG _ _ Pp Hg Gp).
        + exact (snd_grp E s S _ _ _ Hc' Pp Gp). }
    pose proof (Sound_ucsame E s2 s3 UC3 SD2) as SD3.
    assert (Hc3' : exists c3, get_class s3 (aid from) = Ok c3 /\ incl (c_slots c3) oc).
    { destruct (proj2 (proj2 E3) (aid from) (with_group (with_slots c oc) g)) as (c4 & Hc4 & I4 & _).
      - rewrite GC2, N.eqb_refl. reflexivity.
      - exists c4. split; [assumption|]. exact I4. }
    match type of H with iterM _ ?mv _ = _ => set (moved := mv) in * end.
    apply (shrink_moved_sound (aid from) oc (c_slots c) moved s (swf_NoDup _ Woc) Ic ISS) with (s := s3) (x := x); try assumption.
    - intros pp Hpp. unfold moved in Hpp.
      apply in_map_iff in Hpp. destruct Hpp as ([pp' b] & Epp & Hin). cbn [fst] in Epp. subst pp'.
      apply filter_In in Hin. destruct Hin as [Hin _].
      destruct (mapr_combine _ _ _ Hfl _ _ Hin) as [Hall _].
      pose proof (proj1 (Forall_forall _ _) Gens pp Hall) as Ppp. split; [exact Ppp|].
      exact (OG pp Ppp (generators_members c pp Gc Hall)).
    - apply ext_synsame. exact E03.
  Qed.
End ShrinkS.

(* ====================================================================== *)
(* 8. replacing the group of a class; the same-class branch of union_leaders *)
(* ====================================================================== *)


Theorem Sound_set_group : forall E s i c g x s', Sound E s -> get_class s i = Ok c ->
  grp_sound E s i (with_group c g) ->
  upd_class i (fun c => with_group c g) s = Ok (x, s') -> Sound E s'.
Proof.
  intros E s i c g x s' S Hc GS H.
  pose proof (synsame_upd_class i (fun c0 => with_group c0 g) s x s' (fun c0 => eq_refl) H) as Sy.
  apply upd_class_inv in H. destruct H as (c0 & Hc0 & ->). rewrite Hc in Hc0. inversion Hc0; subst c0; clear Hc0.
  pose proof (get_class_lt _ _ _ Hc) as L.
  apply (Sound_intro_syn E s _ Sy).
  - intros k e He. exact (snd_uf E s S k e He).
  - intros k c' sh bij src n sg t Hc' Hin Ha Rk Nt. rewrite (get_class_upd s i _ k L) in Hc'.
    destruct (k =? i) eqn:Ek; neq.
    + subst k. inversion Hc'; subst c'. cbn [c_nodes with_group] in Hin.
      exact (snd_node E s S _ _ _ _ _ _ _ _ Hc Hin Ha Rk Nt).
    + exact (snd_node E s S _ _ _ _ _ _ _ _ Hc' Hin Ha Rk Nt).
  - intros k c' p Hc' Pp Gp. rewrite (get_class_upd s i _ k L) in Hc'. destruct (k =? i) eqn:Ek; neq.
    + subst k. inversion Hc'; subst c'. apply (perm_sound_sim E s i _ p Pp). apply GS; assumption.
    + exact (snd_grp E s S _ _ _ Hc' Pp Gp).
Qed.

(* gadd_set of symmetries, as a step of the model *)
Theorem Sound_gadd_set : forall E s i c ps g' b x s', eg_inv s -> Sound E s -> get_class s i = Ok c ->
  Forall (perm_on (c_slots c)) ps -> (forall p, In p ps -> perm_sound E s i p) ->
  gadd_set false (c_group c) ps = Ok (g', b) ->
  upd_class i (fun c => with_group c g') s = Ok (x, s') -> Sound E s'.
Proof.
  intros E s i c ps g' b x s' Hs S Hc Hps Hsd Hg H.
  destruct (ei_cls s Hs _ _ Hc) as (_ & Gc & Isyn).
  eapply Sound_set_group; [exact S|exact Hc| |exact H].
  eapply gadd_set_sound; [exact Gc| |exact Hps|exact Hg| |exact Hsd].
  - rewrite (SS_class _ _ _ Hc). exact Isyn.
  - apply Sound_grp_sound; assumption.
Qed.

(* two related canonical invocations of the same class: their quotient is a symmetry *)
Lemma quot_perm_sound : forall E s i ml mr, sim E s {| aid := i; am := ml |} {| aid := i; am := mr |} ->
  wf ml -> wf mr -> is_bijection ml = true ->
  perm_sound E s i (mr ** inv ml).
Proof.
  intros E s i ml mr H Wl Wr Bl sg tau Rs Rt Cm. apply (H sg tau Rs Rt). cbn [aid am].
  intros x y v Gx Gy. apply Cm. apply (quot_get mr ml Wr Wl Bl). exists v. split; assumption.
Qed.

(* ====================================================================== *)
(* 9. move_to                                                              *)
(* ====================================================================== *)

(* I2 for one stored entry of class i *)
Definition entry_good (E : equations) (s : egraph) (i : N) (e : node * (slotmap * N)) : Prop :=
  forall n sg t, apply_slotmap false (fst (snd e)) (fst e) = Ok n ->
    rokL (SS s i ++ slots n) sg -> NodeT s sg n t -> Deriv E 0 (clsT s sg i) t.


Lemma Sound_nodesP : forall E s, Sound E s -> nodesP (entry_good E s) s.
Proof.
  intros E s S i c [sh [bij src]] Hc Hin n sg t Ha Rk Nt. cbn [fst snd] in Ha.
  exact (snd_node E s S _ _ _ _ _ _ _ _ Hc Hin Ha Rk Nt).
Qed.


(* the node loop of move_to: every entry of `from`, re-keyed, is added to `to` *)
Lemma move_loop_good : forall (P : N -> node * (slotmap * N) -> Prop) idf idt mi l s0,
  (forall sh bij src c0, In (sh, (bij, src)) l -> ctr_step (ectr s0) c0 -> P idt (sh, (fst (compose_fresh bij mi c0), src))) ->
  forall s x s', semR s0 s -> ctr_step (ectr s0) (ectr s) -> nodesP P s -> (exists ct, get_class s idt = Ok ct) ->
  iterM (fun e => let '(sh, (bij, src_id)) := e in
                  dom _ <- raw_remove_from_class idf sh;
                  dom new_bij <- with_ctr (compose_fresh bij mi);
                  dom _ <- raw_add_to_class idt (sh, new_bij) src_id;
                  pending_insert sh true) l s = Ok (x, s') -> nodesP P s'.
Proof.
  intros P idf idt mi. induction l as [|[sh [bij src]] t IH]; intros s0 Hl s x s' S0 CS N Hct H; cbn [iterM] in H.
  - inversion H; subst. assumption.
  - apply mbind_inv in H. destruct H as (u & s4 & H1 & H).
    apply mbind_inv in H1. destruct H1 as (p & s1 & Hr & H1).
    apply mbind_inv in H1. destruct H1 as (nb & s2 & Hcf & H1).
    apply mbind_inv in H1. destruct H1 as (u3 & s3 & Ha & Hp).
    pose proof (nodesP_raw_remove P _ _ _ _ _ N Hr) as N1. pose proof (s_raw_remove _ _ _ _ _ Hr) as S1.
    pose proof (s_compose_fresh _ _ _ _ _ Hcf) as S2.
    pose proof (nsame_nodesP P _ _ (n_with_ctr _ _ _ _ _ Hcf) N1) as N2.
    pose proof (semR_trans _ _ _ S0 (semR_trans _ _ _ S1 S2)) as S02.
    destruct Hct as (ct & Hct).
    destruct (semR_class_slots _ _ _ _ (semR_trans _ _ _ S1 S2) Hct) as (ct2 & Hct2 & _).
    assert (Enb : nb = fst (compose_fresh bij mi (ectr s1))).
    { unfold with_ctr in Hcf. destruct (compose_fresh bij mi (ectr s1)) as [a b]. inversion Hcf. reflexivity. }
    assert (EO : P idt (sh, (nb, src))).
    { rewrite Enb. apply Hl; [left; reflexivity|]. rewrite (ctr_raw_remove _ _ _ _ _ Hr). exact CS. }
    assert (CS4 : ctr_step (ectr s0) (ectr s4)).
    { inversion Hp; subst s4. cbn [Model.ctr set_pending]. rewrite (ctr_raw_add _ _ _ _ _ _ Ha).
      apply with_ctr_spec in Hcf. subst s2. cbn [Model.ctr set_ctr].
      eapply ctr_step_trans; [|apply compose_fresh_step]. rewrite (ctr_raw_remove _ _ _ _ _ Hr). exact CS. }
    pose proof (nodesP_raw_add P _ _ _ _ _ _ _ _ N2 Hct2 EO Ha) as N3.
    pose proof (nsame_nodesP P _ _ (n_pending_insert _ _ _ _ _ Hp) N3) as N4.
    assert (S04 : semR s0 s4).
    { eapply semR_trans; [exact S02|]. eapply semR_trans; [exact (s_raw_add _ _ _ _ _ _ Ha)|exact (s_pending_insert _ _ _ _ _ Hp)]. }
    apply (IH s0 (fun sh0 bij0 src0 c0 Hin => Hl sh0 bij0 src0 c0 (or_intror Hin)) s4 x s' S04 CS4 N4); [|exact H].
    destruct (semR_class_slots _ _ _ _ (semR_trans _ _ _ (s_raw_add _ _ _ _ _ _ Ha) (s_pending_insert _ _ _ _ _ Hp)) Hct2) as (ct4 & Hct4 & _).
    exists ct4. exact Hct4.
Qed.

(* a symmetry of class i transported along an edge i -> (j, m): f is the inverse of m *)
Lemma conj_sound : forall E s i j m f Ci Cj x,
  sim E s (idapp s i) {| aid := j; am := m |} ->
  incl Ci (SS s i) -> incl Cj (SS s j) ->
  wf f -> injective f -> (forall k, get f k <> None <-> In k Ci) -> (forall k v, get f k = Some v -> In v Cj) ->
  (forall k v, get f k = Some v -> get m v = Some k) -> (forall k v, get m v = Some k -> get f k = Some v) ->
  perm_on Ci x -> perm_sound E s i x -> perm_sound E s j (conj_by f x).
Proof.
  intros E s i j m f Ci Cj x Ed Si Sj Wf If Kf Vf FM MF Px PS sg tau Rs Rt Cm.
  pose proof (conj_by_get f x (po_wf _ _ Px) If) as CG.
  set (rs := ext_ren sg f (bound_of sg (SS s j))).
  set (rt := ext_ren tau f (bound_of tau (SS s j))).
  assert (Rrs : rok s i rs).
  { apply (ext_ren_rok (SS s j)); [exact Rs|exact If|]. intros k v G. apply Sj. eapply Vf; eauto. }
  assert (Rrt : rok s i rt).
  { apply (ext_ren_rok (SS s j)); [exact Rt|exact If|]. intros k v G. apply Sj. eapply Vf; eauto. }
  apply D_trans with (clsT s rs i).
  { apply D_sym. apply (Ed rs sg Rrs Rs). cbn [aid am idapp]. intros a y v Ga Gy.
    apply identity_get in Ga. destruct Ga as [-> _]. unfold rs, ext_ren. rewrite (MF _ _ Gy). reflexivity. }
  apply D_trans with (clsT s rt i).
  { apply (PS rs rt Rrs Rrt). intros y v Gy.
    assert (Hy : In y Ci) by (eapply po_key; eauto). assert (Hv : In v Ci) by (eapply po_val; eauto).
    destruct (get f y) as [a|] eqn:Fy; [|exfalso; apply (proj2 (Kf y) Hy); exact Fy].
    destruct (get f v) as [b|] eqn:Fv; [|exfalso; apply (proj2 (Kf v) Hv); exact Fv].
    unfold rs, rt, ext_ren. rewrite Fy, Fv. apply Cm. apply CG. exists y, v. auto. }
  apply (Ed rt tau Rrt Rt). cbn [aid am idapp]. intros a y v Ga Gy.
  apply identity_get in Ga. destruct Ga as [-> _]. unfold rt, ext_ren. rewrite (MF _ _ Gy). reflexivity.
Qed.


Lemma entry_good_synsame : forall E s s' i e, synsame s s' -> entry_good E s i e -> entry_good E s' i e.
Proof.
  intros E s s' i e Hc H n sg t Ha Rk Nt. rewrite (SS_synsame _ _ _ Hc) in Rk. rewrite (clsT_synsame _ _ _ _ Hc).
  apply (H n sg t Ha Rk). eapply NodeT_synsame; eauto.
Qed.

(* ASSUMED below (see the summary): the re-keyed entry of move_to.  For a stored entry sh |-> bij of
   `from` that satisfies I2, and the new edge from.id -> (to.id, to.m ; from.m^-1), the entry
   sh |-> compose_fresh bij map_inv satisfies I2 in `to`. *)
Definition migrate_ok (E : equations) : Prop :=
  forall s from to cf sh bij src c0,
    inv3 s -> mod4_ok s -> lcanon s from -> lcanon s to -> aid to <> aid from -> values (am from) = values (am to) ->
    get_class s (aid from) = Ok cf -> In (sh, (bij, src)) (c_nodes cf) ->
    entry_good E s (aid from) (sh, (bij, src)) ->
    sim E s (idapp s (aid from)) {| aid := aid to; am := am to ** inv (am from) |} ->
    ctr_step (ectr s) c0 ->
    entry_good E s (aid to) (sh, (fst (compose_fresh bij (inv (am to ** inv (am from))) c0), src)).

Theorem Sound_move_to : forall E, migrate_ok E ->
  forall from to s x s', inv3 s -> mod4_ok s -> Sound E s -> lcanon s from -> lcanon s to ->
  aid to <> aid from -> values (am from) = values (am to) -> sim E s from to ->
  move_to from to s = Ok (x, s') -> Sound E s'.
Proof.
  intros E MG from to s x s' I3 M4 S Lf Lt Hn V SIM H. pose proof I3 as [Hs2 HN]. pose proof Hs2 as [Hs Hbl].
  pose proof Lf as [Ldf Cf]. pose proof Lt as [Ldt Ct]. unfold move_to in H. cbv zeta in H.
  pose proof Cf as (cf & Hcf & Gf & Wf & Bf & Kf). pose proof Ct as (ct & Hct & Gt & Wt & Bt & Kt).
  destruct (canon_skeys s from Hs Cf) as [Ifr Kfr].
  destruct (ei_cls s Hs _ _ Hcf) as (_ & _ & Isf). destruct (ei_cls s Hs _ _ Hct) as (_ & _ & Ist).
  set (m := am to ** inv (am from)) in *.
  assert (ED : sim E s (idapp s (aid from)) {| aid := aid to; am := m |}).
  { destruct from as [i mf]. destruct to as [j mt]. cbn [aid am] in *. apply edge_of_sim; assumption. }
  apply mbind_inv in H. destruct H as (u1 & s1 & H1 & H).
  pose proof (Sound_unionfind_set E s _ _ _ _ S ED H1) as S1.
  pose proof (unionfind_set_classes _ _ _ _ _ H1) as Cl1.
  pose proof (unionfind_set_spec _ _ _ _ _ H1) as (_ & Ct1 & _).
  pose proof (classes_synsame s s1 Cl1) as Sy1.
  assert (GC : forall j, get_class s1 j = get_class s j) by (intros j; unfold get_class; rewrite Cl1; reflexivity).
  assert (U1 : uentry (unionfind s1) (aid from) = Some {| aid := aid to; am := m |}).
  { apply unionfind_set_uf in H1. destruct Ldf as (el & Hel & _). pose proof (uentry_lt _ _ _ Hel) as Lid.
    destruct H1 as [[Ei _]|[_ ->]]; [lia|]. unfold uentry. apply nth_opt_set_same. exact Lid. }
  apply bind_reads_inv in H. destruct H as (cf1 & Hcf1 & H). rewrite GC, Hcf in Hcf1. inversion Hcf1; subst cf1; clear Hcf1.
  apply mbind_inv in H. destruct H as (u2 & s2 & H2 & H).
  assert (SR2 : semR s1 s2).
  { revert H2. apply s_iterM. intros [sh [bij src]].
    apply s_bind; [apply s_raw_remove|]. intros _. apply s_bind; [apply s_compose_fresh|]. intros nb.
    apply s_bind; [apply s_raw_add|]. intros _. apply s_pending_insert. }
  pose proof (sem_synsame _ _ (proj1 SR2)) as Sy12.
  assert (N2 : nodesP (entry_good E s1) s2).
  { apply (move_loop_good (entry_good E s1) (aid from) (aid to) (inv m) (c_nodes cf) s1) with (s := s1) (x := u2).
    - intros sh bij src c0 Hin Lc0. apply (entry_good_synsame E s s1 _ _ Sy1).
      apply (MG s from to cf sh bij src c0); try assumption.
      + exact (Sound_nodesP E s S _ _ _ Hcf Hin).
      + rewrite <- Ct1. exact Lc0.
    - apply semR_refl.
    - apply ctr_step_refl.
    - apply Sound_nodesP. exact S1.
    - exists ct. rewrite GC. exact Hct.
    - exact H2. }
  assert (S2 : Sound E s2).
  { apply (Sound_intro_syn E s1 s2 Sy12).
    - intros k e He. rewrite <- (proj1 (proj1 SR2)) in He. exact (snd_uf E s1 S1 k e He).
    - intros k c' sh bij src n sg t Hc' Hin Ha Rk Nt. exact (N2 k c' (sh, (bij, src)) Hc' Hin n sg t Ha Rk Nt).
    - intros k c' p Hc' Pp Gp.
      destruct (get_class_sem_ok s2 s1 k c' (sem_eq_sym _ _ (proj1 SR2)) Hc') as (c1 & Hc1 & Cs).
      apply csem_inv in Cs. destruct Cs as (Es & Eg & _). unfold cidapp. rewrite <- Es.
      apply (snd_grp E s1 S1 k c1 p Hc1); [rewrite Es; exact Pp|rewrite Eg; exact Gp]. }
  apply bind_reads_inv in H. destruct H as (cf2 & Hcf2 & H).
  apply bind_reads_inv in H. destruct H as (ct2 & Hct2 & H).
  apply mbind_inv in H. destruct H as (r & s0 & Hr & H). apply lift_inv in Hr. destruct Hr as [Hr ->].
  apply mbind_inv in H. destruct H as (u3 & s3 & H3 & H).
  (* the two classes after the node loop: same slots, group, syntactic node *)
  assert (CS : forall j c c2, get_class s j = Ok c -> get_class s2 j = Ok c2 -> csem c2 = csem c).
  { intros j c c2 Hc Hc2. rewrite <- GC in Hc.
    destruct (get_class_sem_ok s1 s2 j c (proj1 SR2) Hc) as (c' & Hc' & Cs). rewrite Hc2 in Hc'. inversion Hc'; subst c'. exact Cs. }
  pose proof (CS _ _ _ Hcf Hcf2) as Csf. pose proof (CS _ _ _ Hct Hct2) as Cst.
  pose proof (grp_ok_csem _ _ (eq_sym Csf) Gf) as Gf2. pose proof (grp_ok_csem _ _ (eq_sym Cst) Gt) as Gt2.
  apply csem_inv in Csf. destruct Csf as (SLf & _ & SYf). apply csem_inv in Cst. destruct Cst as (SLt & _ & SYt).
  destruct r as [g' bg]. cbn [fst snd] in *.
  destruct (quot_bij (am from) (am to) (c_slots cf) (c_slots ct) Wf Wt Bf Bt Kf Kt V) as (F1 & F2 & F3 & F4 & F5).
  set (f := am from ** inv (am to)) in *.
  assert (Sy02 : synsame s s2) by (eapply synsame_trans; eauto).
  assert (ISf : incl (c_slots cf) (SS s2 (aid from))).
  { rewrite (SS_synsame _ _ _ Sy02), (SS_class _ _ _ Hcf). exact Isf. }
  assert (ISt : incl (c_slots ct) (SS s2 (aid to))).
  { rewrite (SS_synsame _ _ _ Sy02), (SS_class _ _ _ Hct). exact Ist. }
  assert (Pset : Forall (perm_on (c_slots ct2)) (map (conj_by f) (ggenerators (c_group cf2)))).
  { apply Forall_forall. intros q Hq. apply in_map_iff in Hq. destruct Hq as (pp & <- & Hpp).
    rewrite SLt. apply (conj_by_perm_on (c_slots cf) (c_slots ct)); try assumption.
    rewrite <- SLf. exact (proj1 (Forall_forall _ _) (grp_ok_generators cf2 Gf2) pp Hpp). }
  assert (ED2 : sim E s2 (idapp s2 (aid from)) {| aid := aid to; am := m |}).
  { apply (snd_uf E s2 S2). rewrite <- (proj1 (proj1 SR2)). exact U1. }
  assert (Sset : forall p, In p (map (conj_by f) (ggenerators (c_group cf2))) -> perm_sound E s2 (aid to) p).
  { intros q Hq. apply in_map_iff in Hq. destruct Hq as (pp & <- & Hpp).
    pose proof (proj1 (Forall_forall _ _) (grp_ok_generators cf2 Gf2) pp Hpp) as Ppp.
    apply (conj_sound E s2 (aid from) (aid to) m f (c_slots cf) (c_slots ct) pp ED2 ISf ISt F1 F2 F3 F4).
    - intros k v G. unfold f in G. apply (quot_get _ _ Wf Wt Bt) in G. destruct G as (y & A1 & A2).
      unfold m. apply (quot_get _ _ Wt Wf Bf). exists y. auto.
    - intros k v G. unfold m in G. apply (quot_get _ _ Wt Wf Bf) in G. destruct G as (y & A1 & A2).
      unfold f. apply (quot_get _ _ Wf Wt Bt). exists y. auto.
    - rewrite <- SLf. exact Ppp.
    - apply (Sound_grp_sound E s2 _ cf2 S2 Hcf2 pp Ppp). apply generators_members; assumption. }
  assert (S3 : Sound E s3).
  { eapply Sound_set_group; [exact S2|exact Hct2| |exact H3].
    eapply gadd_set_sound; [exact Gt2| |exact Pset|exact Hr| |exact Sset].
    - rewrite SLt. exact ISt.
    - apply Sound_grp_sound; assumption. }
  apply mbind_inv in H. destruct H as (u4 & s4 & H4 & H).
  assert (UC4 : ucsame s3 s4).
  { destruct bg; [exact (uc_touched_class _ _ _ _ _ H4)|inversion H4; apply ucsame_refl]. }
  apply (Sound_ucsame E s4 s'); [exact (uc_touched_class _ _ _ _ _ H)|].
  exact (Sound_ucsame E s3 s4 UC4 S3).
Qed.

(* ====================================================================== *)
(* 10. union_leaders, union_internal                                       *)
(* ====================================================================== *)

Lemma inter_cap : forall (ml mr : slotmap) x y v, wf ml -> wf mr ->
  get ml x = Some v -> get mr y = Some v -> In v (sset_inter (values ml) (values mr)).
Proof.
  intros ml mr x y v Wl Wr Gx Gy. unfold sset_inter. apply filter_In. split.
  - apply values_spec; [assumption|]. eauto.
  - apply sset_mem_in. apply values_spec; [assumption|]. eauto.
Qed.

Lemma inter_cap' : forall (ml mr : slotmap) x y v, wf ml -> wf mr ->
  get mr x = Some v -> get ml y = Some v -> In v (sset_inter (values ml) (values mr)).
Proof. intros ml mr x y v Wl Wr Gx Gy. eapply inter_cap; eauto. Qed.

Section LeadersS.
  Variable E : equations.
  Variable fu : nat.
  Hypothesis MG : migrate_ok E.
  Hypothesis HS : ui_spec_sound E (union_internal fu).

  Theorem Sound_union_leaders : forall l r s b s', inv3 s -> mod4_ok s -> Sound E s -> lcanon s l -> lcanon s r ->
    sim E s l r -> union_leaders (union_internal fu) l r s = Ok (b, s') -> Sound E s'.
  Proof.
    intros l r s b s' I3 M4 S Ll Lr SIM H. pose proof I3 as [Hs2 HN]. pose proof Hs2 as [Hs Hbl].
    pose proof (inv3_union_internal fu) as H3.
    unfold union_leaders in H.
    apply bind_reads_inv in H. destruct H as (e & _ & H).
    destruct e; [inversion H; subst; exact S|]. cbv zeta in H.
    pose proof (canon_covers _ _ (proj2 Ll)) as Cl. pose proof (canon_covers _ _ (proj2 Lr)) as Cr.
    destruct (canon_skeys s l Hs (proj2 Ll)) as [Il Kl]. destruct (canon_skeys s r Hs (proj2 Lr)) as [Ir Kr].
    pose proof (proj2 Ll) as (cl0 & Hcl0 & Gl0 & Wl & Bl & Kl0). pose proof (proj2 Lr) as (cr0 & Hcr0 & Gr0 & Wr & Br & Kr0).
    destruct (negb (sset_eqb (values (am l)) _)) eqn:E1.
    { apply mbind_inv in H. destruct H as (u1 & s1 & H1 & H).
      destruct (inv3_shrink_slots fu H3 _ _ _ _ _ I3 Ll H1) as [Hs1 X1].
      assert (S1 : Sound E s1).
      { eapply (Sound_shrink_slots E fu HS l _ s u1 s1 I3 M4 S Ll). 2: exact H1.
        apply (redund_of_sim E s l r _ SIM Il Ir Kl). intros x y v Gx Gy. eapply inter_cap; eauto. }
      apply mbind_inv in H. destruct H as (b2 & s2 & H2 & H). inversion H; subst b s2; clear H.
      apply (HS l r s1 b2 s' Hs1 (p4_shrink_slots _ (m4_union_internal fu) _ _ _ _ _ H1 M4) S1 (covers_ext _ _ _ X1 Cl) (covers_ext _ _ _ X1 Cr)); [|exact H2].
      apply (sim_synsame E s s1 _ _ (ext_synsame _ _ X1)). exact SIM. }
    destruct (negb (sset_eqb (values (am r)) _)) eqn:E2.
    { apply mbind_inv in H. destruct H as (u1 & s1 & H1 & H).
      destruct (inv3_shrink_slots fu H3 _ _ _ _ _ I3 Lr H1) as [Hs1 X1].
      assert (S1 : Sound E s1).
      { eapply (Sound_shrink_slots E fu HS r _ s u1 s1 I3 M4 S Lr). 2: exact H1.
        apply (redund_of_sim E s r l _ (sim_sym _ _ _ _ SIM) Ir Il Kr). intros x y v Gx Gy. eapply inter_cap'; eauto. }
      apply mbind_inv in H. destruct H as (b2 & s2 & H2 & H). inversion H; subst b s2; clear H.
      apply (HS l r s1 b2 s' Hs1 (p4_shrink_slots _ (m4_union_internal fu) _ _ _ _ _ H1 M4) S1 (covers_ext _ _ _ X1 Cl) (covers_ext _ _ _ X1 Cr)); [|exact H2].
      apply (sim_synsame E s s1 _ _ (ext_synsame _ _ X1)). exact SIM. }
    apply negb_false_iff in E1, E2. apply sset_eqb_eq in E1, E2.
    assert (V : values (am l) = values (am r)) by congruence.
    destruct (aid l =? aid r) eqn:E3; neq.
    - apply bind_reads_inv in H. destruct H as (c & Hc & H).
      apply mbind_inv in H. destruct H as (bc & s0 & Hb & H). apply lift_inv in Hb. destruct Hb as [Hb ->].
      destruct bc; [inversion H; subst; exact S|].
      apply mbind_inv in H. destruct H as ([g' bg] & s0 & Hg & H). apply lift_inv in Hg. destruct Hg as [Hg ->].
      cbn [fst] in H.
      apply mbind_inv in H. destruct H as (u1 & s1 & H1 & H).
      apply mbind_inv in H. destruct H as (u2 & s2 & H2 & H). inversion H; subst b s2; clear H.
      rewrite Hc in Hcl0. inversion Hcl0; subst cl0. rewrite <- E3, Hc in Hcr0. inversion Hcr0; subst cr0.
      apply (Sound_ucsame E s1 s'); [exact (uc_touched_class _ _ _ _ _ H2)|].
      apply (Sound_gadd_set E s (aid l) c [am r ** inv (am l)] g' bg u1 s1 Hs S Hc); [| |exact Hg|exact H1].
      + constructor; [|constructor]. apply quot_perm_on; auto.
      + intros p [<-|[]]. destruct l as [i ml]. destruct r as [j mr]. cbn [aid am] in *. subst j.
        apply quot_perm_sound; assumption.
    - apply bind_reads_inv in H. destruct H as (cl & Hcl & H).
      apply bind_reads_inv in H. destruct H as (cr & Hcr & H). cbv zeta in H.
      apply mbind_inv in H. destruct H as (u1 & s1 & H1 & H). inversion H; subst b s1; clear H.
      match type of H1 with (if ?b then _ else _) _ = _ => destruct b end.
      + eapply (Sound_move_to E MG l r); [exact I3|exact M4|exact S|exact Ll|exact Lr| |exact V|exact SIM|exact H1]. congruence.
      + eapply (Sound_move_to E MG r l); [exact I3|exact M4|exact S|exact Lr|exact Ll| | |apply sim_sym; exact SIM|exact H1]; congruence.
  Qed.

  Theorem Sound_union_internal_body : ui_spec_sound E (union_internal_body (union_internal fu)).
  Proof.
    intros l r s b s' I3 M4 S Cl Cr SIM H. unfold union_internal_body in H. pose proof (proj1 (proj1 I3)) as Hs.
    apply bind_reads_inv in H. destruct H as (l' & Hl & H).
    apply bind_reads_inv in H. destruct H as (r' & Hr & H).
    eapply Sound_union_leaders; [exact I3|exact M4|exact S| | | |exact H].
    - exact (covers_lcanon s l l' Hs Cl Hl).
    - exact (covers_lcanon s r r' Hs Cr Hr).
    - exact (sim_find_both E s l r l' r' S Hs Cl Cr Hl Hr SIM).
  Qed.
End LeadersS.

Theorem sound_union_internal : forall E, migrate_ok E -> forall fuel, ui_spec_sound E (union_internal fuel).
Proof.
  intros E MG. induction fuel as [|f IH]; [intros l r s b s' _ _ _ _ _ _ H; discriminate|].
  intros l r. rewrite union_internal_S. apply Sound_union_internal_body; assumption.
Qed.

Corollary sound_uint : forall E, migrate_ok E -> ui_spec_sound E uint.
Proof. intros E MG. apply sound_union_internal. exact MG. Qed.


(* ====================================================================== *)
(* 11. the re-keyed entries of move_to                                     *)
(* ====================================================================== *)

Lemma rokL_app_l : forall A B sg, rokL (A ++ B) sg -> rokL A sg.
Proof.
  intros A B sg [I N]. split.
  - intros x y Hx Hy. apply I; apply in_or_app; left; assumption.
  - intros x Hx. apply N. apply in_or_app. left. exact Hx.
Qed.

Theorem migrate_ok_proved : forall E, migrate_ok E.
Proof.
  intros E s from to cf sh bij src c0 I3 M4 Lf Lt Hn V Hcf Hin EG ED Lc0.
  pose proof I3 as [[Hs Hbl] HN].
  destruct Lf as [Ldf Cf]. destruct Lt as [Ldt Ct].
  pose proof Cf as (cf' & Hcf' & Gf & Wf & Bf & Kf). rewrite Hcf in Hcf'. inversion Hcf'; subst cf'; clear Hcf'.
  pose proof Ct as (ct & Hct & Gt & Wt & Bt & Kt).
  destruct (move_map_ok s from to cf ct Hcf Hct Cf Ct V) as (Wm & Im & Sm & Vm).
  set (m := am to ** inv (am from)) in *.
  pose proof (proj2 (is_bijection_injective m Wm) Im) as Bm.
  destruct (HN _ _ _ Hcf Hin) as (Wb & Ib & Kb & Vb). cbn [fst snd] in Wb, Ib, Kb, Vb.
  destruct (m4_nodes s M4 _ _ _ Hcf Hin) as [Qb Qv]. cbn [fst snd] in Qb, Qv.
  destruct (ei_cls s Hs _ _ Hcf) as (_ & _ & Isf). destruct (ei_cls s Hs _ _ Hct) as (_ & _ & Ist).
  set (mi := inv m) in *.
  set (nb := fst (compose_fresh bij mi c0)) in *.
  assert (Imi : injective mi) by (apply inv_injective; assumption).
  assert (Vmi : forall k v, get mi k = Some v -> In v (c_slots ct)).
  { intros k v G. apply (get_inverse m _ _ Wm Bm) in G. rewrite <- Kt. apply keys_spec. intros N0.
    unfold m in G. rewrite get_compose_partial in G by assumption. rewrite N0 in G. discriminate. }
  assert (Bmi : forall k v, get mi k = Some v -> v < c0).
  { intros k v G. apply Vmi in G. apply Ist, slots_spec, pub_occ_all_occ in G. pose proof (Hbl _ _ _ Hct G).
    pose proof (ctr_step_le _ _ Lc0). lia. }
  pose proof (fun k => compose_fresh_spec bij mi c0 k Wb) as Sp. cbv zeta in Sp. fold nb in Sp.
  destruct (compose_fresh_inj bij mi c0 Wb Ib Imi Bmi) as [Inb _]. fold nb in Inb.
  assert (Q1 : forall k v, get nb k = Some v -> v mod 4 = 1).
  { intros k v G. destruct (Sp k) as (_ & _ & T). destruct (get bij k) as [y|] eqn:Gb; [|congruence].
    destruct (get mi y) as [z|] eqn:Gz.
    - rewrite T in G. inversion G; subst z. apply (m4_syn s M4 (aid to)). rewrite (SS_class _ _ _ Hct). apply Ist. eapply Vmi; eauto.
    - destruct T as (z & Ez & _ & Mz). rewrite Ez in G. inversion G; subst z. rewrite Mz.
      rewrite (ctr_step_mod _ _ Lc0). apply M4. }
  intros n' sg t Ha' Rk Nt. cbn [fst snd] in Ha'.
  pose proof (apply_slotmap_ren _ _ _ Ha') as En'.
  pose proof (apply_slotmap_keys _ _ _ Ha') as Kn'.
  assert (Kbij : forall x, In x (pub_occ sh) -> get bij x <> None).
  { intros x Hx Gn. apply (Kn' x Hx). destruct (Sp x) as (_ & _ & T). rewrite Gn in T. exact T. }
  pose proof (apply_slotmap_ok bij sh Kbij) as Ha. set (n := ren (asm_g bij) sh) in *.
  assert (NCb : forall k v, get bij k = Some v -> ~ In v (binders sh)).
  { intros k v G Hb. pose proof (Qv _ _ G). pose proof (Qb _ Hb). lia. }
  assert (NCn : forall k v, get nb k = Some v -> ~ In v (binders sh)).
  { intros k v G Hb. pose proof (Q1 _ _ G). pose proof (Qb _ Hb). lia. }
  assert (Pn' : pub_occ n' = map (asm_g nb true) (pub_occ sh)).
  { rewrite En'. apply ren_pub_occ.
    - intros x y _ _ Hxy. exact Hxy.
    - intros x b Hx Hb. unfold asm_g. destruct (get nb x) as [v|] eqn:G; [|exfalso; exact (Kn' x Hx G)].
      intros ->. eapply NCn; eauto. }
  assert (Vn' : forall k v, get nb k = Some v -> In v (slots n')).
  { intros k v G. apply slots_spec. rewrite Pn'. apply in_map_iff. exists k. split; [unfold asm_g; rewrite G; reflexivity|].
    apply Kb. destruct (Sp k) as (_ & _ & T). destruct (get bij k); [discriminate|congruence]. }
  set (th := inv bij ** nb).
  assert (Bb : is_bijection bij = true) by (apply is_bijection_injective; assumption).
  assert (Gth : forall v w, get th v = Some w <-> exists k, get bij k = Some v /\ get nb k = Some w).
  { intros v w. unfold th. rewrite get_compose_partial by apply inverse_wf. split.
    - destruct (get (inv bij) v) as [k|] eqn:Gk; [|discriminate]. intros G. apply (get_inverse bij _ _ Wb Bb) in Gk. eauto.
    - intros (k & G1 & G2). rewrite (proj2 (get_inverse bij v k Wb Bb) G1). exact G2. }
  assert (Ith : injective th).
  { intros v1 v2 w G1 G2. apply Gth in G1, G2. destruct G1 as (k1 & A1 & B1), G2 as (k2 & A2 & B2).
    assert (k1 = k2) by (eapply Inb; eauto). subst. congruence. }
  set (L := SS s (aid to) ++ slots n') in *.
  set (sg' := ext_ren sg th (bound_of sg L)).
  assert (Rsg' : forall L', rokL L' sg').
  { intros L'. apply (ext_ren_rok L); [exact Rk|exact Ith|]. intros v w G. apply Gth in G. destruct G as (k & _ & G).
    unfold L. apply in_or_app. right. eapply Vn'; eauto. }
  assert (Nt' : NodeT s sg' n t).
  { set (r0 := fun x => sg (asm_g nb true x)).
    rewrite En' in Nt. apply (proj1 (NodeT_ren s nb sh sg r0 t (fun x _ => eq_refl) NCn)) in Nt.
    assert (R1 : forall x, In x (pub_occ sh) -> r0 x = sg' (asm_g bij true x)).
    { intros x Hx. unfold r0, asm_g. destruct (get bij x) as [v|] eqn:Gb; [|exfalso; exact (Kbij x Hx Gb)].
      destruct (get nb x) as [w|] eqn:Gn; [|exfalso; exact (Kn' x Hx Gn)].
      unfold sg', ext_ren. rewrite (proj2 (Gth v w)); [reflexivity|eauto]. }
    exact (proj2 (NodeT_ren s bij sh sg' r0 t R1 NCb) Nt). }
  pose proof (EG n sg' t Ha (Rsg' _) Nt') as D1.
  apply D_trans with (clsT s sg' (aid from)); [|exact D1].
  apply D_sym. apply (ED sg' sg (Rsg' _) (rokL_app_l _ _ _ Rk)).
  cbn [aid am idapp]. intros x y v Gx Gy. apply identity_get in Gx. destruct Gx as [-> _].
  pose proof (Vm _ _ Gy) as Hv. destruct (Vb v Hv) as (k & Gk).
  assert (Gmi : get mi v = Some y) by (apply (get_inverse m _ _ Wm Bm); exact Gy).
  destruct (Sp k) as (_ & _ & T). rewrite Gk, Gmi in T.
  unfold sg', ext_ren. rewrite (proj2 (Gth v y)); [reflexivity|eauto].
Qed.

(* ====================================================================== *)
(* 12. the closed statements                                               *)
(* ====================================================================== *)

Theorem Sound_move_to_closed : forall E from to s x s', inv3 s -> mod4_ok s -> Sound E s ->
  lcanon s from -> lcanon s to -> aid to <> aid from -> values (am from) = values (am to) ->
  sim E s from to -> move_to from to s = Ok (x, s') -> Sound E s'.
Proof. intros E. apply Sound_move_to. apply migrate_ok_proved. Qed.

Theorem sound_union_internal_closed : forall E fuel, ui_spec_sound E (union_internal fuel).
Proof. intros E. apply sound_union_internal. apply migrate_ok_proved. Qed.

Corollary sound_uint_closed : forall E, ui_spec_sound E uint.
Proof. intros E. apply sound_union_internal_closed. Qed.

Theorem Sound_union_leaders_closed : forall E fu l r s b s', inv3 s -> mod4_ok s -> Sound E s ->
  lcanon s l -> lcanon s r -> sim E s l r ->
  union_leaders (union_internal fu) l r s = Ok (b, s') -> Sound E s'.
Proof.
  intros E fu. apply Sound_union_leaders; [apply migrate_ok_proved|apply sound_union_internal_closed].
Qed.

Theorem Sound_shrink_slots_closed : forall E fu from cap s x s', inv3 s -> mod4_ok s -> Sound E s -> lcanon s from ->
  redund E s (aid from) (fun k => match get (am from) k with Some v => negb (sset_mem v cap) | None => true end) ->
  shrink_slots (union_internal fu) from cap s = Ok (x, s') -> Sound E s'.
Proof. intros E fu. apply Sound_shrink_slots. apply sound_union_internal_closed. Qed.

(* a union keeps both invariants *)
Corollary uint_keeps : forall E l r s b s', inv3 s -> mod4_ok s -> Sound E s -> covers s l -> covers s r ->
  sim E s l r -> uint l r s = Ok (b, s') -> inv3 s' /\ mod4_ok s' /\ Sound E s' /\ ext s s'.
Proof.
  intros E l r s b s' I3 M4 S Cl Cr SIM H. destruct (inv3_uint l r s b s' I3 Cl Cr H) as [I3' X].
  split; [exact I3'|]. split; [exact (m4_union_internal ui_fuel l r s b s' H M4)|]. split; [|exact X].
  exact (sound_uint_closed E l r s b s' I3 M4 S Cl Cr SIM H).
Qed.

(* ====================================================================== *)
(* 13. the structural invariant mod4_ok: executable form, examples          *)
(* ====================================================================== *)

Definition Q4b (e : node * (slotmap * N)) : bool :=
  forallb (fun x => x mod 4 =? 0) (binders (fst e)) && forallb (fun kv => snd kv mod 4 =? 1) (fst (snd e)).

Definition mod4_okb (s : egraph) : bool :=
  (ectr s mod 4 =? 1)
  && forallb (fun c => forallb (fun x => x mod 4 =? 1) (slots (c_syn c)) && forallb Q4b (c_nodes c)) (classes s)
  && forallb (fun e => forallb (fun kv => fst kv mod 4 =? 1) (am e)) (unionfind s).

Theorem mod4_okb_sound : forall s, mod4_okb s = true -> mod4_ok s.
Proof.
  intros s H. unfold mod4_okb in H. apply andb_true_iff in H. destruct H as [H H3].
  apply andb_true_iff in H. destruct H as [H1 H2]. neq.
  assert (HC : forall i c, get_class s i = Ok c ->
            forallb (fun x => x mod 4 =? 1) (slots (c_syn c)) = true /\ forallb Q4b (c_nodes c) = true).
  { intros i c Hc. pose proof (proj1 (forallb_forall _ _) H2 c (get_class_In _ _ _ Hc)) as T. cbv beta in T.
    apply andb_true_iff in T. exact T. }
  constructor.
  - exact H1.
  - intros i x Hx. unfold SS in Hx. destruct (get_class s i) as [c|] eqn:Hc; [|contradiction].
    destruct (HC _ _ Hc) as [T _]. pose proof (proj1 (forallb_forall _ _) T x Hx) as T'. cbv beta in T'. neq. exact T'.
  - intros i c e Hc He. destruct (HC _ _ Hc) as [_ T]. pose proof (proj1 (forallb_forall _ _) T e He) as T'.
    unfold Q4b in T'. apply andb_true_iff in T'. destruct T' as [A B]. split.
    + intros x Hx. pose proof (proj1 (forallb_forall _ _) A x Hx) as T2. cbv beta in T2. neq. exact T2.
    + intros k v G. apply get_in in G. pose proof (proj1 (forallb_forall _ _) B _ G) as T2. cbn [snd] in T2. neq. exact T2.
  - intros i e He k Hk. unfold uentry in He. apply nth_opt_In in He.
    pose proof (proj1 (forallb_forall _ _) H3 e He) as T. cbv beta in T.
    destruct (get (am e) k) as [v|] eqn:G; [|congruence]. apply get_in in G.
    pose proof (proj1 (forallb_forall _ _) T _ G) as T2. cbn [fst] in T2. neq. exact T2.
Qed.

Example mod4_ok_empty : mod4_ok empty_egraph.
Proof. apply mod4_okb_sound. vm_compute. reflexivity. Qed.

(* the checker after every operation of the hand-written histories of AddCoversFacts.v *)
Fixpoint run_chk4 (terms : list rterm) (ops : list hop) (hs : list appid) (s : egraph) : bool :=
  match ops with
  | [] => true
  | o :: t =>
    let r := match o with
      | HAdd k => match nth_opt terms k with None => Err OutOfBounds
                  | Some tm => match add_expr tm s with Ok (a, s') => Ok (hs ++ [a], s') | Err e => Err e end end
      | HUnion i j _ => match nth_opt hs i, nth_opt hs j with
                  | Some a, Some b => match eg_union a b s with Ok (_, s') => Ok (hs, s') | Err e => Err e end
                  | _, _ => Err OutOfBounds end
      end in
    match r with
    | Err e => false
    | Ok (hs', s') => mod4_okb s' && run_chk4 terms t hs' s'
    end
  end.

Example x_histories_mod4 :
  map (fun p => run_chk4 (fst p) (snd p) [] empty_egraph)
      [(xT1, xO1); (xT2, xO2); (xT3, xO3); (xT4, xO4); (xT5, xO5); (xT6, xO6); (ex_terms, ex_ops); (ix_terms, ix_ops); (mh_terms, mh_ops1 ++ mh_ops2)]
  = [true; true; true; true; true; true; true; true; true].
Proof. vm_compute. reflexivity. Qed.

(* ====================================================================== *)
(* 13b. mod4_ok holds in every reachable state                             *)
(* ====================================================================== *)

Lemma p4_fresh : p4 fresh.
Proof.
  intros s x s' H M. inversion H; subst x s'. apply (m4_frame s _); [| | | |exact M].
  - cbn [Model.ctr set_ctr]. rewrite N.add_mod by lia. rewrite (m4_ctr s M). reflexivity.
  - apply classes_synsame. reflexivity.
  - apply nsame_nodes_same. apply nsame_ctr.
  - intros i e He. left. exact He.
Qed.
Lemma p4_fill_fresh : forall l m, p4 (fill_fresh l m).
Proof. apply (pres_fill_fresh R4 R4_refl R4_trans p4_fresh). Qed.
Lemma p4_synify_app_id : forall a, p4 (synify_app_id a).
Proof. apply (pres_synify_app_id R4 R4_refl R4_trans p4_fresh). Qed.
Lemma p4_synify_enode : forall n, p4 (synify_enode n).
Proof. apply (pres_synify_enode R4 R4_refl R4_trans p4_fresh). Qed.
Lemma p4_pc_congruence : forall a b, p4 (pc_congruence a b).
Proof.
  apply (pres_pc_congruence R4 R4_refl R4_trans).
  - intros a b. apply p4_with_ctr. apply compose_fresh_step.
  - intros lg m n. apply p4_with_ctr. apply apply_slotmap_fresh_step.
Qed.
Lemma p4_uint : forall l r, p4 (uint l r).
Proof. intros l r. apply m4_union_internal. Qed.

(* the values of a filled map *)
Lemma fill_fresh_m4 : forall l m s m' s', wf m -> mod4_ok s -> (forall k v, get m k = Some v -> v mod 4 = 1) ->
  fill_fresh l m s = Ok (m', s') -> forall k v, get m' k = Some v -> v mod 4 = 1.
Proof.
  induction l as [|x t IH]; intros m s m' s' W M Hm H; cbn [fill_fresh] in H.
  - inversion H; subst. exact Hm.
  - destruct (contains_key m x); [eapply IH; eauto|].
    apply mbind_inv in H. destruct H as (f & s1 & H1 & H).
    pose proof (p4_fresh _ _ _ H1 M) as M1. inversion H1; subst f s1.
    apply (IH _ _ _ _ (insert_wf _ _ _ W) M1) with (2 := H).
    intros k v. rewrite get_insert by exact W. destruct (k =? x); [|apply Hm].
    intros Ev. inversion Ev; subst v. apply M.
Qed.

Lemma p4_handle_shrink : forall src, p4 (handle_shrink_in_upwards_merge src).
Proof.
  intros src. unfold handle_shrink_in_upwards_merge. apply p4_bind; [apply p4_reads|]. intros pc1.
  apply p4_bind; [apply p4_reads|]. intros n2. apply p4_bind; [apply p4_pc_congruence|]. intros [a b].
  apply p4_shrink_slots. apply p4_uint.
Qed.

Lemma p4_handle_congruence : forall pc, p4 (handle_congruence pc).
Proof.
  intros pc. unfold handle_congruence. apply p4_bind; [apply p4_reads|]. intros sh.
  apply p4_bind; [apply p4_reads|]. intros pc2. apply p4_bind; [apply p4_pc_congruence|]. intros ab.
  apply p4_bind; [apply p4_uint|]. intros _. apply p4_ret.
Qed.

Lemma p4_determine_self_symmetries : forall src, p4 (determine_self_symmetries src).
Proof.
  intros src. unfold determine_self_symmetries. apply p4_bind; [apply p4_reads|]. intros pc1.
  apply p4_bind; [apply p4_lift|]. intros w. cbv zeta. apply p4_bind; [apply p4_reads|]. intros vs.
  apply p4_iterM. intros pn2. apply p4_bind; [apply p4_lift|]. intros w2.
  destruct (node_eqb (fst w) (fst w2)); [|apply p4_ret].
  apply p4_bind; [apply p4_pc_congruence|]. intros ab. apply p4_bind; [apply p4_uint|]. intros _. apply p4_ret.
Qed.

Definition k4w (a : appid) : Prop := k4 (am a) /\ wf (am a).

Lemma find_k4w : forall s a a', mod4_ok s -> find_applied_id s a = Ok a' -> k4w a'.
Proof.
  intros s a a' M H. split; [eapply find_k4; eauto|]. unfold find_applied_id in H.
  destruct (unionfind_get s (aid a)) as [p|]; cbn [bind] in H; [|discriminate]. inversion H; subst a'. cbn [am].
  apply compose_partial_wf.
Qed.

Lemma hp_loop_m4 : forall fuel src e i s e' i' s', mod4_ok s -> k4w i ->
  hp_loop fuel src e i s = Ok ((e', i'), s') -> mod4_ok s' /\ k4w i'.
Proof.
  induction fuel as [|f IH]; intros src e i s e' i' s' M Ki H; [discriminate|]. cbn [hp_loop] in H.
  destruct (sset_subset (values (am i)) (slots e)).
  - inversion H; subst. auto.
  - apply mbind_inv in H. destruct H as (u & s1 & H1 & H).
    pose proof (p4_handle_shrink _ _ _ _ H1 M) as M1.
    apply bind_reads_inv in H. destruct H as (e1 & _ & H).
    apply bind_reads_inv in H. destruct H as (i1 & Hi1 & H).
    exact (IH _ _ _ _ _ _ _ M1 (find_k4w _ _ _ M1 Hi1) H).
Qed.

Lemma compose_vals : forall a b k v, get (a ** b) k = Some v -> exists y, get b y = Some v.
Proof.
  intros a b k v H. unfold compose_partial in H. rewrite get_from_iter in H. apply assoc_last_in in H.
  apply in_flat_map in H. destruct H as ([k0 y] & _ & Hv). cbn [fst snd] in Hv.
  destruct (get b y) as [z|] eqn:G; [|contradiction]. destruct Hv as [Hv|[]]. inversion Hv; subst. eauto.
Qed.

Theorem p4_handle_pending : forall sh ty, p4 (handle_pending sh ty).
Proof.
  intros sh ty s x s' H M. unfold handle_pending in H.
  apply bind_reads_inv in H. destruct H as (i & _ & H).
  destruct (negb ty); [inversion H; subst; exact M|].
  apply bind_reads_inv in H. destruct H as (c & Hc & H).
  apply mbind_inv in H. destruct H as ([bij0 src_id] & s0 & Hp & H). apply lift_inv in Hp. destruct Hp as [_ ->].
  apply mbind_inv in H. destruct H as (nd & s0 & Hnd & H). apply lift_inv in Hnd. destruct Hnd as [_ ->].
  apply mbind_inv in H. destruct H as (u1 & sA & HA & H).
  pose proof (p4_raw_remove _ _ _ _ _ HA M) as MA.
  apply bind_reads_inv in H. destruct H as (sl & _ & H). cbv zeta in H.
  apply bind_reads_inv in H. destruct H as (enode0 & _ & H).
  apply bind_reads_inv in H. destruct H as (i0 & Hi0 & H).
  apply mbind_inv in H. destruct H as ([enode i1] & sB & HB & H).
  destruct (hp_loop_m4 _ _ _ _ _ _ _ _ MA (find_k4w _ _ _ MA Hi0) HB) as [MB [K1 W1]].
  apply bind_reads_inv in H. destruct H as (t & Ht & H).
  apply bind_reads_inv in H. destruct H as (lk & _ & H).
  destruct lk as [hit|].
  - apply bind_reads_inv in H. destruct H as (pc & _ & H). exact (p4_handle_congruence _ _ _ _ H MB).
  - destruct t as [sh' bij].
    apply mbind_inv in H. destruct H as (m & sC & Hm & H).
    change (fill_fresh (values bij) (inv (am i1)) sB = Ok (m, sC)) in Hm. cbv zeta in H.
    apply mbind_inv in H. destruct H as (u2 & sD & HD & H).
    pose proof (p4_fill_fresh _ _ _ _ _ Hm MB) as MC.
    assert (Vm : forall k v, get m k = Some v -> v mod 4 = 1).
    { apply (fill_fresh_m4 _ _ _ _ _ (inverse_wf (am i1)) MB) with (2 := Hm).
      intros k v G. apply get_inverse_sound in G; [|exact W1]. apply K1. congruence. }
    unfold shape in Ht. destruct (pre_shape sB enode) as [p|] eqn:Pp; cbn [bind] in Ht; [|discriminate].
    assert (Q : Q4 (sh', (bij ** m, src_id))).
    { split; cbn [fst snd].
      - intros y Hy. apply (shape_all_occ_mod4 _ _ _ Ht). apply binders_all_occ. exact Hy.
      - intros k v G. apply compose_vals in G. destruct G as (y & G). eapply Vm; eauto. }
    pose proof (p4_raw_add _ _ _ _ Q _ _ _ HD MC) as MD.
    exact (p4_determine_self_symmetries _ _ _ _ H MD).
Qed.

Theorem p4_rebuild : forall fuel, p4 (rebuild fuel).
Proof.
  induction fuel as [|f IH]; [intros s x s' H; discriminate|]. rewrite rebuild_S.
  apply p4_bind; [apply (pres_gets R4 R4_refl)|]. intros p. destruct p as [|[sh ty] rest]; [apply p4_ret|].
  apply p4_bind; [intros s x s' H; inversion H; apply R4_same; reflexivity|].
  intros _. apply p4_bind; [apply p4_handle_pending|]. intros _. apply IH.
Qed.

Theorem p4_eg_union : forall l r, p4 (eg_union l r).
Proof.
  intros l r. unfold eg_union. apply p4_bind; [apply p4_synify_app_id|]. intros _.
  apply p4_bind; [apply p4_synify_app_id|]. intros _. apply p4_bind; [apply p4_uint|]. intros out.
  apply p4_bind; [apply p4_rebuild|]. intros _. apply p4_ret.
Qed.

(* the public slots of a renamed node are renamed public slots *)
Lemma pub_occ_f_ren : forall g a bound y, (forall x, g false x = x) ->
  In y (pub_occ_f (ren_f g bound a)) ->
  (exists x, In x (pub_occ_f a) /\ unbound bound x = true /\ y = g true x) \/ In y bound.
Proof.
  intros g. induction a as [s|a0|s b IH|p]; intros bound y Hg H; cbn [ren_f pub_occ_f] in H.
  - destruct H as [<-|[]]. destruct (negb (existsb (N.eqb s) bound)) eqn:U.
    + left. exists s. split; [left; reflexivity|]. split; [exact U|reflexivity].
    + right. rewrite Hg. apply unbound_false_in. exact U.
  - cbn [am] in H. unfold values_vec, ren_vals in H. rewrite map_map in H. cbn [snd] in H.
    apply in_map_iff in H. destruct H as ([k v] & <- & Hin). cbn [snd].
    destruct (negb (existsb (N.eqb v) bound)) eqn:U.
    + left. exists v. split; [|split; [exact U|reflexivity]]. cbn [pub_occ_f]. unfold values_vec.
      apply in_map_iff. exists (k, v). auto.
    + right. rewrite Hg. apply unbound_false_in. exact U.
  - rewrite Hg in H. apply filter_In in H. destruct H as [H Ny]. apply negb_true_iff in Ny. neq.
    destruct (IH (s :: bound) y Hg H) as [(x & Hx & U & ->)|[<-|Hb]].
    + left. exists x. rewrite unbound_cons in U. apply andb_true_iff in U. destruct U as [U1 U2].
      split; [cbn [pub_occ_f]; apply filter_In; split; [exact Hx|exact U1]|]. split; [exact U2|reflexivity].
    + congruence.
    + right. exact Hb.
  - contradiction.
Qed.

Lemma pub_occ_ren_sub : forall g n y, (forall x, g false x = x) -> In y (pub_occ (ren g n)) ->
  exists x, In x (pub_occ n) /\ y = g true x.
Proof.
  intros g n y Hg H. unfold pub_occ, ren in H. cbn [nargs] in H. apply in_flat_map in H.
  destruct H as (a' & Ha' & Hy). apply in_map_iff in Ha'. destruct Ha' as (a & <- & Ha).
  destruct (pub_occ_f_ren g a [] y Hg Hy) as [(x & Hx & _ & ->)|[]].
  exists x. split; [|reflexivity]. unfold pub_occ. apply in_flat_map. exists a. auto.
Qed.

Theorem p4_mk_singleton : forall en, p4 (mk_singleton_class en).
Proof.
  intros en s a s' H M. unfold mk_singleton_class in H.
  apply mbind_inv in H. destruct H as (f2o & s1 & H1 & H).
  pose proof (p4_with_ctr _ _ (bijection_from_fresh_to_step (slots en)) _ _ _ H1 M) as M1.
  unfold with_ctr in H1. destruct (bijection_from_fresh_to (slots en) (ectr s)) as [f2o' c2] eqn:BF.
  inversion H1; subst f2o' s1; clear H1.
  apply mbind_inv in H. destruct H as (syn0 & s2 & H2 & H).
  pose proof (p4_with_ctr _ _ (apply_slotmap_fresh_step false (inv f2o) en) _ _ _ H2 M1) as M2.
  unfold with_ctr in H2. cbn [Model.ctr set_ctr] in H2.
  destruct (fresh_spec _ _ _ _ (slots_sorted en) BF) as (F1 & _).
  assert (K : forall x, In x (pub_occ en) -> get (inv f2o) x <> None).
  { intros x Hx. apply slots_spec in Hx. destruct (F1 x Hx) as (y & -> & _). discriminate. }
  rewrite (asf_ren (inv f2o) en c2 K) in H2. inversion H2; subst syn0 s2; clear H2.
  set (synf := ren (fun b s0 => if b then match get (inv f2o) s0 with Some y => y | None => s0 end else s0) en) in *.
  assert (Psyn : forall y, In y (pub_occ synf) -> y mod 4 = 1).
  { intros y Hy. apply pub_occ_ren_sub in Hy; [|reflexivity]. destruct Hy as (x & Hx & ->).
    apply slots_spec in Hx. destruct (F1 x Hx) as (u & -> & _ & Mu). rewrite Mu. apply M. }
  apply mbind_inv in H. destruct H as (i & s3 & H3 & H).
  pose proof (alloc_eclass_exact _ _ _ _ _ H3) as (Hi & U & C & _ & _ & Ct).
  match type of H3 with alloc_eclass _ _ ?st = _ => set (s2 := st) in * end.
  assert (M3 : mod4_ok s3).
  { destruct M2 as [A B Cn D]. constructor.
    - rewrite Ct. exact A.
    - intros j x Hx. unfold SS in Hx. destruct (get_class s3 j) as [cj|] eqn:Hcj; [|contradiction].
      apply (get_class_ext_inv s2 s3 _ C) in Hcj. destruct Hcj as [Hcj|[_ ->]].
      + apply (B j). unfold SS. rewrite Hcj. exact Hx.
      + cbn [c_syn] in Hx. apply Psyn. apply slots_spec. exact Hx.
    - intros j cj e Hcj He. apply (get_class_ext_inv s2 s3 _ C) in Hcj. destruct Hcj as [Hcj|[_ ->]]; [eapply Cn; eauto|].
      cbn [c_nodes] in He. contradiction.
    - intros j e He. rewrite U in He. apply uentry_app_inv in He. destruct He as [He|[_ ->]]; [eapply D; eauto|].
      cbn [am]. apply k4_identity. intros x Hx. apply Psyn. apply slots_spec. exact Hx. }
  apply mbind_inv in H. destruct H as (t & s0 & Ht & H). apply lift_inv in Ht. destruct Ht as [Ht ->].
  apply mbind_inv in H. destruct H as (u4 & s4 & H4 & H). destruct t as [sh bij].
  assert (Q : Q4 (sh, (bij, i))).
  { split; cbn [fst snd].
    - intros y Hy. apply (shape_all_occ_mod4 _ _ _ Ht). apply binders_all_occ. exact Hy.
    - intros k v G. apply Psyn. apply (proj2 (proj2 (shape_bij_props _ _ _ Ht))). eauto. }
  pose proof (p4_raw_add _ _ _ _ Q _ _ _ H4 M3) as M4.
  revert M4. revert H. generalize s4. clear. intros s4.
  apply p4_bind; [apply p4_pending_insert|]. intros _. apply p4_bind; [apply p4_rebuild|]. intros _. apply p4_ret.
Qed.

Theorem p4_add_internal : forall t, p4 (add_internal t).
Proof.
  intros t. unfold add_internal. apply p4_bind; [apply p4_reads|]. intros lk. destruct lk as [hit|]; [apply p4_ret|].
  apply p4_bind.
  { intros s x s' H M. destruct (refresh_private (fst t) (ectr s)) as [[r|e] c1] eqn:RP; [|discriminate].
    inversion H; subst x s'. pose proof (refresh_private_step (fst t) (ectr s)) as St. rewrite RP in St. cbn [snd] in St.
    apply (m4_frame s _); [| | | |exact M].
    - cbn [Model.ctr set_ctr]. rewrite (ctr_step_mod _ _ St). apply M.
    - apply classes_synsame. reflexivity.
    - apply nsame_nodes_same. apply nsame_ctr.
    - intros i e He. left. exact He. }
  intros en. apply p4_bind; [apply p4_lift|]. intros en2. apply p4_bind; [apply p4_synify_enode|]. intros en3.
  apply p4_bind; [apply p4_mk_singleton|]. intros syn. apply p4_reads.
Qed.

Theorem p4_eg_add : forall n, p4 (eg_add n).
Proof. intros n. unfold eg_add. apply p4_bind; [apply p4_reads|]. intros t. apply p4_add_internal. Qed.

Theorem p4_add_expr : forall t, p4 (add_expr t).
Proof.
  fix IH 1. intros [n ch]. cbn [add_expr]. apply p4_bind.
  - induction ch as [|c r IHr]; [apply p4_ret|].
    apply p4_bind; [apply IH|]. intros a0. apply p4_bind; [apply IHr|]. intros; apply p4_ret.
  - intros l. destruct (Nat.ltb _ _); [intros s x s' H; discriminate|]. apply p4_eg_add.
Qed.

Lemma m4_run_ops : forall terms ops hs s hs' s', mod4_ok s -> run_ops terms ops hs s = Ok (hs', s') -> mod4_ok s'.
Proof.
  intros terms. induction ops as [|o t IH]; intros hs s hs' s' M H; cbn [run_ops] in H.
  - inversion H; subst. exact M.
  - destruct o as [k|i j just].
    + destruct (nth_opt terms k) as [tm|] eqn:Ek; [|discriminate].
      apply mbind_inv in H. destruct H as (a & s1 & H1 & H). exact (IH _ _ _ _ (p4_add_expr _ _ _ _ H1 M) H).
    + destruct (nth_opt hs i) as [a|] eqn:Ei; [|discriminate]. destruct (nth_opt hs j) as [b|] eqn:Ej; [|discriminate].
      apply mbind_inv in H. destruct H as (u & s1 & H1 & H). exact (IH _ _ _ _ (p4_eg_union _ _ _ _ _ H1 M) H).
Qed.

Theorem reachable_mod4 : forall terms ops hs s, run_ops terms ops [] empty_egraph = Ok (hs, s) -> mod4_ok s.
Proof. intros terms ops hs s H. exact (m4_run_ops _ _ _ _ _ _ mod4_ok_empty H). Qed.

(* ====================================================================== *)
(* 13c. the top-level hypothesis in the `sim` form (interface proposal)      *)
(* ====================================================================== *)

(* I5 in its renaming-closed form: every injective renaming rho of the names of t, and every admissible
   renaming sg of the class that is rho on the arguments of the handle: rho(t) = sg(syn i).
   (handle_ok of SoundFacts.v is the instance rho = identity.) *)
Definition handle_ok_r (E : equations) (s : egraph) (a : appid) (t : cterm) : Prop :=
  forall rho sg, inst_ok 0 rho (cnames t) -> rok s (aid a) sg ->
    (forall x v, get (am a) x = Some v -> sg x = rho v) ->
    Deriv E 0 (cren (Deriv.lift 0 rho) t) (clsT s sg (aid a)).

Lemma handle_ok_r_handle_ok : forall E s a t, (forall x v, get (am a) x = Some v -> is_B v = false) ->
  handle_ok_r E s a t -> handle_ok E s a t.
Proof.
  intros E s a t NB H. split; [exact NB|]. intros sg [R Cs]. rewrite <- (lift0_id t). apply H; [|exact R|exact Cs].
  split; [intros x y _ _ _ _ Hxy; exact Hxy|intros x _ Hu; left; exact Hu].
Qed.

(* with both handles renaming-closed, the asserted equation relates the two invocations: by the
   detour lemma only pairs of renamings that come from ONE injective renaming of the values matter *)
Theorem union_asserted_sim : forall E s l r tl tr, handle_ok_r E s l tl -> handle_ok_r E s r tr ->
  In (tl, tr) E -> injective (am l) -> injective (am r) -> skeys s l -> skeys s r ->
  sim E s l r.
Proof.
  intros E s [i ml] [j mr] tl tr Hl Hr Hin Il Ir Kl Kr. unfold skeys in Kl, Kr. cbn [aid am] in *.
  apply simw_sim; try assumption. intros sg tau Rs Rt C X. cbn [aid am] in *.
  set (La := SS s i) in *. set (Lb := SS s j) in *.
  set (K := bound2 sg La tau Lb).
  set (Th := fun v => match fkey La ml v with
                      | Some x => Some (sg x)
                      | None => match fkey Lb mr v with Some y => Some (tau y) | None => None end
                      end).
  set (V := ren2 Th 0 K).
  assert (TT : forall v n, Th v = Some n ->
             (exists x, In x La /\ get ml x = Some v /\ n = sg x) \/
             (fkey La ml v = None /\ exists y, In y Lb /\ get mr y = Some v /\ n = tau y)).
  { intros v n Hn. unfold Th in Hn. destruct (fkey La ml v) as [x|] eqn:Fx.
    - apply fkey_some in Fx. inversion Hn; subst n. left. exists x. tauto.
    - destruct (fkey Lb mr v) as [y|] eqn:Fy; [|discriminate]. apply fkey_some in Fy. inversion Hn; subst n.
      right. split; [reflexivity|]. exists y. tauto. }
  assert (TB : forall v n, Th v = Some n -> is_B n = false /\ n < 4 * K).
  { intros v n Hn. destruct (TT _ _ Hn) as [(x & Hx & _ & ->)|(_ & y & Hy & _ & ->)].
    - split; [apply (proj2 Rs); exact Hx|apply bound2_l; exact Hx].
    - split; [apply (proj2 Rt); exact Hy|apply bound2_r; exact Hy]. }
  assert (V1 : forall v1 v2, V v1 = V v2 -> v1 = v2).
  { intros v1 v2. unfold V, ren2. destruct (Th v1) as [n1|] eqn:T1; destruct (Th v2) as [n2|] eqn:T2; intros Heq.
    - subst n2. destruct (TT _ _ T1) as [(x1 & X1 & G1 & E1)|(N1 & y1 & Y1 & G1 & E1)];
        destruct (TT _ _ T2) as [(x2 & X2 & G2 & E2)|(N2 & y2 & Y2 & G2 & E2)].
      + assert (x1 = x2) by (apply (proj1 Rs); [assumption|assumption|congruence]). congruence.
      + destruct (X x1 y2 X1 Y2) as (v & A1 & A2); [congruence|]. congruence.
      + destruct (X x2 y1 X2 Y1) as (v & A1 & A2); [congruence|]. congruence.
      + assert (y1 = y2) by (apply (proj1 Rt); [assumption|assumption|congruence]). congruence.
    - destruct (TB _ _ T1) as [_ Lt]. lia.
    - destruct (TB _ _ T2) as [_ Lt]. lia.
    - lia. }
  assert (V2 : forall v, is_B (V v) = false).
  { intros v. unfold V, ren2. destruct (Th v) as [n|] eqn:T; [exact (proj1 (TB _ _ T))|].
    unfold is_B. apply N.eqb_neq. lia. }
  assert (IO : forall names, inst_ok 0 V names).
  { intros names. split; [intros x y _ _ _ _ Hxy; apply V1; exact Hxy|intros x _ _; left; apply V2]. }
  assert (VL : forall x v, get ml x = Some v -> sg x = V v).
  { intros x v G. unfold V, ren2, Th. rewrite (fkey_in La ml v x Il); [reflexivity| |exact G]. apply Kl. congruence. }
  assert (VR : forall y v, get mr y = Some v -> tau y = V v).
  { intros y v G. unfold V, ren2, Th. destruct (fkey La ml v) as [x|] eqn:Fx.
    - apply fkey_some in Fx. destruct Fx as [_ Gx]. symmetry. eapply C; eauto.
    - rewrite (fkey_in Lb mr v y Ir); [reflexivity| |exact G]. apply Kr. congruence. }
  apply D_trans with (cren (Deriv.lift 0 V) tl); [apply D_sym; apply (Hl V sg (IO _) Rs VL)|].
  apply D_trans with (cren (Deriv.lift 0 V) tr); [|apply (Hr V tau (IO _) Rt VR)].
  apply D_ax; [exact Hin|apply IO].
Qed.

(* ====================================================================== *)
(* 14. summary                                                             *)
(* ======================================================================

   PROVED (closed under the global context, see Print Assumptions below).

   Tools.
   - synsame / Sound_intro_syn: the invariant only reads the syntactic nodes of the classes; the
     clauses of a new state can be stated with the class terms of an old one.
   - simw_sim (detour lemma): to prove a ~~ b it suffices to relate the pairs of renamings without
     accidental coincidences; sim_find_both: l ~~ r gives find l ~~ find r;
     sim_restrict: redundant keys of an invocation may be dropped; redund_of_sim: from l ~~ r the slots of
     l whose value is not a value of r are redundant.
   - generated_sound', generators_members, gadd_set_sound: the group built by gadd_set from a group of
     symmetries and a list of symmetries is a group of symmetries.
   - NodeArg_ren / NodeT_ren / apply_slotmap_keys / apply_slotmap_ok: the terms of sh[m] under rho are the
     terms of sh under rho o m when no value of m is a binder of sh.

   Steps (E arbitrary).
   - Sound_set_group, Sound_gadd_set: replacing the group of a class by gadd_set of sound permutations.
   - Sound_shrink_slots(_closed): shrink_slots from cap keeps Sound when the slots of `from` whose value
     is not in cap are redundant (`redund`, supplied in union_leaders by redund_of_sim from l ~~ r):
     I1 for the witness edge, I3 for the restricted generators, and the re-asserted generators are
     unions of related invocations (shrink_moved_sound).
   - migrate_ok_proved, Sound_move_to(_closed): move_to from to keeps Sound when from ~~ to: the table
     write (Sound_move_to_edge of SoundFacts.v), the node loop (I2 of a re-keyed entry by the new edge,
     I2 in `from` and NodeT_ren), the group transport (conj_sound, gadd_set_sound).
   - Sound_union_leaders(_closed), Sound_union_internal_body,
     sound_union_internal_closed : forall E fuel, ui_spec_sound E (union_internal fuel), sound_uint_closed,
     uint_keeps, where
       ui_spec_sound E ui := forall l r s b s', inv3 s -> mod4_ok s -> Sound E s -> covers s l -> covers s r ->
                               sim E s l r -> ui l r s = Ok (b, s') -> Sound E s'.

   The structural hypothesis mod4_ok (section B): counter = 1 mod 4, syntactic slots = 1 mod 4, binders of
   stored shapes = 0 mod 4, values of stored bijections = 1 mod 4, keys of union-find maps = 1 mod 4.  It is
   needed for one fact only: applying a stored bijection (or its re-keyed version) to its shape does not
   capture a slot under a binder of the shape (I2 speaks about the node sh[bij]).
   - m4_union_internal: union_internal keeps mod4_ok, unconditionally; p4_rebuild, p4_eg_union, p4_add_expr:
     so do rebuild, eg_union and add_expr (`pres R4 m`: m s = Ok (x, s') -> mod4_ok s -> mod4_ok s');
     mod4_ok_empty, reachable_mod4: mod4_ok holds in every reachable state.  mod4_okb_sound (executable
     form); x_histories_mod4: the check after every operation of nine histories.

   - union_asserted_sim (section 13c): if both handles satisfy I5 in its renaming-closed form handle_ok_r
     (handle_ok is its instance rho = identity, handle_ok_r_handle_ok), their keys are syntactic slots and
     (tl, tr) is an equation of E, then sim E s l r: the `sim` form of the top-level hypothesis.

   NOT PROVED HERE.
   - That add_expr returns handles with handle_ok_r (Stage 2 proves / assumes handle_ok, the instance
     rho = identity; passing from handle_ok to handle_ok_r would need the equivariance of Deriv together
     with "clsT commutes with renamings").  ui_spec_sound takes `sim` as its interface; union_asserted_sim
     supplies it from handle_ok_r.
   - rebuild (Stage 4) and add (Stage 2) for Sound are not part of this file. *)

Print Assumptions simw_sim.
Print Assumptions sim_find_both.
Print Assumptions sim_restrict.
Print Assumptions redund_of_sim.
Print Assumptions gadd_set_sound.
Print Assumptions Sound_set_group.
Print Assumptions Sound_gadd_set.
Print Assumptions Sound_shrink_slots_closed.
Print Assumptions migrate_ok_proved.
Print Assumptions Sound_move_to_closed.
Print Assumptions Sound_union_leaders_closed.
Print Assumptions sound_union_internal_closed.
Print Assumptions sound_uint_closed.
Print Assumptions m4_union_internal.
Print Assumptions mod4_okb_sound.
Print Assumptions uint_keeps.
Print Assumptions x_histories_mod4.
Print Assumptions p4_rebuild.
Print Assumptions p4_eg_union.
Print Assumptions p4_add_expr.
Print Assumptions reachable_mod4.
Print Assumptions union_asserted_sim.
