(* EGraph/SoundVals.v — purely structural facts about the slot names that occur in the invocation
   returned by `add_internal`:
   (1) the values of the map returned by the lookup-miss branch are public slots of the inserted node
       or fresh slots (1 mod 4, below the new counter);
   (2) the children of a pre-shape have well-formed maps;
   (3) the counter bound on public slots, through set_apps and pre_shape. *)
From SE Require Import Slots.SlotMapFacts Group.GroupSound Lang.LangFacts Lang.ShapeFacts Lang.RenameFacts
  EGraph.Model EGraph.ModelFacts EGraph.ModelMachine EGraph.UnionFindFacts EGraph.InvariantFacts
  EGraph.UnionInvariantFacts EGraph.AddCoversFacts EGraph.MonotoneFacts EGraph.NodePass EGraph.SoundFacts
  EGraph.SoundUnion EGraph.SoundSyn EGraph.SoundNode EGraph.SoundAddNew.
From SE Require Import Sem.Deriv Sem.DerivFacts Sem.AlgebraFacts Sem.EgMachine Explain.CheckerFacts.
Require Import ZArith Lia ZifyBool ZifyN ZifyNat.
Ltac Zify.zify_post_hook ::= Z.div_mod_to_equations.

Local Notation "a ** b" := (compose_partial a b) (at level 40, left associativity).
Local Notation inv := inverse_nocheck.
Local Notation ectr := Model.ctr.

(* ====================================================================== *)
(* 0. replacing children: the public slots                                 *)
(* ====================================================================== *)

Section PubRel.
  Variable Fr : slot -> Prop.

  (* every value of the new child is a value of the old one, or satisfies Fr *)
  Definition vals_ext (x y : appid) : Prop :=
    forall v, In v (values_vec (am y)) -> In v (values_vec (am x)) \/ Fr v.

  Lemma set_apps_f_pub_rel : forall a r0 l, Forall2 vals_ext (app_occ_f a ++ r0) l ->
    (forall v, In v (pub_occ_f (fst (set_apps_f a l))) -> In v (pub_occ_f a) \/ Fr v) /\
    Forall2 vals_ext r0 (snd (set_apps_f a l)).
  Proof.
    induction a as [z|z|z b IH|q]; intros r0 l H; cbn [set_apps_f app_occ_f app] in *.
    - cbn [fst snd]. split; [intros v Hv; left; exact Hv|exact H].
    - inversion H as [|x0 y l0 t Hxy Ht]; subst. cbn [fst snd pub_occ_f]. split; [exact Hxy|exact Ht].
    - specialize (IH r0 l H). destruct (set_apps_f b l) as [b' r]. cbn [fst snd pub_occ_f] in *.
      destruct IH as [A C]. split; [|exact C]. intros v Hv. apply filter_In in Hv. destruct Hv as [Hv Nz].
      destruct (A v Hv) as [T|T]; [left; apply filter_In; split; assumption|right; exact T].
    - cbn [fst snd]. split; [intros v Hv; left; exact Hv|exact H].
  Qed.

  Lemma set_apps_args_pub_rel : forall args l, Forall2 vals_ext (flat_map app_occ_f args) l ->
    forall v, In v (flat_map pub_occ_f (set_apps_args args l)) -> In v (flat_map pub_occ_f args) \/ Fr v.
  Proof.
    induction args as [|a t IH]; intros l H v Hv; cbn [set_apps_args flat_map] in *; [destruct Hv|].
    destruct (set_apps_f_pub_rel a _ l H) as [A C]. destruct (set_apps_f a l) as [a' r]. cbn [fst snd flat_map] in *.
    apply in_app_or in Hv. destruct Hv as [Hv|Hv].
    - destruct (A v Hv) as [T|T]; [left; apply in_or_app; left; exact T|right; exact T].
    - destruct (IH r C v Hv) as [T|T]; [left; apply in_or_app; right; exact T|right; exact T].
  Qed.

  Lemma set_apps_pub_rel : forall n l, Forall2 vals_ext (app_occ n) l ->
    forall v, In v (pub_occ (set_apps n l)) -> In v (pub_occ n) \/ Fr v.
  Proof.
    intros n l H v Hv. unfold pub_occ, set_apps in Hv. cbn [nargs] in Hv.
    exact (set_apps_args_pub_rel (nargs n) l H v Hv).
  Qed.
End PubRel.

(* ====================================================================== *)
(* 1. the fresh slots drawn by synify                                      *)
(* ====================================================================== *)

Lemma in_insert : forall m l r p, In p (insert l r m) -> p = (l, r) \/ In p m.
Proof.
  induction m as [|[k v] t IH]; intros l r p H; cbn [insert] in H.
  - destruct H as [<-|[]]. left. reflexivity.
  - destruct (l <? k).
    + destruct H as [<-|H]; [left; reflexivity|right; exact H].
    + destruct (l =? k).
      * destruct H as [<-|H]; [left; reflexivity|right; right; exact H].
      * destruct H as [<-|H]; [right; left; reflexivity|].
        destruct (IH _ _ _ H) as [T|T]; [left; exact T|right; right; exact T].
Qed.

(* a fresh slot: residue 1, below the counter c *)
Definition frs (c : N) (v : slot) : Prop := v mod 4 = 1 /\ v < c.

Lemma fill_fresh_vals : forall l m s m' s', fill_fresh l m s = Ok (m', s') -> ectr s mod 4 = 1 ->
  ectr s' mod 4 = 1 /\ ectr s <= ectr s' /\
  forall v, In v (values_vec m') -> In v (values_vec m) \/ frs (ectr s') v.
Proof.
  induction l as [|x t IH]; intros m s m' s' H Cm; cbn [fill_fresh] in H.
  - inversion H; subst. split; [exact Cm|]. split; [lia|]. intros v Hv. left. exact Hv.
  - destruct (contains_key m x); [exact (IH _ _ _ _ H Cm)|].
    apply mbind_inv in H. destruct H as (f & s1 & H1 & H). inversion H1; subst f s1; clear H1.
    destruct (IH _ _ _ _ H) as (Cm' & Le & V).
    + cbn [Model.ctr set_ctr]. lia.
    + cbn [Model.ctr set_ctr] in Le. split; [exact Cm'|]. split; [lia|].
      intros v Hv. destruct (V v Hv) as [T|T]; [|right; exact T].
      unfold values_vec in T. apply in_map_iff in T. destruct T as (p & Ep & Hp).
      apply in_insert in Hp. destruct Hp as [->|Hp].
      * cbn [snd] in Ep. subst v. right. split; [exact Cm|lia].
      * left. unfold values_vec. apply in_map_iff. exists p. split; assumption.
Qed.

Lemma synify_app_id_vals : forall a s a' s', synify_app_id a s = Ok (a', s') -> ectr s mod 4 = 1 ->
  ectr s' mod 4 = 1 /\ ectr s <= ectr s' /\ vals_ext (frs (ectr s')) a a'.
Proof.
  intros a s a' s' H Cm. unfold synify_app_id in H. apply bind_reads_inv in H. destruct H as (ss & _ & H).
  apply mbind_inv in H. destruct H as (m' & s1 & H1 & H). inversion H; subst a' s1; clear H.
  change (fill_fresh ss (am a) s = Ok (m', s')) in H1.
  destruct (fill_fresh_vals _ _ _ _ _ H1 Cm) as (Cm' & Le & V).
  split; [exact Cm'|]. split; [exact Le|]. intros v Hv. cbn [am] in Hv. exact (V v Hv).
Qed.

Lemma vals_ext_mono : forall c c' x y, c <= c' -> vals_ext (frs c) x y -> vals_ext (frs c') x y.
Proof.
  intros c c' x y Le H v Hv. destruct (H v Hv) as [T|[T1 T2]]; [left; exact T|right; split; [exact T1|lia]].
Qed.

Lemma mapM_synify_vals : forall l s r s', mapM synify_app_id l s = Ok (r, s') -> ectr s mod 4 = 1 ->
  ectr s' mod 4 = 1 /\ ectr s <= ectr s' /\ Forall2 (vals_ext (frs (ectr s'))) l r.
Proof.
  induction l as [|a t IH]; intros s r s' H Cm; cbn [mapM] in H.
  - inversion H; subst. split; [exact Cm|]. split; [lia|constructor].
  - apply mbind_inv in H. destruct H as (a' & s1 & H1 & H).
    apply mbind_inv in H. destruct H as (r' & s2 & H2 & H). inversion H; subst r s2; clear H.
    destruct (synify_app_id_vals _ _ _ _ H1 Cm) as (Cm1 & Le1 & V1).
    destruct (IH _ _ _ H2 Cm1) as (Cm2 & Le2 & V2).
    split; [exact Cm2|]. split; [lia|]. constructor; [|exact V2].
    exact (vals_ext_mono _ _ _ _ Le2 V1).
Qed.

Lemma synify_enode_pub : forall n s n' s', synify_enode n s = Ok (n', s') -> ectr s mod 4 = 1 ->
  ectr s <= ectr s' /\ forall v, In v (pub_occ n') -> In v (pub_occ n) \/ frs (ectr s') v.
Proof.
  intros n s n' s' H Cm. unfold synify_enode in H. apply mbind_inv in H. destruct H as (l & s1 & H1 & H).
  inversion H; subst n' s1; clear H.
  destruct (mapM_synify_vals _ _ _ _ H1 Cm) as (_ & Le & V). split; [exact Le|].
  exact (set_apps_pub_rel _ n l V).
Qed.

(* ====================================================================== *)
(* 2. the node that is handed to mk_singleton_class                        *)
(* ====================================================================== *)

(* en2 = (refresh_private sh)[bij] for (sh, bij) = wshape p: its public slots are public slots of p *)
Lemma pre_node_pub : forall p sh bij c en1 c1 en2, wshape p = Ok (sh, bij) ->
  refresh_private sh c = (Ok en1, c1) -> apply_slotmap false bij en1 = Ok en2 -> c mod 4 = 1 ->
  forall v, In v (pub_occ en2) -> In v (pub_occ p).
Proof.
  intros p sh bij c en1 c1 en2 Hw RP Hap Cm v Hv.
  destruct (shape_equiv_by p sh bij Hw) as (th & _ & Hth).
  destruct (refresh_private_spec _ _ _ _ RP) as (_ & _ & Pat1).
  assert (M0 : forall x, In x (pub_occ sh) -> x mod 4 <> c mod 4).
  { intros x Hx. rewrite (shape_all_occ_mod4 _ _ _ Hw x (pub_occ_all_occ _ _ Hx)), Cm. discriminate. }
  specialize (Pat1 M0).
  assert (Pub1 : pub_occ en1 = pub_occ sh) by (rewrite <- !frees_pattern, Pat1; reflexivity).
  pose proof (apply_slotmap_ren _ _ _ Hap) as Rn. rewrite Rn in Hv.
  apply pub_occ_ren_sub in Hv; [|intros x; reflexivity].
  destruct Hv as (x & Hx & ->). rewrite Pub1 in Hx. unfold asm_g. rewrite (Hth _ Hx).
  destruct (shape_bij_props _ _ _ Hw) as (_ & _ & Pn). apply Pn. exists x. exact (Hth _ Hx).
Qed.

(* the values of bijection_from_fresh_to are elements of the set *)
Lemma bff_vals : forall set c bf c', swf set -> bijection_from_fresh_to set c = (bf, c') ->
  forall v, In v (values_vec bf) -> In v set.
Proof.
  intros set c bf c' W E v Hv. destruct (bff_props _ _ _ _ W E) as [Wf If].
  unfold values_vec in Hv. apply in_map_iff in Hv. destruct Hv as ([k v'] & Ev & Hin). cbn [snd] in Ev. subst v'.
  apply in_get in Hin; [|exact Wf].
  assert (G : get (inv bf) v = Some k).
  { apply get_inverse; [exact Wf|apply is_bijection_injective; assumption|exact Hin]. }
  exact (proj1 (fresh_spec_keys _ _ _ _ _ _ W E G)).
Qed.

(* ====================================================================== *)
(* 3. theorem 1                                                            *)
(* ====================================================================== *)

Theorem add_internal_new_vals : forall t p s a s', inv3 s -> ectr s mod 4 = 1 -> wshape p = Ok t ->
  lookup_internal s t = Ok None -> add_internal t s = Ok (a, s') ->
  forall v, In v (values_vec (am a)) -> In v (pub_occ p) \/ (v mod 4 = 1 /\ v < ectr s').
Proof.
  intros [sh bij] p s a s' I3 Cm Hw Hlk H v Hv.
  destruct (add_internal_walk _ _ _ _ I3 Hlk H) as (en1 & c1 & en2 & en3 & s3 & syn & RP & H2 & H3 & H4 & Sm & I1 & E01 & I3' & E13 & Hb).
  cbv zeta in *. cbn [fst snd] in RP, H2.
  destruct (mk_singleton_walk _ _ _ _ I3' Hb H4) as (f2o & c2 & synf & s3a & sh' & bij' & s4 & s5 & BF & ASF & AL & Hsh & RA & PI & RB & Ea & I2 & I3a & E23 & I4 & E34 & I5 & E45 & I6 & E56).
  cbv zeta in *.
  (* the counter only grows after s3 *)
  assert (Le3 : ectr s3 <= ectr s').
  { pose proof (bijection_from_fresh_to_step (slots en3) (ectr s3)) as St. rewrite BF in St. cbn [snd] in St.
    apply ctr_step_le in St. destruct E23 as [L23 _]. destruct E34 as [L34 _]. destruct E45 as [L45 _]. destruct E56 as [L56 _].
    cbn [Model.ctr set_ctr] in L23. lia. }
  (* semify only filters *)
  unfold semify_app_id, class_slots in Sm. subst syn. cbn [aid am] in Sm.
  destruct (get_class s' (N.of_nat (lc s3))) as [c6|]; cbn [bind] in Sm; [|discriminate].
  inversion Sm; subst a; clear Sm. cbn [am] in Hv.
  assert (Hv1 : In v (values_vec f2o)).
  { unfold values_vec in *. apply in_map_iff in Hv. destruct Hv as (kv & Ekv & Hin). apply filter_In in Hin.
    apply in_map_iff. exists kv. tauto. }
  pose proof (bff_vals _ _ _ _ (slots_sorted en3) BF v Hv1) as Hv2. apply slots_spec in Hv2.
  (* en3 and en2 *)
  pose proof (refresh_private_step sh (ectr s)) as St1. rewrite RP in St1. cbn [snd] in St1.
  assert (Cm1 : ectr (set_ctr s c1) mod 4 = 1) by (cbn [Model.ctr set_ctr]; rewrite (ctr_step_mod _ _ St1); exact Cm).
  destruct (synify_enode_pub _ _ _ _ H3 Cm1) as (_ & P3).
  destruct (P3 v Hv2) as [Hv3|[F1 F2]]; [|right; split; [exact F1|lia]].
  left. exact (pre_node_pub p sh bij (ectr s) en1 c1 en2 Hw RP H2 Cm v Hv3).
Qed.

(* ====================================================================== *)
(* 4. theorem 2: the children of a pre-shape have well-formed maps         *)
(* ====================================================================== *)

Lemma zip_wf : forall (apps : list appid) (l : list perm),
  Forall (fun x => wf (am x)) (zip_with (fun a pp => {| aid := aid a; am := pp ** am a |}) apps l).
Proof.
  induction apps as [|a t IH]; intros [|q l]; cbn [zip_with]; constructor.
  - cbn [am]. apply compose_partial_wf.
  - apply IH.
Qed.

Lemma zip_len : forall (apps : list appid) (l : list perm), List.length l = List.length apps ->
  List.length (zip_with (fun a pp => {| aid := aid a; am := pp ** am a |}) apps l) = List.length apps.
Proof.
  induction apps as [|a t IH]; intros [|q l] H; cbn [zip_with List.length] in *; try discriminate; [reflexivity|].
  f_equal. apply IH. lia.
Qed.

Theorem pre_shape_wf : forall s n p, pre_shape s n = Ok p -> Forall (fun x => wf (am x)) (app_occ p).
Proof.
  intros s n p P. unfold pre_shape in P.
  destruct (find_enode s n) as [n1|] eqn:F; cbn [bind] in P; [|discriminate].
  destruct (variants s n1) as [vs|] eqn:Ev; cbn [bind] in P; [|discriminate].
  apply min_variant_in in P. destruct P as [P|[k P]]; [|discriminate].
  unfold variants in Ev.
  destruct (mapr (fun a => get_class s (aid a)) (app_occ n1)) as [cls|] eqn:Ec; cbn [bind] in Ev; [|discriminate].
  destruct (forallb _ cls).
  - inversion Ev; subst vs; clear Ev. destruct P as [<-|[]].
    unfold find_enode in F. destruct (mapr (find_applied_id s) (app_occ n)) as [l|] eqn:El; cbn [bind] in F; [|discriminate].
    inversion F; subst n1; clear F.
    rewrite app_occ_set_apps by (eapply mapr_length; eauto).
    apply Forall_forall. intros a' Ha'. destruct (mapr_in _ _ _ El a' Ha') as (a0 & _ & Fa).
    unfold find_applied_id in Fa. destruct (unionfind_get s (aid a0)) as [q|]; cbn [bind] in Fa; [|discriminate].
    inversion Fa; subst a'. cbn [am]. apply compose_partial_wf.
  - destruct (mapr _ cls) as [groups|] eqn:Eg; cbn [bind] in Ev; [|discriminate]. inversion Ev; subst vs; clear Ev.
    apply in_map_iff in P. destruct P as (l & <- & Hl). apply cartesian_len in Hl.
    assert (Len : List.length l = List.length (app_occ n1)).
    { etransitivity; [exact Hl|]. etransitivity; [exact (mapr_length _ _ _ Eg)|]. exact (mapr_length _ _ _ Ec). }
    rewrite app_occ_set_apps by (apply zip_len; exact Len). apply zip_wf.
Qed.

(* ====================================================================== *)
(* 5. theorem 3: the counter bound on public slots                         *)
(* ====================================================================== *)

Definition hv (c : N) (a : appid) : Prop := forall v, In v (values_vec (am a)) -> v mod 4 <> 1 \/ v < c.

Lemma set_apps_f_all_in : forall a l x, In x (all_occ_f (fst (set_apps_f a l))) ->
  In x (all_occ_f a) \/ exists y, In y l /\ In x (values_vec (am y)).
Proof.
  induction a as [z|z|z b IH|q]; intros l x H; cbn [set_apps_f] in H.
  - left. exact H.
  - destruct l as [|y t]; cbn [fst all_occ_f] in H; [left; exact H|]. right. exists y. split; [left; reflexivity|exact H].
  - specialize (IH l x). destruct (set_apps_f b l) as [b' l']. cbn [fst all_occ_f] in *.
    destruct H as [H|H]; [left; left; exact H|]. destruct (IH H) as [A|A]; [left; right; exact A|right; exact A].
  - destruct H.
Qed.

Lemma set_apps_f_snd_sub : forall a l y, In y (snd (set_apps_f a l)) -> In y l.
Proof.
  induction a as [x|x|x b IH|q]; intros l y H; cbn [set_apps_f] in H; try exact H.
  - destruct l; cbn [snd] in H; [destruct H|right; exact H].
  - specialize (IH l y). destruct (set_apps_f b l). apply IH. exact H.
Qed.

Lemma set_apps_args_all_in : forall args l x, In x (flat_map all_occ_f (set_apps_args args l)) ->
  In x (flat_map all_occ_f args) \/ exists y, In y l /\ In x (values_vec (am y)).
Proof.
  induction args as [|a args IH]; intros l x H; cbn [set_apps_args flat_map] in *; [destruct H|].
  pose proof (set_apps_f_all_in a l x) as A. pose proof (set_apps_f_snd_sub a l) as S.
  destruct (set_apps_f a l) as [a' l']. cbn [fst snd flat_map] in *. apply in_app_or in H. destruct H as [H|H].
  - destruct (A H) as [T|T]; [left; apply in_or_app; left; exact T|right; exact T].
  - destruct (IH l' x H) as [T|(y & Hy & T)]; [left; apply in_or_app; right; exact T|].
    right. exists y. split; [apply S; exact Hy|exact T].
Qed.

Theorem pre_shape_pub_bound : forall s n l p c, (forall x, In x (all_occ n) -> x mod 4 = 0 \/ x mod 4 = 2) ->
  Forall (hv c) l -> pre_shape s (set_apps n l) = Ok p -> forall x, In x (pub_occ p) -> x mod 4 <> 1 \/ x < c.
Proof.
  intros s n l p c U Hl P x Hx. apply pub_occ_all_occ in Hx. apply (pre_shape_all_occ _ _ _ P) in Hx.
  unfold all_occ, set_apps in Hx. cbn [nargs] in Hx. apply set_apps_args_all_in in Hx.
  destruct Hx as [Hx|(y & Hy & Hx)].
  - left. destruct (U x Hx) as [T|T]; rewrite T; discriminate.
  - exact (proj1 (Forall_forall _ _) Hl y Hy x Hx).
Qed.

Print Assumptions add_internal_new_vals.
Print Assumptions pre_shape_wf.
Print Assumptions pre_shape_pub_bound.
Check add_internal_new_vals.
Check pre_shape_wf.
Check pre_shape_pub_bound.
