(* EGraph/StaticFacts.v — the reachable-state theorems of the extractor (Extract/ExtractorReach.v, ExtractOkb.v) and of
   re-insertion (EGraph/RepReach.v) restated with the ONE static premise `term_static` of EGraph/OpsPreFacts.v. *)
From SE Require Extract.Knuth Extract.LazyQueue.
From SE Require Import EGraph.Model EGraph.ModelMachine EGraph.Model9 EGraph.HashconsFacts EGraph.CongruenceFacts EGraph.RepFacts
  EGraph.RepReach EGraph.OpsPreFacts Extract.Extractor Extract.ExtractorFacts Extract.ExtractorReach Extract.ExtractOkb.
Require Import List.
Import ListNotations.

Theorem extractor_table_is_minimum_static : forall terms ops hs s, Forall term_static terms ->
  run_ops terms ops [] empty_egraph = Ok (hs, s) ->
  forall cf last m s', extractor_new last cf s = Ok (m, s') ->
  (forall c k, tbl m c = Some k ->
     Knuth.derivable (f_cf cf) (agraph cf s) c k /\ (forall k', Knuth.derivable (f_cf cf) (agraph cf s) c k' -> (k <= k')%nat)) /\
  (forall c, tbl m c = None -> forall k, ~ Knuth.derivable (f_cf cf) (agraph cf s) c k).
Proof.
  intros terms ops hs s HT H.
  exact (extractor_table_is_minimum_reachable terms ops hs s (ops_pre_static terms ops HT) (static_kids_premise terms HT) H).
Qed.

Theorem extractor_is_lazy_queue_static : forall terms ops hs s, Forall term_static terms ->
  run_ops terms ops [] empty_egraph = Ok (hs, s) ->
  forall cf last m s', extractor_new last cf s = Ok (m, s') ->
  forall c, tbl m c = LazyQueue.lazy_run (f_cf cf) true (LazyQueue.pop_tb last) (agraph cf s) c.
Proof.
  intros terms ops hs s HT H.
  exact (extractor_is_lazy_queue_reachable terms ops hs s (ops_pre_static terms ops HT) (static_kids_premise terms HT) H).
Qed.

Theorem extract_cheapest_static : forall terms ops hs s, Forall term_static terms ->
  run_ops terms ops [] empty_egraph = Ok (hs, s) ->
  forall cf last m s0, extractor_new last cf s = Ok (m, s0) ->
  forall fuel i t s', extract fuel m i s = Ok (t, s') ->
  exists i' k, find_applied_id s i = Ok i' /\ cost_rec cf t = Ok k /\ get_best_cost m i' = Ok k /\
    Knuth.derivable (f_cf cf) (agraph cf s) (N.to_nat (aid i')) (N.to_nat k) /\
    (forall k', Knuth.derivable (f_cf cf) (agraph cf s) (N.to_nat (aid i')) k' -> (N.to_nat k <= k')%nat).
Proof.
  intros terms ops hs s HT H.
  exact (extract_cheapest_reachable terms ops hs s (ops_pre_static terms ops HT) (static_kids_premise terms HT) H).
Qed.

Theorem handles_rep_static : forall terms ops hs s, Forall term_static terms ->
  run_ops terms ops [] empty_egraph = Ok (hs, s) ->
  forall k a, In (k, a) (combine (add_idx ops) hs) -> exists t, nth_opt terms k = Some t /\ rep s t a.
Proof.
  intros terms ops hs s HT H.
  exact (handles_rep_reachable terms ops hs s (static_twf_premise terms HT) (ops_pre_static terms ops HT) H).
Qed.

Theorem reinsertion_is_identity_static : forall terms ops hs s k a t, Forall term_static terms ->
  run_ops terms ops [] empty_egraph = Ok (hs, s) ->
  In (k, a) (combine (add_idx ops) hs) -> nth_opt terms k = Some t ->
  (exists x, lookup_rec s t = Ok (Some x) /\ eg_eq s x a = Ok true) /\
  (forall a' s', add_expr t s = Ok (a', s') -> s' = s /\ eg_eq s' a a' = Ok true).
Proof.
  intros terms ops hs s k a t HT H.
  exact (reinsertion_is_identity_unconditional terms ops hs s k a t (static_twf_premise terms HT) (ops_pre_static terms ops HT) H).
Qed.

Print Assumptions extractor_table_is_minimum_static.
Print Assumptions extract_cheapest_static.
Print Assumptions handles_rep_static.
Print Assumptions reinsertion_is_identity_static.
