(* EGraph/StoredLive.v — DEAD CLASSES STORE NO E-NODES.

   `stored_live s`: a class whose node table `c_nodes` is not empty is a leader of the union-find.

   Why: only `move_to from to` turns a leader (`aid from`) into a non-leader, and its loop then removes
   every entry of class `from` (each `raw_remove_from_class` removes the FIRST entry with the key, which
   is the head of what is left: no duplicate-freedom of the table is needed); every other writer of a
   node table adds to a leader (`aid to` in move_to, the result of `find_applied_id` in handle_pending,
   the freshly allocated class in mk_singleton_class); the other `unionfind_set`s write a self-entry.

   Proved, all closed under the global context, with NO premise on the state (no inv3 / eg_wf / hc_ok)
   nor on the arguments:
   - `stored_liveb`, `stored_liveb_sound`; `stored_live_histories_checked` (after every operation of
     12 histories), `stored_live_histories_have_dead_classes` (11 of them end with dead classes),
     `stored_liveb_rejects`.
   - `sl_move_loop`, `stored_live_move_to` (between distinct ids, target a leader),
     `sl_shrink_slots`, `sl_union_leaders` (both handles leaders), `stored_live_union_internal` (any fuel),
     `sl_handle_shrink`, `sl_handle_congruence`, `sl_determine_self_symmetries`, `sl_hp_loop` (returns a
     leader invocation), `stored_live_handle_pending`, `stored_live_rebuild` (any fuel),
     `stored_live_eg_union`, `sl_alloc`, `sl_mk_singleton`, `sl_add_internal`, `stored_live_eg_add`,
     `stored_live_add_expr`, `stored_live_run_ops`, `stored_live_reachable`.
   - consequences: `stored_live_ids` (a class that stores a shape is listed by `ids`),
     `dead_class_empty`.
   Inside move_to the invariant is violated for class `aid from` only: `sl_ex X` is the invariant with a
   set X of excepted classes. *)
From SE Require Import Slots.SlotMapFacts Group.GroupSound Lang.LangFacts
  EGraph.Model EGraph.ModelFacts EGraph.ModelMachine EGraph.PendingFacts EGraph.UnionFindFacts
  EGraph.InvariantFacts EGraph.HashconsFacts EGraph.ProgressFacts EGraph.AddCoversFacts.
Require Import ZArith Lia ZifyBool ZifyN ZifyNat.

Local Notation ectr := Model.ctr.

Local Ltac neq := repeat match goal with
  | H : (_ =? _) = true |- _ => apply N.eqb_eq in H
  | H : (_ =? _) = false |- _ => apply N.eqb_neq in H
  end.

(* ------------------------------------------------------------------ *)
(* 1. definition, executable check *)

Definition stored_live (s : egraph) : Prop :=
  forall i c, get_class s i = Ok c -> c_nodes c <> [] -> leader s i.

Fixpoint slb_go (s : egraph) (l : list eclass) (i : N) : bool :=
  match l with
  | [] => true
  | c :: t =>
      (match c_nodes c with
       | [] => true
       | _ :: _ => match is_alive s i with Ok b => b | Err _ => false end
       end) && slb_go s t (i + 1)
  end.
Definition stored_liveb (s : egraph) : bool := slb_go s (classes s) 0.

Lemma slb_go_sound : forall s l i, slb_go s l i = true ->
  forall k c, nth_opt l k = Some c -> c_nodes c <> [] -> is_alive s (i + N.of_nat k) = Ok true.
Proof.
  intros s. induction l as [|c0 t IH]; intros i H k c Hk Hn; [destruct k; discriminate|].
  cbn [slb_go] in H. apply andb_true_iff in H. destruct H as [H1 H2].
  destruct k as [|k]; cbn [nth_opt] in Hk.
  - inversion Hk; subst c0. replace (i + N.of_nat 0) with i by lia.
    destruct (c_nodes c); [contradiction|]. destruct (is_alive s i) as [b|]; [subst b; reflexivity|discriminate].
  - replace (i + N.of_nat (S k)) with ((i + 1) + N.of_nat k) by lia. eapply IH; eauto.
Qed.

Theorem stored_liveb_sound : forall s, stored_liveb s = true -> stored_live s.
Proof.
  intros s H i c Hc Hn. apply leader_is_alive. unfold get_class in Hc.
  destruct (nth_opt (classes s) (N.to_nat i)) as [c'|] eqn:E; [|discriminate]. inversion Hc; subst c'.
  pose proof (slb_go_sound s _ 0 H _ _ E Hn) as A. rewrite N.add_0_l, N2Nat.id in A. exact A.
Qed.

(* the check after every operation of a history *)
Fixpoint run_slb (terms : list rterm) (ops : list hop) (hs : list appid) (s : egraph) : bool :=
  match ops with
  | [] => true
  | o :: t =>
    let r := match o with
      | HAdd k => match nth_opt terms k with None => Err OutOfBounds
                  | Some tm => match add_expr tm s with Ok (a, s') => Ok (hs ++ [a], s') | Err e => Err e end end
      | HUnion i j _ => match nth_opt hs i, nth_opt hs j with
                  | Some a, Some b => match eg_union a b s with Ok (_, s') => Ok (hs, s') | Err e => Err e end
                  | _, _ => Err OutOfBounds end
      end in
    match r with
    | Err e => false
    | Ok (hs', s') => stored_liveb s' && run_slb terms t hs' s'
    end
  end.

Example stored_live_histories_checked :
  map (fun p => run_slb (fst p) (snd p) [] empty_egraph)
    [(xT1, xO1); (xT2, xO2); (xT3, xO3); (xT4, xO4); (xT5, xO5); (xT6, xO6);
     (yT7, yO7); (yT8, yO8); (yT9, yO9); (yT10, yO10); (yT11, yO11); (yT12, yO12)]
  = [true; true; true; true; true; true; true; true; true; true; true; true].
Proof. vm_compute. reflexivity. Qed.

(* the check is not vacuous: the final states of the histories contain dead classes (all with empty
   node tables, by the check), and the histories run through *)
Definition dead_count (ts : list rterm) (os : list hop) : option nat :=
  match run_ops ts os [] empty_egraph with
  | Ok (_, s) => Some (List.length (classes s) - List.length (ids s))%nat
  | Err _ => None
  end.
Example stored_live_histories_have_dead_classes :
  map (fun p => dead_count (fst p) (snd p))
    [(xT1, xO1); (xT2, xO2); (xT3, xO3); (xT4, xO4); (xT5, xO5); (xT6, xO6);
     (yT7, yO7); (yT8, yO8); (yT9, yO9); (yT10, yO10); (yT11, yO11); (yT12, yO12)]
  = [Some 1; Some 0; Some 5; Some 2; Some 2; Some 7; Some 4; Some 3; Some 2; Some 6; Some 3; Some 7]%nat.
Proof. vm_compute. reflexivity. Qed.

(* the invariant is violated INSIDE move_to (between the union-find write and the end of the loop):
   a state with a dead class that still stores a node is rejected by the check *)
Example stored_liveb_rejects :
  stored_liveb {| unionfind := [{| aid := 1; am := [] |}; {| aid := 1; am := [] |}];
                  classes := [{| c_nodes := [({| nvar := 5; nargs := [] |}, ([], 0))]; c_slots := []; c_usages := [];
                                 c_group := Grp [] None; c_syn := {| nvar := 5; nargs := [] |} |};
                              {| c_nodes := []; c_slots := []; c_usages := [];
                                 c_group := Grp [] None; c_syn := {| nvar := 5; nargs := [] |} |}];
                  hashcons := []; pending := []; Model.ctr := 1 |} = false.
Proof. vm_compute. reflexivity. Qed.

(* ------------------------------------------------------------------ *)
(* 2. the working form: total view `cnodes`, a set X of excepted classes (the class being emptied
   inside `move_to`) *)

Definition sl_ex (X : N -> Prop) (s : egraph) : Prop :=
  forall i, cnodes s i <> [] -> leader s i \/ X i.
Definition nox : N -> Prop := fun _ => False.

Lemma stored_live_iff : forall s, stored_live s <-> sl_ex nox s.
Proof.
  intros s. split.
  - intros H i Hn. left. unfold cnodes in Hn. destruct (get_class s i) as [c|] eqn:E.
    + eapply H; eauto.
    + exfalso. apply Hn. reflexivity.
  - intros H i c Hc Hn. destruct (H i) as [L|[]]; [unfold cnodes; rewrite Hc; assumption|assumption].
Qed.

(* steps that keep every node table and every leader *)
Definition fr (s s' : egraph) : Prop :=
  (forall j, cnodes s' j = cnodes s j) /\ (forall j, leader s j -> leader s' j).

Lemma fr_refl : forall s, fr s s.
Proof. intros s. split; auto. Qed.
Lemma fr_trans : forall a b c, fr a b -> fr b c -> fr a c.
Proof. intros a b c [A1 A2] [B1 B2]. split; [intros j; rewrite B1; apply A1|auto]. Qed.

Lemma sl_fr : forall X s s', fr s s' -> sl_ex X s -> sl_ex X s'.
Proof. intros X s s' [A B] H i Hn. rewrite A in Hn. destruct (H i Hn); auto. Qed.

Lemma leader_uentry : forall s s' j, uentry (unionfind s') j = uentry (unionfind s) j -> leader s j -> leader s' j.
Proof. intros s s' j E (e & He & Ha). exists e. rewrite E. auto. Qed.

Lemma fr_ctr_only : forall s s', ctr_only s s' -> fr s s'.
Proof. intros s s' [c ->]. split; [reflexivity|auto]. Qed.

Lemma fr_with_ctr : forall A (f : N -> A * N) s x s', with_ctr f s = Ok (x, s') -> fr s s'.
Proof. intros A f s x s' H. apply fr_ctr_only. eapply with_ctr_only; eauto. Qed.

Lemma fr_fill_fresh : forall l m s m' s', fill_fresh l m s = Ok (m', s') -> fr s s'.
Proof.
  intros l m s m' s' H. apply fr_ctr_only.
  apply (pres_fill_fresh ctr_only ctr_only_refl ctr_only_trans) in H; [assumption|].
  intros s0 x s0' H0. inversion H0. eexists; reflexivity.
Qed.

Lemma fr_pc_congruence : forall a b s x s', pc_congruence a b s = Ok (x, s') -> fr s s'.
Proof.
  intros a b s x s' H. apply fr_ctr_only.
  apply (pres_pc_congruence ctr_only ctr_only_refl ctr_only_trans) in H; [assumption| |];
    intros; intros s0 y s0' H0; eapply with_ctr_only; eauto.
Qed.

Lemma fr_synify_app_id : forall a s x s', synify_app_id a s = Ok (x, s') -> fr s s'.
Proof.
  intros a s x s' H. apply fr_ctr_only.
  apply (pres_synify_app_id ctr_only ctr_only_refl ctr_only_trans) in H; [assumption|].
  intros s0 y s0' H0. inversion H0. eexists; reflexivity.
Qed.

Lemma fr_synify_enode : forall n s x s', synify_enode n s = Ok (x, s') -> fr s s'.
Proof.
  intros n s x s' H. apply fr_ctr_only.
  apply (pres_synify_enode ctr_only ctr_only_refl ctr_only_trans) in H; [assumption|].
  intros s0 y s0' H0. inversion H0. eexists; reflexivity.
Qed.

Lemma fr_set_pending : forall s p, fr s (set_pending s p).
Proof. intros s p. split; [reflexivity|auto]. Qed.

Lemma fr_pending_insert : forall sh ty s x s', pending_insert sh ty s = Ok (x, s') -> fr s s'.
Proof. intros sh ty s x s' H. inversion H. apply fr_set_pending. Qed.

Lemma fr_touched_class : forall i s x s', touched_class i true s = Ok (x, s') -> fr s s'.
Proof.
  intros i s x s' H. unfold touched_class in H.
  apply bind_reads_inv in H. destruct H as (c & Hc & H).
  destruct (touch_list_spec _ _ _ _ H) as (p' & -> & _). apply fr_set_pending.
Qed.

Lemma fr_upd_class : forall i f s x s', (forall c, c_nodes (f c) = c_nodes c) ->
  upd_class i f s = Ok (x, s') -> fr s s'.
Proof.
  intros i f s x s' Hf H. destruct (upd_class_views _ _ _ _ _ H) as (c & Hc & Hc' & Ho & U & _).
  split.
  - intros j. unfold cnodes. destruct (N.eq_dec j i) as [->|Hj]; [rewrite Hc, Hc'; apply Hf|rewrite (Ho j Hj); reflexivity].
  - intros j. apply leader_uentry. rewrite U. reflexivity.
Qed.

(* unionfind_set *)
Lemma ufset_views : forall i p s x s', unionfind_set i p s = Ok (x, s') ->
  (forall j, cnodes s' j = cnodes s j) /\ uentry (unionfind s') i = Some p /\
  (forall j, j <> i -> uentry (unionfind s') j = uentry (unionfind s) j).
Proof.
  intros i p s x s' H. destruct (unionfind_set_mod_at _ _ _ _ _ H) as ((_ & Cn & _) & _ & U).
  split; [exact Cn|]. split; [|intros j Hj; apply (U j Hj)].
  unfold unionfind_set in H. cbv zeta in H. destruct (Nat.eqb _ _) eqn:E1.
  - inversion H; subst. cbn [unionfind set_uf]. unfold uentry. apply Nat.eqb_eq in E1. rewrite <- E1.
    apply nth_opt_app_last.
  - destruct (Nat.ltb _ _) eqn:E2; [|discriminate]. inversion H; subst. cbn [unionfind set_uf]. unfold uentry.
    apply nth_opt_set_same. apply Nat.ltb_lt in E2. exact E2.
Qed.

Lemma fr_ufset_self : forall i m s x s', unionfind_set i {| aid := i; am := m |} s = Ok (x, s') -> fr s s'.
Proof.
  intros i m s x s' H. destruct (ufset_views _ _ _ _ _ H) as (Cn & Ei & Eo). split; [exact Cn|].
  intros j L. destruct (N.eq_dec j i) as [->|Hj].
  - exists {| aid := i; am := m |}. split; [exact Ei|reflexivity].
  - eapply leader_uentry; [apply Eo; assumption|exact L].
Qed.

(* raw add / remove *)
Lemma sl_raw_add : forall X id sh bij src s x s', raw_add_to_class id (sh, bij) src s = Ok (x, s') ->
  leader s id \/ X id -> sl_ex X s ->
  sl_ex X s' /\ (forall j, leader s j -> leader s' j) /\ (forall j, j <> id -> cnodes s' j = cnodes s j).
Proof.
  intros X id sh bij src s x s' H Hid Hs.
  destruct (raw_add_views _ _ _ _ _ _ _ H) as (_ & _ & U & Nid & No & _).
  assert (L : forall j, leader s j -> leader s' j) by (intros j; apply leader_uentry; apply (proj1 (U j))).
  split; [|split; assumption]. intros i Hn. destruct (N.eq_dec i id) as [->|Hi].
  - destruct Hid; [left; apply L; assumption|right; assumption].
  - rewrite (No i Hi) in Hn. destruct (Hs i Hn); [left; apply L|right]; assumption.
Qed.

Lemma sl_raw_remove : forall X id sh s p s', raw_remove_from_class id sh s = Ok (p, s') -> sl_ex X s ->
  sl_ex X s' /\ (forall j, leader s j -> leader s' j) /\ cnodes s' id = na_remove (cnodes s id) sh /\
  (forall j, j <> id -> cnodes s' j = cnodes s j).
Proof.
  intros X id sh s p s' H Hs.
  destruct (raw_remove_views _ _ _ _ _ H) as (_ & _ & _ & U & Nid & No & _).
  assert (L : forall j, leader s j -> leader s' j) by (intros j; apply leader_uentry; apply (proj1 (U j))).
  split; [|split; [assumption|split; assumption]]. intros i Hn.
  assert (Hn0 : cnodes s i <> []).
  { destruct (N.eq_dec i id) as [->|Hi].
    - rewrite Nid in Hn. intros E. rewrite E in Hn. apply Hn. reflexivity.
    - rewrite (No i Hi) in Hn. exact Hn. }
  destruct (Hs i Hn0); [left; apply L|right]; assumption.
Qed.

(* ------------------------------------------------------------------ *)
(* 3. move_to: the only step that kills a leader empties its node table *)

Lemma sl_move_loop : forall X idf idt mi, idt <> idf -> forall l s x s',
  iterM (fun e : node * (slotmap * N) =>
           let '(sh, (bij, src_id)) := e in
           dom _ <- raw_remove_from_class idf sh;
           dom new_bij <- with_ctr (compose_fresh bij mi);
           dom _ <- raw_add_to_class idt (sh, new_bij) src_id;
           pending_insert sh true) l s = Ok (x, s') ->
  cnodes s idf = l -> leader s idt -> sl_ex X s ->
  sl_ex X s' /\ cnodes s' idf = [] /\ (forall j, leader s j -> leader s' j).
Proof.
  intros X idf idt mi Hne. induction l as [|[sh [bij src]] t IH]; intros s x s' H Hl Lt Hs; cbn [iterM] in H.
  - inversion H; subst. auto.
  - apply mbind_inv in H. destruct H as (u & s4 & H1 & H).
    apply mbind_inv in H1. destruct H1 as (p & s1 & Hr & H1).
    apply mbind_inv in H1. destruct H1 as (nb & s2 & Hc & H1).
    apply mbind_inv in H1. destruct H1 as (u3 & s3 & Ha & H1).
    destruct (sl_raw_remove X _ _ _ _ _ Hr Hs) as (I1 & L1 & N1 & O1).
    rewrite Hl in N1. cbn [na_remove] in N1. rewrite node_eqb_refl in N1.
    pose proof (fr_with_ctr _ _ _ _ _ Hc) as [C2 L2].
    destruct (sl_raw_add X idt sh nb src s2 u3 s3 Ha) as (I3 & L3 & O3).
    { left. apply L2, L1. exact Lt. }
    { eapply sl_fr; [split; [exact C2|exact L2]|exact I1]. }
    pose proof (fr_pending_insert _ _ _ _ _ H1) as [C4 L4].
    destruct (IH s4 x s' H) as (I5 & E5 & L5).
    + rewrite C4, (O3 idf) by (intros E; apply Hne; symmetry; exact E). rewrite C2. exact N1.
    + apply L4, L3, L2, L1. exact Lt.
    + eapply sl_fr; [split; [exact C4|exact L4]|exact I3].
    + split; [exact I5|]. split; [exact E5|]. intros j Lj. apply L5, L4, L3, L2, L1. exact Lj.
Qed.

Lemma sl_move_to : forall from to s x s', aid from <> aid to -> leader s (aid to) -> sl_ex nox s ->
  move_to from to s = Ok (x, s') -> sl_ex nox s'.
Proof.
  intros from to s x s' Hne Lt Hs H. unfold move_to in H. cbv zeta in H.
  apply mbind_inv in H. destruct H as (u1 & s1 & H1 & H).
  destruct (ufset_views _ _ _ _ _ H1) as (Cn & Ei & Eo).
  assert (I1 : sl_ex (fun j => j = aid from) s1).
  { intros i Hn. rewrite Cn in Hn. destruct (Hs i Hn) as [L|[]].
    destruct (N.eq_dec i (aid from)) as [E|E]; [right; exact E|left].
    eapply leader_uentry; [apply Eo; exact E|exact L]. }
  assert (Lt1 : leader s1 (aid to)).
  { eapply leader_uentry; [apply Eo; intros E; apply Hne; symmetry; exact E|exact Lt]. }
  apply bind_reads_inv in H. destruct H as (cf & Hcf & H).
  apply mbind_inv in H. destruct H as (u2 & s2 & H2 & H).
  destruct (sl_move_loop (fun j => j = aid from) (aid from) (aid to) _
              (fun E => Hne (eq_sym E)) _ _ _ _ H2) as (I2 & E2 & _); [unfold cnodes; rewrite Hcf; reflexivity|exact Lt1|exact I1|].
  assert (I2' : sl_ex nox s2).
  { intros i Hn. destruct (I2 i Hn) as [L| ->]; [left; exact L|]. exfalso. apply Hn. exact E2. }
  apply bind_reads_inv in H. destruct H as (cf2 & Hcf2 & H).
  apply bind_reads_inv in H. destruct H as (ct & Hct & H).
  apply mbind_inv in H. destruct H as ([g' fl] & s3 & H3 & H). apply lift_inv in H3. destruct H3 as [H3 ->].
  apply mbind_inv in H. destruct H as (u4 & s4 & H4 & H). cbn [fst snd] in *.
  apply mbind_inv in H. destruct H as (u5 & s5 & H5 & H).
  eapply sl_fr; [eapply fr_touched_class; exact H|].
  assert (I4 : sl_ex nox s4).
  { eapply sl_fr; [eapply fr_upd_class; [|exact H4]; intros c0; reflexivity|exact I2']. }
  destruct fl.
  - eapply sl_fr; [eapply fr_touched_class; exact H5|exact I4].
  - inversion H5; subst. exact I4.
Qed.

(* ------------------------------------------------------------------ *)
(* 4. unions *)

Definition ui_specL (ui : appid -> appid -> M bool) : Prop :=
  forall l r s b s', sl_ex nox s -> ui l r s = Ok (b, s') -> sl_ex nox s'.

Section UiL.
  Variable ui : appid -> appid -> M bool.
  Hypothesis HU : ui_specL ui.

  Lemma sl_shrink_slots : forall from cap s x s', sl_ex nox s -> shrink_slots ui from cap s = Ok (x, s') -> sl_ex nox s'.
  Proof.
    intros from cap s x s' Hs H. unfold shrink_slots in H. cbv zeta in H.
    apply mbind_inv in H. destruct H as (oc & s0 & H0 & H). apply lift_inv in H0. destruct H0 as [_ ->].
    apply mbind_inv in H. destruct H as (u1 & s1 & H1 & H).
    unfold record_redundancy_witness in H1. apply bind_reads_inv in H1. destruct H1 as (ss & _ & H1).
    pose proof (sl_fr _ _ _ (fr_ufset_self _ _ _ _ _ H1) Hs) as I1.
    apply bind_reads_inv in H. destruct H as (c & Hc & H).
    apply mbind_inv in H. destruct H as (flags & s0 & H0 & H). apply lift_inv in H0. destruct H0 as [_ ->].
    apply mbind_inv in H. destruct H as (g & s0 & H0 & H). apply lift_inv in H0. destruct H0 as [_ ->].
    apply mbind_inv in H. destruct H as (u2 & s2 & H2 & H).
    assert (I2 : sl_ex nox s2).
    { eapply sl_fr; [eapply fr_upd_class; [|exact H2]; intros c0; reflexivity|exact I1]. }
    apply mbind_inv in H. destruct H as (u3 & s3 & H3 & H).
    pose proof (sl_fr _ _ _ (fr_touched_class _ _ _ _ H3) I2) as I3.
    clear - HU H I3. revert s3 x s' H I3.
    match goal with |- forall s3 x s', iterM ?f ?l s3 = _ -> _ => generalize l end.
    induction l as [|pp t IH]; intros s3 x s' H I3; cbn [iterM] in H.
    - inversion H; subst. assumption.
    - apply mbind_inv in H. destruct H as (u & s4 & H4 & H). eapply IH; [exact H|]. clear H IH.
      apply bind_reads_inv in H4. destruct H4 as (sl & _ & H4).
      apply mbind_inv in H4. destruct H4 as (ps & s0 & H0 & H4). apply lift_inv in H0. destruct H0 as [_ ->].
      apply mbind_inv in H4. destruct H4 as (b & s5 & H5 & H4). inversion H4; subst u s5.
      eapply HU; eauto.
  Qed.

  Lemma sl_union_leaders : forall l r s b s', leader s (aid l) -> leader s (aid r) -> sl_ex nox s ->
    union_leaders ui l r s = Ok (b, s') -> sl_ex nox s'.
  Proof.
    intros l r s b s' Ll Lr Hs H. unfold union_leaders in H.
    apply bind_reads_inv in H. destruct H as (e & _ & H). destruct e; [inversion H; subst; assumption|].
    cbv zeta in H.
    destruct (negb (sset_eqb (values (am l)) _)).
    { apply mbind_inv in H. destruct H as (u1 & s1 & H1 & H).
      apply mbind_inv in H. destruct H as (u2 & s2 & H2 & H). inversion H; subst b s2.
      eapply HU; [|exact H2]. eapply sl_shrink_slots; eauto. }
    destruct (negb (sset_eqb (values (am r)) _)).
    { apply mbind_inv in H. destruct H as (u1 & s1 & H1 & H).
      apply mbind_inv in H. destruct H as (u2 & s2 & H2 & H). inversion H; subst b s2.
      eapply HU; [|exact H2]. eapply sl_shrink_slots; eauto. }
    destruct (aid l =? aid r) eqn:E; neq.
    - apply bind_reads_inv in H. destruct H as (c & Hc & H).
      apply mbind_inv in H. destruct H as (bb & s0 & H0 & H). apply lift_inv in H0. destruct H0 as [_ ->].
      destruct bb; [inversion H; subst; assumption|].
      apply mbind_inv in H. destruct H as (g & s0 & H0 & H). apply lift_inv in H0. destruct H0 as [_ ->].
      apply mbind_inv in H. destruct H as (u2 & s2 & H2 & H).
      apply mbind_inv in H. destruct H as (u3 & s3 & H3 & H). inversion H; subst b s3.
      eapply sl_fr; [eapply fr_touched_class; exact H3|].
      eapply sl_fr; [eapply fr_upd_class; [|exact H2]; intros c0; reflexivity|exact Hs].
    - apply bind_reads_inv in H. destruct H as (cl & _ & H).
      apply bind_reads_inv in H. destruct H as (cr & _ & H).
      apply mbind_inv in H. destruct H as (u1 & s1 & H1 & H). inversion H; subst b s1.
      match type of H1 with (if ?c then _ else _) _ = _ => destruct c end.
      + eapply sl_move_to; [exact E|exact Lr|exact Hs|exact H1].
      + eapply sl_move_to; [intros E'; apply E; symmetry; exact E'|exact Ll|exact Hs|exact H1].
  Qed.

  Lemma sl_union_internal_body : ui_specL (union_internal_body ui).
  Proof.
    intros l r s b s' Hs H. unfold union_internal_body in H.
    apply bind_reads_inv in H. destruct H as (l1 & Hl & H).
    apply bind_reads_inv in H. destruct H as (r1 & Hr & H).
    eapply sl_union_leaders; [| |exact Hs|exact H]; eapply find_is_leader; eauto.
  Qed.
End UiL.

Theorem sl_union_internal : forall fuel, ui_specL (union_internal fuel).
Proof.
  induction fuel as [|f IH]; intros l r s b s' Hs H; [discriminate H|].
  rewrite union_internal_S in H. eapply sl_union_internal_body; eauto.
Qed.

Corollary sl_uint : ui_specL uint.
Proof. exact (sl_union_internal ui_fuel). Qed.

(* ------------------------------------------------------------------ *)
(* 5. rebuild *)

Lemma sl_handle_shrink : forall src s x s', sl_ex nox s -> handle_shrink_in_upwards_merge src s = Ok (x, s') -> sl_ex nox s'.
Proof.
  intros src s x s' Hs H. unfold handle_shrink_in_upwards_merge in H.
  apply bind_reads_inv in H. destruct H as (pc1 & _ & H).
  apply bind_reads_inv in H. destruct H as (n2 & _ & H).
  apply mbind_inv in H. destruct H as ([a b] & s1 & H1 & H).
  eapply (sl_shrink_slots uint sl_uint); [|exact H]. eapply sl_fr; [eapply fr_pc_congruence; exact H1|exact Hs].
Qed.

Lemma sl_handle_congruence : forall pc1 s x s', sl_ex nox s -> handle_congruence pc1 s = Ok (x, s') -> sl_ex nox s'.
Proof.
  intros pc1 s x s' Hs H. unfold handle_congruence in H.
  apply bind_reads_inv in H. destruct H as (sh & _ & H).
  apply bind_reads_inv in H. destruct H as (pc2 & _ & H).
  apply mbind_inv in H. destruct H as (ab & s1 & H1 & H).
  apply mbind_inv in H. destruct H as (b & s2 & H2 & H). inversion H; subst x s2; clear H.
  eapply sl_uint; [|exact H2]. eapply sl_fr; [eapply fr_pc_congruence; exact H1|exact Hs].
Qed.

Lemma sl_determine_self_symmetries : forall src s x s', sl_ex nox s -> determine_self_symmetries src s = Ok (x, s') -> sl_ex nox s'.
Proof.
  intros src s x s' Hs H. unfold determine_self_symmetries in H.
  apply bind_reads_inv in H. destruct H as (pc1 & _ & H).
  apply mbind_inv in H. destruct H as (w & s0 & Hw & H). apply lift_inv in Hw. destruct Hw as [_ ->].
  cbv zeta in H. apply bind_reads_inv in H. destruct H as (vs & _ & H).
  revert s x s' H Hs. induction vs as [|pn2 t IH]; intros s x s' H Hs; cbn [iterM] in H.
  - inversion H; subst. assumption.
  - apply mbind_inv in H. destruct H as (u & s2 & H1 & H). eapply IH; [exact H|]. clear H IH.
    apply mbind_inv in H1. destruct H1 as (w2 & s0 & Hw2 & H1). apply lift_inv in Hw2. destruct Hw2 as [_ ->].
    destruct (node_eqb (fst w) (fst w2)); [|inversion H1; subst; assumption].
    apply mbind_inv in H1. destruct H1 as (ab & s3 & H3 & H1).
    apply mbind_inv in H1. destruct H1 as (b & s4 & H4 & H1). inversion H1; subst u s4; clear H1.
    eapply sl_uint; [|exact H4]. eapply sl_fr; [eapply fr_pc_congruence; exact H3|exact Hs].
Qed.

(* the invocation returned by the loop is a leader invocation: it is the argument (state unchanged) or
   the result of a `find_applied_id` in the final state *)
Lemma sl_hp_loop : forall fuel src enode i s r s', sl_ex nox s -> leader s (aid i) ->
  hp_loop fuel src enode i s = Ok (r, s') -> sl_ex nox s' /\ leader s' (aid (snd r)).
Proof.
  induction fuel as [|f IH]; intros src enode i s r s' Hs Li H; cbn [hp_loop] in H; [discriminate|].
  destruct (sset_subset (values (am i)) (slots enode)).
  - inversion H; subst. split; assumption.
  - apply mbind_inv in H. destruct H as (u & s1 & H1 & H).
    apply bind_reads_inv in H. destruct H as (enode' & _ & H).
    apply bind_reads_inv in H. destruct H as (i' & Hi' & H).
    eapply IH; [|eapply find_is_leader; exact Hi'|exact H]. eapply sl_handle_shrink; eauto.
Qed.

Theorem sl_handle_pending : forall sh ty s x s', sl_ex nox s -> handle_pending sh ty s = Ok (x, s') -> sl_ex nox s'.
Proof.
  intros sh ty s x s' Hs H. unfold handle_pending in H.
  apply bind_reads_inv in H. destruct H as (i & _ & H).
  destruct ty; cbn [negb] in H.
  2:{ inversion H; subst. exact Hs. }
  apply bind_reads_inv in H. destruct H as (c & Hc & H).
  apply mbind_inv in H. destruct H as ([bij0 src_id] & s0 & Hp & H). apply lift_inv in Hp. destruct Hp as [_ ->].
  apply mbind_inv in H. destruct H as (nd & s0 & Hnd & H). apply lift_inv in Hnd. destruct Hnd as [Hnd ->].
  apply mbind_inv in H. destruct H as (u1 & sA & HA & H).
  destruct (sl_raw_remove nox _ _ _ _ _ HA Hs) as (IA & _).
  apply bind_reads_inv in H. destruct H as (sl & Hsl & H). cbv zeta in H.
  apply bind_reads_inv in H. destruct H as (enode0 & Hen & H).
  apply bind_reads_inv in H. destruct H as (i0 & Hi0 & H).
  apply mbind_inv in H. destruct H as ([enode i1] & sB & HB & H).
  destruct (sl_hp_loop _ _ _ _ _ _ _ IA (find_is_leader _ _ _ Hi0) HB) as (IB & LB). cbn [snd] in LB.
  apply bind_reads_inv in H. destruct H as (t & Ht & H).
  apply bind_reads_inv in H. destruct H as (lk & Hlk & H).
  destruct lk as [hit|].
  - apply bind_reads_inv in H. destruct H as (pc & P & H). eapply sl_handle_congruence; eauto.
  - destruct t as [sh' bij].
    apply mbind_inv in H. destruct H as (m & sC & Hm & H).
    change (fill_fresh (values bij) (inverse_nocheck (am i1)) sB = Ok (m, sC)) in Hm. cbv zeta in H.
    apply mbind_inv in H. destruct H as (u2 & sD & HD & H).
    pose proof (fr_fill_fresh _ _ _ _ _ Hm) as FC.
    destruct (sl_raw_add nox (aid i1) sh' _ src_id sC u2 sD HD) as (ID & _).
    { left. apply (proj2 FC). exact LB. }
    { eapply sl_fr; [exact FC|exact IB]. }
    eapply sl_determine_self_symmetries; eauto.
Qed.

Theorem sl_rebuild : forall fuel s x s', sl_ex nox s -> rebuild fuel s = Ok (x, s') -> sl_ex nox s'.
Proof.
  induction fuel as [|f IH]; intros s x s' Hs H; [discriminate H|]. rewrite rebuild_S in H.
  apply mbind_inv in H. destruct H as (p & s0 & Hp & H). inversion Hp; subst p s0; clear Hp.
  destruct (pending s) as [|[sh ty] rest] eqn:Ep; [inversion H; subst; assumption|].
  apply mbind_inv in H. destruct H as (u1 & s1 & H1 & H).
  apply mbind_inv in H. destruct H as (u2 & s2 & H2 & H).
  inversion H1; subst u1 s1; clear H1.
  eapply IH; [|exact H]. eapply sl_handle_pending; [|exact H2].
  eapply sl_fr; [apply fr_set_pending|exact Hs].
Qed.

Theorem sl_eg_union : forall l r s b s', sl_ex nox s -> eg_union l r s = Ok (b, s') -> sl_ex nox s'.
Proof.
  intros l r s b s' Hs H. unfold eg_union in H.
  apply mbind_inv in H. destruct H as (l1 & s1 & H1 & H).
  apply mbind_inv in H. destruct H as (r1 & s2 & H2 & H).
  apply mbind_inv in H. destruct H as (out & s3 & H3 & H).
  apply mbind_inv in H. destruct H as (u & s4 & H4 & H). inversion H; subst b s4; clear H.
  eapply sl_rebuild; [|exact H4]. eapply sl_uint; [|exact H3].
  eapply sl_fr; [eapply fr_synify_app_id; exact H2|]. eapply sl_fr; [eapply fr_synify_app_id; exact H1|exact Hs].
Qed.

(* ------------------------------------------------------------------ *)
(* 6. insertion *)

Lemma sl_alloc : forall sl syn s i s', alloc_eclass sl syn s = Ok (i, s') -> sl_ex nox s ->
  sl_ex nox s' /\ leader s' i.
Proof.
  intros sl syn s i s' H Hs.
  destruct (alloc_eclass_exact _ _ _ _ _ H) as (Hi & U & C & _).
  set (cn := {| c_nodes := []; c_slots := sl; c_usages := []; c_group := Grp (identity sl) None; c_syn := syn |}) in *.
  assert (L : forall j, leader s j -> leader s' j).
  { intros j (e & He & Ha). exists e. split; [|exact Ha]. rewrite U. unfold uentry in *.
    rewrite nth_opt_app1 by (eapply nth_opt_Some_lt; eauto). exact He. }
  split.
  - intros j Hn. left. apply L. unfold cnodes in Hn.
    destruct (get_class s' j) as [c|] eqn:E; [|exfalso; apply Hn; reflexivity].
    destruct (get_class_ext_inv s s' cn C j c E) as [A|[_ ->]].
    + destruct (Hs j) as [Lj|[]]; [unfold cnodes; rewrite A; exact Hn|exact Lj].
    + exfalso. apply Hn. reflexivity.
  - exists {| aid := i; am := identity (slots syn) |}. split; [|reflexivity].
    rewrite U. unfold uentry. rewrite Hi, Nat2N.id. apply nth_opt_app_last.
Qed.

Lemma sl_mk_singleton : forall en s a s', sl_ex nox s -> mk_singleton_class en s = Ok (a, s') -> sl_ex nox s'.
Proof.
  intros en s a s' Hs H. unfold mk_singleton_class in H. cbv zeta in H.
  apply mbind_inv in H. destruct H as (f2o & s1 & H1 & H).
  apply mbind_inv in H. destruct H as (synf & s2 & H2 & H).
  apply mbind_inv in H. destruct H as (i & s3 & H3 & H).
  apply mbind_inv in H. destruct H as ([sh bij] & s0 & Hw & H). apply lift_inv in Hw. destruct Hw as [_ ->].
  apply mbind_inv in H. destruct H as (u4 & s4 & H4 & H).
  apply mbind_inv in H. destruct H as (u5 & s5 & H5 & H).
  apply mbind_inv in H. destruct H as (u6 & s6 & H6 & H). inversion H; subst a s6; clear H.
  assert (I2 : sl_ex nox s2).
  { eapply sl_fr; [eapply fr_with_ctr; exact H2|]. eapply sl_fr; [eapply fr_with_ctr; exact H1|exact Hs]. }
  destruct (sl_alloc _ _ _ _ _ H3 I2) as (I3 & L3).
  destruct (sl_raw_add nox i sh bij i s3 u4 s4 H4 (or_introl L3) I3) as (I4 & _).
  eapply sl_rebuild; [|exact H6]. eapply sl_fr; [eapply fr_pending_insert; exact H5|exact I4].
Qed.

Lemma sl_add_internal : forall t s a s', sl_ex nox s -> add_internal t s = Ok (a, s') -> sl_ex nox s'.
Proof.
  intros t s a s' Hs H. unfold add_internal in H.
  apply bind_reads_inv in H. destruct H as (lk & Hlk & H).
  destruct lk as [hit|]; [inversion H; subst; assumption|].
  apply mbind_inv in H. destruct H as (en1 & s1 & H1 & H).
  destruct (refresh_private (fst t) (ectr s)) as [[r|e] c1] eqn:RP; [|discriminate]. inversion H1; subst r s1; clear H1.
  apply mbind_inv in H. destruct H as (en2 & s2 & H2 & H). apply lift_inv in H2. destruct H2 as [H2 ->].
  apply mbind_inv in H. destruct H as (en3 & s3 & H3 & H).
  apply mbind_inv in H. destruct H as (syn & s4 & H4 & H).
  apply reads_state in H. subst s'.
  eapply sl_mk_singleton; [|exact H4]. eapply sl_fr; [eapply fr_synify_enode; exact H3|].
  eapply sl_fr; [apply fr_ctr_only; eexists; reflexivity|exact Hs].
Qed.

Lemma sl_eg_add : forall n s a s', sl_ex nox s -> eg_add n s = Ok (a, s') -> sl_ex nox s'.
Proof.
  intros n s a s' Hs H. unfold eg_add in H. apply bind_reads_inv in H. destruct H as (t & Ht & H).
  eapply sl_add_internal; eauto.
Qed.

Lemma sl_add_expr : forall t s a s', sl_ex nox s -> add_expr t s = Ok (a, s') -> sl_ex nox s'.
Proof.
  fix IH 1. intros [n ch] s a s' Hs H. cbn [add_expr] in H.
  apply mbind_inv in H. destruct H as (l & s1 & Hgo & H).
  assert (Hs1 : sl_ex nox s1).
  { clear H. revert s l s1 Hs Hgo. induction ch as [|c r IHr]; intros s l s1 Hs Hgo.
    - unfold ret in Hgo. injection Hgo as _ E. subst s1. exact Hs.
    - apply mbind_inv in Hgo. destruct Hgo as (a0 & s2 & Ha & Hgo).
      apply mbind_inv in Hgo. destruct Hgo as (r' & s3 & Hr & Hgo).
      unfold ret in Hgo. injection Hgo as _ E. subst s1.
      eapply IHr; [|exact Hr]. eapply IH; eassumption. }
  destruct (Nat.ltb (List.length (app_occ n)) (List.length l)); [discriminate H|].
  eapply sl_eg_add; eassumption.
Qed.

Lemma sl_run_ops : forall terms ops hs0 s hs s', sl_ex nox s -> run_ops terms ops hs0 s = Ok (hs, s') -> sl_ex nox s'.
Proof.
  intros terms ops. induction ops as [|o t IHo]; intros hs0 s hs s' Hp H; cbn [run_ops] in H.
  - unfold ret in H. injection H as _ E. subst s'. exact Hp.
  - destruct o as [k|i j jj].
    + destruct (nth_opt terms k) as [tm|]; [|discriminate H].
      apply mbind_inv in H. destruct H as (a & s1 & Ha & H).
      eapply IHo; [|exact H]. eapply sl_add_expr; eassumption.
    + destruct (nth_opt hs0 i) as [a|]; [|discriminate H].
      destruct (nth_opt hs0 j) as [b|]; [|discriminate H].
      apply mbind_inv in H. destruct H as (u & s1 & Hu & H).
      eapply IHo; [|exact H]. eapply sl_eg_union; eassumption.
Qed.

(* ------------------------------------------------------------------ *)
(* 7. the theorems, in terms of `stored_live`: no premise on the state or on the arguments *)

Theorem stored_live_move_to : forall from to s x s', aid from <> aid to -> leader s (aid to) -> stored_live s ->
  move_to from to s = Ok (x, s') -> stored_live s'.
Proof. intros from to s x s' A B Hs H. apply stored_live_iff. apply stored_live_iff in Hs. eapply sl_move_to; eauto. Qed.

Theorem stored_live_union_internal : forall fuel l r s b s', stored_live s -> union_internal fuel l r s = Ok (b, s') -> stored_live s'.
Proof. intros fuel l r s b s' Hs H. apply stored_live_iff. apply stored_live_iff in Hs. eapply sl_union_internal; eauto. Qed.

Theorem stored_live_handle_pending : forall sh ty s x s', stored_live s -> handle_pending sh ty s = Ok (x, s') -> stored_live s'.
Proof. intros sh ty s x s' Hs H. apply stored_live_iff. apply stored_live_iff in Hs. eapply sl_handle_pending; eauto. Qed.

Theorem stored_live_rebuild : forall fuel s x s', stored_live s -> rebuild fuel s = Ok (x, s') -> stored_live s'.
Proof. intros fuel s x s' Hs H. apply stored_live_iff. apply stored_live_iff in Hs. eapply sl_rebuild; eauto. Qed.

Theorem stored_live_eg_union : forall l r s b s', stored_live s -> eg_union l r s = Ok (b, s') -> stored_live s'.
Proof. intros l r s b s' Hs H. apply stored_live_iff. apply stored_live_iff in Hs. eapply sl_eg_union; eauto. Qed.

Theorem stored_live_eg_add : forall n s a s', stored_live s -> eg_add n s = Ok (a, s') -> stored_live s'.
Proof. intros n s a s' Hs H. apply stored_live_iff. apply stored_live_iff in Hs. eapply sl_eg_add; eauto. Qed.

Theorem stored_live_add_expr : forall t s a s', stored_live s -> add_expr t s = Ok (a, s') -> stored_live s'.
Proof. intros t s a s' Hs H. apply stored_live_iff. apply stored_live_iff in Hs. eapply sl_add_expr; eauto. Qed.

Lemma stored_live_empty : stored_live empty_egraph.
Proof. intros i c H. unfold get_class in H. cbn [classes empty_egraph] in H. destruct (N.to_nat i); discriminate. Qed.

Theorem stored_live_run_ops : forall terms ops hs0 s hs s', stored_live s -> run_ops terms ops hs0 s = Ok (hs, s') -> stored_live s'.
Proof. intros terms ops hs0 s hs s' Hs H. apply stored_live_iff. apply stored_live_iff in Hs. eapply sl_run_ops; eauto. Qed.

Theorem stored_live_reachable : forall terms ops hs s, run_ops terms ops [] empty_egraph = Ok (hs, s) -> stored_live s.
Proof. intros terms ops hs s H. eapply stored_live_run_ops; [exact stored_live_empty|exact H]. Qed.

(* consequences *)
Lemma stored_live_ids : forall s sh i p, stored_live s -> stored s i sh p -> In i (ids s).
Proof.
  intros s sh i p Hs St. apply ids_leader. destruct (stored_class _ _ _ _ St) as (c & Hc & G).
  apply (Hs i c Hc). intros E. rewrite E in G. discriminate.
Qed.

(* a dead class has an empty node table *)
Corollary dead_class_empty : forall s i c, stored_live s -> get_class s i = Ok c -> is_alive s i = Ok false -> c_nodes c = [].
Proof.
  intros s i c Hs Hc Ha. destruct (c_nodes c) as [|e t] eqn:E; [reflexivity|].
  assert (L : leader s i) by (apply (Hs i c Hc); rewrite E; discriminate).
  apply leader_is_alive in L. rewrite L in Ha. discriminate.
Qed.

(* ------------------------------------------------------------------ *)
Print Assumptions stored_liveb_sound.
Print Assumptions stored_live_histories_checked.
Print Assumptions stored_live_histories_have_dead_classes.
Print Assumptions stored_liveb_rejects.
Print Assumptions stored_live_move_to.
Print Assumptions stored_live_union_internal.
Print Assumptions stored_live_handle_pending.
Print Assumptions stored_live_rebuild.
Print Assumptions stored_live_eg_union.
Print Assumptions stored_live_eg_add.
Print Assumptions stored_live_add_expr.
Print Assumptions stored_live_run_ops.
Print Assumptions stored_live_reachable.
Print Assumptions stored_live_ids.
Print Assumptions dead_class_empty.
