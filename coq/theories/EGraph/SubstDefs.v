(* EGraph/SubstDefs.v — C03, b[x := t]: the canonical term of an extracted syntactic term, and the relation
   "r is obtained from T by replacing subterms".
   rt_t T: the term of T, nodes combined by node_t (RewriteSoundInst.v: the bound slot of a node binds exactly the
   occurrences of that slot name in the children's terms; binder levels of the children are shifted).
   DSr E xn tx tt T r: r results from T by the replacement SynExprSubst performs: bottom-up, a node whose
   re-inserted instance is (derivably) equal to tx is replaced by tt; a node that is kept is not the node xn
   (the childless node of the pattern x, e.g. `var $1`). *)
From SE Require Import Parse.Parser EGraph.Model EGraph.SoundFacts EGraph.RewriteSoundInst.
From SE Require Import Sem.Term Sem.Deriv.
Require Import List. Import ListNotations.

Fixpoint rt_t (T : rterm) : cterm :=
  match T with RT n ch => node_t n (map rt_t ch) end.

Lemma rt_t_eq : forall n ch, rt_t (RT n ch) = node_t n (map rt_t ch).
Proof. reflexivity. Qed.

Section DS.
  Variables (E : equations) (xn : node) (tx tt : cterm).

  Fixpoint DSr (T : rterm) (r : cterm) {struct T} : Prop :=
    match T with
    | RT n ch =>
        exists rs,
          (fix go (l : list rterm) (rs : list cterm) {struct l} : Prop :=
             match l, rs with
             | [], [] => True
             | c :: l', r0 :: rs' => DSr c r0 /\ go l' rs'
             | _, _ => False
             end) ch rs /\
          ((n <> xn /\ r = node_t n rs) \/ (r = tt /\ Deriv E 0 (node_t n rs) tx))
    end.

  Lemma DSr_iff : forall n ch r, DSr (RT n ch) r <->
    exists rs, Forall2 DSr ch rs /\ ((n <> xn /\ r = node_t n rs) \/ (r = tt /\ Deriv E 0 (node_t n rs) tx)).
  Proof.
    intros n ch r. cbn [DSr]. split; intros (rs & F & C); exists rs; (split; [|exact C]); clear C.
    - revert rs F. induction ch as [|c l IH]; intros [|r0 rs] F; try contradiction; [constructor|].
      destruct F as [F1 F2]. constructor; [exact F1|apply IH; exact F2].
    - induction F as [|c r0 l rs Hc F IH]; [exact I|split; assumption].
  Qed.
End DS.
