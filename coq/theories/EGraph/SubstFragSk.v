(* EGraph/SubstFragSk.v — C03, b[x := t]: the fragment predicate node_frag (SubstIface.v) depends on the operator and on the
   argument skeleton only (slot names and child invocations erased); hence it is invariant under renamings (ren,
   apply_slotmap false), nullify, set_apps, and under equality of the library skeleton `skel`. *)
From SE Require Import Slots.SlotMapFacts Lang.LangFacts Lang.ShapeFacts Lang.RenameFacts Parse.Parser
  EGraph.Model EGraph.ModelFacts EGraph.ModelMachine EGraph.UnionFindFacts EGraph.InvariantFacts
  EGraph.Rewrite EGraph.SubstIface.
From SE Require EGraph.MatchLookup.
Require Import ZArith List Lia. Import ListNotations.

(* the coarse skeleton: names and child invocations erased *)
Fixpoint sk0 (a : farg) : farg :=
  match a with
  | ASlot _ => ASlot 0
  | AApp _ => AApp null_appid
  | ABind _ b => ABind 0 (sk0 b)
  | APay q => APay q
  end.

Lemma sk0_skel_f : forall a, sk0 (skel_f a) = sk0 a.
Proof. induction a as [y|y|p b IH|q]; cbn [skel_f sk0]; try reflexivity. rewrite IH. reflexivity. Qed.

Lemma sk0_of_skel_f : forall a a', skel_f a = skel_f a' -> sk0 a = sk0 a'.
Proof. intros a a' H. rewrite <- (sk0_skel_f a), H. apply sk0_skel_f. Qed.

Lemma sk0_binders_len : forall a, List.length (binders_f (sk0 a)) = List.length (binders_f a).
Proof. induction a as [y|y|p b IH|q]; cbn [sk0 binders_f List.length]; try reflexivity. rewrite IH. reflexivity. Qed.

Lemma sk0_noslot : forall a, farg_noslot (sk0 a) = farg_noslot a.
Proof. induction a as [y|y|p b IH|q]; cbn [sk0 farg_noslot]; try reflexivity. exact IH. Qed.

Lemma binders_len_sk : forall l l', map sk0 l = map sk0 l' ->
  List.length (flat_map binders_f l) = List.length (flat_map binders_f l').
Proof.
  induction l as [|a t IH]; intros [|a' t'] H; cbn [map] in H; try discriminate; [reflexivity|].
  inversion H as [[Ha Ht]]. cbn [flat_map]. rewrite !app_length, (IH t' Ht).
  rewrite <- (sk0_binders_len a), Ha, sk0_binders_len. reflexivity.
Qed.

Lemma noslot_sk : forall l l', map sk0 l = map sk0 l' -> forallb farg_noslot l = forallb farg_noslot l'.
Proof.
  induction l as [|a t IH]; intros [|a' t'] H; cbn [map] in H; try discriminate; [reflexivity|].
  inversion H as [[Ha Ht]]. cbn [forallb]. rewrite (IH t' Ht).
  rewrite <- (sk0_noslot a), Ha, sk0_noslot. reflexivity.
Qed.

Definition one_slot (l : list farg) : bool := match l with [ASlot _] => true | _ => false end.

Lemma one_slot_sk : forall l l', map sk0 l = map sk0 l' -> one_slot l = one_slot l'.
Proof.
  intros [|a [|a2 t]] [|a' [|a2' t']] H; cbn [map] in H; try discriminate; try reflexivity;
    destruct a, a'; cbn [sk0] in H; try discriminate; reflexivity.
Qed.

Lemma node_frag_sk : forall vk n n', nvar n = nvar n' -> map sk0 (nargs n) = map sk0 (nargs n') ->
  node_frag vk n = node_frag vk n'.
Proof.
  intros vk n n' Hv Ha. unfold node_frag, is_var_node, binders.
  change (match nargs n with [ASlot _] => true | _ => false end) with (one_slot (nargs n)).
  change (match nargs n' with [ASlot _] => true | _ => false end) with (one_slot (nargs n')).
  rewrite (binders_len_sk _ _ Ha), (noslot_sk _ _ Ha), (one_slot_sk _ _ Ha), Hv. reflexivity.
Qed.

Lemma node_frag_skel : forall vk n n', skel n = skel n' -> node_frag vk n = node_frag vk n'.
Proof.
  intros vk n n' H. unfold skel in H. injection H as Hv Ha. apply node_frag_sk; [exact Hv|].
  revert Ha. generalize (nargs n) (nargs n'). induction l as [|a t IH]; intros [|a' t'] Ha; cbn [map] in *; try discriminate;
    [reflexivity|]. inversion Ha as [[H1 H2]]. rewrite (sk0_of_skel_f _ _ H1), (IH _ H2). reflexivity.
Qed.

Lemma node_frag_ren : forall vk g n, node_frag vk (ren g n) = node_frag vk n.
Proof. intros vk g n. apply node_frag_skel. apply ren_skel. Qed.

Lemma node_frag_apply_slotmap : forall vk m n n', apply_slotmap false m n = Ok n' -> node_frag vk n' = node_frag vk n.
Proof. intros vk m n n' H. apply apply_slotmap_ren in H. subst n'. apply node_frag_ren. Qed.

Lemma sk0_nul_f : forall a, sk0 (MatchLookup.nul_f a) = sk0 a.
Proof. induction a as [y|y|p b IH|q]; cbn [MatchLookup.nul_f sk0]; try reflexivity. rewrite IH. reflexivity. Qed.

Lemma node_frag_nullify : forall vk n, node_frag vk (nullify n) = node_frag vk n.
Proof.
  intros vk n. rewrite MatchLookup.nullify_eq. apply node_frag_sk; cbn [nvar nargs]; [reflexivity|].
  rewrite map_map. apply map_ext. exact sk0_nul_f.
Qed.

Lemma sk0_set_apps_f : forall a l, sk0 (fst (set_apps_f a l)) = sk0 a.
Proof.
  induction a as [y|y|p b IH|q]; intros l; cbn [set_apps_f]; try reflexivity.
  - destruct l; reflexivity.
  - specialize (IH l). destruct (set_apps_f b l) as [b' l']. cbn [fst sk0] in *. rewrite IH. reflexivity.
Qed.

Lemma sk0_set_apps_args : forall args l, map sk0 (set_apps_args args l) = map sk0 args.
Proof.
  induction args as [|a t IH]; intros l; cbn [set_apps_args map]; [reflexivity|].
  pose proof (sk0_set_apps_f a l) as A. destruct (set_apps_f a l) as [a' l']. cbn [fst map] in *. rewrite A, IH. reflexivity.
Qed.

(* any list of replacement invocations *)
Lemma node_frag_set_apps : forall vk n l, node_frag vk (set_apps n l) = node_frag vk n.
Proof.
  intros vk n l. apply node_frag_sk; unfold set_apps; cbn [nvar nargs]; [reflexivity|apply sk0_set_apps_args].
Qed.

Lemma node_frag_map_applied_ids : forall vk f n, node_frag vk (map_applied_ids f n) = node_frag vk n.
Proof.
  intros vk f n. apply node_frag_sk; unfold map_applied_ids; cbn [nvar nargs]; [reflexivity|].
  rewrite map_map. apply map_ext. induction a as [y|y|p b IH|q]; cbn [sk0]; try reflexivity. rewrite IH. reflexivity.
Qed.

(* at most one binder *)
Lemma node_frag_nodup : forall vk n, node_frag vk n = true -> NoDup (binders n).
Proof.
  intros vk n H. unfold node_frag in H. apply andb_true_iff in H. destruct H as [H _]. apply Nat.leb_le in H.
  destruct (binders n) as [|p [|q r]]; [constructor|constructor; [intros []|constructor]|cbn [List.length] in H; lia].
Qed.

Print Assumptions node_frag_sk.
Print Assumptions node_frag_skel.
Print Assumptions node_frag_set_apps.
Print Assumptions node_frag_nullify.
