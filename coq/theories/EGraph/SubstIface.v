(* EGraph/SubstIface.v — C03, b[x := t]: the statements shared by LeafHitClosed.v (re-insertion of a childless node is
   exact and stable), SubstPre.v (the premise PRE of RewriteSoundSubstSem.syn_expr_subst_sem from a fragment invariant)
   and Sem/FpRewriteSubst.v (the F_p instance for pool rule 11).  Definitions only. *)
From SE Require Import Slots.SlotMapFacts Lang.LangFacts Lang.ShapeFacts Lang.RenameFacts Parse.Parser
  EGraph.Model EGraph.ModelFacts EGraph.ModelMachine EGraph.UnionFindFacts EGraph.InvariantFacts
  EGraph.AddCoversFacts EGraph.Mod4Facts EGraph.HashconsFacts EGraph.SoundFacts EGraph.SoundAddExpr
  EGraph.Rewrite EGraph.RewriteFacts EGraph.RewriteSound EGraph.RewriteSoundSubst EGraph.LeafHit.
Require Import ZArith List. Import ListNotations.

Local Notation ectr := Model.ctr.

(* the additional state invariant of the applier phase: with inv3 (part of RSt) this is HashconsFacts.hcb *)
Definition HXs (s : egraph) : Prop := pending s = [] /\ hc_ok s /\ m4 s.

(* what is known of a node n with children l at every insertion site of pattern_subst / do_term_subst *)
Definition ins_pre (s : egraph) (n : node) (l : list appid) : Prop :=
  (forall y, In y (all_occ n) -> is_B y = false /\ (y mod 4 <> 1 \/ y < ectr s)) /\
  List.length l = List.length (app_occ n) /\ Forall (cvh s) l /\ NoDup (binders n).

(* inserting another node does not change what re-inserting the childless node xn returns *)
Definition HitKeepAdd : Prop := forall E xn x' n l s b s',
  RSt E s -> HXs s -> app_occ xn = [] -> ins_pre s n l -> Hit xn x' s ->
  eg_add (set_apps n l) s = Ok (b, s') -> Hit xn x' s'.

(* right after its insertion the childless node xn is found by exactly the invocation returned *)
Definition HitAfterAdd : Prop := forall E xn s a s1,
  RSt E s -> HXs s -> app_occ xn = [] -> ins_pre s xn [] ->
  eg_add xn s = Ok (a, s1) -> Hit xn a s1.

(* the fragment of languages: the operator vk (`var`) with exactly one bare slot argument is the only operator with a
   bare slot argument (at any binder depth), and no operator has more than one binder *)
Fixpoint farg_noslot (a : farg) : bool :=
  match a with
  | ASlot _ => false
  | ABind _ b => farg_noslot b
  | _ => true
  end.

Definition is_var_node (vk : nat) (n : node) : bool :=
  Nat.eqb (nvar n) vk && match nargs n with [ASlot _] => true | _ => false end.

Definition node_frag (vk : nat) (n : node) : bool :=
  Nat.leb (List.length (binders n)) 1 && (forallb farg_noslot (nargs n) || is_var_node vk n).

(* the syntactic node of every class is in the fragment *)
Definition FragS (vk : nat) (s : egraph) : Prop :=
  forall i c, get_class s i = Ok c -> node_frag vk (c_syn c) = true.

Fixpoint rt_frag (vk : nat) (t : rterm) : Prop :=
  match t with
  | RT n ch => node_frag vk n = true /\
               (fix go (l : list rterm) : Prop := match l with [] => True | c :: r => rt_frag vk c /\ go r end) ch
  end.

Fixpoint pat_frag (vk : nat) (p : pattern) : Prop :=
  match p with
  | PVarP _ => True
  | PNode n ch => node_frag vk n = true /\
                  (fix go (l : list pattern) : Prop := match l with [] => True | c :: r => pat_frag vk c /\ go r end) ch
  | PSubst b x t => pat_frag vk b /\ pat_frag vk x /\ pat_frag vk t
  end.
