(* EGraph/SubstPre.v — C03, b[x := t]: THE PREMISE PRE of RewriteSoundSubstSem.syn_expr_subst_sem, from the fragment
   invariant FragS (SubstIface.v: the operator vk with one bare slot argument is the only operator with a bare slot
   argument, no operator has more than one binder), the private-name invariant JW c0 c1 (priv3, bwin) and the window
   premises on the values of the maps of b' and t'.
   1. rt_all: a predicate on every node of an extracted term; get_syn_expr_all (structural lemma).
   2. what is known of one extracted node (fragment, binder names, occurrences); get_syn_expr_frag.
   3. Tok from the per-node facts, rt_nb and rt_ar.
   4. tot_inv, clear_inv of the synified invocation.
   5. subst_pre. *)
From SE Require Import Slots.SlotMapFacts Group.GroupSound Lang.LangFacts Lang.ShapeFacts Lang.RenameFacts
  Base.TextFacts Parse.Parser
  EGraph.Model EGraph.ModelFacts EGraph.ModelMachine EGraph.UnionFindFacts EGraph.InvariantFacts
  EGraph.UnionInvariantFacts EGraph.AddCoversFacts EGraph.MonotoneFacts EGraph.Mod4Facts EGraph.SoundFacts EGraph.SoundUnion
  EGraph.SoundSyn EGraph.SoundNode EGraph.SoundStruct EGraph.NodePass EGraph.SoundBase EGraph.SoundAddNew EGraph.SoundVals
  EGraph.SoundAddExpr EGraph.SoundPending EGraph.SoundRebuild EGraph.SoundGuard EGraph.SoundFinal EGraph.SoundClosed
  EGraph.Rewrite EGraph.RewriteFacts EGraph.ProgressFacts EGraph.MatchDefs EGraph.MatchFacts EGraph.KidsFacts
  EGraph.MatchVals EGraph.RewriteSoundInst EGraph.RewriteSound EGraph.SynNodup EGraph.SynPriv EGraph.SynPrivOps EGraph.MatchValsWin
  EGraph.RewriteSoundSubst EGraph.RewriteSoundSubstTop EGraph.SubstDefs EGraph.LeafHit EGraph.RewriteSoundSubstRel
  EGraph.ExtractSound EGraph.SubstIface.
From SE Require Export EGraph.SubstFragSk EGraph.SubstPreFrag.
From SE Require EGraph.RewriteSoundSubstSem EGraph.HashconsAbs EGraph.MatchLookup EGraph.MatchReprFacts EGraph.RepReachNew.
From SE Require Import Sem.Deriv Sem.DerivFacts Sem.Algebra Sem.AlgebraFacts Sem.EgMachine Explain.CheckerFacts Sem.FpRewrite Sem.SubstSem.
Require Import ZArith List Lia ZifyBool ZifyN ZifyNat. Import ListNotations.
Ltac Zify.zify_post_hook ::= Z.div_mod_to_equations.

Local Notation ectr := Model.ctr.
Local Notation aupd := Sem.Algebra.upd.

(* ====================================================================== *)
(* 1. a predicate on every node of a term; the structural lemma            *)
(* ====================================================================== *)

Fixpoint rt_all (P : node -> Prop) (t : rterm) : Prop :=
  match t with
  | RT n ch => P n /\
               (fix go (l : list rterm) : Prop := match l with [] => True | c :: r => rt_all P c /\ go r end) ch
  end.

Lemma rt_all_iff : forall P n ch, rt_all P (RT n ch) <-> P n /\ Forall (rt_all P) ch.
Proof.
  intros P n ch. cbn [rt_all]. split; intros [A C]; (split; [exact A|]); clear A.
  - induction ch as [|c r IH]; constructor; [apply C|apply IH; apply C].
  - induction C as [|c r Hc C IH]; [exact I|split; assumption].
Qed.


(* every node of the extracted term is the nullified syntactic node of some invocation *)
Theorem get_syn_expr_all : forall (P : node -> Prop) s,
  (forall i en, get_syn_node s i = Ok en -> P (nullify en)) ->
  forall fuel i T, get_syn_expr fuel s i = Ok T -> rt_all P T.
Proof.
  intros P s HP. induction fuel as [|f IH]; intros i T H; cbn [get_syn_expr] in H; [discriminate|].
  destruct (get_syn_node s i) as [en|] eqn:En; cbn [bind] in H; [|discriminate].
  destruct (mapr (get_syn_expr f s) (app_occ en)) as [cs|] eqn:Ec; cbn [bind] in H; [|discriminate].
  inversion H; subst T; clear H. apply rt_all_iff. split; [exact (HP i en En)|].
  apply Forall_forall. intros c Hc. destruct (mapr_in _ _ _ Ec c Hc) as (a & _ & Fa). exact (IH _ _ Fa).
Qed.

(* the syntactic node of an invocation: the syntactic node of its class, public slots renamed by the map *)
Lemma get_syn_node_class : forall s i en, get_syn_node s i = Ok en ->
  exists c, get_class s (aid i) = Ok c /\ apply_slotmap false (am i) (c_syn c) = Ok en.
Proof.
  intros s i en H. unfold get_syn_node in H. destruct (get_class s (aid i)) as [c|] eqn:Hc; cbn [bind] in H; [|discriminate].
  exists c. split; [reflexivity|exact H].
Qed.

(* ====================================================================== *)
(* 2. one extracted node                                                   *)
(* ====================================================================== *)

Lemma syn_node_frag : forall vk s i en, FragS vk s -> get_syn_node s i = Ok en -> node_frag vk (nullify en) = true.
Proof.
  intros vk s i en F H. destruct (get_syn_node_class s i en H) as (c & Hc & Ha).
  rewrite node_frag_nullify, (node_frag_apply_slotmap vk _ _ _ Ha). exact (F _ _ Hc).
Qed.

Lemma syn_node_binders : forall s i en, get_syn_node s i = Ok en ->
  exists c, get_class s (aid i) = Ok c /\ binders (nullify en) = binders (c_syn c).
Proof.
  intros s i en H. destruct (get_syn_node_class s i en H) as (c & Hc & Ha). exists c. split; [exact Hc|].
  rewrite MatchReprFacts.binders_nullify. exact (apply_slotmap_binders _ _ _ Ha).
Qed.

Theorem get_syn_expr_frag : forall vk fuel s i T, FragS vk s -> get_syn_expr fuel s i = Ok T -> rt_frag vk T.
Proof.
  intros vk fuel s i T F H.
  pose proof (get_syn_expr_all (fun n => node_frag vk n = true) s (fun i0 en En => syn_node_frag vk s i0 en F En) fuel i T H) as A.
  clear H. induction T as [n ch IH] using rterm_ind2. apply rt_all_iff in A. destruct A as [A C]. apply rt_frag_iff.
  split; [exact A|]. rewrite Forall_forall in IH, C. apply Forall_forall. intros c Hc. exact (IH c Hc (C c Hc)).
Qed.

(* the slot occurrences of a nullified node of the fragment: its binder names, or the bare slot of a vk node *)
Lemma noslot_nul_occ : forall a y, farg_noslot a = true -> In y (all_occ_f (MatchLookup.nul_f a)) -> In y (binders_f a).
Proof.
  induction a as [z|z|p b IH|q]; intros y Hn Hy; cbn [MatchLookup.nul_f all_occ_f binders_f farg_noslot] in *.
  - discriminate.
  - unfold null_appid in Hy. cbn [am values_vec map] in Hy. destruct Hy.
  - destruct Hy as [Hy|Hy]; [left; exact Hy|right; exact (IH y Hn Hy)].
  - destruct Hy.
Qed.

Lemma frag_nul_occ : forall vk n y, node_frag vk n = true -> In y (all_occ (nullify n)) ->
  In y (binders n) \/ nullify n = {| nvar := vk; nargs := [ASlot y] |}.
Proof.
  intros vk n y H Hy. unfold node_frag in H. apply andb_true_iff in H. destruct H as [_ H]. apply orb_true_iff in H.
  rewrite MatchLookup.nullify_eq in *. destruct H as [H|H].
  - left. unfold all_occ in Hy. cbn [nargs] in Hy. apply in_flat_map in Hy. destruct Hy as (a' & Ha' & Hy).
    apply in_map_iff in Ha'. destruct Ha' as (a & <- & Ha). unfold binders. apply in_flat_map. exists a. split; [exact Ha|].
    rewrite forallb_forall in H. exact (noslot_nul_occ a y (H a Ha) Hy).
  - right. unfold is_var_node in H. apply andb_true_iff in H. destruct H as [Hv Hs]. apply Nat.eqb_eq in Hv.
    destruct n as [v args]. cbn [nvar nargs] in *. subst v.
    destruct args as [|[z|z|p b|q] [|a2 t]]; try discriminate. cbn [map MatchLookup.nul_f] in *.
    unfold all_occ in Hy. cbn [nargs flat_map all_occ_f app] in Hy. destruct Hy as [<-|[]]. reflexivity.
Qed.

(* ====================================================================== *)
(* 3. Tok from the per-node facts                                          *)
(* ====================================================================== *)

Section TokOf.
  Variable D : Type.
  Variable interp : nat -> list (sval D) -> D.
  Notation ev := (eval D interp).
  Variables (c0 c1 : N) (vk : nat) (x : slot) (tt : cterm).
  Notation xn := {| nvar := vk; nargs := [ASlot x] |}.
  Hypothesis x_mod : x mod 4 <> 1.
  (* the value of tt does not depend on a private name outside the window *)
  Hypothesis tt_priv : forall p, p mod 4 = 1 -> (p < c0 \/ c1 <= p) -> forall env z, ev 0 (aupd D env p z) tt = ev 0 env tt.

  (* what is known of a node of the extracted term *)
  Definition nodeP (n : node) : Prop :=
    (forall p, In p (binders n) -> p mod 4 = 1 /\ (p < c0 \/ c1 <= p)) /\
    (forall y, In y (all_occ n) -> In y (binders n) \/ n = {| nvar := vk; nargs := [ASlot y] |}).

  Lemma tok_of_all : forall T, rt_all nodeP T -> rt_nb T -> rt_ar T -> Tok D interp x xn tt T.
  Proof.
    intros T. induction T as [n ch IH] using rterm_ind2. intros A NB AR.
    apply rt_all_iff in A. destruct A as [[Pb Po] Ac]. apply rt_nb_iff in NB. destruct NB as [NBn NBc].
    apply rt_ar_iff in AR. destruct AR as [ARn ARc]. apply Tok_iff.
    split; [exact NBn|]. split; [|split; [|split; [|split; [exact ARn|]]]].
    - intros ->. unfold app_occ in ARn. cbn [nargs flat_map app_occ_f app List.length] in ARn.
      destruct ch as [|? ?]; [reflexivity|discriminate ARn].
    - intros Nn Hx. destruct (Po x Hx) as [B|B]; [|exact (Nn B)]. destruct (Pb x B) as [M _]. exact (x_mod M).
    - intros p Hp. destruct (Pb p Hp) as [M Wn]. split; [intros ->; exact (x_mod M)|]. exact (tt_priv p M Wn).
    - rewrite Forall_forall in IH, Ac, NBc, ARc. apply Forall_forall. intros c Hc.
      exact (IH c Hc (Ac c Hc) (NBc c Hc) (ARc c Hc)).
  Qed.
End TokOf.

(* ====================================================================== *)
(* 4. the synified invocation                                              *)
(* ====================================================================== *)

(* synify_app_id is fill_fresh over the syntactic slots of the class *)
Lemma synify_app_id_fill : forall a s a' s', synify_app_id a s = Ok (a', s') ->
  aid a' = aid a /\ exists ss, fill_fresh ss (am a) s = Ok (am a', s').
Proof.
  intros a s a' s' H. unfold synify_app_id in H. apply bind_reads_inv in H. destruct H as (ss & _ & H).
  apply mbind_inv in H. destruct H as (m' & s1 & H1 & H). inversion H; subst a' s1; clear H.
  change (fill_fresh ss (am a) s = Ok (m', s')) in H1. cbn [aid am]. split; [reflexivity|]. exists ss. exact H1.
Qed.

(* the synified handle is total, injective, without reserved values; its values are values of the handle or fresh
   slots drawn at or above the counter *)
Lemma synify_tot : forall E b s sb' s1, RSt E s -> cvh s b -> synify_app_id b s = Ok (sb', s1) ->
  tot_inv s1 sb' /\
  forall v, In v (values_vec (am sb')) -> In v (values_vec (am b)) \/ (v mod 4 = 1 /\ ectr s <= v).
Proof.
  intros E b s sb' s1 R ((cb & Hcb & Ib & _) & Vb & Hb) H. pose proof R as (_ & _ & _ & _ & Cm).
  destruct (synify_RSt E b s sb' s1 R H) as (_ & (_ & Gc & _) & _ & _).
  destruct (synify_app_id_total b s sb' s1 H) as (Ea & c & Hc & Tot).
  destruct (synify_app_id_fill b s sb' s1 H) as (_ & ss & Hf).
  assert (Bm : vbound (ectr s) (am b)) by (intros k v G; exact (Hb v (get_values _ _ _ G))).
  destruct (fill_fresh_ext _ _ _ _ _ Hf Cm Ib Bm) as (_ & Inj & _).
  destruct (RepReachNew.rn_fill_fresh_vals _ _ _ _ _ Hf Cm) as (_ & _ & VE).
  assert (VE' : forall v, In v (values_vec (am sb')) -> In v (values_vec (am b)) \/ (v mod 4 = 1 /\ ectr s <= v)).
  { intros v Hv. destruct (VE v Hv) as [T|[T1 T2]]; [left; exact T|right; split; assumption]. }
  split; [|exact VE'].
  exists c. rewrite Ea, (get_class_classes s s1 _ Gc). split; [exact Hc|]. split; [exact Inj|]. split; [exact Tot|].
  intros v Hv. destruct (VE' v Hv) as [T|[T _]]; [exact (Vb v T)|apply mod1_not_B; exact T].
Qed.

(* ====================================================================== *)
(* 5. the premise PRE                                                      *)
(* ====================================================================== *)

Theorem subst_pre : forall (D : Type) (interp : nat -> list (sval D) -> D) E c0 c1 vk x b' t' tt s,
  valid D interp E -> RSt E s -> JW c0 c1 s -> FragS vk s -> is_B x = false -> x mod 4 <> 1 ->
  cvh s b' -> hdl E s t' tt ->
  (forall v, In v (values_vec (am b')) -> v mod 4 <> 1 \/ (c0 <= v /\ v < c1)) ->
  (forall v, In v (values_vec (am t')) -> v mod 4 <> 1 \/ (c0 <= v /\ v < c1)) ->
  forall sb' s1 T, synify_app_id b' s = Ok (sb', s1) -> get_syn_expr (S (List.length (classes s1))) s1 sb' = Ok T ->
  tot_inv s1 sb' /\ clear_inv s1 sb' /\ Tok D interp x {| nvar := vk; nargs := [ASlot x] |} tt T /\ rt_frag vk T.
Proof.
  intros D interp E c0 c1 vk x b' t' tt s HV R HJ F Bx Mx Cb Ht Wb Wt sb' s1 T H1 HT.
  destruct (synify_RSt E b' s sb' s1 R H1) as (R1 & G & Le & X1).
  pose proof (JW_sg c0 c1 s s1 G Le HJ) as J1. destruct HJ as (P3 & BW & Lc). destruct J1 as (P31 & BW1 & Lc1).
  pose proof G as (_ & Gc & _).
  assert (F1 : FragS vk s1) by (intros i c Hc; rewrite (get_class_classes s s1 i Gc) in Hc; exact (F i c Hc)).
  destruct (synify_tot E b' s sb' s1 R Cb H1) as [TI VE].
  split; [exact TI|]. split; [|split].
  - (* clear_inv *)
    intros j c p _ Hc Hp Hin. rewrite (get_class_classes s s1 j Gc) in Hc.
    destruct (proj1 P3 j c p Hc Hp) as [Mp Lp]. pose proof (BW j c p Hc Hp) as Wp.
    destruct (VE p Hin) as [Vp|[_ Vp]]; [|lia]. destruct (Wb p Vp) as [T1|T1]; [exact (T1 Mp)|lia].
  - (* Tok *)
    destruct (syn_extract_ok (JW c0 c1) (JW_pnb c0 c1) (JW_sg c0 c1) E b' s sb' s1 T R (conj P3 (conj BW Lc)) Cb H1 HT) as [_ NB].
    pose proof (get_syn_expr_ar _ _ _ _ HT) as AR.
    apply (tok_of_all D interp c0 c1 vk x tt Mx); [| |exact NB|exact AR].
    + intros p Mp Wp env z. pose proof R as (_ & W & _). destruct Ht as (Ct & Vt & _ & Ot).
      apply (handle_indep D interp E s t' tt p HV W Ct Vt Ot); [|apply mod1_not_B; exact Mp].
      intros Hin. destruct (Wt p Hin) as [T1|T1]; [exact (T1 Mp)|lia].
    + apply (get_syn_expr_all (nodeP c0 c1 vk) s1) with (fuel := S (List.length (classes s1))) (i := sb'); [|exact HT].
      intros i en En. split.
      * intros p Hp. destruct (syn_node_binders s1 i en En) as (c & Hc & Eb). rewrite Eb in Hp.
        split; [exact (proj1 (proj1 P31 _ c p Hc Hp))|exact (BW1 _ c p Hc Hp)].
      * intros y Hy. destruct (get_syn_node_class s1 i en En) as (c & Hc & Ha).
        assert (Fe : node_frag vk en = true) by (rewrite (node_frag_apply_slotmap vk _ _ _ Ha); exact (F1 _ _ Hc)).
        destruct (frag_nul_occ vk en y Fe Hy) as [B|B]; [left; rewrite MatchReprFacts.binders_nullify; exact B|right; exact B].
  - exact (get_syn_expr_frag vk _ s1 sb' T F1 HT).
Qed.

(* exactly the premise of RewriteSoundSubstSem.syn_expr_subst_sem (xn := the vk node with the bare slot x) *)
Corollary subst_pre_PRE : forall (D : Type) (interp : nat -> list (sval D) -> D) E c0 c1 vk x b' t' tt s,
  valid D interp E -> RSt E s -> JW c0 c1 s -> FragS vk s -> is_B x = false -> x mod 4 <> 1 ->
  cvh s b' -> hdl E s t' tt ->
  (forall v, In v (values_vec (am b')) -> v mod 4 <> 1 \/ (c0 <= v /\ v < c1)) ->
  (forall v, In v (values_vec (am t')) -> v mod 4 <> 1 \/ (c0 <= v /\ v < c1)) ->
  forall sb' s1 T, synify_app_id b' s = Ok (sb', s1) -> get_syn_expr (S (List.length (classes s1))) s1 sb' = Ok T ->
  tot_inv s1 sb' /\ clear_inv s1 sb' /\ Tok D interp x {| nvar := vk; nargs := [ASlot x] |} tt T.
Proof.
  intros D interp E c0 c1 vk x b' t' tt s HV R HJ F Bx Mx Cb Ht Wb Wt sb' s1 T H1 HT.
  destruct (subst_pre D interp E c0 c1 vk x b' t' tt s HV R HJ F Bx Mx Cb Ht Wb Wt sb' s1 T H1 HT) as (A & B & C & _).
  split; [exact A|]. split; [exact B|exact C].
Qed.

(* syn_expr_subst_sem with PRE discharged; the remaining premises are those of syn_expr_subst_sem itself *)
Theorem syn_expr_subst_sem_frag : forall (D : Type) (interp : nat -> list (sval D) -> D) E c0 c1 vk x b' x' t' tb tt,
  valid D interp E -> is_B x = false -> x mod 4 <> 1 ->
  let xn := {| nvar := vk; nargs := [ASlot x] |} in
  (forall env, eval D interp 0 (aupd D env x (eval D interp 0 env tt)) (node_t xn []) = eval D interp 0 env tt) ->
  (forall m s b s', RSt E s -> Hit xn x' s -> eg_add m s = Ok (b, s') -> Hit xn x' s') ->
  forall s a s', RSt E s -> JW c0 c1 s -> FragS vk s ->
  hdl E s b' tb -> hdl E s x' (node_t xn []) -> hdl E s t' tt -> Hit xn x' s -> ~ In x (values_vec (am t')) ->
  (forall v, In v (values_vec (am b')) -> v mod 4 <> 1 \/ (c0 <= v /\ v < c1)) ->
  (forall v, In v (values_vec (am t')) -> v mod 4 <> 1 \/ (c0 <= v /\ v < c1)) ->
  syn_expr_subst b' x' t' s = Ok (a, s') ->
  RSt E s' /\ JW c0 c1 s' /\ ext0 s s' /\
  exists r, hdl E s' a r /\ forall env, eval D interp 0 env r = eval D interp 0 (aupd D env x (eval D interp 0 env tt)) tb.
Proof.
  intros D interp E c0 c1 vk x b' x' t' tb tt HV Bx Mx xn XL HK s a s' R HJ F Hb Hx Ht HH Nx Wb Wt H.
  apply (RewriteSoundSubstSem.syn_expr_subst_sem D interp E HV c0 c1 x xn b' x' t' tb tt Bx eq_refl XL HK s a s' R HJ Hb Hx Ht HH Nx); [|exact H].
  exact (subst_pre_PRE D interp E c0 c1 vk x b' t' tt s HV R HJ F Bx Mx (hdl_cvh _ _ _ _ Hb) Ht Wb Wt).
Qed.

Check subst_pre.
Print Assumptions get_syn_expr_all.
Print Assumptions get_syn_expr_frag.
Print Assumptions subst_pre.
Print Assumptions subst_pre_PRE.
Print Assumptions syn_expr_subst_sem_frag.
Print Assumptions node_frag_nodup.
Print Assumptions FragS_empty.
Print Assumptions FragS_classes.
Print Assumptions FragS_ext.
Print Assumptions FragS_eg_add.
Print Assumptions FragS_eg_add_set.
Print Assumptions FragS_add_expr.
