(* EGraph/SubstPreFrag.v — C03, b[x := t]: the fragment invariant FragS (SubstIface.v: every syntactic node is in
   the fragment node_frag) is kept by the e-graph operations.  node_frag only depends on the "argument skeleton" of
   a node (all names, applied ids and maps erased); every step of eg_add (find_enode, variants, weak shape,
   refresh_private, apply_slotmap, synify_enode, apply_slotmap_fresh) keeps this skeleton. *)
From SE Require Import Slots.SlotMapFacts Group.GroupSound Lang.LangFacts Lang.ShapeFacts Lang.RenameFacts
  Base.TextFacts Parse.Parser
  EGraph.Model EGraph.ModelFacts EGraph.ModelMachine EGraph.UnionFindFacts EGraph.InvariantFacts
  EGraph.UnionInvariantFacts EGraph.AddCoversFacts EGraph.MonotoneFacts EGraph.Mod4Facts EGraph.SoundFacts EGraph.SoundUnion
  EGraph.SoundSyn EGraph.SoundNode EGraph.SoundStruct EGraph.NodePass EGraph.SoundBase EGraph.SoundAddNew EGraph.SoundVals
  EGraph.SoundAddExpr EGraph.SoundPending EGraph.SoundRebuild EGraph.SoundGuard EGraph.SoundFinal EGraph.SoundClosed
  EGraph.Rewrite EGraph.RewriteFacts EGraph.ProgressFacts EGraph.MatchDefs EGraph.MatchFacts EGraph.KidsFacts
  EGraph.MatchVals EGraph.RewriteSoundInst EGraph.RewriteSound EGraph.SynNodup EGraph.SynPriv EGraph.SynPrivOps
  EGraph.RewriteSoundSubst EGraph.LeafHit EGraph.SubstIface EGraph.SubstFragSk.
From SE Require Import Sem.Deriv Sem.DerivFacts Sem.AlgebraFacts Sem.EgMachine Explain.CheckerFacts.
Require Import ZArith Lia ZifyBool ZifyN ZifyNat.
Require Import List. Import ListNotations.
Ltac Zify.zify_post_hook ::= Z.div_mod_to_equations.

Local Notation inv := inverse_nocheck.
Local Notation ectr := Model.ctr.

(* ====================================================================== *)
(* 0. at most one binder                                                   *)
(* ====================================================================== *)

(* node_frag_nodup : SubstFragSk.v *)

(* ====================================================================== *)
(* 1. the argument skeleton                                                *)
(* ====================================================================== *)


Fixpoint sk (a : farg) : farg :=
  match a with
  | ASlot _ => ASlot 0
  | AApp _ => AApp null_appid
  | ABind _ b => ABind 0 (sk b)
  | APay q => APay q
  end.

Definition skn (n : node) : node := {| nvar := nvar n; nargs := map sk (nargs n) |}.

Definition isslot (a : farg) : bool := match a with ASlot _ => true | _ => false end.
Definition one_slot1 (l : list farg) : bool := match l with [a] => isslot a | _ => false end.

Lemma one_slot1_eq : forall l, match l with [ASlot _] => true | _ => false end = one_slot1 l.
Proof. intros [|[x|x|x b|q] [|a t]]; reflexivity. Qed.

Lemma sk_binders_len : forall a, List.length (binders_f (sk a)) = List.length (binders_f a).
Proof. induction a as [x|x|x b IH|q]; cbn [sk binders_f List.length]; auto. Qed.

Lemma sk_noslot : forall a, farg_noslot (sk a) = farg_noslot a.
Proof. induction a as [x|x|x b IH|q]; cbn [sk farg_noslot]; auto. Qed.

Lemma sk_isslot : forall a, isslot (sk a) = isslot a.
Proof. intros [x|x|x b|q]; reflexivity. Qed.

Lemma skn_binders_len : forall l, List.length (flat_map binders_f (map sk l)) = List.length (flat_map binders_f l).
Proof.
  induction l as [|a t IH]; cbn [map flat_map]; [reflexivity|]. rewrite !app_length, sk_binders_len, IH. reflexivity.
Qed.

Lemma skn_noslot : forall l, forallb farg_noslot (map sk l) = forallb farg_noslot l.
Proof. induction l as [|a t IH]; cbn [map forallb]; [reflexivity|]. rewrite sk_noslot, IH. reflexivity. Qed.

Lemma skn_one_slot1 : forall l, one_slot1 (map sk l) = one_slot1 l.
Proof. intros [|a [|b t]]; cbn [map one_slot1]; try reflexivity. apply sk_isslot. Qed.

Lemma node_frag_skn : forall vk n, node_frag vk (skn n) = node_frag vk n.
Proof.
  intros vk n. unfold node_frag, is_var_node, binders, skn. cbn [nvar nargs].
  rewrite !one_slot1_eq, skn_binders_len, skn_noslot, skn_one_slot1. reflexivity.
Qed.

(* node_frag only depends on the skeleton *)
Lemma node_frag_skn_eq : forall vk n n', skn n' = skn n -> node_frag vk n' = node_frag vk n.
Proof. intros vk n n' H. rewrite <- (node_frag_skn vk n'), H. apply node_frag_skn. Qed.

(* the finer skeleton of ShapeFacts *)
Lemma sk_skel_f : forall a, sk (skel_f a) = sk a.
Proof. induction a as [x|x|x b IH|q]; cbn [sk skel_f]; try reflexivity. rewrite IH. reflexivity. Qed.

Lemma skn_skel : forall n, skn (skel n) = skn n.
Proof.
  intros n. unfold skn, skel. cbn [nvar nargs]. f_equal. rewrite map_map. apply map_ext. exact sk_skel_f.
Qed.

Lemma skel_skn : forall n n', skel n' = skel n -> skn n' = skn n.
Proof. intros n n' H. rewrite <- (skn_skel n'), H. apply skn_skel. Qed.

(* replacing the applied ids *)
Lemma sk_set_apps_f : forall a l, sk (fst (set_apps_f a l)) = sk a.
Proof.
  induction a as [x|x|x b IH|q]; intros l; cbn [set_apps_f]; try reflexivity.
  - destruct l; reflexivity.
  - specialize (IH l). destruct (set_apps_f b l) as [b' l']. cbn [fst sk] in *. rewrite IH. reflexivity.
Qed.

Lemma sk_set_apps_args : forall args l, map sk (set_apps_args args l) = map sk args.
Proof.
  induction args as [|a t IH]; intros l; cbn [set_apps_args map]; [reflexivity|].
  pose proof (sk_set_apps_f a l) as A. destruct (set_apps_f a l) as [a' l']. cbn [fst map] in *.
  rewrite A, IH. reflexivity.
Qed.

Lemma skn_set_apps : forall n l, skn (set_apps n l) = skn n.
Proof. intros n l. unfold skn, set_apps. cbn [nvar nargs]. rewrite sk_set_apps_args. reflexivity. Qed.

(* node_frag_set_apps : SubstFragSk.v *)

(* renamings *)
Lemma skn_ren : forall g n, skn (ren g n) = skn n.
Proof. intros g n. apply skel_skn, ren_skel. Qed.

Lemma skn_apply_slotmap : forall m n n', apply_slotmap false m n = Ok n' -> skn n' = skn n.
Proof. intros m n n' H. apply apply_slotmap_ren in H. subst n'. apply skn_ren. Qed.

Lemma skn_synify_enode : forall n s n' s', synify_enode n s = Ok (n', s') -> skn n' = skn n.
Proof.
  intros n s n' s' H. unfold synify_enode in H. apply mbind_inv in H. destruct H as (l & s1 & _ & H').
  inversion H'; subst. apply skn_set_apps.
Qed.

Lemma skn_asf_fresh : forall n c f2o c2 synf c3,
  bijection_from_fresh_to (slots n) c = (f2o, c2) -> apply_slotmap_fresh false (inv f2o) n c2 = (synf, c3) ->
  skn synf = skn n.
Proof.
  intros n c f2o c2 synf c3 E ASF. set (o2f := inv f2o) in *.
  pose proof (slots_sorted n) as W.
  destruct (fresh_spec _ _ _ _ W E) as (F1 & F2). fold o2f in F1, F2.
  assert (K : forall x, In x (pub_occ n) -> get o2f x <> None).
  { intros x Hx. apply slots_spec in Hx. destruct (F1 x Hx) as (y & -> & _). discriminate. }
  rewrite (asf_ren o2f n c2 K) in ASF. inversion ASF as [[Es Ec]]. apply skn_ren.
Qed.

Lemma skn_refresh_private : forall n c n' c', refresh_private n c = (Ok n', c') -> skn n' = skn n.
Proof. intros n c n' c' H. apply skel_skn. exact (proj1 (refresh_private_spec n c n' c' H)). Qed.

Lemma skn_wshape : forall n sh bij, wshape n = Ok (sh, bij) -> skn sh = skn n.
Proof.
  intros n sh bij H. unfold wshape in H. destruct (ws_top n sh bij H) as (mF & _ & _ & _ & S & _).
  apply skel_skn. exact S.
Qed.

(* shape *)
Lemma skn_find_enode : forall s n n1, find_enode s n = Ok n1 -> skn n1 = skn n.
Proof.
  intros s n n1 H. unfold find_enode in H.
  destruct (mapr (find_applied_id s) (app_occ n)) as [l|]; cbn [bind] in H; [|discriminate].
  inversion H; subst. apply skn_set_apps.
Qed.

Lemma skn_variants : forall s n vs v, variants s n = Ok vs -> In v vs -> skn v = skn n.
Proof.
  intros s n vs v H Hv. unfold variants in H.
  destruct (mapr (fun a => get_class s (aid a)) (app_occ n)) as [cls|] eqn:Ec; cbn [bind] in H; [|discriminate].
  destruct (forallb _ cls).
  - inversion H; subst vs. destruct Hv as [<-|[]]. reflexivity.
  - destruct (mapr _ cls) as [groups|] eqn:Eg; cbn [bind] in H; [|discriminate]. inversion H; subst vs; clear H.
    apply in_map_iff in Hv. destruct Hv as (l & <- & Hl). apply skn_set_apps.
Qed.

Lemma skn_pre_shape : forall s n p, pre_shape s n = Ok p -> skn p = skn n.
Proof.
  intros s n p H. unfold pre_shape in H.
  destruct (find_enode s n) as [n1|] eqn:E1; cbn [bind] in H; [|discriminate].
  destruct (variants s n1) as [vs|] eqn:E2; cbn [bind] in H; [|discriminate].
  apply min_variant_in in H. destruct H as [H|[k H]]; [|discriminate].
  rewrite (skn_variants _ _ _ _ E2 H). exact (skn_find_enode _ _ _ E1).
Qed.

Lemma skn_shape : forall s n t, shape s n = Ok t -> skn (fst t) = skn n.
Proof.
  intros s n [sh bij] H. unfold shape in H.
  destruct (pre_shape s n) as [p|] eqn:E1; cbn [bind] in H; [|discriminate].
  cbn [fst]. rewrite (skn_wshape _ _ _ H). exact (skn_pre_shape _ _ _ E1).
Qed.

(* ====================================================================== *)
(* 2. steps that keep the syntactic nodes                                  *)
(* ====================================================================== *)

Theorem FragS_empty : forall vk, FragS vk empty_egraph.
Proof. intros vk i c H. unfold get_class in H. cbn in H. destruct (N.to_nat i); discriminate. Qed.

Theorem FragS_classes : forall vk s s', classes s' = classes s -> FragS vk s -> FragS vk s'.
Proof. intros vk s s' C F i c Hc. rewrite (get_class_classes s s' i C) in Hc. exact (F i c Hc). Qed.

Theorem FragS_ext : forall vk s s', ext s s' -> FragS vk s -> FragS vk s'.
Proof.
  intros vk s s' X F i c Hc. destruct (ext0_class_cases s s' i c (ext_ext0 _ _ X) Hc) as [(d0 & Hd0 & Sy)|Li].
  - rewrite Sy. exact (F _ _ Hd0).
  - destruct X as (_ & L & _). pose proof (get_class_lt _ _ _ Hc) as T. lia.
Qed.

Theorem FragS_same_graph : forall vk s s', same_graph s s' -> FragS vk s -> FragS vk s'.
Proof. intros vk s s' (_ & C & _). exact (FragS_classes vk s s' C). Qed.

Theorem FragS_synify_app_id : forall vk a s a' s', synify_app_id a s = Ok (a', s') -> FragS vk s -> FragS vk s'.
Proof. intros vk a s a' s' H. apply FragS_same_graph. exact (sg_synify_app_id a s a' s' H). Qed.

Theorem FragS_eg_union : forall vk E s l r tl tr b s', RSt E s -> covers s l -> covers s r ->
  handle_ok E s l tl -> handle_ok E s r tr -> eg_union l r s = Ok (b, s') -> FragS vk s -> FragS vk s'.
Proof.
  intros vk E s l r tl tr b s' R Cl Cr Ol Or H. destruct (RSt_eg_union E s l r tl tr b s' R Cl Cr Ol Or H) as [_ X].
  exact (FragS_ext vk s s' X).
Qed.

(* ====================================================================== *)
(* 3. the insertion of a weak shape                                        *)
(* ====================================================================== *)

(* the classes of s' that are not classes of s have the skeleton of the inserted shape *)
Definition new_sk (n0 : node) (s s' : egraph) : Prop :=
  forall i c, get_class s' i = Ok c -> (lc s <= N.to_nat i)%nat -> skn (c_syn c) = skn n0.

Lemma add_internal_new_sk : forall t s a s', inv3 s ->
  add_internal t s = Ok (a, s') -> new_sk (fst t) s s'.
Proof.
  intros t s a s' I3 H.
  destruct (lookup_internal s t) as [[x|]|e] eqn:Hlk.
  - destruct (add_internal_hit t s x a s' Hlk H) as [_ ->].
    intros i c Hc Li. pose proof (get_class_lt _ _ _ Hc) as L. exfalso. lia.
  - destruct (add_internal_walk _ _ _ _ I3 Hlk H) as (en1 & c1 & en2 & en3 & s3 & syn & RP & H2 & H3 & H4 & Sm & I1 & E01 & I3' & E13 & Hb).
    cbv zeta in *.
    destruct (mk_singleton_walk _ _ _ _ I3' Hb H4) as (f2o & c2 & synf & s3a & sh & bij & s4 & s5 & BF & ASF & AL & Hsh & RA & PI & RB & Ea & I2 & I3a & E23 & I4 & E34 & I5 & E45 & I6 & E56).
    cbv zeta in *.
    pose proof (cls_synify_enode _ _ _ _ H3) as [C13 _]. cbn [classes set_ctr] in C13.
    pose proof (alloc_eclass_exact _ _ _ _ _ AL) as (_ & _ & C & _ & _ & Ct).
    set (s2 := set_ctr (set_ctr s3 c2) c2) in *.
    assert (C2 : classes s2 = classes s) by (unfold s2; cbn [classes set_ctr]; exact C13).
    assert (L2 : lc s2 = lc s) by (unfold lc; rewrite C2; reflexivity).
    pose proof (ext_trans _ _ _ E34 (ext_trans _ _ _ E45 E56)) as (Lc & Ll & Xc).
    intros i c Hc Li.
    pose proof (get_class_lt _ _ _ Hc) as Lt. change (List.length (classes s')) with (lc s') in Lt. rewrite Ll in Lt.
    destruct (get_class_ok s3a i Lt) as [c0 Hc0]. destruct (Xc _ _ Hc0) as (c' & Hc' & _ & Sy).
    rewrite Hc in Hc'. inversion Hc'; subst c'; clear Hc'. rewrite Sy.
    apply (get_class_ext_inv s2 s3a _ C) in Hc0. destruct Hc0 as [Hc0|[_ ->]].
    + pose proof (get_class_lt _ _ _ Hc0) as T. change (List.length (classes s2)) with (lc s2) in T. exfalso. lia.
    + cbn [c_syn].
      rewrite (skn_asf_fresh _ _ _ _ _ _ BF ASF), (skn_synify_enode _ _ _ _ H3), (skn_apply_slotmap _ _ _ H2).
      exact (skn_refresh_private _ _ _ _ RP).
  - unfold add_internal in H. apply bind_reads_inv in H. destruct H as (lk & Hlk' & _). rewrite Hlk in Hlk'. discriminate.
Qed.

Lemma eg_add_new_sk : forall n s a s', inv3 s -> eg_add n s = Ok (a, s') -> new_sk n s s'.
Proof.
  intros n s a s' I3 H. unfold eg_add in H. apply bind_reads_inv in H. destruct H as (t & Ht & H).
  intros i c Hc Li. rewrite (add_internal_new_sk t s a s' I3 H i c Hc Li). exact (skn_shape _ _ _ Ht).
Qed.

Lemma FragS_step : forall vk n s s', ext0 s s' -> new_sk n s s' -> node_frag vk n = true -> FragS vk s -> FragS vk s'.
Proof.
  intros vk n s s' X NS Fn F i c Hc. destruct (ext0_class_cases s s' i c X Hc) as [(c0 & Hc0 & Sy)|L].
  - rewrite Sy. exact (F _ _ Hc0).
  - rewrite (node_frag_skn_eq vk n (c_syn c) (NS i c Hc L)). exact Fn.
Qed.

Theorem FragS_eg_add_i : forall vk n s a s', inv3 s -> FragS vk s -> node_frag vk n = true ->
  eg_add n s = Ok (a, s') -> FragS vk s'.
Proof.
  intros vk n s a s' I F Fn H. destruct (eg_add_covers n s a s' I H) as (_ & X & _).
  exact (FragS_step vk n s s' X (eg_add_new_sk n s a s' I H) Fn F).
Qed.

Theorem FragS_eg_add : forall vk E n s a s', RSt E s -> FragS vk s -> node_frag vk n = true ->
  eg_add n s = Ok (a, s') -> FragS vk s'.
Proof. intros vk E n s a s' (I & _) F Fn H. exact (FragS_eg_add_i vk n s a s' I F Fn H). Qed.

(* the insertion sites of the applier: the children of the node are replaced first *)
Corollary FragS_eg_add_set : forall vk E n l s a s', RSt E s -> FragS vk s -> node_frag vk n = true ->
  eg_add (set_apps n l) s = Ok (a, s') -> FragS vk s'.
Proof.
  intros vk E n l s a s' R F Fn H. apply (FragS_eg_add vk E (set_apps n l) s a s' R F); [|exact H].
  rewrite node_frag_set_apps. exact Fn.
Qed.

(* ====================================================================== *)
(* 4. add_expr                                                             *)
(* ====================================================================== *)

Lemma rt_frag_iff : forall vk n ch, rt_frag vk (RT n ch) <-> node_frag vk n = true /\ Forall (rt_frag vk) ch.
Proof.
  intros vk n ch. cbn [rt_frag].
  assert (G : forall l, (fix go (l : list rterm) : Prop := match l with [] => True | c :: r => rt_frag vk c /\ go r end) l
                        <-> Forall (rt_frag vk) l).
  { induction l as [|c r IH]; [split; [constructor|exact (fun _ => I)]|].
    split.
    - intros [A B]. constructor; [exact A|apply IH; exact B].
    - intros B. inversion B as [|c' r' Hc' Hr']; subst. split; [exact Hc'|apply IH; exact Hr']. }
  rewrite G. reflexivity.
Qed.

Lemma FragS_add_expr_k : forall vk k t s a s', (rsize t < k)%nat -> inv3 s -> FragS vk s -> rt_frag vk t ->
  add_expr t s = Ok (a, s') -> FragS vk s'.
Proof.
  intros vk. induction k as [|k IHk]; intros t s a s' Hk I Hq Ft H; [lia|].
  destruct t as [n ch]. rewrite add_expr_unfold in H.
  apply rt_frag_iff in Ft. destruct Ft as [Fn Fch].
  apply mbind_inv in H. destruct H as (l & s1 & Hgo & H).
  assert (G : forall ch0, (forall c, In c ch0 -> (rsize c < k)%nat) -> Forall (rt_frag vk) ch0 ->
              forall s0 l0 s2, inv3 s0 -> FragS vk s0 -> add_children ch0 s0 = Ok (l0, s2) ->
              inv3 s2 /\ FragS vk s2).
  { clear -IHk. induction ch0 as [|c r IHr]; intros Hs Fr s0 l0 s2 I0 Q0 H; cbn [add_children] in H.
    - inversion H; subst. auto.
    - apply mbind_inv in H. destruct H as (a0 & s1 & H1 & H).
      inversion Fr as [|c' r' Fc Fr']; subst.
      pose proof (IHk c s0 a0 s1 (Hs c (or_introl eq_refl)) I0 Q0 Fc H1) as Q1.
      destruct (add_expr_covers c s0 a0 s1 I0 H1) as (I1 & _ & _).
      apply mbind_inv in H. destruct H as (r2 & s3 & H3 & H). inversion H; subst l0 s3; clear H.
      exact (IHr (fun c' Hc' => Hs c' (or_intror Hc')) Fr' s1 r2 s2 I1 Q1 H3). }
  assert (Hsz : forall c, In c ch -> (rsize c < k)%nat).
  { intros c Hc. pose proof (rsize_child n ch c Hc). lia. }
  destruct (G ch Hsz Fch s l s1 I Hq Hgo) as (I1 & Q1).
  destruct (Nat.ltb _ _); [discriminate|].
  apply (FragS_eg_add_i vk (set_apps n l) s1 a s' I1 Q1); [|exact H].
  rewrite node_frag_set_apps. exact Fn.
Qed.

Theorem FragS_add_expr_i : forall vk tm s a s', inv3 s -> FragS vk s -> rt_frag vk tm ->
  add_expr tm s = Ok (a, s') -> FragS vk s'.
Proof. intros vk tm s a s'. exact (FragS_add_expr_k vk (S (rsize tm)) tm s a s' (Nat.lt_succ_diag_r _)). Qed.

Theorem FragS_add_expr : forall vk E tm s a s', RSt E s -> FragS vk s -> rt_frag vk tm ->
  add_expr tm s = Ok (a, s') -> FragS vk s'.
Proof. intros vk E tm s a s' (I & _) F Ft H. exact (FragS_add_expr_i vk tm s a s' I F Ft H). Qed.

Print Assumptions node_frag_skn_eq.
Print Assumptions FragS_empty.
Print Assumptions FragS_classes.
Print Assumptions FragS_ext.
Print Assumptions FragS_same_graph.
Print Assumptions FragS_synify_app_id.
Print Assumptions FragS_eg_union.
Print Assumptions add_internal_new_sk.
Print Assumptions FragS_eg_add_i.
Print Assumptions FragS_eg_add.
Print Assumptions FragS_eg_add_set.
Print Assumptions FragS_add_expr_i.
Print Assumptions FragS_add_expr.
