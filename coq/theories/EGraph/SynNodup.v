(* EGraph/SynNodup.v — the binders of the syntactic node of every class are pairwise distinct (SN):
   holds in the empty e-graph, is kept by ext, and by the insertion walk new_walk. *)
From SE Require Import Slots.SlotMapFacts Group.GroupSound Lang.LangFacts Lang.ShapeFacts Lang.RenameFacts
  EGraph.Model EGraph.ModelFacts EGraph.ModelMachine EGraph.UnionFindFacts EGraph.InvariantFacts
  EGraph.UnionInvariantFacts EGraph.AddCoversFacts EGraph.MonotoneFacts EGraph.SoundFacts EGraph.SoundUnion EGraph.SoundSyn EGraph.SoundNode EGraph.SoundStruct EGraph.NodePass EGraph.SoundBase EGraph.SoundAddNew EGraph.SoundVals EGraph.SoundAddExpr EGraph.SoundPending.
From SE Require EGraph.SoundCong.
From SE Require Import EGraph.SoundReadd EGraph.KidsCov EGraph.SoundRebuild.
From SE Require EGraph.KeyInv.
From SE Require Import EGraph.SoundGuard.
From SE Require Import Sem.Deriv Sem.DerivFacts Sem.AlgebraFacts Sem.EgMachine Explain.CheckerFacts.
Require Import ZArith Lia ZifyBool ZifyN ZifyNat.
Ltac Zify.zify_post_hook ::= Z.div_mod_to_equations.
From SE Require Import EGraph.SoundFinal EGraph.HashconsShape.

Local Notation inv := inverse_nocheck.
Local Notation ectr := Model.ctr.

Definition SN (s : egraph) : Prop := forall i c, get_class s i = Ok c -> NoDup (binders (c_syn c)).

Lemma SN_empty : SN empty_egraph.
Proof. intros i c H. unfold get_class in H. cbn in H. destruct (N.to_nat i); discriminate. Qed.

Lemma SN_ext : forall s s', ext s s' -> SN s -> SN s'.
Proof.
  intros s s' X H i c' Hc'. pose proof X as (_ & L & Xc).
  pose proof (get_class_lt _ _ _ Hc') as Li. change (List.length (classes s')) with (lc s') in Li. rewrite L in Li.
  destruct (get_class_ok s i Li) as [c Hc]. destruct (Xc _ _ Hc) as (c2 & Hc2 & _ & Sy).
  rewrite Hc' in Hc2. inversion Hc2; subst c2. rewrite Sy. exact (H _ _ Hc).
Qed.

Lemma NoDup_map_inj_on : forall (f : N -> N) l,
  (forall x y, In x l -> In y l -> f x = f y -> x = y) -> NoDup l -> NoDup (map f l).
Proof.
  intros f l. induction l as [|a t IH]; intros Hi Hn; cbn [map]; [constructor|].
  inversion Hn as [|a' t' Ha Ht]; subst. constructor.
  - intros Hin. apply in_map_iff in Hin. destruct Hin as (y & Ey & Hy).
    assert (y = a) by (apply Hi; [right; exact Hy|left; reflexivity|exact Ey]). subst y. exact (Ha Hy).
  - apply IH; [|exact Ht]. intros x y Hx Hy. apply Hi; right; assumption.
Qed.

Lemma refresh_private_nodup : forall n c n' c', refresh_private n c = (Ok n', c') ->
  NoDup (binders n) -> NoDup (binders n').
Proof.
  intros n c n' c' H Hn. unfold refresh_private, refresh_by in H.
  destruct (bijection_from_fresh_to (sset_of_list (prv_occ n)) c) as [bf c1] eqn:E.
  injection H as H Hc. subst c1.
  destruct (sset_of_list_spec (prv_occ n)) as [Hswf Hin].
  destruct (fresh_spec _ _ _ _ Hswf E) as [F1 F2].
  apply trav_res_ren in H.
  set (g := fun (b : bool) (s : slot) =>
              match (if negb b then index (inverse_nocheck bf) s else Ok s) with Ok y => y | Err _ => s end) in H.
  assert (Hg : forall s, In s (binders n) -> get (inverse_nocheck bf) s = Some (g false s)).
  { intros s Hs. apply binders_prv in Hs. apply Hin in Hs. destruct (F1 s Hs) as [y [G1 G2]].
    unfold g. cbn [negb]. unfold index. rewrite G1. reflexivity. }
  subst n'. rewrite ren_binders. apply NoDup_map_inj_on; [|exact Hn].
  intros x y Hx Hy Hxy. pose proof (Hg x Hx) as G1. pose proof (Hg y Hy) as G2.
  rewrite Hxy in G1. eapply F2; eassumption.
Qed.

Lemma apply_slotmap_binders : forall m n n', apply_slotmap false m n = Ok n' -> binders n' = binders n.
Proof.
  intros m n n' H. apply apply_slotmap_ren in H. subst n'. rewrite ren_binders.
  unfold asm_g. apply map_id.
Qed.

Lemma synify_enode_binders : forall n s n' s', synify_enode n s = Ok (n', s') -> binders n' = binders n.
Proof.
  intros n s n' s' H. unfold synify_enode in H. apply mbind_inv in H. destruct H as (l & s1 & _ & H').
  inversion H'; subst. apply binders_set_apps'.
Qed.

Lemma asf_fresh_binders : forall n c f2o c2 synf c3,
  bijection_from_fresh_to (slots n) c = (f2o, c2) -> apply_slotmap_fresh false (inv f2o) n c2 = (synf, c3) ->
  binders synf = binders n.
Proof.
  intros n c f2o c2 synf c3 E ASF. set (o2f := inv f2o) in *.
  pose proof (slots_sorted n) as W.
  destruct (fresh_spec _ _ _ _ W E) as (F1 & F2). fold o2f in F1, F2.
  assert (K : forall x, In x (pub_occ n) -> get o2f x <> None).
  { intros x Hx. apply slots_spec in Hx. destruct (F1 x Hx) as (y & -> & _). discriminate. }
  rewrite (asf_ren o2f n c2 K) in ASF. inversion ASF as [[Es Ec]]. rewrite ren_binders. apply map_id.
Qed.

Theorem SN_new_walk : forall t p s s5, SN s -> wshape p = Ok t -> new_walk t s s5 -> SN s5.
Proof.
  intros [sh_t bij_t] p s s5 Hs Hw
    (en1 & c1 & en2 & en3 & s3 & f2o & c2 & synf & i & s3a & sh & bij & s4 & A1 & A2 & A3 & A4 & A5 & A6 & A7 & A8 & A9).
  cbn [fst snd] in A1, A2.
  (* NoDup (binders synf) *)
  assert (Nf : NoDup (binders synf)).
  { rewrite (asf_fresh_binders _ _ _ _ _ _ A4 A5), (synify_enode_binders _ _ _ _ A3), (apply_slotmap_binders _ _ _ A2).
    apply (refresh_private_nodup _ _ _ _ A1). exact (ws_binders_nodup _ _ _ Hw). }
  pose proof (cls_synify_enode _ _ _ _ A3) as [C13 _]. cbn [classes set_ctr] in C13.
  pose proof (alloc_eclass_exact _ _ _ _ _ A6) as (_ & _ & C & _).
  set (s2 := set_ctr (set_ctr s3 c2) c2) in *.
  assert (C2 : classes s2 = classes s) by (unfold s2; cbn [classes set_ctr]; exact C13).
  assert (S3a : SN s3a).
  { intros j cj Hj. apply (get_class_ext_inv s2 s3a _ C) in Hj. destruct Hj as [Hj|[_ ->]].
    - apply (Hs j). unfold get_class in *. rewrite <- C2. exact Hj.
    - cbn [c_syn]. exact Nf. }
  destruct (s_raw_add i (sh, bij) i _ _ _ A8) as [E34 L34].
  destruct (s_pending_insert sh true _ _ _ A9) as [E45 L45].
  apply (SN_ext s4 s5 (sem_ext _ _ E45 L45)). apply (SN_ext s3a s4 (sem_ext _ _ E34 L34)). exact S3a.
Qed.

Print Assumptions SN_empty.
Print Assumptions SN_ext.
Print Assumptions refresh_private_nodup.
Print Assumptions SN_new_walk.
