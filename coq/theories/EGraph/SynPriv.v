(* EGraph/SynPriv.v — the private (binder) slot names of the syntactic node of every class are
   fresh-kind names (1 mod 4): syn_pnb.  Holds in the empty e-graph, kept by ext and by the insertion
   walk new_walk; the combined run invariant SC3 := SC2 /\ syn_pnb satisfies xinv_ok with KC2, and the
   four semantic facts hold for it.  Consequence for extraction: no reserved slot name (3 mod 4)
   occurs in a term extracted through an invocation whose map has no reserved values. *)
From SE Require Import Slots.SlotMapFacts Group.GroupSound Lang.LangFacts Lang.ShapeFacts Lang.RenameFacts
  EGraph.Model EGraph.ModelFacts EGraph.ModelMachine EGraph.UnionFindFacts EGraph.InvariantFacts
  EGraph.UnionInvariantFacts EGraph.AddCoversFacts EGraph.MonotoneFacts EGraph.SoundFacts EGraph.SoundUnion EGraph.SoundSyn EGraph.SoundNode EGraph.SoundStruct EGraph.NodePass EGraph.SoundBase EGraph.SoundAddNew EGraph.SoundVals EGraph.SoundAddExpr EGraph.SoundPending.
From SE Require EGraph.SoundCong.
From SE Require Import EGraph.SoundReadd EGraph.KidsCov EGraph.SoundRebuild EGraph.SoundFinal.
From SE Require Import EGraph.HashconsShape EGraph.NodeCong EGraph.KidEqFacts EGraph.ShapeCong EGraph.EntriesPersist EGraph.SynNodup EGraph.SoundClosed.
From SE Require Import EGraph.Rewrite.
From SE Require EGraph.KidsFacts.
From SE Require Import Sem.Deriv Sem.DerivFacts Sem.AlgebraFacts Sem.EgMachine Explain.CheckerFacts.
Require Import ZArith Lia ZifyBool ZifyN ZifyNat.
Ltac Zify.zify_post_hook ::= Z.div_mod_to_equations.

Local Notation "a ** b" := (compose_partial a b) (at level 40, left associativity).
Local Notation inv := inverse_nocheck.
Local Notation ectr := Model.ctr.

(* ====================================================================== *)
(* 1. the invariant                                                        *)
(* ====================================================================== *)

Definition syn_pnb (s : egraph) : Prop :=
  forall i c x, get_class s i = Ok c -> In x (binders (c_syn c)) -> x mod 4 = 1.

Definition SC3 (s : egraph) : Prop := SC2 s /\ syn_pnb s.

Lemma syn_pnb_empty : syn_pnb empty_egraph.
Proof. intros i c x H. unfold get_class in H. cbn in H. destruct (N.to_nat i); discriminate. Qed.

Lemma syn_pnb_ext : forall s s', ext s s' -> syn_pnb s -> syn_pnb s'.
Proof.
  intros s s' X H i c' x Hc'. pose proof X as (_ & L & Xc).
  pose proof (get_class_lt _ _ _ Hc') as Li. change (List.length (classes s')) with (lc s') in Li. rewrite L in Li.
  destruct (get_class_ok s i Li) as [c Hc]. destruct (Xc _ _ Hc) as (c2 & Hc2 & _ & Sy).
  rewrite Hc' in Hc2. inversion Hc2; subst c2. rewrite Sy. exact (H _ _ x Hc).
Qed.

Theorem syn_pnb_new_walk : forall t p s s5, syn_pnb s -> ectr s mod 4 = 1 -> wshape p = Ok t ->
  new_walk t s s5 -> syn_pnb s5.
Proof.
  intros [sh_t bij_t] p s s5 Hs Hm Hw
    (en1 & c1 & en2 & en3 & s3 & f2o & c2 & synf & i & s3a & sh & bij & s4 & A1 & A2 & A3 & A4 & A5 & A6 & A7 & A8 & A9).
  cbn [fst snd] in A1, A2.
  assert (Nf : forall x, In x (binders synf) -> x mod 4 = 1).
  { rewrite (asf_fresh_binders _ _ _ _ _ _ A4 A5), (synify_enode_binders _ _ _ _ A3), (apply_slotmap_binders _ _ _ A2).
    destruct (refresh_private_spec _ _ _ _ A1) as (_ & F & _). rewrite Forall_forall in F.
    intros x Hx. destruct (F x Hx) as [_ E]. rewrite E. exact Hm. }
  pose proof (cls_synify_enode _ _ _ _ A3) as [C13 _]. cbn [classes set_ctr] in C13.
  pose proof (alloc_eclass_exact _ _ _ _ _ A6) as (_ & _ & C & _).
  set (s2 := set_ctr (set_ctr s3 c2) c2) in *.
  assert (C2 : classes s2 = classes s) by (unfold s2; cbn [classes set_ctr]; exact C13).
  assert (S3a : syn_pnb s3a).
  { intros j cj x Hj. apply (get_class_ext_inv s2 s3a _ C) in Hj. destruct Hj as [Hj|[_ ->]].
    - apply (Hs j). unfold get_class in *. rewrite <- C2. exact Hj.
    - cbn [c_syn]. apply Nf. }
  destruct (s_raw_add i (sh, bij) i _ _ _ A8) as [E34 L34].
  destruct (s_pending_insert sh true _ _ _ A9) as [E45 L45].
  apply (syn_pnb_ext s4 s5 (sem_ext _ _ E45 L45)). apply (syn_pnb_ext s3a s4 (sem_ext _ _ E34 L34)). exact S3a.
Qed.

(* ====================================================================== *)
(* 2. xinv_ok for SC3, KC2                                                 *)
(* ====================================================================== *)

Theorem xinv_closed3 : xinv_ok SC3 KC2.
Proof.
  pose proof xinv_closed as XI.
  constructor.
  - intros s s' E [A B]. split; [exact (xi_SC_ext _ _ XI s s' E A)|exact (syn_pnb_ext s s' E B)].
  - exact (xi_KC_cuR _ _ XI).
  - split; [exact (xi_SC_empty _ _ XI)|exact syn_pnb_empty].
  - exact (xi_KC_empty _ _ XI).
  - intros sh ty s x s' I W M [Sc _] K H. exact (xi_KC_hp _ _ XI sh ty s x s' I W M Sc K H).
  - intros l r s b s' I W M Cl Cr [Sc _] K H. exact (xi_KC_uint _ _ XI l r s b s' I W M Cl Cr Sc K H).
  - intros t p s a s' s5 I W M SO KE [Sc Pn] K Hm Hw L Cv Wf Bp H NW.
    destruct (xi_new _ _ XI t p s a s' s5 I W M SO KE Sc K Hm Hw L Cv Wf Bp H NW) as [Sc5 K5].
    split; [|exact K5]. split; [exact Sc5|]. exact (syn_pnb_new_walk t p s s5 Pn Hm Hw NW).
Qed.

(* ====================================================================== *)
(* 3. the four semantic facts for SC3, KC2                                 *)
(* ====================================================================== *)

Theorem HSh_red_3 : spec_HSh_red_x SC3.
Proof. intros E src s pc1 n2 a b s1 I3 W M Sc. exact (HSh_red_2 E src s pc1 n2 a b s1 I3 W M (proj1 Sc)). Qed.

Theorem HD_sim_3 : spec_HD_sim_x SC3.
Proof. intros E src s0 pc1 w vs pn2 w2 s ab s1 I3 W M Sc. exact (HD_sim_2 E src s0 pc1 w vs pn2 w2 s ab s1 I3 W M (proj1 Sc)). Qed.

Theorem HC_sim_y_3 : spec_HC_sim_y SC3 KC2.
Proof.
  intros E s sh i c bij0 src nd u1 sA cA enode0 i0 enode i1 sB t hit pc1 sh2 pc2 ab s1
    I3 W M Sc Kc S Hh Hc Hp0 Hnd HA HcA Hen Hi0 HB IB WB MB ScB.
  exact (HC_sim_y_proved E s sh i c bij0 src nd u1 sA cA enode0 i0 enode i1 sB t hit pc1 sh2 pc2 ab s1
           I3 W M (proj1 Sc) Kc S Hh Hc Hp0 Hnd HA HcA Hen Hi0 HB IB WB MB (proj1 ScB)).
Qed.

Theorem HS_readd_3 : spec_HS_readd_x SC3 KC2.
Proof.
  intros E s sh i c bij0 src nd u1 sA cA enode0 i0 enode i1 sB sh' bij m sC n''
    I3 W M Sc Kc S Hh Hc Hp0 Hnd NS0 HA HcA Hen Hi0 HB IB WB MB ScB.
  exact (HS_readd_2 E s sh i c bij0 src nd u1 sA cA enode0 i0 enode i1 sB sh' bij m sC n''
           I3 W M (proj1 Sc) Kc S Hh Hc Hp0 Hnd NS0 HA HcA Hen Hi0 HB IB WB MB (proj1 ScB)).
Qed.

(* ====================================================================== *)
(* 4. extraction: no reserved slot name in extracted terms                 *)
(* ====================================================================== *)

Lemma bd_case : forall bd v, (existsb (N.eqb v) bd = true /\ In v bd) \/ (existsb (N.eqb v) bd = false /\ ~ In v bd).
Proof.
  intros bd v. destruct (existsb (N.eqb v) bd) eqn:Eb.
  - left. split; [reflexivity|]. apply existsb_exists in Eb. destruct Eb as (z & Hz & Ez). apply N.eqb_eq in Ez. subst z. exact Hz.
  - right. split; [reflexivity|]. intros Hin.
    assert (T : existsb (N.eqb v) bd = true) by (apply existsb_exists; exists v; split; [exact Hin|apply N.eqb_refl]).
    congruence.
Qed.

(* the occurrences of a renamed node: a public occurrence renamed by g true, or a binder name renamed by g false *)
Lemma ren_f_occ_split : forall g a bd y, In y (all_occ_f (ren_f g bd a)) ->
  (exists x, In x (pub_occ_f a) /\ ~ In x bd /\ y = g true x) \/
  (exists x, (In x bd \/ In x (binders_f a)) /\ y = g false x).
Proof.
  intros g. induction a as [s|x0|s b IH|p]; intros bd y H; cbn [ren_f all_occ_f] in H.
  - destruct H as [<-|[]]. destruct (bd_case bd s) as [[-> Hb]|[-> Hb]]; cbn [negb].
    + right. exists s. split; [left; exact Hb|reflexivity].
    + left. exists s. split; [left; reflexivity|]. split; [exact Hb|reflexivity].
  - cbn [am] in H. unfold ren_vals, values_vec in H. rewrite map_map in H. apply in_map_iff in H.
    destruct H as ([k v] & <- & Hin). cbn [fst snd].
    assert (Hv : In v (values_vec (am x0))) by (unfold values_vec; apply in_map_iff; exists (k, v); split; [reflexivity|exact Hin]).
    destruct (bd_case bd v) as [[-> Hb]|[-> Hb]]; cbn [negb].
    + right. exists v. split; [left; exact Hb|reflexivity].
    + left. exists v. split; [exact Hv|]. split; [exact Hb|reflexivity].
  - destruct H as [<-|H].
    + right. exists s. split; [right; left; reflexivity|reflexivity].
    + destruct (IH _ _ H) as [(x & Hx & Hn & ->)|(x & Hx & ->)].
      * left. exists x. split; [|split; [|reflexivity]].
        -- cbn [pub_occ_f]. apply filter_In. split; [exact Hx|]. apply negb_true_iff. apply N.eqb_neq.
           intros ->. apply Hn. left; reflexivity.
        -- intros Hb. apply Hn. right; exact Hb.
      * right. exists x. split; [|reflexivity]. cbn [binders_f].
        destruct Hx as [[<-|Hx]|Hx]; [right; left; reflexivity|left; exact Hx|right; right; exact Hx].
  - destruct H.
Qed.

Lemma ren_occ_split : forall g n y, In y (all_occ (ren g n)) ->
  (exists x, In x (pub_occ n) /\ y = g true x) \/ (exists x, In x (binders n) /\ y = g false x).
Proof.
  intros g n y H. unfold all_occ, ren in H. cbn [nargs] in H. apply in_flat_map in H. destruct H as (a' & Ha' & H).
  apply in_map_iff in Ha'. destruct Ha' as (a & <- & Ha).
  destruct (ren_f_occ_split _ _ _ _ H) as [(x & Hx & _ & E)|(x & [[]|Hx] & E)].
  - left. exists x. split; [|exact E]. unfold pub_occ. apply in_flat_map. exists a. split; assumption.
  - right. exists x. split; [|exact E]. unfold binders. apply in_flat_map. exists a. split; assumption.
Qed.

Lemma mod1_not_B : forall x, x mod 4 = 1 -> is_B x = false.
Proof. intros x E. unfold is_B. rewrite E. reflexivity. Qed.

Theorem get_syn_node_nb : forall s i en, syn_pnb s ->
  (forall v, In v (values_vec (am i)) -> is_B v = false) ->
  (forall y, In y (SS s (aid i)) -> get (am i) y <> None) ->
  get_syn_node s i = Ok en -> forall x, In x (all_occ en) -> is_B x = false.
Proof.
  intros s i en Pn V T H y Hy. unfold get_syn_node in H.
  destruct (get_class s (aid i)) as [c|] eqn:Hc; cbn [bind] in H; [|discriminate].
  apply apply_slotmap_ren in H. subst en. unfold SS in T. rewrite Hc in T.
  destruct (ren_occ_split _ _ _ Hy) as [(x & Hx & ->)|(x & Hx & ->)].
  - apply slots_spec in Hx. specialize (T x Hx). unfold asm_g.
    destruct (get (am i) x) as [v|] eqn:G; [|congruence]. apply V. apply get_in in G.
    unfold values_vec. apply in_map_iff. exists (x, v). split; [reflexivity|exact G].
  - unfold asm_g. apply mod1_not_B. exact (Pn _ _ x Hc Hx).
Qed.

(* the child invocations of the extracted node are defined on the public syntactic slots of their classes *)
Lemma get_syn_node_kids_total : forall s i en a, syn_wf s -> get_syn_node s i = Ok en -> In a (app_occ en) ->
  forall y, In y (SS s (aid a)) -> get (am a) y <> None.
Proof.
  intros s i en a W H Ha y Hy. unfold get_syn_node in H.
  destruct (get_class s (aid i)) as [c|] eqn:Hc; cbn [bind] in H; [|discriminate].
  apply apply_slotmap_ren in H. subst en.
  destruct (KidsCov.app_occ_ren _ _ _ Ha) as (a0 & bd & Ha0 & -> & _). cbn [aid am] in *.
  destruct (W _ _ _ Hc Ha0) as [_ T]. specialize (T y Hy). rewrite get_ren_vals.
  destruct (get (am a0) y); [discriminate|congruence].
Qed.

Fixpoint rt_nb (t : rterm) : Prop :=
  match t with
  | RT n ch => (forall x, In x (all_occ n) -> is_B x = false) /\
               (fix go (l : list rterm) : Prop := match l with [] => True | c :: r => rt_nb c /\ go r end) ch
  end.

Lemma rt_nb_iff : forall n ch, rt_nb (RT n ch) <-> (forall x, In x (all_occ n) -> is_B x = false) /\ Forall rt_nb ch.
Proof.
  intros n ch. cbn [rt_nb]. split; intros [A C]; (split; [exact A|]); clear A.
  - induction ch as [|c r IH]; constructor; [apply C|apply IH; apply C].
  - induction C as [|c r Hc C IH]; [exact I|split; assumption].
Qed.

Theorem get_syn_expr_nb : forall fuel s i t, syn_pnb s -> syn_wf s ->
  (forall v, In v (values_vec (am i)) -> is_B v = false) ->
  (forall y, In y (SS s (aid i)) -> get (am i) y <> None) ->
  get_syn_expr fuel s i = Ok t -> rt_nb t.
Proof.
  induction fuel as [|f IH]; intros s i t Pn W V T H; cbn [get_syn_expr] in H; [discriminate|].
  destruct (get_syn_node s i) as [en|] eqn:En; cbn [bind] in H; [|discriminate].
  destruct (mapr (get_syn_expr f s) (app_occ en)) as [cs|] eqn:Ec; cbn [bind] in H; [|discriminate].
  inversion H; subst t; clear H. apply rt_nb_iff. split.
  - intros x Hx. apply KidsFacts.nullify_all_occ in Hx. exact (get_syn_node_nb s i en Pn V T En x Hx).
  - apply Forall_forall. intros c Hc. destruct (mapr_in _ _ _ Ec c Hc) as (a & Ha & Fa).
    apply (IH s a c Pn W); [| |exact Fa].
    + intros v Hv. apply (get_syn_node_nb s i en Pn V T En). eapply vals_all_occ; eauto.
    + exact (get_syn_node_kids_total s i en a W En Ha).
Qed.

Print Assumptions xinv_closed3.
Print Assumptions HSh_red_3.
Print Assumptions HC_sim_y_3.
Print Assumptions HD_sim_3.
Print Assumptions HS_readd_3.
Print Assumptions get_syn_node_nb.
Print Assumptions get_syn_expr_nb.
