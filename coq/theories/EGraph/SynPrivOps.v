(* EGraph/SynPrivOps.v — per-operation lemmas for the private (binder) slot names of the syntactic nodes:
   the binder names of the syntactic node of a newly allocated class are fresh slots drawn from the counter
   during that operation; the state invariants priv3 / bwin that follow. *)
From SE Require Import Slots.SlotMapFacts Group.GroupSound Lang.LangFacts Lang.ShapeFacts Lang.RenameFacts
  Base.TextFacts Parse.Parser
  EGraph.Model EGraph.ModelFacts EGraph.ModelMachine EGraph.UnionFindFacts EGraph.InvariantFacts
  EGraph.UnionInvariantFacts EGraph.AddCoversFacts EGraph.MonotoneFacts EGraph.Mod4Facts EGraph.SoundFacts EGraph.SoundUnion
  EGraph.SoundSyn EGraph.SoundNode EGraph.SoundStruct EGraph.NodePass EGraph.SoundBase EGraph.SoundAddNew EGraph.SoundVals
  EGraph.SoundAddExpr EGraph.SoundPending EGraph.SoundRebuild EGraph.SoundGuard EGraph.SoundFinal EGraph.SoundClosed
  EGraph.Rewrite EGraph.RewriteFacts EGraph.ProgressFacts EGraph.MatchDefs EGraph.MatchFacts EGraph.KidsFacts
  EGraph.MatchVals EGraph.RewriteSoundInst EGraph.RewriteSound EGraph.SynNodup EGraph.SynPriv.
From SE Require Import Sem.Deriv Sem.DerivFacts Sem.AlgebraFacts Sem.EgMachine Explain.CheckerFacts.
Require Import ZArith Lia ZifyBool ZifyN ZifyNat.
Ltac Zify.zify_post_hook ::= Z.div_mod_to_equations.

Local Notation inv := inverse_nocheck.
Local Notation ectr := Model.ctr.

(* ====================================================================== *)
(* 1. the invariants                                                       *)
(* ====================================================================== *)

Definition priv3 (s : egraph) : Prop :=
  (forall i c p, get_class s i = Ok c -> In p (binders (c_syn c)) -> p mod 4 = 1 /\ p < ectr s) /\
  (forall i j ci cj p, get_class s i = Ok ci -> get_class s j = Ok cj -> i <> j ->
      In p (binders (c_syn ci)) -> In p (binders (c_syn cj)) -> False).

(* no syntactic binder name in the window [c0, c1) *)
Definition bwin (c0 c1 : N) (s : egraph) : Prop :=
  forall i c p, get_class s i = Ok c -> In p (binders (c_syn c)) -> p < c0 \/ c1 <= p.

(* ====================================================================== *)
(* 2. the insertion of a weak shape                                        *)
(* ====================================================================== *)

(* the classes of s' that are not classes of s: at most one, its binder names were drawn from the counter *)
Definition new_fresh (s s' : egraph) : Prop :=
  (lc s' <= S (lc s))%nat /\
  forall i c p, get_class s' i = Ok c -> (lc s <= N.to_nat i)%nat -> In p (binders (c_syn c)) ->
    ectr s <= p /\ p < ectr s' /\ p mod 4 = 1.

Lemma add_internal_new_binders : forall t s a s', inv3 s -> ectr s mod 4 = 1 ->
  add_internal t s = Ok (a, s') -> new_fresh s s'.
Proof.
  intros t s a s' I3 Cm H.
  destruct (lookup_internal s t) as [[x|]|e] eqn:Hlk.
  - destruct (add_internal_hit t s x a s' Hlk H) as [_ ->]. split; [lia|].
    intros i c p Hc Li _. pose proof (get_class_lt _ _ _ Hc) as L. lia.
  - destruct (add_internal_walk _ _ _ _ I3 Hlk H) as (en1 & c1 & en2 & en3 & s3 & syn & RP & H2 & H3 & H4 & Sm & I1 & E01 & I3' & E13 & Hb).
    cbv zeta in *.
    destruct (mk_singleton_walk _ _ _ _ I3' Hb H4) as (f2o & c2 & synf & s3a & sh & bij & s4 & s5 & BF & ASF & AL & Hsh & RA & PI & RB & Ea & I2 & I3a & E23 & I4 & E34 & I5 & E45 & I6 & E56).
    cbv zeta in *.
    pose proof (cls_synify_enode _ _ _ _ H3) as [C13 _]. cbn [classes set_ctr] in C13.
    pose proof (alloc_eclass_exact _ _ _ _ _ AL) as (_ & _ & C & _ & _ & Ct).
    set (s2 := set_ctr (set_ctr s3 c2) c2) in *.
    assert (C2 : classes s2 = classes s) by (unfold s2; cbn [classes set_ctr]; exact C13).
    assert (L2 : lc s2 = lc s) by (rewrite C2; reflexivity).
    pose proof (ext_trans _ _ _ E34 (ext_trans _ _ _ E45 E56)) as (Lc & Ll & Xc).
    assert (L3a : lc s3a = S (lc s)).
    { rewrite C, app_length, C2. cbn [List.length]. lia. }
    destruct (refresh_private_spec _ _ _ _ RP) as (_ & F & _). rewrite Forall_forall in F.
    assert (Le13 : c1 <= ectr s3) by (destruct E13 as (T & _); cbn [Model.ctr set_ctr] in T; exact T).
    assert (Le32 : ectr s3 <= ectr s2) by (pose proof (bijection_from_fresh_to_step (slots en3) (ectr s3)) as St; rewrite BF in St; cbn [snd] in St;
      apply ctr_step_le in St; unfold s2; cbn [Model.ctr set_ctr]; exact St).
    split; [rewrite Ll, L3a; lia|].
    intros i c p Hc Li Hp.
    pose proof (get_class_lt _ _ _ Hc) as Lt. change (List.length (classes s')) with (lc s') in Lt. rewrite Ll in Lt.
    destruct (get_class_ok s3a i Lt) as [c0 Hc0]. destruct (Xc _ _ Hc0) as (c' & Hc' & _ & Sy).
    rewrite Hc in Hc'. inversion Hc'; subst c'; clear Hc'. rewrite Sy in Hp.
    apply (get_class_ext_inv s2 s3a _ C) in Hc0. destruct Hc0 as [Hc0|[_ ->]].
    + pose proof (get_class_lt _ _ _ Hc0) as T. change (List.length (classes s2)) with (lc s2) in T. lia.
    + cbn [c_syn] in Hp.
      rewrite (asf_fresh_binders _ _ _ _ _ _ BF ASF), (SynNodup.synify_enode_binders _ _ _ _ H3), (apply_slotmap_binders _ _ _ H2) in Hp.
      destruct (F p Hp) as [[A1 A2] A3]. rewrite Ct in Lc. lia.
  - unfold add_internal in H. apply bind_reads_inv in H. destruct H as (lk & Hlk' & _). rewrite Hlk in Hlk'. discriminate.
Qed.

(* 1. eg_add: the only premises needed are inv3 s and ctr s mod 4 = 1 (both part of RSt E s) *)
Lemma eg_add_new_fresh : forall n s a s', inv3 s -> ectr s mod 4 = 1 -> eg_add n s = Ok (a, s') -> new_fresh s s'.
Proof.
  intros n s a s' I3 Cm H. unfold eg_add in H. apply bind_reads_inv in H. destruct H as (t & _ & H).
  exact (add_internal_new_binders t s a s' I3 Cm H).
Qed.

Theorem eg_add_new_binders : forall E n s a s', RSt E s -> eg_add n s = Ok (a, s') ->
  (lc s' <= S (lc s))%nat /\
  forall i c p, get_class s' i = Ok c -> (lc s <= N.to_nat i)%nat -> In p (binders (c_syn c)) ->
    ectr s <= p /\ p < ectr s' /\ p mod 4 = 1.
Proof. intros E n s a s' (I & _ & _ & _ & Cm) H. exact (eg_add_new_fresh n s a s' I Cm H). Qed.

(* the same, the new classes identified by "not a class of s" *)
Corollary eg_add_new_binders_err : forall E n s a s', RSt E s -> eg_add n s = Ok (a, s') ->
  forall i c p, get_class s' i = Ok c -> (forall c0, get_class s i <> Ok c0) -> In p (binders (c_syn c)) ->
    ectr s <= p /\ p < ectr s' /\ p mod 4 = 1.
Proof.
  intros E n s a s' R H i c p Hc Hn Hp. destruct (eg_add_new_binders E n s a s' R H) as [_ F].
  apply (F i c p Hc); [|exact Hp].
  destruct (Nat.le_gt_cases (lc s) (N.to_nat i)) as [L|L]; [exact L|].
  destruct (get_class_ok s i L) as [c0 Hc0]. destruct (Hn c0 Hc0).
Qed.

(* ====================================================================== *)
(* 3. steps                                                                *)
(* ====================================================================== *)

(* a class of s' is a class of s (same syntactic node) or a new one *)
Lemma ext0_class_cases : forall s s' i c, ext0 s s' -> get_class s' i = Ok c ->
  (exists c0, get_class s i = Ok c0 /\ c_syn c = c_syn c0) \/ (lc s <= N.to_nat i)%nat.
Proof.
  intros s s' i c [_ X] Hc. destruct (Nat.le_gt_cases (lc s) (N.to_nat i)) as [L|L]; [right; exact L|left].
  destruct (get_class_ok s i L) as [c0 Hc0]. destruct (X _ _ Hc0) as (c' & Hc' & _ & Sy).
  rewrite Hc in Hc'. inversion Hc'; subst c'. exists c0. split; [exact Hc0|exact Sy].
Qed.

Lemma priv3_step : forall s s', ext0 s s' -> new_fresh s s' -> priv3 s -> priv3 s'.
Proof.
  intros s s' X [Ln NF] [P1 P2]. pose proof (proj1 X) as Lc. split.
  - intros i c p Hc Hp. destruct (ext0_class_cases s s' i c X Hc) as [(c0 & Hc0 & Sy)|L].
    + rewrite Sy in Hp. destruct (P1 _ _ _ Hc0 Hp) as [A B]. split; [exact A|lia].
    + destruct (NF i c p Hc L Hp) as (A & B & C). split; [exact C|exact B].
  - intros i j ci cj p Hi Hj Nij Pi Pj.
    destruct (ext0_class_cases s s' i ci X Hi) as [(c0 & Hc0 & Sy)|Li];
      destruct (ext0_class_cases s s' j cj X Hj) as [(d0 & Hd0 & Sy')|Lj].
    + rewrite Sy in Pi. rewrite Sy' in Pj. exact (P2 i j c0 d0 p Hc0 Hd0 Nij Pi Pj).
    + rewrite Sy in Pi. destruct (P1 _ _ _ Hc0 Pi) as [_ B]. destruct (NF j cj p Hj Lj Pj) as (A & _). lia.
    + rewrite Sy' in Pj. destruct (P1 _ _ _ Hd0 Pj) as [_ B]. destruct (NF i ci p Hi Li Pi) as (A & _). lia.
    + pose proof (get_class_lt _ _ _ Hi) as Ti. pose proof (get_class_lt _ _ _ Hj) as Tj.
      apply Nij. apply N2Nat.inj. lia.
Qed.

Lemma bwin_step : forall c0 c1 s s', ext0 s s' -> new_fresh s s' -> c1 <= ectr s -> bwin c0 c1 s -> bwin c0 c1 s'.
Proof.
  intros c0 c1 s s' X [_ NF] L B i c p Hc Hp. destruct (ext0_class_cases s s' i c X Hc) as [(d0 & Hd0 & Sy)|Li].
  - rewrite Sy in Hp. exact (B _ _ _ Hd0 Hp).
  - destruct (NF i c p Hc Li Hp) as (A & _). right. lia.
Qed.

Lemma ext_new_fresh : forall s s', ext s s' -> new_fresh s s'.
Proof.
  intros s s' (_ & L & _). split; [lia|]. intros i c p Hc Li _. pose proof (get_class_lt _ _ _ Hc) as T. lia.
Qed.

Theorem priv3_ext : forall s s', ext s s' -> priv3 s -> priv3 s'.
Proof. intros s s' X. apply priv3_step; [apply ext_ext0; exact X|apply ext_new_fresh; exact X]. Qed.

Theorem bwin_ext : forall c0 c1 s s', ext s s' -> bwin c0 c1 s -> bwin c0 c1 s'.
Proof.
  intros c0 c1 s s' X B i c p Hc Hp. destruct (ext0_class_cases s s' i c (ext_ext0 _ _ X) Hc) as [(d0 & Hd0 & Sy)|Li].
  - rewrite Sy in Hp. exact (B _ _ _ Hd0 Hp).
  - destruct X as (_ & L & _). pose proof (get_class_lt _ _ _ Hc) as T. lia.
Qed.

(* steps that keep the classes *)
Lemma priv3_classes : forall s s', classes s' = classes s -> ectr s <= ectr s' -> priv3 s -> priv3 s'.
Proof.
  intros s s' C L [P1 P2]. split.
  - intros i c p Hc Hp. rewrite (get_class_classes s s' i C) in Hc. destruct (P1 _ _ _ Hc Hp) as [A B]. split; [exact A|lia].
  - intros i j ci cj p Hi Hj. rewrite (get_class_classes s s' i C) in Hi. rewrite (get_class_classes s s' j C) in Hj.
    exact (P2 i j ci cj p Hi Hj).
Qed.

Lemma bwin_classes : forall c0 c1 s s', classes s' = classes s -> bwin c0 c1 s -> bwin c0 c1 s'.
Proof. intros c0 c1 s s' C B i c p Hc. rewrite (get_class_classes s s' i C) in Hc. exact (B i c p Hc). Qed.

Theorem priv3_same_graph : forall s s', same_graph s s' -> ectr s <= ectr s' -> priv3 s -> priv3 s'.
Proof. intros s s' (_ & C & _). exact (priv3_classes s s' C). Qed.

Theorem bwin_same_graph : forall c0 c1 s s', same_graph s s' -> bwin c0 c1 s -> bwin c0 c1 s'.
Proof. intros c0 c1 s s' (_ & C & _). exact (bwin_classes c0 c1 s s' C). Qed.

Theorem priv3_empty : priv3 empty_egraph.
Proof.
  split.
  - intros i c p H. unfold get_class in H. cbn in H. destruct (N.to_nat i); discriminate.
  - intros i j ci cj p H. unfold get_class in H. cbn in H. destruct (N.to_nat i); discriminate.
Qed.

Theorem bwin_empty : forall c0 c1, bwin c0 c1 empty_egraph.
Proof. intros c0 c1 i c p H. unfold get_class in H. cbn in H. destruct (N.to_nat i); discriminate. Qed.

(* a step that only draws fresh slots *)
Theorem priv3_synify_app_id : forall a s a' s', synify_app_id a s = Ok (a', s') -> priv3 s -> priv3 s'.
Proof.
  intros a s a' s' H. apply priv3_same_graph; [exact (sg_synify_app_id a s a' s' H)|].
  exact (proj2 (s_synify_app_id a s a' s' H)).
Qed.

Theorem bwin_synify_app_id : forall c0 c1 a s a' s', synify_app_id a s = Ok (a', s') -> bwin c0 c1 s -> bwin c0 c1 s'.
Proof. intros c0 c1 a s a' s' H. apply bwin_same_graph. exact (sg_synify_app_id a s a' s' H). Qed.

(* ====================================================================== *)
(* 4. eg_add keeps priv3 / bwin                                            *)
(* ====================================================================== *)

Theorem priv3_eg_add : forall E n s a s', RSt E s -> priv3 s -> eg_add n s = Ok (a, s') -> priv3 s'.
Proof.
  intros E n s a s' (I & _ & _ & _ & Cm) P H. destruct (eg_add_covers n s a s' I H) as (_ & X & _).
  exact (priv3_step s s' X (eg_add_new_fresh n s a s' I Cm H) P).
Qed.

Theorem bwin_eg_add : forall E c0 c1 n s a s', RSt E s -> c1 <= ectr s -> bwin c0 c1 s -> eg_add n s = Ok (a, s') -> bwin c0 c1 s'.
Proof.
  intros E c0 c1 n s a s' (I & _ & _ & _ & Cm) L B H. destruct (eg_add_covers n s a s' I H) as (_ & X & _).
  exact (bwin_step c0 c1 s s' X (eg_add_new_fresh n s a s' I Cm H) L B).
Qed.

(* ====================================================================== *)
(* 5. eg_union, add_expr                                                   *)
(* ====================================================================== *)

Theorem priv3_eg_union : forall E s l r tl tr b s', RSt E s -> covers s l -> covers s r ->
  handle_ok E s l tl -> handle_ok E s r tr -> eg_union l r s = Ok (b, s') -> priv3 s -> priv3 s'.
Proof.
  intros E s l r tl tr b s' R Cl Cr Ol Or H. destruct (RSt_eg_union E s l r tl tr b s' R Cl Cr Ol Or H) as [_ X].
  exact (priv3_ext s s' X).
Qed.

Theorem bwin_eg_union : forall E c0 c1 s l r tl tr b s', RSt E s -> covers s l -> covers s r ->
  handle_ok E s l tl -> handle_ok E s r tr -> eg_union l r s = Ok (b, s') -> bwin c0 c1 s -> bwin c0 c1 s'.
Proof.
  intros E c0 c1 s l r tl tr b s' R Cl Cr Ol Or H. destruct (RSt_eg_union E s l r tl tr b s' R Cl Cr Ol Or H) as [_ X].
  exact (bwin_ext c0 c1 s s' X).
Qed.

(* add_expr is a sequence of eg_add's: every state predicate kept by the eg_add step is kept *)
Section AddExprSteps.
  Variable Q : egraph -> Prop.
  Hypothesis Q_step : forall s s', inv3 s -> ectr s mod 4 = 1 -> ext0 s s' -> new_fresh s s' -> Q s -> Q s'.

  Lemma add_expr_steps_k : forall k t s a s', (rsize t < k)%nat -> inv3 s -> ectr s mod 4 = 1 -> Q s ->
    add_expr t s = Ok (a, s') -> Q s'.
  Proof.
    induction k as [|k IHk]; intros t s a s' Hk I Cm Hq H; [lia|].
    destruct t as [n ch]. rewrite add_expr_unfold in H.
    apply mbind_inv in H. destruct H as (l & s1 & Hgo & H).
    assert (G : forall ch0, (forall c, In c ch0 -> (rsize c < k)%nat) ->
                forall s0 l0 s2, inv3 s0 -> ectr s0 mod 4 = 1 -> Q s0 -> add_children ch0 s0 = Ok (l0, s2) ->
                inv3 s2 /\ ectr s2 mod 4 = 1 /\ Q s2).
    { clear -IHk. induction ch0 as [|c r IHr]; intros Hs s0 l0 s2 I0 M0 Q0 H; cbn [add_children] in H.
      - inversion H; subst. auto.
      - apply mbind_inv in H. destruct H as (a0 & s1 & H1 & H).
        pose proof (IHk c s0 a0 s1 (Hs c (or_introl eq_refl)) I0 M0 Q0 H1) as Q1.
        pose proof (proj2 (add_expr_ctr_grows c s0 a0 s1 H1) M0) as M1.
        destruct (add_expr_covers c s0 a0 s1 I0 H1) as (I1 & _ & _).
        apply mbind_inv in H. destruct H as (r' & s3 & H3 & H). inversion H; subst l0 s3; clear H.
        exact (IHr (fun c' Hc' => Hs c' (or_intror Hc')) s1 r' s2 I1 M1 Q1 H3). }
    assert (Hsz : forall c, In c ch -> (rsize c < k)%nat).
    { intros c Hc. pose proof (rsize_child n ch c Hc). lia. }
    destruct (G ch Hsz s l s1 I Cm Hq Hgo) as (I1 & M1 & Q1).
    destruct (Nat.ltb _ _); [discriminate|].
    destruct (eg_add_covers _ s1 a s' I1 H) as (_ & X & _).
    exact (Q_step s1 s' I1 M1 X (eg_add_new_fresh _ s1 a s' I1 M1 H) Q1).
  Qed.

  Lemma add_expr_steps : forall t s a s', inv3 s -> ectr s mod 4 = 1 -> Q s -> add_expr t s = Ok (a, s') -> Q s'.
  Proof. intros t s a s'. exact (add_expr_steps_k (S (rsize t)) t s a s' (Nat.lt_succ_diag_r _)). Qed.
End AddExprSteps.

Theorem priv3_add_expr : forall E tm s a s', RSt E s -> priv3 s -> add_expr tm s = Ok (a, s') -> priv3 s'.
Proof.
  intros E tm s a s' (I & _ & _ & _ & Cm) P H.
  apply (add_expr_steps priv3 (fun s0 s1 _ _ X NF => priv3_step s0 s1 X NF) tm s a s' I Cm P H).
Qed.

Theorem bwin_add_expr : forall E c0 c1 tm s a s', RSt E s -> c1 <= ectr s -> bwin c0 c1 s ->
  add_expr tm s = Ok (a, s') -> bwin c0 c1 s'.
Proof.
  intros E c0 c1 tm s a s' (I & _ & _ & _ & Cm) L B H.
  refine (proj2 (add_expr_steps (fun s0 => c1 <= ectr s0 /\ bwin c0 c1 s0) _ tm s a s' I Cm (conj L B) H)).
  intros s0 s1 _ _ X NF [L0 B0]. split; [pose proof (proj1 X); lia|exact (bwin_step c0 c1 s0 s1 X NF L0 B0)].
Qed.

(* all the classes allocated by add_expr: their binder names were drawn from the counter during the run *)
Definition new_fresh_all (s s' : egraph) : Prop :=
  forall i c p, get_class s' i = Ok c -> (lc s <= N.to_nat i)%nat -> In p (binders (c_syn c)) ->
    ectr s <= p /\ p < ectr s' /\ p mod 4 = 1.

Lemma new_fresh_all_trans : forall s0 s1 s2, ext0 s0 s1 -> new_fresh_all s0 s1 -> ext0 s1 s2 -> new_fresh_all s1 s2 ->
  new_fresh_all s0 s2.
Proof.
  intros s0 s1 s2 X01 N01 X12 N12 i c p Hc Li Hp. pose proof (proj1 X01) as L01. pose proof (proj1 X12) as L12.
  destruct (ext0_class_cases s1 s2 i c X12 Hc) as [(d0 & Hd0 & Sy)|L1].
  - rewrite Sy in Hp. destruct (N01 i d0 p Hd0 Li Hp) as (A & B & C). split; [exact A|]. split; [lia|exact C].
  - destruct (N12 i c p Hc L1 Hp) as (A & B & C). split; [lia|]. split; [exact B|exact C].
Qed.

Theorem add_expr_new_binders : forall E tm s a s', RSt E s -> add_expr tm s = Ok (a, s') ->
  forall i c p, get_class s' i = Ok c -> (lc s <= N.to_nat i)%nat -> In p (binders (c_syn c)) ->
    ectr s <= p /\ p < ectr s' /\ p mod 4 = 1.
Proof.
  intros E tm s a s' (I & _ & _ & _ & Cm) H.
  refine (proj2 (add_expr_steps (fun s1 => ext0 s s1 /\ new_fresh_all s s1) _ tm s a s' I Cm _ H)).
  - intros s0 s1 _ _ X NF [X0 N0]. split; [exact (ext0_trans _ _ _ X0 X)|].
    exact (new_fresh_all_trans s s0 s1 X0 N0 X (proj2 NF)).
  - split; [apply ext0_refl|]. intros i c p Hc Li _. pose proof (get_class_lt _ _ _ Hc) as T. lia.
Qed.

Print Assumptions add_internal_new_binders.
Print Assumptions eg_add_new_binders.
Print Assumptions eg_add_new_binders_err.
Print Assumptions priv3_step.
Print Assumptions bwin_step.
Print Assumptions priv3_eg_add.
Print Assumptions bwin_eg_add.
Print Assumptions priv3_ext.
Print Assumptions bwin_ext.
Print Assumptions priv3_same_graph.
Print Assumptions bwin_same_graph.
Print Assumptions priv3_empty.
Print Assumptions bwin_empty.
Print Assumptions priv3_synify_app_id.
Print Assumptions bwin_synify_app_id.
Print Assumptions priv3_eg_union.
Print Assumptions bwin_eg_union.
Print Assumptions priv3_add_expr.
Print Assumptions bwin_add_expr.
Print Assumptions add_expr_new_binders.
