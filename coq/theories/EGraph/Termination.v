(* EGraph/Termination.v — C08, TERMINATION HALF: existence of sufficient fuel.  Assembly.

   Files (build order, after NoErrorLimits.v):
     ModelFuel.v          the fuel-parametric model (run_ops_f ph, ph = three fuels) + agreement with Model.v
     TerminationMeasure.v weight Aw s = live classes + their slots; monotone along pext
     TerminationSym.v     gcount_fact: group order <= (number of slots)!
     TerminationRank.v    rk : egraph -> nat, strictly decreasing whenever `progress` moves (no allocation)
     TerminationBase.v    totality combinators (totM)
     TerminationUnion.v   union_internal terminates: fuel > Aw s suffices                     [UNCONDITIONAL]
     TerminationRebuild.v worklist schema; rebuild settles / rebuild_f terminates              [from a round lemma]
     TerminationRound.v   the round lemma reduced to ROUND_QUIET
     TerminationHp*.v     the hp_loop (see there)            TerminationQuiet.v  ROUND_QUIET from HP_quiet (see there)
     TerminationExp.v     vm_compute instrumentation
     Termination.v        this file.

   PROVED WITHOUT HYPOTHESES (closed under the global context):
     union_internal_terminates_bound : kinv s -> hce E s -> covers s l -> covers s r -> (Aw s < f)%nat ->
                                       exists res, union_internal f l r s = Ok res
     union_internal_terminates       : ... -> exists f res, union_internal f l r s = Ok res
     union_internal_total_post       : ... the result keeps kinv, hce, ext and does not increase Aw
     shrink_slots_total_proper       : shrink_slots (union_internal f) with a proper cap is total for Aw s <= f and
                                       STRICTLY decreases Aw
     rk_progress, Aw_progress, gcount_fact, pext_handle_pending
     run_ops_f_agrees / run_ops_f_mono / run_ops_f_indep / run_ops_model (ModelFuel.v)
     run_ops_f_total_or_model_fuel   : a well-formed history either succeeds in the parametric model for EVERY fuel
                                       assignment >= Model.v's constants (same result), or Model.v's run is OutOfFuel.
   PROVED FROM THE ONE OPEN SLOT-LEVEL LEMMA `HP_cap_proper` (TerminationHp.v; a Definition taken as a premise, like HC_hit was:
   "when the subset test of the hp_loop fails, the cap computed by handle_shrink_in_upwards_merge is a proper subset";
   vm_compute-checked on 10953 loop rounds in TerminationHpChk.v; NOT derivable from the existing invariants — it needs a
   new run invariant tying the renaming between stored node and syntactic node of its source to the union-find maps):
     hp_round_strict, hp_loop_settles, hp_loop_settled_value, hp_loop_terminates_small (no OutOfFuel at all if Aw s <= 400), HP_quiet_proved
     round_quiet_from_cap   : HP_cap_proper -> ROUND_QUIET   (a round with unchanged progress leaves the worklist literally unchanged)
     round_measure_from_cap : HP_cap_proper -> every successful round of the worklist decreases (rk, |pending|) lexicographically
     rebuild_settles_from_cap : HP_cap_proper -> Jm noex s -> Kx s -> Model.v's worklist loop settles:
                              exists f, forall f' >= f, rebuild f' s = rebuild f s, settled value Ok (with Jm, Kx, empty worklist)
                              or Err OutOfFuel of an INNER constant (hp_loop 100 / uint)
   PROVED FROM SECTION HYPOTHESES about the parametric functions (transfer of the Ok-direction invariants, see below):
     rebuild_f_terminates   (round_f ->)      exists ph f s', rebuild_f ph f s = Ok (tt, s')
     operations_terminate_f / _f1 (op_add_f, op_union_f ->)  exists ph hs s, run_ops_f ph terms ops [] empty_egraph = Ok (hs, s)
   NO NON-TERMINATION FOUND: TerminationExp.v (36 vm_compute tables; > 25000 histories over 4 term pools, depth 2-3): every
   rebuild round either moves the progress measure or removes exactly the popped entry; every failing hp_loop test is followed
   by a strict decrease of the slot total.
   WHY HYPOTHESES REMAIN for the parametric model: the Ok-direction invariant lemmas (Jm_handle_pending, Kx_handle_pending,
   Jm_uint, Kx_uint, xinv_closed, ...: some 80 files) are stated for Model.v's functions with the constants 400/100/2000
   inside; their proofs never use the values, but the statements do not transfer to `handle_pending_f ph` for ph above the
   constants without replaying those files.  Everything about `union_internal` is stated for all fuels, hence unconditional. *)
From SE Require Import EGraph.Model EGraph.ModelFacts EGraph.ModelMachine EGraph.UnionFindFacts EGraph.UnionInvariantFacts
  EGraph.KidsFacts EGraph.RepFacts EGraph.OpsPreFacts EGraph.HashconsFacts
  EGraph.NoErrorBase EGraph.NoErrorTop EGraph.NoErrorAddDef EGraph.NoError EGraph.NoErrorFuel EGraph.ModelFuel
  EGraph.TerminationMeasure EGraph.TerminationSym EGraph.TerminationRank EGraph.TerminationBase EGraph.TerminationUnion
  EGraph.TerminationRebuild EGraph.TerminationRound EGraph.TerminationHp EGraph.TerminationQuiet.
Require Import ZArith Lia List.
Import ListNotations.

Local Notation ectr := Model.ctr.

(* ------------------------------------------------------------------ *)
(* 1. unconditional: the parametric model and Model.v on well-formed histories *)

Theorem run_ops_f_total_or_model_fuel : forall terms ops, Forall term_static terms -> ops_in_range terms ops ->
  (exists hs s, forall ph, fuels_le model_fuels ph -> run_ops_f ph terms ops [] empty_egraph = Ok (hs, s)) \/
  run_ops terms ops [] empty_egraph = Err OutOfFuel.
Proof.
  intros terms ops HT HR. destruct (ok_or_out_of_fuel terms ops HT HR) as [(hs & s & E)|E]; [left|right; exact E].
  exists hs, s. intros ph L. apply run_ops_f_agrees; assumption.
Qed.

(* a non-fuel error never appears in the parametric model at fuels >= the constants, on a well-formed history,
   UNLESS Model.v ran out of fuel (then the invariants of NoError.v are not available beyond that point) *)
Theorem run_ops_f_no_panic_or_model_fuel : forall terms ops ph e, Forall term_static terms -> ops_in_range terms ops ->
  fuels_le model_fuels ph -> run_ops_f ph terms ops [] empty_egraph = Err e ->
  run_ops terms ops [] empty_egraph = Err OutOfFuel.
Proof.
  intros terms ops ph e HT HR L H. destruct (ok_or_out_of_fuel terms ops HT HR) as [(hs & s & E)|E]; [|exact E].
  rewrite (run_ops_f_agrees ph terms ops [] empty_egraph (hs, s) L E) in H. discriminate H.
Qed.

(* ------------------------------------------------------------------ *)
(* 2. whole histories in the parametric model, from the per-operation statements: the fuels of the finitely many
      operations are combined by fuels_max *)

Section OpsParam.
  Variable Bp : egraph -> Prop.
  Hypothesis Bp_empty : Bp empty_egraph.
  (* per operation: SOME fuel assignment makes the operation succeed and keeps the boundary invariant *)
  Hypothesis op_add_f : forall t s, Bp s -> twf t -> rt_pre (ectr s) t ->
    exists ph a s', add_expr_f ph t s = Ok (a, s') /\ Bp s' /\ ext0 s s' /\ covers s' a.
  Hypothesis op_union_f : forall l r s, Bp s -> covers s l -> covers s r ->
    exists ph b s', eg_union_f ph l r s = Ok (b, s') /\ Bp s' /\ ext s s'.

  Lemma run_ops_f_terminates_gen : forall terms ops hs s, Bp s -> Forall (covers s) hs ->
    Forall (fun t => twf t /\ rt_pre (ectr s) t) terms ->
    ops_in_range_from (List.length terms) (List.length hs) ops ->
    exists ph hs' s', run_ops_f ph terms ops hs s = Ok (hs', s') /\ Bp s' /\ Forall (covers s') hs'.
  Proof.
    intros terms. induction ops as [|o t IH]; intros hs s HB Hc HT HR; cbn [run_ops_f].
    - exists (fuel1 0), hs, s. split; [reflexivity|]. split; assumption.
    - cbn [ops_in_range_from] in HR. destruct o as [k|i j ju].
      + destruct HR as [Hk HR]. destruct (nth_opt_lt_some terms k Hk) as [tm Etm]. rewrite Etm.
        destruct (proj1 (Forall_forall _ _) HT tm (nth_opt_In _ _ _ Etm)) as [TW RP].
        destruct (op_add_f tm s HB TW RP) as (ph0 & a & s1 & H1 & HB1 & E01 & Ca).
        destruct (IH (hs ++ [a]) s1 HB1) as (ph1 & hs' & s' & H2 & HB' & Hc').
        * apply Forall_app. split; [|constructor; [exact Ca|constructor]].
          revert Hc. apply Forall_impl. intros x. apply covers_ext0. exact E01.
        * revert HT. apply Forall_impl. intros t0 [A C]. split; [exact A|]. eapply rt_pre_mono; [exact (proj1 E01)|exact C].
        * rewrite app_length. cbn [List.length]. replace (List.length hs + 1)%nat with (S (List.length hs)) by lia. exact HR.
        * exists (fuels_max ph0 ph1), hs', s'. split; [|split; assumption].
          unfold mbind.
          rewrite (fle_ok _ _ _ _ _ (fle_add_expr_f ph0 (fuels_max ph0 ph1) (fuels_max_l ph0 ph1) tm) H1).
          exact (run_ops_f_mono ph1 (fuels_max ph0 ph1) terms t (hs ++ [a]) s1 (hs', s') (fuels_max_r ph0 ph1) H2).
      + destruct HR as (Hi & Hj & HR).
        destruct (nth_opt_lt_some hs i Hi) as [a Ea]. destruct (nth_opt_lt_some hs j Hj) as [b Eb]. rewrite Ea, Eb.
        pose proof (proj1 (Forall_forall _ _) Hc a (nth_opt_In _ _ _ Ea)) as Ca.
        pose proof (proj1 (Forall_forall _ _) Hc b (nth_opt_In _ _ _ Eb)) as Cb.
        destruct (op_union_f a b s HB Ca Cb) as (ph0 & u & s1 & H1 & HB1 & E1).
        destruct (IH hs s1 HB1) as (ph1 & hs' & s' & H2 & HB' & Hc').
        * revert Hc. apply Forall_impl. intros x. apply covers_ext. exact E1.
        * revert HT. apply Forall_impl. intros t0 [A C]. split; [exact A|]. eapply rt_pre_mono; [exact (proj1 E1)|exact C].
        * exact HR.
        * exists (fuels_max ph0 ph1), hs', s'. split; [|split; assumption].
          unfold mbind.
          rewrite (fle_ok _ _ _ _ _ (fle_eg_union_f ph0 (fuels_max ph0 ph1) (fuels_max_l ph0 ph1) a b) H1).
          exact (run_ops_f_mono ph1 (fuels_max ph0 ph1) terms t hs s1 (hs', s') (fuels_max_r ph0 ph1) H2).
  Qed.

  Theorem operations_terminate_f : forall terms ops, Forall term_static terms -> ops_in_range terms ops ->
    exists ph hs s, run_ops_f ph terms ops [] empty_egraph = Ok (hs, s).
  Proof.
    intros terms ops HT HR.
    destruct (run_ops_f_terminates_gen terms ops [] empty_egraph Bp_empty) as (ph & hs & s & H & _); [constructor| |exact HR|].
    - revert HT. apply Forall_impl. intros t Ht. split; [apply term_static_twf|apply term_static_rt_pre]; exact Ht.
    - exists ph, hs, s. exact H.
  Qed.

  (* with one number for all fuels; and: the parametric model is TOTAL from that number on, with a fuel-independent result *)
  Corollary operations_terminate_f1 : forall terms ops, Forall term_static terms -> ops_in_range terms ops ->
    exists k hs s, forall k', (k <= k')%nat -> run_ops_f (fuel1 k') terms ops [] empty_egraph = Ok (hs, s).
  Proof.
    intros terms ops HT HR. destruct (operations_terminate_f terms ops HT HR) as (ph & hs & s & H).
    exists (Nat.max (f_ui ph) (Nat.max (f_hp ph) (f_rb ph))), hs, s. intros k' L.
    apply (run_ops_f_mono ph (fuel1 k')); [|exact H]. unfold fuels_le, fuel1. cbn [f_ui f_hp f_rb]. lia.
  Qed.
End OpsParam.

(* ------------------------------------------------------------------ *)
(* 3. Model.v's loops settle, from the ONE open slot-level lemma HP_cap_proper (TerminationHp.v: when the subset test of the
      hp_loop fails, the cap computed by handle_shrink_in_upwards_merge is a PROPER subset; checked by vm_compute on 10953
      rounds in TerminationHpChk.v, not derivable from the existing invariants) *)

Theorem round_quiet_from_cap : HP_cap_proper -> ROUND_QUIET.
Proof. intros Hc. exact (round_quiet_proved (HP_quiet_proved Hc)). Qed.

Theorem rebuild_settles_from_cap : HP_cap_proper -> forall s, Jm noex s -> Kx s ->
  exists f, (forall f', (f <= f')%nat -> rebuild f' s = rebuild f s) /\
            ((exists s', rebuild f s = Ok (tt, s') /\ Jm noex s' /\ Kx s' /\ pending s' = []) \/ rebuild f s = Err OutOfFuel).
Proof. intros Hc. exact (rebuild_settles_quiet (round_quiet_from_cap Hc)). Qed.

(* the measure lemma of rebuild, as a theorem from HP_cap_proper: every successful round of the worklist strictly decreases
   (rk, number of pending entries) lexicographically *)
Theorem round_measure_from_cap : HP_cap_proper -> forall s sh ty rest u s', Jm noex s -> Kx s -> pending s = (sh, ty) :: rest ->
  handle_pending sh ty (set_pending s rest) = Ok (u, s') ->
  (rk s' < rk s)%nat \/ (rk s' = rk s /\ (List.length (pending s') <= List.length rest)%nat).
Proof. intros Hc. exact (round_measure_rk (round_quiet_from_cap Hc)). Qed.

Print Assumptions round_quiet_from_cap.
Print Assumptions rebuild_settles_from_cap.
Print Assumptions round_measure_from_cap.
Print Assumptions hp_loop_settles.
Print Assumptions hp_loop_terminates_small.
Print Assumptions run_ops_f_total_or_model_fuel.
Print Assumptions run_ops_f_no_panic_or_model_fuel.
Print Assumptions operations_terminate_f.
Print Assumptions operations_terminate_f1.
Print Assumptions union_internal_terminates_bound.
Print Assumptions union_internal_terminates.
Print Assumptions rebuild_settles_quiet.
Print Assumptions rebuild_f_terminates.
