(* EGraph/TerminationBase.v — TOTALITY combinators for the e-graph model (C08, termination half).
   `totM m s` : the action m returns Ok on s.  The combinators mirror NoErrorBase.v's `nf_*` (no non-fuel error)
   one for one, so that the walks of NoErrorUnion.v can be replayed with "Ok" instead of "no non-fuel error". *)
From SE Require Import Slots.SlotMapFacts Group.GroupSound Lang.LangFacts Lang.ShapeFacts
  EGraph.Model EGraph.ModelFacts EGraph.ModelMachine EGraph.UnionFindFacts EGraph.InvariantFacts
  EGraph.UnionInvariantFacts EGraph.AddCoversFacts EGraph.NoErrorBase.
Require Import ZArith Lia List.
Import ListNotations.

Definition totM {A} (m : M A) (s : egraph) : Prop := tot (m s).

Lemma tot_ok : forall A (a : A), tot (Ok a).
Proof. intros A a. exists a. reflexivity. Qed.

Lemma tt_ret : forall A (a : A) s, totM (ret a) s.
Proof. intros A a s. apply tot_ok. Qed.

Lemma tt_bind : forall A C (m : M A) (k : A -> M C) s,
  totM m s -> (forall a s', m s = Ok (a, s') -> totM (k a) s') -> totM (mbind m k) s.
Proof.
  intros A C m k s [[a s'] Hm] Hk. unfold totM, mbind in *. specialize (Hk a s' Hm). rewrite Hm. exact Hk.
Qed.

Lemma tt_reads : forall A (f : egraph -> res A) s, tot (f s) -> totM (reads f) s.
Proof. intros A f s [a H]. unfold totM, reads. rewrite H. apply tot_ok. Qed.

Lemma tt_lift : forall A (r : res A) s, tot r -> totM (Model.lift r) s.
Proof. intros A r s [a H]. unfold totM, Model.lift. rewrite H. apply tot_ok. Qed.

Lemma tt_gets : forall A (f : egraph -> A) s, totM (gets f) s.
Proof. intros A f s. apply tot_ok. Qed.

Lemma tt_modify : forall f s, totM (modify f) s.
Proof. intros f s. apply tot_ok. Qed.

Lemma tt_fresh : forall s, totM fresh s.
Proof. intros s. apply tot_ok. Qed.

Lemma tt_with_ctr : forall A (f : N -> A * N) s, totM (with_ctr f) s.
Proof. intros A f s. unfold totM, with_ctr. destruct (f (Model.ctr s)). apply tot_ok. Qed.

Lemma tt_pending_insert : forall sh ty s, totM (pending_insert sh ty) s.
Proof. intros. apply tot_ok. Qed.

Lemma tt_pending_touch : forall sh ty s, totM (pending_touch sh ty) s.
Proof. intros. apply tot_ok. Qed.

Lemma tt_bind_reads : forall A C (f : egraph -> res A) (k : A -> M C) s,
  tot (f s) -> (forall a, f s = Ok a -> totM (k a) s) -> totM (mbind (reads f) k) s.
Proof.
  intros A C f k s [a Hf] Hk. unfold totM, mbind, reads in *. specialize (Hk a Hf). rewrite Hf. exact Hk.
Qed.

Lemma tt_bind_lift : forall A C (r : res A) (k : A -> M C) s,
  tot r -> (forall a, r = Ok a -> totM (k a) s) -> totM (mbind (Model.lift r) k) s.
Proof.
  intros A C r k s [a Hr] Hk. unfold totM, mbind, Model.lift in *. specialize (Hk a Hr). rewrite Hr. exact Hk.
Qed.

Lemma tt_iterM_inv : forall A (f : A -> M unit) (I : egraph -> Prop) l s,
  I s ->
  (forall x s0, In x l -> I s0 -> totM (f x) s0) ->
  (forall x s0 u s1, In x l -> I s0 -> f x s0 = Ok (u, s1) -> I s1) ->
  totM (iterM f l) s.
Proof.
  intros A f I. induction l as [|x t IH]; intros s Hs Hn Hp; cbn [iterM]; [apply tt_ret|].
  apply tt_bind.
  - apply Hn; [left; reflexivity|exact Hs].
  - intros u s1 H1. apply IH.
    + eapply Hp; [left; reflexivity|exact Hs|exact H1].
    + intros y s0 Hy. apply Hn. right. exact Hy.
    + intros y s0 u0 s2 Hy. apply Hp. right. exact Hy.
Qed.

Lemma tt_upd_class : forall i f s, (N.to_nat i < lc s)%nat -> totM (upd_class i f) s.
Proof.
  intros i f s H. unfold totM, upd_class. destruct (nth_opt_some_lt (classes s) _ H) as [c ->]. apply tot_ok.
Qed.

Lemma tt_unionfind_set : forall i p s, (N.to_nat i <= lu s)%nat -> totM (unionfind_set i p) s.
Proof.
  intros i p s H. unfold totM, unionfind_set. cbv zeta.
  destruct (Nat.eqb (lu s) (N.to_nat i)) eqn:E1; [apply tot_ok|].
  destruct (Nat.ltb (N.to_nat i) (lu s)) eqn:E2; [apply tot_ok|].
  apply Nat.eqb_neq in E1. apply Nat.ltb_ge in E2. lia.
Qed.

Lemma tt_pc_congruence : forall a b s, totM (pc_congruence a b) s.
Proof.
  intros a b s. unfold pc_congruence.
  apply tt_bind_lift; [apply wshape_tot|]. intros sa _.
  apply tt_bind_lift; [apply wshape_tot|]. intros sb _.
  apply tt_bind; [apply tt_with_ctr|]. intros m s1 _.
  apply tt_bind; [apply tt_with_ctr|]. intros x s2 _.
  apply tt_bind; [apply tt_with_ctr|]. intros bm s3 _. apply tt_ret.
Qed.

(* Ok = no non-fuel error + no fuel error *)
Lemma nf_not_fuel_tot : forall A (m : M A) s, nf m s -> m s <> Err OutOfFuel -> totM m s.
Proof.
  intros A m s Hn Hf. unfold totM, tot, nf, nfr in *. destruct (m s) as [a|e]; [exists a; reflexivity|].
  exfalso. apply Hf. rewrite (Hn e eq_refl). reflexivity.
Qed.
