(* EGraph/TerminationCap.v — HP_cap_proper PROVED for the hp_loop states that carry source coherence, and the
   theorems of TerminationHp.v re-derived without any hypothesis.

   hpIx s src en i : TerminationHp.hpI, with the entry additionally carrying `srcok_inv sA i0 en0 src` (SelfSymDefs.v: the node
                     in flight is the syntactic node of src renamed by some g with eg-equal children, and src[g] is eg-equal
                     to the class invocation).  At the entry of handle_pending this is what `srcx noex s` (a reachable run
                     invariant, SelfSymFacts.reachable_sse_srcx / handle_pending_keeps) says about the popped entry:
                     `hp_entry_flight`, `hpIx_of_context`.
   hpIx_flight     : srcok_inv holds in every state of the loop.
   HP_cap_proper_x : the statement of TerminationHp.HP_cap_proper with hpIx for hpI — a THEOREM (TerminationCapCore.cap_core).
   hp_round_strict_x, hp_loop_settles_x, hp_loop_settled_value_x, hp_loop_Aw_x, hp_loop_terminates_small_x :
                     the theorems of Section Strict of TerminationHp.v for hpIx, unconditional.
   HP_quiet_x      : HP_quiet with the additional premise `srcok s i sh bij0 src` on the popped entry. *)
From SE Require Import Slots.SlotMapFacts Group.GroupSound Lang.LangFacts Lang.ShapeFacts Lang.RenameFacts
  EGraph.Model EGraph.ModelFacts EGraph.ModelMachine EGraph.UnionFindFacts EGraph.InvariantFacts
  EGraph.UnionInvariantFacts EGraph.AddCoversFacts EGraph.Mod4Facts EGraph.MatchDefs EGraph.HashconsFacts
  EGraph.KidsFacts EGraph.SoundFacts EGraph.SoundSyn EGraph.SoundUnion EGraph.SoundStruct EGraph.UsesConvDef EGraph.SoundClosed
  EGraph.UsesConv EGraph.PendingFacts EGraph.NoErrorBase EGraph.NoErrorShape EGraph.NoErrorInv EGraph.NoErrorUnion
  EGraph.NoErrorPendingSH EGraph.NoErrorPending EGraph.NoErrorFuel EGraph.MonotoneFacts EGraph.ProgressFacts
  EGraph.TerminationMeasure EGraph.TerminationBase EGraph.TerminationUnion
  EGraph.NodeCong EGraph.KidEqFacts EGraph.SelfSymDefs
  EGraph.TerminationHp EGraph.TerminationHpFacts EGraph.TerminationCapCore.
Require Import ZArith Lia List.
Import ListNotations.

Local Notation ectr := Model.ctr.

(* ------------------------------------------------------------------ *)
(* 1. the states of the loop, with source coherence *)

Inductive hpIx : egraph -> N -> node -> appid -> Prop :=
| hpIx_entry : forall sA src en0 i0, hp_entry sA src en0 i0 -> srcok_inv sA i0 en0 src -> hpIx sA src en0 i0
| hpIx_step : forall s src en i s1 en' i', hpIx s src en i -> hp_step src s en i s1 en' i' -> hpIx s1 src en' i'.

Lemma hpIx_hpI : forall s src en i, hpIx s src en i -> hpI s src en i.
Proof.
  intros s src en i H. induction H as [sA src en0 i0 He _|s src en i s1 en' i' _ IH St].
  - apply hpI_entry. exact He.
  - eapply hpI_step; eauto.
Qed.

Theorem hpIx_flight : forall s src en i, hpIx s src en i -> srcok_inv s i en src.
Proof.
  intros s src en i H. induction H as [sA src en0 i0 _ Fl|s src en i s1 en' i' HI IH St].
  - exact Fl.
  - pose proof (hf_inv _ _ _ (hpI_F _ _ _ _ (hpIx_hpI _ _ _ _ HI))) as Hs.
    destruct St as (_ & u & H1 & He & Hi).
    destruct (inv4_handle_shrink src s u s1 H1 Hs) as [Hs1 X1].
    eapply flight_find; [exact (proj1 Hs1)| |exact He|exact Hi].
    eapply srcok_inv_kmono; [apply mext_kmono; exact X1|exact IH].
Qed.

(* the entry: source coherence of the popped entry in the state before raw_remove_from_class *)
Lemma hp_entry_flight : forall s sh i c bij0 src nd u1 sA cA enode0 i0,
  inv3 s -> get_class s i = Ok c -> na_get (c_nodes c) sh = Some (bij0, src) ->
  apply_slotmap false bij0 sh = Ok nd -> raw_remove_from_class i sh s = Ok (u1, sA) -> get_class sA i = Ok cA ->
  find_enode sA nd = Ok enode0 -> find_applied_id sA {| aid := i; am := identity (c_slots cA) |} = Ok i0 ->
  srcok s i sh bij0 src -> srcok_inv sA i0 enode0 src.
Proof.
  intros s sh i c bij0 src nd u1 sA cA enode0 i0 I3 Hc St Hnd HA HcA Hen Hi0 (c1 & N1 & Hc1 & A1 & S1).
  pose proof (s_raw_remove _ _ _ _ _ HA) as SRA.
  destruct (semR_step4 _ _ SRA (proj1 I3)) as [HsA XA].
  rewrite Hnd in A1. inversion A1; subst N1; clear A1.
  destruct (proj2 (proj2 (proj1 XA)) i c1 Hc1) as (c1' & Hc1' & Inc & _). rewrite HcA in Hc1'. inversion Hc1'; subst c1'.
  apply (flight_find sA {| aid := i; am := identity (c_slots cA) |} nd src enode0 i0 (proj1 HsA)); [|exact Hen|exact Hi0].
  destruct (srcok_inv_kmono s sA _ nd src (mext_kmono _ _ XA) S1) as (csrc & g & l & Hcs & Rk & EN & F & K).
  exists csrc, g, l. repeat (split; [assumption|]). eapply kid_eq_id_shrink; eauto. exact (proj1 HsA).
Qed.

Theorem hpIx_of_context : forall s sh i c bij0 src nd u1 sA cA enode0 i0,
  Jm (fun y => y = sh) s -> Kx s -> na_get (pending s) sh = None ->
  na_get (hashcons s) sh = Some i -> get_class s i = Ok c -> na_get (c_nodes c) sh = Some (bij0, src) ->
  apply_slotmap false bij0 sh = Ok nd -> raw_remove_from_class i sh s = Ok (u1, sA) -> get_class sA i = Ok cA ->
  find_enode sA nd = Ok enode0 -> find_applied_id sA {| aid := i; am := identity (c_slots cA) |} = Ok i0 ->
  srcok s i sh bij0 src -> hpIx sA src enode0 i0.
Proof.
  intros s sh i c bij0 src nd u1 sA cA enode0 i0 J KX Pn Hi Hc St Hnd HA HcA Hen Hi0 SO.
  apply hpIx_entry.
  - exists s, sh, i, c, bij0, nd, u1, cA. repeat (split; [assumption|]). assumption.
  - exact (hp_entry_flight s sh i c bij0 src nd u1 sA cA enode0 i0 (kinv_inv3 _ (jm_kinv _ _ J)) Hc St Hnd HA HcA Hen Hi0 SO).
Qed.

(* ------------------------------------------------------------------ *)
(* 2. THE CAP IS PROPER *)

Theorem HP_cap_proper_x : forall s src en i pc1 n2 a b s', hpIx s src en i ->
  sset_subset (values (am i)) (slots en) = false ->
  pc_from_src_id s src = Ok pc1 -> find_enode s (fst pc1) = Ok n2 ->
  pc_congruence pc1 (n2, snd pc1) s = Ok ((a, b), s') ->
  exists x, In x (values (am a)) /\ ~ In x (values (am b)).
Proof.
  intros s src en i pc1 n2 a b s' HI Tf P1 _ HP.
  pose proof (hpIx_hpI _ _ _ _ HI) as HI0.
  exact (cap_core s i en src pc1 n2 a b s' (hf_inv _ _ _ (hpI_F _ _ _ _ HI0)) (hk_lc _ _ _ _ (hpI_K _ _ _ _ HI0))
           (hpIx_flight _ _ _ _ HI) Tf P1 HP).
Qed.

(* the same for a plain hpI state in which source coherence of the node in flight is given *)
Corollary HP_cap_proper_flight : forall s src en i pc1 n2 a b s', hpI s src en i -> srcok_inv s i en src ->
  sset_subset (values (am i)) (slots en) = false ->
  pc_from_src_id s src = Ok pc1 -> find_enode s (fst pc1) = Ok n2 ->
  pc_congruence pc1 (n2, snd pc1) s = Ok ((a, b), s') ->
  exists x, In x (values (am a)) /\ ~ In x (values (am b)).
Proof.
  intros s src en i pc1 n2 a b s' HI0 Fl Tf P1 _ HP.
  exact (cap_core s i en src pc1 n2 a b s' (hf_inv _ _ _ (hpI_F _ _ _ _ HI0)) (hk_lc _ _ _ _ (hpI_K _ _ _ _ HI0)) Fl Tf P1 HP).
Qed.

(* ------------------------------------------------------------------ *)
(* 3. Section Strict of TerminationHp.v, for hpIx, without hypothesis *)

Theorem hp_round_strict_x : forall s src en i u s1, hpIx s src en i ->
  sset_subset (values (am i)) (slots en) = false ->
  handle_shrink_in_upwards_merge src s = Ok (u, s1) -> (Aw s1 < Aw s)%nat.
Proof.
  intros s src en i u s1 HI Tf H. pose proof (hpI_K _ _ _ _ (hpIx_hpI _ _ _ _ HI)) as [Ks Hh SW L Li Cv].
  unfold handle_shrink_in_upwards_merge in H.
  apply bind_reads_inv in H. destruct H as (pc1 & P1 & H).
  apply bind_reads_inv in H. destruct H as (n2 & F2 & H).
  apply mbind_inv in H. destruct H as ([a b] & s' & HP & H).
  destruct (HP_cap_proper_x s src en i pc1 n2 a b s' HI Tf P1 F2 HP) as (x & Hx & Nx).
  pose proof (pc_congruence_fst _ _ _ _ _ HP) as Fa. cbn [fst] in Fa. subst a.
  destruct (pc_props s src pc1 (kinv_eg_inv s Ks) P1) as (L1 & _).
  destruct (kinv_pc_congruence _ _ _ _ _ Ks HP) as (K1 & E1 & S1).
  pose proof (Aw_pc_congruence _ _ _ _ _ Ks HP) as W1.
  assert (W2 : (Aw s1 < Aw s')%nat).
  { eapply (shrink_uint_strict noex (snd pc1) _ s' x); [exact K1| |exact (lcanon_sem _ _ _ S1 L1)|apply cap_inter_ok|exact Hx| |exact H].
    - eapply hce_pc_congruence; [exact HP|exact Hh].
    - intros Hin. apply Nx. unfold sset_inter in Hin. apply filter_In in Hin. destruct Hin as [_ Hm].
      apply sset_mem_in. exact Hm. }
  lia.
Qed.

Lemma hp_loop_settles_gen_x : forall n s src en i, hpIx s src en i -> (Aw s <= n)%nat ->
  forall f', (S n <= f')%nat -> hp_loop f' src en i s = hp_loop (S n) src en i s.
Proof.
  induction n as [|n IH]; intros s src en i HI Hw f' Hf; (destruct f' as [|f'']; [lia|]); rewrite !hp_loop_S.
  - destruct (sset_subset (values (am i)) (slots en)) eqn:Tf; [reflexivity|].
    destruct (handle_shrink_in_upwards_merge src s) as [[u s1]|e] eqn:H1; [|reflexivity].
    pose proof (hp_round_strict_x s src en i u s1 HI Tf H1). lia.
  - destruct (sset_subset (values (am i)) (slots en)) eqn:Tf; [reflexivity|].
    destruct (handle_shrink_in_upwards_merge src s) as [[u s1]|e] eqn:H1; [|reflexivity].
    destruct (find_enode s1 en) as [en'|e] eqn:He; [|reflexivity].
    destruct (find_applied_id s1 i) as [i'|e] eqn:Hi; [|reflexivity].
    pose proof (hp_round_strict_x s src en i u s1 HI Tf H1) as W.
    apply IH; [|lia|lia].
    eapply hpIx_step; [exact HI|]. split; [exact Tf|]. exists u. split; [exact H1|]. split; [exact He|exact Hi].
Qed.

Theorem hp_loop_settles_x : forall s src en i, hpIx s src en i ->
  exists f, forall f', (f <= f')%nat -> hp_loop f' src en i s = hp_loop f src en i s.
Proof.
  intros s src en i HI. exists (S (Aw s)). intros f' Hf. apply hp_loop_settles_gen_x; [exact HI|lia|exact Hf].
Qed.

Theorem hp_loop_settled_value_x : forall s src en i, hpIx s src en i ->
  exists f, (forall f', (f <= f')%nat -> hp_loop f' src en i s = hp_loop f src en i s) /\
            ((exists r, hp_loop f src en i s = Ok r) \/ hp_loop f src en i s = Err OutOfFuel).
Proof.
  intros s src en i HI. destruct (hp_loop_settles_x s src en i HI) as (f & Hf). exists f. split; [exact Hf|].
  pose proof (hpI_K _ _ _ _ (hpIx_hpI _ _ _ _ HI)) as [Ks Hh SW L Li Cv].
  pose proof (nfK_hp_loop nf_shrink_slots_uint_if noex f src en i s Ks Hh SW L Li Cv) as N. unfold nf in N.
  destruct (hp_loop f src en i s) as [r|e]; [left; exists r; reflexivity|right].
  rewrite (N e eq_refl). reflexivity.
Qed.

Lemma hp_loop_Aw_x : forall f s src en i r sB, hpIx s src en i -> hp_loop f src en i s = Ok (r, sB) ->
  (Aw sB <= Aw s)%nat /\ (Aw sB = Aw s -> sB = s /\ r = (en, i)).
Proof.
  induction f as [|f IH]; intros s src en i r sB HI H; [discriminate H|]. rewrite hp_loop_S in H.
  destruct (sset_subset (values (am i)) (slots en)) eqn:Tf.
  - inversion H; subst. split; [lia|]. intros _. split; reflexivity.
  - destruct (handle_shrink_in_upwards_merge src s) as [[u s1]|e] eqn:H1; [|discriminate H].
    destruct (find_enode s1 en) as [en'|e] eqn:He; [|discriminate H].
    destruct (find_applied_id s1 i) as [i'|e] eqn:Hi; [|discriminate H].
    pose proof (hp_round_strict_x s src en i u s1 HI Tf H1) as W.
    assert (HI1 : hpIx s1 src en' i').
    { eapply hpIx_step; [exact HI|]. split; [exact Tf|]. exists u. split; [exact H1|]. split; [exact He|exact Hi]. }
    destruct (IH s1 src en' i' r sB HI1 H) as [A _]. split; [lia|]. intros Q. lia.
Qed.

(* a round whose test fails is total when the weight is below the constant of uint *)
Lemma tt_handle_shrink_small_x : forall s src en i, hpIx s src en i ->
  sset_subset (values (am i)) (slots en) = false -> (Aw s <= ui_fuel)%nat ->
  totM (handle_shrink_in_upwards_merge src) s.
Proof.
  intros s src en i HI Tf Hw. pose proof (hpI_K _ _ _ _ (hpIx_hpI _ _ _ _ HI)) as [Ks Hh SW L Li Cv].
  pose proof (kinv_uf_ok s Ks) as U. unfold handle_shrink_in_upwards_merge.
  apply tt_bind_reads; [apply pc_from_src_id_tot; assumption|]. intros pc1 P1.
  apply tt_bind_reads.
  { apply find_enode_tot; [exact U|]. exact (pc_from_src_ids_lt s src pc1 U P1). }
  intros n2 F2.
  apply tt_bind; [apply TerminationBase.tt_pc_congruence|]. intros [a b] s' HP.
  destruct (HP_cap_proper_x s src en i pc1 n2 a b s' HI Tf P1 F2 HP) as (x & Hx & Nx).
  pose proof (pc_congruence_fst _ _ _ _ _ HP) as Fa. cbn [fst] in Fa. subst a.
  destruct (pc_props s src pc1 (kinv_eg_inv s Ks) P1) as (L1 & _).
  destruct (kinv_pc_congruence _ _ _ _ _ Ks HP) as (K1 & E1 & S1).
  pose proof (Aw_pc_congruence _ _ _ _ _ Ks HP) as W1.
  destruct (shrink_slots_total_proper noex ui_fuel (snd pc1) (sset_inter (values (am (snd pc1))) (values (am b))) s' x K1
              (hce_pc_congruence _ _ _ _ _ _ HP Hh) (lcanon_sem _ _ _ S1 L1) (cap_inter_ok _ _) Hx) as (s1 & H1 & _).
  - intros Hin. apply Nx. unfold sset_inter in Hin. apply filter_In in Hin. destruct Hin as [_ Hm].
    apply sset_mem_in. exact Hm.
  - lia.
  - exists (tt, s1). exact H1.
Qed.

Lemma hp_loop_total_gen_x : forall n s src en i, hpIx s src en i -> (Aw s <= n)%nat -> (Aw s <= ui_fuel)%nat ->
  exists r, hp_loop (S n) src en i s = Ok r.
Proof.
  induction n as [|n IH]; intros s src en i HI Hn Hw; rewrite hp_loop_S;
    (destruct (sset_subset (values (am i)) (slots en)) eqn:Tf; [eexists; reflexivity|]);
    destruct (tt_handle_shrink_small_x s src en i HI Tf Hw) as [[u s1] H1]; rewrite H1;
    pose proof (hp_round_strict_x s src en i u s1 HI Tf H1) as W; [lia|].
  pose proof (hpI_K _ _ _ _ (hpIx_hpI _ _ _ _ HI)) as HK.
  assert (T1 : tot (find_enode s1 en) /\ tot (find_applied_id s1 i)).
  { destruct HK as [Ks Hh SW L Li Cv].
    destruct (K_handle_shrink noex _ _ _ _ Ks Hh SW H1) as (K1 & Hh1 & SW1 & E1).
    pose proof (kinv_uf_ok s1 K1) as U1. pose proof (kinv_wf s1 K1) as W1. unfold eg_wf in W1.
    assert (Cv1 : Forall (covers s1) (app_occ en)).
    { revert Cv. apply Forall_impl. intros a. apply covers_ext. exact E1. }
    split.
    - apply find_enode_tot; [exact U1|]. intros j Hj. rewrite W1. exact (ids_of_covers s1 en Cv1 j Hj).
    - apply find_applied_id_tot; [exact U1|]. rewrite W1. apply covers_lt.
      eapply covers_ext; [exact E1|]. apply canon_covers. exact (proj2 Li). }
  destruct T1 as [[en' He] [i' Hi]]. rewrite He, Hi.
  apply IH; [|lia|lia].
  eapply hpIx_step; [exact HI|]. split; [exact Tf|]. exists u. split; [exact H1|]. split; [exact He|exact Hi].
Qed.

Theorem hp_loop_terminates_small_x : forall s src en i, hpIx s src en i -> (Aw s <= ui_fuel)%nat ->
  exists r, forall f, (S (Aw s) <= f)%nat -> hp_loop f src en i s = Ok r.
Proof.
  intros s src en i HI Hw. destruct (hp_loop_total_gen_x (Aw s) s src en i HI ltac:(lia) Hw) as [r Hr].
  exists r. intros f Hf. rewrite (hp_loop_settles_gen_x (Aw s) s src en i HI ltac:(lia) f Hf). exact Hr.
Qed.

(* ------------------------------------------------------------------ *)
(* 4. the quiet loop *)

Definition HP_quiet_x : Prop := forall s sh i c bij0 src nd u1 sA cA enode0 i0 fuel enode i1 sB,
  Jm (fun y => y = sh) s -> Kx s -> na_get (pending s) sh = None ->
  na_get (hashcons s) sh = Some i -> get_class s i = Ok c -> na_get (c_nodes c) sh = Some (bij0, src) ->
  apply_slotmap false bij0 sh = Ok nd -> raw_remove_from_class i sh s = Ok (u1, sA) -> get_class sA i = Ok cA ->
  find_enode sA nd = Ok enode0 -> find_applied_id sA {| aid := i; am := identity (c_slots cA) |} = Ok i0 ->
  srcok s i sh bij0 src ->
  hp_loop fuel src enode0 i0 sA = Ok ((enode, i1), sB) ->
  Aw sB = Aw sA -> sB = sA /\ enode = enode0 /\ i1 = i0.

Theorem HP_quiet_x_proved : HP_quiet_x.
Proof.
  intros s sh i c bij0 src nd u1 sA cA enode0 i0 fuel enode i1 sB J KX Pn Hi Hc St Hnd HA HcA Hen Hi0 SO HB Q.
  pose proof (hpIx_of_context s sh i c bij0 src nd u1 sA cA enode0 i0 J KX Pn Hi Hc St Hnd HA HcA Hen Hi0 SO) as HI.
  destruct (hp_loop_Aw_x fuel sA src enode0 i0 (enode, i1) sB HI HB) as [_ E].
  destruct (E Q) as [-> R]. inversion R. auto.
Qed.

Print Assumptions hpIx_flight.
Print Assumptions hpIx_of_context.
Print Assumptions HP_cap_proper_x.
Print Assumptions HP_cap_proper_flight.
Print Assumptions hp_round_strict_x.
Print Assumptions hp_loop_settles_x.
Print Assumptions hp_loop_settled_value_x.
Print Assumptions hp_loop_terminates_small_x.
Print Assumptions HP_quiet_x_proved.
